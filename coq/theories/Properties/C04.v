(* Property C04 - symbolic links resolve as the kernel resolves them.  Statements only.

   IMPLEMENTATION side: [search_node]/[search_loop] of MemFS.v (the lexical walk: a link target is
   spliced into the path string, the walk restarts from the root when the walked prefix changed,
   budget 64).  SPECIFICATION side: [klookup]/[kwalk] of Posix.v (component-wise, physical "..",
   budget 40, search permission on every directory).  [walk_rel] relates the two results: same node
   found / same parent and name of a missing last component / corresponding errno.

   Hypotheses on the heap: [walk_wf] (directories have a single parent, no cycle - consequences of C05's
   invariant), [links_clean] (targets are stored cleaned, as Symlink stores them), the view root is a
   directory.  No hypothesis on permissions: any user.

   Both budgets are 40 followed links; ELOOP is part of the agreement.  What is NOT covered: paths that are not of
   the form "/c1/.../cn" with proper names (handled by Clean: C01_unclean); EvalSymlinks' error KIND on a loop. *)
From Avfs Require Import Base PathModel PathSpec PathProofs PathCleanProofs PathIterProofs.
From Avfs Require Import MemFS MemFile World Posix Inv WalkBridge WalkSym WalkBudget WalkReadlink WalkRel StepEq WalkInv WalkEval.

(* the search-permission test is the same function on both sides *)
Theorem C04_perm_agree : forall (m : meta) (u : user),
  check_permission m OpenLookup u = us_admin u || kperm_bits m u 1.
Proof. exact perm_lookup_agree. Qed.

(* goal 1: no symbolic link met - no heap invariant, no hypothesis on permissions, exact fuel bounds *)
Theorem C04_bridge_nolink : forall (s : fsys) (sv : sview) (cs : list str) (slm : slmode) (follow : bool),
  let v := sv_view sv in
  v_os v = Linux -> Forall good_comp cs -> link_free (f_heap s) (v_root v) cs = true ->
  node_is_dir (f_heap s) (v_root v) = true ->
  length cs < SEARCH_FUEL ->
  walk_rel (f_heap s) (v_user v) (v_root v) (precise_of slm)
    (search_node s v (abs_path cs) slm) (klookup s sv false follow (abs_path cs)).
Proof. exact bridge_nolink_lookup. Qed.

(* the root's own search bit: the implementation tests it before each lookup made in the root, the kernel before
   each lookup made in any directory - a root the caller may not search stops both walks at once *)
Theorem C04_bridge_root_unsearchable :
  forall (h : heap) (v : view), v_os v = Linux ->
  forall (c : str) (cs : list str) (slm : slmode) (follow pm md : bool)
         (fi fk cnt slcount kroot : nat) (saved : option piter) (pi : piter),
  Forall comp_ok (c :: cs) -> before (c :: cs) [] pi ->
  node_is_dir h (v_root v) = true -> kperm h (v_root v) 1 (v_user v) = false ->
  sr_err (search_loop (S fi) h v slm (v_root v) (v_root v) pi slcount saved) = EPermDenied
  /\ kwalk (S fk) h (v_user v) kroot pm follow (v_root v) (c :: cs) cnt md = WErr EACCES.
Proof. exact bridge_root_unsearchable. Qed.

(* goal 2: with symbolic links; SlLstat <-> no-follow, SlStat / SlEval <-> follow.  Both budgets are 40 links
   FOLLOWED (a final link that is not followed does not count, on either side): ELOOP is part of the agreement.
   The only premises besides the heap hypotheses are the two model-fuel ones. *)
Theorem C04_resolve : forall (s : fsys) (sv : sview) (slm : slmode) (cs : list str),
  let v := sv_view sv in
  let h := f_heap s in
  v_os v = Linux -> walk_wf h -> links_clean h -> node_is_dir h (v_root v) = true ->
  Forall good_comp cs ->
  let K := klookup s sv false (follow_of slm) (abs_path cs) in
  let r := search_node s v (abs_path cs) slm in
  K <> WErr EFUEL -> sr_err r <> EFuel ->
  walk_rel h (v_user v) (v_root v) (precise_of slm) r K.
Proof. exact sym_bridge_lookup. Qed.

(* ... the model-fuel hypotheses discharged by sizes: T bounds the components of the stored targets *)
Theorem C04_resolve_sized : forall (s : fsys) (sv : sview) (slm : slmode) (cs : list str) (T : nat),
  let v := sv_view sv in
  let h := f_heap s in
  v_os v = Linux -> walk_wf h -> links_clean h -> ptr_valid h -> tbound h T ->
  node_is_dir h (v_root v) = true ->
  Forall good_comp cs ->
  (slCountMax + 1) * (length cs + slCountMax * T + 1) <= SEARCH_FUEL ->
  length cs + 1 + MAXSYMLINKS * T <= WALK_FUEL ->
  let K := klookup s sv false (follow_of slm) (abs_path cs) in
  let r := search_node s v (abs_path cs) slm in
  walk_rel h (v_user v) (v_root v) (precise_of slm) r K.
Proof. exact sym_bridge_lookup_sized. Qed.

(* ... on the states of C05: every world satisfying the invariant [Inv] (which every reachable world does: C05_reach),
   any view, any user; [links_clean] is the one hypothesis that is not part of [Inv] *)
Theorem C04_resolve_inv : forall (w : world) (vi : nat) (v : view) (cwdn : nat) (slm : slmode) (cs : list str),
  Inv w -> nth_error (w_views w) vi = Some v -> links_clean (f_heap (w_fs w)) -> Forall good_comp cs ->
  let s := w_fs w in
  let sv := {| sv_view := v; sv_cwd := cwdn |} in
  let K := klookup s sv false (follow_of slm) (abs_path cs) in
  let r := search_node s v (abs_path cs) slm in
  K <> WErr EFUEL -> sr_err r <> EFuel ->
  walk_rel (f_heap s) (v_user v) (v_root v) (precise_of slm) r K.
Proof. exact Inv_resolve. Qed.

Theorem C04_inv_walk_wf : forall (h : heap), Inv_heap h -> walk_wf h /\ ptr_valid h.
Proof. intros h I. split; [exact (Inv_heap_walk_wf h I)|exact (Inv_heap_ptr_valid h I)]. Qed.

(* RELATIVE paths: the implementation resolves Abs(cwd, p) lexically from the root, the kernel resolves p from the
   working-directory node.  They agree when the cwd string is a directory walk (link-free, searchable by the caller)
   from the root to that node, for every lexically clean relative p (k leading "..", then proper names; or ".") *)
Theorem C04_resolve_rel : forall (s : fsys) (sv : sview) (slm : slmode) (bs : list str) (x : str),
  let v := sv_view sv in
  let h := f_heap s in
  let p := clean Linux x in
  v_os v = Linux -> walk_wf h -> links_clean h -> node_is_dir h (v_root v) = true ->
  kperm h (v_root v) 1 (v_user v) = true ->
  v_cwd v = abs_path bs -> Forall good_comp bs -> dwalk h (v_user v) (v_root v) bs = Some (sv_cwd sv) ->
  is_abs Linux p = false ->
  let K := klookup s sv false (follow_of slm) p in
  let r := search_node s v p slm in
  K <> WErr EFUEL -> sr_err r <> EFuel ->
  walk_rel h (v_user v) (v_root v) (precise_of slm) r K.
Proof. exact sym_bridge_lookup_rel. Qed.

(* the loop invariant itself, from any synchronised position of the two walks *)
Theorem C04_resolve_at : forall (h : heap) (v : view),
  v_os v = Linux -> walk_wf h -> links_clean h ->
  node_is_dir h (v_root v) = true -> kperm h (v_root v) 1 (v_user v) = true ->
  forall (slm : slmode) (fk : nat), sync_goal h v slm fk.
Proof. exact sym_bridge_at. Qed.

(* the budgets agree: a chain of 40 links resolves on both sides, the 41st link is refused on both sides *)
Theorem C04_budget_40_41 :
  (sr_child (search_node (WalkSymExamples.chain_fs 40) WalkSymExamples.adminv (abs_path [WalkSymExamples.nm 0]) SlStat) = Some 41
   /\ klookup (WalkSymExamples.chain_fs 40) (WalkSymExamples.sv_of WalkSymExamples.adminv) false true
              (abs_path [WalkSymExamples.nm 0]) = WNode 0 LNorm (WalkSymExamples.nm 40) 41)
  /\ (sr_err (search_node (WalkSymExamples.chain_fs 41) WalkSymExamples.adminv (abs_path [WalkSymExamples.nm 0]) SlStat)
      = ETooManySymlinks
      /\ klookup (WalkSymExamples.chain_fs 41) (WalkSymExamples.sv_of WalkSymExamples.adminv) false true
                 (abs_path [WalkSymExamples.nm 0]) = WErr ELOOP).
Proof. split; [exact WalkSymExamples.budget_agree_40|exact WalkSymExamples.budget_agree_41]. Qed.

(* a link that is not followed does not count: Lstat of a link in a directory reached through exactly 40 links
   answers the link, on both sides *)
Theorem C04_lstat_after_40_links :
  (let r := search_node (WalkSymExamples.corner_fs 40) WalkSymExamples.adminv
                        (abs_path [WalkSymExamples.nm 0; WalkSymExamples.s_X]) SlLstat in
   sr_err r = EFileExists /\ sr_child r = Some 42)
  /\ klookup (WalkSymExamples.corner_fs 40) (WalkSymExamples.sv_of WalkSymExamples.adminv) false false
             (abs_path [WalkSymExamples.nm 0; WalkSymExamples.s_X]) = WNode 41 LNorm WalkSymExamples.s_X 42.
Proof. exact WalkSymExamples.lstat_after_40_links. Qed.

(* Readlink after Symlink(t, n) returns Clean(t) *)
Theorem C04_readlink : forall (s s' : fsys) (v : view) (t n : str),
  v_os v = Linux -> ptr_valid (f_heap s) -> node_is_dir (f_heap s) (v_root v) = true ->
  symlink s v t n = (s', ROk) ->
  readlink s' v n = RStr (clean Linux t).
Proof. exact readlink_after_symlink. Qed.

(* Lstat / Readlink / Remove / Rename / Link / Lchown / Symlink see their paths only through the SlLstat walk *)
Theorem C04_nofollow :
  (forall s v p q, search_node s v p SlLstat = search_node s v q SlLstat -> base (v_os v) p = base (v_os v) q ->
                   stat_gen SlLstat s v p = stat_gen SlLstat s v q)
  /\ (forall s v p q, search_node s v p SlLstat = search_node s v q SlLstat -> readlink s v p = readlink s v q)
  /\ (forall s v p q, search_node s v p SlLstat = search_node s v q SlLstat -> remove s v p = remove s v q)
  /\ (forall s v p q p2 q2, search_node s v p SlLstat = search_node s v q SlLstat ->
                            search_node s v p2 SlLstat = search_node s v q2 SlLstat ->
                            str_eqb p p2 = str_eqb q q2 ->
                            rename s v p p2 = rename s v q q2)
  /\ (forall s v p q p2 q2, search_node s v p SlLstat = search_node s v q SlLstat ->
                            search_node s v p2 SlLstat = search_node s v q2 SlLstat ->
                            link s v p p2 = link s v q q2)
  /\ (forall s v p q uid gid, search_node s v p SlLstat = search_node s v q SlLstat ->
                              chown_gen SlLstat s v p uid gid = chown_gen SlLstat s v q uid gid)
  /\ (forall s v t p q, search_node s v p SlLstat = search_node s v q SlLstat -> symlink s v t p = symlink s v t q).
Proof. exact nofollow_factor. Qed.

Theorem C04_nofollow_modes : forall (w : world) (vi : nat) (p o n : str) (uid gid : Z),
  wstep w (CLstat vi p) = on_view w vi (fun v => (w, stat_gen SlLstat (w_fs w) v p))
  /\ wstep w (CLchown vi p uid gid) = on_view w vi (fun v => lift w (chown_gen SlLstat (w_fs w) v p uid gid))
  /\ wstep w (CStat vi p) = on_view w vi (fun v => (w, stat_gen SlStat (w_fs w) v p))
  /\ wstep w (CChown vi p uid gid) = on_view w vi (fun v => lift w (chown_gen SlEval (w_fs w) v p uid gid)).
Proof. exact nofollow_modes. Qed.

(* ... and that walk hands back a final symbolic link itself *)
Theorem C04_nofollow_final : forall (s : fsys) (sv : sview) (cs : list str) (par n : nat) (name t : str) (m : meta),
  let v := sv_view sv in
  let h := f_heap s in
  v_os v = Linux -> walk_wf h -> links_clean h ->
  node_is_dir h (v_root v) = true ->
  Forall good_comp cs ->
  klookup s sv false false (abs_path cs) = WNode par LNorm name n -> get h n = Some (NSym t m) ->
  sr_err (search_node s v (abs_path cs) SlLstat) <> EFuel ->
  let r := search_node s v (abs_path cs) SlLstat in
  sr_err r = EFileExists /\ sr_child r = Some n /\ sr_parent r = Some par /\ pi_part (sr_pi r) = name.
Proof. exact nofollow_final. Qed.

(* termination: on EVERY heap (cyclic link graphs included) the splice loop ends within
   (slCountMax+1) * (|path| + slCountMax*T + 1) iterations, T = longest stored target in components *)
Theorem C04_budget : forall (h : heap) (v : view) (T : nat) (slm : slmode) (vol parent : nat) (cs : list str) (fuel : nat),
  v_os v = Linux -> ptr_valid h -> tbound h T -> Forall comp_ok cs ->
  (slCountMax + 1) * (length cs + slCountMax * T + 1) <= fuel ->
  sr_err (search_loop fuel h v slm vol parent (pi_new Linux (abs_path cs)) 0 None) <> EFuel.
Proof. exact search_budget_top. Qed.

Theorem C04_fuel_irrelevant :
  forall (h : heap) (v : view) (T : nat) (slm : slmode) (vol parent : nat) (cs : list str) (f1 f2 : nat),
  v_os v = Linux -> ptr_valid h -> tbound h T -> Forall comp_ok cs ->
  (slCountMax + 1) * (length cs + slCountMax * T + 1) <= f1 -> f1 <= f2 ->
  search_loop f2 h v slm vol parent (pi_new Linux (abs_path cs)) 0 None
  = search_loop f1 h v slm vol parent (pi_new Linux (abs_path cs)) 0 None.
Proof. exact search_fuel_irrelevant. Qed.

Theorem C04_budget_kernel : forall (h : heap) (u : user) (root : nat) (T : nat),
  ptr_valid h -> kbound h T ->
  forall fuel pm follow cur (work : list str) cnt md,
    length work + 1 + (MAXSYMLINKS - cnt) * T <= fuel ->
    kwalk fuel h u root pm follow cur work cnt md <> WErr EFUEL.
Proof. exact kwalk_budget. Qed.

(* non-vacuity: the hypotheses hold of a tree containing every kind of link, and the two walks are computed on it *)
Example C04_hyps_satisfiable :
  walk_wf WalkSymExamples.tree /\ links_clean WalkSymExamples.tree.
Proof. split; [exact WalkSymNonVacuity.tree_wf|exact WalkSymNonVacuity.tree_links_clean]. Qed.

(* EvalSymlinks: MemFS (the SlEval walk; the answer is the cursor's path) against Go's filepath.EvalSymlinks
   ([go_eval_symlinks]: walkSymlinks on components with a destination list, Lstat of every extension through the
   kernel, 255-link budget, Clean at the end).  For the administrator, on heaps satisfying C05's invariant with cleaned
   link targets, for clean absolute paths: the SAME resolved path, or the same errno.  Premise "at most 40 links
   crossed" = the kernel's following walk does not answer ELOOP; beyond that the two differ (MemFS ELOOP, Go follows up
   to 255 links and reports a non-errno error): listed finding C04-EVAL-LOOP-ERROR.  Tk bounds the components of the
   stored targets; the size condition keeps Go's per-extension Lstat inside the specification model's fuel. *)
Theorem C04_eval : forall (s : fsys) (sv : sview) (cs : list str) (Tk : nat),
  let v := sv_view sv in
  let h := f_heap s in
  v_os v = Linux -> us_admin (v_user v) = true -> Inv_heap h -> links_clean h -> node_is_dir h (v_root v) = true ->
  Forall good_comp cs -> kbound h Tk -> length cs + MAXSYMLINKS * Tk + 2 < WALK_FUEL ->
  klookup s sv false true (abs_path cs) <> WErr EFUEL ->
  klookup s sv false true (abs_path cs) <> WErr ELOOP ->
  sr_err (search_node s v (abs_path cs) SlEval) <> EFuel ->
  proj_res Linux (eval_symlinks s v (abs_path cs)) = go_eval_symlinks s sv (abs_path cs).
Proof. exact eval_agree. Qed.

(* Go's loop simulates the kernel's following walk, carrying the link-free path of the kernel's current directory *)
Theorem C04_eval_go_sim : forall (s : fsys) (sv : sview),
  walk_wf (f_heap s) -> links_clean (f_heap s) -> node_is_dir (f_heap s) (v_root (sv_view sv)) = true ->
  us_admin (v_user (sv_view sv)) = true ->
  forall (Tk B : nat), kbound (f_heap s) Tk -> B + 2 < WALK_FUEL ->
  forall fk F j (gd : list str) cur (work : list str) links md K,
    Forall good_comp gd -> dwalk (f_heap s) (v_user (sv_view sv)) (v_root (sv_view sv)) gd = Some cur ->
    Forall comp_ok work -> (md = false \/ work = []) ->
    j + length gd + length work + (MAXSYMLINKS - links) * Tk <= B -> fk < F ->
    kwalk fk (f_heap s) (v_user (sv_view sv)) (v_root (sv_view sv)) false true cur work links md = K ->
    K <> WErr EFUEL -> K <> WErr ELOOP ->
    go_rel s sv K (go_walk_symlinks F s sv (repeat DD j ++ gd) work links).
Proof. exact go_sim. Qed.
