(* Property C11 - a Sub view shows exactly its subtree and keeps its own user,
   umask and current directory.  Statements only (POSIX flavour); the proofs are in
   Fs/SubIsolated.v, Fs/SubProofs.v, Fs/SubCalls.v, Fs/SubWorld.v, Fs/SubFrame.v, Fs/SubAny.v. *)
From Avfs Require Import Base PathModel PathSpec PathCleanProofs PathIterProofs MemFS MemFile World
  SubIsolated SubProofs SubCalls SubWorld SubFrame SubAny.

(* ------------------------------------------------------------------------------------
   ISOLATION.  A world has any number of views (nested ones and views of "/" included:
   a view is just a record (root, cwd, user, umask, os, idm) over the shared graph).
   [setter w c] is the field of the view that call [c] sets: SetUser / SetUMask / Chdir on
   the view itself, File.Chdir on a handle opened through it; None for every other call. *)

(* one call, ANY call: view j still exists, its root / OS type / idm flag are the same, and
   each of user, umask, cwd is the same unless the call is the setter of that field of j *)
Theorem C11_isolated_step : forall (w : world) (c : call) (j : nat) (v : view),
  nth_error (w_views w) j = Some v ->
  exists v', nth_error (w_views (fst (wstep w c))) j = Some v' /\ same_but (setter w c) j v v'.
Proof. exact step_views. Qed.

(* all histories: a field of view j changes only by its own setter called on j *)
Theorem C11_isolated : forall (cs : list call) (w : world) (j : nat) (fld : field) (v : view),
  nth_error (w_views w) j = Some v ->
  never_sets j fld w cs ->
  exists v', nth_error (w_views (fst (wrun w cs))) j = Some v' /\ fld_eq fld v v'.
Proof. exact run_views. Qed.

(* all histories: with no setter on j at all, the whole record of view j is unchanged -
   whatever was done through the parent, siblings, nested views, and handles *)
Theorem C11_isolated_frame : forall (cs : list call) (w : world) (j : nat) (v : view),
  nth_error (w_views w) j = Some v -> untouched j w cs ->
  nth_error (w_views (fst (wrun w cs))) j = Some v.
Proof. exact run_view_frame. Qed.

(* all histories: no call ever changes a view's root, OS type or idm flag, or removes a view *)
Theorem C11_isolated_root : forall (cs : list call) (w : world) (j : nat) (v : view),
  nth_error (w_views w) j = Some v ->
  exists v', nth_error (w_views (fst (wrun w cs))) j = Some v'
             /\ v_root v' = v_root v /\ v_os v' = v_os v /\ v_idm v' = v_idm v.
Proof. exact run_views_fixed. Qed.

(* ------------------------------------------------------------------------------------
   SHARING.  There is one node graph [w_fs]; a namespace call's result and the graph it
   leaves depend on the world only through [w_fs] and the calling view's record. *)
Theorem C11_shared : forall (w1 w2 : world) (c : call) (vi : nat),
  ns_view c = Some vi ->
  w_fs w1 = w_fs w2 ->
  nth_error (w_views w1) vi = nth_error (w_views w2) vi ->
  length (w_views w1) = length (w_views w2) ->
  length (w_handles w1) = length (w_handles w2) ->
  snd (wstep w1 c) = snd (wstep w2 c) /\ w_fs (fst (wstep w1 c)) = w_fs (fst (wstep w2 c)).
Proof. exact ns_call_shared. Qed.

(* the next call - through whichever view - runs on the world the previous call left *)
Theorem C11_shared_run : forall (w : world) (c1 c2 : call),
  let w1 := fst (wstep w c1) in
  wrun w [c1; c2] = (fst (wstep w1 c2), [snd (wstep w c1); snd (wstep w1 c2)]).
Proof. exact run_shared. Qed.

(* ------------------------------------------------------------------------------------
   PREFIX.  [dir_chain h u r ds nd]: the names ds lead from node r to node nd through
   directories user u may search.  [symfree_walk h nd ps]: no symbolic link is met when
   walking ps from nd.  [sr_corr ds ps rp rv]: same parent node, same child node, same
   error, and iterators on the same component of ps (so Part, IsLast agree and Path,
   LeftPart differ by the prefix ds: [pi_corr_facts]). *)

(* the walk *)
Theorem C11_prefix_search : forall (s : fsys) (vp vv : view) (slm : slmode) (ds ps : list str),
  v_os vp = Linux -> v_os vv = Linux -> v_user vv = v_user vp ->
  Forall good_comp ds -> Forall good_comp ps -> ps <> [] ->
  dir_chain (f_heap s) (v_user vp) (v_root vp) ds (v_root vv) ->
  perm_on (f_heap s) (v_root vp) OpenLookup (v_user vp) = true ->
  symfree_walk (f_heap s) (v_root vv) ps ->
  length ds + length ps < SEARCH_FUEL ->
  sr_corr ds ps (search_node s vp (abs_path (ds ++ ps)) slm) (search_node s vv (abs_path ps) slm).
Proof. exact search_prefix. Qed.

Theorem C11_prefix_cursor : forall (ds ps : list str) (pp pv : piter),
  pi_corr ds ps pp pv ->
  pi_part pp = pi_part pv /\ pi_is_last pp = pi_is_last pv
  /\ pi_path pp = abs_path (ds ++ ps) /\ pi_path pv = abs_path ps
  /\ exists done, pi_left_part pp = rpath (ds ++ done) /\ pi_left_part pv = rpath done.
Proof. exact pi_corr_facts. Qed.

(* "/" through the view against "/d1/.../dk" through the parent: same node found, same
   error; the PARENT node differs (the view's root is its own parent, as "/" is): Remove,
   Rename ... of the view's root through the view fail where the parent may succeed *)
Theorem C11_prefix_root : forall (s : fsys) (vp vv : view) (slm : slmode) (ds : list str),
  v_os vp = Linux -> v_os vv = Linux ->
  Forall good_comp ds -> ds <> [] ->
  dir_chain (f_heap s) (v_user vp) (v_root vp) ds (v_root vv) ->
  perm_on (f_heap s) (v_root vp) OpenLookup (v_user vp) = true ->
  length ds < SEARCH_FUEL ->
  let rp := search_node s vp (abs_path ds) slm in
  let rv := search_node s vv (abs_path []) slm in
  sr_child rp = Some (v_root vv) /\ sr_child rv = Some (v_root vv)
  /\ sr_err rp = EFileExists /\ sr_err rv = EFileExists /\ sr_parent rv = Some (v_root vv).
Proof. exact search_prefix_root. Qed.

(* every path STRING: absolute ones with "..", ".", "//" in them, and relative ones once the
   view's cwd is a clean absolute path of the view (what Chdir through the view stores) *)
Theorem C11_prefix_any_path : forall (s : fsys) (vp vv : view) (slm : slmode) (ds cw : list str) (p : str),
  v_os vp = Linux -> v_os vv = Linux -> v_user vv = v_user vp ->
  Forall good_comp ds ->
  (is_abs Linux p = true \/ (v_cwd vv = abs_path cw /\ Forall good_comp cw)) ->
  let qs := view_comps cw p in
  qs <> [] ->
  dir_chain (f_heap s) (v_user vp) (v_root vp) ds (v_root vv) ->
  perm_on (f_heap s) (v_root vp) OpenLookup (v_user vp) = true ->
  symfree_walk (f_heap s) (v_root vv) qs ->
  length ds + length qs < SEARCH_FUEL ->
  sr_corr ds qs (search_node s vp (abs_path (ds ++ qs)) slm) (search_node s vv p slm).
Proof. exact search_prefix_any. Qed.

(* the calls: all 20 one-path namespace calls ... *)
Theorem C11_prefix : forall (w : world) (vi vj : nat) (vp vv : view) (ds : list str),
  nth_error (w_views w) vi = Some vp -> nth_error (w_views w) vj = Some vv ->
  view_agree vp vv -> Forall good_comp ds ->
  dir_chain (f_heap (w_fs w)) (v_user vp) (v_root vp) ds (v_root vv) ->
  perm_on (f_heap (w_fs w)) (v_root vp) OpenLookup (v_user vp) = true ->
  forall (k : pcall) (ps : list str), okpath (w_fs w) vv ds ps ->
  let a := wstep w (mk1 k vi (abs_path (ds ++ ps))) in
  let b := wstep w (mk1 k vj (abs_path ps)) in
  w_fs (fst a) = w_fs (fst b) /\ res_corr ds (snd a) (snd b).
Proof. exact wstep_prefix1. Qed.

(* ... and Rename, Link with both paths prefixed *)
Theorem C11_prefix2 : forall (w : world) (vi vj : nat) (vp vv : view) (ds : list str),
  nth_error (w_views w) vi = Some vp -> nth_error (w_views w) vj = Some vv ->
  view_agree vp vv -> Forall good_comp ds ->
  dir_chain (f_heap (w_fs w)) (v_user vp) (v_root vp) ds (v_root vv) ->
  perm_on (f_heap (w_fs w)) (v_root vp) OpenLookup (v_user vp) = true ->
  forall (k : pcall2) (po pn : list str), okpath (w_fs w) vv ds po -> okpath (w_fs w) vv ds pn ->
  let a := wstep w (mk2 k vi (abs_path (ds ++ po)) (abs_path (ds ++ pn))) in
  let b := wstep w (mk2 k vj (abs_path po) (abs_path pn)) in
  w_fs (fst a) = w_fs (fst b) /\ snd a = snd b.
Proof. exact wstep_prefix2. Qed.

(* Chdir: each view records the path as IT sees it *)
Theorem C11_prefix_chdir : forall (w : world) (vi vj : nat) (vp vv : view) (ds : list str),
  nth_error (w_views w) vi = Some vp -> nth_error (w_views w) vj = Some vv ->
  view_agree vp vv -> Forall good_comp ds ->
  dir_chain (f_heap (w_fs w)) (v_user vp) (v_root vp) ds (v_root vv) ->
  perm_on (f_heap (w_fs w)) (v_root vp) OpenLookup (v_user vp) = true ->
  forall ps : list str, okpath (w_fs w) vv ds ps ->
  snd (wstep w (CChdir vj (abs_path ps))) = ROk ->
  snd (wstep w (CChdir vi (abs_path (ds ++ ps)))) = ROk
  /\ (exists v', nth_error (w_views (fst (wstep w (CChdir vj (abs_path ps))))) vj = Some v' /\ v_cwd v' = abs_path ps)
  /\ (exists v', nth_error (w_views (fst (wstep w (CChdir vi (abs_path (ds ++ ps)))))) vi = Some v'
                 /\ v_cwd v' = abs_path (ds ++ ps)).
Proof. exact wstep_chdir_cwd. Qed.

(* every path STRING at the level of the calls: a call through a view on a non-empty string p is the same
   call on the clean absolute path Abs(cwd, p) = "/q1/.../qm" (to which C11_prefix applies) - the whole step for
   the 17 one-path calls that read the string only through Abs; Stat / Lstat up to FileInfo.Name (the base
   name of the string given); OpenFile up to the name the handle remembers.  [C11_confine_no_dotdot] gives
   qs = view_comps cw p for an absolute p, and for a relative p once the view's cwd is "/cw1/.../cwk". *)
Theorem C11_prefix_any_call : forall (w : world) (vj : nat) (vv : view) (p : str) (qs : list str),
  nth_error (w_views w) vj = Some vv -> v_os vv = Linux -> p <> [] ->
  abs Linux (v_cwd vv) p = abs_path qs -> Forall good_comp qs ->
  forall k : pcall, by_abs k = true -> wstep w (mk1 k vj p) = wstep w (mk1 k vj (abs_path qs)).
Proof. exact wstep_any_path. Qed.

Theorem C11_prefix_any_stat : forall (w : world) (vj : nat) (vv : view) (p : str) (qs : list str),
  nth_error (w_views w) vj = Some vv -> v_os vv = Linux ->
  abs Linux (v_cwd vv) p = abs_path qs -> Forall good_comp qs ->
  forall k : pcall, k = PStat \/ k = PLstat ->
  fst (wstep w (mk1 k vj p)) = w /\ fst (wstep w (mk1 k vj (abs_path qs))) = w
  /\ info_upto_name (base Linux p) (base Linux (abs_path qs))
       (snd (wstep w (mk1 k vj p))) (snd (wstep w (mk1 k vj (abs_path qs)))).
Proof. exact wstep_any_path_stat. Qed.

Theorem C11_prefix_any_open : forall (w : world) (vj : nat) (vv : view) (p : str) (qs : list str),
  nth_error (w_views w) vj = Some vv -> v_os vv = Linux -> p <> [] ->
  abs Linux (v_cwd vv) p = abs_path qs -> Forall good_comp qs ->
  forall flag perm : N,
  w_fs (fst (wstep w (COpenFile vj p flag perm))) = w_fs (fst (wstep w (COpenFile vj (abs_path qs) flag perm)))
  /\ snd (wstep w (COpenFile vj p flag perm)) = snd (wstep w (COpenFile vj (abs_path qs) flag perm)).
Proof. exact wstep_any_path_open. Qed.

(* ------------------------------------------------------------------------------------
   CONFINEMENT.  Whatever the path string (".." spellings, symbolic links with absolute
   or relative targets met on the way), the nodes searchNode hands to the calls are
   reachable from the view's root by child edges. *)
Theorem C11_confine : forall (s : fsys) (v : view) (path : str) (slm : slmode),
  v_os v = Linux ->
  (forall x, sr_parent (search_node s v path slm) = Some x -> reach (f_heap s) (v_root v) x)
  /\ (forall c, sr_child (search_node s v path slm) = Some c -> reach (f_heap s) (v_root v) c).
Proof. exact search_node_confined. Qed.

(* ... and what a call does with them stays inside: EVERY namespace call through a view (the 15
   that change the node graph - Mkdir, MkdirAll, OpenFile, Remove, RemoveAll with its recursive
   removal, Rename, Link, Symlink, Truncate, Chmod, Chown, Lchown, WriteFile - and trivially the
   others) leaves every node that is not reachable from the view's root exactly as it was *)
Theorem C11_confine_frame : forall (w : world) (c : call) (vi : nat) (v : view) (i : nat),
  ns_view c = Some vi -> nth_error (w_views w) vi = Some v -> v_os v = Linux ->
  i < length (f_heap (w_fs w)) -> ~ reach (f_heap (w_fs w)) (v_root v) i ->
  get (f_heap (w_fs (fst (wstep w c)))) i = get (f_heap (w_fs w)) i.
Proof. exact wstep_frame. Qed.

(* why: the path the walk iterates over is a cleaned absolute path - no "..", "." or empty
   component is left (the lexical clamp at the view's root) ... *)
Theorem C11_confine_no_dotdot : forall (v : view) (cw : list str) (p c : str),
  (is_abs Linux p = true \/ (v_cwd v = abs_path cw /\ Forall good_comp cw)) ->
  abs Linux (v_cwd v) p = abs_path (view_comps cw p)
  /\ (In c (view_comps cw p) -> c <> [DOT; DOT] /\ c <> [DOT] /\ c <> []).
Proof.
  intros v cw p c H. split; [apply (view_abs v cw p H)|apply (view_comps_no_dotdot v cw p c H)].
Qed.

Theorem C11_confine_clean : forall p c : str,
  is_abs Linux p = true -> In c (comps (clean Linux p)) -> c <> [DOT; DOT] /\ c <> [DOT].
Proof. exact clean_no_dotdot_rooted. Qed.

(* ... and a view's subtree is part of its parent's: nested views only narrow *)
Theorem C11_confine_nested : forall (h : heap) (u : user) (r : nat) (ds : list str) (nd x : nat),
  dir_chain h u r ds nd -> reach h nd x -> reach h r x.
Proof. exact reach_sub. Qed.

(* ------------------------------------------------------------------------------------
   Non-vacuity: a concrete world.  "/a" made through the root view 0, view 1 = Sub("/a"),
   then Mkdir("/x") through the view against Mkdir("/a/x") through the parent. *)
Definition ex_a : str := [97%N].
Definition ex_x : str := [120%N].
Definition ex_w2 : world :=
  let w0 := init_world_linux 18 in
  let w1 := fst (wstep w0 (CMkdir 0 (abs_path [ex_a]) 493)) in
  fst (wstep w1 (CSub 0 (abs_path [ex_a]))).

Definition ex_vp : view := nth 0 (w_views ex_w2) (init_view Linux 0).
Definition ex_vv : view := nth 1 (w_views ex_w2) (init_view Linux 0).

Example C11_example_views :
  length (w_views ex_w2) = 2
  /\ nth_error (w_views ex_w2) 0 = Some ex_vp /\ nth_error (w_views ex_w2) 1 = Some ex_vv
  /\ v_root ex_vp = 0 /\ v_root ex_vv = 4.
Proof. vm_compute. repeat split. Qed.

(* the hypotheses of C11_prefix hold here ... *)
Example C11_example_hyps :
  view_agree ex_vp ex_vv /\ Forall good_comp [ex_a]
  /\ dir_chain (f_heap (w_fs ex_w2)) (v_user ex_vp) (v_root ex_vp) [ex_a] (v_root ex_vv)
  /\ perm_on (f_heap (w_fs ex_w2)) (v_root ex_vp) OpenLookup (v_user ex_vp) = true
  /\ okpath (w_fs ex_w2) ex_vv [ex_a] [ex_x].
Proof.
  assert (Hg : forall c : N, c <> 47%N -> c <> 46%N -> Forall good_comp [[c]]).
  { intros c H1 H2. repeat constructor; try discriminate.
    - intros y [<-|[]]. exact H1.
    - intros E. injection E as E. auto. }
  split; [constructor; vm_compute; reflexivity|]. split; [apply Hg; discriminate|].
  split; [vm_compute; do 3 eexists; repeat split|]. split; [vm_compute; reflexivity|].
  split; [apply Hg; discriminate|]. split; [discriminate|]. split; [vm_compute; exact I|].
  unfold SEARCH_FUEL. cbn [length]. lia.
Qed.

(* ... and its conclusion, computed: same node graph, both calls succeed, and the new
   directory is visible as /a/x through the parent and as /x through the view *)
Example C11_example_prefix :
  let a := wstep ex_w2 (CMkdir 0 (abs_path [ex_a; ex_x]) 493) in
  let b := wstep ex_w2 (CMkdir 1 (abs_path [ex_x]) 493) in
  w_fs (fst a) = w_fs (fst b) /\ snd a = ROk /\ snd b = ROk
  /\ (exists i, snd (wstep (fst b) (CStat 0 (abs_path [ex_a; ex_x]))) = RInfo i /\ fi_name i = ex_x)
  /\ (exists i, snd (wstep (fst b) (CStat 1 (abs_path [ex_x]))) = RInfo i /\ fi_name i = ex_x)
  /\ snd (wstep (fst b) (CStat 1 (abs_path [ex_a; ex_x]))) = RFail ENoSuchDir.
Proof. vm_compute. repeat split; eexists; split; reflexivity. Qed.

(* an unclean relative string through the view after Chdir through the view: "./../x/." with cwd "/x" is "/x" *)
Example C11_example_relative :
  let w3 := fst (wrun ex_w2 [CMkdir 1 (abs_path [ex_x]) 493; CChdir 1 (abs_path [ex_x])]) in
  snd (wstep w3 (CWriteFile 1 [46;47;46;46;47;120;47;46;47;97]%N [104;105]%N 420)) = ROk
  /\ w_fs (fst (wstep w3 (CWriteFile 1 [46;47;46;46;47;120;47;46;47;97]%N [104;105]%N 420)))
     = w_fs (fst (wstep w3 (CWriteFile 0 (abs_path [ex_a; ex_x; ex_a]) [104;105]%N 420))).
Proof. vm_compute. split; reflexivity. Qed.

(* isolation, computed: SetUser / SetUMask / Chdir through the view leave the parent's record alone *)
Example C11_example_isolated :
  let w3 := fst (wrun ex_w2 [CSetUser 1 1000 1000 false; CSetUMask 1 63; CMkdir 0 (abs_path [ex_a; ex_x]) 511;
                             CChdir 1 (abs_path [ex_x])]) in
  nth_error (w_views w3) 0 = nth_error (w_views ex_w2) 0
  /\ (exists v, nth_error (w_views w3) 1 = Some v /\ v_cwd v = abs_path [ex_x] /\ v_umask v = 63%N
                /\ us_uid (v_user v) = 1000%Z /\ v_root v = 4).
Proof. vm_compute. split; [reflexivity|]. eexists. repeat split. Qed.

(* confinement, computed: "/../root" and "../../root" through the view do not reach the parent's /root *)
Example C11_example_confined :
  (exists i, snd (wstep ex_w2 (CStat 0 [47;114;111;111;116]%N)) = RInfo i)
  /\ snd (wstep ex_w2 (CStat 1 [47;46;46;47;114;111;111;116]%N)) = RFail ENoSuchFile
  /\ snd (wstep ex_w2 (CStat 1 [47;114;111;111;116]%N)) = RFail ENoSuchFile.
Proof. vm_compute. split; [eexists; reflexivity|split; reflexivity]. Qed.
