(* Property C12 - FailFS is transparent unless told to fail; an injected failure has
   no effect.  Statements only; proofs in Wrap/FailFSProofs.v (and Wrap/CompositeProofs.v).
   [failfs_table], [ro_cases], [ro_default] are regenerated from vfs/failfs/*.go on every run
   (Wrap/Gen_failfs.v). *)
From Coq Require Import String.
From Avfs Require Import Base Wrapper RoFSProofs FailFSProofs WrapTables ToyBase Composites CompositeProofs
  Gen_iface Gen_failfs.

(* The table obligation over the finite method set: every method that has a FnVFS id of
   its own consults exactly that id first (OpenFile passes its flag as FailParam.Flag) and
   then is the identity wrapper: forwards verbatim / wraps the object the base returns
   (OpenFile, CreateTemp, Sub) / runs the generic composite over itself (ReadDir, ReadFile,
   MkdirTemp); Create, WriteFile, Glob are the generic composites over itself; Open is the
   wrapper's own OpenFile(name, O_RDONLY, 0); WriteString its own Write; nothing was left
   unrecognised; OkFunc returns nil and New installs it; MemFS and OrefaFS build their
   composites from the same generic functions (so "the base's ReadFile" is the generic one). *)
Theorem C12_table :
  iface_ok = true /\ covers_iface failfs_table = true /\ string_list_empty failfs_unknown = true /\
  failfs_ok failfs_table = true /\
  (okfunc_returns_nil && new_installs_okfunc && base_composites_generic = true).
Proof. vm_compute. repeat split; reflexivity. Qed.

(* every id of the FnVFS enumeration except FnWriteFile is consulted by exactly one method
   (its namesake); FnWriteFile is dead: FailFS.WriteFile is the composite over OpenFile/Write/Close *)
Theorem C12_ids :
  forall fn, fn <> FnWriteFile -> count_occ fnvfs_eq_dec (consulted_ids failfs_table) fn = 1.
Proof. intros fn H. destruct fn; try congruence; vm_compute; reflexivity. Qed.

Section C12.
  Variables bstate tree : Type.
  Variable base_step : bstate -> nat -> meth -> list arg -> ans * bstate.
  Variable tree_of : bstate -> tree.
  Variable comp_prog : comp -> list arg -> prog.

  (* With a failure function that never fails (OkFunc), for EVERY base and EVERY history -
     including calls on the files and sub file systems handed out - the answers and the
     base's state are those of the same table with all consultations removed ... *)
  Theorem C12_transparent : forall cs (w1 w2 : world bstate),
    same_bo _ w1 w2 ->
    map (fun r => r_ans r) (fst (wrun base_step failfs_table ok_func comp_prog w1 cs)) =
    map (fun r => r_ans r) (fst (wrun base_step (strip_table failfs_table) ok_func comp_prog w2 cs)) /\
    same_bo _ (snd (wrun base_step failfs_table ok_func comp_prog w1 cs))
            (snd (wrun base_step (strip_table failfs_table) ok_func comp_prog w2 cs)).
  Proof.
    exact (@failfs_transparent _ base_step failfs_table comp_prog (proj1 (proj2 (proj2 (proj2 C12_table))))).
  Qed.

  (* ... and that table is the identity wrapper: every method outside the configuration
     class that is not a composite is ONE base call with the same method and arguments
     (Open: OpenFile(name, O_RDONLY, 0); WriteString: Write), objects returned by the base
     are handed out wrapped, composites are the generic programs over these primitives. *)
  Theorem C12_identity : forall ff cb (w : world bstate) o m a bind,
    mclass_of m <> CConfig -> comp_of m = None -> m <> MV V_Open -> m <> MF F_WriteString ->
    run1 base_step (strip_table failfs_table) ff cb w o m a bind =
    forward base_step (match returns_obj m with Some _ => true | None => false end) w o m a bind.
  Proof.
    intros ff cb w o m a bind Hc Hk Ho Hs.
    destruct m as [v|f]; [destruct v|destruct f]; cbn in Hc, Hk; try congruence; reflexivity.
  Qed.

  Theorem C12_identity_self : forall ff cb (w : world bstate) o n s bind,
    run1 base_step (strip_table failfs_table) ff cb w o (MV V_Open) [AS n] bind =
      forward base_step true w o (MV V_OpenFile) [AS n; AI O_RDONLY; AI 0] bind /\
    run1 base_step (strip_table failfs_table) ff cb w o (MF F_WriteString) [AS s] bind =
      forward base_step false w o (MF F_Write) [AS s] bind /\
    (forall m c a, comp_of m = Some c ->
       run1 base_step (strip_table failfs_table) ff cb w o m a bind = cb c w a bind).
  Proof.
    intros. split; [reflexivity|]. split; [reflexivity|].
    intros m c a H. destruct m as [v|f]; [destruct v|destruct f]; cbn in H; try discriminate;
      inversion H; subst; reflexivity.
  Qed.

  (* For ALL failure functions (hence all plans "fail the k-th invocation of F with E", any
     number of faults): a call whose consultation returns e returns EXACTLY e, consults
     nothing else, and leaves the base's state and the object table untouched ... *)
  Theorem C12_inject : forall (ff : ffun) (w : world bstate) id o m a bind m' a' fn flag k e,
    olookup id (w_objs w) = Some o -> wo_wrapped o = true ->
    target failfs_table m a = Some (m', a') -> kind_of failfs_table m' = KConsult fn flag k ->
    ff (w_hist w) fn (mk_flag flag a') = Some e ->
    wrap_wstep base_step failfs_table ff comp_prog w (mkCall id m a bind) =
      (mkRes (ans_err e) [(fn, true)], push_hist fn w).
  Proof. exact (fun ff => @failfs_inject _ base_step failfs_table ff comp_prog). Qed.

  (* ... and a call the function lets through behaves as on the base *)
  Theorem C12_pass : forall (ff : ffun) (w : world bstate) id o m a bind m' a' fn flag k,
    olookup id (w_objs w) = Some o -> wo_wrapped o = true ->
    target failfs_table m a = Some (m', a') -> kind_of failfs_table m' = KConsult fn flag k ->
    (k = KFwd \/ k = KFwdWrap \/ k = KPure) ->
    ff (w_hist w) fn (mk_flag flag a') = None ->
    wrap_wstep base_step failfs_table ff comp_prog w (mkCall id m a bind) =
    add_cons (fn, false)
      (forward base_step (match k with KFwdWrap => true | _ => false end) (push_hist fn w) o m' a' bind).
  Proof. exact (fun ff => @failfs_pass _ base_step failfs_table ff comp_prog). Qed.

  (* which calls are consulted, and with what: every method with an id of its own *)
  Theorem C12_consulted : forall m fn, expected_fn m = Some fn ->
    exists flag k, kind_of failfs_table m = KConsult fn flag k.
  Proof.
    intros m fn H. destruct m as [v|f]; [destruct v|destruct f]; cbn in H; try discriminate;
      inversion H; subst; vm_compute; eauto.
  Qed.

  (* Composite operations: for every failure function producing errors the composites do not
     interpret (injected faults, permission errors - not io.EOF / EEXIST / ENOENT), a call of
     Create, WriteFile, ReadFile, ReadDir, Glob or MkdirTemp returns an error whenever its own
     consultation or a primitive it is built on was failed - EXCEPT the failures the generic
     code of vfs.go deliberately ignores ([swallowed]: ReadFile's File.Stat and deferred Close,
     ReadDir's deferred Close, every I/O error inside Glob).  _partial: the property as worded
     ("fail when ANY primitive ... is made to fail") is false for those; see C12_composite_refuted
     and the known finding C12-composite-swallow. *)
  Theorem C12_composite_partial : forall (ff : ffun) tmpname bad_pattern fuel,
    (forall h fn fl e, ff h fn fl = Some e -> opaque e = true) ->
    forall (w : world bstate) id o m cp a bind fn,
    olookup id (w_objs w) = Some o -> wo_wrapped o = true -> comp_of m = Some cp ->
    let r := fst (wrap_wstep base_step failfs_table ff (Composites.comp_prog tmpname bad_pattern fuel) w (mkCall id m a bind)) in
    In (fn, true) (r_cons r) -> swallowed cp fn = false -> a_err (r_ans r) <> None.
  Proof.
    exact (fun ff tmpname bad_pattern fuel H =>
             @failfs_composite _ base_step failfs_table ff tmpname bad_pattern fuel
                               (proj1 (proj2 (proj2 (proj2 C12_table)))) H).
  Qed.

  (* With ReadOnlyFunc (its regenerated case list) the base's tree cannot change: ALL
     histories, closure over the objects handed out.  Assumption on the base as in C09. *)
  Hypothesis base_nonwrite : forall s b m a,
    bclass m a <> CWrite -> tree_of (snd (base_step s b m a)) = tree_of s.

  Theorem C12_readonly_table : ro_ok ro_cases ro_default failfs_table = true.
  Proof. vm_compute. reflexivity. Qed.

  Theorem C12_readonly : forall cs (w : world bstate),
    all_wrapped (w_objs w) ->
    let res := wrun base_step failfs_table (readonly_func ro_cases ro_default) comp_prog w cs in
    tree_of (w_base (snd res)) = tree_of (w_base w) /\ all_wrapped (w_objs (snd res)).
  Proof.
    exact (@failfs_readonly _ _ base_step tree_of failfs_table comp_prog ro_cases ro_default base_nonwrite C12_readonly_table).
  Qed.
End C12.

(* ---- non-vacuity and the refutation witness, on the toy base ---- *)
Definition toy_prog := Composites.comp_prog (fun _ => [116%N]) (EOther []) 50.
Definition fail_nth (f : fnvfs) (k : nat) : ffun :=
  fun hist fn _ => if fnvfs_eqb fn f && Nat.eqb (count_occ fnvfs_eq_dec hist fn) k then Some (EInj 1) else None.

(* the 2nd Mkdir is failed: it returns exactly the injected error and the tree (= number of
   writes that reached the base) does not move; the other calls behave as on the base *)
Example C12_example_inject :
  let cs := [mkCall 0 (MV V_Mkdir) [AS [47;97]%N; AI 493] 9;
             mkCall 0 (MV V_Mkdir) [AS [47;98]%N; AI 493] 9;
             mkCall 0 (MV V_Mkdir) [AS [47;99]%N; AI 493] 9] in
  let res := wrun toy_step failfs_table (fail_nth FnMkdir 1) toy_prog toy_world0 cs in
  map (fun r => a_err (r_ans r)) (fst res) = [None; Some (EInj 1); None] /\
  toy_tree (w_base (snd res)) = 2 /\
  map (fun r => r_cons r) (fst res) = [[(FnMkdir, false)]; [(FnMkdir, true)]; [(FnMkdir, false)]].
Proof. vm_compute. auto. Qed.

(* read-only plan: WriteFile, Mkdir through a sub file system, OpenFile(O_RDWR), Write through a
   file opened read-only: the tree stays at 0 and everything handed out is a wrapper *)
Example C12_example_readonly :
  let cs := [mkCall 0 (MV V_WriteFile) [AS [47;97]%N; AS [1]%N; AI 420] 9;
             mkCall 0 (MV V_Sub) [AS [47]%N] 1;
             mkCall 1 (MV V_Mkdir) [AS [47;98]%N; AI 493] 9;
             mkCall 0 (MV V_OpenFile) [AS [47;97]%N; AI 2; AI 0] 9;
             mkCall 0 (MV V_Open) [AS [47;97]%N] 2;
             mkCall 2 (MF F_Write) [AS [1]%N] 9;
             mkCall 0 (MV V_ReadFile) [AS [47;97]%N] 9] in
  let res := wrun toy_step failfs_table (readonly_func ro_cases ro_default) toy_prog toy_world0 cs in
  toy_tree (w_base (snd res)) = 0 /\
  map (fun r => a_err (r_ans r)) (fst res) =
    [Some (EErrno 13); None; Some (EErrno 13); Some (EErrno 13); None; Some (EErrno 13); None] /\
  forallb (fun p => wo_wrapped (snd p)) (w_objs (snd res)) = true.
Proof. vm_compute. auto. Qed.

(* the full-strength composite clause is false: ReadFile with its deferred Close failed returns nil *)
Example C12_composite_refuted :
  let r := fst (wrap_wstep toy_step failfs_table (fail_nth FnFileClose 0) toy_prog toy_world0
                      (mkCall 0 (MV V_ReadFile) [AS [47;97]%N] 9)) in
  existsb (fun c => fnvfs_eqb (fst c) FnFileClose && snd c) (r_cons r) = true /\ a_err (r_ans r) = None.
Proof. vm_compute. auto. Qed.
