(* Property C10 - BasePathFS confines all access to its base directory and acts
   as a chroot.  Statements only (POSIX flavour of the path layer).

   Proved for ALL byte strings / ALL histories:
     C10_clean_is_spec   Clean (the Go loop with its lazy buffer) = Pike's rules, every string
     C10_confine         what ToBasePath hands to the base is B or below B, for every p and every base cwd
     C10_inside_iff      the boolean test hasBasePath means "is B or B/..."
     C10_roundtrip       FromBasePath (ToBasePath p) = Abs(virtual cwd, p)
     C10_reverse_total   fromBasePath never panics; identity outside B; canonical virtual path inside
     C10_frombasepath_contract   FromBasePath panics exactly outside of B (pinned API contract)
     C10_errors          a translated-back path is a function of the part below B only (B is not revealed)
     C10_getwd           Getwd is total, "/" when the base's cwd is outside B
     C10_root_refused    isRoot (the guard of Remove/RemoveAll) holds exactly for the virtual root; otherwise the base gets a path strictly below B
     C10_table           finite: every method of the regenerated table has a recognised, safe shape
     C10_table_safe      ... which means: every string handed to the base is translated, nothing comes back through the panicking FromBasePath
     C10_chroot_partial  over an ABSTRACT base: wrapper = standalone on every history, nothing outside B changes;
                         PARTIAL because the hypotheses H_cwd/H_step about the (base, standalone) pair are
                         assumed, not proved for the MemFS/OrefaFS models (they are tested by the lock-step run)
   Refuted for the code as pinned (before the fix: commits), by computation on the faithful model:
     C10_confine_refuted_unfixed, C10_reverse_panics_unfixed *)
From Coq Require Import String.
From Avfs Require Import Base PathModel PathSpec CleanUnbounded CleanFacts BasePath BasePathProofs
  BasePathTable Gen_basepath BasePathTableProofs BasePathChroot.
Close Scope string_scope.
Open Scope list_scope.

Theorem C10_clean_is_spec : forall p, clean Linux p = clean_spec p.
Proof. exact clean_linux_spec. Qed.

Theorem C10_confine : forall B base_cwd p,
  clean_abs_path B ->
  exists x, to_base_path Linux B base_cwd p = Some x
            /\ clean Linux x = x
            /\ has_base_path Linux B (clean Linux x) = true
            /\ inside B (clean Linux x).
Proof. exact confine. Qed.

Theorem C10_inside_iff : forall B x,
  clean_abs_path B -> (has_base_path Linux B x = true <-> inside B x).
Proof. exact has_base_path_inside. Qed.

Theorem C10_roundtrip : forall B base_cwd p,
  clean_abs_path B ->
  exists vcwd x,
    cur_dir Linux B base_cwd = Some vcwd
    /\ to_base_path Linux B base_cwd p = Some x
    /\ from_base_path Linux B x = Some (abs Linux vcwd p)
    /\ from_base_safe Linux B x = abs Linux vcwd p.
Proof. exact roundtrip. Qed.

Theorem C10_reverse_total : forall B x,
  (has_base_path Linux B x = true /\ from_base_path Linux B x = Some (from_base_safe Linux B x)
     /\ exists cs, Forall name cs /\ from_base_safe Linux B x = cpath cs)
  \/ (has_base_path Linux B x = false /\ from_base_safe Linux B x = x).
Proof. exact from_base_safe_total. Qed.

Theorem C10_frombasepath_contract : forall B x,
  from_base_path Linux B x = None <-> has_base_path Linux B x = false.
Proof. exact from_base_path_panics_iff. Qed.

Theorem C10_errors : forall B r,
  has_base_path Linux B (B ++ r) = true ->
  from_base_safe Linux B (B ++ r) = clean Linux (SLASH :: SLASH :: r).
Proof. exact from_base_safe_suffix. Qed.

Theorem C10_getwd : forall B base_cwd,
  (exists ws, Forall name ws /\ bp_getwd Linux B base_cwd = Some (cpath ws))
  /\ (clean_abs_path B -> has_base_path Linux B base_cwd = false -> bp_getwd Linux B base_cwd = Some [SLASH]).
Proof. exact getwd_spec. Qed.

(* Remove / RemoveAll refuse exactly the paths that designate the virtual root; any
   other path reaches the base strictly below B *)
Theorem C10_root_refused : forall B base_cwd p,
  clean_abs_path B ->
  exists vcwd, cur_dir Linux B base_cwd = Some vcwd
    /\ (is_root Linux B base_cwd p = true <-> abs Linux vcwd p = [SLASH])
    /\ (is_root Linux B base_cwd p = false -> to_base_path Linux B base_cwd p <> Some B).
Proof. exact is_root_iff. Qed.

(* finite: the method table regenerated from the current source *)
Theorem C10_table :
  (forall m, In m bp_methods -> method_ok generic_fns (method_names bp_methods) m = true)
  /\ table_complete bp_methods = true.
Proof. exact table_methods_ok. Qed.

Theorem C10_table_safe : forall m, In m bp_methods -> forwards_safely m.
Proof. exact table_safe. Qed.

Theorem C10_chroot_partial :
  forall (B : str), clean_abs_path B ->
  forall (S S' D R O : Type) (bcwd : S -> str) (bstep : S -> nat -> list str -> D -> S * bres R)
         (scwd : S' -> str) (sstep : S' -> nat -> list str -> D -> S' * bres R)
         (Sim : S -> S' -> Prop) (outside : S -> O),
  (forall s s', Sim s s' -> canonical (scwd s') /\ cur_dir Linux B (bcwd s) = Some (scwd s')) ->
  (forall s s' m qs d, Sim s s' -> Forall canonical qs ->
     let '(s1, r) := bstep s m (map (below B) qs) d in
     let '(s1', r') := sstep s' m qs d in
     Sim s1 s1' /\ outside s1 = outside s /\ br_data r = br_data r'
     /\ Forall canonical (br_paths r') /\ br_paths r = map (below B) (br_paths r')) ->
  forall h s s', Sim s s' ->
  exists s2 rs, run_bp B bcwd bstep s h = Some (s2, rs)
    /\ Sim s2 (fst (run_ref scwd sstep s' h)) /\ outside s2 = outside s
    /\ Forall2 (@same_res R) rs (snd (run_ref scwd sstep s' h)).
Proof. exact chroot_history. Qed.

(* the code as pinned does not confine and its reverse translation panics *)
Theorem C10_confine_refuted_unfixed :
  clean_abs_path s_b
  /\ has_base_path Linux s_b (clean Linux (to_base_path_v0 Linux s_b s_escape)) = false
  /\ clean Linux (to_base_path_v0 Linux s_b s_escape) = [SLASH; 115%N]
  /\ to_base_path_v0 Linux s_b s_rel_escape = s_rel_escape.
Proof. exact confine_refuted_v0. Qed.

Theorem C10_reverse_panics_unfixed :
  from_base_path_v0 Linux s_b [] = None
  /\ from_base_path_v0 Linux s_b s_missing = None
  /\ from_base_path_v0 Linux [SLASH] [SLASH; 116%N] = Some [116%N].
Proof. exact reverse_panics_v0. Qed.

(* ---- non-vacuity ------------------------------------------------------------------ *)
Example C10_example_base : clean_abs_path s_b /\ clean_abs_path [SLASH].
Proof. split; split; vm_compute; reflexivity. Qed.

Example C10_example_fixed :
  to_base_path Linux s_b [] s_escape = Some [SLASH; 98%N; SLASH; 115%N]
  /\ bp_getwd Linux s_b [] = Some [SLASH]
  /\ from_base_safe Linux s_b s_missing = s_missing.
Proof. repeat split; vm_compute; reflexivity. Qed.

(* the hypotheses of C10_chroot_partial are satisfiable: the journalling base of
   BasePathChroot.v (remembers every call, echoes the paths) satisfies them *)
Example C10_example_chroot_hypotheses :
  forall bs, Forall name bs ->
  let B := cpath bs in
  (forall s s' : jstate, jsim bs s s' ->
     canonical ((fun _ : jstate => cpath []) s') /\ cur_dir Linux B ((fun _ : jstate => []) s) = Some (cpath []))
  /\ (forall s s' m qs d, jsim bs s s' -> Forall canonical qs ->
        let '(s1, r) := jstep s m (map (below B) qs) d in
        let '(s1', r') := jstep s' m qs d in
        jsim bs s1 s1' /\ joutside bs s1 = joutside bs s /\ br_data r = br_data r'
        /\ Forall canonical (br_paths r') /\ br_paths r = map (below B) (br_paths r')).
Proof.
  intros bs Hbs B. split.
  - intros s s' _. split.
    + exists []. split; [constructor|reflexivity].
    + apply (getwd_outside (B:=B) []). apply cpath_clean_abs; exact Hbs. reflexivity.
  - intros s s' m qs d. apply jstep_ok. exact Hbs.
Qed.
