(* Property C15 - the in-memory identity manager stays consistent.
   Only statements, each closed by [exact] of a lemma proved elsewhere. *)
From Avfs Require Import Base MemIdm MemIdmProofs MemIdmConc.

(* Every history of the eight calls returns, call by call, exactly what the
   two-list reference ("the users and groups added and not yet deleted")
   returns, error types and payloads included. *)
Theorem C15_refine : forall an gn ops,
  snd (idm_run (idm_init an gn) ops) = snd (ref_run (ref_init an gn) ops).
Proof. intros. exact (proj1 (run_refines ops (init_R an gn) (init_RefInv an gn))). Qed.

(* In every reachable state look-up by name and by id agree, names and ids
   are unique keys, ids are 0 or in (minId, counter]. *)
Theorem C15_consistent : forall an gn ops, Consistent (fst (idm_run (idm_init an gn) ops)).
Proof. exact reachable_consistent. Qed.

(* The ids handed out along a history are strictly increasing and above
   minId: none is ever given to a second user or group, deletions included. *)
Theorem C15_no_reuse : forall an gn ops,
  let outs := snd (idm_run (idm_init an gn) ops) in
  incr_above minId (new_gids ops outs) /\ incr_above minId (new_uids ops outs).
Proof. exact no_id_reuse. Qed.

Theorem C15_no_reuse_nodup : forall an gn ops,
  let outs := snd (idm_run (idm_init an gn) ops) in
  NoDup (new_gids ops outs) /\ NoDup (new_uids ops outs).
Proof.
  intros an gn ops. destruct (no_id_reuse an gn ops) as [Hg Hu].
  split; [exact (proj1 (incr_above_NoDup _ _ Hg))|exact (proj1 (incr_above_NoDup _ _ Hu))].
Qed.

Theorem C15_admin_present : forall an gn,
  snd (idm_step (idm_init an gn) (LookupUser an)) = RUser an 0 0 true /\
  snd (idm_step (idm_init an gn) (LookupUserId 0)) = RUser an 0 0 true /\
  snd (idm_step (idm_init an gn) (LookupGroup gn)) = RGroup gn 0 /\
  snd (idm_step (idm_init an gn) (LookupGroupId 0)) = RGroup gn 0.
Proof. exact admin_present. Qed.

Theorem C15_admin_exactly : forall an gn ops n u,
  alookup str_eqb n (usersByName (fst (idm_run (idm_init an gn) ops))) = Some u ->
  (is_admin u = true <-> u = {| u_name := an; u_uid := 0; u_gid := 0 |}).
Proof. exact admin_exactly. Qed.

(* Any number of threads, any interleaving of their critical sections
   (AddUser = two sections): the four maps stay consistent. *)
Theorem C15_concurrent_consistent : forall an gn threads sched,
  Consistent (fst (crun (idm_init an gn, threads) sched)).
Proof. exact concurrent_consistent. Qed.

(* The run that the check compares with the instrumented code (results, the lock of every critical
   section, final maps) is that very [crun]: the theorem above is about what is tied to the code. *)
Theorem C15_traced_run_is_crun : forall st sched, fst (crun_traced st sched) = crun st sched.
Proof. exact crun_traced_is_crun. Qed.

(* REFUTED - linearizability of AddUser: after AddGroup g1, T0 = AddUser u2 g1 and T1 = DelGroup g1;
   LookupUser u2 under the schedule [0;1;1;0] (T0 finds g1 under grpMu, T1 deletes g1 and looks u2 up,
   T0 inserts u2 under usrMu) return results that no sequential order of the three calls returns.
   (The maps stay consistent - theorem above - and the outcome of AddUser alone is that of
   "AddUser; DelGroup": the property's clause "AddUser fails for an unknown group" holds for the
   group table as it was at AddUser's look-up.) *)
Theorem C15_refuted_adduser_delgroup :
  idm_lin_ok w_s0 w_progs (crun (w_s0, mk_threads w_progs) w_sched) = false /\
  outs (crun (w_s0, mk_threads w_progs) w_sched) = [[RUser w_u2 1001 1001 false]; [RNil; RErr (UnknownUser w_u2)]].
Proof. split; [exact adduser_delgroup_not_linearizable|exact adduser_delgroup_outcome]. Qed.

Example C15_lin_checker_accepts_sequential :
  idm_lin_ok w_s0 w_progs (crun (w_s0, mk_threads w_progs) [0; 0; 1; 1]) = true /\
  idm_lin_ok w_s0 w_progs (crun (w_s0, mk_threads w_progs) [1; 0; 1; 0]) = true.
Proof. exact idm_lin_ok_sequential. Qed.

(* Non-vacuity: a concrete history with adds, duplicate, deletes and re-adds. *)
Example C15_example :
  let root := [114; 111; 111; 116]%N in
  let a := [97]%N in let b := [98]%N in
  snd (idm_run (idm_init root root)
         [AddGroup a; AddUser b a; DelUser b; AddUser b root; AddGroup a; DelGroup a; AddGroup a;
          LookupUserId 1002; LookupGroupId 1001])
  = [RGroup a 1001; RUser b 1001 1001 false; RNil; RUser b 1002 0 false;
     RErr (AlreadyExistsGroup a); RNil; RGroup a 1002;
     RUser b 1002 0 false; RErr (UnknownGroupId 1001)].
Proof. vm_compute. reflexivity. Qed.
