(* Property C15 - the in-memory identity manager stays consistent.
   Only statements, each closed by [exact] of a lemma proved elsewhere. *)
From Avfs Require Import Base MemIdm MemIdmProofs MemIdmConc.

(* Every history of the eight calls returns, call by call, exactly what the
   two-list reference ("the users and groups added and not yet deleted")
   returns, error types and payloads included. *)
Theorem C15_refine : forall an gn ops,
  snd (idm_run (idm_init an gn) ops) = snd (ref_run (ref_init an gn) ops).
Proof. intros. exact (proj1 (run_refines ops (init_R an gn) (init_RefInv an gn))). Qed.

(* In every reachable state look-up by name and by id agree, names and ids
   are unique keys, ids are 0 or in (minId, counter]. *)
Theorem C15_consistent : forall an gn ops, Consistent (fst (idm_run (idm_init an gn) ops)).
Proof. exact reachable_consistent. Qed.

(* The ids handed out along a history are strictly increasing and above
   minId: none is ever given to a second user or group, deletions included. *)
Theorem C15_no_reuse : forall an gn ops,
  let outs := snd (idm_run (idm_init an gn) ops) in
  incr_above minId (new_gids ops outs) /\ incr_above minId (new_uids ops outs).
Proof. exact no_id_reuse. Qed.

Theorem C15_no_reuse_nodup : forall an gn ops,
  let outs := snd (idm_run (idm_init an gn) ops) in
  NoDup (new_gids ops outs) /\ NoDup (new_uids ops outs).
Proof.
  intros an gn ops. destruct (no_id_reuse an gn ops) as [Hg Hu].
  split; [exact (proj1 (incr_above_NoDup _ _ Hg))|exact (proj1 (incr_above_NoDup _ _ Hu))].
Qed.

Theorem C15_admin_present : forall an gn,
  snd (idm_step (idm_init an gn) (LookupUser an)) = RUser an 0 0 true /\
  snd (idm_step (idm_init an gn) (LookupUserId 0)) = RUser an 0 0 true /\
  snd (idm_step (idm_init an gn) (LookupGroup gn)) = RGroup gn 0 /\
  snd (idm_step (idm_init an gn) (LookupGroupId 0)) = RGroup gn 0.
Proof. exact admin_present. Qed.

Theorem C15_admin_exactly : forall an gn ops n u,
  alookup str_eqb n (usersByName (fst (idm_run (idm_init an gn) ops))) = Some u ->
  (is_admin u = true <-> u = {| u_name := an; u_uid := 0; u_gid := 0 |}).
Proof. exact admin_exactly. Qed.

(* Any number of threads, any interleaving of their critical sections
   (AddUser = two sections): the four maps stay consistent. *)
Theorem C15_concurrent_consistent : forall an gn threads sched,
  Consistent (fst (crun (idm_init an gn, threads) sched)).
Proof. exact concurrent_consistent. Qed.

(* The run that the check compares with the instrumented code (results, the lock of every critical
   section, final maps) is that very [crun]: the theorem above is about what is tied to the code. *)
Theorem C15_traced_run_is_crun : forall st sched, fst (crun_traced st sched) = crun st sched.
Proof. exact crun_traced_is_crun. Qed.

(* LINEARIZABILITY.  [crun_log] is [crun] (first conjunct) that also logs every call when it completes
   (thread, call, result).  For ANY initial state, ANY number of threads, ANY programs and ANY schedule:
   the logged calls, in their order of completion, executed one after the other by the sequential model
   from the same initial state, produce the same final state and, call by call, the same results.  Every
   call thus takes effect atomically at its last critical section; program order and real-time order are
   respected because a call completes after it starts and a thread completes its calls in order.
   With C15_refine the concurrent results are those of the two-list reference on that order. *)
Theorem C15_linearizable : forall (s0 : idm) (progs : list (list iop)) (sched : list nat),
  let st := crun_log (s0, mk_threads progs) sched in
  fst st = crun (s0, mk_threads progs) sched /\
  idm_run s0 (map lop (snd st)) = (fst (fst st), map lres (snd st)).
Proof. exact crun_linearizable. Qed.

(* The former counter-example (AddUser u2 g1 || DelGroup g1; LookupUser u2 after AddGroup g1, DelGroup
   scheduled between the two sections of AddUser): DelGroup is now blocked until AddUser has returned and
   the outcome is that of the order AddUser, DelGroup, LookupUser. *)
Example C15_adduser_delgroup_regression :
  idm_lin_ok w_s0 w_progs (crun (w_s0, mk_threads w_progs) w_sched) = true /\
  outs (crun (w_s0, mk_threads w_progs) w_sched) = [[RUser w_u2 1001 1001 false]; [RNil; RUser w_u2 1001 1001 false]].
Proof. exact adduser_delgroup_now_linearizable. Qed.

(* Non-vacuity: a concrete history with adds, duplicate, deletes and re-adds. *)
Example C15_example :
  let root := [114; 111; 111; 116]%N in
  let a := [97]%N in let b := [98]%N in
  snd (idm_run (idm_init root root)
         [AddGroup a; AddUser b a; DelUser b; AddUser b root; AddGroup a; DelGroup a; AddGroup a;
          LookupUserId 1002; LookupGroupId 1001])
  = [RGroup a 1001; RUser b 1001 1001 false; RNil; RUser b 1002 0 false;
     RErr (AlreadyExistsGroup a); RNil; RGroup a 1002;
     RUser b 1002 0 false; RErr (UnknownGroupId 1001)].
Proof. vm_compute. reflexivity. Qed.
