(* Property C01, last sentence, completed for RELATIVE paths (Properties/C01.v has the absolute case):
   given a clean absolute working directory "/b1/.../bk", ANY path - absolute or relative, any byte string - is
   resolved exactly as its Clean() form.  Statements only; proofs in Fs/WalkUnclean.v. *)
From Avfs Require Import Base PathModel PathSpec PathProofs PathCleanProofs PathIterProofs.
From Avfs Require Import MemFS MemFile World WalkUnclean.

(* normalising with the unrooted rules first and with the rooted rules from any stack afterwards = normalising with
   the rooted rules directly (Pike's machine; the reason Join(cwd, Clean(p)) = Join(cwd, p)) *)
Theorem C01_norm_rooted_of_unrooted : forall (cs : list str) (k : nat) (names st : list str),
  Forall sepfree cs -> Forall good names ->
  norm true st (norm false (stk k names) cs) = norm true st (L k names ++ cs).
Proof. exact norm_rooted_of_unrooted. Qed.

Theorem C01_abs_unclean_rel : forall (bs : list str) (p : str),
  Forall good_comp bs -> is_abs Linux p = false ->
  abs Linux (abs_path bs) (clean Linux p) = abs Linux (abs_path bs) p.
Proof. exact abs_clean_rel. Qed.

Theorem C01_search_unclean_any : forall (s : fsys) (v : view) (bs : list str) (p : str) (slm : slmode),
  v_os v = Linux -> v_cwd v = abs_path bs -> Forall good_comp bs ->
  search_node s v (clean Linux p) slm = search_node s v p slm.
Proof. exact search_unclean_any. Qed.

Theorem C01_unclean_calls_any : forall (s : fsys) (v : view) (bs : list str) (p : str),
  v_os v = Linux -> v_cwd v = abs_path bs -> Forall good_comp bs ->
  remove s v (clean Linux p) = remove s v p
  /\ readlink s v (clean Linux p) = readlink s v p
  /\ (forall size, truncate s v (clean Linux p) size = truncate s v p size)
  /\ (forall mode, chmod s v (clean Linux p) mode = chmod s v p mode)
  /\ (forall slm uid gid, chown_gen slm s v (clean Linux p) uid gid = chown_gen slm s v p uid gid)
  /\ chtimes s v (clean Linux p) = chtimes s v p
  /\ chdir s v (clean Linux p) = chdir s v p
  /\ eval_symlinks s v (clean Linux p) = eval_symlinks s v p
  /\ (forall perm, mkdir_all s v (clean Linux p) perm = mkdir_all s v p perm)
  /\ (forall t, symlink s v t (clean Linux p) = symlink s v t p)
  /\ (forall perm, p <> [] -> mkdir s v (clean Linux p) perm = mkdir s v p perm).
Proof. exact unclean_calls_any. Qed.

Example C01_unclean_rel_example :
  let cwd := abs_path [[100%N]] in
  let p := [120; 47; 46; 46; 47; 121; 47; 46; 47; 122]%N in
  is_abs Linux p = false /\ clean Linux p = [121; 47; 122]%N
  /\ abs Linux cwd p = [47; 100; 47; 121; 47; 122]%N /\ abs Linux cwd (clean Linux p) = abs Linux cwd p.
Proof. exact unclean_rel_example. Qed.
