(* Property C01 - emulated namespace operations behave as on the real Linux file system.
   Statements only; proofs live in Fs/*.v.  (Further theorems are added as the refinement proofs close.) *)
From Avfs Require Import Base PathModel PathSpec PathCleanProofs MemFS MemFile World UncleanProofs.

(* "A path that is not lexically clean behaves exactly as its Clean() form" - for ALL byte strings:
   the walk every call starts with is invariant under cleaning an absolute path ... *)
Theorem C01_search_unclean : forall s v p slm,
  v_os v = Linux -> is_abs Linux p = true -> search_node s v (clean Linux p) slm = search_node s v p slm.
Proof. exact search_unclean. Qed.

(* ... and so is each call whose only use of the path is that walk (result AND resulting state).
   (Stat/Lstat/OpenFile additionally echo the path in FileInfo.Name / File.Name, as package os does.) *)
Theorem C01_unclean_calls : forall s v p, v_os v = Linux -> is_abs Linux p = true ->
  (forall perm, mkdir s v (clean Linux p) perm = mkdir s v p perm)
  /\ (forall perm, mkdir_all s v (clean Linux p) perm = mkdir_all s v p perm)
  /\ remove s v (clean Linux p) = remove s v p
  /\ remove_all s v (clean Linux p) = remove_all s v p
  /\ readlink s v (clean Linux p) = readlink s v p
  /\ (forall size, truncate s v (clean Linux p) size = truncate s v p size)
  /\ (forall mode, chmod s v (clean Linux p) mode = chmod s v p mode)
  /\ (forall slm uid gid, chown_gen slm s v (clean Linux p) uid gid = chown_gen slm s v p uid gid)
  /\ chtimes s v (clean Linux p) = chtimes s v p
  /\ chdir s v (clean Linux p) = chdir s v p
  /\ eval_symlinks s v (clean Linux p) = eval_symlinks s v p
  /\ (forall q, is_abs Linux q = true -> link s v (clean Linux p) (clean Linux q) = link s v p q)
  /\ (forall t, symlink s v t (clean Linux p) = symlink s v t p).
Proof.
  intros s v p Hos Habs.
  exact (unclean_calls s v p Hos Habs).
Qed.

(* non-vacuity: "/a//b/../c/." is absolute and not clean *)
Example C01_unclean_example :
  is_abs Linux [47;97;47;47;98;47;46;46;47;99;47;46]%N = true
  /\ clean Linux [47;97;47;47;98;47;46;46;47;99;47;46]%N = [47;97;47;99]%N.
Proof. vm_compute. auto. Qed.
