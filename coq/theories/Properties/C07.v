(* Property C07 - every call returns: no deadlock, hang or panic.

   ===================================================================================
   CONCURRENT PART (this section; the sequential totality theorems are added separately)
   ===================================================================================
   Model: Conc/Sched.v - threads ask for a lock, run a segment, ask for the next one; a state
   is DEADLOCKED when some thread is unfinished and no unfinished thread can be granted its
   request (RWMutex exclusion; a thread's own holds count, sync.RWMutex is not re-entrant). *)
From Avfs Require Import Base Sched MemConc Lin ExclMkdir DeadlockFree Traces Witness LockProg.
From Avfs Require OrefaInv OrefaWorld OrefaTotal.   (* sequential part; not imported: names are qualified below *)

(* ---- concurrent ------------------------------------------------------------------------- *)

(* C07_order (generic, proved once, any machine / number of threads): if every thread only asks
   for locks strictly above - in one order [rank] - all the locks it holds, and a thread that has
   finished holds nothing, the state is not deadlocked. *)
Theorem C07_order :
  forall (sstate lstate : Type) (request : lstate -> option req) (holds : lstate -> list hold)
         (rank : lock -> nat) (c : cstate sstate lstate),
    ascending request holds rank c -> finished_hold_nothing request holds c ->
    deadlocked request holds c = false.
Proof. intros. apply deadlock_free_of_order with (rank := rank); assumption. Qed.

(* ... hence no state reachable by ANY schedule is deadlocked when the discipline is an invariant *)
Theorem C07_order_reachable :
  forall (sstate lstate : Type) (request : lstate -> option req) (holds : lstate -> list hold)
         (segment : lstate -> sstate -> sstate * lstate) (cur_call : lstate -> nat)
         (rank : lock -> nat) (I : cstate sstate lstate -> Prop),
    (forall i c, I c -> I (sched_step request holds segment cur_call i c)) ->
    (forall c, I c -> ascending request holds rank c /\ finished_hold_nothing request holds c) ->
    forall c0 sched, I c0 -> deadlocked request holds (sched_run request holds segment cur_call sched c0) = false.
Proof. intros. eapply no_reachable_deadlock; eauto. Qed.

(* a finished MemFS call sequence holds no lock (every Lock is paired with a deferred Unlock) *)
Theorem C07_finished_hold_nothing : forall c : mstate, finished_hold_nothing mc_request mc_holds c.
Proof. exact mc_finished_hold_nothing. Qed.

(* n concurrent Mkdir / exclusive creates of one name never deadlock, under any schedule *)
Theorem C07_excl_calls_never_deadlock :
  forall (h0 : cheap) (dirs : cpath) (nm : cname) (d : nat) (create : bool) (rnds : list (list cname)) (sched : list nat),
  walk_dirs h0 0 dirs = Some d -> k_is_dir h0 d = true -> k_lookup h0 d nm = None ->
  mc_deadlocked (mc_run sched (mc_init h0 (map (fun _ => [if create then QCreate (dirs ++ [nm]) else QMkdir (dirs ++ [nm])]) rnds) rnds)) = false.
Proof.
  intros h0 dirs nm d create rnds sched Hres Hdir Habs.
  exact (@excl_no_deadlock h0 dirs nm d (if create then KFile 1 else KDir []) Hres Hdir Habs create eq_refl rnds sched).
Qed.

(* C07_traces: the lock traces of the Rename-free calls are ascending.  For ANY programs made of Mkdir,
   OpenFile(O_CREATE|O_EXCL), Remove, Link, Symlink, MkdirAll, RemoveAll, CreateTemp, MkdirTemp ([rfree]: no
   Rename), any number of threads, any name streams, from any heap that is ordered ([hord]: the root
   is a directory, every entry points to an existing node, and to a younger one when it is a
   directory - true of every tree built without moving directories), in every state reached by ANY
   schedule every thread asks for a lock above all the locks it holds, in the order
   [rank] = directories by node id, then every other node. *)
Theorem C07_traces : forall (h0 : cheap) (progs : list (list qcall)) (rnds : list (list cname)) (sched : list nat),
  hord h0 -> Forall rfree progs ->
  let c := mc_run sched (mc_init h0 progs rnds) in
  ascending mc_request mc_holds (rank (c_sh c)) c /\ finished_hold_nothing mc_request mc_holds c.
Proof. intros h0 progs rnds sched Ho Hf. exact (traces_ascending rnds sched Ho Hf). Qed.

(* ... hence (C07_order) no schedule of Rename-free programs reaches a deadlock *)
Theorem C07_rename_free_never_deadlocks : forall (h0 : cheap) (progs : list (list qcall)) (rnds : list (list cname)) (sched : list nat),
  hord h0 -> Forall rfree progs ->
  mc_deadlocked (mc_run sched (mc_init h0 progs rnds)) = false.
Proof. intros h0 progs rnds sched Ho Hf. exact (traces_no_deadlock rnds sched Ho Hf). Qed.

(* non-vacuity: the harness tree is ordered; a Rename-free program with nested locking *)
Example C07_traces_example :
  hord tree0 /\
  Forall rfree [[QRemoveAll [n_a]; QMkdirAll [n_b; n_x; n_y]]; [QLink [n_a; n_f] [n_b; n_x]; QRemove [n_a; n_d]]; [QCreateTemp [n_a; n_d] n_tmp]].
Proof. split; [apply hordb_sound; vm_compute; reflexivity|repeat constructor]. Qed.

(* REFUTED: two opposite cross-directory Renames (each locks its old parent, then its new
   parent) reach, under the given schedule, a state where both wait for ever *)
Theorem C07_refuted_rename_rename : reaches_deadlock w_rename_cross s_rename_cross = true.
Proof. exact deadlock_rename_cross. Qed.

(* REFUTED for OrefaFS (lock programs transcribed from orefafs.go / orefafs_internal.go and compared
   with the instrumented code on every run, stream `lockprog`): *)

(* Rename takes node locks and then the index lock; Mkdir (createNode) holds the index lock and then
   takes the node lock of the parent *)
Theorem C07_refuted_orefa_rename_mkdir :
  lp_reaches_deadlock [orefa_rename_bg_ax; orefa_mkdir_a_x] [0; 0; 0; 1] = true.
Proof. exact orefa_rename_mkdir_deadlock. Qed.

(* Link (file, new parent, index) against Remove (index, parent, child) *)
Theorem C07_refuted_orefa_link_remove :
  lp_reaches_deadlock [orefa_link_af_bx; orefa_remove_a_f] [0; 0; 0; 0; 0; 1; 1] = true.
Proof. exact orefa_link_remove_deadlock. Qed.

(* two opposite cross-directory OrefaFS Renames *)
Theorem C07_refuted_orefa_rename_rename :
  lp_reaches_deadlock [orefa_rename_bg_ax; orefa_rename_af_bx] [0; 1; 0; 1] = true.
Proof. exact orefa_rename_rename_deadlock. Qed.


(* ===================================================================================
   SEQUENTIAL PART (totality: no Panic, no Deadlock, no OutOfFuel outcome)
   ===================================================================================
   Restatements of theorems proved in Fs/*Total.v about the sequential world models (which have
   explicit RPanic / RDeadlock / EFuel results wherever the Go code could index out of range, lock
   a node twice or loop); tied to the code by the `fs` and `orefa` streams of the check, in which
   the implementation itself must never answer PANIC or DEADLOCK. *)

(* OrefaFS: on a well-formed world, with every view / handle index in range, ANY call with ANY
   arguments (arbitrary byte strings as paths, any flags, sizes, offsets, closed handles) returns
   a result that is neither a panic, nor a deadlock, nor an exhausted loop *)
Theorem C07_orefa_total : forall w c,
  OrefaInv.orefa_inv (OrefaWorld.ow_fs w) -> OrefaTotal.handles_ok w -> OrefaTotal.call_in_range w c ->
  OrefaTotal.res_ok (snd (OrefaWorld.ostep w c)).
Proof. exact OrefaTotal.C07_orefa_total. Qed.

(* ... hence every result of every history from the initial Linux world *)
Theorem C07_orefa_run : forall um cs,
  OrefaTotal.run_ok (OrefaWorld.o_init_world_linux um) cs ->
  Forall OrefaTotal.res_ok (snd (OrefaWorld.orun (OrefaWorld.o_init_world_linux um) cs)).
Proof. exact OrefaTotal.C07_orefa_run. Qed.
