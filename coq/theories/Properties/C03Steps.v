(* Property C03 - permission and ownership enforcement equals Linux discretionary access control.
   Statements, continued (proofs: Fs/DacProofs.v, Fs/DacSteps.v, Fs/DacAdmin.v; examples: Fs/DacExamples.v).

   The specification side is Posix.v ([kperm_bits]/[kperm] = generic_permission, [kwalk] = the kernel's path walk,
   [k_mkdir] ... [k_open] = the system calls, [spec_step]); the implementation side is MemFS.v ([check_permission],
   [search_node], [mkdir] ... [open_file], World.v [wstep]).  [v_user] and [v_umask] of the acting view are arbitrary
   everywhere: owner, group member, other, administrator.

   Every deviation of MemFS from Linux DAC listed in known_findings.jsonl is excluded by an explicit hypothesis of
   the theorem of the call it concerns (named below), never by a blanket classifier. *)
From Avfs Require Import Base PathModel PathSpec PathProofs PathCleanProofs PathIterProofs.
From Avfs Require Import MemFS MemFile World Posix WalkBridge WalkSym WalkBudget WalkReadlink StepEq.
From Avfs Require Import Inv StepInv.
From Avfs Require Import DacLemmas DacProofs DacSteps DacAdmin DacInv DacExamples DacAgree DacGetwd DacGetwdEx.

(* ---- C03_class: checkPermission IS acl_permission_check ----------------------------------------------------------- *)
(* for every mode word (unbounded), owner, group, user and request: owner bits if the user owns the object, else
   group bits if the groups are equal, else other bits; the three requested bits must all be present; the
   administrator overrides *)
Theorem C03_class : forall (m : meta) (p : N) (u : user),
  check_permission m p u = us_admin u || kperm_bits m u (N.land p 7).
Proof. exact check_permission_kperm. Qed.

Theorem C03_class_node : forall (h : heap) (i : nat) (p : N) (u : user),
  perm_on h i p u = kperm h i (N.land p 7) u.
Proof. exact perm_on_kperm. Qed.

(* a request for several bits is granted iff each one is (write+search = write and search) *)
Theorem C03_class_masks : forall (h : heap) (i : nat) (x y : N) (u : user),
  kperm h i (N.lor x y) u = kperm h i x u && kperm h i y u.
Proof. exact kperm_lor. Qed.

(* ---- C03_walk: search permission on every traversed directory ----------------------------------------------------- *)
(* with symbolic links, any user: the implementation's walk is refused with EPermDenied exactly when the kernel's
   is refused with EACCES (hypotheses: those of the walk bridge C04_resolve) *)
Theorem C03_walk : forall (s : fsys) (sv : sview) (slm : slmode) (cs : list str),
  let v := sv_view sv in
  let h := f_heap s in
  v_os v = Linux -> walk_wf h -> links_clean h -> node_is_dir h (v_root v) = true ->
  Forall good_comp cs ->
  let K := klookup s sv false (follow_of slm) (abs_path cs) in
  let r := search_node s v (abs_path cs) slm in
  K <> WErr EFUEL -> sr_err r <> EFuel ->
  (sr_err r = EPermDenied <-> K = WErr EACCES).
Proof. exact walk_denied_iff. Qed.

(* on a link-free path, no heap hypothesis: both walks are refused iff some traversed directory lacks search
   permission, and the implementation stops AT the first such directory ([sr_denied]) *)
Theorem C03_walk_first : forall (s : fsys) (sv : sview) (cs : list str) (slm : slmode) (pm follow : bool),
  let v := sv_view sv in
  let h := f_heap s in
  v_os v = Linux -> Forall good_comp cs -> link_free h (v_root v) cs = true ->
  node_is_dir h (v_root v) = true -> length cs < SEARCH_FUEL ->
  let r := search_node s v (abs_path cs) slm in
  match first_unsearchable h (v_user v) (v_root v) cs with
  | Some d => sr_err r = EPermDenied /\ sr_denied r = Some d /\ klookup s sv pm follow (abs_path cs) = WErr EACCES
  | None => sr_err r <> EPermDenied /\ klookup s sv pm follow (abs_path cs) <> WErr EACCES
  end.
Proof. exact walk_denied_first. Qed.

(* [first_unsearchable] is what its name says: everything before it is a walk through searchable directories *)
Theorem C03_walk_first_is_first : forall (h : heap) (u : user) (cs : list str) (d x : nat),
  kperm h d 1 u = true -> first_unsearchable h u d cs = Some x ->
  exists pre c post y, cs = pre ++ c :: post /\ post <> [] /\ dwalk h u d pre = Some y
                       /\ alookup str_eqb c (children h y) = Some x /\ node_is_dir h x = true /\ kperm h x 1 u = false.
Proof. exact first_unsearchable_spec. Qed.

(* ---- C03_step_<call>: implementation model = specification, any user ---------------------------------------------- *)
(* [dac_hyps]: Linux flavour, the heap shape of the walk bridge (single parent, acyclic, cleaned link targets), the
   view's root is a directory.  [path_ok]: a clean absolute path of proper names on which neither walk runs out of
   its budget (<= 40 links). *)
Theorem C03_step_stat : forall (s : fsys) (sv : sview) (slm : slmode) (cs : list str),
  dac_hyps s sv -> path_ok s sv slm cs ->
  stat_sim (proj_res Linux (stat_gen slm s (sv_view sv) (abs_path cs))) (k_stat (follow_of slm) s sv (abs_path cs)).
Proof. exact dstep_stat. Qed.

Theorem C03_step_readlink : forall (s : fsys) (sv : sview) (cs : list str),
  dac_hyps s sv -> path_ok s sv SlLstat cs ->
  proj_res Linux (readlink s (sv_view sv) (abs_path cs)) = k_readlink s sv (abs_path cs).
Proof. exact dstep_readlink. Qed.

(* owner or administrator, EPERM otherwise *)
Theorem C03_step_chtimes : forall (s : fsys) (sv : sview) (cs : list str),
  dac_hyps s sv -> path_ok s sv SlEval cs ->
  proj_res Linux (chtimes s (sv_view sv) (abs_path cs)) = k_utimes s sv (abs_path cs).
Proof. exact dstep_chtimes. Qed.

(* owner or administrator, EPERM otherwise; S_ISGID dropped for an owner outside the object's group (no side
   condition: the rule was missing from MemFS, the failed proof gave the witness, the repository fix added it) *)
Theorem C03_step_chmod : forall (s : fsys) (sv : sview) (cs : list str) (mode : N),
  dac_hyps s sv -> path_ok s sv SlEval cs ->
  (fst (chmod s (sv_view sv) (abs_path cs) mode), proj_res Linux (snd (chmod s (sv_view sv) (abs_path cs) mode)))
  = k_chmod s sv (abs_path cs) mode.
Proof. exact dstep_chmod. Qed.

(* write permission on the file (EACCES); a user who is not an administrator clears the set-id bits of the file on
   both sides ([drop_privs]; this was the deviation C01-CHOWN-SETID and a premise [file_privs_kept] until repaired) *)
Theorem C03_step_truncate : forall (s : fsys) (sv : sview) (cs : list str) (size : Z),
  dac_hyps s sv -> path_ok s sv SlEval cs ->
  (fst (truncate s (sv_view sv) (abs_path cs) size), proj_res Linux (snd (truncate s (sv_view sv) (abs_path cs) size)))
  = k_truncate s sv (abs_path cs) size.
Proof. exact dstep_truncate. Qed.

(* write + search permission on the parent (EACCES); owner, group and mode of the new directory - in a
   set-group-id directory the group of that directory and the set-group-id bit (inode_init_owner; this was the
   deviation C01-SETGID-INHERIT and a premise [no_setgid_parent] until createDir/createFile/createSymlink were repaired) *)
Theorem C03_step_mkdir : forall (s : fsys) (sv : sview) (w : list str) (cl : str) (perm : N),
  dac_hyps s sv -> path_ok s sv SlLstat (w ++ [cl]) ->
  let p := abs_path (w ++ [cl]) in
  (fst (mkdir s (sv_view sv) p perm), proj_res Linux (snd (mkdir s (sv_view sv) p perm))) = k_mkdir s sv p perm.
Proof. exact dstep_mkdir. Qed.

Theorem C03_step_symlink : forall (s : fsys) (sv : sview) (w : list str) (cl : str) (t : str),
  dac_hyps s sv -> path_ok s sv SlLstat (w ++ [cl]) ->
  let p := abs_path (w ++ [cl]) in
  (fst (symlink s (sv_view sv) t p), proj_res Linux (snd (symlink s (sv_view sv) t p))) = k_symlink s sv (clean Linux t) p.
Proof. exact dstep_symlink. Qed.

(* write + search permission on the parent (EACCES), then the sticky rule (EPERM: in a directory with the sticky bit only
   the administrator, the owner of the directory or the owner of the entry - this was the deviation C03-STICKY and a
   premise [no_sticky_refusal] until Remove and Rename were repaired);
   [sym_single]: no hard-linked symbolic link (the implementation never makes one) *)
Theorem C03_step_remove : forall (s : fsys) (sv : sview) (w : list str) (cl : str),
  dac_hyps s sv -> path_ok s sv SlLstat (w ++ [cl]) -> sym_single (f_heap s) ->
  let p := abs_path (w ++ [cl]) in
  (fst (remove s (sv_view sv) p), proj_res Linux (snd (remove s (sv_view sv) p))) = go_remove s sv p.
Proof. exact dstep_remove. Qed.

(* write + search permission on the new parent.  [link_permitted]: fs.protected_hardlinks does not refuse (listed:
   C03-PROTECTED-HARDLINKS); [not_symlink]: Link on a symbolic link (listed: C01-LINK-SYMLINK) *)
Theorem C03_step_link : forall (phl : bool) (s : fsys) (sv : sview) (co w : list str) (cl : str),
  dac_hyps s sv -> path_ok s sv SlLstat co -> path_ok s sv SlLstat (w ++ [cl]) -> not_symlink s sv co ->
  link_permitted phl s sv co ->
  let o := abs_path co in
  let p := abs_path (w ++ [cl]) in
  (fst (link s (sv_view sv) o p), proj_res Linux (snd (link s (sv_view sv) o p))) = k_link phl s sv o p.
Proof. exact dstep_link. Qed.

(* search permission on the directory itself; on success the new working-directory string denotes the kernel's node *)
Theorem C03_step_chdir : forall (s : fsys) (sv : sview) (cs : list str),
  dac_hyps s sv -> path_ok s sv SlEval cs ->
  match chdir s (sv_view sv) (abs_path cs), k_chdir s sv (abs_path cs) with
  | inl r, inl e => proj_res Linux r = SErr e
  | inr d, inr c => cwd_denotes (f_heap s) (v_user (sv_view sv)) (v_root (sv_view sv))
                                (klookup s sv false true (abs_path cs)) d c
  | _, _ => False
  end.
Proof. exact dstep_chdir. Qed.

(* OpenFile, every flag combination (the invalid access mode 3 included): read/write permission by
   access mode, O_TRUNC needs write permission, a directory opens read-only *)
Theorem C03_step_open_existing : forall (s : fsys) (sv : sview) (cs : list str) (flag perm : N) (vi : nat),
  dac_hyps s sv -> path_ok s sv SlEval cs -> has flag O_CREATE = false ->
  open_sim (open_file s (sv_view sv) vi (abs_path cs) flag perm) (k_open s sv (abs_path cs) flag perm).
Proof. exact dstep_open_nocreat. Qed.

(* O_CREAT: write + search permission on the directory of the (possibly link-resolved) name *)
Theorem C03_step_open_create : forall (s : fsys) (sv : sview) (w : list str) (cl : str) (flag perm : N) (vi : nat),
  dac_hyps s sv -> path_ok s sv SlEval (w ++ [cl]) ->
  has flag O_CREATE = true -> has flag O_EXCL = false ->
  let p := abs_path (w ++ [cl]) in
  open_sim (open_file s (sv_view sv) vi p flag perm) (k_open s sv p flag perm).
Proof. exact dstep_open_creat. Qed.

(* O_CREAT|O_EXCL.  [excl_existing_accessible]: MemFS answers EACCES before EEXIST (listed: C03-ERRNO-PRIORITY) *)
Theorem C03_step_open_excl : forall (s : fsys) (sv : sview) (w : list str) (cl : str) (flag perm : N) (vi : nat),
  dac_hyps s sv -> path_ok s sv SlLstat (w ++ [cl]) ->
  has flag O_CREATE = true -> has flag O_EXCL = true ->
  excl_existing_accessible s sv (w ++ [cl]) flag ->
  let p := abs_path (w ++ [cl]) in
  open_sim (open_file s (sv_view sv) vi p flag perm) (k_open s sv p flag perm).
Proof. exact dstep_open_excl. Qed.

(* Rename of a file or symbolic link to a name that does not exist, same or other directory: write + search
   permission on both directories.  [rename_one_error]: errno priority; the sticky rule of the source directory is covered.
   (Rename of a directory, and onto an existing entry, are not covered: see design.d/C03-proofs.md.) *)
Theorem C03_step_rename_partial : forall (s : fsys) (sv : sview) (wo : list str) (clo : str) (w : list str) (cl : str),
  dac_hyps s sv -> path_ok s sv SlLstat (wo ++ [clo]) -> path_ok s sv SlLstat (w ++ [cl]) ->
  source_not_dir s sv (wo ++ [clo]) -> dest_absent s sv (w ++ [cl]) -> rename_one_error s sv (wo ++ [clo]) (w ++ [cl]) ->
  let o := abs_path (wo ++ [clo]) in
  let p := abs_path (w ++ [cl]) in
  (fst (rename s (sv_view sv) o p), proj_res Linux (snd (rename s (sv_view sv) o p))) = go_rename s sv o p.
Proof. exact dstep_rename_file_new. Qed.

(* Rename of a directory to a name that does not exist: moving it to ANOTHER directory needs write permission on the
   moved directory itself (EACCES; this was the deviation C03-RENAME-DIR-WRITE and a premise [moved_dir_writable]);
   [into_itself_agree]: the two own-subtree tests (string prefix / ancestor walk) AGREE - so the refusal EINVAL of a move into
   the directory's own subtree is covered too, for any user, before any permission test; the agreement itself is
   [C03_into_itself_agree] on the states of C05 when the moved directory is searchable by the caller *)
Theorem C03_step_rename_dir_partial : forall (s : fsys) (sv : sview) (wo : list str) (clo : str) (w : list str) (cl : str),
  dac_hyps s sv -> path_ok s sv SlLstat (wo ++ [clo]) -> path_ok s sv SlLstat (w ++ [cl]) ->
  source_is_dir s sv (wo ++ [clo]) -> dest_absent s sv (w ++ [cl]) -> rename_one_error s sv (wo ++ [clo]) (w ++ [cl]) ->
  into_itself_agree s sv (wo ++ [clo]) (w ++ [cl]) ->
  let o := abs_path (wo ++ [clo]) in
  let p := abs_path (w ++ [cl]) in
  (fst (rename s (sv_view sv) o p), proj_res Linux (snd (rename s (sv_view sv) o p))) = go_rename s sv o p.
Proof. exact dstep_rename_dir_new. Qed.

(* Rename of a file or link onto an existing file or link: the DECISION (allowed / refused, errno) is the kernel's.
   The resulting heaps differ in the order of the destination directory's children (map overwrite vs unlink + add),
   so only the result is compared.  The same object under its two names (or the same path twice) is covered: success on
   both sides before any permission check (this was the deviation C03-RENAME-SAME and a premise [distinct_nodes]); so is the
   sticky rule of both directories (source entry, replaced entry) *)
Theorem C03_step_rename_replace_partial : forall (s : fsys) (sv : sview) (wo : list str) (clo : str) (w : list str) (cl : str),
  dac_hyps s sv -> path_ok s sv SlLstat (wo ++ [clo]) -> path_ok s sv SlLstat (w ++ [cl]) ->
  source_not_dir s sv (wo ++ [clo]) -> dest_present s sv (w ++ [cl]) -> dest_nondir s sv (w ++ [cl]) ->
  let o := abs_path (wo ++ [clo]) in
  let p := abs_path (w ++ [cl]) in
  proj_res Linux (snd (rename s (sv_view sv) o p)) = snd (go_rename s sv o p).
Proof. exact dstep_rename_replace_result. Qed.

(* Chown / Lchown, any user, on a file system with an identity manager: the path is resolved first; the administrator may
   do anything, the owner may change the group to its own (not the owner), anybody may pass (-1,-1), everything else is
   EPERM; the set-id bits of a non-directory are cleared.  (Until Chown/Lchown were repaired MemFS refused every call of a
   non-administrator before resolving the path: deviation C03-CHOWN-NONROOT, and only [C03_step_chown_refused_partial] - the
   kernel refuses too - could be stated.) *)
Theorem C03_step_chown : forall (slm : slmode) (s : fsys) (sv : sview) (cs : list str) (uid gid : Z),
  dac_hyps s sv -> path_ok s sv slm cs -> v_idm (sv_view sv) = true ->
  (fst (chown_gen slm s (sv_view sv) (abs_path cs) uid gid),
   proj_res Linux (snd (chown_gen slm s (sv_view sv) (abs_path cs) uid gid)))
  = k_chown (follow_of slm) s sv (abs_path cs) uid gid.
Proof. exact dstep_chown. Qed.

(* the step theorem at the level of worlds, and for histories (induction over call lists): [dcovered] collects the
   hypotheses above per call *)
Theorem C03_step : forall (phl : bool) (w : world) (vi : nat) (sw : sworld) (c : call),
  absw w vi sw -> dcovered phl vi sw c ->
  obs_sim (snd (impl_step_proj w c)) (snd (spec_step phl sw c))
  /\ absw (fst (impl_step_proj w c)) vi (fst (spec_step phl sw c)).
Proof. exact dstep_world. Qed.

Theorem C03_history : forall (phl : bool) (vi : nat) (cs : list call) (w : world) (sw : sworld),
  absw w vi sw -> dcovered_run phl vi sw cs ->
  Forall2 obs_sim (snd (impl_run w cs)) (snd (spec_run_phl phl sw cs))
  /\ absw (fst (impl_run w cs)) vi (fst (spec_run_phl phl sw cs)).
Proof. exact dhistory_world. Qed.

(* on the states of C05: [Inv] (kept by every step) and [links_ok] (kept by the specification's calls) at the START
   are enough; the hypotheses [dac_hyps] of the step theorem are derived at every state of the run, and the premises
   of each call ([dcall_ok]: the deviation classes, the fuel conditions) may use them.  No condition on the user. *)
Theorem C03_history_inv : forall (phl : bool) (vi : nat) (cs : list call) (w : world) (sw : sworld),
  Inv w -> absw w vi sw -> links_ok (f_heap (w_fs w)) -> dcall_ok_run phl vi sw cs ->
  Forall2 obs_sim (snd (impl_run w cs)) (snd (spec_run_phl phl sw cs))
  /\ absw (fst (impl_run w cs)) vi (fst (spec_run_phl phl sw cs))
  /\ Inv (fst (impl_run w cs)) /\ links_ok (f_heap (w_fs (fst (impl_run w cs)))).
Proof. exact dhistory_inv. Qed.

(* non-vacuity: alice (a plain user) runs Mkdir, OpenFile(O_CREAT|O_EXCL), Chmod, Stat on the example tree *)
Example C03_history_inv_example :
  Inv DacTree.w_alice /\ links_ok (f_heap (w_fs DacTree.w_alice)) /\ dcall_ok_run true 0 DacTree.sw_alice DacTree.ahist
  /\ Forall2 obs_sim (snd (impl_run DacTree.w_alice DacTree.ahist)) (snd (spec_run_phl true DacTree.sw_alice DacTree.ahist))
  /\ snd (spec_run_phl true DacTree.sw_alice DacTree.ahist)
     = [ SOk; SOk; SOk;
         SInfo {| fi_name := DacTree.n_g; fi_size := 0; fi_mode := N.lor MODE_SETGID 384; fi_uid := 1000; fi_gid := 1000;
                  fi_nlink := 1; fi_id := 5 |} ].
Proof.
  split; [exact DacTree.dtree_inv|]. split; [exact DacTree.dtree_links_ok|]. split; [exact DacTree.ahist_ok|].
  split; [exact (proj1 DacTree.ahist_inv)|exact (proj1 DacTree.ahist_results)].
Qed.

(* ---- C03_admin_never_refused ---------------------------------------------------------------------------------------- *)
(* no call of the world step answers the administrator EACCES or EPERM, except: Link on a directory or symbolic link
   (EPERM, as linkat), Chown/Lchown on the Windows flavour, MemFile.Chmod on a node that is neither file nor directory *)
Theorem C03_admin_never_refused : forall (w : world) (c : call),
  world_roots w -> admin_call w c -> clean_but (admin_exception w c) (snd (wstep w c)).
Proof. exact admin_never_refused. Qed.

(* in plain words *)
Theorem C03_admin_no_eacces : forall (w : world) (c : call),
  world_roots w -> admin_call w c ->
  (snd (wstep w c) = RFail EPermDenied \/ exists p, snd (wstep w c) = RErrPath EPermDenied p) ->
  exists hi mode, c = FChmod hi mode.
Proof. exact admin_no_eacces. Qed.

Theorem C03_admin_no_eperm : forall (w : world) (c : call),
  world_roots w -> admin_call w c -> snd (wstep w c) = RFail EOpNotPermitted ->
  exists vi p uid gid, (c = CChown vi p uid gid \/ c = CLchown vi p uid gid) /\ view_os w vi = Windows.
Proof. exact admin_no_eperm. Qed.

Theorem C03_admin_no_eperm_link : forall (w : world) (c : call),
  world_roots w -> admin_call w c -> snd (wstep w c) = RFail EC_OpNotPermitted -> exists vi o n, c = CLink vi o n.
Proof. exact admin_no_eperm_link. Qed.

(* ---- C03_created_owner: every node a call allocates -------------------------------------------------------------------- *)
(* [allocated s s' m]: exactly one node was added, at index |heap|, with meta [m]; older metas unchanged.
   [dir_meta v pm]/[file_meta v pm]/[link_meta v pm] where [pm] is the meta data of the directory the object is created in
   ([parent_meta]: the parent the walk of the call hands back): uid of the calling view; gid of the calling view, or the
   gid of [pm] when [pm] is set-group-id; mode = type bits | (perm & mask) &^ umask, a new directory also inherits the
   set-group-id bit of [pm] (inode_init_owner) *)
Theorem C03_created_meta : forall (v : view) (pm : meta) (perm : N),
  (m_uid (dir_meta v pm perm) = us_uid (v_user v)
   /\ m_gid (dir_meta v pm perm) = (if has (m_mode pm) MODE_SETGID then m_gid pm else us_gid (v_user v))
   /\ m_mode (dir_meta v pm perm)
      = N.lor (N.lor (dir_mode (v_os v)) (N.ldiff (N.land perm (511 + MODE_STICKY)) (v_umask v))) (N.land (m_mode pm) MODE_SETGID))
  /\ (m_uid (file_meta v pm perm) = us_uid (v_user v)
      /\ m_gid (file_meta v pm perm) = (if has (m_mode pm) MODE_SETGID then m_gid pm else us_gid (v_user v))
      /\ m_mode (file_meta v pm perm) = N.lor (file_mode (v_os v)) (N.ldiff (N.land perm FILE_MODE_MASK) (v_umask v)))
  /\ link_meta v pm = {| m_mode := N.lor MODE_SYMLINK 511; m_uid := us_uid (v_user v);
                        m_gid := if has (m_mode pm) MODE_SETGID then m_gid pm else us_gid (v_user v) |}.
Proof. intros v pm perm. exact (conj (dir_meta_spec v pm perm) (conj (file_meta_spec v pm perm) eq_refl)). Qed.

Theorem C03_created_owner_mkdir : forall (s : fsys) (v : view) (name : str) (perm : N),
  (snd (mkdir s v name perm) = ROk
   /\ allocated s (fst (mkdir s v name perm)) (dir_meta v (parent_meta s (search_node s v name SlLstat)) perm))
  \/ (snd (mkdir s v name perm) <> ROk /\ fst (mkdir s v name perm) = s).
Proof. exact mkdir_created. Qed.

(* every directory of the chain MkdirAll creates has the same meta data: group and set-group-id bit are inherited along it *)
Theorem C03_created_owner_mkdir_all : forall (s : fsys) (v : view) (path : str) (perm : N),
  allocated_many s (fst (mkdir_all s v path perm)) (dir_meta v (parent_meta s (search_node s v path SlEval)) perm).
Proof. exact mkdir_all_created. Qed.

Theorem C03_created_owner_open_file : forall (s : fsys) (v : view) (vi : nat) (name : str) (flag perm : N),
  metas_kept s (fst (open_file s v vi name flag perm))
  \/ (allocated s (fst (open_file s v vi name flag perm))
        (file_meta v (parent_meta s (search_node s v name (if has (to_open_mode flag) OpenCreateExcl then SlLstat else SlEval))) perm)
      /\ exists f, snd (open_file s v vi name flag perm) = inr f /\ hd_node f = Some (length (f_heap s))).
Proof. exact open_file_created. Qed.

Theorem C03_created_owner_symlink : forall (s : fsys) (v : view) (oldname newname : str),
  (snd (symlink s v oldname newname) = ROk
   /\ allocated s (fst (symlink s v oldname newname)) (link_meta v (parent_meta s (search_node s v newname SlLstat))))
  \/ (snd (symlink s v oldname newname) <> ROk /\ fst (symlink s v oldname newname) = s).
Proof. exact symlink_created. Qed.

(* [metas_kept] / [meta_kept m' m]: same owner, same group, same mode outside the set-id bits, no bit added - a
   truncation or a write by a user who is not an administrator clears the set-id bits of the file (file_remove_privs),
   also those of a file WriteFile has just created with them in [perm]; [allocated_w]: one new node, every older
   meta kept in that sense *)
Theorem C03_created_owner_write_file : forall (s : fsys) (v : view) (name : str) (data : list N) (perm : N),
  metas_kept s (fst (write_file s v name data perm))
  \/ exists m', allocated_w s (fst (write_file s v name data perm)) m'
                /\ meta_kept m' (file_meta v (parent_meta s (search_node s v name SlEval)) perm).
Proof. exact write_file_created. Qed.

(* ---- non-vacuity (Fs/DacExamples.v, module DacTree: three ordinary users on a nine-node tree) -------------------------- *)
Example C03_example_hyps : forall u um, dac_hyps DacTree.dfs (DacTree.svu u um).
Proof. exact DacTree.dtree_hyps. Qed.

(* a covered call of a plain user, both sides computed *)
Example C03_example_step :
  let c := CMkdir 0 (abs_path ([DacTree.n_h] ++ [DacTree.n_n])) 511 in
  absw DacTree.w_alice 0 DacTree.sw_alice /\ dcovered true 0 DacTree.sw_alice c
  /\ snd (impl_step_proj DacTree.w_alice c) = SOk /\ snd (spec_step true DacTree.sw_alice c) = SOk
  /\ w_fs (fst (impl_step_proj DacTree.w_alice c)) = sw_fs (fst (spec_step true DacTree.sw_alice c)).
Proof. exact DacTree.world_step_alice_mkdir. Qed.

(* Chmod(02644) by an owner outside the group: S_ISGID dropped on both sides (the former witness) *)
Example C03_example_chmod_setgid :
  let c := CChmod 0 (abs_path [DacTree.n_e; DacTree.n_q]) (N.lor MODE_SETGID 420) in
  snd (impl_step_proj DacTree.w_alice c) = SOk /\ snd (spec_step true DacTree.sw_alice c) = SOk
  /\ meta_at (f_heap (w_fs (fst (impl_step_proj DacTree.w_alice c)))) 8 = Some (DacTree.mk 420 1000 2000)
  /\ meta_at (f_heap (sw_fs (fst (spec_step true DacTree.sw_alice c)))) 8 = Some (DacTree.mk 420 1000 2000).
Proof. exact DacTree.chmod_nonmember_clears_setgid. Qed.

(* set-group-id inheritance: bob (1001:1000) creates a directory in /h/s (alice:2000, mode 02777): the step theorem
   applies, and the new directory is bob:2000 with mode 02755 on both sides (the former deviation C01-SETGID-INHERIT) *)
Example C03_example_setgid_inherit :
  let p := abs_path ([DacTree.n_h; DacTree.n_s] ++ [DacTree.n_n]) in
  (fst (mkdir DacTree.dfs_sg (DacTree.view_of DacTree.bob 18) p 511),
   proj_res Linux (snd (mkdir DacTree.dfs_sg (DacTree.view_of DacTree.bob 18) p 511)))
  = k_mkdir DacTree.dfs_sg (DacTree.svu DacTree.bob 18) p 511
  /\ snd (k_mkdir DacTree.dfs_sg (DacTree.svu DacTree.bob 18) p 511) = SOk
  /\ meta_at (f_heap (fst (mkdir DacTree.dfs_sg (DacTree.view_of DacTree.bob 18) p 511))) 9
     = Some (DacTree.mk (N.lor MODE_DIR (N.lor MODE_SETGID 493)) 1001 2000).
Proof. exact DacTree.mkdir_setgid_inherits. Qed.

(* the sticky rule: /t is 01777 root's, /t/b is bob's; alice, who may write /t, is refused Remove with EPERM on both
   sides - the step theorem applies (the former deviation C03-STICKY) *)
Example C03_example_sticky :
  let p := abs_path ([DacTree.n_t] ++ [DacTree.n_b]) in
  sticky_refuses DacTree.dtree 6 7 DacTree.alice = true
  /\ (fst (remove DacTree.dfs (DacTree.view_of DacTree.alice 18) p),
      proj_res Linux (snd (remove DacTree.dfs (DacTree.view_of DacTree.alice 18) p)))
     = go_remove DacTree.dfs (DacTree.svu DacTree.alice 18) p
  /\ snd (go_remove DacTree.dfs (DacTree.svu DacTree.alice 18) p) = SErr EPERM.
Proof. exact DacTree.remove_sticky_refused. Qed.

(* alice's directory /h/s with mode 0500 cannot be moved to another directory (/t): EACCES on both sides, the step
   theorem applies; within /h it can (the former deviation C03-RENAME-DIR-WRITE) *)
Example C03_example_rename_dir_write :
  let o := abs_path ([DacTree.n_h] ++ [DacTree.n_s]) in
  let p := abs_path ([DacTree.n_t] ++ [DacTree.n_g]) in
  (fst (rename DacTree.dfs_ro (DacTree.view_of DacTree.alice 18) o p),
   proj_res Linux (snd (rename DacTree.dfs_ro (DacTree.view_of DacTree.alice 18) o p)))
  = go_rename DacTree.dfs_ro (DacTree.svu DacTree.alice 18) o p
  /\ snd (go_rename DacTree.dfs_ro (DacTree.svu DacTree.alice 18) o p) = SErr EACCES
  /\ snd (go_rename DacTree.dfs_ro (DacTree.svu DacTree.alice 18) o (abs_path ([DacTree.n_h] ++ [DacTree.n_g]))) = SOk.
Proof. exact DacTree.rename_dir_unwritable_refused. Qed.

(* Rename(/e/q, /e/q) by carol, who may not write /e: success on both sides, no permission is looked at (the former
   deviation C03-RENAME-SAME) *)
Example C03_example_rename_same :
  let o := abs_path ([DacTree.n_e] ++ [DacTree.n_q]) in
  proj_res Linux (snd (rename DacTree.dfs (DacTree.view_of DacTree.carol 18) o o))
  = snd (go_rename DacTree.dfs (DacTree.svu DacTree.carol 18) o o)
  /\ snd (go_rename DacTree.dfs (DacTree.svu DacTree.carol 18) o o) = SOk
  /\ kperm DacTree.dtree 4 2 DacTree.carol = false.
Proof. exact DacTree.rename_same_no_permission. Qed.

(* Rename(/t, /t/g) by alice in a sticky / where /t is bob's: EINVAL on both sides, decided before the sticky bit, which
   refuses Rename(/t, /g) with EPERM (rename(2): the ancestor test precedes may_delete) *)
Example C03_example_rename_into_itself :
  let o := abs_path [DacTree.n_t] in
  let p := abs_path ([DacTree.n_t] ++ [DacTree.n_g]) in
  let q := abs_path [DacTree.n_g] in
  (fst (rename DacTree.ifs (DacTree.view_of DacTree.alice 18) o p),
   proj_res Linux (snd (rename DacTree.ifs (DacTree.view_of DacTree.alice 18) o p)))
  = go_rename DacTree.ifs (DacTree.svu DacTree.alice 18) o p
  /\ snd (go_rename DacTree.ifs (DacTree.svu DacTree.alice 18) o p) = SErr EINVAL
  /\ (fst (rename DacTree.ifs (DacTree.view_of DacTree.alice 18) o q),
      proj_res Linux (snd (rename DacTree.ifs (DacTree.view_of DacTree.alice 18) o q)))
     = go_rename DacTree.ifs (DacTree.svu DacTree.alice 18) o q
  /\ snd (go_rename DacTree.ifs (DacTree.svu DacTree.alice 18) o q) = SErr EPERM.
Proof. exact DacTree.rename_into_itself_first. Qed.

(* Chown by ordinary users: alice gives her /e/q (group 2000) to her own group - allowed, both sides, the step theorem
   applies; giving it to bob is EPERM; bob's Chown(/h/f,-1,-1) is allowed (the former deviation C03-CHOWN-NONROOT) *)
Example C03_example_chown_nonroot :
  (fst (chown_gen SlEval DacTree.dfs (DacTree.view_of DacTree.alice 18) (abs_path [DacTree.n_e; DacTree.n_q]) (-1) 1000),
   proj_res Linux (snd (chown_gen SlEval DacTree.dfs (DacTree.view_of DacTree.alice 18) (abs_path [DacTree.n_e; DacTree.n_q]) (-1) 1000)))
  = k_chown true DacTree.dfs (DacTree.svu DacTree.alice 18) (abs_path [DacTree.n_e; DacTree.n_q]) (-1) 1000
  /\ snd (k_chown true DacTree.dfs (DacTree.svu DacTree.alice 18) (abs_path [DacTree.n_e; DacTree.n_q]) (-1) 1000) = SOk
  /\ meta_at (f_heap (fst (k_chown true DacTree.dfs (DacTree.svu DacTree.alice 18) (abs_path [DacTree.n_e; DacTree.n_q]) (-1) 1000))) 8
     = Some (DacTree.mk 420 1000 1000)
  /\ snd (k_chown true DacTree.dfs (DacTree.svu DacTree.alice 18) (abs_path [DacTree.n_e; DacTree.n_q]) 1001 (-1)) = SErr EPERM
  /\ snd (k_chown true DacTree.dfs (DacTree.svu DacTree.bob 18) (abs_path [DacTree.n_h; DacTree.n_f]) (-1) (-1)) = SOk.
Proof. exact DacTree.chown_owner_group. Qed.

(* the administrator theorem applies to the initial world of MemFS *)
Example C03_example_admin : forall um c, call_view (init_world_linux um) c = 0 ->
  world_roots (init_world_linux um) /\ admin_call (init_world_linux um) c.
Proof. intros um c E. exact (conj (init_world_roots um) (init_admin_call um c E)). Qed.

(* ---- the two "into itself" tests of Rename agree ---------------------------------------------------------------------------------------- *)
(* MemFS: "old path + separator is a prefix of the new path" on the two RESOLVED path strings; rename(2): the moved directory is
   an ancestor of the destination directory.  On a state of C05, for any user who may search the moved directory: equal. *)
Theorem C03_into_itself_agree : forall (s : fsys) (sv : sview) (wo : list str) (clo : str) (w : list str) (cl : str),
  dac_hyps s sv -> Inv_heap (f_heap s) ->
  path_ok s sv SlLstat (wo ++ [clo]) -> path_ok s sv SlLstat (w ++ [cl]) ->
  source_is_dir s sv (wo ++ [clo]) -> source_searchable s sv (wo ++ [clo]) ->
  into_itself_agree s sv (wo ++ [clo]) (w ++ [cl]).
Proof. exact into_itself_agree_inv. Qed.

(* ---- Getwd for any user ------------------------------------------------------------------------------------------------------------------ *)
(* MemFS walks its working-directory STRING (no final link followed) and tests the search permission of the directory found;
   os.Getwd ([k_getwd]: its stat(".")) needs search permission on the working-directory NODE and spells its path back.
   [cwd_walk]: the string is a directory walk (every proper ancestor searchable by the caller, the root included) to the
   parent of the node, then the node's name.  The node itself may be unsearchable: EACCES on both sides.  Getwd is a clause
   of [dcovered], hence of C03_history / C03_history_inv. *)
Theorem C03_step_getwd : forall (s : fsys) (sv : sview) (bs : list str),
  v_os (sv_view sv) = Linux -> node_is_dir (f_heap s) (v_root (sv_view sv)) = true -> Inv_heap (f_heap s) ->
  cwd_walk s sv bs -> length bs < SEARCH_FUEL ->
  proj_res Linux (getwd s (sv_view sv)) = k_getwd s sv.
Proof. exact dstep_getwd. Qed.

Theorem C03_spec_getwd : forall (phl : bool) (sw : sworld) (vi : nat),
  spec_step phl sw (CGetwd vi) = (sw, k_getwd (sw_fs sw) (sw_sv sw)).
Proof. exact spec_getwd. Qed.

(* from the working directory "/h/s" (alice's, 0700, below "/h" alice:1000 0750): Getwd; Stat "/h/f"; Getwd -
   alice is answered "/h/s", bob (group 1000) is refused EACCES, on both sides, through C03_history_inv *)
Example C03_example_getwd :
  (Forall2 obs_sim (snd (impl_run (DacGetwdExamples.w_hs DacTree.alice) DacGetwdExamples.gh))
                   (snd (spec_run_phl true (DacGetwdExamples.sw_hs DacTree.alice) DacGetwdExamples.gh))
   /\ match snd (spec_run_phl true (DacGetwdExamples.sw_hs DacTree.alice) DacGetwdExamples.gh) with
      | [SStr a; SInfo _; SStr b] => a = abs_path [DacTree.n_h; DacTree.n_s] /\ b = abs_path [DacTree.n_h; DacTree.n_s]
      | _ => False
      end)
  /\ (Forall2 obs_sim (snd (impl_run (DacGetwdExamples.w_hs DacTree.bob) DacGetwdExamples.gh))
                      (snd (spec_run_phl true (DacGetwdExamples.sw_hs DacTree.bob) DacGetwdExamples.gh))
      /\ match snd (spec_run_phl true (DacGetwdExamples.sw_hs DacTree.bob) DacGetwdExamples.gh) with
         | [SErr a; SInfo _; SErr b] => a = EACCES /\ b = EACCES
         | _ => False
         end).
Proof. split; [exact DacGetwdExamples.gh_alice|exact DacGetwdExamples.gh_bob]. Qed.
