(* Property C05 - the namespace is always a well-formed tree with exact link
   counts.  Statements only; the proofs are in Fs/Inv*.v.

   [Inv w] (Fs/Inv.v) says of the node graph of the world w:
     I1 every directory entry points to an allocated node;
     I2 the names of a directory are pairwise different;
     I3 a directory node has at most one entry pointing to it (over ALL nodes,
        detached ones included);
     I4 node 0 is a directory and no entry points to it;
     I5 no node is below itself (the graph of entries is acyclic);
     I6 the stored link count of every regular file = the number of entries
        that point to it;
   plus: the volume table is empty (POSIX flavour), every view is a POSIX view
   whose root is a directory node and whose current directory is a rooted path,
   every open handle points to an allocated node.

   I5 is stated as acyclicity (forest form) and not as "no entry leaves a node
   that is unreachable from node 0": the latter is false - C05_detached_view -
   because a Sub view keeps the directory it was made on alive after that
   directory is removed (as an open directory does on Linux). *)
From Coq Require Import Sorted.
From Avfs Require Import Base PathModel MemFS MemFile World
  Inv InvMutators InvPath InvWorld InvCheck InvConseq InvFailed InvCheckComplete.

(* ---- the invariant holds in every reachable state ------------------------------------- *)
Theorem C05_init : forall um, Inv (init_world_linux um).
Proof. exact Inv_init. Qed.

(* every call of the alphabet (World.call: 25 namespace calls on any view, 14 handle
   methods on any handle), with any argument, by any user, successful or failed *)
Theorem C05_step : forall w c, Inv w -> Inv (fst (wstep w c)).
Proof. exact Inv_step. Qed.

Theorem C05_reach : forall um cs, Inv (fst (wrun (init_world_linux um) cs)).
Proof. exact Inv_reach. Qed.

(* ---- consequences ------------------------------------------------------------------------ *)
Theorem C05_acyclic : forall w, Inv w -> forall d, ~ reachp (f_heap (w_fs w)) d d.
Proof. intros w IW. exact (Inv_heap_acyclic _ (inv_heap IW)). Qed.

(* every directory reachable from a start directory r (the root, or the root of a view) is
   reached by exactly one walk (list of entry names) *)
Theorem C05_unique_path : forall w r c,
  Inv w -> reach (f_heap (w_fs w)) r c -> is_dir (f_heap (w_fs w)) c ->
  exists ns, walk (f_heap (w_fs w)) r ns c /\ forall ns', walk (f_heap (w_fs w)) r ns' c -> ns' = ns.
Proof. intros w r c IW. exact (Inv_heap_unique_walk _ r c (inv_heap IW)). Qed.

(* the recursive tree walk of the snapshot never runs into its fuel bound: any fuel
   above the number of nodes gives the same result *)
Theorem C05_walk_terminates : forall w os path i fuel,
  Inv w -> S (length (f_heap (w_fs w))) <= fuel ->
  snap fuel os (f_heap (w_fs w)) path i = snap (S (length (f_heap (w_fs w)))) os (f_heap (w_fs w)) path i.
Proof. intros w os path i fuel IW. exact (snap_fuel_enough os _ path i fuel (inv_heap IW)). Qed.

(* a call that fails leaves the tree (the whole file system value) exactly as it was *)
Theorem C05_failed : forall w c,
  not_remove_all c -> is_err (snd (wstep w c)) = true -> w_fs (fst (wstep w c)) = w_fs w.
Proof. exact failed_keeps_fs. Qed.

(* link counts: nlink = the number of (directory, name) entries of the file, positive
   as soon as the file has a name *)
Theorem C05_links : forall w f d k i m,
  Inv w -> get (f_heap (w_fs w)) f = Some (NFile d k i m) ->
  k = Z.of_nat (length (entries_to (f_heap (w_fs w)) f)) /\
  (forall dd n, In (dd, n) (entries_to (f_heap (w_fs w)) f) <-> edge (f_heap (w_fs w)) dd n f) /\
  ((exists dd n, edge (f_heap (w_fs w)) dd n f) -> (0 < k)%Z).
Proof. intros w f d k i m IW. exact (nlink_entries _ f d k i m (inv_heap IW)). Qed.

(* ... and all names of one node show the same size, mode, owner, link count, identity *)
Theorem C05_links_same : forall n name1 name2,
  let a := fill_stat n name1 in let b := fill_stat n name2 in
  fi_size a = fi_size b /\ fi_mode a = fi_mode b /\ fi_uid a = fi_uid b /\ fi_gid a = fi_gid b /\
  fi_nlink a = fi_nlink b /\ fi_id a = fi_id b.
Proof. exact stat_same_node. Qed.

(* listings of a directory d: strictly sorted, duplicate free, a name is listed iff its
   lookup in d succeeds; ReadDir lists the same names in the same order *)
Theorem C05_listing : forall w d,
  Inv w ->
  let ch := children (f_heap (w_fs w)) d in
  Sorted slt (dir_names ch) /\ NoDup (dir_names ch) /\
  (forall name, In name (dir_names ch) <-> exists c, alookup str_eqb name ch = Some c) /\
  map (@fi_name) (dir_infos (f_heap (w_fs w)) ch) = dir_names ch.
Proof.
  intros w d IW ch. destruct (dir_names_spec _ d (inv_heap IW)) as (A & B & C).
  repeat split; auto; try apply C. exact (dir_infos_names _ d (inv_heap IW)).
Qed.

(* the executable check run by the differential harness decides the invariant ... *)
Theorem C05_check_iff : forall w, inv_check w = true <-> Inv w.
Proof. exact inv_check_iff. Qed.

(* ... so on the model side of the fsinv stream it prints 1 after every call of every history *)
Theorem C05_reach_check : forall um cs, inv_check (fst (wrun (init_world_linux um) cs)) = true.
Proof. intros um cs. apply inv_check_complete, Inv_reach. Qed.

(* ---- non-vacuity ---------------------------------------------------------------------------- *)
Definition sl : N := 47. Definition a_ : N := 97. Definition b_ : N := 98. Definition c_ : N := 99.
Definition d_ : N := 100. Definition f_ : N := 102. Definition g_ : N := 103. Definition p_ : N := 112.
Definition q_ : N := 113. Definition x_ : N := 120.

Example C05_example_init : inv_check (init_world_linux 18) = true.
Proof. vm_compute. reflexivity. Qed.

(* a history with a hard link, a symbolic link, Rename of a directory below itself (refused),
   Rename of a directory, Rename between two hard links, Remove, RemoveAll: the check holds
   after every prefix, and the calls do what they say *)
Definition C05_hist1 : list call :=
  [ CMkdir 0 [sl;a_] 493; CMkdirAll 0 [sl;a_;sl;b_;sl;c_] 493; CWriteFile 0 [sl;a_;sl;f_] [1;2;3]%N 420;
    CLink 0 [sl;a_;sl;f_] [sl;a_;sl;b_;sl;g_]; CSymlink 0 [sl;a_;sl;b_] [sl;x_];
    CRename 0 [sl;a_] [sl;a_;sl;b_;sl;c_;sl;d_];
    CRename 0 [sl;a_;sl;b_] [sl;q_];
    CRename 0 [sl;a_;sl;f_] [sl;q_;sl;g_];
    CRemove 0 [sl;q_;sl;g_]; CRemoveAll 0 [sl;q_] ].

Example C05_example_hist1 :
  forallb (fun k => inv_check (fst (wrun (init_world_linux 18) (firstn k C05_hist1)))) (seq 0 11) = true
  /\ snd (wrun (init_world_linux 18) C05_hist1)
     = [ROk; ROk; ROk; ROk; ROk; RFail EInvalidArgument; ROk; ROk; ROk; ROk].
Proof. vm_compute. auto. Qed.

(* RemoveAll interrupted by a permission error (the parent of the target is not writable):
   what it removed is gone, the other name of the file keeps a correct count *)
Definition C05_hist2 : list call :=
  [ CMkdir 0 [sl;p_] 493; CMkdir 0 [sl;p_;sl;d_] 511; CMkdir 0 [sl;q_] 511;
    CWriteFile 0 [sl;p_;sl;d_;sl;f_] [7;7]%N 438; CLink 0 [sl;p_;sl;d_;sl;f_] [sl;q_;sl;g_];
    CChown 0 [sl;p_;sl;d_] 1000 1000; CSetUser 0 1000 1000 false;
    CRemoveAll 0 [sl;p_;sl;d_] ].

Example C05_example_removeall_interrupted :
  let w := fst (wrun (init_world_linux 18) C05_hist2) in
  last (snd (wrun (init_world_linux 18) C05_hist2)) ROk = RFail EPermDenied
  /\ inv_check w = true
  /\ fst (wstep w (CLstat 0 [sl;p_;sl;d_;sl;f_])) = w
  /\ snd (wstep w (CLstat 0 [sl;p_;sl;d_;sl;f_])) = RFail ENoSuchFile
  /\ match snd (wstep w (CLstat 0 [sl;q_;sl;g_])) with RInfo i => fi_nlink i = 1%Z | _ => False end.
Proof. vm_compute. repeat split; reflexivity. Qed.

(* a failed call that is not trivially failed: Rename below itself, tree unchanged *)
Example C05_example_failed :
  let w := fst (wrun (init_world_linux 18) (firstn 5 C05_hist1)) in
  let c := CRename 0 [sl;a_] [sl;a_;sl;b_;sl;c_;sl;d_] in
  not_remove_all c /\ is_err (snd (wstep w c)) = true /\ w_fs (fst (wstep w c)) = w_fs w.
Proof. vm_compute. repeat split; reflexivity. Qed.

(* why I5 is stated as acyclicity: a Sub view made on /a, /a removed, Mkdir through the
   view: node 4 (the removed directory) is not reachable from node 0 - nothing points to it -
   and has an entry *)
Definition C05_hist3 : list call :=
  [ CMkdir 0 [sl;a_] 493; CSub 0 [sl;a_]; CRemove 0 [sl;a_]; CMkdir 1 [sl;x_] 493 ].

Example C05_detached_view :
  let w := fst (wrun (init_world_linux 18) C05_hist3) in
  let h := f_heap (w_fs w) in
  snd (wrun (init_world_linux 18) C05_hist3) = [ROk; RView 1; ROk; ROk]
  /\ edge h 4 [x_] 5 /\ ~ reach h 0 4 /\ inv_check w = true.
Proof.
  cbv zeta. split; [vm_compute; reflexivity|]. split; [vm_compute; auto|]. split; [|vm_compute; reflexivity].
  intros Hr. apply reach_reachp in Hr as [E|(d & n & _ & He)]; [discriminate|].
  assert (Hz : indeg (f_heap (w_fs (fst (wrun (init_world_linux 18) C05_hist3)))) 4 = 0) by (vm_compute; reflexivity).
  eapply indeg_zero in Hz. exact (Hz He).
Qed.
