(* Property C13 - lexical path functions equal path/filepath of the emulated OS.
   Statements only.  What is proved for ALL strings: the Split laws (both OS
   types), IsAbs/FromSlash/ToSlash/VolumeName/Abs for the POSIX flavour, the
   PathIterator cursor laws, and - POSIX flavour, second half of this file -
   Clean = the component-level specification (Pike's rules) with its
   corollaries (idempotence, shape of a cleaned absolute path), Join and Abs =
   their specifications, and the PathIterator on components (Next, the
   accessors, the sequence of parts, ReplacePart).  The two bounded statements
   (C13_clean_spec_bounded8, C13_join_spec_bounded4) are kept: they are now
   instances of the unbounded ones.  Windows flavour, last part of this file, ALL
   byte strings: the shape of the volume name (Go 1.23's volumeNameLen), every
   slice at VolumeNameLen is in range, IsAbs, the FromSlash/ToSlash laws, the
   frame of Clean (volume-only inputs, no '/' left, the post-pass only prepends
   `.\` or `\.`), Clean never returns "" (both OS types).  For Rel, Match, Dir,
   Base and the body of the Windows Clean/Join the claim rests on the
   differential run: code vs model vs Go's own path/filepath of the emulated OS
   (the host's for the POSIX flavour, the toolchain's Windows sources retargeted
   by lib/vcheck/winportgen.py for the Windows flavour). *)
From Avfs Require Import Base PathModel PathSpec PathBridge PathProofs PathCleanProofs PathIterProofs PathWinProofs.

Theorem C13_split_app : forall os p, fst (split os p) ++ snd (split os p) = p.
Proof. exact split_app. Qed.

Theorem C13_split_file_no_sep : forall os p c, In c (snd (split os p)) -> is_sep os c = false.
Proof. exact split_file_no_sep. Qed.

Theorem C13_split_dir_shape : forall os p,
  let d := fst (split os p) in
  d = [] \/ length d <= length (volume_name os p) \/ is_sep os (last d 0%N) = true.
Proof. exact split_dir_shape. Qed.

Theorem C13_is_abs_linux : forall p, is_abs Linux p = true <-> exists r, p = SLASH :: r.
Proof. exact is_abs_linux. Qed.

Theorem C13_slash_identity_linux : forall p, from_slash Linux p = p /\ to_slash Linux p = p.
Proof. exact slash_identity_linux. Qed.

Theorem C13_volume_linux : forall p, volume_name Linux p = [] /\ volume_name_len Linux p = 0.
Proof. exact volume_linux. Qed.

Theorem C13_abs_linux : forall cur p,
  abs Linux cur p = if is_abs Linux p then clean Linux p else join Linux [cur; p].
Proof. exact abs_linux_def. Qed.

(* PathIterator: Left + Part + Right always reassembles the path *)
Theorem C13_pi_reassemble : forall p, pi_wf p -> pi_left p ++ pi_part p ++ pi_right p = pi_path p.
Proof. exact pi_reassemble. Qed.

Theorem C13_pi_next_wf : forall os p p',
  pi_end p <= length (pi_path p) -> pi_next os p = (true, p') ->
  pi_wf p' /\ pi_path p' = pi_path p /\ pi_start p' = S (pi_end p).
Proof. exact pi_next_wf. Qed.

Theorem C13_pi_part_no_sep : forall os p p' c,
  pi_end p <= length (pi_path p) -> pi_next os p = (true, p') ->
  In c (pi_part p') -> N.eqb (sepc os) c = false.
Proof. exact pi_part_no_sep. Qed.

(* bounded: every string of length <= 8 over {'/', '.', 'a'} (9841 strings) *)
Theorem C13_clean_spec_bounded8 : forall p, In p (all_strings alpha3 8) -> clean Linux p = clean_spec p.
Proof. exact clean_bridge_bounded. Qed.

(* bounded: every pair of strings of length <= 4 over the same alphabet *)
Theorem C13_join_spec_bounded4 : forall a b,
  In a (all_strings alpha3 4) -> In b (all_strings alpha3 4) -> join Linux [a; b] = join_spec [a; b].
Proof. exact join_bridge_bounded. Qed.

Example C13_example_clean :
  clean Linux [47;97;47;46;46;47;46;46;47;98;47;46;47]%N = [47;98]%N        (* "/a/../../b/./" -> "/b" *)
  /\ clean Windows [67;58;47;97;47;46;46;92;98]%N = [67;58;92;98]%N.          (* "C:/a/..\b" -> "C:\b" *)
Proof. vm_compute. auto. Qed.

(* ======================================================================== *)
(* POSIX flavour, ALL byte strings (no bound): Clean / Join / Abs equal the   *)
(* component-level specification of PathSpec.v                               *)
(* ======================================================================== *)

(* the loop of Clean (fuel, lazy buffer, dotdot index) computes Pike's rules *)
Theorem C13_clean_spec : forall p, clean Linux p = clean_spec p.
Proof. exact clean_spec_correct. Qed.

Theorem C13_clean_idempotent : forall p, clean Linux (clean Linux p) = clean Linux p.
Proof. exact clean_idempotent. Qed.

(* a cleaned absolute path is "/" followed by proper names joined by "/":
   every name non-empty, separator-free, neither "." nor ".." *)
Theorem C13_clean_rooted : forall p,
  is_abs Linux p = true ->
  exists cs, clean Linux p = SLASH :: intercalate [SLASH] cs /\ Forall good_comp cs.
Proof. exact clean_rooted. Qed.

Theorem C13_clean_no_dotdot_rooted : forall p c,
  is_abs Linux p = true -> In c (comps (clean Linux p)) -> c <> [DOT; DOT] /\ c <> [DOT].
Proof. exact clean_no_dotdot_rooted. Qed.

Theorem C13_join_spec : forall elems, join Linux elems = join_spec elems.
Proof. exact join_spec_correct. Qed.

(* Join on components: the non-empty components of all elements, normalised;
   rooted iff the first non-empty element is *)
Theorem C13_join_comps : forall (elems : list str) (x : str) (l : list str),
  filter ne elems = x :: l ->
  join Linux elems = render (is_abs_spec x) (norm (is_abs_spec x) [] (fc elems)).
Proof. exact join_comps. Qed.

Theorem C13_abs_spec : forall cur p, abs Linux cur p = abs_spec cur p.
Proof. exact abs_spec_correct. Qed.

(* ======================================================================== *)
(* PathIterator on a clean absolute path  abs_path cs = "/c1/.../cn"          *)
(* (every ci non-empty and separator-free; "/" for cs = []), all cs           *)
(* ======================================================================== *)

(* one Next from a cursor that has consumed the components [done] *)
Theorem C13_pi_next_step : forall (cs done todo : list str) (pi : piter),
  Forall comp_ok cs -> cs = done ++ todo -> before cs done pi ->
  pi_next Linux pi = match todo with
                     | [] => (false, past_end cs done)
                     | c :: _ => (true, on_comp cs done c)
                     end.
Proof. exact pi_next_step. Qed.

Theorem C13_pi_new_before : forall cs, before cs [] (pi_new Linux (abs_path cs)).
Proof. exact pi_new_before. Qed.

Theorem C13_pi_on_comp_before : forall cs done c, before cs (done ++ [c]) (on_comp cs done c).
Proof. exact on_comp_before. Qed.

(* Part, Left, Right, LeftPart, RightPart, IsLast on the k-th component *)
Theorem C13_pi_views : forall (done todo : list str) (c : str),
  let pi := on_comp (done ++ c :: todo) done c in
  pi_part pi = c /\ pi_left pi = rpath done ++ [SLASH] /\ pi_right pi = rpath todo
  /\ pi_left_part pi = rpath (done ++ [c]) /\ pi_right_part pi = c ++ rpath todo
  /\ pi_is_last pi = match todo with [] => true | _ => false end.
Proof. exact on_comp_views. Qed.

(* iterating Next from NewPathIterator yields exactly the components, in order *)
Theorem C13_pi_parts : forall cs, Forall comp_ok cs -> pi_parts Linux (abs_path cs) = cs.
Proof. exact pi_parts_spec. Qed.

(* ReplacePart (symbolic link substitution) on components *)
Theorem C13_pi_replace_part : forall (done todo : list str) (c link : str),
  Forall comp_ok (done ++ c :: todo) ->
  let cs := done ++ c :: todo in
  let cs' := new_comps done todo link in
  Forall good_comp cs' /\
  exists (reset : bool) (pi' : piter),
    pi_replace_part Linux (on_comp cs done c) link = (reset, pi') /\
    ((reset = true /\ before cs' [] pi' /\ ~ resumes done cs')
     \/ (reset = false /\ before cs' done pi' /\ resumes done cs')).
Proof. exact pi_replace_part_spec. Qed.

(* ... and the parts still to come afterwards *)
Theorem C13_pi_replace_part_parts : forall (done todo : list str) (c link : str),
  Forall comp_ok (done ++ c :: todo) ->
  let cs' := new_comps done todo link in
  exists (reset : bool) (pi' : piter),
    pi_replace_part Linux (on_comp (done ++ c :: todo) done c) link = (reset, pi') /\
    pi_path pi' = abs_path cs' /\
    forall fuel, length cs' < fuel ->
      pi_parts_f Linux fuel pi' = if reset then cs' else skipn (length done) cs'.
Proof. exact pi_replace_part_parts. Qed.

Theorem C13_new_comps_rel_stack : forall (done todo : list str) (link : str),
  Forall good_comp done -> is_abs Linux link = false ->
  new_comps done todo link = norm true (rev done) (comps link ++ todo).
Proof. exact new_comps_rel_stack. Qed.

Theorem C13_new_comps_rel_simple : forall (done todo lc : list str),
  Forall good_comp done -> Forall good_comp lc -> Forall good_comp todo -> lc <> [] ->
  is_abs Linux (intercalate [SLASH] lc) = false /\
  new_comps done todo (intercalate [SLASH] lc) = done ++ lc ++ todo.
Proof. exact new_comps_rel_simple. Qed.

Theorem C13_new_comps_abs_simple : forall (done todo lc : list str),
  Forall good_comp lc -> Forall good_comp todo ->
  is_abs Linux (abs_path lc) = true /\ new_comps done todo (abs_path lc) = lc ++ todo.
Proof. exact new_comps_abs_simple. Qed.

(* ---- paths as component lists: abs_path / path_comps ------------------------ *)
Theorem C13_path_comps_abs_path : forall cs, Forall comp_ok cs -> path_comps (abs_path cs) = cs.
Proof. exact path_comps_abs_path. Qed.

Theorem C13_abs_path_inj : forall cs cs',
  Forall comp_ok cs -> Forall comp_ok cs' -> abs_path cs = abs_path cs' -> cs = cs'.
Proof. exact abs_path_inj. Qed.

(* Clean of any absolute path, on components *)
Theorem C13_clean_abs_comps : forall p,
  is_abs Linux p = true ->
  clean Linux p = abs_path (norm true [] (path_comps p)) /\ Forall good_comp (norm true [] (path_comps p)).
Proof. exact clean_abs_comps. Qed.

Theorem C13_clean_abs_path_fix : forall cs, Forall good_comp cs -> clean Linux (abs_path cs) = abs_path cs.
Proof. exact clean_abs_path_fix. Qed.

(* Join of a clean absolute base with any path / with a clean absolute path *)
Theorem C13_join_abs_any : forall (bs : list str) (p : str),
  Forall good_comp bs ->
  join Linux [abs_path bs; p] = abs_path (norm true (rev bs) (path_comps p)).
Proof. exact join_abs_any. Qed.

Theorem C13_join_abs_abs : forall bs ps,
  Forall good_comp bs -> Forall good_comp ps ->
  join Linux [abs_path bs; abs_path ps] = abs_path (bs ++ ps).
Proof. exact join_abs_abs. Qed.

(* non-vacuity: "/a/b/c", cursor on "b"; link "../x" gives "/x/c" and a reset,
   link "y/z" gives "/a/y/z/c" and resumes after "/a" *)
Example C13_example_iter :
  let a := [97%N] in let b := [98%N] in let c := [99%N] in
  Forall comp_ok ([a] ++ b :: [c])
  /\ new_comps [a] [c] [DOT; DOT; SLASH; 120%N] = [[120%N]; c]
  /\ fst (pi_replace_part Linux (on_comp ([a] ++ b :: [c]) [a] b) [DOT; DOT; SLASH; 120%N]) = true
  /\ new_comps [a] [c] [121%N; SLASH; 122%N] = [a; [121%N]; [122%N]; c]
  /\ fst (pi_replace_part Linux (on_comp ([a] ++ b :: [c]) [a] b) [121%N; SLASH; 122%N]) = false.
Proof. exact pi_replace_part_example. Qed.

(* ======================================================================== *)
(* WINDOWS flavour (and facts for both OS types), ALL byte strings            *)
(* ======================================================================== *)

(* the volume is: nothing; a drive designator (ANY byte, then ':'); or a prefix that starts with a separator,
   has at least two bytes and ends at the end of the path or right before a separator (UNC and device forms) *)
Theorem C13_volume_windows_shape : forall p,
  let n := volume_name_len Windows p in
  n = 0
  \/ (n = 2 /\ 2 <= length p /\ nthb p 1 = COLON)
  \/ (is_slash (nthb p 0) = true /\ 2 <= n <= length p /\ (n = length p \/ is_slash (nthb p n) = true)).
Proof. exact volume_name_len_windows_cases. Qed.

(* path[:VolumeNameLen(path)] never slices out of range (Clean, Split, Dir, Base, Rel, VolumeName, SplitAbs,
   NewPathIterator all do it), and VolumeName has that length *)
Theorem C13_volume_len_in_range : forall os p,
  volume_name_len os p <= length p /\ length (volume_name os p) = volume_name_len os p.
Proof. exact volume_len_in_range. Qed.

Theorem C13_volume_drive : forall c rest, volume_name_len Windows (c :: COLON :: rest) = 2.
Proof. exact volume_drive. Qed.

Theorem C13_volume_relative : forall p,
  is_slash (nthb p 0) = false -> nthb p 1 <> COLON -> volume_name_len Windows p = 0.
Proof. exact volume_relative. Qed.

(* `\a...`: one leading separator followed by an ordinary byte is no volume *)
Theorem C13_volume_rooted_only : forall c d rest,
  is_slash d = false -> d <> COLON -> d <> QMARK -> volume_name_len Windows (c :: d :: rest) = 0.
Proof. exact volume_rooted_only. Qed.

Theorem C13_is_abs_windows : forall p,
  is_abs Windows p = true <->
  0 < volume_name_len Windows p
  /\ ((is_slash (nthb p 0) = true /\ is_slash (nthb p 1) = true)
      \/ (volume_name_len Windows p < length p /\ is_slash (nthb p (volume_name_len Windows p)) = true)).
Proof. exact is_abs_windows. Qed.

Theorem C13_is_abs_drive : forall c rest,
  is_abs Windows (c :: COLON :: rest) = match rest with [] => false | s :: _ => is_slash s end.
Proof. exact is_abs_drive. Qed.

Theorem C13_is_abs_needs_volume : forall p, volume_name_len Windows p = 0 -> is_abs Windows p = false.
Proof. exact is_abs_needs_volume. Qed.

Theorem C13_slash_windows : forall p,
  ~ In SLASH (from_slash Windows p) /\ ~ In BSLASH (to_slash Windows p)
  /\ length (from_slash Windows p) = length p /\ length (to_slash Windows p) = length p
  /\ map (is_sep Windows) (from_slash Windows p) = map (is_sep Windows) p
  /\ map (is_sep Windows) (to_slash Windows p) = map (is_sep Windows) p
  /\ from_slash Windows (to_slash Windows p) = from_slash Windows p
  /\ to_slash Windows (from_slash Windows p) = to_slash Windows p
  /\ from_slash Windows (from_slash Windows p) = from_slash Windows p.
Proof. exact slash_windows. Qed.

(* Clean of a path that is only a volume *)
Theorem C13_clean_windows_volume_only : forall p,
  skipn (volume_name_len Windows p) p = [] ->
  clean Windows p = if Nat.ltb 1 (volume_name_len Windows p) && is_slash (nthb p 0) && is_slash (nthb p 1)
                    then from_slash Windows p else p ++ [DOT].
Proof. exact clean_windows_volume_only. Qed.

(* ... of any other path: no '/' is left *)
Theorem C13_clean_windows_no_slash : forall p,
  skipn (volume_name_len Windows p) p <> [] -> ~ In SLASH (clean Windows p).
Proof. exact clean_windows_no_slash. Qed.

(* the post-pass of the Windows Clean only prepends `.\` or `\.` or nothing, is the identity for paths with a
   volume and for unmodified paths, and prepends `.\` when a ':' shows before the first separator *)
Theorem C13_post_clean : forall os vol_len path out,
  (exists pre, lb_bytes path (post_clean os vol_len out) = pre ++ lb_bytes path out
               /\ (pre = [] \/ pre = [DOT; sepc os] \/ pre = [sepc os; DOT]))
  /\ (vol_len <> 0 \/ lb_buf out = None -> post_clean os vol_len out = out).
Proof. exact post_clean_frame. Qed.

Theorem C13_post_clean_colon : forall os path buf w,
  colon_before_sep os buf = true ->
  lb_bytes path (post_clean os 0 {| lb_buf := Some buf; lb_w := w |}) = DOT :: sepc os :: firstn w buf.
Proof. exact post_clean_colon. Qed.

(* Clean never returns the empty string *)
Theorem C13_clean_nonempty : forall os p, clean os p <> [].
Proof. exact clean_nonempty. Qed.

(* a fresh PathIterator satisfies the hypothesis of C13_pi_reassemble / C13_pi_next_wf on both OS types *)
Theorem C13_pi_new_wf : forall os p, pi_wf (pi_new os p).
Proof. exact pi_new_wf. Qed.

(* non-vacuity / witnesses: volumes of C:\a 1:a \\a\b\c \\.\C:\x \\?\UNC\a\b\c //./unc/a/b/c \??\C:\x \a \\a a\b;
   `a/../c:` is cleaned to `.\c:`;  known finding C13-rel-unc-root-loop on the model *)
Example C13_example_windows :
  map (volume_name_len Windows)
      [[67;58;92;97]; [49;58;97]; [92;92;97;92;98;92;99]; [92;92;46;92;67;58;92;120];
       [92;92;63;92;85;78;67;92;97;92;98;92;99]; [47;47;46;47;117;110;99;47;97;47;98;47;99];
       [92;63;63;92;67;58;92;120]; [92;97]; [92;92;97]; [97;92;98]]%N
  = [2; 2; 5; 6; 7; 11; 6; 0; 3; 0]
  /\ clean Windows [97;47;46;46;47;99;58]%N = [46;92;99;58]%N
  /\ rel Windows [92;92;97;92;98]%N [92;92;97;92;98;92]%N = RelLoop.
Proof. vm_compute. auto. Qed.
