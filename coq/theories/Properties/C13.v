(* Property C13 - lexical path functions equal path/filepath of the emulated OS.
   Statements only.  What is proved for ALL strings: the Split laws (both OS
   types), IsAbs/FromSlash/ToSlash/VolumeName/Abs for the POSIX flavour, and the
   PathIterator cursor laws.  Clean and Join are proved equal to the
   component-level specification (Pike's rules) on every string up to the stated
   bound - a finite statement, labelled as such; beyond the bound, and for Rel,
   Match, Dir, Base and the Windows flavour, the claim rests on the differential
   run against the code and against the host's path/filepath. *)
From Avfs Require Import Base PathModel PathSpec PathBridge PathProofs.

Theorem C13_split_app : forall os p, fst (split os p) ++ snd (split os p) = p.
Proof. exact split_app. Qed.

Theorem C13_split_file_no_sep : forall os p c, In c (snd (split os p)) -> is_sep os c = false.
Proof. exact split_file_no_sep. Qed.

Theorem C13_split_dir_shape : forall os p,
  let d := fst (split os p) in
  d = [] \/ length d <= length (volume_name os p) \/ is_sep os (last d 0%N) = true.
Proof. exact split_dir_shape. Qed.

Theorem C13_is_abs_linux : forall p, is_abs Linux p = true <-> exists r, p = SLASH :: r.
Proof. exact is_abs_linux. Qed.

Theorem C13_slash_identity_linux : forall p, from_slash Linux p = p /\ to_slash Linux p = p.
Proof. exact slash_identity_linux. Qed.

Theorem C13_volume_linux : forall p, volume_name Linux p = [] /\ volume_name_len Linux p = 0.
Proof. exact volume_linux. Qed.

Theorem C13_abs_linux : forall cur p,
  abs Linux cur p = if is_abs Linux p then clean Linux p else join Linux [cur; p].
Proof. exact abs_linux_def. Qed.

(* PathIterator: Left + Part + Right always reassembles the path *)
Theorem C13_pi_reassemble : forall p, pi_wf p -> pi_left p ++ pi_part p ++ pi_right p = pi_path p.
Proof. exact pi_reassemble. Qed.

Theorem C13_pi_next_wf : forall os p p',
  pi_end p <= length (pi_path p) -> pi_next os p = (true, p') ->
  pi_wf p' /\ pi_path p' = pi_path p /\ pi_start p' = S (pi_end p).
Proof. exact pi_next_wf. Qed.

Theorem C13_pi_part_no_sep : forall os p p' c,
  pi_end p <= length (pi_path p) -> pi_next os p = (true, p') ->
  In c (pi_part p') -> N.eqb (sepc os) c = false.
Proof. exact pi_part_no_sep. Qed.

(* bounded: every string of length <= 8 over {'/', '.', 'a'} (9841 strings) *)
Theorem C13_clean_spec_bounded8 : forall p, In p (all_strings alpha3 8) -> clean Linux p = clean_spec p.
Proof. exact clean_bridge_bounded. Qed.

(* bounded: every pair of strings of length <= 4 over the same alphabet *)
Theorem C13_join_spec_bounded4 : forall a b,
  In a (all_strings alpha3 4) -> In b (all_strings alpha3 4) -> join Linux [a; b] = join_spec [a; b].
Proof. exact join_bridge_bounded. Qed.

Example C13_example_clean :
  clean Linux [47;97;47;46;46;47;46;46;47;98;47;46;47]%N = [47;98]%N        (* "/a/../../b/./" -> "/b" *)
  /\ clean Windows [67;58;47;97;47;46;46;92;98]%N = [67;58;92;98]%N.          (* "C:/a/..\b" -> "C:\b" *)
Proof. vm_compute. auto. Qed.
