(* Property C08 - no data race under the documented concurrent use.  Statements only.

   PARTIAL by nature (see design.d/C08.md): the theorems are about the lock/access
   summaries that the translator regenerates from the Go source (Gen_access.v) and
   a generic RWMutex semantics, not about Go's memory model or the compiled code.

   Model: a program is any number of goroutines; each owns some views (its Sub
   views of a MemFS) and performs any sequence of calls of entry points of memfs,
   orefafs, memidm (any path of the call's summary, any objects, loops any number
   of times, callees unfolded), calls on a view being made by its owner.  A trace
   is any interleaving of those goroutines that the RWMutex semantics allows. *)
From Coq Require Import List String Bool Arith.
From Avfs Require Import Lockset Discipline Gen_access AccessObl.
Import ListNotations.
Open Scope list_scope.

(* the generic theorem, for any locks, locations, requirement maps, threads, interleavings *)
Theorem C08_lockset_sound :
  forall (lock loc : Type) (dec : forall a b : lock, {a = b} + {a <> b}) (rreq wreq : loc -> need lock)
         (tr : trace lock loc),
    valid lock loc dec nil tr ->
    (forall t, disciplined lock loc dec rreq wreq (proj lock loc t tr)) ->
    forall a t1 e1 b t2 e2 c l m1 m2,
      tr = a ++ (t1, e1) :: b ++ (t2, e2) :: c -> t1 <> t2 ->
      ev_need lock loc rreq wreq e1 = Need l m1 -> ev_need lock loc rreq wreq e2 = Need l m2 ->
      m1 = W \/ m2 = W ->
      exists m1' m2' b1 b2 b3,
        b = b1 ++ (t1, Rel l m1') :: b2 ++ (t2, Acq l m2') :: b3
        /\ (m1' = W \/ m2' = W) /\ (m1 = W -> m1' = W) /\ (m2 = W -> m2' = W).
Proof. exact lockset_sound. Qed.

(* every goroutine of the documented kind, built from the CURRENT summaries, is disciplined *)
Theorem C08_goroutines_disciplined :
  forall vs cs, calls summaries vs cs ->
    disciplined clock cloc clock_dec (creq tbl known ARd) (creq tbl known AWr) (goroutine vs cs).
Proof. exact (goroutine_disciplined tbl known summaries C08_summaries_ok). Qed.

(* No data race: two conflicting plain accesses (same field of the same shared object,
   different goroutines, at least one write) to a field guarded by a lock - or to a view's
   configuration, guarded by its ownership - are separated by a release of that lock by the
   first goroutine and a later acquisition by the second; the writing side in mode W. *)
Theorem C08_race_free :
  forall tr, program_trace summaries tr ->
  forall a t1 e1 b t2 e2 c n f lk,
    tr = a ++ (t1, e1) :: b ++ (t2, e2) :: c -> t1 <> t2 ->
    guarded_field tbl known f lk ->
    access clock cloc e1 (Shared n, f) -> access clock cloc e2 (Shared n, f) ->
    e1 = Wr (Shared n, f) \/ e2 = Wr (Shared n, f) ->
    exists m1 m2 b1 b2 b3,
      b = b1 ++ (t1, Rel (Shared n, lk) m1) :: b2 ++ (t2, Acq (Shared n, lk) m2) :: b3
      /\ (e1 = Wr (Shared n, f) -> m1 = W) /\ (e2 = Wr (Shared n, f) -> m2 = W).
Proof. exact (program_race_free tbl known summaries C08_summaries_ok). Qed.

(* Visibility: a write is followed by the writer's W-release of the guard before any
   other goroutine's later read of the same field acquires it: the effect of a completed
   call is ordered before every call that starts afterwards. *)
Theorem C08_visibility :
  forall tr, program_trace summaries tr ->
  forall a t1 b t2 c n f lk,
    tr = a ++ (t1, Wr (Shared n, f)) :: b ++ (t2, Rd (Shared n, f)) :: c -> t1 <> t2 ->
    guarded_field tbl known f lk ->
    exists m2 b1 b2 b3,
      b = b1 ++ (t1, Rel (Shared n, lk) W) :: b2 ++ (t2, Acq (Shared n, lk) m2) :: b3.
Proof. exact (program_visibility tbl known summaries C08_summaries_ok). Qed.

(* Fields that are immutable after construction, and fields accessed through sync/atomic,
   are never written by a plain store on a shared object (so they have no conflicting
   plain accesses at all). *)
Theorem C08_never_written :
  forall tr, program_trace summaries tr ->
  forall t n f, (assoc f tbl = Some CImmutable \/ assoc f tbl = Some CAtomic) -> kf_field known f = false ->
    ~ In (t, Wr (Shared n, f)) tr.
Proof. exact (program_never_written tbl known summaries C08_discipline). Qed.

(* Non-vacuity: the hypotheses are satisfiable - two goroutines, each completing a
   Lock; write; Unlock sequence on the same object, one after the other, form a valid
   disciplined trace with a conflicting pair, and the conclusion exhibits the chain. *)
Example C08_nonvacuous :
  let l := 1 in let x := 7 in
  let rq := fun _ : nat => Need l R in let wq := fun _ : nat => Need l W in
  let th := [Acq l W; Wr x; Rel l W] in
  let tr := map (pair 0) th ++ map (pair 1) th in
  valid nat nat Nat.eq_dec nil tr
  /\ (forall t, disciplined nat nat Nat.eq_dec rq wq (proj nat nat t tr))
  /\ exists m1 m2 b1 b2 b3,
       [(0, Rel l W); (1, Acq (loc := nat) l W)] = b1 ++ (0, Rel l m1) :: b2 ++ (1, Acq l m2) :: b3.
Proof.
  cbn. split; [|split].
  - repeat split; try (intros ? ? [E|[]]; discriminate); try (intros ? ? []); auto.
  - intros t. unfold disciplined. destruct t as [|[|t]]; cbn; tauto.
  - exists W, W, nil, nil, nil. reflexivity.
Qed.

(* Non-vacuity of the program-level hypotheses: a one-function table accepted by the checker, two
   goroutines each completing one call on the same shared object; this is a program_trace, and
   program_race_free yields the release/acquire chain between the two writes. *)
Definition demo_tbl : list (field * cls) := [("T.f"%string, CGuard "T.mu")].
Definition demo_path : list item :=
  [IEv (SAcq "o" "T.mu" W); IEv (SAcc AWr "o" "T.f"); IEv (SRel "o" "T.mu" W)].
Definition demo_s : summary :=
  {| s_name := "T.Set"; s_owner := "T.Set"; s_api := true; s_recv := "o"; s_recvty := "T";
     s_borrowed := []; s_paths := [demo_path] |}.
Definition demo_thread : list cevent :=
  [Acq (Shared 0, "T.mu"%string) W; Wr (Shared 0, "T.f"%string); Rel (Shared 0, "T.mu"%string) W].
Definition demo_rho : env := fun o => if is_fresh o then Private 0 else Shared 0.

Example C08_demo_table_ok : table_okb demo_tbl [] [demo_s] = true.
Proof. vm_compute. reflexivity. Qed.

Example C08_demo_program :
  program_trace [demo_s] (map (pair 0) demo_thread ++ map (pair 1) demo_thread).
Proof.
  assert (Hcalls : calls [demo_s] [] demo_thread).
  { rewrite <- (app_nil_r demo_thread).
    apply (calls_cons [demo_s] [] demo_s demo_path demo_rho demo_thread []).
    - left; reflexivity.
    - reflexivity.
    - left; reflexivity.
    - intros o Ho. unfold demo_rho. rewrite Ho. reflexivity.
    - unfold demo_path, demo_thread.
      change (Acq (Shared 0, "T.mu"%string) W) with (inst demo_rho (SAcq "o" "T.mu" W)).
      change (Wr (Shared 0, "T.f"%string)) with (inst demo_rho (SAcc AWr "o" "T.f")).
      change (Rel (Shared 0, "T.mu"%string) W) with (inst demo_rho (SRel "o" "T.mu" W)).
      repeat apply den_ev. apply den_nil.
    - discriminate.
    - apply calls_nil. }
  split.
  - cbn. repeat split; try (intros ? ? [E|[]]; discriminate); try (intros ? ? []); auto.
  - intros [|[|t]].
    + exists [], demo_thread, []. split; [exact Hcalls|reflexivity].
    + exists [], demo_thread, []. split; [exact Hcalls|reflexivity].
    + exists [], [], []. split; [apply calls_nil|reflexivity].
Qed.

Example C08_demo_chain :
  exists m1 m2 b1 b2 b3,
    [(0, Rel (Shared 0, "T.mu"%string) W); (1, Acq (loc := cloc) (Shared 0, "T.mu"%string) W)]
    = b1 ++ (0, Rel (Shared 0, "T.mu"%string) m1) :: b2 ++ (1, Acq (Shared 0, "T.mu"%string) m2) :: b3.
Proof.
  destruct (program_race_free demo_tbl [] [demo_s] (table_okb_summaries demo_tbl [] [demo_s] C08_demo_table_ok)
              _ C08_demo_program
              [(0, Acq (Shared 0, "T.mu"%string) W)] 0 (Wr (Shared 0, "T.f"%string))
              [(0, Rel (Shared 0, "T.mu"%string) W); (1, Acq (Shared 0, "T.mu"%string) W)] 1 (Wr (Shared 0, "T.f"%string))
              [(1, Rel (Shared 0, "T.mu"%string) W)] 0 "T.f"%string "T.mu"%string)
    as (m1 & m2 & b1 & b2 & b3 & Hb & _).
  - reflexivity.
  - discriminate.
  - split; reflexivity.
  - right; reflexivity.
  - right; reflexivity.
  - left; reflexivity.
  - eauto 10.
Qed.

(* the regenerated table is not empty and contains entry points *)
Example C08_table_nonempty : existsb s_api summaries = true /\ 100 <= List.length summaries.
Proof. split; [vm_compute; reflexivity|]. apply PeanoNat.Nat.leb_le. vm_compute. reflexivity. Qed.
