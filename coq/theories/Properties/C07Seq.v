(* Property C07 - every call returns: no deadlock, hang or panic.
   SEQUENTIAL PART, MemFS (continuation of Properties/C07.v; OrefaFS: Fs/OrefaTotal.v).  Statements only;
   proofs in Fs/InvTotal.v.

   The model (Fs/MemFS.v, MemFile.v, World.v) renders "the Go code would dereference nil / index out of
   range" as the result RPanic, "would block forever" as RDeadlock, and "the loop did not end within the
   model's fuel" as the error EFuel.  On every world satisfying the invariant [Inv] of C05 - hence, by
   C05_reach, after every history -
     * no call returns RPanic or RDeadlock: UNCONDITIONALLY - any constructor, any argument (the root,
       aliasing operands, "", relative and unclean paths, negative sizes and offsets, offsets far beyond
       the end, closed handles), any user, any view or handle index (a bad index is answered by the
       harness error RBadIndex and touches nothing);
     * no call returns the fuel error, PROVIDED it addresses an existing view / handle ([call_in_range])
       and its path arguments satisfy the explicit size premise [call_sized] of C04_budget:
       (slCountMax+1) * (|components of the absolute path| + slCountMax*T + 1) <= SEARCH_FUEL = 3000,
       T = the longest stored link target in components.  With slCountMax = 40 this covers T <= 1 (paths of
       up to 31 components) and link-free heaps (T = 0: up to 72 components); beyond it the walk's
       termination is still proved (C04_budget, any fuel above the bound) but not within the model's
       constant.  RemoveAll's recursion needs no premise (fuel |heap|+1 suffices on an acyclic graph). *)
From Avfs Require Import Base PathModel MemFS MemFile World Inv InvWorld InvTotal.

(* one call, any world satisfying the invariant *)
Theorem C07_memfs_no_panic : forall w c,
  Inv w -> hviews_ok w -> no_panic (snd (wstep w c)).
Proof. intros w c IW HW. exact (proj1 (memfs_total_if w c IW HW)). Qed.

Theorem C07_memfs_total : forall w c,
  Inv w -> hviews_ok w -> call_in_range w c -> call_sized w c -> res_ok (snd (wstep w c)).
Proof. intros w c IW HW Hr Hs. destruct (memfs_total_if w c IW HW) as [A B]. split; auto. Qed.

(* [hviews_ok] (every handle belongs to an existing view) is an invariant of its own *)
Theorem C07_memfs_hviews_step : forall w c, hviews_ok w -> hviews_ok (fst (wstep w c)).
Proof. exact hviews_ok_step. Qed.

(* histories from the initial world: no panic, no deadlock - no premise at all *)
Theorem C07_memfs_run_no_panic : forall um cs,
  Forall no_panic (snd (wrun (init_world_linux um) cs)).
Proof. intros um cs. apply memfs_run_no_panic; [apply Inv_init | apply hviews_ok_init]. Qed.

(* ... and no fuel error when every call is in range and sized in the state in which it is made *)
Theorem C07_memfs_run : forall um cs,
  run_ok (init_world_linux um) cs -> Forall res_ok (snd (wrun (init_world_linux um) cs)).
Proof. intros um cs. apply memfs_run_total; [apply Inv_init | apply hviews_ok_init]. Qed.

(* the walk never reports the fuel error under the size premise (what [call_sized] asks of each path) *)
Theorem C07_memfs_search_no_fuel : forall s v p slm,
  Inv_heap (f_heap s) -> f_vols s = [] -> view_ok (f_heap s) v -> path_sized (f_heap s) v p ->
  sr_err (search_node s v p slm) <> EFuel.
Proof. exact search_nofuel. Qed.

(* RemoveAll's recursive part: the fuel |heap|+1 given by RemoveAll is enough on every invariant heap *)
Theorem C07_memfs_remove_all_fuel : forall h u d,
  Inv_heap h -> snd (remove_all_rec (S (length h)) h u d) <> Some EFuel.
Proof. intros h u d IH. apply ra_nofuel. now apply InvConseq.maxlen_heap. Qed.

(* ---- non-vacuity -------------------------------------------------------------------------------------- *)
Definition sl : N := 47. Definition a_ : N := 97. Definition b_ : N := 98. Definition x_ : N := 120.
Definition dot : N := 46.

(* a heap with a symbolic link (target of one component): calls with awkward arguments are in range, sized,
   and answered by ordinary results *)
Definition C07_hist : list call :=
  [ CMkdir 0 [sl;a_] 493; CSymlink 0 [a_] [sl;x_]; CWriteFile 0 [sl;a_;sl;b_] [1;2]%N 420;
    COpenFile 0 [sl;x_;sl;b_] 2 0 ].

Example C07_example_sized :
  let w := fst (wrun (init_world_linux 18) C07_hist) in
  let v := {| v_root := 0; v_cwd := [sl]; v_user := root_user; v_umask := 18; v_os := Linux; v_idm := true |} in
  nth_error (w_views w) 0 = Some v
  /\ forallb (fun p => path_sizedb (f_heap (w_fs w)) v p 1)
       [ []; [sl]; [sl;x_;sl;dot;dot;sl;x_;sl;b_]; [a_;sl;sl;b_]; [dot;dot;sl;dot;dot]; [sl;x_;sl;b_;sl;b_] ] = true.
Proof. vm_compute. split; reflexivity. Qed.

Example C07_example_results :
  let w := fst (wrun (init_world_linux 18) C07_hist) in
  snd (wrun w [ CRename 0 [sl] [sl;a_]; CRemove 0 [sl]; CRemoveAll 0 [sl]; CTruncate 0 [sl;x_;sl;b_] (-5);
                FReadAt 0 5 1000000; FWriteAt 0 [7]%N (-1); FSeek 0 (-3) 0; FClose 0; FClose 0; FRead 0 4;
                FStat 7; CStat 9 [sl]; COpenFile 0 [] 66 420; CReadDir 0 [sl;x_;sl;b_] ])
  = [ RFail EFileExists; RFail EInvalidArgument; RFail EInvalidArgument; RFail EInvalidArgument;
      RBytes 0 [] (Some EG_EOF); RFail EG_NegativeOffset; RFail EInvalidArgument; ROk; RFail EG_Closed; RFail EG_Closed;
      RBadIndex; RBadIndex; RFail ENoSuchFile; RFail ENotADirectory ].
Proof. vm_compute. reflexivity. Qed.
