(* Property C06 - concurrent namespace operations are linearizable.   PARTIAL BY NATURE.

   Model: Conc/Sched.v (interleaving semantics at lock-acquisition granularity, any number of
   threads, schedules = lists of thread indices) instantiated by Conc/MemConc.v (the MemFS calls
   cut at their lock acquisitions).  Only statements here, each closed by a lemma proved elsewhere.

   - C06_lin_full is the property as stated; it is a Definition because it is FALSE for this
     code: the C06_refuted_* theorems exhibit programs and schedules whose outcome equals that of
     no sequential order (decided by the in-Coq permutation checker Lin.lin_ok, vm_compute);
   - the "consequently" clauses that DO hold are theorems for every thread count and schedule:
     C06_excl_mkdir, C06_excl_create, C06_temp_unique. *)
From Avfs Require Import Base Sched MemConc Lin ExclMkdir TempUnique Witness.

Definition C06_lin_full : Prop := lin_full.

(* n threads call Mkdir(dirs/nm) on one tree whose directory [dirs] exists (walk through
   directories only, reaching node d) and does not contain nm.  Whatever the schedule, if all
   calls have returned: exactly one returned nil, every other one EEXIST, and d has gained
   exactly one entry, nm, bound to a fresh empty directory. *)
Theorem C06_excl_mkdir : forall (h0 : cheap) (dirs : cpath) (nm : cname) (d : nat) (rnds : list (list cname)) (sched : list nat),
  walk_dirs h0 0 dirs = Some d -> k_is_dir h0 d = true -> k_lookup h0 d nm = None ->
  rnds <> [] ->
  let c := mc_run sched (mc_init h0 (map (fun _ => [QMkdir (dirs ++ [nm])]) rnds) rnds) in
  mc_finished c = true ->
  count_ok (c_th c) = 1 /\
  Forall (fun t => l_res (th_ls t) = [KOk] \/ l_res (th_ls t) = [KErr XEEXIST]) (c_th c) /\
  k_kids (c_sh c) d = k_kids h0 d ++ [(nm, length h0)] /\
  hget (c_sh c) (length h0) = Some (KDir []).
Proof.
  intros h0 dirs nm d rnds sched Hres Hdir Habs Hne.
  exact (@excl_main h0 dirs nm d (KDir []) Hres Hdir Habs false eq_refl rnds sched Hne).
Qed.

(* the same for OpenFile(dirs/nm, O_RDWR|O_CREATE|O_EXCL): one regular file with link count 1 *)
Theorem C06_excl_create : forall (h0 : cheap) (dirs : cpath) (nm : cname) (d : nat) (rnds : list (list cname)) (sched : list nat),
  walk_dirs h0 0 dirs = Some d -> k_is_dir h0 d = true -> k_lookup h0 d nm = None ->
  rnds <> [] ->
  let c := mc_run sched (mc_init h0 (map (fun _ => [QCreate (dirs ++ [nm])]) rnds) rnds) in
  mc_finished c = true ->
  count_ok (c_th c) = 1 /\
  Forall (fun t => l_res (th_ls t) = [KOk] \/ l_res (th_ls t) = [KErr XEEXIST]) (c_th c) /\
  k_kids (c_sh c) d = k_kids h0 d ++ [(nm, length h0)] /\
  hget (c_sh c) (length h0) = Some (KFile 1).
Proof.
  intros h0 dirs nm d rnds sched Hres Hdir Habs Hne.
  exact (@excl_main h0 dirs nm d (KFile 1) Hres Hdir Habs true eq_refl rnds sched Hne).
Qed.

(* these programs always run to completion: no reachable state is deadlocked (see also C07) *)
Theorem C06_excl_live : forall (h0 : cheap) (dirs : cpath) (nm : cname) (d : nat) (create : bool) (rnds : list (list cname)) (sched : list nat),
  walk_dirs h0 0 dirs = Some d -> k_is_dir h0 d = true -> k_lookup h0 d nm = None ->
  mc_deadlocked (mc_run sched (mc_init h0 (map (fun _ => [if create then QCreate (dirs ++ [nm]) else QMkdir (dirs ++ [nm])]) rnds) rnds)) = false.
Proof.
  intros h0 dirs nm d create rnds sched Hres Hdir Habs.
  exact (@excl_no_deadlock h0 dirs nm d (if create then KFile 1 else KDir []) Hres Hdir Habs create eq_refl rnds sched).
Qed.

(* n threads call MkdirTemp(dirs, pat) (create = false) or CreateTemp(dirs, pat) (create = true) on one
   tree whose directory [dirs] exists; thread i draws its candidate names from its own stream
   rnds[i] - ANY streams, colliding or not.  In every state reached by ANY schedule the names
   returned so far are pairwise distinct: no name is ever handed to two callers. *)
Theorem C06_temp_unique : forall (h0 : cheap) (dirs : cpath) (pat : cname) (d : nat) (create : bool)
                                 (rnds : list (list cname)) (sched : list nat),
  walk_dirs h0 0 dirs = Some d -> k_is_dir h0 d = true ->
  NoDup (returned (c_th (mc_run sched
           (mc_init h0 (map (fun _ => [if create then QCreateTemp dirs pat else QMkdirTemp dirs pat]) rnds) rnds)))).
Proof.
  intros h0 dirs pat d create rnds sched Hres Hdir.
  exact (@temp_unique_main h0 dirs pat d create Hres Hdir rnds sched).
Qed.

(* ---- what is false: witnesses (program + schedule on the tree /a{d/,f} /b{g} /tmp) ------------- *)

(* Mkdir below a directory removed concurrently: both calls succeed, the new directory is lost *)
Theorem C06_refuted_mkdir_under_removed_dir : refutes_lin w_mkdir_remove s_mkdir_remove = true.
Proof. exact refuted_mkdir_remove. Qed.

(* two Links to one new name both succeed (no re-check under the lock): an entry is overwritten,
   the link count of the overwritten file stays incremented *)
Theorem C06_refuted_link_link : refutes_lin w_link_link s_link_link = true.
Proof. exact refuted_link_link. Qed.

(* two Renames to one new name both succeed although sequentially the second must fail *)
Theorem C06_refuted_rename_rename : refutes_lin w_rename_rename s_rename_rename = true.
Proof. exact refuted_rename_rename. Qed.

(* Remove and Rename of one file both succeed: the removed file is reachable again *)
Theorem C06_refuted_remove_rename : refutes_lin w_remove_rename s_remove_rename = true.
Proof. exact refuted_remove_rename. Qed.

(* hence the full statement does not hold *)
Theorem C06_lin_full_refuted : ~ C06_lin_full.
Proof.
  intros H. destruct (H tree0 w_mkdir_remove no_rand s_mkdir_remove) as [_ Hl].
  pose proof refuted_mkdir_remove as R. unfold refutes_lin in R. cbv zeta in R.
  rewrite Hl in R. rewrite andb_false_r in R. discriminate.
Qed.

(* Non-vacuity of the exclusion theorems: three threads, Mkdir /a/x on the harness tree, a
   schedule with preemptions; and the checker accepts sequential executions. *)
Example C06_excl_example :
  let c := mc_run [0; 1; 2; 2; 1; 0; 0; 1; 2; 2; 1; 0; 0; 1; 2] (mc_init tree0 (map (fun _ : list cname => [QMkdir ([n_a] ++ [n_x])]) [[]; []; []]) [[]; []; []]) in
  walk_dirs tree0 0 [n_a] = Some 1 /\ k_is_dir tree0 1 = true /\ k_lookup tree0 1 n_x = None /\
  mc_finished c = true /\ mc_results c = [[KErr XEEXIST]; [KErr XEEXIST]; [KOk]].
Proof. vm_compute. repeat split; reflexivity. Qed.

(* three CreateTemp("/a", "t") with identical streams x, r1, r2: all collide on tx, the retry loops sort it out *)
Example C06_temp_example :
  let rs := [[n_x; n_y; n_d]; [n_x; n_y; n_d]; [n_x; n_y; n_d]] in
  let c := mc_exec tree0 (map (fun _ : list cname => [QCreateTemp [n_a] n_tmp]) rs) rs [0; 1; 2; 0; 1; 2; 0; 1; 2; 2; 1; 0] in
  mc_finished c = true /\
  returned (c_th c) = [[n_a; n_tmp ++ n_y]; [n_a; n_tmp ++ n_d]; [n_a; n_tmp ++ n_x]].
Proof. vm_compute. split; reflexivity. Qed.

Example C06_checker_accepts_sequential :
  forallb (fun progs => let c := mc_exec tree0 progs no_rand [] in mc_finished c && lin_ok tree0 progs no_rand c)
          [w_mkdir_remove; w_link_link; w_rename_rename; w_remove_rename; w_rename_cross] = true.
Proof. exact lin_ok_sequential. Qed.
