(* Property C16 - CopyFile, CopyFileHash and HashFile report every failure and
   copy faithfully.  Statements only. *)
From Avfs Require Import Base Copy CopyProofs.

Section C16.
  Variable hstate : Type.
  Variable h_init : hstate.
  Variable h_write : hstate -> list N -> hstate.
  Variable digest : Type.
  Variable h_sum : hstate -> digest.

  (* For every fault plan (any number of faults), content, buffer size > 0,
     source mode, prior destination: a nil error means the destination holds
     exactly the source's bytes and permission bits, the digest is the digest
     of the source's bytes fed chunk by chunk, and no primitive that was
     invoked (other than closing the source) had been made to fail. *)
  Theorem C16_ok : forall pl hashing bufsize content smode dst0 cperm,
    0 < bufsize ->
    let r := copy_file_hash h_init h_write h_sum pl hashing bufsize content smode dst0 cperm in
    c_err r = None ->
    c_dst r = Some (content, smode)
    /\ c_sum r = (if hashing then Some (h_sum (fold_left h_write (chunk bufsize content) h_init)) else None)
    /\ (forall p i, In (p, i) (c_trace r) -> p <> SrcClose -> pl p i = None).
  Proof. exact (copy_ok h_init h_write h_sum). Qed.

  (* the chunks fed to the hasher are the source's bytes *)
  Theorem C16_chunks : forall bufsize content, 0 < bufsize -> concat (chunk bufsize content) = content.
  Proof. intros. now apply chunk_concat. Qed.

  (* If opening either file, a read, a write, sync, stat, chmod or closing the
     destination is made to fail when invoked, the error is non-nil. *)
  Theorem C16_reports : forall pl hashing bufsize content smode dst0 cperm p i,
    0 < bufsize ->
    let r := copy_file_hash h_init h_write h_sum pl hashing bufsize content smode dst0 cperm in
    In (p, i) (c_trace r) -> p <> SrcClose -> pl p i <> None -> c_err r <> None.
  Proof. exact (copy_reports h_init h_write h_sum). Qed.

  (* and a reported error is one of the injected ones *)
  Theorem C16_err_injected : forall pl hashing bufsize content smode dst0 cperm e,
    let r := copy_file_hash h_init h_write h_sum pl hashing bufsize content smode dst0 cperm in
    c_err r = Some e -> exists p i, In (p, i) (c_trace r) /\ pl p i = Some e /\ p <> SrcClose.
  Proof. exact (copy_err_injected h_init h_write h_sum). Qed.

  Theorem C16_hash_ok : forall pl bufsize content,
    let '(sum, e, tr) := hash_file h_init h_write h_sum pl bufsize content in
    e = None ->
    sum = Some (h_sum (fold_left h_write (chunk bufsize content) h_init))
    /\ (forall p i, In (p, i) tr -> p <> SrcClose -> pl p i = None).
  Proof. exact (hash_ok h_init h_write h_sum). Qed.
End C16.

(* Non-vacuity: a 5-byte source copied with a 2-byte buffer; then the same with
   the second write failed (error 7 reported, destination holds one chunk). *)
Example C16_example_ok :
  let r := copy_transcript [] true 2 [1;2;3;4;5]%N 420%N None 420%N in
  c_err r = None /\ c_dst r = Some ([1;2;3;4;5]%N, 420%N) /\ c_sum r = Some [1;2;3;4;5]%N.
Proof. vm_compute. auto. Qed.

Example C16_example_fault :
  let r := copy_transcript [(DstWrite, 1, 7%N)] true 2 [1;2;3;4;5]%N 384%N None 420%N in
  c_err r = Some 7%N /\ c_dst r = Some ([1;2]%N, 420%N) /\ c_sum r = None.
Proof. vm_compute. auto. Qed.
