(* The regenerated method table satisfies the condition (finite computation). *)
From Coq Require Import String List Bool.
From Avfs Require Import BasePathTable Gen_basepath.
Import ListNotations.

Lemma table_checks : table_ok generic_fns bp_methods = true /\ table_complete bp_methods = true.
Proof. split; vm_compute; reflexivity. Qed.

Theorem table_methods_ok :
  (forall m, In m bp_methods -> method_ok generic_fns (method_names bp_methods) m = true)
  /\ table_complete bp_methods = true.
Proof.
  destruct table_checks as [H1 H2]. split; [|exact H2].
  unfold table_ok in H1. rewrite forallb_forall in H1. exact H1.
Qed.

Theorem table_safe : forall m, In m bp_methods -> forwards_safely m.
Proof.
  intros m Hin. eapply method_ok_forwards_safely. apply (proj1 table_methods_ok). exact Hin.
Qed.
