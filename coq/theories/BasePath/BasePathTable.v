(* The per-method forwarding shape of BasePathFS / BasePathFile as data, and the
   decidable condition [method_ok] every method must satisfy for the string-level
   theorems (BasePathProofs.v) to cover every way a path can reach the base file
   system or come back from it.  The table itself (Gen_basepath.v) is regenerated
   from the current Go source by lib/vcheck/bpgen.py on every run; a method whose
   body is not one of the recognised shapes becomes [Unknown] and fails the
   condition (fail closed). *)
From Coq Require Import String List Bool.
Import ListNotations.
Open Scope string_scope.

(* an argument expression at the call of the base file system *)
Inductive arg :=
| ATrans (param : string)                    (* vfs.ToBasePath(param) *)
| ARaw (param : string) (is_string : bool)   (* a parameter passed unchanged *)
| AConst.                                    (* a literal / constant expression without parameters *)

(* how a value obtained from the base file system reaches the caller *)
Inductive ret :=
| RErrPath      (* vfs.FromPathError(err) *)
| RErrLink      (* vfs.FromLinkError(err) *)
| RErrRaw       (* the base's error, unchanged *)
| RStrSafe      (* vfs.fromBasePath(s) : total *)
| RStrsSafe     (* every element through vfs.fromBasePath *)
| RStrPanicky   (* vfs.FromBasePath(s) : panics outside of the base path *)
| RStrRaw       (* a string / []string of the base, unchanged *)
| RCurDir       (* vfs.curDir(dir) : total *)
| RFileWrapped  (* &BasePathFile{vfs: vfs, baseFile: f} on success, the error translated on failure *)
| ROther.       (* a value that carries no path: FileInfo, DirEntry, counts, identities ... *)

Inductive shape :=
| Forward (base_method : string) (args : list arg) (rets : list ret)
    (* calls the same-purpose method of the base once; rets is aligned with the result types *)
| Generic (fn : string)       (* return avfs.fn(vfs, params...) : generic code running over the wrapper itself *)
| Self (meth : string)        (* return vfs.meth(...) : another method of the wrapper *)
| Refuse                      (* no call of the base with any parameter; returns errors built from the caller's own strings *)
| Const                       (* returns a constant *)
| Translation                 (* one of the translation functions themselves / constructors: modelled by hand (BasePath.v) *)
| Guarded (pred : string)     (* FromBasePath / fromBasePath: a translation function whose body starts with `if !pred(path) {panic | return path}` *)
| Unknown (why : string).

Record method := {
  m_recv : string;                      (* "BasePathFS" | "BasePathFile" | "" (package function) *)
  m_name : string;
  m_params : list (string * string);    (* name, Go type *)
  m_results : list string;              (* Go result types *)
  m_guard_empty : list string;          (* parameters p tested by an early `if p == ""` return that does not touch the base *)
  m_guard_root : list string;           (* parameters p refused by an early `if vfs.isRoot(p)` return of a PathError carrying p *)
  m_shape : shape
}.

(* ---- the condition --------------------------------------------------------- *)
Definition in_strs (x : string) (l : list string) : bool := existsb (String.eqb x) l.

Definition triple_eqb (a b : string * string * string) : bool :=
  let '(a1, a2, a3) := a in let '(b1, b2, b3) := b in
  String.eqb a1 b1 && String.eqb a2 b2 && String.eqb a3 b3.

(* string parameters that are not paths and go to the base unchanged *)
Definition raw_string_allowed : list (string * string * string) :=
  [("BasePathFS", "SetUserByName", "name")].

(* results of the base returned unchanged although of a path-carrying type:
   Glob's error is ErrBadPattern only (no path inside); Readdirnames returns names
   inside the directory, not paths; Name is the name of the file system; the
   identity / umask setters return identity-manager errors, never a PathError *)
Definition raw_result_allowed : list (string * string * string) :=
  [("BasePathFS", "Glob", "error"); ("BasePathFile", "Readdirnames", "[]string");
   ("BasePathFS", "Name", "string");
   ("BasePathFS", "SetIdm", "error"); ("BasePathFS", "SetUMask", "error");
   ("BasePathFS", "SetUser", "error"); ("BasePathFS", "SetUserByName", "error")].

Definition arg_ok (recv name : string) (a : arg) : bool :=
  match a with
  | ATrans _ => true
  | ARaw p true => existsb (triple_eqb (recv, name, p)) raw_string_allowed
  | ARaw _ false => true
  | AConst => true
  end.

Definition ret_ok (recv name : string) (ty : string) (r : ret) : bool :=
  if String.eqb ty "string" then
    match r with
    | RStrSafe | RCurDir => true
    | RStrRaw => existsb (triple_eqb (recv, name, ty)) raw_result_allowed
    | _ => false
    end
  else if String.eqb ty "[]string" then
    match r with
    | RStrsSafe => true
    | RStrRaw => existsb (triple_eqb (recv, name, ty)) raw_result_allowed
    | _ => false
    end
  else if String.eqb ty "error" then
    match r with
    | RErrPath | RErrLink => true
    | RErrRaw => existsb (triple_eqb (recv, name, ty)) raw_result_allowed
    | _ => false
    end
  else if String.eqb ty "avfs.File" then
    match r with RFileWrapped => true | _ => false end
  else
    match r with ROther => true | _ => false end.

Fixpoint rets_ok (recv name : string) (tys : list string) (rs : list ret) : bool :=
  match tys, rs with
  | [], [] => true
  | ty :: tys', r :: rs' => ret_ok recv name ty r && rets_ok recv name tys' rs'
  | _, _ => false
  end.

(* the generic functions of package avfs the wrapper delegates to, each with the
   translator's verdict "its body reaches a file system only through its vfs
   parameter" (Gen_basepath.v: generic_fns) *)
Definition generic_ok (fns : list (string * bool)) (fn : string) : bool :=
  existsb (fun p => String.eqb (fst p) fn && snd p) fns.

Definition method_ok (fns : list (string * bool)) (all : list (string * string)) (m : method) : bool :=
  match m_shape m with
  | Forward base_method args rets =>
      String.eqb base_method (m_name m)
      && forallb (arg_ok (m_recv m) (m_name m)) args && rets_ok (m_recv m) (m_name m) (m_results m) rets
  | Generic fn => generic_ok fns fn
  | Self meth => existsb (fun p => String.eqb (fst p) (m_recv m) && String.eqb (snd p) meth) all
  | Refuse => true
  | Const => true
  | Translation => true
  | Guarded _ => true
  | Unknown _ => false
  end.

Definition method_names (ms : list method) : list (string * string) :=
  map (fun m => (m_recv m, m_name m)) ms.

Definition table_ok (fns : list (string * bool)) (ms : list method) : bool :=
  forallb (method_ok fns (method_names ms)) ms.

(* every path-taking call of the avfs.VFS interface is present (so that a method
   silently dropped from the table cannot go unnoticed) *)
Definition required_vfs_methods : list string :=
  ["Abs"; "Chdir"; "Chmod"; "Chown"; "Chtimes"; "Create"; "CreateTemp"; "EvalSymlinks"; "Getwd"; "Glob";
   "Lchown"; "Link"; "Lstat"; "Mkdir"; "MkdirAll"; "MkdirTemp"; "Open"; "OpenFile"; "ReadDir"; "ReadFile";
   "Readlink"; "Remove"; "RemoveAll"; "Rename"; "Stat"; "Sub"; "Symlink"; "Truncate"; "WalkDir"; "WriteFile"].
Definition required_file_methods : list string :=
  ["Chdir"; "Chmod"; "Chown"; "Close"; "Name"; "Read"; "ReadAt"; "ReadDir"; "Readdirnames"; "Seek"; "Stat";
   "Sync"; "Truncate"; "Write"; "WriteAt"; "WriteString"].

Definition has_method (ms : list method) (recv name : string) : bool :=
  existsb (fun m => String.eqb (m_recv m) recv && String.eqb (m_name m) name) ms.

(* the calls that would remove the root directory (the base path itself) refuse it
   before anything reaches the base: their first parameter is guarded by isRoot *)
Definition root_guarded_methods : list string := ["Remove"; "RemoveAll"].

Definition root_guard_ok (m : method) : bool :=
  if String.eqb (m_recv m) "BasePathFS" && in_strs (m_name m) root_guarded_methods then
    match m_params m with
    | (p, _) :: _ => in_strs p (m_guard_root m)
    | [] => false
    end
  else true.

(* the lenient fromBasePath returns its argument unchanged exactly where the strict FromBasePath panics:
   both are present with a recognised leading guard, on the same predicate *)
Definition guard_pred (ms : list method) (name : string) : option string :=
  match filter (fun m => String.eqb (m_recv m) "BasePathFS" && String.eqb (m_name m) name) ms with
  | m :: _ => match m_shape m with Guarded p => Some p | _ => None end
  | [] => None
  end.

Definition guards_consistent (ms : list method) : bool :=
  match guard_pred ms "FromBasePath", guard_pred ms "fromBasePath" with
  | Some p, Some q => String.eqb p q
  | _, _ => false
  end.

Definition table_complete (ms : list method) : bool :=
  guards_consistent ms && forallb root_guard_ok ms &&
  forallb (has_method ms "BasePathFS") required_vfs_methods
  && forallb (has_method ms "BasePathFile") required_file_methods.

(* what [method_ok] means for a forwarding method, as a proposition *)
Definition forwards_safely (m : method) : Prop :=
  match m_shape m with
  | Forward _ args rets =>
      (forall p, In (ARaw p true) args -> In (m_recv m, m_name m, p) raw_string_allowed)
      /\ ~ In RStrPanicky rets
  | _ => True
  end.

(* ---- method_ok implies the propositional reading ------------------------------ *)
Lemma triple_eqb_eq a b : triple_eqb a b = true -> a = b.
Proof.
  destruct a as [[a1 a2] a3], b as [[b1 b2] b3]. cbn [triple_eqb]. intros H.
  apply andb_prop in H as [H H3]. apply andb_prop in H as [H1 H2].
  apply String.eqb_eq in H1, H2, H3. congruence.
Qed.

Lemma existsb_triple_in x l : existsb (triple_eqb x) l = true -> In x l.
Proof.
  intros H. apply existsb_exists in H as (y & Hy & He). apply triple_eqb_eq in He. congruence.
Qed.

Lemma ret_ok_not_panicky recv name ty : ret_ok recv name ty RStrPanicky = false.
Proof.
  unfold ret_ok. destruct (String.eqb ty "string"); auto. destruct (String.eqb ty "[]string"); auto.
  destruct (String.eqb ty "error"); auto. destruct (String.eqb ty "avfs.File"); auto.
Qed.

Lemma rets_ok_not_panicky recv name : forall tys rs, rets_ok recv name tys rs = true -> ~ In RStrPanicky rs.
Proof.
  induction tys as [|ty tys IH]; intros [|r rs] H; cbn [rets_ok] in H; try discriminate; [intros []|].
  apply andb_prop in H as [H1 H2]. intros [->|Hin].
  - rewrite ret_ok_not_panicky in H1. discriminate.
  - exact (IH rs H2 Hin).
Qed.

Theorem method_ok_forwards_safely fns all m : method_ok fns all m = true -> forwards_safely m.
Proof.
  unfold method_ok, forwards_safely. destruct (m_shape m) as [bm args rets| | | | | | |]; auto.
  intros H. apply andb_prop in H as [H Hr]. apply andb_prop in H as [_ Ha]. split.
  - intros p Hin. rewrite forallb_forall in Ha. specialize (Ha _ Hin). cbn [arg_ok] in Ha.
    apply existsb_triple_in. exact Ha.
  - eapply rets_ok_not_panicky. exact Hr.
Qed.
