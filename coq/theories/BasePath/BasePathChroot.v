(* BasePathFS as a chroot over an ABSTRACT base file system (Section variables).

   The base is any state machine whose calls take path arguments and return
   non-path data plus paths (error paths, Abs/Glob/Name results).  The wrapper's
   generic forwarding step [bp_step] - translate every path argument with
   ToBasePath, call the base, translate every returned path with fromBasePath -
   is the shape theorem C10_table establishes for every forwarding method of the
   Go code.  The reference is a standalone file system [sstep] that resolves the
   caller's strings lexically against its own current directory (as MemFS and
   OrefaFS do: searchNode starts with vfs.Abs).

   Hypotheses on the pair (base, standalone), i.e. what "the standalone holds
   B's content" means operationally:
     H_cwd   related states have related current directories;
     H_step  a base call on paths B+q (q canonical) and the standalone call on
             the paths q keep the states related, leave everything outside B
             unchanged, return the same data, and the base's returned paths are
             B+q' for the standalone's canonical q'.
   Under these the wrapper and the standalone agree on EVERY history of calls
   with ARBITRARY path strings, and nothing outside B ever changes.
   Not proved here: that the MemFS / OrefaFS models satisfy H_step (tested by the
   lock-step run of the check instead) - hence the name chroot_partial. *)
From Avfs Require Import Base PathModel PathSpec PathProofs CleanLoop CleanUnbounded CleanFacts BasePath BasePathProofs.
Set Implicit Arguments.

Fixpoint map_opt (A C : Type) (f : A -> option C) (l : list A) : option (list C) :=
  match l with
  | [] => Some []
  | x :: l' => match f x, map_opt f l' with
               | Some y, Some ys => Some (y :: ys)
               | _, _ => None
               end
  end.

Definition canonical (q : str) : Prop := exists cs, Forall name cs /\ q = cpath cs.

Lemma join_base_canonical bs cs :
  Forall name bs -> Forall name cs -> join Linux [cpath bs; cpath cs] = cpath (bs ++ cs).
Proof. intros Hb Hc. rewrite join2_nonempty by apply cpath_nonempty. apply clean_cpath_app; auto. Qed.

Section Chroot.
  Variable B : str.
  Hypothesis HB : clean_abs_path B.

  Variables S S' D R O : Type.
  Record bres := { br_data : R; br_paths : list str }.

  Variable bcwd : S -> str.                                   (* Getwd of the base *)
  Variable bstep : S -> nat -> list str -> D -> S * bres.     (* a call of the base: method, path arguments, payload *)
  Variable scwd : S' -> str.
  Variable sstep : S' -> nat -> list str -> D -> S' * bres.   (* the same call of the standalone file system *)
  Variable Sim : S -> S' -> Prop.
  Variable outside : S -> O.                                  (* everything of the base that is not below B *)

  Definition below (q : str) : str := join Linux [B; q].

  Hypothesis H_cwd : forall s s', Sim s s' ->
    canonical (scwd s') /\ cur_dir Linux B (bcwd s) = Some (scwd s').

  Hypothesis H_step : forall s s' m qs d, Sim s s' -> Forall canonical qs ->
    let '(s1, r) := bstep s m (map below qs) d in
    let '(s1', r') := sstep s' m qs d in
    Sim s1 s1' /\ outside s1 = outside s /\ br_data r = br_data r'
    /\ Forall canonical (br_paths r') /\ br_paths r = map below (br_paths r').

  (* the wrapper: the forwarding shape of C10_table; None = panic *)
  Definition bp_step (s : S) (m : nat) (ps : list str) (d : D) : option (S * bres) :=
    match map_opt (to_base_path Linux B (bcwd s)) ps with
    | None => None
    | Some ps' =>
        let '(s1, r) := bstep s m ps' d in
        Some (s1, {| br_data := br_data r; br_paths := map (from_base_safe Linux B) (br_paths r) |})
    end.

  (* the reference: resolves the caller's strings against its own current directory *)
  Definition ref_step (s' : S') (m : nat) (ps : list str) (d : D) : S' * bres :=
    sstep s' m (map (abs Linux (scwd s')) ps) d.

  Lemma to_base_all s s' ps :
    Sim s s' ->
    Forall canonical (map (abs Linux (scwd s')) ps)
    /\ map_opt (to_base_path Linux B (bcwd s)) ps = Some (map below (map (abs Linux (scwd s')) ps)).
  Proof.
    intros Hsim. destruct (H_cwd Hsim) as [[ws [Hws Hscwd]] Hcd].
    destruct (clean_abs_path_cpath HB) as (bs & Hb & HBeq).
    induction ps as [|p ps [IH1 IH2]]; cbn [map map_opt]; [split; [constructor|reflexivity]|].
    destruct (to_base_spec (bcwd s) p Hb) as (ws' & cs & Hw' & Hc & Hcd' & Habs & Hto).
    rewrite <- HBeq in Hcd', Hto.
    rewrite Hcd in Hcd'. injection Hcd' as Hcd'. rewrite <- Hcd' in Habs.
    split.
    - constructor; [exists cs; auto|exact IH1].
    - rewrite Hto, IH2. unfold below at 2. rewrite Habs, HBeq, (join_base_canonical Hb Hc). reflexivity.
  Qed.

  Lemma from_below q : canonical q -> from_base_safe Linux B (below q) = q.
  Proof.
    intros (cs & Hc & ->). destruct (clean_abs_path_cpath HB) as (bs & Hb & HBeq).
    unfold below. rewrite HBeq, (join_base_canonical Hb Hc).
    unfold from_base_safe. rewrite has_base_cpath, (from_base_cpath Hb Hc). reflexivity.
  Qed.

  Lemma from_below_all qs : Forall canonical qs -> map (from_base_safe Linux B) (map below qs) = qs.
  Proof.
    induction 1 as [|q qs Hq _ IH]; cbn [map]; [reflexivity|]. rewrite (from_below Hq), IH. reflexivity.
  Qed.

  (* one call: the wrapper never panics, agrees with the standalone on data AND
     paths, keeps the relation, and leaves everything outside B untouched *)
  Theorem chroot_step s s' m ps d :
    Sim s s' ->
    exists s1 r, bp_step s m ps d = Some (s1, r)
      /\ let '(s1', r') := ref_step s' m ps d in
         Sim s1 s1' /\ outside s1 = outside s /\ br_data r = br_data r' /\ br_paths r = br_paths r'.
  Proof.
    intros Hsim. destruct (to_base_all ps Hsim) as [Hcan Hmap].
    unfold bp_step, ref_step. rewrite Hmap.
    pose proof (@H_step s s' m (map (abs Linux (scwd s')) ps) d Hsim Hcan) as Hst.
    destruct (bstep s m (map below (map (abs Linux (scwd s')) ps)) d) as [s1 r].
    destruct (sstep s' m (map (abs Linux (scwd s')) ps) d) as [s1' r'].
    destruct Hst as (Hsim1 & Hout & Hdata & Hcanr & Hpaths).
    eexists _, _. split; [reflexivity|]. cbn [br_data br_paths].
    repeat split; auto. rewrite Hpaths. apply from_below_all. exact Hcanr.
  Qed.

  (* histories *)
  Definition call := (nat * list str * D)%type.

  Fixpoint run_bp (s : S) (h : list call) : option (S * list bres) :=
    match h with
    | [] => Some (s, [])
    | (m, ps, d) :: h' =>
        match bp_step s m ps d with
        | None => None
        | Some (s1, r) => match run_bp s1 h' with
                          | None => None
                          | Some (s2, rs) => Some (s2, r :: rs)
                          end
        end
    end.

  Fixpoint run_ref (s' : S') (h : list call) : S' * list bres :=
    match h with
    | [] => (s', [])
    | (m, ps, d) :: h' =>
        let '(s1', r') := ref_step s' m ps d in
        let '(s2', rs) := run_ref s1' h' in (s2', r' :: rs)
    end.

  Definition same_res (a b : bres) : Prop := br_data a = br_data b /\ br_paths a = br_paths b.

  Theorem chroot_history : forall h s s',
    Sim s s' ->
    exists s2 rs, run_bp s h = Some (s2, rs)
      /\ Sim s2 (fst (run_ref s' h)) /\ outside s2 = outside s
      /\ Forall2 same_res rs (snd (run_ref s' h)).
  Proof.
    induction h as [|[[m ps] d] h IH]; intros s s' Hsim; cbn [run_bp run_ref].
    - exists s, []. cbn [fst snd]. repeat split; auto.
    - destruct (@chroot_step s s' m ps d Hsim) as (s1 & r & Hbp & Hrel). rewrite Hbp.
      destruct (ref_step s' m ps d) as [s1' r']. destruct Hrel as (Hsim1 & Hout1 & Hd & Hp).
      destruct (IH s1 s1' Hsim1) as (s2 & rs & Hrun & Hsim2 & Hout2 & Hres). rewrite Hrun.
      destruct (run_ref s1' h) as [s2' rs']. cbn [fst snd] in *.
      exists s2, (r :: rs). repeat split; auto; [congruence|].
      constructor; [split; auto|exact Hres].
  Qed.

  (* Getwd of the wrapper is the standalone's current directory *)
  Theorem chroot_getwd s s' : Sim s s' -> bp_getwd Linux B (bcwd s) = Some (scwd s').
  Proof. intros H. apply (H_cwd H). Qed.
End Chroot.

(* ---- the hypotheses are satisfiable: a journalling base ---------------------
   The base remembers every call (path arguments and payload) and echoes the
   paths it was given; its current directory is never inside B.  The standalone
   is the same machine.  "Outside" is the journal entries with a path argument
   that is not below B. *)
Section Journal.
  Variable bs : list str.
  Hypothesis Hbs : Forall name bs.
  Let B := cpath bs.

  Definition jstate := list (list str * nat).
  Definition jstep (s : jstate) (m : nat) (ps : list str) (d : nat) : jstate * bres nat :=
    ((ps, d) :: s, {| br_data := d; br_paths := ps |}).
  Definition jinside (e : list str * nat) : bool := forallb (has_base_path Linux B) (fst e).
  Definition joutside (s : jstate) : jstate := filter (fun e => negb (jinside e)) s.
  Definition jsim (s s' : jstate) : Prop :=
    Forall (fun e => Forall canonical (fst e)) s'
    /\ filter jinside s = map (fun e => (map (below B) (fst e), snd e)) s'.

  Lemma below_inside q : canonical q -> has_base_path Linux B (below B q) = true.
  Proof.
    intros (cs & Hc & ->). unfold below, B. rewrite (join_base_canonical Hbs Hc). apply has_base_cpath.
  Qed.

  Lemma jstep_ok s s' m qs d : jsim s s' -> Forall canonical qs ->
    let '(s1, r) := jstep s m (map (below B) qs) d in
    let '(s1', r') := jstep s' m qs d in
    jsim s1 s1' /\ joutside s1 = joutside s /\ br_data r = br_data r'
    /\ Forall canonical (br_paths r') /\ br_paths r = map (below B) (br_paths r').
  Proof.
    intros [Hcan Hsim] Hqs. cbn [jstep br_data br_paths].
    assert (Hin : jinside (map (below B) qs, d) = true).
    { unfold jinside. cbn [fst]. apply forallb_forall. intros x Hx. apply in_map_iff in Hx as (q & <- & Hq).
      apply below_inside. rewrite Forall_forall in Hqs. auto. }
    split; [split|].
    - constructor; auto.
    - cbn [filter]. rewrite Hin. cbn [map fst snd]. rewrite Hsim. reflexivity.
    - split; [|split; [reflexivity|split; [exact Hqs|reflexivity]]].
      unfold joutside. cbn [filter]. rewrite Hin. reflexivity.
  Qed.
End Journal.
