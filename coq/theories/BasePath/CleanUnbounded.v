(* The loop of Clean (POSIX flavour) over ALL strings, step 2 of 2:
   [aloop] computes Pike's rules on components, i.e. [PathSpec.clean_spec];
   together with CleanLoop.v:  clean Linux p = clean_spec p  for EVERY p.
   (PathBridge.v had this on strings of length <= 8 over three symbols.) *)
From Avfs Require Import Base PathModel PathSpec PathProofs CleanLoop.
Set Implicit Arguments.

(* ---- components through span_elem ------------------------------------- *)
Lemma comps_acc_span : forall p cur,
  comps_acc cur p = (rev cur ++ fst (span_elem p))
                    :: match snd (span_elem p) with [] => [] | _ :: r => comps r end.
Proof.
  induction p as [|c p IH]; intros cur; cbn [comps_acc span_elem].
  - cbn [fst snd]. rewrite app_nil_r. reflexivity.
  - destruct (N.eqb c SLASH) eqn:Hc; cbn [fst snd].
    + rewrite app_nil_r. reflexivity.
    + rewrite IH. destruct (span_elem p) as [e r]. cbn [fst snd rev].
      rewrite <- app_assoc. reflexivity.
Qed.

Lemma comps_span p :
  comps p = fst (span_elem p) :: match snd (span_elem p) with [] => [] | _ :: r => comps r end.
Proof. unfold comps at 1. rewrite comps_acc_span. reflexivity. Qed.

Lemma comps_slash p : comps (SLASH :: p) = [] :: comps p.
Proof. reflexivity. Qed.

Lemma norm_drop_empty rooted st cs : norm rooted st ([] :: cs) = norm rooted st cs.
Proof. reflexivity. Qed.

(* after an element the rest is empty or starts with '/': its components,
   normalised, are those after the separator *)
Lemma norm_comps_rest rooted st rs :
  head_is_sep_or_end rs = true ->
  norm rooted st (comps rs) = norm rooted st (match rs with [] => [] | _ :: r => comps r end).
Proof.
  destruct rs as [|d r]; cbn [head_is_sep_or_end]; intros H.
  - reflexivity.
  - apply N.eqb_eq in H. subst d. rewrite comps_slash. reflexivity.
Qed.

Lemma span_head_nil s :
  head_is_sep_or_end s = match fst (span_elem s) with [] => true | _ => false end.
Proof.
  destruct s as [|d r]; cbn [head_is_sep_or_end span_elem]; auto.
  destruct (N.eqb d SLASH); cbn [fst]; auto. destruct (span_elem r); reflexivity.
Qed.

Lemma span_head_id s : head_is_sep_or_end s = true -> span_elem s = ([], s).
Proof.
  destruct s as [|d r]; cbn [head_is_sep_or_end span_elem]; auto.
  intros ->. reflexivity.
Qed.

Lemma span_cons c s :
  N.eqb c SLASH = false ->
  span_elem (c :: s) = (c :: fst (span_elem s), snd (span_elem s)).
Proof. intros H. cbn [span_elem]. rewrite H. destruct (span_elem s); reflexivity. Qed.

Lemma str_eqb_nil_r e : str_eqb e [] = match e with [] => true | _ => false end.
Proof. destruct e; reflexivity. Qed.

Lemma cond_dot c rest1 :
  N.eqb c SLASH = false ->
  (N.eqb c DOT && head_is_sep_or_end rest1) = is_dot (fst (span_elem (c :: rest1))).
Proof.
  intros Hc. rewrite span_cons by exact Hc. cbn [fst]. unfold is_dot. cbn [str_eqb].
  rewrite str_eqb_nil_r, span_head_nil. reflexivity.
Qed.

Lemma cond_dotdot c rest1 :
  N.eqb c SLASH = false ->
  (N.eqb c DOT && N.eqb (head0 rest1) DOT && head_is_sep_or_end (skipn 1 rest1))
  = is_dotdot (fst (span_elem (c :: rest1))).
Proof.
  intros Hc. rewrite span_cons by exact Hc. cbn [fst]. unfold is_dotdot.
  destruct rest1 as [|d rest2]; cbn [head0 skipn].
  - cbn. rewrite andb_false_r. reflexivity.
  - destruct (N.eqb d SLASH) eqn:Hd.
    + apply N.eqb_eq in Hd. subst d. cbn [span_elem]. replace (N.eqb SLASH SLASH) with true by reflexivity.
      cbn [fst str_eqb]. replace (N.eqb SLASH DOT) with false by reflexivity.
      rewrite !andb_false_r. reflexivity.
    + rewrite span_cons by exact Hd. cbn [fst str_eqb].
      rewrite str_eqb_nil_r, span_head_nil, andb_assoc. reflexivity.
Qed.

Lemma rest_after_dot c rest1 :
  N.eqb c SLASH = false -> is_dot (fst (span_elem (c :: rest1))) = true ->
  snd (span_elem (c :: rest1)) = rest1.
Proof.
  intros Hc H. rewrite <- cond_dot in H by exact Hc. apply andb_prop in H as [_ H].
  rewrite span_cons by exact Hc. cbn [snd]. rewrite (span_head_id _ H). reflexivity.
Qed.

Lemma rest_after_dotdot c rest1 :
  N.eqb c SLASH = false -> is_dotdot (fst (span_elem (c :: rest1))) = true ->
  snd (span_elem (c :: rest1)) = skipn 1 rest1.
Proof.
  intros Hc H. rewrite <- cond_dotdot in H by exact Hc.
  apply andb_prop in H as [H H3]. apply andb_prop in H as [_ H2].
  rewrite span_cons by exact Hc. cbn [snd].
  destruct rest1 as [|d rest2]; cbn [head0 skipn] in *.
  - discriminate.
  - apply N.eqb_eq in H2. subst d. rewrite span_cons by reflexivity. cbn [snd].
    rewrite (span_head_id _ H3). reflexivity.
Qed.

(* ---- intercalate ------------------------------------------------------- *)
Lemma intercalate_cons2 (sep x y : str) l :
  intercalate sep (x :: y :: l) = x ++ sep ++ intercalate sep (y :: l).
Proof. reflexivity. Qed.

Lemma intercalate_snoc (sep : str) l e :
  l <> [] -> intercalate sep (l ++ [e]) = intercalate sep l ++ sep ++ e.
Proof.
  induction l as [|x l IH]; [congruence|]. intros _.
  destruct l as [|y l].
  - reflexivity.
  - change ((x :: y :: l) ++ [e]) with (x :: y :: (l ++ [e])).
    rewrite !intercalate_cons2. change (y :: l ++ [e]) with ((y :: l) ++ [e]).
    rewrite IH by discriminate. rewrite <- !app_assoc. reflexivity.
Qed.

Lemma intercalate_prefix_len (sep : str) l1 l2 :
  length (intercalate sep l1) <= length (intercalate sep (l1 ++ l2)).
Proof.
  revert l1. induction l2 as [|e l2 IH] using rev_ind; intros l1.
  - rewrite app_nil_r. lia.
  - rewrite app_assoc. destruct (l1 ++ l2) as [|z zs] eqn:Hz.
    + apply app_eq_nil in Hz as [-> _]. cbn. lia.
    + rewrite intercalate_snoc by discriminate. rewrite <- Hz, !app_length.
      specialize (IH l1). lia.
Qed.

Lemma intercalate_nil_inv (sep : str) l :
  Forall (fun c : str => c <> []) l -> intercalate sep l = [] -> l = [].
Proof.
  destruct l as [|x l]; auto. intros HF H. inversion HF as [|? ? Hx HF']; subst.
  destruct l as [|y l]; cbn [intercalate] in H.
  - congruence.
  - apply app_eq_nil in H as [H _]. congruence.
Qed.

(* ---- backtracking on the byte list -------------------------------------- *)
Lemma abt_stop out dotdot lo : forall fuel w,
  lo <= w -> w - lo <= fuel ->
  (forall k, lo < k <= w -> dotdot < k /\ N.eqb (nthb out k) SLASH = false) ->
  (dotdot < lo -> N.eqb (nthb out lo) SLASH = true) ->
  abt out dotdot w fuel = lo.
Proof.
  induction fuel as [|f IH]; intros w Hlo Hf Hrun Hstop; cbn [abt].
  - lia.
  - destruct (Nat.eq_dec w lo) as [->|Hne].
    + destruct (Nat.ltb dotdot lo) eqn:Hd; cbn [andb]; auto.
      apply Nat.ltb_lt in Hd. rewrite (Hstop Hd). reflexivity.
    + destruct (Hrun w ltac:(lia)) as [Hd Hs]. apply Nat.ltb_lt in Hd. rewrite Hd, Hs. cbn [andb negb].
      apply IH; try lia; auto. intros k Hk. apply Hrun. lia.
Qed.

Lemma nthb_app2 (a b : str) k : length a <= k -> nthb (a ++ b) k = nthb b (k - length a).
Proof. intros H. unfold nthb. apply app_nth2. lia. Qed.

Definition noslash (c : str) : Prop := forall x, In x c -> N.eqb x SLASH = false.

Lemma nthb_in_noslash (t : str) k : noslash t -> k < length t -> N.eqb (nthb t k) SLASH = false.
Proof. intros H Hk. apply H. unfold nthb. apply nth_In. exact Hk. Qed.

(* removing the last element [top] from  pre ++ "/" ++ top  or, when nothing
   precedes it after the dotdot mark, from  pre ++ top *)
Lemma abt_pop pre mid top dotdot :
  (mid = [SLASH] /\ dotdot <= length pre) \/ (mid = [] /\ dotdot = length pre) ->
  top <> [] -> noslash top ->
  let out := pre ++ mid ++ top in
  firstn (abt out dotdot (length out - 1) (length out)) out = pre.
Proof.
  intros Hmid Hne Hns out.
  assert (Htop : 0 < length top) by (destruct top; [congruence|cbn; lia]).
  assert (Habt : abt out dotdot (length out - 1) (length out) = length pre).
  { unfold out. rewrite !app_length. destruct Hmid as [[-> Hd]|[-> Hd]]; cbn [length app].
    - apply abt_stop; try lia.
      + intros k Hk. split; [lia|].
        rewrite nthb_app2 by lia. change (SLASH :: top) with ([SLASH] ++ top).
        rewrite nthb_app2 by (cbn [length]; lia). apply nthb_in_noslash; auto. cbn [length]. lia.
      + intros _. rewrite nthb_app2 by lia. rewrite Nat.sub_diag. reflexivity.
    - apply abt_stop; try lia.
      intros k Hk. split; [lia|].
      rewrite nthb_app2 by lia. apply nthb_in_noslash; auto. lia. }
  rewrite Habt. unfold out. rewrite firstn_app, Nat.sub_diag, firstn_all. cbn [firstn]. apply app_nil_r.
Qed.

(* ---- the state relation -------------------------------------------------- *)
Definition DD : str := [DOT; DOT].

(* a kept element that is not ".." *)
Definition name (c : str) : Prop :=
  c <> [] /\ noslash c /\ is_dot c = false /\ is_dotdot c = false.

Definition render0 (rooted : bool) (cs : list str) : str :=
  if rooted then SLASH :: intercalate [SLASH] cs else intercalate [SLASH] cs.

(* what the loop holds after the elements on [stack] (top first) were kept *)
Definition ST (rooted : bool) (stack : list str) (out : str) (dotdot : nat) : Prop :=
  out = render0 rooted (rev stack) /\
  if rooted then Forall name stack /\ dotdot = 1
  else exists dds names, rev stack = dds ++ names /\ Forall (fun c => c = DD) dds /\ Forall name names
                         /\ dotdot = length (intercalate [SLASH] dds).

Lemma name_nonempty c : name c -> c <> [].
Proof. intros H; apply H. Qed.

Lemma DD_nonempty : DD <> [].
Proof. discriminate. Qed.

Lemma ST_nonempty rooted stack out dotdot :
  ST rooted stack out dotdot -> Forall (fun c : str => c <> []) (rev stack).
Proof.
  intros [_ H]. destruct rooted.
  - destruct H as [HF _]. apply Forall_rev. eapply Forall_impl; [|exact HF]. intros c Hc; apply Hc.
  - destruct H as (dds & names & -> & Hd & Hn & _). apply Forall_app. split.
    + eapply Forall_impl; [|exact Hd]. intros c ->. exact DD_nonempty.
    + eapply Forall_impl; [|exact Hn]. intros c Hc; apply Hc.
Qed.

Lemma is_dotdot_DD c : is_dotdot c = true <-> c = DD.
Proof. unfold is_dotdot. apply str_eqb_eq. Qed.

Lemma is_dot_eq c : is_dot c = true <-> c = [DOT].
Proof. unfold is_dot. apply str_eqb_eq. Qed.

(* the top of the stack is a name or "..", and what that means for dds/names *)
Lemma split_last (A : Type) (xs : list A) x (l1 l2 : list A) :
  xs ++ [x] = l1 ++ l2 ->
  (l2 = [] /\ l1 = xs ++ [x]) \/ (exists l2', l2 = l2' ++ [x] /\ xs = l1 ++ l2').
Proof.
  intros H. destruct l2 as [|y l2] using rev_ind.
  - left. rewrite app_nil_r in H. auto.
  - right. rewrite app_assoc in H. apply app_inj_tail in H as [H1 H2]. subst. eauto.
Qed.

Lemma length_out_rooted stack :
  Forall name stack ->
  Nat.eqb (length (SLASH :: intercalate [SLASH] (rev stack))) 1 = match stack with [] => true | _ => false end.
Proof.
  intros HF. destruct stack as [|t st]; [reflexivity|].
  cbn [length]. apply Nat.eqb_neq. intros H.
  assert (Hnil : intercalate [SLASH] (rev (t :: st)) = []) by (apply length_zero_iff_nil; lia).
  apply intercalate_nil_inv in Hnil.
  - cbn [rev] in Hnil. destruct (rev st); discriminate.
  - apply Forall_rev. eapply Forall_impl; [|exact HF]. intros c Hc; apply Hc.
Qed.

(* ---- the loop computes norm ---------------------------------------------- *)
Theorem aloop_norm rooted : forall fuel rest stack out dotdot,
  length rest < fuel -> ST rooted stack out dotdot ->
  aloop rooted fuel rest dotdot out = render0 rooted (norm rooted stack (comps rest)).
Proof.
  induction fuel as [|f IH]; intros rest stack out dotdot Hfuel HST; [lia|].
  destruct rest as [|c rest1].
  { cbn [aloop comps comps_acc rev norm orb]. apply HST. }
  rewrite aloop_S. cbn [length] in Hfuel.
  destruct (N.eqb c SLASH) eqn:Hc.
  { apply N.eqb_eq in Hc. subst c. rewrite comps_slash, norm_drop_empty. apply IH; [lia|exact HST]. }
  rewrite (@cond_dot c rest1 Hc), (@cond_dotdot c rest1 Hc).
  rewrite (comps_span (c :: rest1)).
  pose proof (span_elem_rest (c :: rest1)) as Hrs.
  pose proof (@span_elem_nosep (c :: rest1)) as Hnosl.
  pose proof (span_elem_app (c :: rest1)) as Happ.
  pose proof (@rest_after_dot c rest1 Hc) as Hrd.
  pose proof (@rest_after_dotdot c rest1 Hc) as Hrdd.
  assert (Hne : fst (span_elem (c :: rest1)) <> []) by (rewrite span_cons by exact Hc; discriminate).
  set (e := fst (span_elem (c :: rest1))) in *. set (rs := snd (span_elem (c :: rest1))) in *.
  assert (Hlen : length rs < f).
  { assert (H : length (e ++ rs) = S (length rest1)) by (rewrite Happ; reflexivity).
    rewrite app_length in H. destruct e; [congruence|]. cbn [length] in H. lia. }
  assert (Hnorm_e : forall st, norm rooted st (match rs with [] => [] | _ :: r => comps r end) = norm rooted st (comps rs)).
  { intros st. symmetry. apply norm_comps_rest. exact Hrs. }
  cbn [norm]. replace (match e with [] => true | _ :: _ => false end) with false by (destruct e; [congruence|reflexivity]).
  cbn [orb].
  destruct (is_dot e) eqn:Hdot.
  { (* "." *) rewrite <- (Hrd eq_refl). rewrite Hnorm_e. apply IH; auto. }
  destruct (is_dotdot e) eqn:Hdd.
  { (* ".." *)
    rewrite <- (Hrdd eq_refl). cbv zeta. apply is_dotdot_DD in Hdd.
    destruct HST as [Hout HST]. destruct rooted.
    - (* rooted *)
      destruct HST as [HF ->]. cbn [negb].
      destruct stack as [|top st].
      + subst out. cbn [rev intercalate render0 length Nat.ltb Nat.leb]. rewrite Hnorm_e.
        apply IH; auto. split; [reflexivity|]. split; [constructor|reflexivity].
      + pose proof (Forall_inv HF) as Htop. pose proof (Forall_inv_tail HF) as HF'.
        destruct Htop as (Htne & Htns & _ & Htdd). rewrite Htdd. rewrite Hnorm_e.
        assert (Hpop : firstn (abt out 1 (length out - 1) (length out)) out = render0 true (rev st)
                       /\ Nat.ltb 1 (length out) = true).
        { subst out. cbn [rev render0].
          destruct (rev st) as [|z zs] eqn:Hrev.
          - cbn [app intercalate]. split.
            + apply (@abt_pop [SLASH] [] top 1); auto.
            + destruct top; [congruence|reflexivity].
          - rewrite intercalate_snoc by discriminate. split.
            + change (SLASH :: intercalate [SLASH] (z :: zs) ++ [SLASH] ++ top)
                with ((SLASH :: intercalate [SLASH] (z :: zs)) ++ [SLASH] ++ top).
              apply abt_pop; auto. left. split; [reflexivity|]. cbn [length]. lia.
            + cbn [length]. rewrite !app_length. cbn [length]. apply Nat.ltb_lt. lia. }
        destruct Hpop as [Hpop ->]. rewrite Hpop.
        apply IH; auto. split; [reflexivity|]. split; [exact HF'|reflexivity].
    - (* not rooted *)
      destruct HST as (dds & names & Hrev & Hdds & Hnames & ->). cbn [negb].
      destruct stack as [|top st].
      + (* nothing kept yet: ".." is kept *)
        cbn [rev] in Hrev. symmetry in Hrev. apply app_eq_nil in Hrev as [-> ->].
        subst out. cbn [rev render0 intercalate length Nat.ltb Nat.leb app]. rewrite Hnorm_e.
        apply IH; auto. split; [rewrite Hdd; reflexivity|].
        exists [e], []. rewrite Hdd. repeat split; auto.
      + cbn [rev] in Hrev. apply split_last in Hrev as [[-> Hd]|(names' & -> & Hst)].
        * (* top is "..": keep another one *)
          assert (Htop : top = DD).
          { rewrite Forall_forall in Hdds. apply Hdds. rewrite Hd. apply in_or_app. right. left. reflexivity. }
          replace (is_dotdot top) with true by (symmetry; apply is_dotdot_DD; exact Htop).
          assert (Hout' : out = intercalate [SLASH] dds) by (subst out; cbn [render0 rev]; rewrite Hd; reflexivity).
          rewrite <- Hout', Nat.ltb_irrefl.
          assert (Hpos : Nat.ltb 0 (length out) = true).
          { apply Nat.ltb_lt. rewrite Hout', Hd. destruct (rev st) as [|z zs].
            - rewrite Htop. cbn. lia.
            - rewrite intercalate_snoc by discriminate. rewrite !app_length, Htop. cbn. lia. }
          rewrite Hpos. rewrite Hnorm_e.
          apply IH; auto. split.
          -- cbn [render0 rev]. rewrite Hdd. change (rev st ++ [top]) with (rev (top :: st)).
             cbn [rev]. rewrite <- Hd. rewrite intercalate_snoc.
             ++ rewrite Hout', <- app_assoc. reflexivity.
             ++ rewrite Hd. destruct (rev st); discriminate.
          -- exists (dds ++ [e]), []. cbn [rev]. rewrite <- Hd, app_nil_r. repeat split; auto.
             ++ apply Forall_app. split; auto.
             ++ rewrite Hdd. rewrite intercalate_snoc by (rewrite Hd; destruct (rev st); discriminate).
                rewrite Hout', <- app_assoc. reflexivity.
        * (* top is a name: drop it *)
          apply Forall_app in Hnames as [Hn' Htop]. pose proof (Forall_inv Htop) as Htop'.
          destruct Htop' as (Htne & Htns & _ & Htdd). rewrite Htdd. rewrite Hnorm_e.
          assert (Hpop : firstn (abt out (length (intercalate [SLASH] dds)) (length out - 1) (length out)) out
                         = intercalate [SLASH] (rev st)
                         /\ Nat.ltb (length (intercalate [SLASH] dds)) (length out) = true).
          { subst out. cbn [rev render0]. rewrite Hst.
            destruct (dds ++ names') as [|z zs] eqn:Hz.
            - apply app_eq_nil in Hz as [-> ->]. cbn [app intercalate length]. split.
              + apply (@abt_pop [] [] top 0); auto.
              + destruct top; [congruence|reflexivity].
            - rewrite intercalate_snoc by discriminate. split.
              + apply abt_pop; auto. left. split; [reflexivity|]. rewrite <- Hz. apply intercalate_prefix_len.
              + rewrite !app_length. cbn [length]. apply Nat.ltb_lt.
                pose proof (intercalate_prefix_len [SLASH] dds names') as Hp. rewrite Hz in Hp. lia. }
          destruct Hpop as [Hpop ->]. rewrite Hpop.
          apply IH; auto. split; [reflexivity|]. exists dds, names'. repeat split; auto. }
  (* an ordinary element *)
  assert (Hname : name e).
  { repeat split; auto. }
  rewrite Hnorm_e. cbv zeta.
  pose proof (ST_nonempty HST) as Hnonempty.
  destruct HST as [Hout HST]. destruct rooted.
  - destruct HST as [HF ->]. cbn [andb negb orb]. rewrite orb_false_r.
    subst out. cbn [render0]. rewrite (length_out_rooted HF).
    apply IH; auto. split; [|split; [constructor; auto|reflexivity]].
    cbn [render0 rev]. destruct stack as [|t st]; cbn [negb].
    + reflexivity.
    + rewrite intercalate_snoc by (cbn [rev]; destruct (rev st); discriminate).
      cbn [app]. rewrite <- !app_assoc. reflexivity.
  - destruct HST as (dds & names & Hrev & Hdds & Hnames & ->). cbn [andb negb orb].
    subst out. cbn [render0].
    apply IH; auto. split.
    + cbn [render0 rev]. destruct (rev stack) as [|z zs] eqn:Hz.
      * reflexivity.
      * assert (Hnz : Nat.eqb (length (intercalate [SLASH] (z :: zs))) 0 = false).
        { apply Nat.eqb_neq. intros H. apply length_zero_iff_nil in H.
          apply intercalate_nil_inv in H; [discriminate|exact Hnonempty]. }
        rewrite Hnz. cbn [negb]. rewrite intercalate_snoc by discriminate. rewrite <- app_assoc. reflexivity.
    + exists dds, (names ++ [e]). cbn [rev]. rewrite Hrev, <- app_assoc. repeat split; auto.
      apply Forall_app. split; auto.
Qed.

(* the elements norm keeps are non-empty *)
Lemma norm_nonempty rooted : forall cs st,
  Forall (fun c : str => c <> []) st -> Forall (fun c : str => c <> []) (norm rooted st cs).
Proof.
  induction cs as [|c cs IH]; intros st Hst; cbn [norm].
  - apply Forall_rev. exact Hst.
  - destruct c as [|x c]; cbn [orb]; [apply IH; exact Hst|].
    destruct (is_dot (x :: c)); [apply IH; exact Hst|].
    destruct (is_dotdot (x :: c)).
    + destruct st as [|top st'].
      * destruct rooted; apply IH; auto. constructor; [discriminate|constructor].
      * destruct (is_dotdot top); apply IH.
        -- constructor; [discriminate|exact Hst].
        -- apply (Forall_inv_tail Hst).
    + apply IH. constructor; [discriminate|exact Hst].
Qed.

(* ---- Clean = Pike's rules, for every path -------------------------------- *)
Theorem clean_linux_spec : forall p, clean Linux p = clean_spec p.
Proof.
  intros p. destruct p as [|c0 t]; [reflexivity|].
  unfold clean, clean_spec. cbn [volume_name_len skipn is_sep from_slash].
  set (path := c0 :: t).
  destruct (N.eqb c0 SLASH) eqn:Hc0.
  - (* rooted *)
    apply N.eqb_eq in Hc0.
    set (out0 := {| lb_buf := None; lb_w := 0 |}).
    assert (Hwf0 : lbwf path out0) by (split; cbn; [lia|exact I]).
    destruct (@lb_append_ok path out0 (sepc Linux) Hwf0 ltac:(cbn; lia)) as (Hwf1 & Hb1 & Hw1).
    set (out1 := lb_append path out0 (sepc Linux)) in *.
    destruct (@clean_loop_aloop path true (S (length path)) 1 1 out1) as [Hwf2 Hb2].
    + cbn [length path]. lia.
    + exact Hwf1.
    + rewrite Hw1. cbn. lia.
    + intros _ _. right. rewrite Hw1. reflexivity.
    + set (out2 := clean_loop Linux path true (length path) (S (length path)) 1 1 out1) in *.
      assert (Hbytes : lb_bytes path out2 = render true (norm true [] (comps path))).
      { rewrite Hb2, Hb1. cbn [lb_bytes out0 lb_buf lb_w firstn app sepc].
        change (skipn 1 path) with t.
        rewrite (@aloop_norm true (S (length path)) t [] [SLASH] 1).
        - unfold path. rewrite Hc0, comps_slash, norm_drop_empty. reflexivity.
        - cbn [length path]. lia.
        - split; [reflexivity|]. split; [constructor|reflexivity]. }
      assert (Hw2 : Nat.eqb (lb_w out2) 0 = false).
      { apply Nat.eqb_neq. rewrite <- (lb_bytes_length Hwf2), Hbytes. cbn [render length]. lia. }
      rewrite Hw2. rewrite <- Hbytes. unfold lb_bytes. cbn [plus].
      destruct (lb_buf out2); reflexivity.
  - (* not rooted *)
    set (out0 := {| lb_buf := None; lb_w := 0 |}).
    assert (Hwf0 : lbwf path out0) by (split; cbn; [lia|exact I]).
    destruct (@clean_loop_aloop path false (S (length path)) 0 0 out0) as [Hwf2 Hb2].
    + lia.
    + exact Hwf0.
    + cbn. lia.
    + intros _ _. right. reflexivity.
    + set (out2 := clean_loop Linux path false (length path) (S (length path)) 0 0 out0) in *.
      assert (Hbytes : lb_bytes path out2 = intercalate [SLASH] (norm false [] (comps path))).
      { rewrite Hb2. cbn [lb_bytes out0 lb_buf lb_w firstn skipn].
        rewrite (@aloop_norm false (S (length path)) path [] [] 0).
        - reflexivity.
        - lia.
        - split; [reflexivity|]. exists [], []. repeat split; constructor. }
      pose proof (@norm_nonempty false (comps path) [] ltac:(constructor)) as Hne.
      unfold render.
      destruct (Nat.eqb (lb_w out2) 0) eqn:Hw2.
      * apply Nat.eqb_eq in Hw2.
        assert (Hnil : intercalate [SLASH] (norm false [] (comps path)) = []).
        { rewrite <- Hbytes. apply length_zero_iff_nil. rewrite (lb_bytes_length Hwf2). exact Hw2. }
        apply intercalate_nil_inv in Hnil; [|exact Hne]. rewrite Hnil.
        destruct (@lb_append_ok path out2 DOT Hwf2 ltac:(rewrite Hw2; cbn; lia)) as (Hwf3 & Hb3 & Hw3).
        assert (Hb3' : lb_bytes path (lb_append path out2 DOT) = [DOT]).
        { rewrite Hb3, Hbytes, Hnil. reflexivity. }
        rewrite <- Hb3'. unfold lb_bytes. cbn [plus]. destruct (lb_buf (lb_append path out2 DOT)); reflexivity.
      * assert (Hnn : norm false [] (comps path) <> []).
        { intros Hnil. rewrite Hnil in Hbytes. cbn [intercalate] in Hbytes.
          apply Nat.eqb_neq in Hw2. apply Hw2. rewrite <- (lb_bytes_length Hwf2), Hbytes. reflexivity. }
        destruct (norm false [] (comps path)) as [|z zs] eqn:Hz; [congruence|].
        rewrite <- Hbytes. unfold lb_bytes. cbn [plus]. destruct (lb_buf out2); reflexivity.
Qed.
