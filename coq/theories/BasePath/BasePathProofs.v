(* Theorems about the path translation of BasePathFS (POSIX flavour), for ALL
   byte strings: confinement, round trip, totality of the reverse translation,
   and the refutation of confinement for the pinned (unfixed) code. *)
From Avfs Require Import Base PathModel PathSpec PathProofs CleanLoop CleanUnbounded CleanFacts BasePath.
Set Implicit Arguments.

(* a clean absolute base path *)
Definition clean_abs_path (B : str) : Prop := is_abs Linux B = true /\ clean Linux B = B.

Lemma clean_abs_path_cpath B : clean_abs_path B -> exists bs, Forall name bs /\ B = cpath bs.
Proof.
  intros [Ha Hc]. destruct (clean_abs_canonical B Ha) as (bs & Hn & Heq).
  exists bs. split; auto. congruence.
Qed.

Lemma cpath_clean_abs bs : Forall name bs -> clean_abs_path (cpath bs).
Proof. intros H. split; [reflexivity|apply clean_cpath; exact H]. Qed.

(* x is B or lies below B *)
Definition inside (B x : str) : Prop :=
  x = B \/ (exists r, x = B ++ SLASH :: r) \/ (B = [SLASH] /\ exists r, x = SLASH :: r).

(* ---- has_prefix / has_base_path ------------------------------------------- *)
Lemma has_prefix_app pre x : has_prefix pre (pre ++ x) = true.
Proof.
  unfold has_prefix. rewrite firstn_app, Nat.sub_diag, firstn_all. cbn [firstn].
  rewrite app_nil_r. apply str_eqb_refl.
Qed.

Lemma has_prefix_inv pre s : has_prefix pre s = true -> s = pre ++ skipn (length pre) s.
Proof.
  unfold has_prefix. intros H. apply str_eqb_eq in H.
  rewrite <- (firstn_skipn (length pre) s) at 1. rewrite H. reflexivity.
Qed.

Lemma skipn_app_exact (a b : str) : skipn (length a) (a ++ b) = b.
Proof. rewrite skipn_app, Nat.sub_diag, skipn_all. reflexivity. Qed.

Lemma has_base_path_self os B : has_base_path os B B = true.
Proof.
  unfold has_base_path. rewrite <- (app_nil_r B) at 2. rewrite has_prefix_app.
  rewrite skipn_all. reflexivity.
Qed.

Lemma has_base_path_below os B r : has_base_path os B (B ++ sepc os :: r) = true.
Proof.
  unfold has_base_path. rewrite has_prefix_app, skipn_app_exact.
  assert (H : is_sep os (sepc os) = true) by (destruct os; reflexivity). rewrite H. reflexivity.
Qed.

Lemma has_base_path_root r : has_base_path Linux [SLASH] (SLASH :: r) = true.
Proof.
  unfold has_base_path. change (SLASH :: r) with ([SLASH] ++ r). rewrite has_prefix_app, skipn_app_exact.
  destruct r as [|c r]; [reflexivity|]. destruct (is_sep Linux c); reflexivity.
Qed.

Lemma last_cpath_not_sep bs :
  Forall name bs -> bs <> [] -> N.eqb (nthb (cpath bs) (length (cpath bs) - 1)) SLASH = false.
Proof.
  intros HF Hne. destruct bs as [|x bs] using rev_ind; [congruence|]. clear IHbs.
  apply Forall_app in HF as [_ Hx]. pose proof (Forall_inv Hx) as (Hxne & Hxns & _).
  assert (Hsplit : exists pre, cpath (bs ++ [x]) = pre ++ x).
  { unfold cpath. destruct bs as [|y bs'].
    - exists [SLASH]. reflexivity.
    - rewrite intercalate_snoc by discriminate. exists (SLASH :: intercalate [SLASH] (y :: bs') ++ [SLASH]).
      cbn [app]. rewrite <- app_assoc. reflexivity. }
  destruct Hsplit as [pre ->]. rewrite app_length.
  assert (Hlx : 0 < length x) by (destruct x; [congruence|cbn; lia]).
  rewrite nthb_app2 by lia. apply nthb_in_noslash; auto. lia.
Qed.

Theorem has_base_path_inside B x :
  clean_abs_path B -> (has_base_path Linux B x = true <-> inside B x).
Proof.
  intros HB. destruct (clean_abs_path_cpath HB) as (bs & Hn & ->). split.
  - unfold has_base_path. destruct (has_prefix (cpath bs) x) eqn:Hp; [|discriminate].
    apply has_prefix_inv in Hp. destruct (skipn (length (cpath bs)) x) as [|c r] eqn:Hs.
    + intros _. left. rewrite Hp, app_nil_r. reflexivity.
    + cbn [is_sep]. destruct (N.eqb c SLASH) eqn:Hc.
      * intros _. apply N.eqb_eq in Hc. subst c. right; left. exists r. exact Hp.
      * intros H. apply andb_prop in H as [_ H].
        destruct bs as [|b bs'].
        -- right; right. split; [reflexivity|]. exists (c :: r). exact Hp.
        -- rewrite last_cpath_not_sep in H by (auto; discriminate). discriminate.
  - intros [->|[[r ->]|[Hb [r ->]]]].
    + apply has_base_path_self.
    + apply (has_base_path_below Linux).
    + rewrite Hb. apply has_base_path_root.
Qed.

(* ---- canonical paths below a canonical base -------------------------------- *)
Lemma cpath_app bs cs :
  cpath (bs ++ cs) = match bs, cs with
                     | [], _ => cpath cs
                     | _, [] => cpath bs
                     | _, _ => cpath bs ++ SLASH :: intercalate [SLASH] cs
                     end.
Proof.
  destruct bs as [|b bs]; [reflexivity|]. destruct cs as [|c cs].
  - rewrite app_nil_r. reflexivity.
  - unfold cpath. rewrite intercalate_app by discriminate. reflexivity.
Qed.

Lemma skipn_cpath bs cs :
  skipn (length (cpath bs)) (cpath (bs ++ cs))
  = match bs, cs with
    | [], _ => intercalate [SLASH] cs
    | _, [] => []
    | _, _ => SLASH :: intercalate [SLASH] cs
    end.
Proof.
  rewrite cpath_app. destruct bs as [|b bs]; [reflexivity|]. destruct cs as [|c cs].
  - apply skipn_all.
  - apply skipn_app_exact.
Qed.

Theorem has_base_cpath bs cs : has_base_path Linux (cpath bs) (cpath (bs ++ cs)) = true.
Proof.
  rewrite cpath_app. destruct bs as [|b bs].
  - apply has_base_path_root.
  - destruct cs as [|c cs]; [apply has_base_path_self|apply (has_base_path_below Linux)].
Qed.

(* the reverse translation of anything below B is a canonical virtual path that
   depends on the part after B only *)
Lemma from_base_path_some B x :
  has_base_path Linux B x = true ->
  from_base_path Linux B x = Some (clean Linux (SLASH :: SLASH :: skipn (length B) x)).
Proof. intros H. unfold from_base_path. rewrite H. reflexivity. Qed.

Theorem from_base_canonical B x :
  has_base_path Linux B x = true ->
  exists cs, Forall name cs /\ from_base_path Linux B x = Some (cpath cs).
Proof.
  intros H. rewrite (from_base_path_some _ _ H). rewrite clean_rooted.
  eexists. split; [|reflexivity]. apply kept_names. constructor.
Qed.

Theorem from_base_cpath bs cs :
  Forall name bs -> Forall name cs ->
  from_base_path Linux (cpath bs) (cpath (bs ++ cs)) = Some (cpath cs).
Proof.
  intros Hb Hc. rewrite from_base_path_some by apply has_base_cpath. f_equal.
  rewrite skipn_cpath, clean_slash_slash.
  destruct bs as [|b bs].
  - apply (clean_cpath Hc).
  - destruct cs as [|c cs].
    + reflexivity.
    + rewrite clean_slash_slash. apply (clean_cpath Hc).
Qed.

(* ---- the virtual current directory: canonical for EVERY base cwd ------------ *)
Theorem cur_dir_canonical B base_cwd :
  exists ws, Forall name ws /\ cur_dir Linux B base_cwd = Some (cpath ws).
Proof.
  unfold cur_dir. apply from_base_canonical.
  destruct (has_base_path Linux B base_cwd) eqn:H; [exact H|apply has_base_path_self].
Qed.

Theorem cur_dir_inside bs ws :
  Forall name bs -> Forall name ws -> cur_dir Linux (cpath bs) (cpath (bs ++ ws)) = Some (cpath ws).
Proof.
  intros Hb Hw. unfold cur_dir. rewrite has_base_cpath. apply from_base_cpath; auto.
Qed.

(* ---- ToBasePath --------------------------------------------------------------- *)
Theorem to_base_spec bs base_cwd p :
  Forall name bs ->
  exists ws cs,
    Forall name ws /\ Forall name cs
    /\ cur_dir Linux (cpath bs) base_cwd = Some (cpath ws)
    /\ abs Linux (cpath ws) p = cpath cs
    /\ to_base_path Linux (cpath bs) base_cwd p = Some (cpath (bs ++ cs)).
Proof.
  intros Hb. destruct (cur_dir_canonical (cpath bs) base_cwd) as (ws & Hw & Hcd).
  destruct (abs_canonical p Hw) as (cs & Hc & Habs).
  exists ws, cs. repeat split; auto.
  unfold to_base_path. rewrite Hcd. unfold abs in Habs.
  assert (Hp2 : clean Linux (if is_abs Linux p then p else join Linux [cpath ws; p]) = cpath cs).
  { destruct (is_abs Linux p); [exact Habs|]. rewrite Habs. apply clean_cpath. exact Hc. }
  destruct (is_abs Linux p); rewrite Hp2; cbn [volume_name_len skipn];
    rewrite join2_nonempty by apply cpath_nonempty; rewrite clean_cpath_app by auto; reflexivity.
Qed.

(* C10_confine: the path handed to the base, cleaned as the base cleans it, is B
   or lies below B - for every clean absolute B, every byte string p and every
   current directory the base file system may report *)
Theorem confine B base_cwd p :
  clean_abs_path B ->
  exists x, to_base_path Linux B base_cwd p = Some x
            /\ clean Linux x = x
            /\ has_base_path Linux B (clean Linux x) = true
            /\ inside B (clean Linux x).
Proof.
  intros HB. destruct (clean_abs_path_cpath HB) as (bs & Hb & ->).
  destruct (to_base_spec base_cwd p Hb) as (ws & cs & Hw & Hc & _ & _ & Hto).
  exists (cpath (bs ++ cs)).
  assert (Hcl : clean Linux (cpath (bs ++ cs)) = cpath (bs ++ cs)).
  { apply clean_cpath. apply Forall_app. split; auto. }
  split; [exact Hto|]. split; [exact Hcl|]. rewrite Hcl. split.
  - apply has_base_cpath.
  - apply (has_base_path_inside _ HB). apply has_base_cpath.
Qed.

(* C10_roundtrip: translating back what ToBasePath produced gives the cleaned
   absolute virtual path (Abs with the virtual current directory) *)
Theorem roundtrip B base_cwd p :
  clean_abs_path B ->
  exists vcwd x,
    cur_dir Linux B base_cwd = Some vcwd
    /\ to_base_path Linux B base_cwd p = Some x
    /\ from_base_path Linux B x = Some (abs Linux vcwd p)
    /\ from_base_safe Linux B x = abs Linux vcwd p.
Proof.
  intros HB. destruct (clean_abs_path_cpath HB) as (bs & Hb & ->).
  destruct (to_base_spec base_cwd p Hb) as (ws & cs & Hw & Hc & Hcd & Habs & Hto).
  exists (cpath ws), (cpath (bs ++ cs)). rewrite Habs.
  assert (Hfrom : from_base_path Linux (cpath bs) (cpath (bs ++ cs)) = Some (cpath cs)) by (apply from_base_cpath; auto).
  repeat split; auto.
  unfold from_base_safe. rewrite has_base_cpath, Hfrom. reflexivity.
Qed.

(* the reverse translation used on results of the base never panics and is
   the identity outside of B *)
Theorem from_base_safe_total B x :
  (has_base_path Linux B x = true /\ from_base_path Linux B x = Some (from_base_safe Linux B x)
     /\ exists cs, Forall name cs /\ from_base_safe Linux B x = cpath cs)
  \/ (has_base_path Linux B x = false /\ from_base_safe Linux B x = x).
Proof.
  destruct (has_base_path Linux B x) eqn:H.
  - left. destruct (from_base_canonical _ _ H) as (cs & Hc & Hf).
    unfold from_base_safe. rewrite H, Hf. repeat split; eauto.
  - right. unfold from_base_safe. rewrite H. auto.
Qed.

(* FromBasePath itself panics exactly outside of B (its documented contract) *)
Theorem from_base_path_panics_iff B x :
  from_base_path Linux B x = None <-> has_base_path Linux B x = false.
Proof.
  unfold from_base_path. destruct (has_base_path Linux B x); split; congruence.
Qed.

(* a translated-back path below B is a function of the part after B: B is not revealed *)
Theorem from_base_safe_suffix B r :
  has_base_path Linux B (B ++ r) = true ->
  from_base_safe Linux B (B ++ r) = clean Linux (SLASH :: SLASH :: r).
Proof.
  intros H. unfold from_base_safe. rewrite H, (from_base_path_some _ _ H), skipn_app_exact. reflexivity.
Qed.

(* Getwd of the wrapper: total, canonical, "/" when the base is elsewhere *)
Theorem getwd_total B base_cwd :
  exists ws, Forall name ws /\ bp_getwd Linux B base_cwd = Some (cpath ws).
Proof. apply cur_dir_canonical. Qed.

Theorem getwd_outside B base_cwd :
  clean_abs_path B -> has_base_path Linux B base_cwd = false -> bp_getwd Linux B base_cwd = Some [SLASH].
Proof.
  intros HB H. destruct (clean_abs_path_cpath HB) as (bs & Hb & ->).
  unfold bp_getwd, cur_dir. rewrite H.
  rewrite <- (app_nil_r bs) at 2. change [SLASH] with (cpath []). apply (from_base_cpath Hb). constructor.
Qed.

(* a canonical path strictly below cpath bs is longer than it *)
Lemma cpath_app_longer bs cs :
  Forall name cs -> cs <> [] -> length (cpath bs) < length (cpath (bs ++ cs)).
Proof.
  intros Hc Hne. rewrite cpath_app. destruct cs as [|c cs]; [congruence|].
  assert (Hpos : 0 < length (intercalate [SLASH] (c :: cs))).
  { pose proof (Forall_inv Hc) as (Hcne & _). destruct cs as [|d cs]; cbn [intercalate].
    - destruct c; [congruence|cbn; lia].
    - rewrite app_length. destruct c; [congruence|cbn; lia]. }
  destruct bs as [|b bs].
  - unfold cpath. cbn [length intercalate] in *. lia.
  - rewrite app_length. cbn [length]. lia.
Qed.

(* isRoot holds exactly when the cleaned absolute virtual path is "/" ; otherwise what
   reaches the base is STRICTLY below B (never B itself) *)
Theorem is_root_iff B base_cwd p :
  clean_abs_path B ->
  exists vcwd, cur_dir Linux B base_cwd = Some vcwd
    /\ (is_root Linux B base_cwd p = true <-> abs Linux vcwd p = [SLASH])
    /\ (is_root Linux B base_cwd p = false -> to_base_path Linux B base_cwd p <> Some B).
Proof.
  intros HB. destruct (clean_abs_path_cpath HB) as (bs & Hb & ->).
  destruct (to_base_spec base_cwd p Hb) as (ws & cs & Hw & Hc & Hcd & Habs & Hto).
  exists (cpath ws). split; [exact Hcd|]. unfold is_root. rewrite Hto, Habs. split.
  - split.
    + intros H. apply str_eqb_eq in H.
      destruct cs as [|c cs]; [reflexivity|].
      pose proof (@cpath_app_longer bs (c :: cs) Hc ltac:(discriminate)) as Hl. rewrite H in Hl. lia.
    + intros H. change [SLASH] with (cpath []) in H.
      destruct cs as [|c cs].
      * rewrite app_nil_r. apply str_eqb_refl.
      * exfalso. pose proof (@cpath_app_longer [] (c :: cs) Hc ltac:(discriminate)) as Hl.
        cbn [app] in Hl. rewrite H in Hl. lia.
  - intros H Heq. apply str_eqb_neq in H. apply H. congruence.
Qed.

Theorem getwd_spec B base_cwd :
  (exists ws, Forall name ws /\ bp_getwd Linux B base_cwd = Some (cpath ws))
  /\ (clean_abs_path B -> has_base_path Linux B base_cwd = false -> bp_getwd Linux B base_cwd = Some [SLASH]).
Proof. split; [apply getwd_total|apply getwd_outside]. Qed.

(* ---- the pinned code does NOT confine, and its reverse translation panics ---- *)
Definition s_b : str := [SLASH; 98%N].                          (* "/b" *)
Definition s_escape : str := [SLASH; DOT; DOT; SLASH; 115%N].   (* "/../s" *)
Definition s_rel_escape : str := [DOT; DOT; SLASH; 115%N].      (* "../s" *)
Definition s_missing : str := [109%N].                          (* "m" *)

Theorem confine_refuted_v0 :
  clean_abs_path s_b
  /\ has_base_path Linux s_b (clean Linux (to_base_path_v0 Linux s_b s_escape)) = false
  /\ clean Linux (to_base_path_v0 Linux s_b s_escape) = [SLASH; 115%N]
  /\ to_base_path_v0 Linux s_b s_rel_escape = s_rel_escape.
Proof. repeat split; vm_compute; reflexivity. Qed.

Theorem reverse_panics_v0 :
  from_base_path_v0 Linux s_b [] = None                (* Getwd on a base whose cwd is "" *)
  /\ from_base_path_v0 Linux s_b s_missing = None      (* error path of Stat("m") *)
  /\ from_base_path_v0 Linux [SLASH] [SLASH; 116%N] = Some [116%N].  (* base path "/": "/t" -> "t" *)
Proof. repeat split; vm_compute; reflexivity. Qed.

(* the same inputs on the current code *)
Example confine_fixed_witness :
  to_base_path Linux s_b [] s_escape = Some [SLASH; 98%N; SLASH; 115%N]
  /\ to_base_path Linux s_b [] s_rel_escape = Some [SLASH; 98%N; SLASH; 115%N]
  /\ bp_getwd Linux s_b [] = Some [SLASH]
  /\ from_base_safe Linux s_b s_missing = s_missing
  /\ from_base_path Linux [SLASH] [SLASH; 116%N] = Some [SLASH; 116%N].
Proof. repeat split; vm_compute; reflexivity. Qed.
