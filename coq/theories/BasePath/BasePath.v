(* Executable model of the path translation of BasePathFS
   (vfs/basepathfs/basepathfs_cfg.go), parametric in the OS type like the path
   layer it is built on (PathModel, imported - not copied).

   [None] is the model's rendering of a Go panic (FromBasePath panics on a path
   outside of the base path; that contract is pinned by the test suite).

   Two versions are modelled:
     * the CURRENT code (after the two fix: commits):  to_base_path,
       from_base_path, from_base_safe (fromBasePath), cur_dir (curDir),
       has_base_path (hasBasePath);
     * the code as PINNED (before the fixes): to_base_path_v0, from_base_path_v0,
       kept to state and replay the refutation of confinement on it.        *)
From Avfs Require Import Base PathModel.
Set Implicit Arguments.

(* strings.HasPrefix / strings.CutPrefix *)
Definition has_prefix (pre s : str) : bool := str_eqb (firstn (length pre) s) pre.

(* hasBasePath: path is the base path or a path below it *)
Definition has_base_path (os : ostype) (B path : str) : bool :=
  if has_prefix B path then
    match skipn (length B) path with
    | [] => true
    | c :: _ =>
        if is_sep os c then true
        else (* a root directory already ends with a separator *)
          Nat.ltb 0 (length B) && is_sep os (nthb B (length B - 1))
    end
  else false.

(* FromBasePath *)
Definition from_base_path (os : ostype) (B path : str) : option str :=
  if has_base_path os B path then
    let vl := volume_name_len os path in
    Some (join os [firstn vl path ++ [sepc os]; skipn (length B) path])
  else None.

(* fromBasePath: a path that is not below the base path is returned unchanged *)
Definition from_base_safe (os : ostype) (B path : str) : str :=
  if has_base_path os B path then
    match from_base_path os B path with Some v => v | None => path end
  else path.

(* curDir(baseDir) *)
Definition cur_dir (os : ostype) (B base_dir : str) : option str :=
  from_base_path os B (if has_base_path os B base_dir then base_dir else B).

(* ToBasePath; [base_cwd] is what baseFS.Getwd() returns ("" on error) *)
Definition to_base_path (os : ostype) (B base_cwd path : str) : option str :=
  let p1 := if is_abs os path then Some path
            else match cur_dir os B base_cwd with
                 | Some cd => Some (join os [cd; path])
                 | None => None
                 end in
  match p1 with
  | None => None
  | Some p1 =>
      let p2 := clean os p1 in
      Some (join os [B; skipn (volume_name_len os p2) p2])
  end.

(* isRoot: the path designates the root directory of the wrapper (Remove and RemoveAll
   refuse it before anything reaches the base) *)
Definition is_root (os : ostype) (B base_cwd path : str) : bool :=
  match to_base_path os B base_cwd path with
  | Some x => str_eqb x B
  | None => false
  end.

(* Getwd of the wrapper (no error from the base) *)
Definition bp_getwd (os : ostype) (B base_cwd : str) : option str := cur_dir os B base_cwd.

(* ---- the pinned code (before the fixes) --------------------------------- *)
Definition to_base_path_v0 (os : ostype) (B path : str) : str :=
  if str_eqb path [] || str_eqb path [SLASH] then B
  else if is_abs os path then B ++ skipn (volume_name_len os path) path
  else path.

Definition from_base_path_v0 (os : ostype) (B path : str) : option str :=
  if has_prefix B path then
    Some (join os [firstn (volume_name_len os path) path; skipn (length B) path; [sepc os]])
  else None.

(* ---- driver entry points (one line of the correspondence stream) --------- *)
Definition show_opt (o : option str) : str * bool := match o with Some v => (v, true) | None => ([], false) end.
