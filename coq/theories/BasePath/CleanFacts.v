(* Facts about Clean/Join/Abs (POSIX flavour) for ALL strings, derived from
   clean_linux_spec (CleanUnbounded.v) by reasoning on components:
     - Clean of a rooted path is a canonical rooted path [cpath cs]: '/' followed
       by names joined by '/', where a name is non-empty, has no '/', is neither
       "." nor ".." (so: no ".." survives in a rooted clean path);
     - Clean is the identity on canonical rooted paths;
     - Clean (cpath bs ++ "/" ++ cpath cs) = cpath (bs ++ cs). *)
From Avfs Require Import Base PathModel PathSpec PathProofs CleanLoop CleanUnbounded.
Set Implicit Arguments.

Definition cpath (cs : list str) : str := SLASH :: intercalate [SLASH] cs.

(* ---- components ---------------------------------------------------------- *)
Lemma comps_acc_app_slash : forall a cur b,
  comps_acc cur (a ++ SLASH :: b) = comps_acc cur a ++ comps b.
Proof.
  induction a as [|x a IH]; intros cur b.
  - reflexivity.
  - cbn [app comps_acc]. destruct (N.eqb x SLASH).
    + rewrite IH. reflexivity.
    + apply IH.
Qed.

Lemma comps_app_slash a b : comps (a ++ SLASH :: b) = comps a ++ comps b.
Proof. apply comps_acc_app_slash. Qed.

Lemma comps_acc_noslash : forall e cur, noslash e -> comps_acc cur e = [rev cur ++ e].
Proof.
  induction e as [|x e IH]; intros cur Hns.
  - cbn [comps_acc]. rewrite app_nil_r. reflexivity.
  - cbn [comps_acc]. rewrite (Hns x (or_introl eq_refl)).
    rewrite IH by (intros y Hy; apply Hns; right; exact Hy).
    cbn [rev]. rewrite <- app_assoc. reflexivity.
Qed.

Lemma comps_single e : noslash e -> comps e = [e].
Proof. intros H. unfold comps. rewrite comps_acc_noslash by exact H. reflexivity. Qed.

Lemma comps_intercalate cs :
  Forall noslash cs -> cs <> [] -> comps (intercalate [SLASH] cs) = cs.
Proof.
  induction cs as [|x cs IH]; [congruence|]. intros HF _.
  pose proof (Forall_inv HF) as Hx. pose proof (Forall_inv_tail HF) as HF'.
  destruct cs as [|y cs].
  - apply comps_single. exact Hx.
  - rewrite intercalate_cons2. cbn [app]. rewrite comps_app_slash, comps_single by exact Hx.
    rewrite IH by (auto; discriminate). reflexivity.
Qed.

Lemma comps_acc_all_noslash : forall p cur, noslash (rev cur) -> Forall noslash (comps_acc cur p).
Proof.
  induction p as [|c p IH]; intros cur Hc; cbn [comps_acc].
  - constructor; [exact Hc|constructor].
  - destruct (N.eqb c SLASH) eqn:Hs.
    + constructor; [exact Hc|]. apply IH. intros x [].
    + apply IH. cbn [rev]. intros x Hx. apply in_app_or in Hx as [Hx|[<-|[]]]; auto.
Qed.

Lemma comps_all_noslash p : Forall noslash (comps p).
Proof. apply comps_acc_all_noslash. intros x []. Qed.

(* the components of a canonical path *)
Definition xcomps (cs : list str) : list str := match cs with [] => [[]] | _ => cs end.

Lemma comps_cpath cs : Forall noslash cs -> comps (cpath cs) = [] :: xcomps cs.
Proof.
  intros HF. unfold cpath. rewrite comps_slash. f_equal.
  destruct cs as [|x cs]; [reflexivity|]. apply comps_intercalate; auto. discriminate.
Qed.

(* ---- the stack norm ends with ---------------------------------------------- *)
Fixpoint nstack (rooted : bool) (stack : list str) (cs : list str) : list str :=
  match cs with
  | [] => stack
  | c :: cs' =>
      if match c with [] => true | _ => false end || is_dot c then nstack rooted stack cs'
      else if is_dotdot c then
        match stack with
        | [] => if rooted then nstack rooted [] cs' else nstack rooted [c] cs'
        | top :: stack' =>
            if is_dotdot top then nstack rooted (c :: stack) cs' else nstack rooted stack' cs'
        end
      else nstack rooted (c :: stack) cs'
  end.

Lemma norm_nstack rooted : forall cs st, norm rooted st cs = rev (nstack rooted st cs).
Proof.
  induction cs as [|c cs IH]; intros st; cbn [norm nstack]; auto.
  destruct (match c with [] => true | _ => false end || is_dot c); auto.
  destruct (is_dotdot c); auto.
  destruct st as [|top st']; [destruct rooted; auto|].
  destruct (is_dotdot top); auto.
Qed.

Lemma nstack_app rooted : forall a st b, nstack rooted st (a ++ b) = nstack rooted (nstack rooted st a) b.
Proof.
  induction a as [|c a IH]; intros st b; cbn [app nstack]; auto.
  destruct (match c with [] => true | _ => false end || is_dot c); auto.
  destruct (is_dotdot c); auto.
  destruct st as [|top st']; [destruct rooted; auto|].
  destruct (is_dotdot top); auto.
Qed.

Lemma nstack_names rooted : forall cs st, Forall name cs -> nstack rooted st cs = rev cs ++ st.
Proof.
  induction cs as [|c cs IH]; intros st HF; cbn [nstack rev app]; auto.
  pose proof (Forall_inv HF) as (Hne & _ & Hd & Hdd). pose proof (Forall_inv_tail HF) as HF'.
  destruct c as [|x c]; [congruence|]. rewrite Hd, Hdd. cbn [orb].
  rewrite IH by exact HF'. rewrite <- app_assoc. reflexivity.
Qed.

Lemma nstack_xcomps rooted cs st : Forall name cs -> nstack rooted st ([] :: xcomps cs) = rev cs ++ st.
Proof.
  intros HF. cbn [nstack orb]. destruct cs as [|x cs]; [reflexivity|].
  cbn [xcomps]. apply nstack_names. exact HF.
Qed.

Lemma nstack_rooted_names : forall cs st,
  Forall name st -> Forall noslash cs -> Forall name (nstack true st cs).
Proof.
  induction cs as [|c cs IH]; intros st Hst Hcs; cbn [nstack]; auto.
  pose proof (Forall_inv Hcs) as Hc. pose proof (Forall_inv_tail Hcs) as Hcs'.
  destruct c as [|x c]; cbn [orb]; [apply IH; auto|].
  destruct (is_dot (x :: c)) eqn:Hd; [apply IH; auto|].
  destruct (is_dotdot (x :: c)) eqn:Hdd.
  - destruct st as [|top st']; [apply IH; auto|].
    pose proof (Forall_inv Hst) as (_ & _ & _ & Htdd). rewrite Htdd.
    apply IH; auto. apply (Forall_inv_tail Hst).
  - apply IH; auto. constructor; auto. repeat split; auto. discriminate.
Qed.

Lemma names_noslash cs : Forall name cs -> Forall noslash cs.
Proof. intros H. eapply Forall_impl; [|exact H]. intros c Hc; apply Hc. Qed.

(* ---- Clean on rooted paths -------------------------------------------------- *)
(* the names Clean keeps for a rooted path whose part after the first '/' is t,
   starting from the names ws already kept *)
Definition kept (ws : list str) (t : str) : list str := rev (nstack true (rev ws) (comps t)).

Lemma kept_names ws t : Forall name ws -> Forall name (kept ws t).
Proof.
  intros H. unfold kept. apply Forall_rev. apply nstack_rooted_names.
  - apply Forall_rev. exact H.
  - apply comps_all_noslash.
Qed.

Theorem clean_rooted t : clean Linux (SLASH :: t) = cpath (kept [] t).
Proof.
  rewrite clean_linux_spec. unfold clean_spec. replace (N.eqb SLASH SLASH) with true by reflexivity.
  unfold render, cpath, kept. rewrite comps_slash, norm_drop_empty, norm_nstack. reflexivity.
Qed.

Theorem clean_under ws t :
  Forall name ws -> clean Linux (cpath ws ++ SLASH :: t) = cpath (kept ws t).
Proof.
  intros HF. change (cpath ws ++ SLASH :: t) with (SLASH :: (intercalate [SLASH] ws ++ SLASH :: t)).
  rewrite clean_rooted. unfold kept. f_equal. f_equal.
  change (SLASH :: (intercalate [SLASH] ws ++ SLASH :: t)) with (cpath ws ++ SLASH :: t).
  cbn [rev]. rewrite comps_app_slash.
  assert (H : comps (intercalate [SLASH] ws) = xcomps ws).
  { destruct ws as [|x ws]; [reflexivity|]. apply comps_intercalate; [apply names_noslash; exact HF|discriminate]. }
  rewrite H, nstack_app.
  replace (nstack true [] (xcomps ws)) with (rev ws); [reflexivity|].
  pose proof (@nstack_xcomps true ws [] HF) as Hx. cbn [nstack orb] in Hx. rewrite app_nil_r in Hx. auto.
Qed.

Theorem clean_cpath cs : Forall name cs -> clean Linux (cpath cs) = cpath cs.
Proof.
  intros HF. unfold cpath at 1. rewrite clean_rooted. f_equal. unfold kept. cbn [rev].
  assert (H : comps (intercalate [SLASH] cs) = xcomps cs).
  { destruct cs as [|x cs]; [reflexivity|]. apply comps_intercalate; [apply names_noslash; exact HF|discriminate]. }
  rewrite H.
  pose proof (@nstack_xcomps true cs [] HF) as Hx. cbn [nstack orb] in Hx. rewrite Hx, app_nil_r.
  apply rev_involutive.
Qed.

Lemma kept_cpath bs cs : Forall name bs -> Forall name cs -> kept bs (cpath cs) = bs ++ cs.
Proof.
  intros Hb Hc. unfold kept. rewrite comps_cpath by (apply names_noslash; exact Hc).
  rewrite nstack_xcomps by exact Hc. rewrite rev_app_distr, !rev_involutive. reflexivity.
Qed.

Theorem clean_cpath_app bs cs :
  Forall name bs -> Forall name cs -> clean Linux (cpath bs ++ SLASH :: cpath cs) = cpath (bs ++ cs).
Proof. intros Hb Hc. rewrite clean_under by exact Hb. rewrite kept_cpath; auto. Qed.

(* leading slashes collapse *)
Lemma clean_slash_slash t : clean Linux (SLASH :: SLASH :: t) = clean Linux (SLASH :: t).
Proof. rewrite !clean_rooted. unfold kept. rewrite comps_slash. reflexivity. Qed.

(* every absolute path cleans to a canonical path; so does every path
   joined to a canonical current directory *)
Theorem clean_abs_canonical p :
  is_abs Linux p = true -> exists cs, Forall name cs /\ clean Linux p = cpath cs.
Proof.
  intros H. apply is_abs_linux in H as [t ->]. exists (kept [] t). split.
  - apply kept_names. constructor.
  - apply clean_rooted.
Qed.

(* ---- Join / Abs -------------------------------------------------------------- *)
Lemma join2_nonempty a b : a <> [] -> join Linux [a; b] = clean Linux (a ++ SLASH :: b).
Proof.
  intros Ha. unfold join. destruct a as [|x a]; [congruence|]. reflexivity.
Qed.

Lemma cpath_nonempty cs : cpath cs <> [].
Proof. discriminate. Qed.

Theorem abs_canonical ws p :
  Forall name ws -> exists cs, Forall name cs /\ abs Linux (cpath ws) p = cpath cs.
Proof.
  intros HF. unfold abs. destruct (is_abs Linux p) eqn:Ha.
  - apply clean_abs_canonical. exact Ha.
  - rewrite join2_nonempty by apply cpath_nonempty. rewrite clean_under by exact HF.
    exists (kept ws p). split; [apply kept_names; exact HF|reflexivity].
Qed.

(* ---- intercalate of an append ---------------------------------------------------- *)
Lemma intercalate_app (sep : str) l1 l2 :
  l1 <> [] -> l2 <> [] ->
  intercalate sep (l1 ++ l2) = intercalate sep l1 ++ sep ++ intercalate sep l2.
Proof.
  intros H1 H2. revert l1 H1. induction l2 as [|e l2 IH] using rev_ind; [congruence|]. intros l1 H1.
  destruct l2 as [|y l2'].
  - cbn [app]. apply intercalate_snoc. exact H1.
  - rewrite app_assoc. rewrite intercalate_snoc by (destruct l1; [congruence|discriminate]).
    rewrite IH by (auto; discriminate). rewrite intercalate_snoc by discriminate.
    rewrite <- !app_assoc. reflexivity.
Qed.
