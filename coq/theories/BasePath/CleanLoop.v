(* The loop of Clean (POSIX flavour) over ALL strings, step 1 of 2.

   [PathModel.clean] mirrors vfs_ostype_on.go: a read index [r] into the path, a
   lazily allocated output buffer addressed by a write index [w], and a
   backtracking loop over buffer indices.  This file proves, for EVERY path,
   that this index-and-buffer loop computes the same bytes as [aloop], the same
   loop written over the remaining suffix of the path and the list of bytes
   written so far.  The proof carries the invariant of Go's path.Clean
   ("out.w <= r", strict at the start of an element once something was
   written), which is also what keeps every buffer write in range. *)
From Avfs Require Import Base PathModel PathProofs.
Set Implicit Arguments.

(* ---- list helpers ----------------------------------------------------- *)
Lemma set_nth_length (l : list N) i c : length (set_nth l i c) = length l.
Proof.
  revert i; induction l as [|x l IH]; intros i; cbn [set_nth length]; auto.
  destruct i; cbn [length]; auto.
Qed.

Lemma firstn_set_nth (l : list N) w c :
  w < length l -> firstn (S w) (set_nth l w c) = firstn w l ++ [c].
Proof.
  revert w; induction l as [|x l IH]; intros w Hw; cbn [length] in Hw; [lia|].
  destruct w as [|w]; cbn [set_nth firstn app]; auto.
  f_equal. apply IH. lia.
Qed.

Lemma firstn_S_nth (l : list N) w :
  w < length l -> firstn (S w) l = firstn w l ++ [nth w l 0%N].
Proof.
  revert w; induction l as [|x l IH]; intros w Hw; cbn [length] in Hw; [lia|].
  destruct w as [|w]; cbn [firstn nth app]; auto.
  f_equal. apply IH. lia.
Qed.

Lemma skipn_cons_nth (l : list N) r :
  r < length l -> skipn r l = nthb l r :: skipn (S r) l.
Proof.
  unfold nthb. revert r; induction l as [|x l IH]; intros r Hr; cbn [length] in Hr; [lia|].
  destruct r as [|r]; [reflexivity|].
  change (skipn (S r) (x :: l)) with (skipn r l).
  change (skipn (S (S r)) (x :: l)) with (skipn (S r) l).
  change (nth (S r) (x :: l) 0%N) with (nth r l 0%N). apply IH. lia.
Qed.

Lemma skipn_all_nil (l : list N) r : length l <= r -> skipn r l = [].
Proof. intros H. apply skipn_all2. exact H. Qed.

Lemma nthb_nonzero_lt (l : list N) i : nthb l i <> 0%N -> i < length l.
Proof.
  unfold nthb. intros H. destruct (Nat.lt_ge_cases i (length l)) as [Hl|Hl]; auto.
  rewrite nth_overflow in H by lia. congruence.
Qed.

Lemma nthb_skipn_head (l : list N) r :
  nthb l r = match skipn r l with c :: _ => c | [] => 0%N end.
Proof.
  destruct (Nat.lt_ge_cases r (length l)) as [Hl|Hl].
  - rewrite (skipn_cons_nth l Hl). reflexivity.
  - rewrite skipn_all_nil by lia. unfold nthb. apply nth_overflow. lia.
Qed.

(* ---- lazybuf ----------------------------------------------------------- *)
Definition lbwf (path : str) (b : lazybuf) : Prop :=
  lb_w b <= length path /\
  match lb_buf b with Some buf => length buf = length path | None => True end.

Lemma lb_bytes_length path b : lbwf path b -> length (lb_bytes path b) = lb_w b.
Proof.
  unfold lbwf, lb_bytes. intros [Hw Hb]. destruct (lb_buf b) as [buf|];
    rewrite firstn_length; lia.
Qed.

Lemma lb_append_ok path b c :
  lbwf path b -> lb_w b < length path ->
  lbwf path (lb_append path b c)
  /\ lb_bytes path (lb_append path b c) = lb_bytes path b ++ [c]
  /\ lb_w (lb_append path b c) = S (lb_w b).
Proof.
  unfold lbwf, lb_append, lb_bytes. intros [Hw Hb] Hlt.
  destruct (lb_buf b) as [buf|] eqn:Hbuf.
  - cbn [lb_buf lb_w]. rewrite set_nth_length. split; [split; [lia|exact Hb]|]. split; [|reflexivity].
    apply firstn_set_nth. lia.
  - destruct (Nat.ltb (lb_w b) (length path) && N.eqb (nthb path (lb_w b)) c) eqn:Hc.
    + apply andb_prop in Hc as [_ Hc]. apply N.eqb_eq in Hc. cbn [lb_buf lb_w].
      split; [split; [lia|exact I]|]. split; [|reflexivity].
      rewrite <- Hc. apply firstn_S_nth. exact Hlt.
    + cbn [lb_buf lb_w]. rewrite set_nth_length, app_length, firstn_length, repeat_length.
      split; [split; lia|]. split; [|reflexivity].
      rewrite firstn_set_nth.
      * f_equal. rewrite firstn_app, firstn_firstn, firstn_length.
        replace (Init.Nat.min (lb_w b) (lb_w b)) with (lb_w b) by lia.
        replace (lb_w b - Init.Nat.min (lb_w b) (length path)) with 0 by lia.
        cbn [firstn]. apply app_nil_r.
      * rewrite app_length, firstn_length, repeat_length. lia.
Qed.

Lemma lb_appends_ok path e : forall b,
  lbwf path b -> lb_w b + length e <= length path ->
  lbwf path (fold_left (lb_append path) e b)
  /\ lb_bytes path (fold_left (lb_append path) e b) = lb_bytes path b ++ e
  /\ lb_w (fold_left (lb_append path) e b) = lb_w b + length e.
Proof.
  induction e as [|c e IH]; intros b Hwf Hlen; cbn [fold_left length] in *.
  - rewrite app_nil_r. split; [exact Hwf|]. split; [reflexivity|lia].
  - destruct (@lb_append_ok path b c Hwf ltac:(lia)) as (Hwf1 & Hb1 & Hw1).
    destruct (IH (lb_append path b c) Hwf1 ltac:(lia)) as (Hwf2 & Hb2 & Hw2).
    split; [exact Hwf2|]. split.
    + rewrite Hb2, Hb1, <- app_assoc. reflexivity.
    + lia.
Qed.

Lemma lb_index_bytes path b i :
  lbwf path b -> i < lb_w b -> lb_index path b i = nthb (lb_bytes path b) i.
Proof.
  unfold lb_index, lb_bytes, nthb. intros _ Hi.
  destruct (lb_buf b); rewrite nth_firstn_lt_own; auto.
Qed.

Lemma lb_cut_ok path b w :
  lbwf path b -> w <= lb_w b ->
  lbwf path {| lb_buf := lb_buf b; lb_w := w |}
  /\ lb_bytes path {| lb_buf := lb_buf b; lb_w := w |} = firstn w (lb_bytes path b).
Proof.
  unfold lbwf, lb_bytes. cbn [lb_buf lb_w]. intros [Hw Hb] Hle. split; [split; [lia|exact Hb]|].
  destruct (lb_buf b); rewrite firstn_firstn; f_equal; lia.
Qed.

(* ---- the loop over the suffix and the bytes written -------------------- *)
Fixpoint span_elem (s : str) : str * str :=
  match s with
  | [] => ([], [])
  | c :: s' => if N.eqb c SLASH then ([], s)
               else let (e, r) := span_elem s' in (c :: e, r)
  end.

(* out.w-- ; for out.w > dotdot && !sep(out[out.w]) { out.w-- }, on the byte list *)
Fixpoint abt (out : str) (dotdot w fuel : nat) : nat :=
  match fuel with
  | O => w
  | S f => if Nat.ltb dotdot w && negb (N.eqb (nthb out w) SLASH)
           then abt out dotdot (w - 1) f else w
  end.

Definition head_is_sep_or_end (s : str) : bool :=
  match s with [] => true | d :: _ => N.eqb d SLASH end.

Fixpoint aloop (rooted : bool) (fuel : nat) (rest : str) (dotdot : nat) (out : str) : str :=
  match fuel with
  | O => out
  | S f =>
      match rest with
      | [] => out
      | c :: rest1 =>
          if N.eqb c SLASH then aloop rooted f rest1 dotdot out
          else if N.eqb c DOT && head_is_sep_or_end rest1 then aloop rooted f rest1 dotdot out
          else if N.eqb c DOT && N.eqb (match rest1 with d :: _ => d | [] => 0%N end) DOT
                  && head_is_sep_or_end (skipn 1 rest1) then
            let rest2 := skipn 1 rest1 in
            if Nat.ltb dotdot (length out) then
              aloop rooted f rest2 dotdot (firstn (abt out dotdot (length out - 1) (length out)) out)
            else if negb rooted then
              let out1 := if Nat.ltb 0 (length out) then out ++ [SLASH] else out in
              let out2 := out1 ++ [DOT; DOT] in
              aloop rooted f rest2 (length out2) out2
            else aloop rooted f rest2 dotdot out
          else
            let out1 := if (rooted && negb (Nat.eqb (length out) 1)) || (negb rooted && negb (Nat.eqb (length out) 0))
                        then out ++ [SLASH] else out in
            let (e, rest') := span_elem rest in
            aloop rooted f rest' dotdot (out1 ++ e)
      end
  end.

(* ---- helper facts ------------------------------------------------------ *)
Lemma backtrack_abt path b dotdot : forall fuel w,
  lbwf path b -> w < lb_w b ->
  backtrack Linux path b dotdot w fuel = abt (lb_bytes path b) dotdot w fuel.
Proof.
  induction fuel as [|f IH]; intros w Hwf Hw; cbn [backtrack abt]; auto.
  cbn [is_sep]. rewrite (lb_index_bytes Hwf Hw).
  destruct (Nat.ltb dotdot w && negb (N.eqb (nthb (lb_bytes path b) w) SLASH)); auto.
  apply IH; auto. lia.
Qed.

Lemma abt_le out dotdot : forall fuel w, abt out dotdot w fuel <= w.
Proof.
  induction fuel as [|f IH]; intros w; cbn [abt]; auto.
  destruct (Nat.ltb dotdot w && negb (N.eqb (nthb out w) SLASH)); auto.
  specialize (IH (w - 1)). lia.
Qed.

Lemma span_elem_app s : fst (span_elem s) ++ snd (span_elem s) = s.
Proof.
  induction s as [|c s IH]; cbn [span_elem]; auto.
  destruct (N.eqb c SLASH); cbn [fst snd app]; auto.
  destruct (span_elem s) as [e r]. cbn [fst snd app] in *. f_equal. exact IH.
Qed.

Lemma span_elem_rest s : head_is_sep_or_end (snd (span_elem s)) = true.
Proof.
  induction s as [|c s IH]; cbn [span_elem]; auto.
  destruct (N.eqb c SLASH) eqn:Hc; cbn [snd head_is_sep_or_end]; auto.
  destruct (span_elem s) as [e r]. exact IH.
Qed.

Lemma span_elem_nosep s c : In c (fst (span_elem s)) -> N.eqb c SLASH = false.
Proof.
  induction s as [|x s IH]; cbn [span_elem]; [intros []|].
  destruct (N.eqb x SLASH) eqn:Hx; cbn [fst]; [intros []|].
  destruct (span_elem s) as [e r]. cbn [fst In] in *. intros [<-|H]; auto.
Qed.

Lemma find_from_span s : forall i,
  find_from (is_sep Linux) s i = i + length (fst (span_elem s)).
Proof.
  induction s as [|c s IH]; intros i; cbn [find_from span_elem is_sep]; [cbn; lia|].
  destruct (N.eqb c SLASH); cbn [fst length]; [lia|].
  rewrite IH. destruct (span_elem s) as [e r]. cbn [fst length]. lia.
Qed.

Lemma head_cond path r' :
  r' <= length path ->
  (Nat.eqb r' (length path) || N.eqb (nthb path r') SLASH) = head_is_sep_or_end (skipn r' path).
Proof.
  intros Hr. destruct (Nat.eq_dec r' (length path)) as [->|Hne].
  - rewrite Nat.eqb_refl, skipn_all. reflexivity.
  - assert (Hlt : r' < length path) by lia.
    rewrite (skipn_cons_nth path Hlt). cbn [head_is_sep_or_end].
    apply Nat.eqb_neq in Hne. rewrite Hne. reflexivity.
Qed.

Definition head0 (s : str) : N := match s with d :: _ => d | [] => 0%N end.

Lemma DOT_nonzero : DOT <> 0%N.
Proof. discriminate. Qed.

Lemma dotdot_cond path r :
  (N.eqb (nthb path (S r)) DOT && (Nat.eqb (S (S r)) (length path) || N.eqb (nthb path (S (S r))) SLASH))
  = (N.eqb (head0 (skipn (S r) path)) DOT && head_is_sep_or_end (skipn 1 (skipn (S r) path))).
Proof.
  unfold head0. rewrite <- nthb_skipn_head.
  destruct (N.eqb (nthb path (S r)) DOT) eqn:Hd; cbn [andb]; auto.
  apply N.eqb_eq in Hd.
  assert (Hlt : S r < length path) by (apply nthb_nonzero_lt; rewrite Hd; exact DOT_nonzero).
  rewrite skipn_skipn_own. replace (S r + 1) with (S (S r)) by lia.
  apply head_cond. lia.
Qed.

(* one unfolding of the two loops *)
Lemma clean_loop_S path rooted n f r dotdot out :
  clean_loop Linux path rooted n (S f) r dotdot out =
  if negb (Nat.ltb r n) then out
  else
    let c := nthb path r in
    if N.eqb c SLASH then clean_loop Linux path rooted n f (S r) dotdot out
    else if N.eqb c DOT && (Nat.eqb (S r) n || N.eqb (nthb path (S r)) SLASH) then
      clean_loop Linux path rooted n f (S r) dotdot out
    else if N.eqb c DOT && N.eqb (nthb path (S r)) DOT
            && (Nat.eqb (S (S r)) n || N.eqb (nthb path (S (S r))) SLASH) then
      let r' := S (S r) in
      if Nat.ltb dotdot (lb_w out) then
        let w := backtrack Linux path out dotdot (lb_w out - 1) (lb_w out) in
        clean_loop Linux path rooted n f r' dotdot {| lb_buf := lb_buf out; lb_w := w |}
      else if negb rooted then
        let out1 := if Nat.ltb 0 (lb_w out) then lb_append path out SLASH else out in
        let out2 := lb_append path (lb_append path out1 DOT) DOT in
        clean_loop Linux path rooted n f r' (lb_w out2) out2
      else clean_loop Linux path rooted n f r' dotdot out
    else
      let out1 := if (rooted && negb (Nat.eqb (lb_w out) 1)) || (negb rooted && negb (Nat.eqb (lb_w out) 0))
                  then lb_append path out SLASH else out in
      let e := index_from (is_sep Linux) path r in
      let out2 := fold_left (lb_append path) (firstn (e - r) (skipn r path)) out1 in
      clean_loop Linux path rooted n f e dotdot out2.
Proof. reflexivity. Qed.

Lemma aloop_S rooted f c rest1 dotdot out :
  aloop rooted (S f) (c :: rest1) dotdot out =
  if N.eqb c SLASH then aloop rooted f rest1 dotdot out
  else if N.eqb c DOT && head_is_sep_or_end rest1 then aloop rooted f rest1 dotdot out
  else if N.eqb c DOT && N.eqb (head0 rest1) DOT && head_is_sep_or_end (skipn 1 rest1) then
    let rest2 := skipn 1 rest1 in
    if Nat.ltb dotdot (length out) then
      aloop rooted f rest2 dotdot (firstn (abt out dotdot (length out - 1) (length out)) out)
    else if negb rooted then
      let out1 := if Nat.ltb 0 (length out) then out ++ [SLASH] else out in
      let out2 := out1 ++ [DOT; DOT] in
      aloop rooted f rest2 (length out2) out2
    else aloop rooted f rest2 dotdot out
  else
    let out1 := if (rooted && negb (Nat.eqb (length out) 1)) || (negb rooted && negb (Nat.eqb (length out) 0))
                then out ++ [SLASH] else out in
    aloop rooted f (snd (span_elem (c :: rest1))) dotdot (out1 ++ fst (span_elem (c :: rest1))).
Proof.
  cbn [aloop]. unfold head0.
  destruct (N.eqb c SLASH); auto.
  destruct (N.eqb c DOT && head_is_sep_or_end rest1); auto.
  destruct (N.eqb c DOT && N.eqb match rest1 with [] => 0%N | d :: _ => d end DOT && head_is_sep_or_end (skipn 1 rest1)); auto.
  destruct (span_elem (c :: rest1)) as [e r]. reflexivity.
Qed.

(* ---- the refinement ---------------------------------------------------- *)
Definition w0 (rooted : bool) : nat := if rooted then 1 else 0.

Lemma sep_cond rooted w :
  ((rooted && negb (Nat.eqb w 1)) || (negb rooted && negb (Nat.eqb w 0))) = negb (Nat.eqb w (w0 rooted)).
Proof. destruct rooted; cbn [andb orb negb w0]; [rewrite orb_false_r|]; reflexivity. Qed.

Theorem clean_loop_aloop path rooted :
  forall fuel r dotdot out,
    r <= length path -> lbwf path out -> lb_w out <= r ->
    (r < length path -> N.eqb (nthb path r) SLASH = false -> lb_w out < r \/ lb_w out = w0 rooted) ->
    lbwf path (clean_loop Linux path rooted (length path) fuel r dotdot out)
    /\ lb_bytes path (clean_loop Linux path rooted (length path) fuel r dotdot out)
       = aloop rooted fuel (skipn r path) dotdot (lb_bytes path out).
Proof.
  induction fuel as [|f IH]; intros r dotdot out Hr Hwf Hwr Hstart.
  - cbn [clean_loop aloop]. split; [exact Hwf|reflexivity].
  - rewrite clean_loop_S.
    destruct (Nat.ltb r (length path)) eqn:Hrn; cbn [negb].
    2:{ apply Nat.ltb_ge in Hrn. rewrite skipn_all_nil by (lia).
        cbn [aloop]. split; [exact Hwf|reflexivity]. }
    apply Nat.ltb_lt in Hrn.
    rewrite (skipn_cons_nth path Hrn). rewrite aloop_S.
    cbv zeta. set (c := nthb path r) in *.
    pose proof (lb_bytes_length Hwf) as Hlen.
    destruct (N.eqb c SLASH) eqn:Hsep.
    { (* separator *)
      apply IH; [lia|exact Hwf|lia|]. intros _ _. left. lia. }
    specialize (Hstart Hrn eq_refl).
    rewrite (@head_cond path (S r)) by (lia).
    destruct (N.eqb c DOT && head_is_sep_or_end (skipn (S r) path)) eqn:Hdot.
    { (* "." element *)
      apply andb_prop in Hdot as [_ Hend].
      apply IH; [lia|exact Hwf|lia|].
      intros Hlt Hns. rewrite (skipn_cons_nth path Hlt) in Hend. cbn [head_is_sep_or_end] in Hend. congruence. }
    rewrite <- andb_assoc, dotdot_cond, andb_assoc.
    destruct (N.eqb c DOT && N.eqb (head0 (skipn (S r) path)) DOT && head_is_sep_or_end (skipn 1 (skipn (S r) path))) eqn:Hdd.
    { (* ".." element *)
      apply andb_prop in Hdd as [Hdd Hend]. apply andb_prop in Hdd as [_ Hd2].
      unfold head0 in Hd2. rewrite <- nthb_skipn_head in Hd2. apply N.eqb_eq in Hd2.
      assert (Hlt2 : S r < (length path)) by (apply nthb_nonzero_lt; rewrite Hd2; exact DOT_nonzero).
      rewrite skipn_skipn_own in *. replace (S r + 1) with (S (S r)) in * by lia.
      assert (Hvac : S (S r) < (length path) -> N.eqb (nthb path (S (S r))) SLASH = false -> False).
      { intros Hlt Hns. rewrite (skipn_cons_nth path Hlt) in Hend. cbn [head_is_sep_or_end] in Hend. congruence. }
      rewrite Hlen.
      destruct (Nat.ltb dotdot (lb_w out)) eqn:Hbt.
      - (* backtrack *)
        apply Nat.ltb_lt in Hbt.
        rewrite backtrack_abt by (auto; lia).
        pose proof (abt_le (lb_bytes path out) dotdot (lb_w out) (lb_w out - 1)) as Hle.
        destruct (@lb_cut_ok path out (abt (lb_bytes path out) dotdot (lb_w out - 1) (lb_w out)) Hwf ltac:(lia)) as [Hwf' Hb'].
        rewrite <- Hb'. apply IH; [lia|exact Hwf'|cbn [lb_w]; lia|].
        intros Hlt Hns. exfalso. eauto.
      - destruct rooted; cbn [negb].
        + apply IH; [lia|exact Hwf|lia|]. intros Hlt Hns. exfalso. eauto.
        + (* not rooted: append [/]".." *)
          cbn [w0] in Hstart.
          destruct (Nat.ltb 0 (lb_w out)) eqn:Hpos.
          * apply Nat.ltb_lt in Hpos.
            destruct (@lb_append_ok path out SLASH Hwf ltac:(lia)) as (Hwf1 & Hb1 & Hw1).
            destruct (@lb_append_ok path _ DOT Hwf1 ltac:(lia)) as (Hwf2 & Hb2 & Hw2).
            destruct (@lb_append_ok path _ DOT Hwf2 ltac:(lia)) as (Hwf3 & Hb3 & Hw3).
            set (o3 := lb_append path (lb_append path (lb_append path out SLASH) DOT) DOT) in *.
            assert (Hbytes : lb_bytes path o3 = (lb_bytes path out ++ [SLASH]) ++ [DOT; DOT]).
            { rewrite Hb3, Hb2, Hb1, <- !app_assoc. reflexivity. }
            rewrite <- Hbytes. rewrite (lb_bytes_length Hwf3).
            apply IH; [lia|exact Hwf3|lia|]. intros Hlt Hns. exfalso. eauto.
          * apply Nat.ltb_ge in Hpos.
            destruct (@lb_append_ok path out DOT Hwf ltac:(lia)) as (Hwf2 & Hb2 & Hw2).
            destruct (@lb_append_ok path _ DOT Hwf2 ltac:(lia)) as (Hwf3 & Hb3 & Hw3).
            set (o3 := lb_append path (lb_append path out DOT) DOT) in *.
            assert (Hbytes : lb_bytes path o3 = lb_bytes path out ++ [DOT; DOT]).
            { rewrite Hb3, Hb2, <- !app_assoc. reflexivity. }
            rewrite <- Hbytes. rewrite (lb_bytes_length Hwf3).
            apply IH; [lia|exact Hwf3|lia|]. intros Hlt Hns. exfalso. eauto. }
    (* ordinary element *)
    rewrite !sep_cond. rewrite Hlen.
    subst c. rewrite <- (skipn_cons_nth path Hrn).
    unfold index_from. rewrite find_from_span.
    set (el := fst (span_elem (skipn r path))). set (rs := snd (span_elem (skipn r path))).
    assert (Happ : el ++ rs = skipn r path) by apply span_elem_app.
    assert (Hel : r + length el <= (length path)).
    { assert (H : length (skipn r path) = (length path) - r) by apply skipn_length.
      rewrite <- Happ, app_length in H. lia. }
    replace (r + length el - r) with (length el) by lia.
    assert (Hfirst : firstn (length el) (skipn r path) = el).
    { rewrite <- Happ. rewrite firstn_app, Nat.sub_diag, firstn_all. cbn [firstn]. apply app_nil_r. }
    assert (Hskip : skipn (r + length el) path = rs).
    { rewrite <- skipn_skipn_own, <- Happ. rewrite skipn_app, Nat.sub_diag, skipn_all. reflexivity. }
    rewrite Hfirst.
    assert (Hvac : r + length el < (length path) -> N.eqb (nthb path (r + length el)) SLASH = false -> False).
    { intros Hlt Hns. pose proof (span_elem_rest (skipn r path)) as Hend. fold rs in Hend.
      rewrite <- Hskip, (skipn_cons_nth path Hlt) in Hend. cbn [head_is_sep_or_end] in Hend. congruence. }
    destruct (negb (Nat.eqb (lb_w out) (w0 rooted))) eqn:Hneed.
    + apply negb_true_iff, Nat.eqb_neq in Hneed.
      destruct (@lb_append_ok path out SLASH Hwf ltac:(lia)) as (Hwf1 & Hb1 & Hw1).
      destruct (@lb_appends_ok path el _ Hwf1 ltac:(lia)) as (Hwf2 & Hb2 & Hw2).
      rewrite <- Hb1, <- Hb2, <- Hskip.
      apply IH; [lia|exact Hwf2|lia|]. intros Hlt Hns. exfalso. eauto.
    + destruct (@lb_appends_ok path el _ Hwf ltac:(lia)) as (Hwf2 & Hb2 & Hw2).
      rewrite <- Hb2, <- Hskip.
      apply IH; [lia|exact Hwf2|lia|]. intros Hlt Hns. exfalso. eauto.
Qed.
