(* Proofs about the copy model (property C16). *)
From Avfs Require Import Base Copy.
Set Implicit Arguments.

Lemma chunk_f_concat n : 0 < n -> forall fuel l, length l <= fuel -> concat (chunk_f fuel n l) = l.
Proof.
  intros Hn. induction fuel as [|f IH]; intros l Hl; cbn [chunk_f].
  - destruct l; cbn in *; [reflexivity|lia].
  - destruct l as [|x l']; [reflexivity|].
    cbn [concat]. rewrite IH.
    + apply firstn_skipn.
    + rewrite skipn_length. cbn [length] in *. lia.
Qed.

Lemma chunk_concat n l : 0 < n -> concat (chunk n l) = l.
Proof. intros Hn. unfold chunk. apply chunk_f_concat; auto. Qed.

Lemma chunk_f_nonempty n : 0 < n -> forall fuel l c, In c (chunk_f fuel n l) -> c <> [] /\ length c <= n.
Proof.
  intros Hn. induction fuel as [|f IH]; intros l c Hin; cbn [chunk_f] in Hin; [destruct Hin|].
  destruct l as [|x l']; [destruct Hin|]. destruct Hin as [<-|Hin]; [|eapply IH; eauto].
  split.
  - destruct n; [lia|]. cbn. discriminate.
  - apply firstn_le_length.
Qed.

Section CopyFacts.
  Variable hstate : Type.
  Variable h_init : hstate.
  Variable h_write : hstate -> list N -> hstate.
  Variable digest : Type.
  Variable h_sum : hstate -> digest.

  Local Notation copy_loop := (copy_loop h_write).
  Local Notation copy_file_hash := (copy_file_hash h_init h_write h_sum).
  Local Notation hash_loop := (hash_loop h_write).
  Local Notation hash_file := (hash_file h_init h_write h_sum).

  (* what a consulted-and-not-failed trace looks like *)
  Definition clean_from (pl : plan) (tr0 tr : trace) : Prop :=
    forall p i, In (p, i) tr -> In (p, i) tr0 \/ pl p i = None.

  Lemma copy_loop_ok pl : forall chs i dst hs tr d hs' tr',
    copy_loop pl i chs dst hs tr = (None, d, hs', tr') ->
    d = dst ++ concat chs /\ hs' = fold_left h_write chs hs /\ clean_from pl tr tr'.
  Proof.
    induction chs as [|c chs IH]; intros i dst hs tr d hs' tr' H; cbn [copy_loop] in H.
    - destruct (pl SrcRead i) eqn:Hr; [discriminate|]. inversion H; subst.
      cbn. rewrite app_nil_r. repeat split; auto.
      intros p k Hin. apply in_app_iff in Hin as [Hin|[Heq|[]]]; auto. inversion Heq; subst; auto.
    - destruct (pl SrcRead i) eqn:Hr; [discriminate|].
      destruct (pl DstWrite i) eqn:Hw; [discriminate|].
      apply IH in H as (-> & -> & Hc). cbn [concat fold_left]. rewrite app_assoc.
      repeat split; auto.
      intros p k Hin. apply Hc in Hin as [Hin|Hin]; auto.
      apply in_app_iff in Hin as [Hin|[Heq|[Heq|[]]]]; auto; inversion Heq; subst; auto.
  Qed.

  (* an error out of the loop is an injected one, and the destination holds a prefix *)
  Lemma copy_loop_err pl : forall chs i dst hs tr e d hs' tr',
    copy_loop pl i chs dst hs tr = (Some e, d, hs', tr') ->
    exists p k, In (p, k) tr' /\ pl p k = Some e /\ (p = SrcRead \/ p = DstWrite).
  Proof.
    induction chs as [|c chs IH]; intros i dst hs tr e d hs' tr' H; cbn [copy_loop] in H.
    - destruct (pl SrcRead i) eqn:Hr; [|discriminate]. inversion H; subst.
      exists SrcRead, i. rewrite in_app_iff. cbn. auto.
    - destruct (pl SrcRead i) eqn:Hr.
      { inversion H; subst. exists SrcRead, i. rewrite in_app_iff. cbn. auto. }
      destruct (pl DstWrite i) eqn:Hw.
      { inversion H; subst. exists DstWrite, i. rewrite in_app_iff. cbn. auto 6. }
      eapply IH; eauto.
  Qed.

  Lemma clean_from_app pl tr0 tr l :
    clean_from pl tr0 tr -> (forall p i, In (p, i) l -> pl p i = None) -> clean_from pl tr0 (tr ++ l).
  Proof.
    intros H Hl p i Hin. apply in_app_iff in Hin as [Hin|Hin]; auto.
  Qed.

  (* ---- the two halves of the property ---- *)

  (* nil error => faithful copy, right mode, right digest, and no consulted
     primitive other than the source's Close was made to fail *)
  Theorem copy_ok pl hashing bufsize content smode dst0 cperm :
    0 < bufsize ->
    let r := copy_file_hash pl hashing bufsize content smode dst0 cperm in
    c_err r = None ->
    c_dst r = Some (content, smode)
    /\ c_sum r = (if hashing then Some (h_sum (fold_left h_write (chunk bufsize content) h_init)) else None)
    /\ (forall p i, In (p, i) (c_trace r) -> p <> SrcClose -> pl p i = None).
  Proof.
    intros Hb. cbn zeta. unfold Copy.copy_file_hash.
    destruct (pl SrcOpen 0) eqn:Hso; [cbn; discriminate|].
    destruct (pl DstOpen 0) eqn:Hdo; [cbn; discriminate|].
    destruct (Copy.copy_loop h_write pl 0 (chunk bufsize content) [] h_init [(SrcOpen, 0); (DstOpen, 0)])
      as [[[e d] hs] tr] eqn:Hl.
    destruct e as [e|]; [cbn; discriminate|].
    apply copy_loop_ok in Hl as (-> & -> & Hc). cbn [app] in *.
    rewrite (chunk_concat content Hb).
    destruct (pl DstSync 0) eqn:Hsy; [cbn; discriminate|].
    destruct (pl SrcStat 0) eqn:Hst; [cbn; discriminate|].
    destruct (pl DstChmod 0) eqn:Hch; [cbn; discriminate|].
    unfold finish; cbn [c_err c_dst c_sum c_trace]. intros Hcl.
    repeat split; auto.
    intros p i Hin Hne.
    rewrite !in_app_iff in Hin. cbn [In] in Hin.
    destruct Hin as [[Hin|Hin]|Hin].
    - apply Hc in Hin as [[Heq|[Heq|[]]]|Hin]; auto; inversion Heq; subst; auto.
    - destruct Hin as [Heq|[Heq|[Heq|[]]]]; inversion Heq; subst; auto.
    - destruct Hin as [Heq|[Heq|[]]]; inversion Heq; subst; auto. congruence.
  Qed.

  (* the contrapositive, in the property's words: if any consulted primitive
     (opening either file, a read, a write, sync, stat, chmod, closing the
     destination) was made to fail, the result is an error *)
  Corollary copy_reports pl hashing bufsize content smode dst0 cperm p i :
    0 < bufsize ->
    let r := copy_file_hash pl hashing bufsize content smode dst0 cperm in
    In (p, i) (c_trace r) -> p <> SrcClose -> pl p i <> None -> c_err r <> None.
  Proof.
    intros Hb r Hin Hne Hf He. apply Hf.
    exact (proj2 (proj2 (copy_ok pl hashing content smode dst0 cperm Hb He)) p i Hin Hne).
  Qed.

  (* a reported error is one of the injected ones (no error is invented) *)
  Theorem copy_err_injected pl hashing bufsize content smode dst0 cperm e :
    let r := copy_file_hash pl hashing bufsize content smode dst0 cperm in
    c_err r = Some e -> exists p i, In (p, i) (c_trace r) /\ pl p i = Some e /\ p <> SrcClose.
  Proof.
    cbn zeta. unfold Copy.copy_file_hash.
    destruct (pl SrcOpen 0) eqn:Hso.
    { cbn. intros [= <-]. exists SrcOpen, 0. cbn. repeat split; auto; discriminate. }
    destruct (pl DstOpen 0) eqn:Hdo.
    { cbn. intros [= <-]. exists DstOpen, 0. cbn. repeat split; auto; discriminate. }
    destruct (Copy.copy_loop h_write pl 0 (chunk bufsize content) [] h_init [(SrcOpen, 0); (DstOpen, 0)])
      as [[[e0 d] hs] tr] eqn:Hl.
    destruct e0 as [e0|].
    { apply copy_loop_err in Hl as (p & k & Hin & Hp & Hk).
      unfold finish; cbn. intros [= <-]. exists p, k. rewrite in_app_iff.
      repeat split; auto. destruct Hk; subst; discriminate. }
    assert (Hfin : forall tr1 q, In (q, 0) tr1 -> q <> SrcClose -> forall d1 (s1 : option digest) e1, pl q 0 = Some e1 ->
              c_err (finish pl s1 (Some e1) d1 tr1) = Some e ->
              exists p i, In (p, i) (c_trace (finish pl s1 (Some e1) d1 tr1)) /\ pl p i = Some e /\ p <> SrcClose).
    { intros tr1 q Hq Hne d1 s1 e1 Hp. unfold finish; cbn. intros [= <-].
      exists q, 0. rewrite in_app_iff. auto. }
    destruct (pl DstSync 0) eqn:Hsy.
    { apply Hfin with (q := DstSync); auto; [rewrite in_app_iff; cbn; auto|discriminate]. }
    destruct (pl SrcStat 0) eqn:Hst.
    { apply Hfin with (q := SrcStat); auto; [rewrite in_app_iff; cbn; auto|discriminate]. }
    destruct (pl DstChmod 0) eqn:Hch.
    { apply Hfin with (q := DstChmod); auto; [rewrite in_app_iff; cbn; auto 6|discriminate]. }
    unfold finish; cbn. intros Hcl. exists DstClose, 0. rewrite !in_app_iff. cbn.
    repeat split; auto 6; discriminate.
  Qed.

  (* ---- HashFile ---- *)
  Lemma hash_loop_ok pl : forall chs i hs tr hs' tr',
    hash_loop pl i chs hs tr = (None, hs', tr') ->
    hs' = fold_left h_write chs hs /\ clean_from pl tr tr'.
  Proof.
    induction chs as [|c chs IH]; intros i hs tr hs' tr' H; cbn [Copy.hash_loop] in H.
    - destruct (pl SrcRead i) eqn:Hr; [discriminate|]. inversion H; subst. split; auto.
      intros p k Hin. apply in_app_iff in Hin as [Hin|[Heq|[]]]; auto. inversion Heq; subst; auto.
    - destruct (pl SrcRead i) eqn:Hr; [discriminate|].
      apply IH in H as (-> & Hc). split; auto.
      intros p k Hin. apply Hc in Hin as [Hin|Hin]; auto.
      apply in_app_iff in Hin as [Hin|[Heq|[]]]; auto; inversion Heq; subst; auto.
  Qed.

  Theorem hash_ok pl bufsize content :
    let '(sum, e, tr) := hash_file pl bufsize content in
    e = None ->
    sum = Some (h_sum (fold_left h_write (chunk bufsize content) h_init))
    /\ (forall p i, In (p, i) tr -> p <> SrcClose -> pl p i = None).
  Proof.
    unfold Copy.hash_file.
    destruct (pl SrcOpen 0) eqn:Hso; [discriminate|].
    destruct (Copy.hash_loop h_write pl 0 (chunk bufsize content) h_init [(SrcOpen, 0)]) as [[e hs] tr] eqn:Hl.
    destruct e as [e|]; [discriminate|]. intros _.
    apply hash_loop_ok in Hl as (-> & Hc). split; auto.
    intros p i Hin Hne. apply in_app_iff in Hin as [Hin|[Heq|[]]].
    - apply Hc in Hin as [[Heq|[]]|Hin]; auto. inversion Heq; subst; auto.
    - inversion Heq; subst. congruence.
  Qed.
End CopyFacts.

(* plan_of: a listed fault is what the plan returns (first match wins) *)
Lemma plan_of_nil p i : plan_of [] p i = None.
Proof. reflexivity. Qed.
