(* Executable model of copy.go (CopyFileHash / CopyFile / HashFile) over
   abstract file primitives with fault injection (property C16).

   Every primitive the Go code invokes on the two file systems consults a
   fault plan first, exactly as a FailFS wrapper does (consult, then forward):
   [plan p i] is the error injected into the i-th invocation (from 0) of
   primitive p, or None.  All plans are allowed: any number of faults.

   The hasher is abstract: a state type with write and sum (hash.Hash). *)
From Avfs Require Import Base.
Set Implicit Arguments.

Inductive prim :=
| SrcOpen | SrcRead | SrcClose | SrcStat
| DstOpen | DstWrite | DstSync | DstChmod | DstClose.

Definition prim_eqb (a b : prim) : bool :=
  match a, b with
  | SrcOpen, SrcOpen | SrcRead, SrcRead | SrcClose, SrcClose | SrcStat, SrcStat
  | DstOpen, DstOpen | DstWrite, DstWrite | DstSync, DstSync | DstChmod, DstChmod
  | DstClose, DstClose => true
  | _, _ => false
  end.

Definition err := N.                     (* identity of an injected error *)
Definition plan := prim -> nat -> option err.
Definition trace := list (prim * nat).   (* primitives consulted, in order *)

(* io.CopyBuffer reads at most [bufsize] bytes per Read: the source is
   consumed in chunks.  Fuel = length, unreachable exhaustion (chunk_concat). *)
Fixpoint chunk_f (fuel n : nat) (l : list N) : list (list N) :=
  match fuel with
  | O => []
  | S f => match l with
           | [] => []
           | _ => firstn n l :: chunk_f f n (skipn n l)
           end
  end.
Definition chunk (n : nat) (l : list N) : list (list N) := chunk_f (length l) n l.

Section Copy.
  Variable hstate : Type.
  Variable h_init : hstate.                      (* hasher.Reset() *)
  Variable h_write : hstate -> list N -> hstate. (* hasher.Write(p) *)
  Variable digest : Type.
  Variable h_sum : hstate -> digest.             (* hasher.Sum(nil) *)

  (* destination file: contents and permission bits, or absent *)
  Definition dfile := option (list N * N)%type.

  Record cres := {
    c_sum : option digest;   (* returned digest (nil when no hasher or on error) *)
    c_err : option err;      (* returned error *)
    c_dst : dfile;           (* destination afterwards *)
    c_trace : trace          (* primitives consulted *)
  }.

  (* io.CopyBuffer(out, src, buf) with out = dst or MultiWriter(dst, hasher):
       for { nr, er := src.Read(buf)
             if nr > 0 { nw, ew := out.Write(buf[:nr]); if ew != nil { err = ew; break } ... }
             if er != nil { if er != EOF { err = er }; break } }
     [i] is the number of reads (= writes) done so far. *)
  Fixpoint copy_loop (pl : plan) (i : nat) (chs : list (list N)) (dst : list N) (hs : hstate)
           (tr : trace) : option err * list N * hstate * trace :=
    match pl SrcRead i with
    | Some e => (Some e, dst, hs, tr ++ [(SrcRead, i)])
    | None =>
        match chs with
        | [] => (None, dst, hs, tr ++ [(SrcRead, i)])     (* 0, io.EOF *)
        | c :: chs' =>
            match pl DstWrite i with
            | Some e => (Some e, dst, hs, tr ++ [(SrcRead, i); (DstWrite, i)])
            | None => copy_loop pl (S i) chs' (dst ++ c) (h_write hs c)
                                (tr ++ [(SrcRead, i); (DstWrite, i)])
            end
        end
    end.

  (* The deferred handlers, in execution order: dst.Close() first (its error
     becomes the result when no earlier error occurred - copy.go:62-67 after
     the fix), then src.Close() whose error is dropped. *)
  Definition finish (pl : plan) (sum : option digest) (e : option err) (d : dfile) (tr : trace) : cres :=
    let e' := match e with
              | Some _ => e
              | None => pl DstClose 0
              end in
    {| c_sum := sum; c_err := e'; c_dst := d; c_trace := tr ++ [(DstClose, 0); (SrcClose, 0)] |}.

  (* [cperm] : permission bits a newly created destination gets (0666 &^ umask);
     [hashing] : whether a hasher was supplied. *)
  Definition copy_file_hash (pl : plan) (hashing : bool) (bufsize : nat)
             (content : list N) (smode : N) (dst0 : dfile) (cperm : N) : cres :=
    match pl SrcOpen 0 with
    | Some e => {| c_sum := None; c_err := Some e; c_dst := dst0; c_trace := [(SrcOpen, 0)] |}
    | None =>
        match pl DstOpen 0 with
        | Some e => {| c_sum := None; c_err := Some e; c_dst := dst0;
                       c_trace := [(SrcOpen, 0); (DstOpen, 0); (SrcClose, 0)] |}
        | None =>
            (* Create = OpenFile(O_RDWR|O_CREATE|O_TRUNC, 0666): truncates, keeps the mode of an existing file *)
            let perm0 := match dst0 with Some (_, p) => p | None => cperm end in
            let tr0 := [(SrcOpen, 0); (DstOpen, 0)] in
            match copy_loop pl 0 (chunk bufsize content) [] h_init tr0 with
            | (Some e, d, _, tr) => finish pl None (Some e) (Some (d, perm0)) tr
            | (None, d, hs, tr) =>
                match pl DstSync 0 with
                | Some e => finish pl None (Some e) (Some (d, perm0)) (tr ++ [(DstSync, 0)])
                | None =>
                    match pl SrcStat 0 with
                    | Some e => finish pl None (Some e) (Some (d, perm0)) (tr ++ [(DstSync, 0); (SrcStat, 0)])
                    | None =>
                        match pl DstChmod 0 with
                        | Some e => finish pl None (Some e) (Some (d, perm0))
                                           (tr ++ [(DstSync, 0); (SrcStat, 0); (DstChmod, 0)])
                        | None =>
                            finish pl (if hashing then Some (h_sum hs) else None) None (Some (d, smode))
                                   (tr ++ [(DstSync, 0); (SrcStat, 0); (DstChmod, 0)])
                        end
                    end
                end
            end
        end
    end.

  (* HashFile: open, copy into the hasher, close (error dropped). *)
  Fixpoint hash_loop (pl : plan) (i : nat) (chs : list (list N)) (hs : hstate) (tr : trace)
    : option err * hstate * trace :=
    match pl SrcRead i with
    | Some e => (Some e, hs, tr ++ [(SrcRead, i)])
    | None =>
        match chs with
        | [] => (None, hs, tr ++ [(SrcRead, i)])
        | c :: chs' => hash_loop pl (S i) chs' (h_write hs c) (tr ++ [(SrcRead, i)])
        end
    end.

  Definition hash_file (pl : plan) (bufsize : nat) (content : list N) : option digest * option err * trace :=
    match pl SrcOpen 0 with
    | Some e => (None, Some e, [(SrcOpen, 0)])
    | None =>
        match hash_loop pl 0 (chunk bufsize content) h_init [(SrcOpen, 0)] with
        | (Some e, _, tr) => (None, Some e, tr ++ [(SrcClose, 0)])
        | (None, hs, tr) => (Some (h_sum hs), None, tr ++ [(SrcClose, 0)])
        end
    end.
End Copy.

(* A plan given as a finite list of faults (what the harness enumerates). *)
Fixpoint plan_of (fs : list (prim * nat * err)) : plan :=
  fun p i =>
    match fs with
    | [] => None
    | (p', i', e) :: fs' => if prim_eqb p p' && Nat.eqb i i' then Some e else plan_of fs' p i
    end.

(* Instance used by the correspondence check: the "hasher" records everything
   written to it; the driver digests that transcript with the same function the
   Go side uses. *)
Definition copy_transcript (fs : list (prim * nat * err)) (hashing : bool) (bufsize : nat)
           (content : list N) (smode : N) (dst0 : option (list N * N)) (cperm : N) :=
  copy_file_hash (@nil N) (fun s c => s ++ c) (fun s => s) (plan_of fs) hashing bufsize content smode dst0 cperm.

Definition hash_transcript (fs : list (prim * nat * err)) (bufsize : nat) (content : list N) :=
  hash_file (@nil N) (fun s c => s ++ c) (fun s => s) (plan_of fs) bufsize content.
