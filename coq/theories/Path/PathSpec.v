(* Component-level specification of the lexical path functions for the POSIX
   flavour ("Lexical File Names in Plan 9", the rules path/filepath documents),
   with the laws other layers rely on.  [clean_spec] is validated against the
   host's path/filepath and against the loop-level model (PathModel.clean) by
   the correspondence run and, inside Coq, on every string up to a bound
   (PathBridge.v). *)
From Avfs Require Import Base PathModel.
Set Implicit Arguments.

(* split on '/' : "a//b" -> ["a"; ""; "b"], "" -> [""] *)
Fixpoint comps_acc (cur : str) (p : str) : list str :=
  match p with
  | [] => [rev cur]
  | c :: p' => if N.eqb c SLASH then rev cur :: comps_acc [] p' else comps_acc (c :: cur) p'
  end.
Definition comps (p : str) : list str := comps_acc [] p.

Definition is_dot (c : str) : bool := str_eqb c [DOT].
Definition is_dotdot (c : str) : bool := str_eqb c [DOT; DOT].

(* Pike's rules on a stack of kept components (top = last kept).  Rooted: ".."
   at the root is dropped.  Not rooted: a ".." that cannot cancel a name is kept. *)
Fixpoint norm (rooted : bool) (stack : list str) (cs : list str) : list str :=
  match cs with
  | [] => rev stack
  | c :: cs' =>
      if match c with [] => true | _ => false end || is_dot c then norm rooted stack cs'
      else if is_dotdot c then
        match stack with
        | [] => if rooted then norm rooted [] cs' else norm rooted [c] cs'
        | top :: stack' =>
            if is_dotdot top then (* only possible when not rooted *) norm rooted (c :: stack) cs'
            else norm rooted stack' cs'
        end
      else norm rooted (c :: stack) cs'
  end.

Definition render (rooted : bool) (cs : list str) : str :=
  if rooted then SLASH :: intercalate [SLASH] cs
  else match cs with [] => [DOT] | _ => intercalate [SLASH] cs end.

Definition clean_spec (p : str) : str :=
  match p with
  | [] => [DOT]
  | c0 :: _ =>
      let rooted := N.eqb c0 SLASH in
      render rooted (norm rooted [] (comps p))
  end.

(* Join: empty elements are ignored, the rest joined by '/' and cleaned *)
Definition join_spec (elems : list str) : str :=
  match filter (fun e => negb (match e with [] => true | _ => false end)) elems with
  | [] => []
  | l => clean_spec (intercalate [SLASH] l)
  end.

Definition is_abs_spec (p : str) : bool := match p with c :: _ => N.eqb c SLASH | [] => false end.

Definition abs_spec (cur p : str) : str :=
  if is_abs_spec p then clean_spec p else join_spec [cur; p].
