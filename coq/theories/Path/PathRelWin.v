(* The element loop of Rel for BOTH OS types, on arbitrary strings, and the exact
   set of inputs on which the Windows Rel does not terminate.

   Go's loop is "for { ... }" without condition; the model gives it the fuel
   S (S (len base + len targ)) and the outcome RelLoop.  [rel_s] is the loop on the
   two remaining suffixes; [meet] says when it never stops: the two strings agree
   element by element (sameWord: EqualFold on Windows) until BOTH are exhausted, an
   exhausted string counting as empty elements.  [rel_loop_none_iff]: the fuel of
   the model runs out exactly then.  For the POSIX flavour this never happens
   (PathRelProofs.rel_never_loops); for Windows it happens exactly on the inputs
   of [rel_windows_loop_iff] - known finding C13-rel-unc-root-loop, shared with
   Go's own filepath.Rel. *)
From Avfs Require Import Base PathModel PathSpec PathProofs PathCleanProofs PathWinProofs.
Set Implicit Arguments.

Section RelGen.
  Variable os : ostype.
  Notation fO := (N.eqb (sepc os)).
  Notation sw := (same_word os).

  Definition nxtO (s : str) : str := tl (dw fO s).

  Fixpoint rel_sO (fuel : nat) (sb st : str) : option (str * str) :=
    match fuel with
    | O => None
    | S f => if negb (sw (tw fO st) (tw fO sb)) then Some (sb, st) else rel_sO f (nxtO sb) (nxtO st)
    end.

  Lemma advO (pre s : str) :
    let i1 := length pre + length (tw fO s) in
    let pre' := pre ++ tw fO s ++ firstn 1 (dw fO s) in
    pre ++ s = pre' ++ nxtO s /\ (if Nat.ltb i1 (length (pre ++ s)) then S i1 else i1) = length pre'.
  Proof.
    cbv zeta. unfold nxtO. assert (Hs : s = tw fO s ++ dw fO s) by (symmetry; apply tw_dw).
    destruct (dw fO s) as [|c r].
    - cbn [firstn tl]. rewrite !app_nil_r in *. rewrite <- Hs. split; [reflexivity|].
      rewrite app_length, Nat.ltb_irrefl. reflexivity.
    - cbn [firstn tl]. split; [rewrite Hs at 1; rewrite <- !app_assoc; reflexivity|].
      rewrite Hs at 2. rewrite !app_length. cbn [length].
      replace (Nat.ltb _ _) with true by (symmetry; apply Nat.ltb_lt; lia). lia.
  Qed.

  Lemma rel_loop_sO : forall fuel pb sb pt st,
    match rel_sO fuel sb st with
    | None => rel_loop os (pb ++ sb) (pt ++ st) fuel (length pb) (length pb) (length pt) (length pt) = None
    | Some (sb', st') =>
        exists pb' pt', pb ++ sb = pb' ++ sb' /\ pt ++ st = pt' ++ st' /\
          rel_loop os (pb ++ sb) (pt ++ st) fuel (length pb) (length pb) (length pt) (length pt)
          = Some (length pb', length pb' + length (tw fO sb'), length pt', length pt' + length (tw fO st'))
    end.
  Proof.
    induction fuel as [|f IH]; intros pb sb pt st; [reflexivity|].
    cbn [rel_sO rel_loop].
    rewrite !index_from_tw.
    replace (length pb + length (tw fO sb) - length pb) with (length (tw fO sb)) by lia.
    replace (length pt + length (tw fO st) - length pt) with (length (tw fO st)) by lia.
    rewrite !skipn_app_at, !firstn_tw.
    destruct (negb (sw (tw fO st) (tw fO sb))).
    - exists pb, pt. auto.
    - destruct (advO pb sb) as (Eb & Lb). destruct (advO pt st) as (Et & Lt).
      rewrite Lb, Lt, Eb, Et. specialize (IH (pb ++ tw fO sb ++ firstn 1 (dw fO sb)) (nxtO sb)
                                              (pt ++ tw fO st ++ firstn 1 (dw fO st)) (nxtO st)).
      exact IH.
  Qed.

  (* the two strings agree element by element until both are exhausted *)
  Inductive meet : str -> str -> Prop :=
  | meet_nil : meet [] []
  | meet_step sb st : (sb <> [] \/ st <> []) -> sw (tw fO st) (tw fO sb) = true ->
                      meet (nxtO sb) (nxtO st) -> meet sb st.

  Lemma sw_nil : sw [] [] = true.
  Proof. destruct os; reflexivity. Qed.

  Lemma rel_s_nil : forall fuel, rel_sO fuel [] [] = None.
  Proof. induction fuel as [|f IH]; [reflexivity|]. cbn [rel_sO tw]. rewrite sw_nil. cbn [negb]. exact IH. Qed.

  Lemma dw_length (f : N -> bool) (s : str) : length (dw f s) <= length s.
  Proof. induction s as [|c s IH]; cbn [dw length]; [lia|]. destruct (f c); cbn [length]; lia. Qed.

  Lemma nxt_length (s : str) : s <> [] -> length (nxtO s) < length s.
  Proof.
    intros Hs. unfold nxtO. pose proof (dw_length fO s) as H. destruct (dw fO s) as [|c r] eqn:E.
    - cbn [tl length]. destruct s; [congruence|cbn [length]; lia].
    - cbn [tl length] in *. lia.
  Qed.

  Lemma nxt_nil : nxtO [] = [].
  Proof. reflexivity. Qed.

  (* the loop on suffixes never stops exactly when the strings meet *)
  Lemma rel_s_none_iff : forall fuel sb st,
    length sb + length st < fuel -> (rel_sO fuel sb st = None <-> meet sb st).
  Proof.
    induction fuel as [|f IH]; intros sb st Hf; [lia|].
    assert (Hcase : (sb = [] /\ st = []) \/ (sb <> [] \/ st <> [])).
    { destruct sb; [destruct st; [left; auto|right; right; discriminate]|right; left; discriminate]. }
    destruct Hcase as [(-> & ->)|Hne].
    - split; [intros _; constructor|intros _; apply rel_s_nil].
    - cbn [rel_sO].
      assert (Hdec : length (nxtO sb) + length (nxtO st) < f).
      { destruct sb as [|x sb']; destruct st as [|y st'].
        - destruct Hne; congruence.
        - rewrite nxt_nil. pose proof (@nxt_length (y :: st') ltac:(discriminate)). cbn [length] in *. lia.
        - rewrite nxt_nil. pose proof (@nxt_length (x :: sb') ltac:(discriminate)). cbn [length] in *. lia.
        - pose proof (@nxt_length (x :: sb') ltac:(discriminate)). pose proof (@nxt_length (y :: st') ltac:(discriminate)).
          cbn [length] in *. lia. }
      destruct (sw (tw fO st) (tw fO sb)) eqn:E; cbn [negb].
      + rewrite (IH _ _ Hdec). split.
        * intros H. apply meet_step; assumption.
        * intros H. inversion H as [|? ? _ _ Hm]; subst; [destruct Hne; congruence|exact Hm].
      + split; [discriminate|]. intros H. inversion H as [|? ? _ Hw _]; subst; [destruct Hne; congruence|congruence].
  Qed.

  (* the fuel of the model runs out exactly when the two strings meet *)
  Theorem rel_loop_none_iff base targ :
    rel_loop os base targ (S (S (length base + length targ))) 0 0 0 0 = None <-> meet base targ.
  Proof.
    pose proof (rel_loop_sO (S (S (length base + length targ))) [] base [] targ) as H. cbn [app length] in H.
    rewrite <- (@rel_s_none_iff (S (S (length base + length targ))) base targ) by lia.
    destruct (rel_sO (S (S (length base + length targ))) base targ) as [[sb st]|].
    - destruct H as (pb & pt & _ & _ & H). rewrite H. split; discriminate.
    - rewrite H. split; reflexivity.
  Qed.
End RelGen.

(* ---- the Windows Rel --------------------------------------------------------------- *)
Notation W := Windows.

Definition rel_base1_w (b : str) : str := skipn (length (volume_name W b)) (clean W b).

Definition rel_base_w (b : str) : str :=
  if str_eqb (rel_base1_w b) [DOT] then []
  else match rel_base1_w b with
       | [] => if Nat.ltb 2 (volume_name_len W (volume_name W b)) then [BSLASH] else []
       | _ => rel_base1_w b
       end.

Definition rel_targ_w (t : str) : str := skipn (length (volume_name W t)) (clean W t).

Definition slashed_w (s : str) : bool := match s with c :: _ => N.eqb c BSLASH | [] => false end.

Theorem rel_windows_loop_iff b t :
  rel W b t = RelLoop <->
  same_word W (clean W t) (clean W b) = false
  /\ slashed_w (rel_base_w b) = slashed_w (rel_targ_w t)
  /\ same_word W (volume_name W b) (volume_name W t) = true
  /\ meet W (rel_base_w b) (rel_targ_w t).
Proof.
  unfold rel. cbv zeta. change (sepc W) with BSLASH. fold (rel_base1_w b). fold (rel_targ_w t).
  change (if str_eqb (rel_base1_w b) [DOT] then []
          else match rel_base1_w b with
               | [] => if Nat.ltb 2 (volume_name_len W (volume_name W b)) then [BSLASH] else []
               | _ => rel_base1_w b
               end) with (rel_base_w b).
  destruct (same_word W (clean W t) (clean W b)).
  { split; [discriminate|]. intros (H & _). discriminate. }
  fold (slashed_w (rel_base_w b)). fold (slashed_w (rel_targ_w t)).
  destruct (Bool.eqb (slashed_w (rel_base_w b)) (slashed_w (rel_targ_w t))) eqn:Es; cbn [negb orb].
  2:{ split; [discriminate|]. intros (_ & H & _). apply Bool.eqb_false_iff in Es. contradiction. }
  apply Bool.eqb_prop in Es.
  destruct (same_word W (volume_name W b) (volume_name W t)) eqn:Ev; cbn [negb].
  2:{ split; [discriminate|]. intros (_ & _ & H & _). discriminate. }
  rewrite <- (rel_loop_none_iff W (rel_base_w b) (rel_targ_w t)).
  destruct (rel_loop W (rel_base_w b) (rel_targ_w t) (S (S (length (rel_base_w b) + length (rel_targ_w t)))) 0 0 0 0)
    as [[[[b0 bi] t0] ti]|].
  - split; [|intros (_ & _ & _ & H); discriminate].
    destruct (str_eqb _ [DOT; DOT]); [discriminate|]. destruct (negb (Nat.eqb b0 _)); discriminate.
  - split; [intros _; auto|reflexivity].
Qed.

(* the finding on the model: a bare UNC volume against the same volume plus its root *)
Example rel_windows_loop_example :
  rel W [92;92;97;92;98]%N [92;92;97;92;98;92]%N = RelLoop
  /\ meet W (rel_base_w [92;92;97;92;98]%N) (rel_targ_w [92;92;97;92;98;92]%N)
  /\ rel W [67;58;92;97;92;98]%N [67;58;92;65;92;99]%N = RelOk [46;46;92;99]%N.   (* Rel(C:\a\b, C:\A\c) = ..\c *)
Proof.
  split; [vm_compute; reflexivity|]. split; [|vm_compute; reflexivity].
  apply rel_windows_loop_iff. vm_compute. reflexivity.
Qed.
