(* Executable model of Match / scanChunk / matchChunk / getEsc
   (vfs_ostype_on.go:448-759) including Go's UTF-8 decoding of the first rune. *)
From Avfs Require Import Base PathModel.
Set Implicit Arguments.

Definition RUNE_ERROR : N := 65533.

Definition inr (lo hi c : N) : bool := N.leb lo c && N.leb c hi.

(* utf8.DecodeRuneInString: (rune, size); ("", -> (RuneError, 0)) *)
Definition decode_rune (s : str) : N * nat :=
  match s with
  | [] => (RUNE_ERROR, 0)
  | b0 :: r =>
      if N.ltb b0 128 then (b0, 1)
      else if inr 194 223 b0 then
        match r with
        | b1 :: _ => if inr 128 191 b1 then (((b0 - 192) * 64 + (b1 - 128))%N, 2) else (RUNE_ERROR, 1)
        | _ => (RUNE_ERROR, 1)
        end
      else if inr 224 239 b0 then
        let lo := if N.eqb b0 224 then 160%N else 128%N in
        let hi := if N.eqb b0 237 then 159%N else 191%N in
        match r with
        | b1 :: b2 :: _ =>
            if inr lo hi b1 && inr 128 191 b2
            then (((b0 - 224) * 4096 + (b1 - 128) * 64 + (b2 - 128))%N, 3) else (RUNE_ERROR, 1)
        | _ => (RUNE_ERROR, 1)
        end
      else if inr 240 244 b0 then
        let lo := if N.eqb b0 240 then 144%N else 128%N in
        let hi := if N.eqb b0 244 then 143%N else 191%N in
        match r with
        | b1 :: b2 :: b3 :: _ =>
            if inr lo hi b1 && inr 128 191 b2 && inr 128 191 b3
            then (((b0 - 240) * 262144 + (b1 - 128) * 4096 + (b2 - 128) * 64 + (b3 - 128))%N, 4)
            else (RUNE_ERROR, 1)
        | _ => (RUNE_ERROR, 1)
        end
      else (RUNE_ERROR, 1)
  end.

(* scanChunk: (star, chunk, rest) *)
Fixpoint strip_stars (p : str) : bool * str :=
  match p with
  | c :: p' => if N.eqb c STAR then (true, snd (strip_stars p')) else (false, p)
  | [] => (false, [])
  end.

(* returns the length i of the chunk *)
Fixpoint scan_len (os : ostype) (p : str) (inrange : bool) (i : nat) : nat :=
  match p with
  | [] => i
  | c :: p' =>
      if N.eqb c BSLASH then
        match os with
        | Windows => scan_len os p' inrange (S i)
        | Linux =>
            match p' with
            | [] => S i                      (* i+1 < len fails: i++ by the loop only *)
            | _ :: p'' => scan_len os p'' inrange (S (S i))
            end
        end
      else if N.eqb c LBRACK then scan_len os p' true (S i)
      else if N.eqb c RBRACK then scan_len os p' false (S i)
      else if N.eqb c STAR then (if inrange then scan_len os p' inrange (S i) else i)
      else scan_len os p' inrange (S i)
  end.

Definition scan_chunk (os : ostype) (pattern : str) : bool * str * str :=
  let star := match pattern with c :: _ => N.eqb c STAR | [] => false end in
  let p := snd (strip_stars pattern) in
  let i := scan_len os p false 0 in
  (star, firstn i p, skipn i p).

(* getEsc: Some (rune, nchunk) or None = ErrBadPattern *)
Definition get_esc (os : ostype) (chunk : str) : option (N * str) :=
  match chunk with
  | [] => None
  | c :: rest =>
      if N.eqb c MINUS || N.eqb c RBRACK then None
      else
        let chunk1 := if N.eqb c BSLASH && negb (ostype_eqb os Windows) then rest else chunk in
        match chunk1 with
        | [] => None
        | _ =>
            let '(r, n) := decode_rune chunk1 in
            if N.eqb r RUNE_ERROR && Nat.eqb n 1 then None
            else match skipn n chunk1 with
                 | [] => None
                 | nchunk => Some (r, nchunk)
                 end
        end
  end.

Inductive mres (A : Type) := MVal (a : A) | MBad.
Arguments MBad {A}.

(* the range loop of a character class: returns (match, rest of chunk) *)
Fixpoint class_loop (os : ostype) (fuel : nat) (chunk : str) (r : N) (nrange : nat) (matched : bool)
  : mres (bool * str) :=
  match fuel with
  | O => MBad
  | S f =>
      match chunk with
      | c :: chunk' =>
          if N.eqb c RBRACK && Nat.ltb 0 nrange then MVal (matched, chunk')
          else class_range os f chunk r nrange matched
      | [] => class_range os f chunk r nrange matched
      end
  end
with class_range (os : ostype) (fuel : nat) (chunk : str) (r : N) (nrange : nat) (matched : bool)
  : mres (bool * str) :=
  match fuel with
  | O => MBad
  | S f =>
      match get_esc os chunk with
      | None => MBad
      | Some (lo, chunk1) =>
          match chunk1 with
          | c :: chunk2 =>
              if N.eqb c MINUS then
                match get_esc os chunk2 with
                | None => MBad
                | Some (hi, chunk3) =>
                    class_loop os f chunk3 r (S nrange) (matched || (N.leb lo r && N.leb r hi))
                end
              else class_loop os f chunk1 r (S nrange) (matched || (N.leb lo r && N.leb r lo))
          | [] => MBad (* unreachable: get_esc never returns an empty rest *)
          end
      end
  end.

(* matchChunk: MVal (Some rest) = ok, MVal None = no match, MBad = ErrBadPattern *)
Fixpoint match_chunk (os : ostype) (fuel : nat) (chunk s : str) (failed : bool) : mres (option str) :=
  match fuel with
  | O => MBad
  | S f =>
      match chunk with
      | [] => if failed then MVal None else MVal (Some s)
      | c :: chunk' =>
          let failed := failed || match s with [] => true | _ => false end in
          if N.eqb c LBRACK then
            let '(r, s1) := if failed then (0%N, s) else let '(r, n) := decode_rune s in (r, skipn n s) in
            let '(negated, chunk1) := match chunk' with
                                      | c1 :: chunk'' => if N.eqb c1 CARET then (true, chunk'') else (false, chunk')
                                      | [] => (false, chunk')
                                      end in
            match class_loop os (S (S (2 * length chunk1))) chunk1 r 0 false with
            | MBad => MBad
            | MVal (m, chunk2) => match_chunk os f chunk2 s1 (failed || Bool.eqb m negated)
            end
          else if N.eqb c QMARK then
            if failed then match_chunk os f chunk' s failed
            else
              let failed' := match s with c0 :: _ => N.eqb c0 (sepc os) | [] => false end in
              let '(_, n) := decode_rune s in
              match_chunk os f chunk' (skipn n s) failed'
          else
            (* '\\' on non-Windows: skip the backslash, bad pattern when nothing follows; then literal *)
            let lit := if N.eqb c BSLASH && negb (ostype_eqb os Windows) then chunk' else chunk in
            match lit with
            | [] => MBad
            | l0 :: lit' =>
                if failed then match_chunk os f lit' s failed
                else match s with
                     | c0 :: s' => match_chunk os f lit' s' (negb (N.eqb l0 c0))
                     | [] => match_chunk os f lit' s true
                     end
            end
      end
  end.

Definition match_chunk_top (os : ostype) (chunk s : str) : mres (option str) :=
  match_chunk os (S (length chunk)) chunk s false.

Definition contains_byte (c : N) (s : str) : bool := existsb (N.eqb c) s.

(* the star loop: for i := 0; i < len(name) && name[i] != sep; i++ { try name[i+1:] } *)
Fixpoint star_loop (os : ostype) (chunk : str) (pattern_empty : bool) (name : str) : mres (option str) :=
  match name with
  | [] => MVal None
  | c :: name' =>
      if N.eqb c (sepc os) then MVal None
      else match match_chunk_top os chunk name' with
           | MBad => MBad
           | MVal (Some t) =>
               if pattern_empty && negb (match t with [] => true | _ => false end)
               then star_loop os chunk pattern_empty name'
               else MVal (Some t)
           | MVal None => star_loop os chunk pattern_empty name'
           end
  end.

(* Go >= 1.16 checks the rest of the pattern for well-formedness before
   answering "no match"; [check_rest] = true models that (path/filepath and
   avfs after the fix), false the code as found. *)
Fixpoint rest_ok (os : ostype) (fuel : nat) (pattern : str) : bool :=
  match fuel with
  | O => true
  | S f =>
      match pattern with
      | [] => true
      | _ =>
          let '(_, chunk, rest) := scan_chunk os pattern in
          match match_chunk_top os chunk [] with
          | MBad => false
          | MVal _ => rest_ok os f rest
          end
      end
  end.

Fixpoint match_loop (os : ostype) (check_rest : bool) (fuel : nat) (pattern name : str) : mres bool :=
  match fuel with
  | O => MBad
  | S f =>
      match pattern with
      | [] => MVal (match name with [] => true | _ => false end)
      | _ =>
          let '(star, chunk, rest) := scan_chunk os pattern in
          let rest_empty := match rest with [] => true | _ => false end in
          if star && match chunk with [] => true | _ => false end
          then MVal (negb (contains_byte (sepc os) name))
          else
            let no_match := if check_rest && negb (rest_ok os (S (length rest)) rest) then MBad else MVal false in
            match match_chunk_top os chunk name with
            | MVal (Some t) =>
                if match t with [] => true | _ => false end || negb rest_empty
                then match_loop os check_rest f rest t
                else (* ok but not usable: err == nil here *)
                  if star then
                    match star_loop os chunk rest_empty name with
                    | MBad => MBad
                    | MVal (Some t') => match_loop os check_rest f rest t'
                    | MVal None => no_match
                    end
                  else no_match
            | MBad => MBad
            | MVal None =>
                if star then
                  match star_loop os chunk rest_empty name with
                  | MBad => MBad
                  | MVal (Some t') => match_loop os check_rest f rest t'
                  | MVal None => no_match
                  end
                else no_match
            end
      end
  end.

Definition path_match (os : ostype) (check_rest : bool) (pattern name : str) : mres bool :=
  match_loop os check_rest (S (length pattern)) pattern name.
