(* Unbounded facts about the path model (property C13). *)
From Avfs Require Import Base PathModel PathSpec.
Set Implicit Arguments.

(* ---- list facts missing from the 8.16 standard library ---------------- *)
Lemma last_nth_own (l : list N) d : l <> [] -> last l d = nth (length l - 1) l d.
Proof.
  induction l as [|x l IH]; [congruence|]. intros _.
  destruct l as [|y l']; [reflexivity|].
  change (last (x :: y :: l') d) with (last (y :: l') d).
  rewrite IH by discriminate. cbn [length]. replace (S (S (length l')) - 1) with (S (length l')) by lia.
  cbn [nth]. replace (S (length l') - 1) with (length l') by lia. reflexivity.
Qed.

Lemma nth_firstn_lt_own (l : list N) n k d : k < n -> nth k (firstn n l) d = nth k l d.
Proof.
  revert n k; induction l as [|x l IH]; intros n k Hk.
  - rewrite firstn_nil. reflexivity.
  - destruct n; [lia|]. destruct k; cbn [firstn nth]; auto. apply IH. lia.
Qed.

Lemma skipn_skipn_own (l : list N) a b : skipn a (skipn b l) = skipn (b + a) l.
Proof.
  revert l; induction b as [|b IH]; intros l; cbn [skipn plus]; auto.
  destruct l as [|x l]; [now rewrite skipn_nil|]. apply IH.
Qed.

(* ---- Split ----------------------------------------------------------- *)
Lemma split_app os p : fst (split os p) ++ snd (split os p) = p.
Proof. unfold split. cbn [fst snd]. apply firstn_skipn. Qed.

(* everything at or after the cut is not a separator *)
Lemma last_sep_cut_spec os p lo : forall i1,
  i1 <= length p ->
  let cut := last_sep_cut os p lo i1 in
  cut <= i1 /\ (forall k, cut <= k < i1 -> is_sep os (nthb p k) = false)
  /\ (cut = 0 \/ cut <= lo \/ is_sep os (nthb p (cut - 1)) = true).
Proof.
  induction i1 as [|i IH]; intros Hl; cbn [last_sep_cut].
  - repeat split; auto. intros k Hk. lia.
  - destruct (Nat.leb lo i) eqn:Hlo; cbn [andb].
    + destruct (is_sep os (nthb p i)) eqn:Hs; cbn [negb].
      * repeat split; auto. intros k Hk; lia. right; right.
        replace (S i - 1) with i by lia. exact Hs.
      * assert (Hl' : i <= length p) by lia. specialize (IH Hl'). cbn zeta in IH.
        destruct IH as (Hc & Hall & Hend). repeat split; auto.
        intros k Hk. destruct (Nat.eq_dec k i) as [->|Hne]; auto. apply Hall. lia.
    + repeat split; auto. intros k Hk; lia. apply Nat.leb_gt in Hlo. right; left. lia.
Qed.

Lemma nthb_skipn p n k : nthb (skipn n p) k = nthb p (n + k).
Proof.
  unfold nthb. revert p; induction n as [|n IH]; intros p; cbn [skipn]; auto.
  destruct p as [|c p]; cbn [nth plus].
  - destruct k; reflexivity.
  - apply IH.
Qed.

(* the file half returned by Split holds no separator *)
Theorem split_file_no_sep os p c :
  In c (snd (split os p)) -> is_sep os c = false.
Proof.
  unfold split. cbn [snd]. set (vl := length (volume_name os p)).
  intros Hin. apply (In_nth _ _ 0%N) in Hin as (k & Hk & <-).
  destruct (@last_sep_cut_spec os p vl (length p) (le_n _)) as (Hc & Hall & _).
  fold (nthb (skipn (last_sep_cut os p vl (length p)) p) k). rewrite nthb_skipn.
  rewrite skipn_length in Hk. apply Hall. lia.
Qed.

(* the directory half is empty, a volume prefix, or ends with a separator *)
Theorem split_dir_shape os p :
  let d := fst (split os p) in
  d = [] \/ length d <= length (volume_name os p) \/ is_sep os (last d 0%N) = true.
Proof.
  unfold split. cbn [fst]. set (vl := length (volume_name os p)).
  destruct (@last_sep_cut_spec os p vl (length p) (le_n _)) as (Hc & _ & Hend).
  set (cut := last_sep_cut os p vl (length p)) in *.
  destruct Hend as [H0|[Hlo|Hs]].
  - left. rewrite H0. reflexivity.
  - right; left. rewrite firstn_length. lia.
  - destruct (Nat.eq_dec cut 0) as [H0|Hne]; [left; rewrite H0; reflexivity|].
    right; right.
    assert (Hlen : length (firstn cut p) = cut) by (rewrite firstn_length; lia).
    rewrite <- (firstn_skipn cut p) in Hs.
    unfold nthb in Hs. rewrite app_nth1 in Hs by lia.
    replace (cut - 1) with (length (firstn cut p) - 1) in Hs by lia.
    rewrite <- last_nth_own in Hs; [exact Hs|].
    intros Hnil. rewrite Hnil in Hlen. cbn in Hlen. lia.
Qed.

(* ---- POSIX flavour: IsAbs, slashes, volume ---------------------------- *)
Theorem is_abs_linux p : is_abs Linux p = true <-> exists r, p = SLASH :: r.
Proof.
  destruct p as [|c r]; cbn; split.
  - discriminate.
  - intros (r & H); discriminate.
  - intros H. apply N.eqb_eq in H. subst. eauto.
  - intros (r' & H). inversion H; subst. reflexivity.
Qed.

Theorem slash_identity_linux p : from_slash Linux p = p /\ to_slash Linux p = p.
Proof. split; reflexivity. Qed.

Theorem volume_linux p : volume_name Linux p = [] /\ volume_name_len Linux p = 0.
Proof. split; reflexivity. Qed.

Theorem abs_linux_def cur p :
  abs Linux cur p = if is_abs Linux p then clean Linux p else join Linux [cur; p].
Proof. reflexivity. Qed.

(* ---- PathIterator: Left + Part + Right reassembles the path ----------- *)
Definition pi_wf (p : piter) : Prop := pi_start p <= pi_end p <= length (pi_path p).

Theorem pi_reassemble p : pi_wf p -> pi_left p ++ pi_part p ++ pi_right p = pi_path p.
Proof.
  unfold pi_wf, pi_left, pi_part, pi_right. intros [H1 H2].
  set (s := pi_start p) in *. set (e := pi_end p) in *. set (l := pi_path p) in *.
  rewrite <- (firstn_skipn s l) at 4. f_equal.
  rewrite <- (firstn_skipn (e - s) (skipn s l)) at 2. f_equal.
  rewrite skipn_skipn_own. f_equal. lia.
Qed.

Lemma find_from_bounds f s i : i <= find_from f s i <= i + length s.
Proof.
  revert i; induction s as [|c s IH]; intros i; cbn [find_from length]; [lia|].
  destruct (f c); [lia|]. specialize (IH (S i)). lia.
Qed.

Lemma index_from_bounds f s i : i <= length s -> i <= index_from f s i <= length s.
Proof.
  intros Hi. unfold index_from. pose proof (find_from_bounds f (skipn i s) i) as H.
  rewrite skipn_length in H. lia.
Qed.

(* whenever Next reports a part, the cursor is well formed and the part is
   non-empty or delimited; the path itself never changes *)
Theorem pi_next_wf os p p' :
  pi_end p <= length (pi_path p) -> pi_next os p = (true, p') ->
  pi_wf p' /\ pi_path p' = pi_path p /\ pi_start p' = S (pi_end p).
Proof.
  unfold pi_next, pi_wf. intros He.
  destruct (Nat.leb (length (pi_path p)) (S (pi_end p))) eqn:Hl; [discriminate|].
  apply Nat.leb_gt in Hl. intros [= <-]. cbn [pi_start pi_end pi_path].
  assert (Hi : S (pi_end p) <= length (pi_path p)) by lia.
  pose proof (@index_from_bounds (N.eqb (sepc os)) (pi_path p) (S (pi_end p)) Hi) as H.
  repeat split; lia.
Qed.

(* the part contains no separator (strings.IndexByte stops at the first one) *)
Lemma find_from_none f s i k :
  i <= k < find_from f s i -> f (nth (k - i) s 0%N) = false.
Proof.
  revert i k; induction s as [|c s IH]; intros i k; cbn [find_from]; [lia|].
  destruct (f c) eqn:Hc; [lia|]. intros Hk.
  destruct (Nat.eq_dec k i) as [->|Hne].
  - rewrite Nat.sub_diag. exact Hc.
  - replace (k - i) with (S (k - S i)) by lia. cbn [nth]. apply IH. lia.
Qed.

Theorem pi_part_no_sep os p p' c :
  pi_end p <= length (pi_path p) -> pi_next os p = (true, p') ->
  In c (pi_part p') -> N.eqb (sepc os) c = false.
Proof.
  intros He Hn Hin. unfold pi_next in Hn.
  destruct (Nat.leb (length (pi_path p)) (S (pi_end p))) eqn:Hl; [discriminate|].
  injection Hn as <-. unfold pi_part in Hin. cbn [pi_start pi_end pi_path] in Hin.
  set (s := S (pi_end p)) in *. set (l := pi_path p) in *.
  apply (In_nth _ _ 0%N) in Hin as (k & Hk & <-).
  rewrite firstn_length in Hk.
  rewrite nth_firstn_lt_own by lia.
  unfold index_from. fold s.
  pose proof (@find_from_none (N.eqb (sepc os)) (skipn s l) s (s + k)) as H.
  replace (s + k - s) with k in H by lia. apply H. unfold index_from in Hk. lia.
Qed.
