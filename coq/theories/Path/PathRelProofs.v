(* Rel of the POSIX flavour, for ALL byte strings (no bound, no axiom).

   Layers:
   1. [rel_linux_unfold]: the model of Rel with the volume code evaluated away.
   2. [rel_loop_s]: the element loop (four integer cursors, fuel) restated on
      the two remaining suffixes ([rel_s]).
   3. [rel_s_words]: on word lists (the components of the two cleaned paths)
      the loop strips the longest common prefix ([strip_common]); it ends
      because the two cleaned paths differ - the fuel of the model is never
      exhausted ([rel_never_loops]: the model-only outcome RelLoop is
      unreachable).
   4. [rel_spec_correct]: Rel = [rel_spec], a function of the component lists
      of Clean(base) and Clean(targ); from it [rel_sound]
      (Join(base, Rel(base,targ)) = Clean(targ)), [rel_error_iff], [rel_same]. *)
From Avfs Require Import Base PathModel PathSpec PathProofs PathCleanProofs PathIterProofs PathDirBaseProofs.
Set Implicit Arguments.

(* ---- 1. Rel without the volume code ----------------------------------------- *)
Definition rel_base (b : str) : str := if str_eqb (clean Linux b) [DOT] then [] else clean Linux b.

Definition slashed (s : str) : bool := match s with c :: _ => N.eqb c SLASH | [] => false end.

Definition rel_finish (base targ : str) (res : option (nat * nat * nat * nat)) : rel_res :=
  match res with
  | None => RelLoop
  | Some (b0, bi, t0, ti) =>
      if str_eqb (firstn (bi - b0) (skipn b0 base)) [DOT; DOT] then RelErr
      else if negb (Nat.eqb b0 (length base)) then
        RelOk ([DOT; DOT] ++ dotdots SLASH (count_byte SLASH (skipn b0 base))
                 ++ (if negb (Nat.eqb t0 (length targ)) then SLASH :: skipn t0 targ else []))
      else RelOk (skipn t0 targ)
  end.

Lemma rel_linux_unfold b t :
  rel Linux b t =
  if str_eqb (clean Linux t) (clean Linux b) then RelOk [DOT]
  else if negb (Bool.eqb (slashed (rel_base b)) (slashed (clean Linux t))) then RelErr
  else rel_finish (rel_base b) (clean Linux t)
         (rel_loop Linux (rel_base b) (clean Linux t)
            (S (S (length (rel_base b) + length (clean Linux t)))) 0 0 0 0).
Proof.
  unfold rel. change (volume_name Linux b) with (@nil N). change (volume_name Linux t) with (@nil N).
  cbn [length skipn same_word]. change (sepc Linux) with SLASH.
  change (volume_name_len Linux []) with 0. change (Nat.ltb 2 0) with false. cbv iota.
  assert (E : (if str_eqb (clean Linux b) [DOT] then []
               else match clean Linux b with [] => [] | _ :: _ => clean Linux b end) = rel_base b).
  { unfold rel_base. destruct (clean Linux b); reflexivity. }
  rewrite E. change (str_eqb [] []) with true. cbn [negb]. rewrite orb_false_r.
  destruct (str_eqb (clean Linux t) (clean Linux b)); [reflexivity|].
  fold (slashed (rel_base b)). fold (slashed (clean Linux t)).
  destruct (negb (Bool.eqb (slashed (rel_base b)) (slashed (clean Linux t)))); [reflexivity|].
  unfold rel_finish.
  destruct (rel_loop Linux (rel_base b) (clean Linux t) (S (S (length (rel_base b) + length (clean Linux t)))) 0 0 0 0)
    as [[[[b0 bi] t0] ti]|]; reflexivity.
Qed.

(* ---- 2. the loop on suffixes -------------------------------------------------- *)
Definition nxt (s : str) : str := tl (dw fS s).

Fixpoint rel_s (fuel : nat) (sb st : str) : option (str * str) :=
  match fuel with
  | O => None
  | S f => if negb (str_eqb (tw fS st) (tw fS sb)) then Some (sb, st) else rel_s f (nxt sb) (nxt st)
  end.

Lemma adv (pre s : str) :
  let i1 := length pre + length (tw fS s) in
  let pre' := pre ++ tw fS s ++ firstn 1 (dw fS s) in
  pre ++ s = pre' ++ nxt s /\ (if Nat.ltb i1 (length (pre ++ s)) then S i1 else i1) = length pre'.
Proof.
  cbv zeta. unfold nxt. assert (Hs : s = tw fS s ++ dw fS s) by (symmetry; apply tw_dw).
  destruct (dw fS s) as [|c r].
  - cbn [firstn tl]. rewrite !app_nil_r in *. rewrite <- Hs. split; [reflexivity|].
    rewrite app_length, Nat.ltb_irrefl. reflexivity.
  - cbn [firstn tl]. split; [rewrite Hs at 1; rewrite <- !app_assoc; reflexivity|].
    rewrite Hs at 2. rewrite !app_length. cbn [length].
    replace (Nat.ltb _ _) with true by (symmetry; apply Nat.ltb_lt; lia). lia.
Qed.

Lemma rel_loop_s : forall fuel pb sb pt st,
  match rel_s fuel sb st with
  | None => rel_loop Linux (pb ++ sb) (pt ++ st) fuel (length pb) (length pb) (length pt) (length pt) = None
  | Some (sb', st') =>
      exists pb' pt', pb ++ sb = pb' ++ sb' /\ pt ++ st = pt' ++ st' /\
        rel_loop Linux (pb ++ sb) (pt ++ st) fuel (length pb) (length pb) (length pt) (length pt)
        = Some (length pb', length pb' + length (tw fS sb'), length pt', length pt' + length (tw fS st'))
  end.
Proof.
  induction fuel as [|f IH]; intros pb sb pt st; [reflexivity|].
  cbn [rel_s rel_loop].
  rewrite !index_from_tw.
  replace (length pb + length (tw fS sb) - length pb) with (length (tw fS sb)) by lia.
  replace (length pt + length (tw fS st) - length pt) with (length (tw fS st)) by lia.
  rewrite !skipn_app_at, !firstn_tw. cbn [same_word].
  destruct (negb (str_eqb (tw fS st) (tw fS sb))).
  - exists pb, pt. auto.
  - destruct (adv pb sb) as (Eb & Lb). destruct (adv pt st) as (Et & Lt).
    rewrite Lb, Lt, Eb, Et. specialize (IH (pb ++ tw fS sb ++ firstn 1 (dw fS sb)) (nxt sb)
                                            (pt ++ tw fS st ++ firstn 1 (dw fS st)) (nxt st)).
    exact IH.
Qed.

Definition finish_s (res : option (str * str)) : rel_res :=
  match res with
  | None => RelLoop
  | Some (sb, st) =>
      if str_eqb (tw fS sb) [DOT; DOT] then RelErr
      else match sb with
           | [] => RelOk st
           | _ => RelOk ([DOT; DOT] ++ dotdots SLASH (count_byte SLASH sb)
                           ++ (match st with [] => [] | _ => SLASH :: st end))
           end
  end.

Lemma eqb_len_app (A : Type) (p s : list A) :
  Nat.eqb (length p) (length (p ++ s)) = match s with [] => true | _ => false end.
Proof.
  rewrite app_length. destruct s; cbn [length].
  - apply Nat.eqb_eq. lia.
  - apply Nat.eqb_neq. lia.
Qed.

Lemma rel_finish_s base targ fuel :
  rel_finish base targ (rel_loop Linux base targ fuel 0 0 0 0) = finish_s (rel_s fuel base targ).
Proof.
  pose proof (rel_loop_s fuel [] base [] targ) as H. cbn [app length] in H.
  destruct (rel_s fuel base targ) as [[sb st]|].
  - destruct H as (pb & pt & Eb & Et & H). rewrite H. unfold rel_finish, finish_s.
    replace (length pb + length (tw fS sb) - length pb) with (length (tw fS sb)) by lia.
    rewrite Eb, Et, !skipn_app_at, firstn_tw, !eqb_len_app.
    destruct (str_eqb (tw fS sb) [DOT; DOT]); [reflexivity|].
    destruct sb; [reflexivity|]. cbn [negb]. destruct st; reflexivity.
  - rewrite H. reflexivity.
Qed.

(* ---- 3. word lists -------------------------------------------------------------- *)
Definition word (w : str) : Prop := w <> [] /\ sepfree w.
Notation J := (intercalate [SLASH]).

Lemma fS_sepL c : fS c = sepL c.
Proof. rewrite sepL_eq. apply N.eqb_sym. Qed.

Lemma tw_fS s : tw fS s = tw sepL s.
Proof. induction s as [|c s IH]; [reflexivity|]. cbn [tw]. rewrite fS_sepL, IH. reflexivity. Qed.

Lemma dw_fS s : dw fS s = dw sepL s.
Proof. induction s as [|c s IH]; [reflexivity|]. cbn [dw]. rewrite fS_sepL, IH. reflexivity. Qed.

Lemma J_cons_step (w : str) (ws : list str) :
  sepfree w -> tw fS (J (w :: ws)) = w /\ nxt (J (w :: ws)) = J ws.
Proof.
  intros Hw. unfold nxt. rewrite tw_fS, dw_fS, intercalate_cons. destruct ws as [|w2 ws].
  - rewrite app_nil_r. destruct (@tw_dw_app sepL w [] Hw I) as [H1 H2]. rewrite app_nil_r in H1, H2.
    rewrite H1, H2. auto.
  - destruct (@tw_dw_app sepL w ([SLASH] ++ J (w2 :: ws)) Hw eq_refl) as [H1 H2]. rewrite H1, H2. auto.
Qed.

Fixpoint strip_common (bs ts : list str) : list str * list str :=
  match bs, ts with
  | b :: bs', t :: ts' => if str_eqb t b then strip_common bs' ts' else (bs, ts)
  | _, _ => (bs, ts)
  end.

Lemma rel_s_words : forall (bs ts : list str) fuel,
  Forall word bs -> Forall word ts -> bs <> ts -> length bs < fuel ->
  rel_s fuel (J bs) (J ts) = Some (J (fst (strip_common bs ts)), J (snd (strip_common bs ts))).
Proof.
  induction bs as [|b bs IH]; intros ts fuel Hb Ht Hne Hf; (destruct fuel as [|f]; [lia|]); cbn [rel_s].
  - destruct ts as [|t ts]; [congruence|]. inversion Ht as [|? ? (Ht1 & Ht2) _]; subst.
    destruct (J_cons_step ts Ht2) as (E1 & _). rewrite E1. cbn [intercalate tw].
    destruct t; [congruence|]. reflexivity.
  - inversion Hb as [|? ? (Hb1 & Hb2) Hb']; subst. destruct (J_cons_step bs Hb2) as (E1 & E2). rewrite E1, E2.
    destruct ts as [|t ts].
    + cbn [intercalate tw]. destruct b; [congruence|]. reflexivity.
    + inversion Ht as [|? ? (Ht1 & Ht2) Ht']; subst. destruct (J_cons_step ts Ht2) as (E3 & E4). rewrite E3, E4.
      cbn [strip_common]. destruct (str_eqb t b) eqn:E; cbn [negb].
      * apply str_eqb_eq in E. subst t. apply IH; auto; [congruence|cbn [length] in Hf; lia].
      * reflexivity.
Qed.

Lemma J_length_ge (ws : list str) : Forall word ws -> length ws <= S (length (J ws)).
Proof.
  induction 1 as [|w ws (Hw & _) _ IH]; [cbn; lia|]. rewrite intercalate_cons, app_length.
  destruct w; [congruence|]. cbn [length]. destruct ws; [cbn [length]; lia|].
  rewrite app_length. cbn [length] in *. lia.
Qed.

(* rendering with a root *)
Lemma rel_s_rooted (bs ts : list str) fuel :
  Forall word bs -> Forall word ts -> bs <> ts -> S (length bs) < fuel ->
  rel_s fuel (SLASH :: J bs) (SLASH :: J ts)
  = Some (J (fst (strip_common bs ts)), J (snd (strip_common bs ts))).
Proof.
  intros Hb Ht Hne Hf. destruct fuel as [|f]; [lia|]. cbn [rel_s tw]. unfold nxt. cbn [dw].
  change (fS SLASH) with true. cbv iota. cbn [str_eqb negb tl]. apply rel_s_words; auto. lia.
Qed.

(* ---- the final string ------------------------------------------------------------ *)
Lemma J_nil_iff (ws : list str) : Forall word ws -> (J ws = [] <-> ws = []).
Proof.
  intros H. split; [|intros ->; reflexivity]. apply intercalate_nil_inv.
  eapply Forall_impl; [|exact H]. intros a (Ha & _). exact Ha.
Qed.

Lemma count_byte_app c a b : count_byte c (a ++ b) = count_byte c a + count_byte c b.
Proof. unfold count_byte. rewrite filter_app, app_length. reflexivity. Qed.

Lemma count_byte_word (w : str) : sepfree w -> count_byte SLASH w = 0.
Proof.
  intros Hw. unfold count_byte. induction w as [|x w IH]; [reflexivity|]. cbn [filter].
  change (N.eqb SLASH x) with (fS x). rewrite fS_sepL, (Hw x) by (left; reflexivity).
  apply IH. intros y Hy. apply Hw. right. exact Hy.
Qed.

Lemma count_byte_J (ws : list str) : Forall word ws -> count_byte SLASH (J ws) = length ws - 1.
Proof.
  induction 1 as [|w ws (_ & Hw) _ IH]; [reflexivity|]. rewrite intercalate_cons, count_byte_app, (count_byte_word Hw).
  destruct ws as [|w2 ws]; [reflexivity|]. change ([SLASH] ++ J (w2 :: ws)) with (SLASH :: J (w2 :: ws)).
  change (count_byte SLASH (SLASH :: J (w2 :: ws))) with (S (count_byte SLASH (J (w2 :: ws)))).
  rewrite IH. cbn [length]. lia.
Qed.

Lemma J_dotdots n (ts : list str) :
  Forall word ts ->
  J (repeat DD (S n) ++ ts) = [DOT; DOT] ++ dotdots SLASH n ++ match J ts with [] => [] | _ => SLASH :: J ts end.
Proof.
  intros Ht. induction n as [|n IH].
  - cbn [repeat app dotdots]. rewrite intercalate_cons. change DD with [DOT; DOT]. cbn [app]. do 2 f_equal.
    destruct ts as [|t ts]; [reflexivity|]. destruct (J (t :: ts)) eqn:E; [|reflexivity].
    apply J_nil_iff in E; [discriminate|exact Ht].
  - change (repeat DD (S (S n)) ++ ts) with (DD :: (repeat DD (S n) ++ ts)).
    rewrite intercalate_cons. change (repeat DD (S n) ++ ts) with (DD :: (repeat DD n ++ ts)) at 1.
    cbv iota. rewrite IH. reflexivity.
Qed.

Lemma tw_J_hd (ws : list str) : Forall word ws -> tw fS (J ws) = hd [] ws.
Proof.
  intros H. destruct ws as [|w ws]; [reflexivity|]. inversion H as [|? ? (_ & Hw) _]; subst.
  apply (J_cons_step ws Hw).
Qed.

(* what Rel returns once the common prefix is stripped: [bs] = remaining
   elements of the base, [ts] = remaining elements of the target *)
Definition rel_tail (b2 t2 : list str) : rel_res :=
  if is_dotdot (hd [] b2) then RelErr else RelOk (J (repeat DD (length b2) ++ t2)).

Lemma finish_words (b2 t2 : list str) :
  Forall word b2 -> Forall word t2 -> finish_s (Some (J b2, J t2)) = rel_tail b2 t2.
Proof.
  intros Hb Ht. unfold finish_s, rel_tail. rewrite (tw_J_hd Hb). fold (is_dotdot (hd [] b2)).
  destruct (is_dotdot (hd [] b2)); [reflexivity|].
  destruct b2 as [|c b2]; [reflexivity|].
  destruct (J (c :: b2)) eqn:E; [apply (J_nil_iff Hb) in E; discriminate|]. rewrite <- E.
  rewrite (count_byte_J Hb). cbn [length]. rewrite (J_dotdots _ Ht).
  replace (S (length b2) - 1) with (length b2) by lia. reflexivity.
Qed.

(* ---- 4. cleaned paths as word lists ------------------------------------------------ *)
Definition ncomps (p : str) : list str := norm (is_abs_spec p) [] (comps p).

Lemma clean_ncomps p : clean Linux p = render (is_abs_spec p) (ncomps p).
Proof. rewrite clean_spec_correct. apply clean_spec_comps. Qed.

Lemma ncomps_shape p :
  exists k names, ncomps p = L k names /\ Forall good names /\ (is_abs_spec p = true -> k = 0).
Proof. apply norm_shape0. Qed.

Lemma ncomps_path_comps p : norm (is_abs_spec p) [] (path_comps p) = ncomps p.
Proof. apply norm_filter. Qed.

Lemma good_word (c : str) : good c -> word c.
Proof. intros (H1 & H2 & _). split; assumption. Qed.

Lemma word_DD : word DD.
Proof. split; [discriminate|]. intros x [<-|[<-|[]]]; reflexivity. Qed.

Lemma L_words k (names : list str) : Forall good names -> Forall word (L k names).
Proof.
  intros Hg. unfold L. apply Forall_app. split.
  - apply Forall_repeat. exact word_DD.
  - apply Forall_rev. eapply Forall_impl; [|exact Hg]. apply good_word.
Qed.

Lemma words_split (ws : list str) :
  Forall word ws -> Forall sepfree ws /\ Forall (fun c : str => c <> []) ws.
Proof. intros H. split; (eapply Forall_impl; [|exact H]); intros a (H1 & H2); assumption. Qed.

Lemma slashed_ol r (ws : list str) : Forall word ws -> slashed (ol r ws) = r.
Proof.
  intros H. unfold ol. destruct r; [reflexivity|]. cbn [app].
  destruct ws as [|w ws1] eqn:E; [reflexivity|]. rewrite <- E in *.
  destruct (words_split H) as (H1 & H2).
  destruct (@intercalate_head ws) as (a & s & Hi & Ha); auto; [rewrite E; discriminate|].
  rewrite Hi. cbn [slashed]. rewrite <- sepL_eq. exact Ha.
Qed.

(* an L-form never renders to "." unless empty *)
Lemma L_not_dot k (names : list str) : Forall good names -> L k names <> [[DOT]].
Proof.
  intros Hg E. destruct k as [|k].
  - unfold L in E. cbn [repeat app] in E.
    assert (Hin : In [DOT] names) by (rewrite <- (rev_involutive names), E; left; reflexivity).
    rewrite Forall_forall in Hg. destruct (Hg _ Hin) as (_ & _ & Hd & _). discriminate.
  - unfold L in E. cbn [repeat app] in E. discriminate.
Qed.

Lemma render_ol r (l : list str) :
  Forall word l -> l <> [[DOT]] ->
  (if str_eqb (render r l) [DOT] then [] else render r l) = ol r l.
Proof.
  intros Hw Hd. unfold render, ol. destruct r; [reflexivity|]. cbn [app].
  destruct l as [|x l'] eqn:El; [reflexivity|]. rewrite <- El in *.
  destruct (str_eqb (J l) [DOT]) eqn:E; [|reflexivity]. exfalso. apply str_eqb_eq in E.
  destruct (words_split Hw) as (H1 & H2).
  assert (Hc : comps (J l) = l) by (apply comps_intercalate; [rewrite El; discriminate|exact H1]).
  rewrite E in Hc. apply Hd. symmetry. exact Hc.
Qed.

Lemma rel_base_ol b : rel_base b = ol (is_abs_spec b) (ncomps b).
Proof.
  unfold rel_base. rewrite clean_ncomps. destruct (ncomps_shape b) as (k & names & E & Hg & _).
  apply render_ol; rewrite E; [apply L_words|apply L_not_dot]; exact Hg.
Qed.

(* the words of the cleaned target: "." stays (Rel only rewrites the base) *)
Definition twords (t : str) : list str :=
  match ncomps t with
  | [] => if is_abs_spec t then [] else [[DOT]]
  | l => l
  end.

Lemma word_dot : word [DOT].
Proof. split; [discriminate|]. intros x [<-|[]]. reflexivity. Qed.

Lemma twords_words t : Forall word (twords t).
Proof.
  unfold twords. destruct (ncomps_shape t) as (k & names & E & Hg & _).
  destruct (ncomps t) eqn:En.
  - destruct (is_abs_spec t); constructor; [exact word_dot|constructor].
  - rewrite E. apply L_words. exact Hg.
Qed.

Lemma clean_twords t : clean Linux t = ol (is_abs_spec t) (twords t).
Proof.
  rewrite clean_ncomps. unfold twords, render, ol. destruct (ncomps t); destruct (is_abs_spec t); reflexivity.
Qed.

Lemma norm_twords t : norm (is_abs_spec t) [] (twords t) = ncomps t.
Proof.
  unfold twords. destruct (ncomps_shape t) as (k & names & E & Hg & Hk).
  destruct (ncomps t) eqn:En.
  - destruct (is_abs_spec t); reflexivity.
  - rewrite E. apply norm_fix; assumption.
Qed.

Lemma strip_common_split : forall (bs ts : list str),
  exists c, bs = c ++ fst (strip_common bs ts) /\ ts = c ++ snd (strip_common bs ts).
Proof.
  induction bs as [|b bs IH]; intros ts; [exists []; auto|].
  destruct ts as [|t ts]; [exists []; auto|]. cbn [strip_common].
  destruct (str_eqb t b) eqn:E; [|exists []; auto].
  apply str_eqb_eq in E. subst t. destruct (IH ts) as (c & H1 & H2). exists (b :: c). cbn [app].
  split; f_equal; assumption.
Qed.

Lemma strip_common_words (bs ts : list str) :
  Forall word bs -> Forall word ts ->
  Forall word (fst (strip_common bs ts)) /\ Forall word (snd (strip_common bs ts)).
Proof.
  intros Hb Ht. destruct (strip_common_split bs ts) as (c & H1 & H2).
  rewrite H1 in Hb. rewrite H2 in Ht. apply Forall_app in Hb as [_ Hb]. apply Forall_app in Ht as [_ Ht]. auto.
Qed.

(* ---- Rel = its specification on components ----------------------------------------- *)
Definition rel_spec (b t : str) : rel_res :=
  if str_eqb (clean Linux t) (clean Linux b) then RelOk [DOT]
  else if negb (Bool.eqb (is_abs_spec b) (is_abs_spec t)) then RelErr
  else rel_tail (fst (strip_common (ncomps b) (twords t))) (snd (strip_common (ncomps b) (twords t))).

Lemma ncomps_words b : Forall word (ncomps b).
Proof. destruct (ncomps_shape b) as (k & names & E & Hg & _). rewrite E. apply L_words. exact Hg. Qed.

Lemma ncomps_ne_twords b t :
  is_abs_spec b = is_abs_spec t -> clean Linux t <> clean Linux b -> ncomps b <> twords t.
Proof.
  intros Hr Hne E. apply Hne. rewrite (clean_ncomps b), (clean_ncomps t), Hr. f_equal.
  unfold twords in E. destruct (ncomps t) eqn:En; [|symmetry; exact E].
  destruct (is_abs_spec t); [symmetry; exact E|].
  exfalso. destruct (ncomps_shape b) as (k & names & E2 & Hg & _). rewrite E2 in E.
  exact (L_not_dot k Hg E).
Qed.

Lemma clean_nonempty p : clean Linux p <> [].
Proof.
  rewrite clean_ncomps. unfold render. destruct (is_abs_spec p); [discriminate|].
  destruct (ncomps p) eqn:E; [discriminate|]. rewrite <- E. intros H.
  apply J_nil_iff in H; [congruence|apply ncomps_words].
Qed.

Theorem rel_spec_correct b t : rel Linux b t = rel_spec b t.
Proof.
  rewrite rel_linux_unfold. unfold rel_spec.
  destruct (str_eqb (clean Linux t) (clean Linux b)) eqn:Eq; [reflexivity|].
  apply str_eqb_neq in Eq.
  rewrite rel_finish_s, rel_base_ol, clean_twords.
  pose proof (ncomps_words b) as Hb. pose proof (twords_words t) as Ht.
  rewrite (slashed_ol _ Hb), (slashed_ol _ Ht).
  destruct (Bool.eqb (is_abs_spec b) (is_abs_spec t)) eqn:Er; [|reflexivity]. cbn [negb].
  apply Bool.eqb_prop in Er. pose proof (ncomps_ne_twords b t Er Eq) as Hne.
  destruct (strip_common_words Hb Ht) as (Hb2 & Ht2).
  rewrite <- Er. rewrite <- (finish_words Hb2 Ht2). f_equal.
  pose proof (J_length_ge Hb) as Hlb.
  assert (Htl : 1 <= length (ol (is_abs_spec b) (twords t))).
  { rewrite Er, <- clean_twords. pose proof (@clean_nonempty t). destruct (clean Linux t); [congruence|cbn [length]; lia]. }
  unfold ol in *. destruct (is_abs_spec b); cbn [app] in *.
  - apply rel_s_rooted; auto. cbn [length]. lia.
  - apply rel_s_words; auto. lia.
Qed.

Theorem rel_never_loops b t : rel Linux b t <> RelLoop.
Proof.
  rewrite rel_spec_correct. unfold rel_spec, rel_tail.
  repeat match goal with |- context [if ?c then _ else _] => destruct c end; discriminate.
Qed.

Theorem rel_same b : rel Linux b b = RelOk [DOT].
Proof. rewrite rel_spec_correct. unfold rel_spec. rewrite str_eqb_refl. reflexivity. Qed.

Theorem rel_same_clean b t : clean Linux b = clean Linux t -> rel Linux b t = RelOk [DOT].
Proof. intros E. rewrite rel_spec_correct. unfold rel_spec. rewrite E, str_eqb_refl. reflexivity. Qed.

(* ---- soundness: Join(base, Rel(base, targ)) = Clean(targ) ---------------------------- *)
Lemma norm_app r : forall (a b st : list str), norm r st (a ++ b) = norm r (rev (norm r st a)) b.
Proof.
  induction a as [|c a IH]; intros b st.
  - cbn [app norm]. rewrite rev_involutive. reflexivity.
  - cbn [app]. cbn [norm]. destruct (match c with [] => true | _ => false end || is_dot c); [apply IH|].
    destruct (is_dotdot c); [|apply IH]. destruct st as [|top st']; [destruct r; apply IH|].
    destruct (is_dotdot top); apply IH.
Qed.

Lemma norm_pop r : forall (g st X : list str),
  Forall good g -> norm r (g ++ st) (repeat DD (length g) ++ X) = norm r st X.
Proof.
  induction g as [|top g IH]; intros st X Hg; [reflexivity|].
  inversion Hg as [|? ? (_ & _ & _ & Hdd) Hg']; subst. cbn [app length repeat].
  change (norm r (top :: g ++ st) (DD :: repeat DD (length g) ++ X))
    with (if is_dotdot top then norm r (DD :: top :: g ++ st) (repeat DD (length g) ++ X)
          else norm r (g ++ st) (repeat DD (length g) ++ X)).
  rewrite Hdd. apply IH. exact Hg'.
Qed.

Lemma L_succ k (names : list str) : L (S k) names = DD :: L k names.
Proof. reflexivity. Qed.

Lemma L_app_inv : forall (c : list str) k (names b2 : list str),
  L k names = c ++ b2 -> Forall good names ->
  (exists j n1, c = L j n1 /\ Forall good n1 /\ (k = 0 -> j = 0)) /\ (Forall good b2 \/ hd [] b2 = DD).
Proof.
  induction c as [|x c IH]; intros k names b2 E Hg.
  - split; [exists 0, []; repeat split; auto|]. cbn [app] in E. rewrite <- E. destruct k as [|k].
    + left. unfold L. cbn [repeat app]. apply Forall_rev. exact Hg.
    + right. reflexivity.
  - destruct k as [|k].
    + unfold L in E. cbn [repeat app] in E.
      assert (Hall : Forall good (rev names)) by (apply Forall_rev; exact Hg).
      rewrite E in Hall. change (x :: c ++ b2) with ((x :: c) ++ b2) in Hall.
      apply Forall_app in Hall as [Hc Hb]. split; [|left; exact Hb].
      exists 0, (rev (x :: c)). unfold L. cbn [repeat app]. rewrite rev_involutive.
      split; [reflexivity|]. split; [apply Forall_rev; exact Hc|auto].
    + rewrite L_succ in E. cbn [app] in E. injection E as <- E.
      destruct (IH k names b2 E Hg) as ((j & n1 & Hc & Hg1 & _) & Hb). split; [|exact Hb].
      exists (S j), n1. rewrite L_succ, Hc. split; [reflexivity|]. split; [exact Hg1|discriminate].
Qed.

Lemma join2 (b r : str) :
  r <> [] -> is_abs_spec r = false ->
  join Linux [b; r]
  = render (is_abs_spec b) (norm (is_abs_spec b) (rev (ncomps b)) (path_comps r)).
Proof.
  intros Hr Ha.
  assert (E : join Linux [b; r] = render (is_abs_spec b) (norm (is_abs_spec b) [] (path_comps b ++ path_comps r))).
  { destruct b as [|b0 b'].
    - etransitivity; [apply (@join_comps [[]; r] r []); cbn [filter ne negb]; destruct r; [congruence|reflexivity]|].
      rewrite Ha. unfold fc. cbn [flat_map]. rewrite app_nil_r. reflexivity.
    - etransitivity; [apply (@join_comps [b0 :: b'; r] (b0 :: b') [r]); cbn [filter ne negb]; destruct r; [congruence|reflexivity]|].
      unfold fc. cbn [flat_map]. rewrite app_nil_r. reflexivity. }
  rewrite E, norm_app, ncomps_path_comps. reflexivity.
Qed.

Lemma is_abs_spec_J (ws : list str) : Forall word ws -> is_abs_spec (J ws) = false.
Proof. intros H. destruct (words_split H). apply (@is_abs_spec_render false ws) in H0; auto.
  unfold render in H0. destruct ws; [reflexivity|exact H0]. Qed.

Lemma path_comps_J (ws : list str) : Forall word ws -> ws <> [] -> path_comps (J ws) = ws.
Proof.
  intros H Hne. destruct (words_split H) as (H1 & H2).
  pose proof (@path_comps_render false ws Hne H1 H2) as E. unfold render in E. destruct ws; [congruence|exact E].
Qed.

Lemma good_hd_notdd (l : list str) : Forall good l -> is_dotdot (hd [] l) = false.
Proof. intros H. destruct l as [|c l]; [reflexivity|]. inversion H as [|? ? (_ & _ & _ & Hd) _]. exact Hd. Qed.

Theorem rel_sound b t r : rel Linux b t = RelOk r -> join Linux [b; r] = clean Linux t.
Proof.
  rewrite rel_spec_correct. unfold rel_spec.
  destruct (str_eqb (clean Linux t) (clean Linux b)) eqn:Eq.
  - (* Clean(base) = Clean(targ): "." *)
    intros [= <-]. apply str_eqb_eq in Eq. rewrite Eq, (clean_ncomps b).
    rewrite join2 by (try discriminate; reflexivity).
    change (path_comps [DOT]) with [[DOT]]. rewrite norm_dot by reflexivity. cbn [norm].
    rewrite rev_involutive. reflexivity.
  - apply str_eqb_neq in Eq.
    destruct (Bool.eqb (is_abs_spec b) (is_abs_spec t)) eqn:Er; [|discriminate]. cbn [negb].
    apply Bool.eqb_prop in Er.
    pose proof (ncomps_words b) as Hb. pose proof (twords_words t) as Ht.
    destruct (strip_common_split (ncomps b) (twords t)) as (c & Hc1 & Hc2).
    destruct (strip_common_words Hb Ht) as (Hb2 & Ht2).
    set (b2 := fst (strip_common (ncomps b) (twords t))) in *.
    set (t2 := snd (strip_common (ncomps b) (twords t))) in *.
    unfold rel_tail. destruct (is_dotdot (hd [] b2)) eqn:Hdd; [discriminate|]. intros [= <-].
    destruct (ncomps_shape b) as (k & names & EL & Hg & Hk).
    assert (EL2 : L k names = c ++ b2) by (rewrite <- EL; exact Hc1).
    destruct (@L_app_inv c k names b2 EL2 Hg) as ((j & n1 & Ec & Hg1 & Hj) & Hgb).
    assert (Hgb2 : Forall good b2).
    { destruct Hgb as [H|H]; [exact H|]. rewrite H in Hdd. discriminate. }
    assert (Hw : Forall word (repeat DD (length b2) ++ t2)).
    { apply Forall_app. split; [apply Forall_repeat; exact word_DD|exact Ht2]. }
    assert (Hne : repeat DD (length b2) ++ t2 <> []).
    { intros E. apply app_eq_nil in E as [E1 E2].
      apply (ncomps_ne_twords b t Er Eq). rewrite Hc1, Hc2, E2.
      destruct b2; [reflexivity|discriminate]. }
    rewrite join2.
    2:{ intros E. apply (J_nil_iff Hw) in E. exact (Hne E). }
    2:{ apply is_abs_spec_J. exact Hw. }
    rewrite (path_comps_J Hw Hne). rewrite Hc1, rev_app_distr.
    rewrite <- (rev_length b2). rewrite norm_pop by (apply Forall_rev; exact Hgb2).
    rewrite (clean_ncomps t), <- Er. f_equal.
    (* norm (rev c) t2 = norm [] (c ++ t2) = ncomps t *)
    assert (Hfix : norm (is_abs_spec b) [] c = c).
    { rewrite Ec. apply norm_fix; [exact Hg1|]. intros Hr. apply Hj, Hk, Hr. }
    rewrite <- Hfix at 1. rewrite <- norm_app, <- Hc2, Er. apply norm_twords.
Qed.

(* ---- when Rel fails ---------------------------------------------------------------- *)
(* number of leading ".." elements *)
Fixpoint count_dd (l : list str) : nat :=
  match l with c :: l' => if is_dotdot c then S (count_dd l') else 0 | [] => 0 end.

Definition notdd (c : str) : Prop := is_dotdot c = false.

Lemma count_dd_repeat k (X : list str) : Forall notdd X -> count_dd (repeat DD k ++ X) = k.
Proof.
  intros HX. induction k as [|k IH]; cbn [repeat app].
  - destruct X as [|x X]; [reflexivity|]. inversion HX as [|? ? Hx _]; subst. cbn [count_dd]. rewrite Hx. reflexivity.
  - cbn [count_dd]. change (is_dotdot DD) with true. cbv iota. rewrite IH. reflexivity.
Qed.

Lemma strip_dd : forall kb kt (X Y : list str),
  Forall notdd X -> Forall notdd Y ->
  is_dotdot (hd [] (fst (strip_common (repeat DD kb ++ X) (repeat DD kt ++ Y)))) = Nat.ltb kt kb.
Proof.
  induction kb as [|kb IH]; intros kt X Y HX HY.
  - cbn [repeat app]. destruct (strip_common_split X (repeat DD kt ++ Y)) as (c & H1 & _).
    rewrite H1 in HX. apply Forall_app in HX as [_ HX].
    destruct (fst (strip_common X (repeat DD kt ++ Y))) as [|x l]; [reflexivity|].
    inversion HX as [|? ? Hx _]; subst. exact Hx.
  - destruct kt as [|kt]; cbn [repeat app].
    + destruct Y as [|y Y]; [reflexivity|]. inversion HY as [|? ? Hy _]; subst. cbn [strip_common].
      unfold notdd, is_dotdot in Hy. change [DOT; DOT] with DD in Hy. rewrite Hy. reflexivity.
    + cbn [strip_common]. rewrite str_eqb_refl. apply IH; assumption.
Qed.

Lemma good_notdd (l : list str) : Forall good l -> Forall notdd l.
Proof. intros H. eapply Forall_impl; [|exact H]. intros c (_ & _ & _ & Hd). exact Hd. Qed.

(* the non-empty components of a cleaned path *)
Lemma path_comps_clean p : path_comps (clean Linux p) = twords p.
Proof.
  rewrite clean_twords. pose proof (twords_words p) as Hw. destruct (words_split Hw) as (H1 & H2).
  destruct (twords p) as [|w ws] eqn:E.
  - destruct (is_abs_spec p); reflexivity.
  - rewrite <- E in *. assert (Hne : twords p <> []) by (rewrite E; discriminate).
    pose proof (@path_comps_render (is_abs_spec p) (twords p) Hne H1 H2) as Hr.
    unfold render in Hr. unfold ol. destruct (is_abs_spec p); [exact Hr|]. rewrite E in Hr |- *. exact Hr.
Qed.

Lemma twords_dd p :
  exists k (X : list str), twords p = repeat DD k ++ X /\ Forall notdd X /\ count_dd (twords p) = k
                           /\ (ncomps p = twords p \/ (ncomps p = [] /\ k = 0)).
Proof.
  unfold twords. destruct (ncomps_shape p) as (k & names & E & Hg & _).
  destruct (ncomps p) as [|c l] eqn:En.
  - exists 0. destruct (is_abs_spec p).
    + exists []. repeat split; auto.
    + exists [[DOT]]. repeat split; auto. constructor; [reflexivity|constructor].
  - rewrite E. exists k, (rev names). unfold L.
    assert (Hn : Forall notdd (rev names)) by (apply good_notdd, Forall_rev, Hg).
    repeat split; auto. apply count_dd_repeat. exact Hn.
Qed.

Theorem rel_error_iff b t :
  rel Linux b t = RelErr <->
  is_abs Linux b <> is_abs Linux t \/
  count_dd (path_comps (clean Linux t)) < count_dd (path_comps (clean Linux b)).
Proof.
  rewrite rel_spec_correct, !path_comps_clean.
  change (is_abs Linux b) with (is_abs_spec b). change (is_abs Linux t) with (is_abs_spec t). unfold rel_spec.
  destruct (twords_dd b) as (kb & X & Eb & HX & Cb & Nb).
  destruct (twords_dd t) as (kt & Y & Et & HY & Ct & Nt).
  rewrite Cb, Ct.
  destruct (str_eqb (clean Linux t) (clean Linux b)) eqn:Eq.
  - apply str_eqb_eq in Eq. split; [discriminate|]. intros [H|H]; exfalso.
    + apply H. rewrite (clean_ncomps b), (clean_ncomps t) in Eq.
      pose proof (ncomps_words b) as Hb. pose proof (ncomps_words t) as Ht.
      destruct (words_split Hb), (words_split Ht).
      rewrite <- (@is_abs_spec_render (is_abs_spec b) (ncomps b)), <- (@is_abs_spec_render (is_abs_spec t) (ncomps t)) by assumption.
      rewrite Eq. reflexivity.
    + assert (E2 : twords t = twords b) by (rewrite <- !path_comps_clean, Eq; reflexivity).
      rewrite E2, Cb in Ct. lia.
  - destruct (Bool.eqb (is_abs_spec b) (is_abs_spec t)) eqn:Er; cbn [negb].
    + apply Bool.eqb_prop in Er. unfold rel_tail.
      assert (Hs : is_dotdot (hd [] (fst (strip_common (ncomps b) (twords t)))) = Nat.ltb kt kb).
      { destruct Nb as [Nb|(Nb & ->)].
        - rewrite Nb, Eb, Et. apply strip_dd; assumption.
        - rewrite Nb. reflexivity. }
      rewrite Hs. destruct (Nat.ltb_spec kt kb) as [Hlt|Hge].
      * split; [right; exact Hlt|reflexivity].
      * split; [discriminate|]. intros [H|H]; [congruence|lia].
    + split; [|reflexivity]. intros _. left. intros E. rewrite E in Er.
      destruct (is_abs_spec t); discriminate.
Qed.

(* ---- non-vacuity ------------------------------------------------------------------------ *)
Example rel_examples :
  rel Linux [47;97;47;98]%N [47;97;99]%N = RelOk [46;46;47;46;46;47;97;99]%N     (* Rel "/a/b" "/ac" = "../../ac" *)
  /\ rel Linux [97;47;98]%N [97;47;98;47;99;47;100]%N = RelOk [99;47;100]%N      (* Rel "a/b" "a/b/c/d" = "c/d" *)
  /\ rel Linux [46;46]%N [46]%N = RelErr                                         (* Rel ".." "." fails *)
  /\ rel Linux [47;97]%N [97]%N = RelErr                                         (* Rel "/a" "a" fails *)
  /\ rel Linux [97]%N [46]%N = RelOk [46;46;47;46]%N                             (* Rel "a" "." = "../." as Go does *)
  /\ join Linux [[47;97;47;98]%N; [46;46;47;46;46;47;97;99]%N] = clean Linux [47;97;99]%N.
Proof. vm_compute. repeat split. Qed.
