(* The loop of Clean against Pike's rules on components, for BOTH OS types: the
   development of PathCleanProofs.v (POSIX flavour) redone with the separator
   predicate [is_sep os] and the output separator [sepc os] abstract.  Generated
   from PathCleanProofs.v by renaming (every name gets the suffix O) and then
   adapted where the POSIX proof used "a separator is the byte '/'". *)
From Avfs Require Import Base PathModel PathSpec PathProofs PathCleanProofs.
Set Implicit Arguments.

Section Gen.
Variable os : ostype.
Notation sepO := (is_sep os).
Notation SEP := (sepc os).

Lemma sep_SEP : sepO SEP = true.
Proof. destruct os; reflexivity. Qed.
Lemma sep_DOT : sepO DOT = false.
Proof. destruct os; reflexivity. Qed.

(* split on separators : "a//b" -> ["a"; ""; "b"], "" -> [""] *)
Fixpoint comps_accO (cur : str) (p : str) : list str :=
  match p with
  | [] => [rev cur]
  | c :: p' => if sepO c then rev cur :: comps_accO [] p' else comps_accO (c :: cur) p'
  end.
Definition compsO (p : str) : list str := comps_accO [] p.

(* the components after the current one *)
Definition tailcO (s : str) : list str := match s with [] => [] | _ :: s' => compsO s' end.

Lemma comps_acc_twO cur p :
  comps_accO cur p = (rev cur ++ tw sepO p) :: match dw sepO p with [] => [] | _ :: s' => comps_accO [] s' end.
Proof.
  revert cur; induction p as [|c p IH]; intros cur; cbn [comps_accO tw dw].
  - rewrite app_nil_r. reflexivity.
  - destruct (sepO c).
    + rewrite app_nil_r. reflexivity.
    + rewrite IH. cbn [rev]. rewrite <- app_assoc. reflexivity.
Qed.

Lemma comps_twO p : compsO p = tw sepO p :: tailcO (dw sepO p).
Proof. unfold compsO. rewrite comps_acc_twO. reflexivity. Qed.

Lemma comps_nilO : compsO [] = [[]].
Proof. reflexivity. Qed.

Lemma comps_sepO' s p : sepO s = true -> compsO (s :: p) = [] :: compsO p.
Proof. intros Hs. unfold compsO. cbn [comps_accO]. rewrite Hs. reflexivity. Qed.

Lemma comps_sepO p : compsO (SEP :: p) = [] :: compsO p.
Proof. apply comps_sepO', sep_SEP. Qed.

Lemma comps_acc_app_sepO' s cur a b : sepO s = true -> comps_accO cur (a ++ s :: b) = comps_accO cur a ++ compsO b.
Proof.
  intros Hs. revert cur. induction a as [|c a IH]; intros cur; cbn [app comps_accO].
  - rewrite Hs. reflexivity.
  - destruct (sepO c); [cbn [app]; f_equal|]; apply IH.
Qed.

Lemma comps_app_sepO' s a b : sepO s = true -> compsO (a ++ s :: b) = compsO a ++ compsO b.
Proof. apply comps_acc_app_sepO'. Qed.

Lemma comps_app_sepO a b : compsO (a ++ SEP :: b) = compsO a ++ compsO b.
Proof. apply comps_app_sepO', sep_SEP. Qed.

Definition sepfreeO (c : str) : Prop := forall x, In x c -> sepO x = false.

Lemma comps_acc_sepfreeO cur p : sepfreeO cur -> Forall sepfreeO (comps_accO cur p).
Proof.
  revert cur; induction p as [|c p IH]; intros cur Hc; cbn [comps_accO].
  - constructor; [|constructor]. intros x Hx. apply Hc. apply in_rev. exact Hx.
  - destruct (sepO c) eqn:E.
    + constructor; [intros x Hx; apply Hc; apply in_rev; exact Hx|]. apply IH. intros x [].
    + apply IH. intros x [<-|Hx]; [exact E|apply Hc; exact Hx].
Qed.

Lemma comps_sepfreeO p : Forall sepfreeO (compsO p).
Proof. apply comps_acc_sepfreeO. intros x []. Qed.

(* ---- intercalate -------------------------------------------------------- *)
Lemma intercalate_consO s x l :
  intercalate s (x :: l) = x ++ match l with [] => [] | _ => s ++ intercalate s l end.
Proof. destruct l; cbn [intercalate]; [rewrite app_nil_r|]; reflexivity. Qed.

Lemma intercalate_snocO s l c :
  intercalate s (l ++ [c]) = match l with [] => c | _ => intercalate s l ++ s ++ c end.
Proof.
  induction l as [|x l IH]; [reflexivity|].
  cbn [app]. rewrite intercalate_consO. destruct l as [|y l].
  - reflexivity.
  - rewrite IH. rewrite (intercalate_consO s x (y :: l)). cbn [app].
    rewrite <- !app_assoc. reflexivity.
Qed.

Lemma intercalate_nil_invO s l : Forall (fun c : str => c <> []) l -> intercalate s l = [] -> l = [].
Proof.
  intros Hl H. destruct l as [|x l]; auto. exfalso. rewrite intercalate_consO in H.
  inversion Hl as [|? ? Hx _]; subst. destruct x; [congruence|discriminate].
Qed.

Lemma intercalate_app_leO s a b : length (intercalate s a) <= length (intercalate s (a ++ b)).
Proof.
  induction a as [|x a IH]; [cbn; lia|].
  cbn [app]. rewrite !intercalate_consO, !app_length. destruct a as [|y a].
  - cbn [app length]. lia.
  - cbn [app] in *. rewrite !app_length. lia.
Qed.

(* ---- the lazy buffer holds [out] ---------------------------------------- *)
Definition RO (path : str) (b : lazybuf) (out : str) : Prop :=
  lb_w b = length out /\ lb_bytes path b = out /\
  match lb_buf b with Some buf => length buf = length path | None => True end /\
  length out <= length path.

Lemma R_initO path : RO path {| lb_buf := None; lb_w := 0 |} [].
Proof. unfold RO, lb_bytes. cbn. repeat split; auto. lia. Qed.

Lemma R_appendO path b out c :
  RO path b out -> length out < length path -> RO path (lb_append path b c) (out ++ [c]).
Proof.
  destruct b as [[buf|] w]; unfold RO, lb_append, lb_bytes; cbn [lb_buf lb_w];
    intros (Hw & Hb & Hl & Hle) Hlt; subst w.
  - cbn [lb_buf lb_w]. rewrite app_length. cbn [length]. repeat split; try lia.
    + rewrite firstn_S_set_nth by lia. rewrite Hb. reflexivity.
    + rewrite set_nth_length. exact Hl.
  - destruct (Nat.ltb (length out) (length path) && N.eqb (nthb path (length out)) c) eqn:E;
      cbn [lb_buf lb_w]; rewrite app_length; cbn [length]; repeat split; try lia.
    + apply andb_prop in E as [_ E]. apply N.eqb_eq in E. rewrite firstn_S_nth by lia.
      rewrite Hb. unfold nthb in E. rewrite E. reflexivity.
    + set (buf := firstn (length out) path ++ repeat 0%N (length path - length out)).
      assert (Hbl : length buf = length path).
      { unfold buf. rewrite app_length, firstn_length, repeat_length. lia. }
      rewrite firstn_S_set_nth by lia. f_equal. unfold buf.
      rewrite Hb. apply firstn_app_at.
    + rewrite set_nth_length, app_length, firstn_length, repeat_length. lia.
Qed.

Lemma R_foldO path name : forall b out,
  RO path b out -> length out + length name <= length path ->
  RO path (fold_left (lb_append path) name b) (out ++ name).
Proof.
  induction name as [|c name IH]; intros b out HR Hl; cbn [fold_left].
  - rewrite app_nil_r. exact HR.
  - cbn [length] in Hl. replace (out ++ c :: name) with ((out ++ [c]) ++ name)
      by (rewrite <- app_assoc; reflexivity).
    apply IH; [apply R_appendO; [exact HR|lia]|]. rewrite app_length. cbn [length]. lia.
Qed.

Lemma R_truncO path b out w' :
  RO path b out -> w' <= length out -> RO path {| lb_buf := lb_buf b; lb_w := w' |} (firstn w' out).
Proof.
  intros (Hw & Hb & Hl & Hle) Hlt. unfold RO. cbn [lb_buf lb_w]. rewrite firstn_length.
  split; [lia|]. split; [|split; [exact Hl|lia]].
  unfold lb_bytes in *. cbn [lb_buf lb_w]. destruct (lb_buf b); rewrite <- Hb, firstn_firstn; f_equal; lia.
Qed.

Lemma R_indexO path b out i : RO path b out -> i < length out -> lb_index path b i = nth i out 0%N.
Proof.
  destruct b as [[buf|] w]; unfold RO, lb_bytes, lb_index, nthb; cbn [lb_buf lb_w];
    intros (Hw & Hb & Hl & Hle) Hlt; subst w; rewrite <- Hb; symmetry; apply nth_firstn_lt_own; lia.
Qed.

Lemma backtrack_specO path b out dd lp :
  RO path b out -> dd <= lp ->
  (lp = dd \/ sepO (nth lp out 0%N) = true) ->
  forall k fuel, k < fuel -> lp + k < length out ->
  (forall i, lp < i <= lp + k -> sepO (nth i out 0%N) = false) ->
  backtrack os path b dd (lp + k) fuel = lp.
Proof.
  intros HR Hdd Hstop. induction k as [|k IH]; intros fuel Hf Hlen Hmid;
    (destruct fuel as [|fuel]; [lia|]); cbn [backtrack].
  - rewrite Nat.add_0_r in *. destruct Hstop as [->|Hs].
    + rewrite Nat.ltb_irrefl. reflexivity.
    + rewrite (R_indexO (i := lp) HR) by lia. rewrite Hs, andb_false_r. reflexivity.
  - replace (Nat.ltb dd (lp + S k)) with true by (symmetry; apply Nat.ltb_lt; lia).
    rewrite (R_indexO (i := lp + S k) HR) by lia. rewrite Hmid by lia. cbn [negb andb].
    replace (lp + S k - 1) with (lp + k) by lia. apply IH; [lia|lia|]. intros i Hi. apply Hmid. lia.
Qed.

Lemma firstn_twO f s : firstn (length (tw f s)) s = tw f s.
Proof. rewrite <- (tw_dw f s) at 2. apply firstn_app_at. Qed.

(* ---- the state of Pike's stack machine ---------------------------------- *)
Definition DDO : str := [DOT; DOT].

Definition goodO (c : str) : Prop :=
  c <> [] /\ sepfreeO c /\ is_dot c = false /\ is_dotdot c = false.

(* stack (top first) and its rendering order (bottom first) *)
Definition stkO (k : nat) (names : list str) : list str := names ++ repeat DDO k.
Definition LO (k : nat) (names : list str) : list str := repeat DDO k ++ rev names.

Lemma rev_stkO k names : rev (stkO k names) = LO k names.
Proof. unfold stkO, LO. rewrite rev_app_distr, rev_repeat_own. reflexivity. Qed.

Definition olO (rooted : bool) (l : list str) : str :=
  (if rooted then [SEP] else []) ++ intercalate [SEP] l.
Definition ddxO (rooted : bool) (k : nat) : nat :=
  if rooted then 1 else length (intercalate [SEP] (repeat DDO k)).

Lemma L_consO k top names : LO k (top :: names) = LO k names ++ [top].
Proof. unfold LO. cbn [rev]. apply app_assoc. Qed.

Lemma L_SO k : LO (S k) [] = LO k [] ++ [DDO].
Proof. unfold LO. cbn [rev]. rewrite !app_nil_r. cbn [repeat]. apply repeat_cons. Qed.

Lemma ol_snocO rooted l c :
  olO rooted (l ++ [c]) = match l with [] => olO rooted [] ++ c | _ => olO rooted l ++ SEP :: c end.
Proof.
  unfold olO. rewrite intercalate_snocO. destruct l; [cbn [intercalate]; rewrite app_nil_r; reflexivity|].
  rewrite <- app_assoc. reflexivity.
Qed.

Lemma good_neO c : goodO c -> c <> [].
Proof. intros (H & _). exact H. Qed.

Lemma Forall_repeatO (A : Type) (P : A -> Prop) a k : P a -> Forall P (repeat a k).
Proof. intros Ha. induction k; cbn [repeat]; constructor; auto. Qed.

Lemma L_neO k names : Forall goodO names -> Forall (fun c : str => c <> []) (LO k names).
Proof.
  intros Hn. unfold LO. apply Forall_app. split.
  - apply Forall_repeatO. discriminate.
  - apply Forall_rev. eapply Forall_impl; [|exact Hn]. apply good_neO.
Qed.

Lemma len_ol_nilO rooted k : (rooted = true -> k = 0) -> length (olO rooted (LO k [])) = ddxO rooted k.
Proof.
  intros Hk. unfold LO. cbn [rev]. rewrite app_nil_r. destruct rooted.
  - rewrite (Hk eq_refl). reflexivity.
  - reflexivity.
Qed.

Lemma ddx_leO rooted k names : (rooted = true -> k = 0) -> ddxO rooted k <= length (olO rooted (LO k names)).
Proof.
  intros Hk. unfold olO, ddxO, LO. destruct rooted.
  - cbn [app length]. lia.
  - cbn [app]. apply intercalate_app_leO.
Qed.

Lemma elem_condO rooted l : Forall (fun c : str => c <> []) l ->
  ((rooted && negb (Nat.eqb (length (olO rooted l)) 1)) || (negb rooted && negb (Nat.eqb (length (olO rooted l)) 0)))
  = match l with [] => false | _ => true end.
Proof.
  intros Hl. unfold olO. destruct l as [|x l].
  - destruct rooted; reflexivity.
  - inversion Hl as [|? ? Hx _]; subst. rewrite intercalate_consO.
    destruct x as [|a x]; [congruence|]. destruct rooted; reflexivity.
Qed.

(* ---- one step of [norm] on a structured stack ---------------------------- *)
Lemma norm_emptyO r st cs : norm r st ([] :: cs) = norm r st cs.
Proof. reflexivity. Qed.

Lemma norm_dotO r st c cs : is_dot c = true -> norm r st (c :: cs) = norm r st cs.
Proof. intros H. cbn [norm]. rewrite H, orb_true_r. reflexivity. Qed.

Lemma norm_pushO r st c cs :
  c <> [] -> is_dot c = false -> is_dotdot c = false -> norm r st (c :: cs) = norm r (c :: st) cs.
Proof.
  intros Hne Hd Hdd. cbn [norm]. rewrite Hd, Hdd. destruct c; [congruence|]. reflexivity.
Qed.

Lemma is_dotdot_DDO c : is_dotdot c = true -> c = DDO.
Proof. apply str_eqb_eq. Qed.

Lemma norm_dd_popO r k top names cs :
  goodO top -> norm r (stkO k (top :: names)) (DDO :: cs) = norm r (stkO k names) cs.
Proof. intros (_ & _ & _ & Hdd). cbn [norm stkO app]. cbn. rewrite Hdd. reflexivity. Qed.

Lemma norm_dd_rootO cs : norm true (stkO 0 []) (DDO :: cs) = norm true (stkO 0 []) cs.
Proof. reflexivity. Qed.

Lemma norm_dd_pushO k cs : norm false (stkO k []) (DDO :: cs) = norm false (stkO (S k) []) cs.
Proof. destruct k; reflexivity. Qed.

(* after a component, the rest of the component list may be read off the suffix *)
Lemma norm_tailcO r st s : at_sep sepO s -> norm r st (tailcO s) = norm r st (compsO s).
Proof.
  destruct s as [|c s]; cbn [at_sep tailcO]; [reflexivity|].
  intros Hc. rewrite (@comps_sepO' c s Hc). reflexivity.
Qed.

Lemma sep_not_dot d : sepO d = true -> N.eqb d DOT = false.
Proof. intros H. destruct (N.eqb_spec d DOT) as [->|]; [rewrite sep_DOT in H; discriminate|reflexivity]. Qed.

(* ---- one iteration of the loop, on the remaining suffix ----------------- *)
Lemma tw_nil_bO rest : str_eqb (tw sepO rest) [] = (Nat.eqb (length rest) 0 || sepO (nthb rest 0)).
Proof.
  destruct rest as [|d rest]; [reflexivity|]. cbn [tw nthb nth].
  change (Nat.eqb (length (d :: rest)) 0) with false. cbn [orb].
  destruct (sepO d); reflexivity.
Qed.

Lemma eqb_len1O (pre : str) c rest1 :
  Nat.eqb (S (length pre)) (length (pre ++ c :: rest1)) = Nat.eqb (length rest1) 0.
Proof.
  rewrite app_length. cbn [length].
  destruct (Nat.eqb_spec (length rest1) 0) as [E|E]; [apply Nat.eqb_eq|apply Nat.eqb_neq]; lia.
Qed.

Lemma eqb_len2O (pre : str) c d rest2 :
  Nat.eqb (S (S (length pre))) (length (pre ++ c :: d :: rest2)) = Nat.eqb (length rest2) 0.
Proof.
  rewrite app_length. cbn [length].
  destruct (Nat.eqb_spec (length rest2) 0) as [E|E]; [apply Nat.eqb_eq|apply Nat.eqb_neq]; lia.
Qed.

Lemma cond_dotO pre c rest1 : sepO c = false ->
  (N.eqb c DOT && (Nat.eqb (S (length pre)) (length (pre ++ c :: rest1)) || sepO (nthb rest1 0)))
  = is_dot (tw sepO (c :: rest1)).
Proof.
  intros Hc. cbn [tw]. rewrite Hc. unfold is_dot. cbn [str_eqb].
  rewrite eqb_len1O, tw_nil_bO. reflexivity.
Qed.

Lemma cond_dotdotO pre c rest1 : sepO c = false ->
  (N.eqb c DOT && N.eqb (nthb rest1 0) DOT
   && (Nat.eqb (S (S (length pre))) (length (pre ++ c :: rest1)) || sepO (nthb rest1 1)))
  = is_dotdot (tw sepO (c :: rest1)).
Proof.
  intros Hc. cbn [tw]. rewrite Hc. unfold is_dotdot. cbn [str_eqb].
  destruct rest1 as [|d rest2].
  - cbn [tw str_eqb]. destruct (N.eqb c DOT); reflexivity.
  - cbn [tw]. change (nthb (d :: rest2) 0) with d. change (nthb (d :: rest2) 1) with (nthb rest2 0).
    rewrite eqb_len2O. destruct (sepO d) eqn:Hd.
    + rewrite (@sep_not_dot d Hd). cbn [str_eqb]. destruct (N.eqb c DOT); reflexivity.
    + cbn [str_eqb]. rewrite tw_nil_bO, andb_assoc. reflexivity.
Qed.

Lemma loop_unfoldO rooted pre c rest1 f dd b :
  let path := pre ++ c :: rest1 in
  let r := length pre in
  let nm := tw sepO (c :: rest1) in
  clean_loop os path rooted (length path) (S f) r dd b =
  if sepO c then clean_loop os path rooted (length path) f (S r) dd b
  else if is_dot nm then clean_loop os path rooted (length path) f (S r) dd b
  else if is_dotdot nm then
    if Nat.ltb dd (lb_w b) then
      clean_loop os path rooted (length path) f (S (S r)) dd
        {| lb_buf := lb_buf b; lb_w := backtrack os path b dd (lb_w b - 1) (lb_w b) |}
    else if negb rooted then
      let out1 := if Nat.ltb 0 (lb_w b) then lb_append path b SEP else b in
      let out2 := lb_append path (lb_append path out1 DOT) DOT in
      clean_loop os path rooted (length path) f (S (S r)) (lb_w out2) out2
    else clean_loop os path rooted (length path) f (S (S r)) dd b
  else
    let out1 := if (rooted && negb (Nat.eqb (lb_w b) 1)) || (negb rooted && negb (Nat.eqb (lb_w b) 0))
                then lb_append path b SEP else b in
    clean_loop os path rooted (length path) f (r + length nm) dd (fold_left (lb_append path) nm out1).
Proof.
  intros path r nm. subst path r nm. cbn [clean_loop].
  replace (Nat.ltb (length pre) (length (pre ++ c :: rest1))) with true
    by (symmetry; apply Nat.ltb_lt; rewrite app_length; cbn [length]; lia).
  cbn [negb]. rewrite !nthb_app0, !nthb_app1, !nthb_app2.
  destruct (sepO c) eqn:Hc; [reflexivity|].
  rewrite cond_dotO, cond_dotdotO by exact Hc.
  destruct (is_dot (tw sepO (c :: rest1))); [reflexivity|].
  destruct (is_dotdot (tw sepO (c :: rest1))); [reflexivity|].
  rewrite index_from_tw.
  replace (length pre + length (tw sepO (c :: rest1)) - length pre) with (length (tw sepO (c :: rest1))) by lia.
  rewrite skipn_app_at, firstn_twO. reflexivity.
Qed.

(* ---- the loop invariant --------------------------------------------------- *)
Definition startsnameO (rest : str) : Prop :=
  match rest with [] => False | c :: _ => sepO c = false end.

Lemma at_sep_not_startsnameO s : at_sep sepO s -> startsnameO s -> False.
Proof. destruct s; cbn [at_sep startsnameO]; [auto|congruence]. Qed.

(* bytes written <= bytes read, strictly when a separator will have to be written *)
Definition boundO (rooted : bool) (k : nat) (names : list str) (pre rest : str) : Prop :=
  length (olO rooted (LO k names)) <= length pre /\
  ((k <> 0 \/ names <> []) -> startsnameO rest -> length (olO rooted (LO k names)) < length pre).

Definition sp_ofO (l : list str) : str := match l with [] => [] | _ => [SEP] end.

Lemma ol_pushO rooted k names nm :
  olO rooted (LO k (nm :: names)) = olO rooted (LO k names) ++ sp_ofO (LO k names) ++ nm.
Proof. rewrite L_consO, ol_snocO. destruct (LO k names); reflexivity. Qed.

Lemma L_nil_invO k names : LO k names = [] -> k = 0 /\ names = [].
Proof.
  unfold LO. intros H. apply app_eq_nil in H as [H1 H2]. split.
  - destruct k; [reflexivity|discriminate].
  - destruct names as [|x names]; [reflexivity|]. cbn [rev] in H2. apply app_eq_nil in H2 as [_ H2]. discriminate.
Qed.

Lemma L_nonnilO k names : LO k names <> [] -> k <> 0 \/ names <> [].
Proof.
  intros H. destruct k; [|left; discriminate]. destruct names; [|right; discriminate].
  exfalso. apply H. reflexivity.
Qed.

Lemma backtrack_popO path b rooted k top names :
  RO path b (olO rooted (LO k (top :: names))) -> goodO top -> (rooted = true -> k = 0) ->
  Nat.ltb (ddxO rooted k) (lb_w b) = true /\
  backtrack os path b (ddxO rooted k) (lb_w b - 1) (lb_w b) = length (olO rooted (LO k names)) /\
  firstn (length (olO rooted (LO k names))) (olO rooted (LO k (top :: names))) = olO rooted (LO k names) /\
  length (olO rooted (LO k names)) < length (olO rooted (LO k (top :: names))).
Proof.
  intros HR (Hne & Hsf & _ & _) Hk. pose proof HR as (Hw & _). rewrite Hw.
  rewrite ol_pushO in *. set (P := olO rooted (LO k names)) in *.
  pose proof (@ddx_leO rooted k names Hk) as Hdd. fold P in Hdd.
  assert (Htop : 1 <= length top) by (destruct top; [congruence|cbn [length]; lia]).
  rewrite !app_length. split; [apply Nat.ltb_lt; lia|]. split; [|split; [apply firstn_app_at|lia]].
  replace (length P + (length (sp_ofO (LO k names)) + length top) - 1)
    with (length P + (length (sp_ofO (LO k names)) + length top - 1)) by lia.
  apply (backtrack_specO HR); try lia.
  - destruct (LO k names) eqn:EL.
    + left. apply L_nil_invO in EL as [-> ->]. unfold P. destruct rooted; reflexivity.
    + right. cbn [sp_ofO app]. rewrite app_nth2 by lia. rewrite Nat.sub_diag. apply sep_SEP.
  - rewrite !app_length. lia.
  - intros i Hi. rewrite app_nth2 by lia. destruct (LO k names) eqn:EL; cbn [sp_ofO app length] in *.
    + apply Hsf. apply nth_In. lia.
    + replace (i - length P) with (S (i - length P - 1)) by lia. cbn [nth]. apply Hsf. apply nth_In. lia.
Qed.

Lemma good_twO c rest1 :
  sepO c = false -> is_dot (tw sepO (c :: rest1)) = false -> is_dotdot (tw sepO (c :: rest1)) = false ->
  goodO (tw sepO (c :: rest1)).
Proof.
  intros Hc Hd Hdd. repeat split; auto.
  - cbn [tw]. rewrite Hc. discriminate.
  - intros x Hx. eapply tw_none. exact Hx.
Qed.

Lemma loop_correctO rooted path : forall fuel pre rest k names b r,
  path = pre ++ rest -> r = length pre ->
  length rest < fuel ->
  RO path b (olO rooted (LO k names)) ->
  Forall goodO names -> (rooted = true -> k = 0) ->
  boundO rooted k names pre rest ->
  RO path (clean_loop os path rooted (length path) fuel r (ddxO rooted k) b)
         (olO rooted (norm rooted (stkO k names) (compsO rest))).
Proof.
  induction fuel as [|f IH]; intros pre rest k names b r Hp Hr Hf HR Hg Hk (Hb1 & Hb2); [lia|].
  destruct rest as [|c rest1].
  - (* end of the path *)
    cbn [clean_loop].
    replace (Nat.ltb r (length path)) with false
      by (symmetry; apply Nat.ltb_ge; subst; rewrite app_nil_r; lia).
    cbn [negb]. rewrite comps_nilO, norm_emptyO. cbn [norm]. rewrite rev_stkO. exact HR.
  - subst path r. rewrite loop_unfoldO. cbv zeta.
    destruct (sepO c) eqn:Hc.
    { (* separator *)
      rewrite (@comps_sepO' c rest1 Hc), norm_emptyO.
      apply (IH (pre ++ [c]) rest1 k names b); auto.
      - rewrite <- app_assoc. reflexivity.
      - rewrite app_length. cbn [length]. lia.
      - cbn [length] in Hf. lia.
      - split; rewrite app_length; cbn [length]; [lia|]. intros _ _. lia. }
    set (rest := c :: rest1) in *.
    set (nm := tw sepO rest). set (rest' := dw sepO rest).
    assert (Hsplit : rest = nm ++ rest') by (symmetry; apply tw_dw).
    assert (Hat : at_sep sepO rest') by apply dw_at_sep.
    assert (Hnm1 : 1 <= length nm) by (unfold nm, rest; cbn [tw]; rewrite Hc; cbn [length]; lia).
    assert (Hlen : length rest = length nm + length rest') by (rewrite Hsplit at 1; apply app_length).
    assert (Hpath : pre ++ rest = (pre ++ nm) ++ rest') by (rewrite Hsplit at 1; apply app_assoc).
    assert (Hstart : startsnameO rest) by exact Hc.
    rewrite (comps_twO rest). fold nm rest'.
    destruct (is_dot nm) eqn:Hd.
    { (* "." *)
      rewrite norm_dotO by exact Hd. rewrite norm_tailcO by exact Hat.
      apply str_eqb_eq in Hd.
      apply (IH (pre ++ nm) rest' k names b); auto.
      - rewrite app_length, Hd. cbn [length]. lia.
      - lia.
      - split; rewrite app_length; [lia|]. intros _ _. lia. }
    destruct (is_dotdot nm) eqn:Hdd.
    { (* ".." *)
      apply is_dotdot_DDO in Hdd.
      assert (Hl2 : length nm = 2) by (rewrite Hdd; reflexivity).
      assert (Hr2 : S (S (length pre)) = length (pre ++ nm)) by (rewrite app_length; lia).
      rewrite Hdd at 1.
      destruct names as [|top names].
      - (* nothing to pop *)
        replace (Nat.ltb (ddxO rooted k) (lb_w b)) with false
          by (symmetry; apply Nat.ltb_ge; destruct HR as (-> & _); rewrite len_ol_nilO by exact Hk; lia).
        destruct rooted; cbn [negb].
        + (* at the root: dropped *)
          rewrite (Hk eq_refl) in *. rewrite norm_dd_rootO. rewrite norm_tailcO by exact Hat.
          apply (IH (pre ++ nm) rest' 0 [] b); auto.
          * lia.
          * split; rewrite app_length; [lia|]. intros _ _. lia.
        + (* not rooted: ".." is kept *)
          change (stkO k []) with (stkO k (@nil str)).
          rewrite norm_dd_pushO. rewrite norm_tailcO by exact Hat.
          set (out := olO false (LO k [])) in *.
          assert (Hpl : length pre + 2 <= length (pre ++ rest))
            by (rewrite app_length; lia).
          assert (HR2 : RO (pre ++ rest)
                          (lb_append (pre ++ rest)
                             (lb_append (pre ++ rest)
                                (if Nat.ltb 0 (lb_w b) then lb_append (pre ++ rest) b SEP else b) DOT) DOT)
                          (olO false (LO (S k) []))
                        /\ length (olO false (LO (S k) [])) <= length pre + 2).
          { destruct k as [|k'].
            - assert (Hw0 : lb_w b = 0) by (destruct HR as (-> & _); reflexivity).
              rewrite Hw0. cbn [Nat.ltb Nat.leb]. split; [|cbn; lia].
              change (olO false (LO 1 [])) with (([] ++ [DOT]) ++ [DOT]).
              apply R_appendO; [apply R_appendO; [exact HR|cbn [length]; lia]|cbn [length app]; lia].
            - assert (Hstrict : length out < length pre) by (apply Hb2; [left; discriminate|exact Hstart]).
              assert (Hwpos : Nat.ltb 0 (lb_w b) = true).
              { apply Nat.ltb_lt. destruct HR as (-> & _). unfold out, olO, LO. cbn [repeat rev app].
                rewrite intercalate_consO, app_length. change (length DDO) with 2. lia. }
              rewrite Hwpos.
              assert (Hol : olO false (LO (S (S k')) []) = ((out ++ [SEP]) ++ [DOT]) ++ [DOT]).
              { rewrite L_SO, ol_snocO. fold out. unfold LO at 1. cbn [repeat app].
                rewrite <- !app_assoc. reflexivity. }
              rewrite Hol. split.
              + apply R_appendO; [apply R_appendO; [apply R_appendO; [exact HR|lia]|]|];
                  rewrite ?app_length; cbn [length]; lia.
              + rewrite !app_length. cbn [length]. lia. }
          destruct HR2 as (HR2 & Hlen2).
          replace (lb_w _) with (ddxO false (S k))
            by (destruct HR2 as (-> & _); symmetry; apply len_ol_nilO; discriminate).
          apply (IH (pre ++ nm) rest' (S k) [] _); auto.
          * lia.
          * discriminate.
          * split; rewrite app_length; [lia|]. intros _ Hs. exfalso. exact (at_sep_not_startsnameO _ Hat Hs).
      - (* pop *)
        inversion Hg as [|? ? Hgt Hgn]; subst.
        destruct (@backtrack_popO _ _ _ _ _ _ HR Hgt Hk) as (Hlt & Hbt & Hfirst & Hshrink).
        rewrite Hlt, Hbt. rewrite norm_dd_popO by exact Hgt. rewrite norm_tailcO by exact Hat.
        apply (IH (pre ++ nm) rest' k names _); auto.
        + lia.
        + pose proof (@R_truncO _ _ _ (length (olO rooted (LO k names))) HR ltac:(lia)) as HRt.
          rewrite Hfirst in HRt. exact HRt.
        + split; rewrite app_length; [lia|]. intros _ _. lia. }
    (* a name *)
    assert (Hgn : goodO nm) by (apply good_twO; assumption).
    destruct Hgn as (Hn1 & Hn2 & Hn3 & Hn4).
    rewrite norm_pushO by assumption. rewrite norm_tailcO by exact Hat.
    change (nm :: stkO k names) with (stkO k (nm :: names)).
    destruct HR as (Hw & HRrest). pose proof (conj Hw HRrest) as HR.
    rewrite Hw. rewrite elem_condO by (apply L_neO; exact Hg).
    assert (HR2 : RO (pre ++ rest)
                    (fold_left (lb_append (pre ++ rest)) nm
                       (if match LO k names with [] => false | _ => true end
                        then lb_append (pre ++ rest) b SEP else b))
                    (olO rooted (LO k (nm :: names)))
                  /\ length (olO rooted (LO k (nm :: names))) <= length pre + length nm).
    { rewrite ol_pushO. destruct (LO k names) eqn:EL; cbn [sp_ofO].
      - cbn [app]. split; [|rewrite app_length; lia].
        apply R_foldO; [exact HR|]. rewrite app_length. lia.
      - assert (Hstrict : length (olO rooted (s :: l)) < length pre).
        { apply Hb2; [|exact Hstart]. apply L_nonnilO. rewrite EL. discriminate. }
        replace (olO rooted (s :: l) ++ [SEP] ++ nm) with ((olO rooted (s :: l) ++ [SEP]) ++ nm)
          by (rewrite <- app_assoc; reflexivity).
        split; [|rewrite !app_length; cbn [length]; lia].
        apply R_foldO; [apply R_appendO; [exact HR|rewrite app_length; lia]|].
        rewrite !app_length. cbn [length]. lia. }
    destruct HR2 as (HR2 & Hlen2).
    apply (IH (pre ++ nm) rest' k (nm :: names) _); auto.
    + rewrite app_length. reflexivity.
    + lia.
    + constructor; [repeat split; assumption|exact Hg].
    + split; rewrite app_length; [lia|]. intros _ Hs. exfalso. exact (at_sep_not_startsnameO _ Hat Hs).
Qed.

(* ---- shape of the result of [norm] ---------------------------------------- *)
Lemma norm_shapeO rooted : forall cs k names,
  Forall sepfreeO cs -> Forall goodO names -> (rooted = true -> k = 0) ->
  exists k' names', norm rooted (stkO k names) cs = LO k' names' /\ Forall goodO names' /\ (rooted = true -> k' = 0).
Proof.
  induction cs as [|c cs IH]; intros k names Hsf Hg Hk.
  - exists k, names. cbn [norm]. rewrite rev_stkO. auto.
  - inversion Hsf as [|? ? Hc Hcs]; subst.
    destruct c as [|x c']. { rewrite norm_emptyO. apply IH; auto. }
    set (c := x :: c') in *.
    destruct (is_dot c) eqn:Hd. { rewrite norm_dotO by exact Hd. apply IH; auto. }
    destruct (is_dotdot c) eqn:Hdd.
    { apply is_dotdot_DDO in Hdd. rewrite Hdd. destruct names as [|top names].
      - destruct rooted.
        + rewrite (Hk eq_refl). rewrite norm_dd_rootO. apply IH; auto.
        + change (stkO k []) with (stkO k (@nil str)). rewrite norm_dd_pushO. apply IH; auto. discriminate.
      - inversion Hg; subst. rewrite norm_dd_popO by assumption. apply IH; auto. }
    rewrite norm_pushO; [|discriminate|auto|auto]. change (c :: stkO k names) with (stkO k (c :: names)).
    apply IH; auto. constructor; auto. repeat split; auto. discriminate.
Qed.

Lemma norm_shape0O rooted p :
  exists k names, norm rooted [] (compsO p) = LO k names /\ Forall goodO names /\ (rooted = true -> k = 0).
Proof. apply (@norm_shapeO rooted (compsO p) 0 []); auto. apply comps_sepfreeO. Qed.

(* ---- empty components are invisible to [norm] ---------------------------- *)
Definition neO (e : str) : bool := negb (match e with [] => true | _ => false end).

Lemma norm_filterO r : forall cs st, norm r st (filter neO cs) = norm r st cs.
Proof.
  induction cs as [|c cs IH]; intros st; [reflexivity|].
  destruct c as [|x c']; [cbn [filter neO negb]; rewrite norm_emptyO; apply IH|].
  cbn [filter neO negb]. cbn [norm orb].
  destruct (is_dot (x :: c')); [apply IH|].
  destruct (is_dotdot (x :: c')); [|apply IH].
  destruct st as [|top st]; [destruct r; apply IH|]. destruct (is_dotdot top); apply IH.
Qed.

Lemma comps_wordO c : sepfreeO c -> compsO c = [c].
Proof.
  intros Hc. rewrite comps_twO.
  destruct (@tw_dw_app sepO c [] Hc I) as [H1 H2]. rewrite app_nil_r in H1, H2.
  rewrite H1, H2. reflexivity.
Qed.

Lemma comps_intercalateO l : l <> [] -> Forall sepfreeO l -> compsO (intercalate [SEP] l) = l.
Proof.
  induction l as [|x l IH]; [congruence|]. intros _ Hl. inversion Hl as [|? ? Hx Hl']; subst.
  destruct l as [|y l]; [apply comps_wordO; exact Hx|].
  rewrite intercalate_consO. cbn [app]. rewrite comps_app_sepO, comps_wordO by exact Hx.
  rewrite IH by (auto; discriminate). reflexivity.
Qed.

(* the non-empty components of the elements of a Join *)
Definition fcO (l : list str) : list str := flat_map (fun e => filter neO (compsO e)) l.

Lemma filter_comps_intercalateO l : filter neO (compsO (intercalate [SEP] l)) = fcO l.
Proof.
  induction l as [|x l IH]; [reflexivity|]. destruct l as [|y l].
  - cbn [intercalate fcO flat_map]. rewrite app_nil_r. reflexivity.
  - rewrite intercalate_consO. cbn [app]. rewrite comps_app_sepO, filter_app, IH. reflexivity.
Qed.

Lemma fc_filterO l : fcO (filter neO l) = fcO l.
Proof.
  induction l as [|x l IH]; [reflexivity|]. destruct x as [|a x]; cbn [filter neO negb].
  - exact IH.
  - unfold fcO in *. cbn [flat_map]. rewrite IH. reflexivity.
Qed.

Lemma norm_comps_intercalateO r st l : norm r st (compsO (intercalate [SEP] l)) = norm r st (fcO l).
Proof. rewrite <- norm_filterO, filter_comps_intercalateO. reflexivity. Qed.

(* ---- [norm] is the identity on its own results --------------------------- *)
Lemma norm_goodsO r k : forall cs nm, Forall goodO cs -> norm r (stkO k nm) cs = LO k nm ++ cs.
Proof.
  induction cs as [|c cs IH]; intros nm Hg.
  - cbn [norm]. rewrite rev_stkO, app_nil_r. reflexivity.
  - inversion Hg as [|? ? (H1 & H2 & H3 & H4) Hg']; subst. rewrite norm_pushO by assumption.
    change (c :: stkO k nm) with (stkO k (c :: nm)). rewrite IH by exact Hg'.
    rewrite L_consO, <- app_assoc. reflexivity.
Qed.

Lemma norm_ddsO cs : forall k j, norm false (stkO j []) (repeat DDO k ++ cs) = norm false (stkO (j + k) []) cs.
Proof.
  induction k as [|k IH]; intros j; cbn [repeat app].
  - rewrite Nat.add_0_r. reflexivity.
  - rewrite norm_dd_pushO, IH. f_equal. f_equal. lia.
Qed.

Lemma norm_fixO rooted k names :
  Forall goodO names -> (rooted = true -> k = 0) -> norm rooted [] (LO k names) = LO k names.
Proof.
  intros Hg Hk. change (@nil str) with (stkO 0 []) at 1. unfold LO at 1. destruct rooted.
  - rewrite (Hk eq_refl). cbn [repeat app]. rewrite norm_goodsO by (apply Forall_rev; exact Hg). reflexivity.
  - rewrite norm_ddsO. cbn [plus]. rewrite norm_goodsO by (apply Forall_rev; exact Hg).
    unfold LO. cbn [rev]. rewrite app_nil_r. reflexivity.
Qed.

Lemma L_sepfreeO k names : Forall goodO names -> Forall sepfreeO (LO k names).
Proof.
  intros Hg. unfold LO. apply Forall_app. split.
  - apply Forall_repeatO. intros x [<-|[<-|[]]]; apply sep_DOT.
  - apply Forall_rev. eapply Forall_impl; [|exact Hg]. intros c (_ & H & _). exact H.
Qed.

Lemma intercalate_headO l :
  l <> [] -> Forall (fun c : str => c <> []) l -> Forall sepfreeO l ->
  exists a s, intercalate [SEP] l = a :: s /\ sepO a = false.
Proof.
  destruct l as [|x l]; [congruence|]. intros _ Hne Hsf.
  inversion Hne as [|? ? Hx _]; inversion Hsf as [|? ? Hxs _]; subst.
  destruct x as [|a x]; [congruence|]. rewrite intercalate_consO. cbn [app].
  eexists _, _. split; [reflexivity|]. apply Hxs. left. reflexivity.
Qed.


(* ---- the core of Clean (after the volume, before the Windows post-pass) --- *)
Definition renderO (rooted : bool) (cs : list str) : str :=
  if rooted then SEP :: intercalate [SEP] cs
  else match cs with [] => [DOT] | _ => intercalate [SEP] cs end.

Definition clean_core (path : str) : lazybuf :=
  match path with
  | [] => {| lb_buf := None; lb_w := 0 |}
  | c0 :: _ =>
      let rooted := sepO c0 in
      let n := length path in
      let out0 := {| lb_buf := None; lb_w := 0 |} in
      let out1 := if rooted then lb_append path out0 SEP else out0 in
      let r0 := if rooted then 1 else 0 in
      let out2 := clean_loop os path rooted n (S n) r0 r0 out1 in
      if Nat.eqb (lb_w out2) 0 then lb_append path out2 DOT else out2
  end.

(* the cleaned components of a (volume-less) path *)
Definition ncompsO (path : str) : list str :=
  norm (sepO (nthb path 0)) [] (compsO path).

Theorem clean_core_spec c0 p' :
  let path := c0 :: p' in
  RO path (clean_core path) (renderO (sepO c0) (ncompsO path)).
Proof.
  intros path. subst path. unfold clean_core, ncompsO. change (nthb (c0 :: p') 0) with c0.
  cbv beta iota zeta. set (path := c0 :: p').
  destruct (sepO c0) eqn:Hr.
  - assert (HR1 : RO path (lb_append path {| lb_buf := None; lb_w := 0 |} SEP) [SEP]).
    { apply (@R_appendO path _ [] SEP (R_initO path)). unfold path. cbn [length]. lia. }
    assert (HL : RO path (clean_loop os path true (length path) (S (length path)) 1 (ddxO true 0)
                           (lb_append path {| lb_buf := None; lb_w := 0 |} SEP))
                   (olO true (norm true (stkO 0 []) (compsO p')))).
    { apply (@loop_correctO true path (S (length path)) [c0] p' 0 []);
        [reflexivity|reflexivity|unfold path; cbn [length]; lia|exact HR1|constructor|reflexivity|].
      split; [cbn; lia|]. intros [H|H]; congruence. }
    change (ddxO true 0) with 1 in HL.
    pose proof HL as (Hw & _).
    replace (Nat.eqb (lb_w _) 0) with false by (symmetry; apply Nat.eqb_neq; rewrite Hw; cbn; lia).
    replace (compsO path) with ([] :: compsO p') by (symmetry; apply (@comps_sepO' c0 p' Hr)).
    rewrite norm_emptyO. exact HL.
  - assert (HL : RO path (clean_loop os path false (length path) (S (length path)) 0 (ddxO false 0)
                           {| lb_buf := None; lb_w := 0 |})
                   (olO false (norm false (stkO 0 []) (compsO path)))).
    { apply (@loop_correctO false path (S (length path)) [] path 0 []);
        [reflexivity|reflexivity|lia|apply R_initO|constructor|discriminate|].
      split; [cbn; lia|]. intros [H|H]; congruence. }
    change (ddxO false 0) with 0 in HL. change (stkO 0 []) with (@nil str) in HL.
    destruct (norm_shape0O false path) as (k & names & Hn & Hg & _).
    set (l := norm false [] (compsO path)) in *.
    assert (Hne : Forall (fun c : str => c <> []) l) by (rewrite Hn; apply L_neO; exact Hg).
    destruct l as [|x l].
    + pose proof HL as (Hw & _). rewrite Hw. cbn [olO app intercalate length Nat.eqb renderO].
      apply (@R_appendO path _ [] DOT HL). unfold path. cbn [length]. lia.
    + pose proof HL as (Hw & _).
      replace (Nat.eqb (lb_w _) 0) with false; [exact HL|].
      symmetry. apply Nat.eqb_neq. rewrite Hw. unfold olO. cbn [app]. rewrite intercalate_consO, app_length.
      inversion Hne as [|? ? Hx _]; subst. destruct x; [congruence|cbn [length]; lia].
Qed.

Lemma ncompsO_shape path :
  exists k names, ncompsO path = LO k names /\ Forall goodO names /\ (sepO (nthb path 0) = true -> k = 0).
Proof. apply norm_shape0O. Qed.

End Gen.
