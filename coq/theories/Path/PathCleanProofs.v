(* Unbounded bridge between the loop-level model of Clean/Join/Abs (PathModel,
   POSIX flavour) and the component-level specification (PathSpec): for ALL
   byte strings, no bound, no axiom.

   Plan of the proof of [clean_spec_correct]:
   - [R path b out]: the lazy buffer [b] holds exactly the bytes [out];
     append / truncate / index laws ([R_append], [R_trunc], [R_index]).
   - [tw]/[dw] split a suffix at its first separator; [comps_tw] relates them
     to the component list of the specification.
   - the state of Pike's stack machine is [(k, names)]: k leading ".." (only
     when not rooted) followed by the kept names (top first); [ol] renders it.
   - [loop_unfold]: one iteration of [clean_loop] expressed on the remaining
     suffix; [loop_correct]: invariant by induction on the fuel, including the
     bound "bytes written <= bytes read" that makes every append land inside
     the buffer. *)
From Avfs Require Import Base PathModel PathSpec PathProofs.
Set Implicit Arguments.

(* ---- list facts -------------------------------------------------------- *)
Lemma rev_repeat_own (A : Type) (a : A) k : rev (repeat a k) = repeat a k.
Proof.
  induction k as [|k IH]; cbn [repeat rev]; auto. rewrite IH. symmetry. apply repeat_cons.
Qed.

Lemma set_nth_length l w c : length (set_nth l w c) = length l.
Proof.
  revert w; induction l as [|x l IH]; intros w; cbn [set_nth length]; auto.
  destruct w; cbn [length]; auto.
Qed.

Lemma firstn_S_set_nth l w c : w < length l -> firstn (S w) (set_nth l w c) = firstn w l ++ [c].
Proof.
  revert w; induction l as [|x l IH]; intros w Hw; cbn [length] in Hw; [lia|].
  destruct w as [|w]; cbn [set_nth firstn app].
  - reflexivity.
  - f_equal. apply IH. lia.
Qed.

Lemma firstn_S_nth (l : list N) w : w < length l -> firstn (S w) l = firstn w l ++ [nth w l 0%N].
Proof.
  revert w; induction l as [|x l IH]; intros w Hw; cbn [length] in Hw; [lia|].
  destruct w as [|w]; cbn [firstn nth app]; [reflexivity|]. f_equal. apply IH. lia.
Qed.

Lemma nthb_app_at pre rest i : nthb (pre ++ rest) (length pre + i) = nthb rest i.
Proof. unfold nthb. apply app_nth2_plus. Qed.

Lemma nthb_app0 pre c rest : nthb (pre ++ c :: rest) (length pre) = c.
Proof. pose proof (nthb_app_at pre (c :: rest) 0) as H. rewrite Nat.add_0_r in H. exact H. Qed.

Lemma nthb_app1 pre c rest : nthb (pre ++ c :: rest) (S (length pre)) = nthb rest 0.
Proof. replace (S (length pre)) with (length pre + 1) by lia. rewrite nthb_app_at. reflexivity. Qed.

Lemma nthb_app2 pre c rest : nthb (pre ++ c :: rest) (S (S (length pre))) = nthb rest 1.
Proof. replace (S (S (length pre))) with (length pre + 2) by lia. rewrite nthb_app_at. reflexivity. Qed.

Lemma skipn_app_at (A : Type) (pre rest : list A) : skipn (length pre) (pre ++ rest) = rest.
Proof. induction pre; cbn [length skipn app]; auto. Qed.

Lemma firstn_app_at (A : Type) (pre rest : list A) : firstn (length pre) (pre ++ rest) = pre.
Proof. induction pre; cbn [length firstn app]; [destruct rest|]; auto. f_equal; auto. Qed.

(* ---- splitting a suffix at its first separator ------------------------- *)
Fixpoint tw (f : N -> bool) (s : str) : str :=
  match s with [] => [] | c :: s' => if f c then [] else c :: tw f s' end.
Fixpoint dw (f : N -> bool) (s : str) : str :=
  match s with [] => [] | c :: s' => if f c then s else dw f s' end.

(* [s] is empty or starts with a byte satisfying [f] *)
Definition at_sep (f : N -> bool) (s : str) : Prop :=
  match s with [] => True | c :: _ => f c = true end.

Lemma tw_dw f s : tw f s ++ dw f s = s.
Proof. induction s as [|c s IH]; cbn [tw dw]; auto. destruct (f c); cbn [app]; congruence. Qed.

Lemma dw_at_sep f s : at_sep f (dw f s).
Proof. induction s as [|c s IH]; cbn [dw at_sep]; auto. destruct (f c) eqn:Hc; auto. Qed.

Lemma tw_none f s x : In x (tw f s) -> f x = false.
Proof.
  induction s as [|c s IH]; cbn [tw]; [intros []|]. destruct (f c) eqn:Hc; [intros []|].
  intros [<-|Hin]; auto.
Qed.

Lemma find_from_tw f s i : find_from f s i = i + length (tw f s).
Proof.
  revert i; induction s as [|c s IH]; intros i; cbn [find_from tw length]; [lia|].
  destruct (f c); cbn [length]; [lia|]. rewrite IH. lia.
Qed.

Lemma tw_dw_app f a b :
  (forall x, In x a -> f x = false) -> at_sep f b -> tw f (a ++ b) = a /\ dw f (a ++ b) = b.
Proof.
  intros Ha Hb. induction a as [|x a IH]; cbn [app].
  - destruct b as [|c b]; cbn [tw dw]; auto. cbn [at_sep] in Hb. rewrite Hb. auto.
  - cbn [tw dw]. rewrite (Ha x) by (left; reflexivity).
    destruct IH as [IH1 IH2]; [intros y Hy; apply Ha; right; exact Hy|]. rewrite IH1, IH2. auto.
Qed.

Lemma index_from_tw f pre rest :
  index_from f (pre ++ rest) (length pre) = length pre + length (tw f rest).
Proof. unfold index_from. rewrite skipn_app_at. apply find_from_tw. Qed.

Notation sepL := (is_sep Linux).

Lemma sepL_eq c : sepL c = N.eqb c SLASH.
Proof. reflexivity. Qed.

Lemma sepL_true c : sepL c = true -> c = SLASH.
Proof. rewrite sepL_eq. apply N.eqb_eq. Qed.

(* the components after the current one *)
Definition tailc (s : str) : list str := match s with [] => [] | _ :: s' => comps s' end.

Lemma comps_acc_tw cur p :
  comps_acc cur p = (rev cur ++ tw sepL p) :: match dw sepL p with [] => [] | _ :: s' => comps_acc [] s' end.
Proof.
  revert cur; induction p as [|c p IH]; intros cur; cbn [comps_acc tw dw].
  - rewrite app_nil_r. reflexivity.
  - rewrite sepL_eq. destruct (N.eqb c SLASH).
    + rewrite app_nil_r. reflexivity.
    + rewrite IH. cbn [rev]. rewrite <- app_assoc. reflexivity.
Qed.

Lemma comps_tw p : comps p = tw sepL p :: tailc (dw sepL p).
Proof. unfold comps. rewrite comps_acc_tw. reflexivity. Qed.

Lemma comps_nil : comps [] = [[]].
Proof. reflexivity. Qed.

Lemma comps_sep p : comps (SLASH :: p) = [] :: comps p.
Proof. reflexivity. Qed.

Lemma comps_acc_app_sep cur a b : comps_acc cur (a ++ SLASH :: b) = comps_acc cur a ++ comps b.
Proof.
  revert cur. induction a as [|c a IH]; intros cur; cbn [app comps_acc].
  - reflexivity.
  - destruct (N.eqb c SLASH); [cbn [app]; f_equal|]; apply IH.
Qed.

Lemma comps_app_sep a b : comps (a ++ SLASH :: b) = comps a ++ comps b.
Proof. apply comps_acc_app_sep. Qed.

Definition sepfree (c : str) : Prop := forall x, In x c -> sepL x = false.

Lemma comps_acc_sepfree cur p : sepfree cur -> Forall sepfree (comps_acc cur p).
Proof.
  revert cur; induction p as [|c p IH]; intros cur Hc; cbn [comps_acc].
  - constructor; [|constructor]. intros x Hx. apply Hc. apply in_rev. exact Hx.
  - destruct (N.eqb c SLASH) eqn:E.
    + constructor; [intros x Hx; apply Hc; apply in_rev; exact Hx|]. apply IH. intros x [].
    + apply IH. intros x [<-|Hx]; [exact E|apply Hc; exact Hx].
Qed.

Lemma comps_sepfree p : Forall sepfree (comps p).
Proof. apply comps_acc_sepfree. intros x []. Qed.

(* ---- intercalate -------------------------------------------------------- *)
Lemma intercalate_cons s x l :
  intercalate s (x :: l) = x ++ match l with [] => [] | _ => s ++ intercalate s l end.
Proof. destruct l; cbn [intercalate]; [rewrite app_nil_r|]; reflexivity. Qed.

Lemma intercalate_snoc s l c :
  intercalate s (l ++ [c]) = match l with [] => c | _ => intercalate s l ++ s ++ c end.
Proof.
  induction l as [|x l IH]; [reflexivity|].
  cbn [app]. rewrite intercalate_cons. destruct l as [|y l].
  - reflexivity.
  - rewrite IH. rewrite (intercalate_cons s x (y :: l)). cbn [app].
    rewrite <- !app_assoc. reflexivity.
Qed.

Lemma intercalate_nil_inv s l : Forall (fun c : str => c <> []) l -> intercalate s l = [] -> l = [].
Proof.
  intros Hl H. destruct l as [|x l]; auto. exfalso. rewrite intercalate_cons in H.
  inversion Hl as [|? ? Hx _]; subst. destruct x; [congruence|discriminate].
Qed.

Lemma intercalate_app_le s a b : length (intercalate s a) <= length (intercalate s (a ++ b)).
Proof.
  induction a as [|x a IH]; [cbn; lia|].
  cbn [app]. rewrite !intercalate_cons, !app_length. destruct a as [|y a].
  - cbn [app length]. lia.
  - cbn [app] in *. rewrite !app_length. lia.
Qed.

(* ---- the lazy buffer holds [out] ---------------------------------------- *)
Definition R (path : str) (b : lazybuf) (out : str) : Prop :=
  lb_w b = length out /\ lb_bytes path b = out /\
  match lb_buf b with Some buf => length buf = length path | None => True end /\
  length out <= length path.

Lemma R_init path : R path {| lb_buf := None; lb_w := 0 |} [].
Proof. unfold R, lb_bytes. cbn. repeat split; auto. lia. Qed.

Lemma R_append path b out c :
  R path b out -> length out < length path -> R path (lb_append path b c) (out ++ [c]).
Proof.
  destruct b as [[buf|] w]; unfold R, lb_append, lb_bytes; cbn [lb_buf lb_w];
    intros (Hw & Hb & Hl & Hle) Hlt; subst w.
  - cbn [lb_buf lb_w]. rewrite app_length. cbn [length]. repeat split; try lia.
    + rewrite firstn_S_set_nth by lia. rewrite Hb. reflexivity.
    + rewrite set_nth_length. exact Hl.
  - destruct (Nat.ltb (length out) (length path) && N.eqb (nthb path (length out)) c) eqn:E;
      cbn [lb_buf lb_w]; rewrite app_length; cbn [length]; repeat split; try lia.
    + apply andb_prop in E as [_ E]. apply N.eqb_eq in E. rewrite firstn_S_nth by lia.
      rewrite Hb. unfold nthb in E. rewrite E. reflexivity.
    + set (buf := firstn (length out) path ++ repeat 0%N (length path - length out)).
      assert (Hbl : length buf = length path).
      { unfold buf. rewrite app_length, firstn_length, repeat_length. lia. }
      rewrite firstn_S_set_nth by lia. f_equal. unfold buf.
      rewrite Hb. apply firstn_app_at.
    + rewrite set_nth_length, app_length, firstn_length, repeat_length. lia.
Qed.

Lemma R_fold path name : forall b out,
  R path b out -> length out + length name <= length path ->
  R path (fold_left (lb_append path) name b) (out ++ name).
Proof.
  induction name as [|c name IH]; intros b out HR Hl; cbn [fold_left].
  - rewrite app_nil_r. exact HR.
  - cbn [length] in Hl. replace (out ++ c :: name) with ((out ++ [c]) ++ name)
      by (rewrite <- app_assoc; reflexivity).
    apply IH; [apply R_append; [exact HR|lia]|]. rewrite app_length. cbn [length]. lia.
Qed.

Lemma R_trunc path b out w' :
  R path b out -> w' <= length out -> R path {| lb_buf := lb_buf b; lb_w := w' |} (firstn w' out).
Proof.
  intros (Hw & Hb & Hl & Hle) Hlt. unfold R. cbn [lb_buf lb_w]. rewrite firstn_length.
  split; [lia|]. split; [|split; [exact Hl|lia]].
  unfold lb_bytes in *. cbn [lb_buf lb_w]. destruct (lb_buf b); rewrite <- Hb, firstn_firstn; f_equal; lia.
Qed.

Lemma R_index path b out i : R path b out -> i < length out -> lb_index path b i = nth i out 0%N.
Proof.
  destruct b as [[buf|] w]; unfold R, lb_bytes, lb_index, nthb; cbn [lb_buf lb_w];
    intros (Hw & Hb & Hl & Hle) Hlt; subst w; rewrite <- Hb; symmetry; apply nth_firstn_lt_own; lia.
Qed.

Lemma backtrack_spec path b out dd lp :
  R path b out -> dd <= lp ->
  (lp = dd \/ sepL (nth lp out 0%N) = true) ->
  forall k fuel, k < fuel -> lp + k < length out ->
  (forall i, lp < i <= lp + k -> sepL (nth i out 0%N) = false) ->
  backtrack Linux path b dd (lp + k) fuel = lp.
Proof.
  intros HR Hdd Hstop. induction k as [|k IH]; intros fuel Hf Hlen Hmid;
    (destruct fuel as [|fuel]; [lia|]); cbn [backtrack].
  - rewrite Nat.add_0_r in *. destruct Hstop as [->|Hs].
    + rewrite Nat.ltb_irrefl. reflexivity.
    + rewrite (R_index (i := lp) HR) by lia. rewrite Hs, andb_false_r. reflexivity.
  - replace (Nat.ltb dd (lp + S k)) with true by (symmetry; apply Nat.ltb_lt; lia).
    rewrite (R_index (i := lp + S k) HR) by lia. rewrite Hmid by lia. cbn [negb andb].
    replace (lp + S k - 1) with (lp + k) by lia. apply IH; [lia|lia|]. intros i Hi. apply Hmid. lia.
Qed.

Lemma firstn_tw f s : firstn (length (tw f s)) s = tw f s.
Proof. rewrite <- (tw_dw f s) at 2. apply firstn_app_at. Qed.

(* ---- the state of Pike's stack machine ---------------------------------- *)
Definition DD : str := [DOT; DOT].

Definition good (c : str) : Prop :=
  c <> [] /\ sepfree c /\ is_dot c = false /\ is_dotdot c = false.

(* stack (top first) and its rendering order (bottom first) *)
Definition stk (k : nat) (names : list str) : list str := names ++ repeat DD k.
Definition L (k : nat) (names : list str) : list str := repeat DD k ++ rev names.

Lemma rev_stk k names : rev (stk k names) = L k names.
Proof. unfold stk, L. rewrite rev_app_distr, rev_repeat_own. reflexivity. Qed.

Definition ol (rooted : bool) (l : list str) : str :=
  (if rooted then [SLASH] else []) ++ intercalate [SLASH] l.
Definition ddx (rooted : bool) (k : nat) : nat :=
  if rooted then 1 else length (intercalate [SLASH] (repeat DD k)).

Lemma L_cons k top names : L k (top :: names) = L k names ++ [top].
Proof. unfold L. cbn [rev]. apply app_assoc. Qed.

Lemma L_S k : L (S k) [] = L k [] ++ [DD].
Proof. unfold L. cbn [rev]. rewrite !app_nil_r. cbn [repeat]. apply repeat_cons. Qed.

Lemma ol_snoc rooted l c :
  ol rooted (l ++ [c]) = match l with [] => ol rooted [] ++ c | _ => ol rooted l ++ SLASH :: c end.
Proof.
  unfold ol. rewrite intercalate_snoc. destruct l; [cbn [intercalate]; rewrite app_nil_r; reflexivity|].
  rewrite <- app_assoc. reflexivity.
Qed.

Lemma good_ne c : good c -> c <> [].
Proof. intros (H & _). exact H. Qed.

Lemma Forall_repeat (A : Type) (P : A -> Prop) a k : P a -> Forall P (repeat a k).
Proof. intros Ha. induction k; cbn [repeat]; constructor; auto. Qed.

Lemma L_ne k names : Forall good names -> Forall (fun c : str => c <> []) (L k names).
Proof.
  intros Hn. unfold L. apply Forall_app. split.
  - apply Forall_repeat. discriminate.
  - apply Forall_rev. eapply Forall_impl; [|exact Hn]. apply good_ne.
Qed.

Lemma len_ol_nil rooted k : (rooted = true -> k = 0) -> length (ol rooted (L k [])) = ddx rooted k.
Proof.
  intros Hk. unfold L. cbn [rev]. rewrite app_nil_r. destruct rooted.
  - rewrite (Hk eq_refl). reflexivity.
  - reflexivity.
Qed.

Lemma ddx_le rooted k names : (rooted = true -> k = 0) -> ddx rooted k <= length (ol rooted (L k names)).
Proof.
  intros Hk. unfold ol, ddx, L. destruct rooted.
  - cbn [app length]. lia.
  - cbn [app]. apply intercalate_app_le.
Qed.

Lemma elem_cond rooted l : Forall (fun c : str => c <> []) l ->
  ((rooted && negb (Nat.eqb (length (ol rooted l)) 1)) || (negb rooted && negb (Nat.eqb (length (ol rooted l)) 0)))
  = match l with [] => false | _ => true end.
Proof.
  intros Hl. unfold ol. destruct l as [|x l].
  - destruct rooted; reflexivity.
  - inversion Hl as [|? ? Hx _]; subst. rewrite intercalate_cons.
    destruct x as [|a x]; [congruence|]. destruct rooted; reflexivity.
Qed.

(* ---- one step of [norm] on a structured stack ---------------------------- *)
Lemma norm_empty r st cs : norm r st ([] :: cs) = norm r st cs.
Proof. reflexivity. Qed.

Lemma norm_dot r st c cs : is_dot c = true -> norm r st (c :: cs) = norm r st cs.
Proof. intros H. cbn [norm]. rewrite H, orb_true_r. reflexivity. Qed.

Lemma norm_push r st c cs :
  c <> [] -> is_dot c = false -> is_dotdot c = false -> norm r st (c :: cs) = norm r (c :: st) cs.
Proof.
  intros Hne Hd Hdd. cbn [norm]. rewrite Hd, Hdd. destruct c; [congruence|]. reflexivity.
Qed.

Lemma is_dotdot_DD c : is_dotdot c = true -> c = DD.
Proof. apply str_eqb_eq. Qed.

Lemma norm_dd_pop r k top names cs :
  good top -> norm r (stk k (top :: names)) (DD :: cs) = norm r (stk k names) cs.
Proof. intros (_ & _ & _ & Hdd). cbn [norm stk app]. cbn. rewrite Hdd. reflexivity. Qed.

Lemma norm_dd_root cs : norm true (stk 0 []) (DD :: cs) = norm true (stk 0 []) cs.
Proof. reflexivity. Qed.

Lemma norm_dd_push k cs : norm false (stk k []) (DD :: cs) = norm false (stk (S k) []) cs.
Proof. destruct k; reflexivity. Qed.

(* after a component, the rest of the component list may be read off the suffix *)
Lemma norm_tailc r st s : at_sep sepL s -> norm r st (tailc s) = norm r st (comps s).
Proof.
  destruct s as [|c s]; cbn [at_sep tailc]; [reflexivity|].
  intros Hc. apply sepL_true in Hc. subst c. rewrite comps_sep. reflexivity.
Qed.

(* ---- one iteration of the loop, on the remaining suffix ----------------- *)
Lemma tw_nil_b rest : str_eqb (tw sepL rest) [] = (Nat.eqb (length rest) 0 || sepL (nthb rest 0)).
Proof.
  destruct rest as [|d rest]; [reflexivity|]. cbn [tw nthb nth].
  change (Nat.eqb (length (d :: rest)) 0) with false. cbn [orb].
  destruct (sepL d); reflexivity.
Qed.

Lemma eqb_len1 (pre : str) c rest1 :
  Nat.eqb (S (length pre)) (length (pre ++ c :: rest1)) = Nat.eqb (length rest1) 0.
Proof.
  rewrite app_length. cbn [length].
  destruct (Nat.eqb_spec (length rest1) 0) as [E|E]; [apply Nat.eqb_eq|apply Nat.eqb_neq]; lia.
Qed.

Lemma eqb_len2 (pre : str) c d rest2 :
  Nat.eqb (S (S (length pre))) (length (pre ++ c :: d :: rest2)) = Nat.eqb (length rest2) 0.
Proof.
  rewrite app_length. cbn [length].
  destruct (Nat.eqb_spec (length rest2) 0) as [E|E]; [apply Nat.eqb_eq|apply Nat.eqb_neq]; lia.
Qed.

Lemma cond_dot pre c rest1 : sepL c = false ->
  (N.eqb c DOT && (Nat.eqb (S (length pre)) (length (pre ++ c :: rest1)) || sepL (nthb rest1 0)))
  = is_dot (tw sepL (c :: rest1)).
Proof.
  intros Hc. cbn [tw]. rewrite Hc. unfold is_dot. cbn [str_eqb].
  rewrite eqb_len1, tw_nil_b. reflexivity.
Qed.

Lemma cond_dotdot pre c rest1 : sepL c = false ->
  (N.eqb c DOT && N.eqb (nthb rest1 0) DOT
   && (Nat.eqb (S (S (length pre))) (length (pre ++ c :: rest1)) || sepL (nthb rest1 1)))
  = is_dotdot (tw sepL (c :: rest1)).
Proof.
  intros Hc. cbn [tw]. rewrite Hc. unfold is_dotdot. cbn [str_eqb].
  destruct rest1 as [|d rest2].
  - cbn [tw str_eqb]. destruct (N.eqb c DOT); reflexivity.
  - cbn [tw]. change (nthb (d :: rest2) 0) with d. change (nthb (d :: rest2) 1) with (nthb rest2 0).
    rewrite eqb_len2. destruct (sepL d) eqn:Hd.
    + apply sepL_true in Hd. subst d. cbn [str_eqb]. destruct (N.eqb c DOT); reflexivity.
    + cbn [str_eqb]. rewrite tw_nil_b, andb_assoc. reflexivity.
Qed.

Lemma loop_unfold rooted pre c rest1 f dd b :
  let path := pre ++ c :: rest1 in
  let r := length pre in
  let nm := tw sepL (c :: rest1) in
  clean_loop Linux path rooted (length path) (S f) r dd b =
  if sepL c then clean_loop Linux path rooted (length path) f (S r) dd b
  else if is_dot nm then clean_loop Linux path rooted (length path) f (S r) dd b
  else if is_dotdot nm then
    if Nat.ltb dd (lb_w b) then
      clean_loop Linux path rooted (length path) f (S (S r)) dd
        {| lb_buf := lb_buf b; lb_w := backtrack Linux path b dd (lb_w b - 1) (lb_w b) |}
    else if negb rooted then
      let out1 := if Nat.ltb 0 (lb_w b) then lb_append path b SLASH else b in
      let out2 := lb_append path (lb_append path out1 DOT) DOT in
      clean_loop Linux path rooted (length path) f (S (S r)) (lb_w out2) out2
    else clean_loop Linux path rooted (length path) f (S (S r)) dd b
  else
    let out1 := if (rooted && negb (Nat.eqb (lb_w b) 1)) || (negb rooted && negb (Nat.eqb (lb_w b) 0))
                then lb_append path b SLASH else b in
    clean_loop Linux path rooted (length path) f (r + length nm) dd (fold_left (lb_append path) nm out1).
Proof.
  intros path r nm. subst path r nm. cbn [clean_loop].
  replace (Nat.ltb (length pre) (length (pre ++ c :: rest1))) with true
    by (symmetry; apply Nat.ltb_lt; rewrite app_length; cbn [length]; lia).
  cbn [negb]. rewrite !nthb_app0, !nthb_app1, !nthb_app2.
  destruct (sepL c) eqn:Hc; [reflexivity|].
  rewrite cond_dot, cond_dotdot by exact Hc.
  destruct (is_dot (tw sepL (c :: rest1))); [reflexivity|].
  destruct (is_dotdot (tw sepL (c :: rest1))); [reflexivity|].
  rewrite index_from_tw.
  replace (length pre + length (tw sepL (c :: rest1)) - length pre) with (length (tw sepL (c :: rest1))) by lia.
  rewrite skipn_app_at, firstn_tw. reflexivity.
Qed.

(* ---- the loop invariant --------------------------------------------------- *)
Definition startsname (rest : str) : Prop :=
  match rest with [] => False | c :: _ => sepL c = false end.

Lemma at_sep_not_startsname s : at_sep sepL s -> startsname s -> False.
Proof. destruct s; cbn [at_sep startsname]; [auto|congruence]. Qed.

(* bytes written <= bytes read, strictly when a separator will have to be written *)
Definition bound (rooted : bool) (k : nat) (names : list str) (pre rest : str) : Prop :=
  length (ol rooted (L k names)) <= length pre /\
  ((k <> 0 \/ names <> []) -> startsname rest -> length (ol rooted (L k names)) < length pre).

Definition sp_of (l : list str) : str := match l with [] => [] | _ => [SLASH] end.

Lemma ol_push rooted k names nm :
  ol rooted (L k (nm :: names)) = ol rooted (L k names) ++ sp_of (L k names) ++ nm.
Proof. rewrite L_cons, ol_snoc. destruct (L k names); reflexivity. Qed.

Lemma L_nil_inv k names : L k names = [] -> k = 0 /\ names = [].
Proof.
  unfold L. intros H. apply app_eq_nil in H as [H1 H2]. split.
  - destruct k; [reflexivity|discriminate].
  - destruct names as [|x names]; [reflexivity|]. cbn [rev] in H2. apply app_eq_nil in H2 as [_ H2]. discriminate.
Qed.

Lemma L_nonnil k names : L k names <> [] -> k <> 0 \/ names <> [].
Proof.
  intros H. destruct k; [|left; discriminate]. destruct names; [|right; discriminate].
  exfalso. apply H. reflexivity.
Qed.

Lemma backtrack_pop path b rooted k top names :
  R path b (ol rooted (L k (top :: names))) -> good top -> (rooted = true -> k = 0) ->
  Nat.ltb (ddx rooted k) (lb_w b) = true /\
  backtrack Linux path b (ddx rooted k) (lb_w b - 1) (lb_w b) = length (ol rooted (L k names)) /\
  firstn (length (ol rooted (L k names))) (ol rooted (L k (top :: names))) = ol rooted (L k names) /\
  length (ol rooted (L k names)) < length (ol rooted (L k (top :: names))).
Proof.
  intros HR (Hne & Hsf & _ & _) Hk. pose proof HR as (Hw & _). rewrite Hw.
  rewrite ol_push in *. set (P := ol rooted (L k names)) in *.
  pose proof (@ddx_le rooted k names Hk) as Hdd. fold P in Hdd.
  assert (Htop : 1 <= length top) by (destruct top; [congruence|cbn [length]; lia]).
  rewrite !app_length. split; [apply Nat.ltb_lt; lia|]. split; [|split; [apply firstn_app_at|lia]].
  replace (length P + (length (sp_of (L k names)) + length top) - 1)
    with (length P + (length (sp_of (L k names)) + length top - 1)) by lia.
  apply (backtrack_spec HR); try lia.
  - destruct (L k names) eqn:EL.
    + left. apply L_nil_inv in EL as [-> ->]. unfold P. destruct rooted; reflexivity.
    + right. cbn [sp_of app]. rewrite app_nth2 by lia. rewrite Nat.sub_diag. reflexivity.
  - rewrite !app_length. lia.
  - intros i Hi. rewrite app_nth2 by lia. destruct (L k names) eqn:EL; cbn [sp_of app length] in *.
    + apply Hsf. apply nth_In. lia.
    + replace (i - length P) with (S (i - length P - 1)) by lia. cbn [nth]. apply Hsf. apply nth_In. lia.
Qed.

Lemma good_tw c rest1 :
  sepL c = false -> is_dot (tw sepL (c :: rest1)) = false -> is_dotdot (tw sepL (c :: rest1)) = false ->
  good (tw sepL (c :: rest1)).
Proof.
  intros Hc Hd Hdd. repeat split; auto.
  - cbn [tw]. rewrite Hc. discriminate.
  - intros x Hx. eapply tw_none. exact Hx.
Qed.

Lemma loop_correct rooted path : forall fuel pre rest k names b r,
  path = pre ++ rest -> r = length pre ->
  length rest < fuel ->
  R path b (ol rooted (L k names)) ->
  Forall good names -> (rooted = true -> k = 0) ->
  bound rooted k names pre rest ->
  R path (clean_loop Linux path rooted (length path) fuel r (ddx rooted k) b)
         (ol rooted (norm rooted (stk k names) (comps rest))).
Proof.
  induction fuel as [|f IH]; intros pre rest k names b r Hp Hr Hf HR Hg Hk (Hb1 & Hb2); [lia|].
  destruct rest as [|c rest1].
  - (* end of the path *)
    cbn [clean_loop].
    replace (Nat.ltb r (length path)) with false
      by (symmetry; apply Nat.ltb_ge; subst; rewrite app_nil_r; lia).
    cbn [negb]. rewrite comps_nil, norm_empty. cbn [norm]. rewrite rev_stk. exact HR.
  - subst path r. rewrite loop_unfold. cbv zeta.
    destruct (sepL c) eqn:Hc.
    { (* separator *)
      apply sepL_true in Hc. subst c. rewrite comps_sep, norm_empty.
      apply (IH (pre ++ [SLASH]) rest1 k names b); auto.
      - rewrite <- app_assoc. reflexivity.
      - rewrite app_length. cbn [length]. lia.
      - cbn [length] in Hf. lia.
      - split; rewrite app_length; cbn [length]; [lia|]. intros _ _. lia. }
    set (rest := c :: rest1) in *.
    set (nm := tw sepL rest). set (rest' := dw sepL rest).
    assert (Hsplit : rest = nm ++ rest') by (symmetry; apply tw_dw).
    assert (Hat : at_sep sepL rest') by apply dw_at_sep.
    assert (Hnm1 : 1 <= length nm) by (unfold nm, rest; cbn [tw]; rewrite Hc; cbn [length]; lia).
    assert (Hlen : length rest = length nm + length rest') by (rewrite Hsplit at 1; apply app_length).
    assert (Hpath : pre ++ rest = (pre ++ nm) ++ rest') by (rewrite Hsplit at 1; apply app_assoc).
    assert (Hstart : startsname rest) by exact Hc.
    rewrite (comps_tw rest). fold nm rest'.
    destruct (is_dot nm) eqn:Hd.
    { (* "." *)
      rewrite norm_dot by exact Hd. rewrite norm_tailc by exact Hat.
      apply str_eqb_eq in Hd.
      apply (IH (pre ++ nm) rest' k names b); auto.
      - rewrite app_length, Hd. cbn [length]. lia.
      - lia.
      - split; rewrite app_length; [lia|]. intros _ _. lia. }
    destruct (is_dotdot nm) eqn:Hdd.
    { (* ".." *)
      apply is_dotdot_DD in Hdd.
      assert (Hl2 : length nm = 2) by (rewrite Hdd; reflexivity).
      assert (Hr2 : S (S (length pre)) = length (pre ++ nm)) by (rewrite app_length; lia).
      rewrite Hdd at 1.
      destruct names as [|top names].
      - (* nothing to pop *)
        replace (Nat.ltb (ddx rooted k) (lb_w b)) with false
          by (symmetry; apply Nat.ltb_ge; destruct HR as (-> & _); rewrite len_ol_nil by exact Hk; lia).
        destruct rooted; cbn [negb].
        + (* at the root: dropped *)
          rewrite (Hk eq_refl) in *. rewrite norm_dd_root. rewrite norm_tailc by exact Hat.
          apply (IH (pre ++ nm) rest' 0 [] b); auto.
          * lia.
          * split; rewrite app_length; [lia|]. intros _ _. lia.
        + (* not rooted: ".." is kept *)
          change (stk k []) with (stk k (@nil str)).
          rewrite norm_dd_push. rewrite norm_tailc by exact Hat.
          set (out := ol false (L k [])) in *.
          assert (Hpl : length pre + 2 <= length (pre ++ rest))
            by (rewrite app_length; lia).
          assert (HR2 : R (pre ++ rest)
                          (lb_append (pre ++ rest)
                             (lb_append (pre ++ rest)
                                (if Nat.ltb 0 (lb_w b) then lb_append (pre ++ rest) b SLASH else b) DOT) DOT)
                          (ol false (L (S k) []))
                        /\ length (ol false (L (S k) [])) <= length pre + 2).
          { destruct k as [|k'].
            - assert (Hw0 : lb_w b = 0) by (destruct HR as (-> & _); reflexivity).
              rewrite Hw0. cbn [Nat.ltb Nat.leb]. split; [|cbn; lia].
              change (ol false (L 1 [])) with (([] ++ [DOT]) ++ [DOT]).
              apply R_append; [apply R_append; [exact HR|cbn [length]; lia]|cbn [length app]; lia].
            - assert (Hstrict : length out < length pre) by (apply Hb2; [left; discriminate|exact Hstart]).
              assert (Hwpos : Nat.ltb 0 (lb_w b) = true).
              { apply Nat.ltb_lt. destruct HR as (-> & _). unfold out, ol, L. cbn [repeat rev app].
                rewrite intercalate_cons, app_length. change (length DD) with 2. lia. }
              rewrite Hwpos.
              assert (Hol : ol false (L (S (S k')) []) = ((out ++ [SLASH]) ++ [DOT]) ++ [DOT]).
              { rewrite L_S, ol_snoc. fold out. unfold L at 1. cbn [repeat app].
                rewrite <- !app_assoc. reflexivity. }
              rewrite Hol. split.
              + apply R_append; [apply R_append; [apply R_append; [exact HR|lia]|]|];
                  rewrite ?app_length; cbn [length]; lia.
              + rewrite !app_length. cbn [length]. lia. }
          destruct HR2 as (HR2 & Hlen2).
          replace (lb_w _) with (ddx false (S k))
            by (destruct HR2 as (-> & _); symmetry; apply len_ol_nil; discriminate).
          apply (IH (pre ++ nm) rest' (S k) [] _); auto.
          * lia.
          * discriminate.
          * split; rewrite app_length; [lia|]. intros _ Hs. exfalso. exact (at_sep_not_startsname _ Hat Hs).
      - (* pop *)
        inversion Hg as [|? ? Hgt Hgn]; subst.
        destruct (@backtrack_pop _ _ _ _ _ _ HR Hgt Hk) as (Hlt & Hbt & Hfirst & Hshrink).
        rewrite Hlt, Hbt. rewrite norm_dd_pop by exact Hgt. rewrite norm_tailc by exact Hat.
        apply (IH (pre ++ nm) rest' k names _); auto.
        + lia.
        + pose proof (@R_trunc _ _ _ (length (ol rooted (L k names))) HR ltac:(lia)) as HRt.
          rewrite Hfirst in HRt. exact HRt.
        + split; rewrite app_length; [lia|]. intros _ _. lia. }
    (* a name *)
    assert (Hgn : good nm) by (apply good_tw; assumption).
    destruct Hgn as (Hn1 & Hn2 & Hn3 & Hn4).
    rewrite norm_push by assumption. rewrite norm_tailc by exact Hat.
    change (nm :: stk k names) with (stk k (nm :: names)).
    destruct HR as (Hw & HRrest). pose proof (conj Hw HRrest) as HR.
    rewrite Hw. rewrite elem_cond by (apply L_ne; exact Hg).
    assert (HR2 : R (pre ++ rest)
                    (fold_left (lb_append (pre ++ rest)) nm
                       (if match L k names with [] => false | _ => true end
                        then lb_append (pre ++ rest) b SLASH else b))
                    (ol rooted (L k (nm :: names)))
                  /\ length (ol rooted (L k (nm :: names))) <= length pre + length nm).
    { rewrite ol_push. destruct (L k names) eqn:EL; cbn [sp_of].
      - cbn [app]. split; [|rewrite app_length; lia].
        apply R_fold; [exact HR|]. rewrite app_length. lia.
      - assert (Hstrict : length (ol rooted (s :: l)) < length pre).
        { apply Hb2; [|exact Hstart]. apply L_nonnil. rewrite EL. discriminate. }
        replace (ol rooted (s :: l) ++ [SLASH] ++ nm) with ((ol rooted (s :: l) ++ [SLASH]) ++ nm)
          by (rewrite <- app_assoc; reflexivity).
        split; [|rewrite !app_length; cbn [length]; lia].
        apply R_fold; [apply R_append; [exact HR|rewrite app_length; lia]|].
        rewrite !app_length. cbn [length]. lia. }
    destruct HR2 as (HR2 & Hlen2).
    apply (IH (pre ++ nm) rest' k (nm :: names) _); auto.
    + rewrite app_length. reflexivity.
    + lia.
    + constructor; [repeat split; assumption|exact Hg].
    + split; rewrite app_length; [lia|]. intros _ Hs. exfalso. exact (at_sep_not_startsname _ Hat Hs).
Qed.

(* ---- shape of the result of [norm] ---------------------------------------- *)
Lemma norm_shape rooted : forall cs k names,
  Forall sepfree cs -> Forall good names -> (rooted = true -> k = 0) ->
  exists k' names', norm rooted (stk k names) cs = L k' names' /\ Forall good names' /\ (rooted = true -> k' = 0).
Proof.
  induction cs as [|c cs IH]; intros k names Hsf Hg Hk.
  - exists k, names. cbn [norm]. rewrite rev_stk. auto.
  - inversion Hsf as [|? ? Hc Hcs]; subst.
    destruct c as [|x c']. { rewrite norm_empty. apply IH; auto. }
    set (c := x :: c') in *.
    destruct (is_dot c) eqn:Hd. { rewrite norm_dot by exact Hd. apply IH; auto. }
    destruct (is_dotdot c) eqn:Hdd.
    { apply is_dotdot_DD in Hdd. rewrite Hdd. destruct names as [|top names].
      - destruct rooted.
        + rewrite (Hk eq_refl). rewrite norm_dd_root. apply IH; auto.
        + change (stk k []) with (stk k (@nil str)). rewrite norm_dd_push. apply IH; auto. discriminate.
      - inversion Hg; subst. rewrite norm_dd_pop by assumption. apply IH; auto. }
    rewrite norm_push; [|discriminate|auto|auto]. change (c :: stk k names) with (stk k (c :: names)).
    apply IH; auto. constructor; auto. repeat split; auto. discriminate.
Qed.

Lemma norm_shape0 rooted p :
  exists k names, norm rooted [] (comps p) = L k names /\ Forall good names /\ (rooted = true -> k = 0).
Proof. apply (@norm_shape rooted (comps p) 0 []); auto. apply comps_sepfree. Qed.

(* ---- Clean = specification, all strings ---------------------------------- *)
Lemma clean_linux_unfold c0 p' :
  let path := c0 :: p' in
  clean Linux path =
  let rooted := sepL c0 in
  let out0 := {| lb_buf := None; lb_w := 0 |} in
  let out1 := if rooted then lb_append path out0 SLASH else out0 in
  let r0 := if rooted then 1 else 0 in
  let out2 := clean_loop Linux path rooted (length path) (S (length path)) r0 r0 out1 in
  let out3 := if Nat.eqb (lb_w out2) 0 then lb_append path out2 DOT else out2 in
  lb_bytes path out3.
Proof.
  intros path. subst path. unfold clean. cbn [volume_name_len skipn from_slash]. cbv zeta. unfold lb_bytes.
  change (sepc Linux) with SLASH.
  match goal with |- match lb_buf ?b with _ => _ end = _ => destruct (lb_buf b) end; reflexivity.
Qed.

Theorem clean_spec_correct p : clean Linux p = clean_spec p.
Proof.
  destruct p as [|c0 p']; [reflexivity|].
  rewrite clean_linux_unfold. cbv zeta. unfold clean_spec.
  change (N.eqb c0 SLASH) with (sepL c0).
  set (path := c0 :: p'). destruct (sepL c0) eqn:Hr.
  - (* rooted *)
    apply sepL_true in Hr.
    assert (HR1 : R path (lb_append path {| lb_buf := None; lb_w := 0 |} SLASH) [SLASH]).
    { apply (@R_append path _ [] SLASH (R_init path)). unfold path. cbn [length]. lia. }
    assert (HL : R path (clean_loop Linux path true (length path) (S (length path)) 1 (ddx true 0)
                           (lb_append path {| lb_buf := None; lb_w := 0 |} SLASH))
                   (ol true (norm true (stk 0 []) (comps p')))).
    { apply (@loop_correct true path (S (length path)) [c0] p' 0 []);
        [reflexivity|reflexivity|unfold path; cbn [length]; lia|exact HR1|constructor|reflexivity|].
      split; [cbn; lia|]. intros [H|H]; congruence. }
    change (ddx true 0) with 1 in HL.
    destruct HL as (Hw & Hbytes & _ & _).
    replace (Nat.eqb (lb_w _) 0) with false by (symmetry; apply Nat.eqb_neq; rewrite Hw; cbn; lia).
    rewrite Hbytes. unfold path. rewrite Hr, comps_sep, norm_empty. reflexivity.
  - (* not rooted *)
    assert (HL : R path (clean_loop Linux path false (length path) (S (length path)) 0 (ddx false 0)
                           {| lb_buf := None; lb_w := 0 |})
                   (ol false (norm false (stk 0 []) (comps path)))).
    { apply (@loop_correct false path (S (length path)) [] path 0 []);
        [reflexivity|reflexivity|lia|apply R_init|constructor|discriminate|].
      split; [cbn; lia|]. intros [H|H]; congruence. }
    change (ddx false 0) with 0 in HL. change (stk 0 []) with (@nil str) in HL.
    destruct (norm_shape0 false path) as (k & names & Hn & Hg & _).
    set (l := norm false [] (comps path)) in *.
    assert (Hne : Forall (fun c : str => c <> []) l) by (rewrite Hn; apply L_ne; exact Hg).
    destruct l as [|x l].
    + (* empty result: "." *)
      pose proof HL as (Hw & _). rewrite Hw. cbn [ol app intercalate length Nat.eqb].
      pose proof (@R_append path _ _ DOT HL) as HA.
      destruct HA as (_ & HA & _); [unfold path; cbn; lia|]. rewrite HA. reflexivity.
    + pose proof HL as (Hw & Hbytes & _). 
      replace (Nat.eqb (lb_w _) 0) with false.
      * rewrite Hbytes. reflexivity.
      * symmetry. apply Nat.eqb_neq. rewrite Hw. unfold ol. cbn [app]. rewrite intercalate_cons, app_length.
        inversion Hne as [|? ? Hx _]; subst. destruct x; [congruence|cbn [length]; lia].
Qed.

(* ---- empty components are invisible to [norm] ---------------------------- *)
Definition ne (e : str) : bool := negb (match e with [] => true | _ => false end).

Lemma norm_filter r : forall cs st, norm r st (filter ne cs) = norm r st cs.
Proof.
  induction cs as [|c cs IH]; intros st; [reflexivity|].
  destruct c as [|x c']; [cbn [filter ne negb]; rewrite norm_empty; apply IH|].
  cbn [filter ne negb]. cbn [norm orb].
  destruct (is_dot (x :: c')); [apply IH|].
  destruct (is_dotdot (x :: c')); [|apply IH].
  destruct st as [|top st]; [destruct r; apply IH|]. destruct (is_dotdot top); apply IH.
Qed.

Lemma comps_word c : sepfree c -> comps c = [c].
Proof.
  intros Hc. rewrite comps_tw.
  destruct (@tw_dw_app sepL c [] Hc I) as [H1 H2]. rewrite app_nil_r in H1, H2.
  rewrite H1, H2. reflexivity.
Qed.

Lemma comps_intercalate l : l <> [] -> Forall sepfree l -> comps (intercalate [SLASH] l) = l.
Proof.
  induction l as [|x l IH]; [congruence|]. intros _ Hl. inversion Hl as [|? ? Hx Hl']; subst.
  destruct l as [|y l]; [apply comps_word; exact Hx|].
  rewrite intercalate_cons. cbn [app]. rewrite comps_app_sep, comps_word by exact Hx.
  rewrite IH by (auto; discriminate). reflexivity.
Qed.

(* the non-empty components of the elements of a Join *)
Definition fc (l : list str) : list str := flat_map (fun e => filter ne (comps e)) l.

Lemma filter_comps_intercalate l : filter ne (comps (intercalate [SLASH] l)) = fc l.
Proof.
  induction l as [|x l IH]; [reflexivity|]. destruct l as [|y l].
  - cbn [intercalate fc flat_map]. rewrite app_nil_r. reflexivity.
  - rewrite intercalate_cons. cbn [app]. rewrite comps_app_sep, filter_app, IH. reflexivity.
Qed.

Lemma fc_filter l : fc (filter ne l) = fc l.
Proof.
  induction l as [|x l IH]; [reflexivity|]. destruct x as [|a x]; cbn [filter ne negb].
  - exact IH.
  - unfold fc in *. cbn [flat_map]. rewrite IH. reflexivity.
Qed.

Lemma norm_comps_intercalate r st l : norm r st (comps (intercalate [SLASH] l)) = norm r st (fc l).
Proof. rewrite <- norm_filter, filter_comps_intercalate. reflexivity. Qed.

(* ---- [norm] is the identity on its own results --------------------------- *)
Lemma norm_goods r k : forall cs nm, Forall good cs -> norm r (stk k nm) cs = L k nm ++ cs.
Proof.
  induction cs as [|c cs IH]; intros nm Hg.
  - cbn [norm]. rewrite rev_stk, app_nil_r. reflexivity.
  - inversion Hg as [|? ? (H1 & H2 & H3 & H4) Hg']; subst. rewrite norm_push by assumption.
    change (c :: stk k nm) with (stk k (c :: nm)). rewrite IH by exact Hg'.
    rewrite L_cons, <- app_assoc. reflexivity.
Qed.

Lemma norm_dds cs : forall k j, norm false (stk j []) (repeat DD k ++ cs) = norm false (stk (j + k) []) cs.
Proof.
  induction k as [|k IH]; intros j; cbn [repeat app].
  - rewrite Nat.add_0_r. reflexivity.
  - rewrite norm_dd_push, IH. f_equal. f_equal. lia.
Qed.

Lemma norm_fix rooted k names :
  Forall good names -> (rooted = true -> k = 0) -> norm rooted [] (L k names) = L k names.
Proof.
  intros Hg Hk. change (@nil str) with (stk 0 []) at 1. unfold L at 1. destruct rooted.
  - rewrite (Hk eq_refl). cbn [repeat app]. rewrite norm_goods by (apply Forall_rev; exact Hg). reflexivity.
  - rewrite norm_dds. cbn [plus]. rewrite norm_goods by (apply Forall_rev; exact Hg).
    unfold L. cbn [rev]. rewrite app_nil_r. reflexivity.
Qed.

Lemma L_sepfree k names : Forall good names -> Forall sepfree (L k names).
Proof.
  intros Hg. unfold L. apply Forall_app. split.
  - apply Forall_repeat. intros x [<-|[<-|[]]]; reflexivity.
  - apply Forall_rev. eapply Forall_impl; [|exact Hg]. intros c (_ & H & _). exact H.
Qed.

Lemma intercalate_head l :
  l <> [] -> Forall (fun c : str => c <> []) l -> Forall sepfree l ->
  exists a s, intercalate [SLASH] l = a :: s /\ sepL a = false.
Proof.
  destruct l as [|x l]; [congruence|]. intros _ Hne Hsf.
  inversion Hne as [|? ? Hx _]; inversion Hsf as [|? ? Hxs _]; subst.
  destruct x as [|a x]; [congruence|]. rewrite intercalate_cons. cbn [app].
  eexists _, _. split; [reflexivity|]. apply Hxs. left. reflexivity.
Qed.

Theorem clean_spec_idempotent p : clean_spec (clean_spec p) = clean_spec p.
Proof.
  destruct p as [|c0 p']; [reflexivity|]. unfold clean_spec at 2 3.
  change (N.eqb c0 SLASH) with (sepL c0).
  destruct (norm_shape0 (sepL c0) (c0 :: p')) as (k & names & Hn & Hg & Hk). rewrite Hn.
  pose proof (L_sepfree k Hg) as Hsf. pose proof (L_ne k Hg) as Hne.
  destruct (sepL c0) eqn:Hr; unfold render.
  - unfold clean_spec. cbn [N.eqb Pos.eqb SLASH]. rewrite comps_sep, norm_empty.
    destruct (L k names) eqn:EL; [reflexivity|].
    rewrite comps_intercalate by (auto; discriminate). rewrite <- EL.
    rewrite norm_fix by assumption. reflexivity.
  - destruct (L k names) eqn:EL; [reflexivity|]. rewrite <- EL in *.
    destruct (@intercalate_head (L k names)) as (a & s' & Hi & Ha); auto; [rewrite EL; discriminate|].
    unfold clean_spec. rewrite Hi. change (N.eqb a SLASH) with (sepL a). rewrite Ha, <- Hi.
    rewrite comps_intercalate by (auto; rewrite EL; discriminate).
    rewrite norm_fix by (auto; discriminate). rewrite EL. reflexivity.
Qed.

Theorem clean_idempotent p : clean Linux (clean Linux p) = clean Linux p.
Proof. rewrite !clean_spec_correct. apply clean_spec_idempotent. Qed.

(* ---- shape of a cleaned absolute path ------------------------------------ *)
(* a proper name: non-empty, no separator, neither "." nor ".." *)
Definition good_comp (c : str) : Prop :=
  c <> [] /\ (forall x, In x c -> x <> SLASH) /\ c <> [DOT] /\ c <> [DOT; DOT].

Lemma good_good_comp c : good c <-> good_comp c.
Proof.
  unfold good, good_comp, sepfree, is_dot, is_dotdot. split; intros (H1 & H2 & H3 & H4); repeat split; auto.
  - intros x Hx E. apply H2 in Hx. rewrite sepL_eq in Hx. apply N.eqb_neq in Hx. auto.
  - apply str_eqb_neq. exact H3.
  - apply str_eqb_neq. exact H4.
  - intros x Hx. rewrite sepL_eq. apply N.eqb_neq. apply H2. exact Hx.
  - apply str_eqb_neq. exact H3.
  - apply str_eqb_neq. exact H4.
Qed.

Theorem clean_spec_rooted r :
  exists cs, clean_spec (SLASH :: r) = SLASH :: intercalate [SLASH] cs /\ Forall good_comp cs
             /\ cs = norm true [] (comps r).
Proof.
  unfold clean_spec. cbn [N.eqb Pos.eqb SLASH]. rewrite comps_sep, norm_empty.
  destruct (norm_shape0 true r) as (k & names & Hn & Hg & Hk).
  exists (norm true [] (comps r)). split; [reflexivity|]. split; [|reflexivity].
  rewrite Hn, (Hk eq_refl). unfold L. cbn [repeat app]. apply Forall_rev.
  eapply Forall_impl; [|exact Hg]. intros c. apply good_good_comp.
Qed.

Theorem clean_rooted p :
  is_abs Linux p = true ->
  exists cs, clean Linux p = SLASH :: intercalate [SLASH] cs /\ Forall good_comp cs.
Proof.
  intros Ha. apply is_abs_linux in Ha as (r & ->). rewrite clean_spec_correct.
  destruct (clean_spec_rooted r) as (cs & H1 & H2 & _). eauto.
Qed.

(* no ".." (and no ".") component survives in a cleaned absolute path *)
Theorem clean_no_dotdot_rooted p c :
  is_abs Linux p = true -> In c (comps (clean Linux p)) -> c <> [DOT; DOT] /\ c <> [DOT].
Proof.
  intros Ha Hin. destruct (clean_rooted p Ha) as (cs & Hc & Hg). rewrite Hc, comps_sep in Hin.
  destruct Hin as [<-|Hin]; [split; discriminate|].
  destruct cs as [|x cs]; [destruct Hin as [<-|[]]; split; discriminate|].
  rewrite comps_intercalate in Hin.
  - rewrite Forall_forall in Hg. destruct (Hg c Hin) as (_ & _ & H3 & H4). auto.
  - discriminate.
  - eapply Forall_impl; [|exact Hg]. intros a Hga. apply good_good_comp in Hga as (_ & H & _). exact H.
Qed.

(* ---- Join and Abs --------------------------------------------------------- *)
Lemma drop_empty_prefix_filter elems :
  match drop_empty_prefix elems with
  | [] => filter ne elems = []
  | x :: l => x <> [] /\ filter ne elems = x :: filter ne l
  end.
Proof.
  induction elems as [|e elems IH]; [reflexivity|]. destruct e as [|a e]; cbn [drop_empty_prefix filter ne negb].
  - exact IH.
  - split; [discriminate|reflexivity].
Qed.

Lemma clean_spec_intercalate (x : str) (l : list str) :
  x <> [] ->
  clean_spec (intercalate [SLASH] (x :: l))
  = render (is_abs_spec x) (norm (is_abs_spec x) [] (fc (x :: l))).
Proof.
  intros Hx. destruct x as [|a x]; [congruence|]. rewrite <- norm_comps_intercalate.
  pose proof (intercalate_cons [SLASH] (a :: x) l) as Hs. cbn [app] in Hs. rewrite Hs. reflexivity.
Qed.

(* Join on components: the non-empty components of all elements, normalised;
   rooted iff the first non-empty element is *)
Lemma join_spec_ne elems :
  join_spec elems = match filter ne elems with [] => [] | l => clean_spec (intercalate [SLASH] l) end.
Proof. reflexivity. Qed.

Lemma join_spec_comps (elems : list str) (x : str) (l : list str) :
  filter ne elems = x :: l ->
  join_spec elems = render (is_abs_spec x) (norm (is_abs_spec x) [] (fc elems)).
Proof.
  intros H. rewrite join_spec_ne, H. cbv beta iota. assert (Hx : x <> []).
  { assert (Hin : In x (filter ne elems)) by (rewrite H; left; reflexivity).
    apply filter_In in Hin as [_ Hin]. destruct x; [discriminate|discriminate]. }
  rewrite clean_spec_intercalate by exact Hx. rewrite <- H, fc_filter. reflexivity.
Qed.

Theorem join_spec_correct elems : join Linux elems = join_spec elems.
Proof.
  unfold join. pose proof (drop_empty_prefix_filter elems) as H.
  destruct (drop_empty_prefix elems) as [|x l].
  - rewrite join_spec_ne, H. reflexivity.
  - destruct H as (Hx & H). rewrite (join_spec_comps elems H).
    change (sepc Linux) with SLASH. rewrite clean_spec_correct, clean_spec_intercalate by exact Hx.
    assert (Hfc : fc (x :: l) = fc elems).
    { rewrite <- (fc_filter elems), H, <- (fc_filter (x :: l)). destruct x; [congruence|reflexivity]. }
    rewrite Hfc. reflexivity.
Qed.

Theorem join_comps (elems : list str) (x : str) (l : list str) :
  filter ne elems = x :: l ->
  join Linux elems = render (is_abs_spec x) (norm (is_abs_spec x) [] (fc elems)).
Proof. intros H. rewrite join_spec_correct. exact (join_spec_comps elems H). Qed.

Lemma is_abs_spec_eq p : is_abs Linux p = is_abs_spec p.
Proof. reflexivity. Qed.

Theorem abs_spec_correct cur p : abs Linux cur p = abs_spec cur p.
Proof.
  unfold abs, abs_spec. rewrite is_abs_spec_eq, clean_spec_correct, join_spec_correct. reflexivity.
Qed.
