(* Match of the POSIX flavour (PathMatch.path_match Linux), for ALL patterns and
   names (byte strings; no bound, no axiom).

   Parsed patterns: a pattern is a sequence of chunks [(star, ops)]; an op is a
   literal byte, '?', or a character class (negation flag + list of rune
   ranges).  [chunk_parses] / [cls_parse] are the grammar of one chunk as
   matchChunk reads it (escapes '\x', classes '[' '^'? range+ ']' with ranges
   lo or lo-hi whose bounds are read by getEsc); [pat_parses] cuts the pattern
   into chunks with the model's own tokenizer scanChunk; [pattern_grammar] (end of
   the file) generates the same parses without the tokenizer.

   Semantics: [op_match] (one op consumes one byte / one rune), [ops_match],
   and two matchers over parsed patterns:
     [pm]  - the declarative one: '*' = any separator-free byte string;
     [gm]  - [pm] + the commitment the Go code makes: every starred chunk is
             matched at the LEFTMOST admissible start (no backtracking over
             an earlier chunk).
   Proved:
     path_match = MVal true   <->  the pattern parses and [gm] holds
     path_match true  = MBad  <->  the pattern does not parse
     path_match false = MBad  <->  the leftmost run reaches a malformed chunk
     gm -> pm  (soundness w.r.t. the declarative matcher);  pm -> gm FAILS in
     general (example [pm_not_gm]: the Go algorithm, path/filepath's included,
     is incomplete when a later start of a chunk lets a class swallow a
     separator); the fuel of every loop of the model is adequate. *)
From Avfs Require Import Base PathModel PathMatch PathCleanProofs.
Set Implicit Arguments.

Notation isnil l := (match l with [] => true | _ => false end).

(* ---- parsed patterns ---------------------------------------------------------- *)
Inductive op := OLit (c : N) | OAny | OClass (neg : bool) (rs : list (N * N)).

Definition in_ranges (r : N) (rs : list (N * N)) : bool :=
  existsb (fun lh => N.leb (fst lh) r && N.leb r (snd lh)) rs.

(* the body of a class after '[' and the optional '^': ranges, then ']' (which
   closes the class only after at least one range: flag [b]) *)
Inductive cls_parse : bool -> str -> list (N * N) -> str -> Prop :=
| CP_end rest : cls_parse true (RBRACK :: rest) [] rest
| CP_single b chunk lo c1 rs rest :
    get_esc Linux chunk = Some (lo, c1) -> hd 0%N c1 <> MINUS ->
    cls_parse true c1 rs rest -> cls_parse b chunk ((lo, lo) :: rs) rest
| CP_range b chunk lo c2 hi c3 rs rest :
    get_esc Linux chunk = Some (lo, MINUS :: c2) -> get_esc Linux c2 = Some (hi, c3) ->
    cls_parse true c3 rs rest -> cls_parse b chunk ((lo, hi) :: rs) rest.

Inductive chunk_parses : str -> list op -> Prop :=
| CK_nil : chunk_parses [] []
| CK_any chunk ops : chunk_parses chunk ops -> chunk_parses (QMARK :: chunk) (OAny :: ops)
| CK_esc c chunk ops : chunk_parses chunk ops -> chunk_parses (BSLASH :: c :: chunk) (OLit c :: ops)
| CK_lit c chunk ops :
    c <> LBRACK -> c <> QMARK -> c <> BSLASH ->
    chunk_parses chunk ops -> chunk_parses (c :: chunk) (OLit c :: ops)
| CK_class_neg body rs rest ops :
    cls_parse false body rs rest -> chunk_parses rest ops ->
    chunk_parses (LBRACK :: CARET :: body) (OClass true rs :: ops)
| CK_class body rs rest ops :
    hd 0%N body <> CARET -> cls_parse false body rs rest -> chunk_parses rest ops ->
    chunk_parses (LBRACK :: body) (OClass false rs :: ops).

(* ---- semantics of ops ----------------------------------------------------------- *)
Inductive op_match : op -> str -> str -> Prop :=
| OM_lit c s : op_match (OLit c) (c :: s) s
| OM_any c0 s : c0 <> SLASH -> op_match OAny (c0 :: s) (skipn (snd (decode_rune (c0 :: s))) (c0 :: s))
| OM_class neg rs c0 s :
    in_ranges (fst (decode_rune (c0 :: s))) rs = negb neg ->
    op_match (OClass neg rs) (c0 :: s) (skipn (snd (decode_rune (c0 :: s))) (c0 :: s)).

Inductive ops_match : list op -> str -> str -> Prop :=
| OMS_nil s : ops_match [] s s
| OMS_cons o ops s t u : op_match o s t -> ops_match ops t u -> ops_match (o :: ops) s u.

Definition op_run (o : op) (s : str) : option str :=
  match s with
  | [] => None
  | c0 :: s' =>
      match o with
      | OLit c => if N.eqb c c0 then Some s' else None
      | OAny => if N.eqb c0 SLASH then None else Some (skipn (snd (decode_rune s)) s)
      | OClass neg rs =>
          if Bool.eqb (in_ranges (fst (decode_rune s)) rs) neg then None
          else Some (skipn (snd (decode_rune s)) s)
      end
  end.

Fixpoint ops_run (ops : list op) (s : str) : option str :=
  match ops with
  | [] => Some s
  | o :: ops' => match op_run o s with Some t => ops_run ops' t | None => None end
  end.

Lemma op_run_spec o s t : op_run o s = Some t <-> op_match o s t.
Proof.
  split.
  - destruct s as [|c0 s]; [discriminate|]. destruct o as [c| |neg rs]; cbn [op_run].
    + destruct (N.eqb_spec c c0) as [->|]; [|discriminate]. intros [= <-]. constructor.
    + destruct (N.eqb_spec c0 SLASH) as [|Hne]; [discriminate|]. intros [= <-]. constructor. exact Hne.
    + destruct (Bool.eqb (in_ranges (fst (decode_rune (c0 :: s))) rs) neg) eqn:E; [discriminate|].
      intros [= <-]. constructor. destruct (in_ranges _ rs), neg; cbn in *; congruence.
  - intros H. destruct H as [c s|c0 s Hne|neg rs c0 s E]; cbn [op_run].
    + rewrite N.eqb_refl. reflexivity.
    + apply N.eqb_neq in Hne. rewrite Hne. reflexivity.
    + rewrite E. destruct neg; reflexivity.
Qed.

Lemma ops_run_spec ops : forall s t, ops_run ops s = Some t <-> ops_match ops s t.
Proof.
  induction ops as [|o ops IH]; intros s t; cbn [ops_run].
  - split; [intros [= <-]; constructor|intros H; inversion H; reflexivity].
  - split.
    + destruct (op_run o s) as [u|] eqn:E; [|discriminate]. intros H. apply op_run_spec in E. apply IH in H.
      econstructor; eassumption.
    + intros H. inversion H as [|? ? ? u ? Ho Hops]; subst. apply op_run_spec in Ho. rewrite Ho. apply IH. exact Hops.
Qed.

(* ---- getEsc / DecodeRune consume at least one byte ------------------------------- *)
Lemma decode_rune_pos c s : 1 <= snd (decode_rune (c :: s)).
Proof.
  unfold decode_rune.
  repeat match goal with
         | |- context [if ?b then _ else _] => destruct b
         | |- context [match ?l with [] => _ | _ :: _ => _ end] => destruct l
         end; cbn [snd]; lia.
Qed.

Lemma get_esc_some chunk r rest :
  get_esc Linux chunk = Some (r, rest) ->
  rest <> [] /\ length rest < length chunk /\
  exists c tl, chunk = c :: tl /\ c <> RBRACK /\ c <> MINUS.
Proof.
  unfold get_esc. destruct chunk as [|c tl]; [discriminate|].
  destruct (N.eqb c MINUS || N.eqb c RBRACK) eqn:E; [discriminate|].
  apply orb_false_elim in E as [E1 E2]. apply N.eqb_neq in E1, E2.
  cbn [ostype_eqb negb]. rewrite andb_true_r.
  set (chunk1 := if N.eqb c BSLASH then tl else c :: tl).
  assert (Hl : length chunk1 <= length (c :: tl)) by (unfold chunk1; destruct (N.eqb c BSLASH); cbn [length]; lia).
  destruct chunk1 as [|d chunk1']; [discriminate|].
  pose proof (decode_rune_pos d chunk1') as Hpos.
  destruct (decode_rune (d :: chunk1')) as [r0 n]. cbn [snd] in Hpos.
  destruct (N.eqb r0 RUNE_ERROR && Nat.eqb n 1); [discriminate|].
  destruct (skipn n (d :: chunk1')) as [|x nchunk] eqn:Es; [discriminate|].
  intros [= <- <-]. split; [discriminate|]. split.
  - rewrite <- Es, skipn_length. cbn [length] in *. lia.
  - exists c, tl. auto.
Qed.

(* ---- the class loop ------------------------------------------------------------------ *)
Lemma in_ranges_cons r lo hi rs : in_ranges r ((lo, hi) :: rs) = (N.leb lo r && N.leb r hi) || in_ranges r rs.
Proof. reflexivity. Qed.

Lemma class_sound : forall fuel,
  (forall chunk r nr m m' rest,
     class_loop Linux fuel chunk r nr m = MVal (m', rest) ->
     exists rs, cls_parse (Nat.ltb 0 nr) chunk rs rest /\ m' = m || in_ranges r rs) /\
  (forall chunk r nr m m' rest,
     class_range Linux fuel chunk r nr m = MVal (m', rest) ->
     exists rs, (forall b, cls_parse b chunk rs rest) /\ m' = m || in_ranges r rs).
Proof.
  induction fuel as [|f [IHl IHr]]; [split; intros; discriminate|]. split.
  - intros chunk r nr m m' rest H. cbn [class_loop] in H.
    assert (Hr : class_range Linux f chunk r nr m = MVal (m', rest) ->
                 exists rs, cls_parse (Nat.ltb 0 nr) chunk rs rest /\ m' = m || in_ranges r rs).
    { intros H'. destruct (IHr _ _ _ _ _ _ H') as (rs & Hp & Hm). exists rs. auto. }
    destruct chunk as [|c chunk']; [auto|].
    destruct (N.eqb c RBRACK && Nat.ltb 0 nr) eqn:E; [|auto].
    apply andb_prop in E as [E1 E2]. apply N.eqb_eq in E1. subst c. injection H as <- <-.
    exists []. rewrite E2. split; [constructor|]. cbn. rewrite orb_false_r. reflexivity.
  - intros chunk r nr m m' rest H. cbn [class_range] in H.
    destruct (get_esc Linux chunk) as [[lo chunk1]|] eqn:E1; [|discriminate].
    destruct chunk1 as [|c chunk2]; [discriminate|].
    destruct (N.eqb c MINUS) eqn:Ec.
    + apply N.eqb_eq in Ec. subst c.
      destruct (get_esc Linux chunk2) as [[hi chunk3]|] eqn:E2; [|discriminate].
      destruct (IHl _ _ _ _ _ _ H) as (rs & Hp & Hm). exists ((lo, hi) :: rs). split.
      * intros b. eapply CP_range; eauto.
      * rewrite Hm, in_ranges_cons, orb_assoc. reflexivity.
    + apply N.eqb_neq in Ec. destruct (IHl _ _ _ _ _ _ H) as (rs & Hp & Hm). exists ((lo, lo) :: rs). split.
      * intros b. eapply CP_single; eauto.
      * rewrite Hm, in_ranges_cons, orb_assoc. reflexivity.
Qed.

Lemma class_complete b chunk rs rest :
  cls_parse b chunk rs rest ->
  forall fuel r nr m, b = Nat.ltb 0 nr -> 2 * length rs < fuel ->
  class_loop Linux fuel chunk r nr m = MVal (m || in_ranges r rs, rest).
Proof.
  induction 1 as [rest|b chunk lo c1 rs rest E1 Hm _ IH|b chunk lo c2 hi c3 rs rest E1 E2 _ IH];
    intros fuel r nr m Hb Hf.
  - destruct fuel as [|f]; [lia|]. cbn [class_loop]. rewrite <- Hb. cbn. rewrite orb_false_r. reflexivity.
  - cbn [length] in Hf. destruct fuel as [|[|f]]; try lia.
    destruct (get_esc_some _ E1) as (Hne & _ & c & tl & -> & Hc1 & Hc2).
    cbn [class_loop]. apply N.eqb_neq in Hc1. rewrite Hc1. cbn [andb].
    cbn [class_range]. rewrite E1. destruct c1 as [|x c1']; [congruence|].
    cbn [hd] in Hm. apply N.eqb_neq in Hm. rewrite Hm.
    rewrite IH by (auto; lia). rewrite in_ranges_cons, orb_assoc. reflexivity.
  - cbn [length] in Hf. destruct fuel as [|[|f]]; try lia.
    destruct (get_esc_some _ E1) as (Hne & _ & c & tl & -> & Hc1 & Hc2).
    cbn [class_loop]. apply N.eqb_neq in Hc1. rewrite Hc1. cbn [andb].
    cbn [class_range]. rewrite E1. rewrite N.eqb_refl, E2.
    rewrite IH by (auto; lia). rewrite in_ranges_cons, orb_assoc. reflexivity.
Qed.

Lemma cls_parse_len b chunk rs rest : cls_parse b chunk rs rest -> length rs + length rest < length chunk.
Proof.
  induction 1 as [rest|b chunk lo c1 rs rest E1 _ _ IH|b chunk lo c2 hi c3 rs rest E1 E2 _ IH]; cbn [length].
  - lia.
  - destruct (get_esc_some _ E1) as (_ & Hl & _). lia.
  - destruct (get_esc_some _ E1) as (_ & Hl & _). destruct (get_esc_some _ E2) as (_ & Hl2 & _).
    cbn [length] in Hl. lia.
Qed.

(* ---- matchChunk ------------------------------------------------------------------------ *)
Lemma chunk_parses_len chunk ops : chunk_parses chunk ops -> length ops <= length chunk.
Proof.
  induction 1 as [|chunk ops _ IH|c chunk ops _ IH|c chunk ops _ _ _ _ IH|body rs rest ops Hc _ IH|body rs rest ops _ Hc _ IH];
    cbn [length]; try lia; apply cls_parse_len in Hc; lia.
Qed.

Definition mc_res (failed : bool) (ops : list op) (s : str) : mres (option str) :=
  MVal (if failed then None else ops_run ops s).

Lemma match_chunk_complete chunk ops :
  chunk_parses chunk ops ->
  forall fuel s failed, length chunk < fuel -> match_chunk Linux fuel chunk s failed = mc_res failed ops s.
Proof.
  induction 1 as [|chunk ops _ IH|c chunk ops _ IH|c chunk ops H1 H2 H3 _ IH|body rs rest ops Hc _ IH|body rs rest ops Hcar Hc _ IH];
    intros fuel s failed Hf; (destruct fuel as [|f]; [lia|]); cbn [length] in Hf; unfold mc_res.
  - cbn [match_chunk]. destruct failed; reflexivity.
  - (* '?' *)
    cbn [match_chunk]. change (N.eqb QMARK LBRACK) with false. change (N.eqb QMARK QMARK) with true. cbv iota.
    destruct s as [|c0 s'].
    + rewrite orb_true_r. rewrite IH by lia. unfold mc_res. destruct failed; reflexivity.
    + rewrite orb_false_r. destruct failed.
      * rewrite IH by lia. reflexivity.
      * change (sepc Linux) with SLASH. destruct (decode_rune (c0 :: s')) as [r n] eqn:Ed.
        rewrite IH by lia. unfold mc_res. cbn [ops_run op_run]. rewrite Ed. cbn [snd].
        destruct (N.eqb c0 SLASH); reflexivity.
  - (* '\' c *)
    cbn [match_chunk]. change (N.eqb BSLASH LBRACK) with false. change (N.eqb BSLASH QMARK) with false.
    change (N.eqb BSLASH BSLASH && negb (ostype_eqb Linux Windows)) with true. cbv iota.
    destruct s as [|c0 s'].
    + rewrite orb_true_r. rewrite IH by lia. unfold mc_res. destruct failed; reflexivity.
    + rewrite orb_false_r. destruct failed.
      * rewrite IH by lia. reflexivity.
      * rewrite IH by lia. unfold mc_res. cbn [ops_run op_run]. destruct (N.eqb c c0); reflexivity.
  - (* literal *)
    cbn [match_chunk]. apply N.eqb_neq in H1, H2, H3. rewrite H1, H2, H3. cbn [andb].
    destruct s as [|c0 s'].
    + rewrite orb_true_r. rewrite IH by lia. unfold mc_res. destruct failed; reflexivity.
    + rewrite orb_false_r. destruct failed.
      * rewrite IH by lia. reflexivity.
      * rewrite IH by lia. unfold mc_res. cbn [ops_run op_run]. destruct (N.eqb c c0); reflexivity.
  - (* [^...] *)
    cbn [match_chunk]. change (N.eqb LBRACK LBRACK) with true. change (N.eqb CARET CARET) with true. cbv iota.
    pose proof (cls_parse_len Hc) as Hlen.
    set (fl := failed || isnil s).
    destruct (if fl then (0%N, s) else let '(r, n) := decode_rune s in (r, skipn n s)) as [r s1] eqn:Ers.
    rewrite (class_complete Hc) by (auto; lia). cbn [orb].
    rewrite IH by lia. unfold mc_res, fl in *. destruct failed; [reflexivity|]. cbn [orb] in *.
    destruct s as [|c0 s']; [reflexivity|]. cbn [orb ops_run op_run].
    destruct (decode_rune (c0 :: s')) as [r0 n0]. injection Ers as <- <-. cbn [fst snd].
    destruct (Bool.eqb (in_ranges r0 rs) true); reflexivity.
  - (* [...] *)
    cbn [match_chunk]. change (N.eqb LBRACK LBRACK) with true. cbv iota.
    pose proof (cls_parse_len Hc) as Hlen.
    set (fl := failed || isnil s).
    destruct (if fl then (0%N, s) else let '(r, n) := decode_rune s in (r, skipn n s)) as [r s1] eqn:Ers.
    assert (Ecar : (match body with
                    | c1 :: chunk'' => if N.eqb c1 CARET then (true, chunk'') else (false, body)
                    | [] => (false, body) end) = (false, body)).
    { destruct body as [|c1 b']; [reflexivity|]. cbn [hd] in Hcar. apply N.eqb_neq in Hcar. rewrite Hcar. reflexivity. }
    rewrite Ecar. rewrite (class_complete Hc) by (auto; lia). cbn [orb].
    rewrite IH by lia. unfold mc_res, fl in *. destruct failed; [reflexivity|]. cbn [orb] in *.
    destruct s as [|c0 s']; [reflexivity|]. cbn [orb ops_run op_run].
    destruct (decode_rune (c0 :: s')) as [r0 n0]. injection Ers as <- <-. cbn [fst snd].
    destruct (Bool.eqb (in_ranges r0 rs) false); reflexivity.
Qed.

Lemma match_chunk_sound : forall fuel chunk s failed res,
  match_chunk Linux fuel chunk s failed = MVal res -> exists ops, chunk_parses chunk ops.
Proof.
  induction fuel as [|f IH]; intros chunk s failed res H; [discriminate|].
  cbn [match_chunk] in H. destruct chunk as [|c chunk']; [exists []; constructor|].
  destruct (N.eqb c LBRACK) eqn:E1.
  { apply N.eqb_eq in E1. subst c.
    destruct (if failed || isnil s then (0%N, s) else let '(r, n) := decode_rune s in (r, skipn n s)) as [r s1].
    destruct chunk' as [|c1 chunk''].
    - destruct (class_loop Linux (S (S (2 * length (@nil N)))) [] r 0 false) as [[m chunk2]|] eqn:Ec; [|discriminate].
      destruct (proj1 (class_sound _) _ _ _ _ _ _ Ec) as (rs & Hp & _).
      destruct (IH _ _ _ _ H) as (ops & Hops). exists (OClass false rs :: ops).
      eapply CK_class; eauto. cbn. discriminate.
    - destruct (N.eqb c1 CARET) eqn:Ecar.
      + apply N.eqb_eq in Ecar. subst c1.
        destruct (class_loop Linux (S (S (2 * length chunk''))) chunk'' r 0 false) as [[m chunk2]|] eqn:Ec; [|discriminate].
        destruct (proj1 (class_sound _) _ _ _ _ _ _ Ec) as (rs & Hp & _).
        destruct (IH _ _ _ _ H) as (ops & Hops). exists (OClass true rs :: ops). eapply CK_class_neg; eauto.
      + destruct (class_loop Linux (S (S (2 * length (c1 :: chunk'')))) (c1 :: chunk'') r 0 false) as [[m chunk2]|] eqn:Ec; [|discriminate].
        destruct (proj1 (class_sound _) _ _ _ _ _ _ Ec) as (rs & Hp & _).
        destruct (IH _ _ _ _ H) as (ops & Hops). exists (OClass false rs :: ops).
        eapply CK_class; eauto. cbn [hd]. apply N.eqb_neq. exact Ecar. }
  destruct (N.eqb c QMARK) eqn:E2.
  { apply N.eqb_eq in E2. subst c.
    assert (Hx : exists ops, chunk_parses chunk' ops).
    { destruct (failed || isnil s); [exact (IH _ _ _ _ H)|].
      destruct (decode_rune s) as [r n]. exact (IH _ _ _ _ H). }
    destruct Hx as (ops & Hops). exists (OAny :: ops). constructor. exact Hops. }
  cbn [ostype_eqb negb] in H. rewrite andb_true_r in H.
  destruct (N.eqb c BSLASH) eqn:E3.
  { apply N.eqb_eq in E3. subst c. destruct chunk' as [|l0 lit']; [discriminate|].
    assert (Hx : exists ops, chunk_parses lit' ops).
    { destruct (failed || isnil s); [exact (IH _ _ _ _ H)|]. destruct s; exact (IH _ _ _ _ H). }
    destruct Hx as (ops & Hops). exists (OLit l0 :: ops). constructor. exact Hops. }
  assert (Hx : exists ops, chunk_parses chunk' ops).
  { destruct (failed || isnil s); [exact (IH _ _ _ _ H)|]. destruct s; exact (IH _ _ _ _ H). }
  destruct Hx as (ops & Hops). exists (OLit c :: ops).
  apply N.eqb_neq in E1, E2, E3. constructor; assumption.
Qed.

(* the three outcomes of matchChunk; ErrBadPattern does not depend on [s] *)
Theorem match_chunk_top_spec chunk s :
  (exists ops, chunk_parses chunk ops /\ match_chunk_top Linux chunk s = MVal (ops_run ops s)) \/
  ((forall ops, ~ chunk_parses chunk ops) /\ match_chunk_top Linux chunk s = MBad).
Proof.
  unfold match_chunk_top. destruct (match_chunk Linux (S (length chunk)) chunk s false) as [res|] eqn:E.
  - left. destruct (match_chunk_sound _ _ _ _ E) as (ops & Hops). exists ops. split; [exact Hops|].
    rewrite <- E. apply (match_chunk_complete Hops). lia.
  - right. split; [|reflexivity]. intros ops Hops.
    rewrite (match_chunk_complete Hops) in E by lia. discriminate.
Qed.

Lemma match_chunk_top_parses chunk ops s :
  chunk_parses chunk ops -> match_chunk_top Linux chunk s = MVal (ops_run ops s).
Proof. intros H. unfold match_chunk_top. apply (match_chunk_complete H). lia. Qed.

Lemma match_chunk_top_bad chunk s :
  (forall ops, ~ chunk_parses chunk ops) -> match_chunk_top Linux chunk s = MBad.
Proof.
  intros H. destruct (match_chunk_top_spec chunk s) as [(ops & Hops & _)|(_ & E)]; [|exact E].
  exfalso. exact (H ops Hops).
Qed.

(* ---- scanChunk --------------------------------------------------------------------------- *)
Lemma scan_len_ge : forall n p, length p <= n -> forall b i, i <= scan_len Linux p b i.
Proof.
  induction n as [|n IH]; intros p Hp b i.
  - destruct p; [cbn; lia|cbn in Hp; lia].
  - destruct p as [|c p']; [cbn; lia|]. cbn [length] in Hp. cbn [scan_len].
    destruct (N.eqb c BSLASH).
    + destruct p' as [|d p'']; [lia|]. cbn [length] in Hp.
      assert (H := IH p'' ltac:(lia) b (S (S i))). lia.
    + destruct (N.eqb c LBRACK); [assert (H := IH p' ltac:(lia) true (S i)); lia|].
      destruct (N.eqb c RBRACK); [assert (H := IH p' ltac:(lia) false (S i)); lia|].
      destruct (N.eqb c STAR).
      * destruct b; [assert (H := IH p' ltac:(lia) true (S i)); lia|lia].
      * assert (H := IH p' ltac:(lia) b (S i)); lia.
Qed.

Lemma scan_len_pos c p : c <> STAR -> 1 <= scan_len Linux (c :: p) false 0.
Proof.
  intros Hc. cbn [scan_len]. apply N.eqb_neq in Hc. rewrite Hc.
  destruct (N.eqb c BSLASH).
  - destruct p as [|d p']; [lia|]. assert (H := @scan_len_ge _ p' (le_n _) false 2). lia.
  - destruct (N.eqb c LBRACK); [assert (H := @scan_len_ge _ p (le_n _) true 1); lia|].
    destruct (N.eqb c RBRACK); assert (H := @scan_len_ge _ p (le_n _) false 1); lia.
Qed.

Lemma strip_stars_spec p :
  let q := snd (strip_stars p) in
  length q <= length p /\ (q = [] \/ exists c q', q = c :: q' /\ c <> STAR).
Proof.
  induction p as [|c p IH]; cbn [strip_stars]; [cbn; auto|].
  destruct (N.eqb c STAR) eqn:E; cbn [snd].
  - cbv zeta in IH. destruct IH as (H1 & H2). split; [cbn [length]; lia|exact H2].
  - split; [lia|]. right. exists c, p. apply N.eqb_neq in E. auto.
Qed.

Lemma scan_chunk_facts pattern star chunk rest :
  pattern <> [] -> scan_chunk Linux pattern = (star, chunk, rest) ->
  length rest < length pattern /\ (chunk = [] -> rest = []).
Proof.
  intros Hne. unfold scan_chunk. intros [= _ <- <-].
  destruct (strip_stars_spec pattern) as (Hl & Hq). set (q := snd (strip_stars pattern)) in *.
  assert (Hp : 1 <= length pattern) by (destruct pattern; [congruence|cbn [length]; lia]).
  destruct Hq as [->|(c & q' & -> & Hc)].
  - rewrite skipn_nil. cbn [length]. split; [lia|reflexivity].
  - pose proof (scan_len_pos q' Hc) as Hpos. set (i := scan_len Linux (c :: q') false 0) in *.
    split.
    + rewrite skipn_length. cbn [length] in *. lia.
    + destruct i; [lia|]. cbn [firstn]. discriminate.
Qed.

(* ---- the search for the start of a chunk ------------------------------------------------- *)
Definition acc (last : bool) (t : str) : bool := isnil t || negb last.

Definition try_here (ops : list op) (last : bool) (name : str) : option str :=
  match ops_run ops name with Some t => if acc last t then Some t else None | None => None end.

(* leftmost start, skipping non-separator bytes only *)
Fixpoint find_first (ops : list op) (last : bool) (name : str) : option str :=
  match try_here ops last name with
  | Some t => Some t
  | None => match name with
            | [] => None
            | c :: name' => if N.eqb c SLASH then None else find_first ops last name'
            end
  end.

Definition skip1 (ops : list op) (last : bool) (name : str) : option str :=
  match name with [] => None | c :: name' => if N.eqb c SLASH then None else find_first ops last name' end.

Lemma find_first_unfold ops last name :
  find_first ops last name = match try_here ops last name with Some t => Some t | None => skip1 ops last name end.
Proof. destruct name; reflexivity. Qed.

Definition search (star : bool) (ops : list op) (last : bool) (name : str) : option str :=
  if star then find_first ops last name else try_here ops last name.

Lemma star_loop_spec chunk ops pe :
  chunk_parses chunk ops -> forall name, star_loop Linux chunk pe name = MVal (skip1 ops pe name).
Proof.
  intros Hc. induction name as [|c name IH]; [reflexivity|].
  cbn [star_loop skip1]. change (sepc Linux) with SLASH. destruct (N.eqb c SLASH); [reflexivity|].
  rewrite (match_chunk_top_parses _ Hc), IH, find_first_unfold. unfold try_here, acc.
  destruct (ops_run ops name) as [t|]; [|reflexivity]. destruct pe, t; reflexivity.
Qed.

Lemma find_first_nil name : find_first [] true name = if contains_byte SLASH name then None else Some [].
Proof.
  induction name as [|c name IH]; [reflexivity|]. rewrite find_first_unfold.
  unfold try_here, acc. cbn [ops_run skip1 contains_byte existsb orb negb].
  rewrite (N.eqb_sym SLASH c). destruct (N.eqb c SLASH); [reflexivity|]. exact IH.
Qed.

(* ---- one iteration of Match ---------------------------------------------------------------- *)
Definition no_match (cr : bool) (rest : str) : mres bool :=
  if cr && negb (rest_ok Linux (S (length rest)) rest) then MBad else MVal false.

Lemma match_loop_step cr f pattern name star chunk rest ops :
  pattern <> [] -> scan_chunk Linux pattern = (star, chunk, rest) -> chunk_parses chunk ops -> 1 <= f ->
  match_loop Linux cr (S f) pattern name =
  match search star ops (isnil rest) name with
  | Some t => match_loop Linux cr f rest t
  | None => no_match cr rest
  end.
Proof.
  intros Hne Hs Hc Hf. destruct pattern as [|p0 p']; [congruence|]. cbn [match_loop]. rewrite Hs.
  destruct (scan_chunk_facts Hne Hs) as (_ & Hnil).
  destruct (star && isnil chunk) eqn:Esp.
  - (* trailing star *)
    apply andb_prop in Esp as [-> Ech]. destruct chunk; [|discriminate]. rewrite (Hnil eq_refl).
    inversion Hc; subst. cbn [search]. rewrite find_first_nil. change (sepc Linux) with SLASH.
    destruct (contains_byte SLASH name); cbn [negb].
    + unfold no_match. cbn. rewrite andb_false_r. reflexivity.
    + destruct f; [lia|]. reflexivity.
  - rewrite (match_chunk_top_parses _ Hc). fold (no_match cr rest).
    unfold search. rewrite find_first_unfold. unfold try_here. fold (acc (isnil rest) ).
    destruct (ops_run ops name) as [t|].
    + fold (acc (isnil rest) t). destruct (acc (isnil rest) t); [destruct star; reflexivity|].
      destruct star; [|reflexivity]. rewrite (star_loop_spec _ Hc). destruct (skip1 ops (isnil rest) name); reflexivity.
    + destruct star; [|reflexivity]. rewrite (star_loop_spec _ Hc). destruct (skip1 ops (isnil rest) name); reflexivity.
Qed.

Lemma match_loop_bad cr f pattern name star chunk rest :
  pattern <> [] -> scan_chunk Linux pattern = (star, chunk, rest) -> (forall ops, ~ chunk_parses chunk ops) ->
  match_loop Linux cr (S f) pattern name = MBad.
Proof.
  intros Hne Hs Hc. destruct pattern as [|p0 p']; [congruence|]. cbn [match_loop]. rewrite Hs.
  assert (Hch : isnil chunk = false) by (destruct chunk; [exfalso; apply (Hc []); constructor|reflexivity]).
  rewrite Hch, andb_false_r. rewrite (match_chunk_top_bad _ Hc). reflexivity.
Qed.

(* every chunk either parses or not *)
Lemma chunk_parses_dec chunk : (exists ops, chunk_parses chunk ops) \/ (forall ops, ~ chunk_parses chunk ops).
Proof. destruct (match_chunk_top_spec chunk []) as [(ops & H & _)|(H & _)]; eauto. Qed.

(* ---- parsed patterns ------------------------------------------------------------------------- *)
Definition pchunk : Type := (bool * list op)%type.

Inductive pat_parses : str -> list pchunk -> Prop :=
| PP_nil : pat_parses [] []
| PP_cons pattern star chunk rest ops cks :
    pattern <> [] -> scan_chunk Linux pattern = (star, chunk, rest) ->
    chunk_parses chunk ops -> pat_parses rest cks -> pat_parses pattern ((star, ops) :: cks).

(* the leftmost matcher, executable, on parsed patterns *)
Fixpoint gmatch (cks : list pchunk) (name : str) : bool :=
  match cks with
  | [] => isnil name
  | (star, ops) :: rest =>
      match search star ops (isnil rest) name with
      | Some t => gmatch rest t
      | None => false
      end
  end.

Lemma pat_parses_nil rest cks : pat_parses rest cks -> isnil cks = isnil rest.
Proof. intros H. destruct H as [|pattern ? ? ? ? ? Hne]; [reflexivity|]. destruct pattern; [congruence|reflexivity]. Qed.

Lemma rest_ok_parses : forall fuel rest cks, pat_parses rest cks -> length rest < fuel -> rest_ok Linux fuel rest = true.
Proof.
  induction fuel as [|f IH]; intros rest cks H Hf; [reflexivity|].
  destruct H as [|pattern star chunk rest ops cks Hne Hs Hc Hr]; [reflexivity|].
  destruct (scan_chunk_facts Hne Hs) as (Hl & _).
  destruct pattern as [|p0 p']; [congruence|]. cbn [rest_ok]. rewrite Hs.
  rewrite (match_chunk_top_parses _ Hc). apply (IH _ _ Hr). lia.
Qed.

Lemma rest_ok_sound : forall fuel rest, length rest < fuel -> rest_ok Linux fuel rest = true -> exists cks, pat_parses rest cks.
Proof.
  induction fuel as [|f IH]; intros rest Hf H; [lia|].
  destruct rest as [|p0 p']; [exists []; constructor|]. cbn [rest_ok] in H.
  destruct (scan_chunk Linux (p0 :: p')) as [[star chunk] rest] eqn:Hs.
  assert (Hne : p0 :: p' <> []) by discriminate.
  destruct (scan_chunk_facts Hne Hs) as (Hl & _).
  destruct (match_chunk_top_spec chunk []) as [(ops & Hc & E)|(_ & E)]; rewrite E in H; [|discriminate].
  destruct (IH rest ltac:(lia) H) as (cks & Hcks). exists ((star, ops) :: cks). econstructor; eauto.
Qed.

(* a pattern that parses: Match answers as the leftmost matcher does, whatever
   the flag and the (sufficient) fuel *)
Theorem match_loop_parses cr : forall fuel pattern cks name,
  pat_parses pattern cks -> length pattern < fuel ->
  match_loop Linux cr fuel pattern name = MVal (gmatch cks name).
Proof.
  induction fuel as [|f IH]; intros pattern cks name H Hf; [lia|].
  destruct H as [|pattern star chunk rest ops cks Hne Hs Hc Hr]; [reflexivity|].
  destruct (scan_chunk_facts Hne Hs) as (Hl & _).
  rewrite (match_loop_step cr name Hne Hs Hc) by (destruct pattern; [congruence|cbn [length] in Hf; lia]).
  cbn [gmatch]. rewrite (pat_parses_nil Hr).
  destruct (search star ops (isnil rest) name) as [t|].
  - apply IH; [exact Hr|lia].
  - unfold no_match. rewrite (rest_ok_parses Hr) by lia. rewrite andb_false_r. reflexivity.
Qed.

(* a value other than "false under check_rest = false" can only come from a pattern that parses *)
Theorem match_loop_val cr : forall fuel pattern name b,
  length pattern < fuel -> match_loop Linux cr fuel pattern name = MVal b -> cr = true \/ b = true ->
  exists cks, pat_parses pattern cks /\ gmatch cks name = b.
Proof.
  induction fuel as [|f IH]; intros pattern name b Hf H Hcb; [lia|].
  destruct pattern as [|p0 p'].
  { exists []. split; [constructor|]. cbn in H. injection H as <-. reflexivity. }
  assert (Hne : p0 :: p' <> []) by discriminate.
  destruct (scan_chunk Linux (p0 :: p')) as [[star chunk] rest] eqn:Hs.
  destruct (scan_chunk_facts Hne Hs) as (Hl & _).
  destruct (chunk_parses_dec chunk) as [(ops & Hc)|Hbad].
  2:{ rewrite (match_loop_bad cr f name Hne Hs Hbad) in H. discriminate. }
  rewrite (match_loop_step cr name Hne Hs Hc) in H by (cbn [length] in Hf; lia).
  destruct (search star ops (isnil rest) name) as [t|] eqn:Es.
  - destruct (IH rest t b ltac:(lia) H Hcb) as (cks & Hp & Hg). exists ((star, ops) :: cks).
    split; [econstructor; eauto|]. cbn [gmatch]. rewrite (pat_parses_nil Hp), Es. exact Hg.
  - unfold no_match in H. destruct cr; cbn [andb] in H.
    + destruct (rest_ok Linux (S (length rest)) rest) eqn:Er; [|discriminate]. injection H as <-.
      destruct (@rest_ok_sound (S (length rest)) rest ltac:(lia) Er) as (cks & Hp).
      exists ((star, ops) :: cks). split; [econstructor; eauto|]. cbn [gmatch]. rewrite (pat_parses_nil Hp), Es. reflexivity.
    + injection H as <-. destruct Hcb; discriminate.
Qed.

(* ---- declarative matchers over parsed patterns --------------------------------------------- *)
(* a chunk may stop at [t] when it is not the last one, or when nothing is left *)
Definition accP (rest : list pchunk) (t : str) : Prop := t = [] \/ rest <> [].

Lemma acc_iff (rest : list pchunk) t : acc (isnil rest) t = true <-> accP rest t.
Proof.
  unfold acc, accP. destruct t as [|c t], rest as [|p rest]; cbn [orb negb]; split; intros H;
    first [reflexivity | discriminate | (left; reflexivity) | (right; discriminate) | (destruct H; congruence)].
Qed.

(* '*' = any separator-free byte string, anywhere a chunk is starred *)
Inductive pm : list pchunk -> str -> Prop :=
| PM_nil : pm [] []
| PM_cons star ops rest x s t :
    (star = false -> x = []) -> sepfree x -> ops_match ops s t -> pm rest t ->
    pm ((star, ops) :: rest) (x ++ s).

(* ... with the commitment of the Go code: the chunk starts at the leftmost
   position where it matches (and, for the last chunk, reaches the end) *)
Inductive gm : list pchunk -> str -> Prop :=
| GM_nil : gm [] []
| GM_cons star ops rest x s t :
    (star = false -> x = []) -> sepfree x -> ops_match ops s t -> accP rest t ->
    (forall x1 x2 t', x = x1 ++ x2 -> x2 <> [] -> ops_match ops (x2 ++ s) t' -> ~ accP rest t') ->
    gm rest t -> gm ((star, ops) :: rest) (x ++ s).

Theorem gm_pm cks name : gm cks name -> pm cks name.
Proof. induction 1; econstructor; eauto. Qed.

Lemma try_here_some ops (rest : list pchunk) s t :
  try_here ops (isnil rest) s = Some t <-> ops_match ops s t /\ accP rest t.
Proof.
  unfold try_here. rewrite <- acc_iff, <- ops_run_spec. destruct (ops_run ops s) as [u|].
  - destruct (acc (isnil rest) u) eqn:E; split.
    + intros [= <-]. auto.
    + intros ([= <-] & _). reflexivity.
    + discriminate.
    + intros ([= <-] & H). congruence.
  - split; [discriminate|intros (H & _); discriminate].
Qed.

Lemma try_here_none ops (rest : list pchunk) s :
  try_here ops (isnil rest) s = None <-> (forall t, ops_match ops s t -> ~ accP rest t).
Proof.
  split.
  - intros H t Hm Ha. assert (E : try_here ops (isnil rest) s = Some t) by (apply try_here_some; auto). congruence.
  - intros H. destruct (try_here ops (isnil rest) s) as [t|] eqn:E; [|reflexivity].
    apply try_here_some in E as (Hm & Ha). exfalso. exact (H t Hm Ha).
Qed.

Lemma find_first_some ops last : forall name t,
  find_first ops last name = Some t ->
  exists x s, name = x ++ s /\ sepfree x /\ try_here ops last s = Some t /\
              (forall x1 x2, x = x1 ++ x2 -> x2 <> [] -> try_here ops last (x2 ++ s) = None).
Proof.
  induction name as [|c name IH]; intros t H; rewrite find_first_unfold in H.
  - destruct (try_here ops last []) as [u|] eqn:E; [|discriminate]. injection H as <-.
    exists [], []. repeat split; auto. intros ? []. intros x1 x2 E2. destruct x1, x2; try discriminate. congruence.
  - destruct (try_here ops last (c :: name)) as [u|] eqn:E.
    + injection H as <-. exists [], (c :: name). repeat split; auto. intros ? [].
      intros x1 x2 E2. destruct x1, x2; try discriminate. congruence.
    + cbn [skip1] in H. destruct (N.eqb c SLASH) eqn:Ec; [discriminate|].
      destruct (IH t H) as (x & s & -> & Hx & Ht & Hl). exists (c :: x), s. repeat split; auto.
      * intros y [<-|Hy]; [rewrite sepL_eq; exact Ec|apply Hx; exact Hy].
      * intros x1 x2 E2 Hne. destruct x1 as [|d x1]; cbn [app] in E2.
        -- subst x2. exact E.
        -- injection E2 as <- E2. apply (Hl x1 x2 E2 Hne).
Qed.

Lemma find_first_intro ops last : forall x s t,
  sepfree x -> try_here ops last s = Some t ->
  (forall x1 x2, x = x1 ++ x2 -> x2 <> [] -> try_here ops last (x2 ++ s) = None) ->
  find_first ops last (x ++ s) = Some t.
Proof.
  induction x as [|c x IH]; intros s t Hx Ht Hl; rewrite find_first_unfold.
  - cbn [app]. rewrite Ht. reflexivity.
  - rewrite (Hl [] (c :: x) eq_refl) by discriminate. cbn [app skip1].
    assert (Ec : N.eqb c SLASH = false) by (rewrite <- sepL_eq; apply Hx; left; reflexivity).
    rewrite Ec. apply IH; auto.
    + intros y Hy. apply Hx. right. exact Hy.
    + intros x1 x2 E Hne. apply (Hl (c :: x1) x2); [cbn [app]; f_equal; exact E|exact Hne].
Qed.

Theorem gmatch_gm : forall cks name, gmatch cks name = true <-> gm cks name.
Proof.
  induction cks as [|[star ops] rest IH]; intros name.
  - cbn [gmatch]. split.
    + destruct name; [constructor|discriminate].
    + intros H. inversion H. reflexivity.
  - cbn [gmatch]. split.
    + destruct (search star ops (isnil rest) name) as [t|] eqn:Es; [|discriminate]. intros Hg. apply IH in Hg.
      unfold search in Es. destruct star.
      * destruct (find_first_some _ _ _ Es) as (x & s & -> & Hx & Ht & Hl). apply try_here_some in Ht as (Hm & Ha).
        apply (@GM_cons true ops rest x s t); auto; [discriminate|].
        intros x1 x2 t' E Hne Hm'. apply (proj1 (try_here_none ops rest (x2 ++ s)) (Hl x1 x2 E Hne)). exact Hm'.
      * apply try_here_some in Es as (Hm & Ha).
        apply (@GM_cons false ops rest [] name t); auto. intros ? []. intros x1 x2 t' E. destruct x1, x2; try discriminate. congruence.
    + intros H. inversion H as [|star' ops' rest' x s t Hst Hx Hm Ha Hl Hg]; subst.
      apply IH in Hg. unfold search. destruct star.
      * erewrite find_first_intro; eauto.
        -- apply try_here_some. auto.
        -- intros x1 x2 E Hne. apply try_here_none. intros t' Hm'. exact (Hl x1 x2 t' E Hne Hm').
      * rewrite (Hst eq_refl). cbn [app].
        assert (E : try_here ops (isnil rest) s = Some t) by (apply try_here_some; auto). rewrite E. exact Hg.
Qed.

(* ---- Match = the leftmost matcher ---------------------------------------------------------- *)
Theorem path_match_parses cr pattern cks name :
  pat_parses pattern cks -> path_match Linux cr pattern name = MVal (gmatch cks name).
Proof. intros H. unfold path_match. apply match_loop_parses; [exact H|lia]. Qed.

Theorem path_match_true_iff cr pattern name :
  path_match Linux cr pattern name = MVal true <-> exists cks, pat_parses pattern cks /\ gm cks name.
Proof.
  split.
  - intros H. unfold path_match in H. destruct (@match_loop_val cr _ _ _ _ (Nat.lt_succ_diag_r _) H) as (cks & Hp & Hg); auto.
    exists cks. split; [exact Hp|]. apply gmatch_gm. exact Hg.
  - intros (cks & Hp & Hg). rewrite (path_match_parses cr name Hp). f_equal. apply gmatch_gm. exact Hg.
Qed.

Theorem path_match_sound cr pattern name :
  path_match Linux cr pattern name = MVal true -> exists cks, pat_parses pattern cks /\ pm cks name.
Proof. intros H. apply path_match_true_iff in H as (cks & Hp & Hg). exists cks. split; [exact Hp|apply gm_pm; exact Hg]. Qed.

(* with the rest of the pattern validated (path/filepath since Go 1.16; avfs' Match
   after the fix): ErrBadPattern exactly for the patterns that do not parse *)
Theorem path_match_bad_checked pattern name :
  path_match Linux true pattern name = MBad <-> ~ exists cks, pat_parses pattern cks.
Proof.
  split.
  - intros H (cks & Hp). rewrite (path_match_parses true name Hp) in H. discriminate.
  - intros Hn. destruct (path_match Linux true pattern name) as [b|] eqn:E; [|reflexivity]. exfalso. apply Hn.
    unfold path_match in E. destruct (@match_loop_val true _ _ _ _ (Nat.lt_succ_diag_r _) E) as (cks & Hp & _); eauto.
Qed.

Theorem path_match_false_checked pattern name :
  path_match Linux true pattern name = MVal false <-> exists cks, pat_parses pattern cks /\ ~ gm cks name.
Proof.
  split.
  - intros H. unfold path_match in H. destruct (@match_loop_val true _ _ _ _ (Nat.lt_succ_diag_r _) H) as (cks & Hp & Hg); auto.
    exists cks. split; [exact Hp|]. intros Hgm. apply gmatch_gm in Hgm. congruence.
  - intros (cks & Hp & Hg). rewrite (path_match_parses true name Hp). f_equal.
    destruct (gmatch cks name) eqn:E; [|reflexivity]. exfalso. apply Hg, gmatch_gm, E.
Qed.

(* without that validation (the code as it is in avfs): ErrBadPattern exactly
   when the leftmost run reaches a chunk that does not parse *)
Inductive reaches_bad : str -> str -> Prop :=
| RB_here pattern name star chunk rest :
    pattern <> [] -> scan_chunk Linux pattern = (star, chunk, rest) ->
    (forall ops, ~ chunk_parses chunk ops) -> reaches_bad pattern name
| RB_step pattern name star chunk rest ops t :
    pattern <> [] -> scan_chunk Linux pattern = (star, chunk, rest) -> chunk_parses chunk ops ->
    search star ops (isnil rest) name = Some t -> reaches_bad rest t -> reaches_bad pattern name.

Lemma search_ext star ops ops' last :
  (forall s, ops_run ops s = ops_run ops' s) -> forall name, search star ops last name = search star ops' last name.
Proof.
  intros He. assert (Ht : forall name, try_here ops last name = try_here ops' last name).
  { intros name. unfold try_here. rewrite He. reflexivity. }
  intros name. unfold search. destruct star; [|apply Ht].
  induction name as [|c name IH]; rewrite !find_first_unfold, Ht; [reflexivity|].
  cbn [skip1]. rewrite IH. reflexivity.
Qed.

(* two parses of a chunk run alike *)
Lemma chunk_parses_run chunk ops ops' :
  chunk_parses chunk ops -> chunk_parses chunk ops' -> forall s, ops_run ops s = ops_run ops' s.
Proof.
  intros H H' s. pose proof (match_chunk_top_parses s H) as E. rewrite (match_chunk_top_parses s H') in E.
  injection E as E. symmetry. exact E.
Qed.

Lemma match_loop_bad_unchecked : forall fuel pattern name,
  length pattern < fuel -> (match_loop Linux false fuel pattern name = MBad <-> reaches_bad pattern name).
Proof.
  induction fuel as [|f IH]; intros pattern name Hf; [lia|].
  destruct pattern as [|p0 p'].
  { split; [discriminate|]. intros H. inversion H; congruence. }
  assert (Hne : p0 :: p' <> []) by discriminate.
  destruct (scan_chunk Linux (p0 :: p')) as [[star chunk] rest] eqn:Hs.
  destruct (scan_chunk_facts Hne Hs) as (Hl & _).
  destruct (chunk_parses_dec chunk) as [(ops & Hc)|Hbad].
  - rewrite (match_loop_step false name Hne Hs Hc) by (cbn [length] in Hf; lia).
    assert (Hinv : reaches_bad (p0 :: p') name ->
                   exists t, search star ops (isnil rest) name = Some t /\ reaches_bad rest t).
    { intros H. inversion H as [? ? ? ? ? _ Hs' Hb|? ? ? ? ? ops' t' _ Hs' Hc' Es' Hr]; subst;
        rewrite Hs in Hs'; injection Hs' as <- <- <-.
      - exfalso. exact (Hb ops Hc).
      - exists t'. split; [|exact Hr]. rewrite <- Es'. apply search_ext. apply (chunk_parses_run Hc Hc'). }
    destruct (search star ops (isnil rest) name) as [t|] eqn:Es.
    + rewrite IH by lia. split.
      * intros H. eapply RB_step; eauto.
      * intros H. destruct (Hinv H) as (t' & [= <-] & Hr). exact Hr.
    + unfold no_match. cbn [andb]. split; [discriminate|].
      intros H. destruct (Hinv H) as (t' & Ht & _). discriminate.
  - rewrite (match_loop_bad false f name Hne Hs Hbad). split; [intros _; eapply RB_here; eauto|reflexivity].
Qed.

Theorem path_match_bad_unchecked pattern name :
  path_match Linux false pattern name = MBad <-> reaches_bad pattern name.
Proof. unfold path_match. apply match_loop_bad_unchecked. lia. Qed.

(* ---- fuel ------------------------------------------------------------------------------------ *)
(* any fuel above the length of the pattern gives the answer of Match: the fuel
   of the model (S (length pattern)) never runs out *)
Theorem match_loop_fuel cr : forall f1 f2 pattern name,
  length pattern < f1 -> length pattern < f2 ->
  match_loop Linux cr f1 pattern name = match_loop Linux cr f2 pattern name.
Proof.
  induction f1 as [|f1 IH]; intros f2 pattern name H1 H2; [lia|]. destruct f2 as [|f2]; [lia|].
  destruct pattern as [|p0 p']; [reflexivity|].
  assert (Hne : p0 :: p' <> []) by discriminate.
  destruct (scan_chunk Linux (p0 :: p')) as [[star chunk] rest] eqn:Hs.
  destruct (scan_chunk_facts Hne Hs) as (Hl & _).
  destruct (chunk_parses_dec chunk) as [(ops & Hc)|Hbad].
  - rewrite !(match_loop_step cr name Hne Hs Hc) by (cbn [length] in *; lia).
    destruct (search star ops (isnil rest) name); [apply IH; lia|reflexivity].
  - rewrite !(match_loop_bad cr _ name Hne Hs Hbad). reflexivity.
Qed.

(* ---- what '*' and '?' match ------------------------------------------------------------------ *)
(* a pattern made of '*' only matches exactly the names without separator *)
Theorem match_star_only cr name : path_match Linux cr [STAR] name = MVal (negb (contains_byte SLASH name)).
Proof. reflexivity. Qed.

Lemma pat_qmark : pat_parses [QMARK] [(false, [OAny])].
Proof.
  apply (@PP_cons [QMARK] false [QMARK] [] [OAny] []); [discriminate|reflexivity| |constructor].
  constructor. constructor.
Qed.

(* '?' alone matches exactly the names made of one rune (as DecodeRune reads
   it: an invalid byte counts for one) that is not the separator *)
Theorem match_qmark_only cr name :
  path_match Linux cr [QMARK] name = MVal true <->
  exists c0 s, name = c0 :: s /\ c0 <> SLASH /\ skipn (snd (decode_rune name)) name = [].
Proof.
  rewrite (path_match_parses cr name pat_qmark). cbn [gmatch search ops_run]. unfold try_here. cbn [ops_run].
  destruct name as [|c0 s]; cbn [op_run].
  - split; [discriminate|]. intros (? & ? & ? & _). discriminate.
  - destruct (N.eqb_spec c0 SLASH) as [->|Hne].
    + split; [discriminate|]. intros (? & ? & [= <- <-] & H & _). congruence.
    + unfold acc. cbn [negb]. rewrite orb_false_r.
      destruct (skipn (snd (decode_rune (c0 :: s))) (c0 :: s)) as [|y r] eqn:E.
      * split; [|reflexivity]. intros _. exists c0, s. auto.
      * split; [discriminate|]. intros (? & ? & _ & _ & H). discriminate.
Qed.

(* in both matchers what a '*' absorbs is separator-free by construction; as a
   consequence a pattern whose ops cannot match a separator (literals other
   than '/', and '?') only matches names without separator: first for names
   below 0x80 ([pm_no_sep_partial]), then for all names ([pm_no_sep], with
   [decode_rune_consumed]: the continuation bytes of a rune are never '/') *)
Definition ascii (s : str) : Prop := forall c, In c s -> (c < 128)%N.

Lemma decode_ascii c s : (c < 128)%N -> decode_rune (c :: s) = (c, 1).
Proof. intros H. unfold decode_rune. apply N.ltb_lt in H. rewrite H. reflexivity. Qed.

Lemma op_match_ascii o s t : ascii s -> op_match o s t -> exists c, s = c :: t.
Proof.
  intros Ha H. destruct H as [c s|c0 s Hne|neg rs c0 s E].
  - eauto.
  - rewrite decode_ascii by (apply Ha; left; reflexivity). cbn [snd skipn]. eauto.
  - rewrite decode_ascii by (apply Ha; left; reflexivity). cbn [snd skipn]. eauto.
Qed.

Lemma ops_match_ascii ops s t : ascii s -> ops_match ops s t -> exists u, s = u ++ t /\ length u = length ops.
Proof.
  intros Ha H. induction H as [s|o ops s t u Ho _ IH].
  - exists []. auto.
  - destruct (op_match_ascii Ha Ho) as (c & ->).
    destruct IH as (u' & -> & Hl); [intros y Hy; apply Ha; right; exact Hy|].
    exists (c :: u'). cbn [app length]. auto.
Qed.

Definition op_nosep (o : op) : Prop :=
  match o with OLit c => c <> SLASH | OAny => True | OClass _ _ => False end.

Lemma sepfree_app (a b : str) : sepfree a -> sepfree b -> sepfree (a ++ b).
Proof. intros Ha Hb x Hx. apply in_app_or in Hx as [Hx|Hx]; auto. Qed.

Lemma ascii_app_r (a b : str) : ascii (a ++ b) -> ascii b.
Proof. intros H c Hc. apply H. apply in_or_app. right. exact Hc. Qed.

Lemma ops_match_nosep ops s t :
  ascii s -> Forall op_nosep ops -> ops_match ops s t -> exists u, s = u ++ t /\ sepfree u.
Proof.
  intros Ha Hn H. induction H as [s|o ops s t u Ho _ IH].
  - exists []. split; [reflexivity|intros ? []].
  - inversion Hn as [|? ? Hno Hn']; subst.
    destruct (op_match_ascii Ha Ho) as (c & ->).
    destruct IH as (u' & -> & Hu); [intros y Hy; apply Ha; right; exact Hy|exact Hn'|].
    exists (c :: u'). split; [reflexivity|].
    assert (Hc : c <> SLASH).
    { inversion Ho; subst; cbn [op_nosep] in Hno; auto; try contradiction. }
    intros y [<-|Hy]; [rewrite sepL_eq; apply N.eqb_neq; exact Hc|apply Hu; exact Hy].
Qed.

Theorem pm_no_sep_partial cks name :
  pm cks name -> ascii name -> Forall (fun ck : pchunk => Forall op_nosep (snd ck)) cks -> sepfree name.
Proof.
  induction 1 as [|star ops rest x s t _ Hx Hm _ IH]; intros Ha Hn; [intros ? []|].
  inversion Hn as [|? ? Hno Hn']; subst. cbn [snd] in Hno.
  pose proof (ascii_app_r _ _ Ha) as Has.
  destruct (ops_match_nosep Has Hno Hm) as (u & -> & Hu).
  apply sepfree_app; [exact Hx|]. apply sepfree_app; [exact Hu|].
  apply IH; [apply (ascii_app_r _ _ Has)|exact Hn'].
Qed.

(* the bytes DecodeRune consumes after a first byte other than '/' are never '/'
   (continuation bytes are >= 0x80): the statement above holds for every name *)
Lemma inr_not_sep lo hi b : inr lo hi b = true -> (128 <= lo)%N -> sepL b = false.
Proof.
  unfold inr. intros H Hlo. apply andb_prop in H as [H _]. apply N.leb_le in H.
  rewrite sepL_eq. apply N.eqb_neq. unfold SLASH. lia.
Qed.

Lemma decode_rune_consumed c0 s :
  c0 <> SLASH -> sepfree (firstn (snd (decode_rune (c0 :: s))) (c0 :: s)).
Proof.
  intros Hc.
  assert (H0 : sepL c0 = false) by (rewrite sepL_eq; apply N.eqb_neq; exact Hc).
  unfold decode_rune.
  repeat match goal with
         | |- context [if ?b then _ else _] => destruct b eqn:?
         | |- context [match ?l with [] => _ | _ :: _ => _ end] => destruct l
         end; cbn [snd firstn];
  repeat match goal with H : _ && _ = true |- _ => apply andb_prop in H; destruct H end;
  intros x Hx; cbn [In] in Hx;
  repeat match goal with H : _ \/ _ |- _ => destruct H end; subst; try contradiction; try exact H0;
  try (eapply inr_not_sep; [eassumption|lia]).
Qed.

Lemma op_match_consumed o s t : op_nosep o -> op_match o s t -> exists u, s = u ++ t /\ sepfree u.
Proof.
  intros Hn H. destruct H as [c s|c0 s Hne|neg rs c0 s E]; cbn [op_nosep] in Hn.
  - exists [c]. split; [reflexivity|]. intros y [<-|[]]. rewrite sepL_eq. apply N.eqb_neq. exact Hn.
  - exists (firstn (snd (decode_rune (c0 :: s))) (c0 :: s)). split; [symmetry; apply firstn_skipn|].
    apply decode_rune_consumed. exact Hne.
  - contradiction.
Qed.

Lemma ops_match_consumed ops s t :
  Forall op_nosep ops -> ops_match ops s t -> exists u, s = u ++ t /\ sepfree u.
Proof.
  intros Hn H. induction H as [s|o ops s t u Ho _ IH].
  - exists []. split; [reflexivity|intros ? []].
  - inversion Hn as [|? ? Hno Hn']; subst.
    destruct (op_match_consumed Hno Ho) as (u1 & -> & H1). destruct (IH Hn') as (u2 & -> & H2).
    exists (u1 ++ u2). split; [apply app_assoc|apply sepfree_app; assumption].
Qed.

(* a pattern without class and without literal '/' only matches names without separator *)
Theorem pm_no_sep cks name :
  pm cks name -> Forall (fun ck : pchunk => Forall op_nosep (snd ck)) cks -> sepfree name.
Proof.
  induction 1 as [|star ops rest x s t _ Hx Hm _ IH]; intros Hn; [intros ? []|].
  inversion Hn as [|? ? Hno Hn']; subst. cbn [snd] in Hno.
  destruct (ops_match_consumed Hno Hm) as (u & -> & Hu).
  apply sepfree_app; [exact Hx|]. apply sepfree_app; [exact Hu|]. apply IH. exact Hn'.
Qed.

(* ---- the shape of what scanChunk returns ---------------------------------------------------- *)
Lemma scan_len_stop : forall n p, length p <= n -> forall b i,
  exists j, scan_len Linux p b i = i + j /\ j <= length p /\
            (skipn j p = [] \/ exists r, skipn j p = STAR :: r).
Proof.
  induction n as [|n IH]; intros p Hp b i.
  - destruct p; [|cbn in Hp; lia]. exists 0. cbn. auto.
  - destruct p as [|c p']; [exists 0; cbn; auto|]. cbn [length] in Hp. cbn [scan_len].
    assert (Hone : forall b', exists j, scan_len Linux p' b' (S i) = i + j /\ j <= length (c :: p') /\
                                       (skipn j (c :: p') = [] \/ exists r, skipn j (c :: p') = STAR :: r)).
    { intros b'. destruct (IH p' ltac:(lia) b' (S i)) as (j & E & Hj & Hs). exists (S j). cbn [length skipn].
      split; [lia|]. split; [lia|exact Hs]. }
    destruct (N.eqb c BSLASH).
    + destruct p' as [|d p''].
      * exists 1. cbn. split; [lia|]. auto.
      * cbn [length] in Hp. destruct (IH p'' ltac:(lia) b (S (S i))) as (j & E & Hj & Hs).
        exists (S (S j)). cbn [length skipn]. split; [lia|]. split; [lia|exact Hs].
    + destruct (N.eqb c LBRACK); [apply Hone|]. destruct (N.eqb c RBRACK); [apply Hone|].
      destruct (N.eqb c STAR) eqn:Es; [|apply Hone]. destruct b; [apply Hone|].
      apply N.eqb_eq in Es. subst c. exists 0. cbn [skipn length]. split; [lia|]. split; [lia|]. right. eauto.
Qed.

Lemma strip_stars_shape p :
  exists k, p = repeat STAR k ++ snd (strip_stars p) /\ fst (strip_stars p) = Nat.ltb 0 k.
Proof.
  induction p as [|c p IH]; [exists 0; auto|]. cbn [strip_stars].
  destruct (N.eqb c STAR) eqn:E; cbn [fst snd].
  - apply N.eqb_eq in E. subst c. destruct IH as (k & H1 & _). exists (S k). cbn [repeat app]. split; [f_equal; exact H1|reflexivity].
  - exists 0. auto.
Qed.

(* pattern = '*'^k ++ chunk ++ rest ; star <-> k > 0 ; rest is empty or starts with '*' *)
Theorem scan_chunk_shape pattern star chunk rest :
  scan_chunk Linux pattern = (star, chunk, rest) ->
  exists k, pattern = repeat STAR k ++ chunk ++ rest /\ star = Nat.ltb 0 k /\
            (rest = [] \/ exists r, rest = STAR :: r).
Proof.
  unfold scan_chunk. intros [= <- <- <-]. destruct (strip_stars_shape pattern) as (k & Hp & Hs).
  exists k. set (q := snd (strip_stars pattern)) in *. rewrite firstn_skipn. split; [exact Hp|]. split.
  - rewrite <- Hs. destruct pattern as [|c p]; [destruct k; [reflexivity|discriminate]|].
    cbn [strip_stars]. destruct (N.eqb c STAR); reflexivity.
  - destruct (@scan_len_stop _ q (le_n _) false 0) as (j & E & _ & H). rewrite E. exact H.
Qed.

(* every chunk after the first is starred *)
Definition chained (cks : list pchunk) : Prop :=
  match cks with [] => True | _ :: rest => Forall (fun ck : pchunk => fst ck = true) rest end.

Lemma pat_parses_starred pattern cks r :
  pattern = STAR :: r -> pat_parses pattern cks -> Forall (fun ck : pchunk => fst ck = true) cks.
Proof.
  intros Hp H. revert r Hp. induction H as [|pattern star chunk rest ops cks Hne Hs Hc Hr IH]; intros r Hp; [discriminate|].
  constructor.
  - cbn [fst]. subst pattern. unfold scan_chunk in Hs. injection Hs as <- _ _. reflexivity.
  - destruct (scan_chunk_shape Hs) as (_ & _ & _ & [->|(r' & ->)]).
    + inversion Hr; [constructor|congruence].
    + apply (IH r'). reflexivity.
Qed.

Lemma pat_parses_chained pattern cks : pat_parses pattern cks -> chained cks.
Proof.
  intros H. destruct H as [|pattern star chunk rest ops cks Hne Hs Hc Hr]; [exact I|]. cbn [chained].
  destruct (scan_chunk_shape Hs) as (_ & _ & _ & [->|(r' & ->)]).
  - inversion Hr; [constructor|congruence].
  - apply (pat_parses_starred eq_refl Hr).
Qed.

(* ---- completeness w.r.t. the declarative matcher: partial ------------------------------------ *)
(* [pm -> gm] does not hold in general (see [pm_not_gm] below).  It holds for
   the names Glob hands to Match when they are plain ASCII: no separator, every
   byte below 0x80 (then every op consumes exactly one byte and whatever lies
   between two possible starts of a chunk can be absorbed by the next '*'). *)
Lemma app_eq_split (A : Type) : forall (a b c d : list A),
  a ++ b = c ++ d -> length a <= length c -> exists e, c = a ++ e /\ b = e ++ d.
Proof.
  induction a as [|x a IH]; intros b c d E Hl.
  - exists c. auto.
  - destruct c as [|y c]; [cbn in Hl; lia|]. cbn [app] in E. injection E as <- E.
    destruct (IH b c d E) as (e & -> & ->); [cbn [length] in Hl; lia|]. exists e. auto.
Qed.

Lemma pm_prepend ops rest d t : sepfree d -> pm ((true, ops) :: rest) t -> pm ((true, ops) :: rest) (d ++ t).
Proof.
  intros Hd H. inversion H as [|star ops' rest' x s t' Hst Hx Hm Hp]; subst. rewrite app_assoc.
  econstructor; eauto; [discriminate|]. apply sepfree_app; assumption.
Qed.

Lemma find_first_exists ops last : forall x s t,
  sepfree x -> try_here ops last s = Some t -> exists t0, find_first ops last (x ++ s) = Some t0.
Proof.
  induction x as [|c x IH]; intros s t Hx Ht; rewrite find_first_unfold.
  - cbn [app]. rewrite Ht. eauto.
  - destruct (try_here ops last ((c :: x) ++ s)) as [t0|]; [eauto|]. cbn [app skip1].
    assert (Ec : N.eqb c SLASH = false) by (rewrite <- sepL_eq; apply Hx; left; reflexivity).
    rewrite Ec. apply (IH s t); [|exact Ht]. intros y Hy. apply Hx. right. exact Hy.
Qed.

Lemma sepfree_app_l (a b : str) : sepfree (a ++ b) -> sepfree a.
Proof. intros H x Hx. apply H. apply in_or_app. left. exact Hx. Qed.
Lemma sepfree_app_r (a b : str) : sepfree (a ++ b) -> sepfree b.
Proof. intros H x Hx. apply H. apply in_or_app. right. exact Hx. Qed.

Theorem pm_gm_partial : forall cks name,
  chained cks -> ascii name -> sepfree name -> pm cks name -> gm cks name.
Proof.
  induction cks as [|[star ops] rest IH]; intros name Hch Ha Hsf Hpm.
  { inversion Hpm. constructor. }
  inversion Hpm as [|star' ops' rest' x s t Hst Hx Hm Hp]; subst.
  assert (Hch' : chained rest).
  { cbn [chained] in Hch. destruct rest as [|r1 rest']; [exact I|]. cbn [chained]. inversion Hch; assumption. }
  pose proof (ascii_app_r _ _ Ha) as Has. pose proof (sepfree_app_r _ _ Hsf) as Hss.
  destruct (ops_match_ascii Has Hm) as (u & Es & Hu).
  assert (Hacc : accP rest t).
  { destruct rest; [inversion Hp; left; reflexivity|right; discriminate]. }
  assert (Hth : try_here ops (isnil rest) s = Some t) by (apply try_here_some; auto).
  destruct star.
  2:{ rewrite (Hst eq_refl) in *. apply (@GM_cons false ops rest [] s t); auto.
      - intros x1 x2 t' E. destruct x1, x2; try discriminate. congruence.
      - apply IH; auto; subst s; [apply (ascii_app_r _ _ Has)|apply (sepfree_app_r _ _ Hss)]. }
  destruct (@find_first_exists ops (isnil rest) x s t Hx Hth) as (t0 & Hff).
  destruct (find_first_some _ _ _ Hff) as (x0 & s0 & En & Hx0 & Ht0 & Hl).
  pose proof Ht0 as Ht0'. apply try_here_some in Ht0' as (Hm0 & Hacc0).
  assert (Has0 : ascii s0) by (apply (ascii_app_r x0); rewrite <- En; exact Ha).
  assert (Hss0 : sepfree s0) by (apply (sepfree_app_r x0); rewrite <- En; exact Hsf).
  destruct (ops_match_ascii Has0 Hm0) as (u0 & Es0 & Hu0).
  assert (Hle : length x0 <= length x).
  { destruct (Nat.le_gt_cases (length x0) (length x)) as [H|H]; [exact H|exfalso].
    destruct (@app_eq_split _ x s x0 s0 En ltac:(lia)) as (e & -> & ->).
    assert (He : e <> []) by (intros ->; rewrite app_nil_r in H; lia).
    rewrite (Hl x e eq_refl He) in Hth. discriminate. }
  destruct (@app_eq_split _ x0 s0 x s (eq_sym En) Hle) as (e & -> & Es0').
  (* t0 = d ++ t *)
  assert (Hd : exists d, t0 = d ++ t).
  { rewrite Es0 in Es0'. rewrite Es in Es0'. rewrite app_assoc in Es0'.
    destruct (@app_eq_split _ u0 t0 (e ++ u) t Es0') as (d & _ & ->); [rewrite app_length; lia|]. eauto. }
  destruct Hd as (d & ->).
  assert (Hsd : sepfree (d ++ t)) by (apply (sepfree_app_r u0); rewrite <- Es0; exact Hss0).
  assert (Hpm0 : pm rest (d ++ t)).
  { destruct rest as [|[st1 ops1] rest'].
    - inversion Hp; subst. destruct Hacc0 as [E|E]; [|congruence]. rewrite E. constructor.
    - cbn [chained] in Hch. inversion Hch as [|? ? Hs1 _]; subst. cbn [fst] in Hs1. subst st1.
      apply pm_prepend; [apply (sepfree_app_l _ _ Hsd)|exact Hp]. }
  rewrite En. apply (@GM_cons true ops rest x0 s0 (d ++ t)); auto.
  - discriminate.
  - intros x1 x2 t' E Hne Hm'. apply (proj1 (try_here_none ops rest (x2 ++ s0)) (Hl x1 x2 E Hne)). exact Hm'.
  - apply IH; auto. apply (ascii_app_r u0). rewrite <- Es0. exact Has0.
Qed.

Theorem path_match_complete_partial cr pattern cks name :
  pat_parses pattern cks -> ascii name -> sepfree name -> pm cks name ->
  path_match Linux cr pattern name = MVal true.
Proof.
  intros Hp Ha Hs Hpm. apply path_match_true_iff. exists cks. split; [exact Hp|].
  apply pm_gm_partial; auto. apply (pat_parses_chained Hp).
Qed.

(* ---- examples (non-vacuity) and the gap ------------------------------------------------------- *)
(* "*a[^x]*b" : chunks  * 'a' [^x]   and   * 'b' *)
Definition ex_pat : str := [42; 97; 91; 94; 120; 93; 42; 98]%N.
Definition ex_cks : list pchunk := [(true, [OLit 97%N; OClass true [(120%N, 120%N)]]); (true, [OLit 98%N])].

Lemma ex_parses : pat_parses ex_pat ex_cks.
Proof.
  apply (@PP_cons ex_pat true [97; 91; 94; 120; 93]%N [42; 98]%N [OLit 97%N; OClass true [(120%N, 120%N)]] [(true, [OLit 98%N])]);
    [discriminate|reflexivity| |].
  - apply CK_lit; try discriminate. apply (@CK_class_neg [120; 93]%N [(120%N, 120%N)] [] []); [|constructor].
    apply (@CP_single false [120; 93]%N 120%N [93]%N [] []); [reflexivity|discriminate|constructor].
  - apply (@PP_cons [42; 98]%N true [98]%N [] [OLit 98%N] []); [discriminate|reflexivity| |constructor].
    apply CK_lit; try discriminate. constructor.
Qed.

(* "xab" matches, both ways *)
Example match_example_true :
  path_match Linux false ex_pat [120; 97; 98; 99; 98]%N = MVal true /\ gm ex_cks [120; 97; 98; 99; 98]%N.
Proof.
  split; [reflexivity|]. apply gmatch_gm. reflexivity.
Qed.

(* the gap: on "aaa/b" the declarative matcher succeeds ('*' = "aa", 'a', [^x] = '/',
   '*' = "", 'b') but the leftmost commitment ("a" at 0) makes Match - avfs' and
   path/filepath's alike - answer false *)
Example pm_not_gm :
  pm ex_cks [97; 97; 97; 47; 98]%N /\ ~ gm ex_cks [97; 97; 97; 47; 98]%N
  /\ path_match Linux false ex_pat [97; 97; 97; 47; 98]%N = MVal false
  /\ path_match Linux true ex_pat [97; 97; 97; 47; 98]%N = MVal false.
Proof.
  split; [|split; [|split; reflexivity]].
  - apply (@PM_cons true _ _ [97; 97]%N [97; 47; 98]%N [98]%N); [discriminate| | |].
    + intros y [<-|[<-|[]]]; reflexivity.
    + apply (@OMS_cons _ _ _ [47; 98]%N); [constructor|].
      apply (@OMS_cons _ _ _ [98]%N); [|constructor].
      apply (@OM_class true [(120%N, 120%N)] 47%N [98]%N). reflexivity.
    + apply (@PM_cons true _ _ [] [98]%N []); [discriminate|intros ? []| |constructor].
      apply (@OMS_cons _ _ _ []); constructor.
  - intros H. apply gmatch_gm in H. discriminate.
Qed.

(* malformed patterns: "[a" is bad whatever the name; "a[" after a failed chunk
   is reported only with the rest of the pattern validated *)
Example match_example_bad :
  path_match Linux false [91; 97]%N [97]%N = MBad
  /\ path_match Linux false [98; 42; 91]%N [97]%N = MVal false
  /\ path_match Linux true [98; 42; 91]%N [97]%N = MBad.
Proof. repeat split; reflexivity. Qed.

(* ---- the parse of a pattern is unique ----------------------------------------------------------- *)
Lemma get_esc_rbrack rest r c1 : get_esc Linux (RBRACK :: rest) = Some (r, c1) -> False.
Proof. intros H. destruct (get_esc_some _ H) as (_ & _ & c & tl & [= <- _] & Hc & _). congruence. Qed.

Lemma cls_parse_det b chunk rs rest :
  cls_parse b chunk rs rest -> forall b' rs' rest', cls_parse b' chunk rs' rest' -> rs = rs' /\ rest = rest'.
Proof.
  induction 1 as [rest|b chunk lo c1 rs rest E1 Hm _ IH|b chunk lo c2 hi c3 rs rest E1 E2 _ IH];
    intros b' rs' rest' H'.
  - inversion H' as [|? ? ? ? ? ? E1'|? ? ? ? ? ? ? ? E1']; subst; auto; exfalso; exact (get_esc_rbrack E1').
  - inversion H' as [|? ? ? ? ? ? E1' Hm' Hc'|? ? ? ? ? ? ? ? E1' E2' Hc']; subst.
    + exfalso. exact (get_esc_rbrack E1).
    + rewrite E1 in E1'. injection E1' as <- <-. destruct (IH _ _ _ Hc') as (<- & <-). auto.
    + rewrite E1 in E1'. injection E1' as Hlo Hc1. subst. cbn [hd] in Hm. congruence.
  - inversion H' as [|? ? ? ? ? ? E1' Hm' Hc'|? ? ? ? ? ? ? ? E1' E2' Hc']; subst.
    + exfalso. exact (get_esc_rbrack E1).
    + rewrite E1 in E1'. injection E1' as Hlo Hc1. subst. cbn [hd] in Hm'. congruence.
    + rewrite E1 in E1'. injection E1' as <- <-. rewrite E2 in E2'. injection E2' as <- <-.
      destruct (IH _ _ _ Hc') as (<- & <-). auto.
Qed.

Theorem chunk_parses_det chunk ops : chunk_parses chunk ops -> forall ops', chunk_parses chunk ops' -> ops = ops'.
Proof.
  induction 1 as [|chunk ops _ IH|c chunk ops _ IH|c chunk ops H1 H2 H3 _ IH|body rs rest ops Hc _ IH|body rs rest ops Hcar Hc _ IH];
    intros ops' H'; inversion H'; subst; try congruence;
    try (f_equal; apply IH; assumption);
    try (cbn [hd] in *; congruence).
  - match goal with Hc' : cls_parse _ body _ _ |- _ => destruct (cls_parse_det Hc Hc') as (<- & <-) end.
    f_equal. apply IH. assumption.
  - match goal with Hc' : cls_parse _ body _ _ |- _ => destruct (cls_parse_det Hc Hc') as (<- & <-) end.
    f_equal. apply IH. assumption.
Qed.

Theorem pat_parses_det pattern cks : pat_parses pattern cks -> forall cks', pat_parses pattern cks' -> cks = cks'.
Proof.
  induction 1 as [|pattern star chunk rest ops cks Hne Hs Hc _ IH]; intros cks' H'.
  - inversion H'; [reflexivity|congruence].
  - inversion H' as [|? star' chunk' rest' ops' cks2 _ Hs' Hc' Hr']; subst; [congruence|].
    rewrite Hs in Hs'. injection Hs' as <- <- <-. rewrite (chunk_parses_det Hc Hc'). f_equal. apply IH. exact Hr'.
Qed.

Lemma pat_parses_unique : forall pattern cks cks', pat_parses pattern cks -> pat_parses pattern cks' -> cks = cks'.
Proof. intros pattern cks cks' H H'. exact (pat_parses_det H H'). Qed.

(* ================================================================================================ *)
(* A grammar of whole patterns that does not mention scanChunk                                     *)
(* ================================================================================================ *)
(* a chunk without unescaped '*' outside a class *)
Inductive chunk_ns : str -> list op -> Prop :=
| NS_nil : chunk_ns [] []
| NS_any chunk ops : chunk_ns chunk ops -> chunk_ns (QMARK :: chunk) (OAny :: ops)
| NS_esc c chunk ops : chunk_ns chunk ops -> chunk_ns (BSLASH :: c :: chunk) (OLit c :: ops)
| NS_lit c chunk ops :
    c <> LBRACK -> c <> QMARK -> c <> BSLASH -> c <> STAR ->
    chunk_ns chunk ops -> chunk_ns (c :: chunk) (OLit c :: ops)
| NS_class_neg body rs rest ops :
    cls_parse false body rs rest -> chunk_ns rest ops ->
    chunk_ns (LBRACK :: CARET :: body) (OClass true rs :: ops)
| NS_class body rs rest ops :
    hd 0%N body <> CARET -> cls_parse false body rs rest -> chunk_ns rest ops ->
    chunk_ns (LBRACK :: body) (OClass false rs :: ops).

(* pattern = '*'^k chunk rest ; rest empty or starting with '*' ; an empty chunk only at the end *)
Inductive pattern_grammar : str -> list pchunk -> Prop :=
| PG_nil : pattern_grammar [] []
| PG_cons k chunk rest ops cks :
    (0 < k \/ chunk <> []) -> chunk_ns chunk ops ->
    (rest = [] \/ exists r, rest = STAR :: r) -> (chunk = [] -> rest = []) ->
    pattern_grammar rest cks ->
    pattern_grammar (repeat STAR k ++ chunk ++ rest) ((Nat.ltb 0 k, ops) :: cks).

Lemma chunk_ns_parses chunk ops : chunk_ns chunk ops -> chunk_parses chunk ops.
Proof. induction 1; econstructor; eauto. Qed.

Lemma chunk_ns_hd chunk ops : chunk_ns chunk ops -> hd 0%N chunk <> STAR.
Proof. destruct 1; cbn [hd]; try discriminate. assumption. Qed.

(* ---- scanChunk over bytes, tokens, classes, chunks ---------------------------------------------- *)
Lemma scan_in c p i : c <> BSLASH -> c <> RBRACK -> scan_len Linux (c :: p) true i = scan_len Linux p true (S i).
Proof.
  intros H1 H2. cbn [scan_len]. apply N.eqb_neq in H1, H2. rewrite H1, H2.
  destruct (N.eqb c LBRACK); [reflexivity|]. destruct (N.eqb c STAR); reflexivity.
Qed.

Lemma scan_high_byte c p b i : (128 <= c)%N -> scan_len Linux (c :: p) b i = scan_len Linux p b (S i).
Proof.
  intros H. cbn [scan_len].
  assert (E1 : N.eqb c BSLASH = false) by (apply N.eqb_neq; unfold BSLASH; lia).
  assert (E2 : N.eqb c LBRACK = false) by (apply N.eqb_neq; unfold LBRACK; lia).
  assert (E3 : N.eqb c RBRACK = false) by (apply N.eqb_neq; unfold RBRACK; lia).
  assert (E4 : N.eqb c STAR = false) by (apply N.eqb_neq; unfold STAR; lia).
  rewrite E1, E2, E3, E4. reflexivity.
Qed.

Lemma scan_high (u X : str) b : Forall (fun c => (128 <= c)%N) u ->
  forall i, scan_len Linux (u ++ X) b i = scan_len Linux X b (i + length u).
Proof.
  induction 1 as [|c u Hc _ IH]; intros i; cbn [app length].
  - rewrite Nat.add_0_r. reflexivity.
  - rewrite (scan_high_byte _ _ _ Hc), IH. f_equal. lia.
Qed.

Lemma inr_high lo hi b : inr lo hi b = true -> (128 <= lo)%N -> (128 <= b)%N.
Proof. unfold inr. intros H Hlo. apply andb_prop in H as [H _]. apply N.leb_le in H. lia. Qed.

(* what DecodeRune consumes: the first byte, then bytes >= 0x80 *)
Lemma decode_rune_cont c0 s :
  exists u, firstn (snd (decode_rune (c0 :: s))) (c0 :: s) = c0 :: u /\ Forall (fun c => (128 <= c)%N) u.
Proof.
  unfold decode_rune.
  repeat match goal with
         | |- context [if ?b then _ else _] => destruct b eqn:?
         | |- context [match ?l with [] => _ | _ :: _ => _ end] => destruct l
         end; cbn [snd firstn];
  repeat match goal with H : _ && _ = true |- _ => apply andb_prop in H; destruct H end;
  eexists; (split; [reflexivity|]);
  repeat (constructor; try (eapply inr_high; [eassumption|lia])).
Qed.

Lemma get_esc_scan chunk r rest' :
  get_esc Linux chunk = Some (r, rest') ->
  exists consumed, chunk = consumed ++ rest' /\
    forall Y i, scan_len Linux (consumed ++ Y) true i = scan_len Linux Y true (i + length consumed).
Proof.
  unfold get_esc. destruct chunk as [|c tl]; [discriminate|].
  destruct (N.eqb c MINUS || N.eqb c RBRACK) eqn:E; [discriminate|].
  apply orb_false_elim in E as [_ E2]. apply N.eqb_neq in E2.
  cbn [ostype_eqb negb]. rewrite andb_true_r.
  destruct (N.eqb c BSLASH) eqn:Eb.
  - apply N.eqb_eq in Eb. subst c. destruct tl as [|d tl']; [discriminate|].
    destruct (decode_rune_cont d tl') as (u & Hu & Hh).
    destruct (decode_rune (d :: tl')) as [r0 n]. cbn [snd] in Hu.
    destruct (N.eqb r0 RUNE_ERROR && Nat.eqb n 1); [discriminate|].
    destruct (skipn n (d :: tl')) as [|x nchunk] eqn:Es; [discriminate|]. intros [= <- <-].
    exists (BSLASH :: d :: u). split.
    + change ((BSLASH :: d :: u) ++ x :: nchunk) with (BSLASH :: ((d :: u) ++ x :: nchunk)). f_equal.
      rewrite <- Hu, <- Es. symmetry. apply firstn_skipn.
    + intros Y i. cbn [app scan_len]. change (N.eqb BSLASH BSLASH) with true. cbv iota.
      rewrite (scan_high _ _ Hh). cbn [length]. f_equal. lia.
  - apply N.eqb_neq in Eb. destruct (decode_rune_cont c tl) as (u & Hu & Hh).
    destruct (decode_rune (c :: tl)) as [r0 n]. cbn [snd] in Hu.
    destruct (N.eqb r0 RUNE_ERROR && Nat.eqb n 1); [discriminate|].
    destruct (skipn n (c :: tl)) as [|x nchunk] eqn:Es; [discriminate|]. intros [= <- <-].
    exists (c :: u). split.
    + rewrite <- Hu, <- Es. symmetry. apply firstn_skipn.
    + intros Y i. cbn [app]. rewrite (scan_in _ _ Eb E2), (scan_high _ _ Hh). cbn [length]. f_equal. lia.
Qed.

Lemma cls_scan b body rs rest0 :
  cls_parse b body rs rest0 ->
  exists consumed, body = consumed ++ rest0 /\
    forall Y i, scan_len Linux (consumed ++ Y) true i = scan_len Linux Y false (i + length consumed).
Proof.
  induction 1 as [rest|b chunk lo c1 rs rest E1 Hm _ IH|b chunk lo c2 hi c3 rs rest E1 E2 _ IH].
  - exists [RBRACK]. split; [reflexivity|]. intros Y i. cbn [app length]. rewrite Nat.add_1_r. reflexivity.
  - destruct (get_esc_scan _ E1) as (k1 & -> & S1). destruct IH as (k2 & -> & S2).
    exists (k1 ++ k2). split; [apply app_assoc|]. intros Y i.
    rewrite <- app_assoc, S1, S2, app_length. f_equal. lia.
  - destruct (get_esc_scan _ E1) as (k1 & -> & S1). destruct (get_esc_scan _ E2) as (k2 & -> & S2).
    destruct IH as (k3 & -> & S3).
    exists (k1 ++ MINUS :: k2 ++ k3). split; [rewrite <- !app_assoc; cbn [app]; rewrite <- !app_assoc; reflexivity|].
    intros Y i. rewrite <- app_assoc, S1. cbn [app]. rewrite scan_in by discriminate.
    rewrite <- app_assoc, S2, S3, !app_length. cbn [length]. rewrite app_length. f_equal. lia.
Qed.

Lemma chunk_scan chunk ops :
  chunk_ns chunk ops -> forall X i, (X = [] \/ exists r, X = STAR :: r) ->
  scan_len Linux (chunk ++ X) false i = i + length chunk.
Proof.
  induction 1 as [|chunk ops _ IH|c chunk ops _ IH|c chunk ops H1 H2 H3 H4 _ IH|body rs rest ops Hc _ IH|body rs rest ops Hcar Hc _ IH];
    intros X i HX.
  - cbn [app length]. destruct HX as [->|(r & ->)]; [cbn; lia|]. cbn. lia.
  - cbn [app length]. change (scan_len Linux (QMARK :: chunk ++ X) false i) with (scan_len Linux (chunk ++ X) false (S i)).
    rewrite IH by exact HX. lia.
  - cbn [app length]. change (scan_len Linux (BSLASH :: c :: chunk ++ X) false i) with (scan_len Linux (chunk ++ X) false (S (S i))).
    rewrite IH by exact HX. lia.
  - cbn [app length scan_len]. apply N.eqb_neq in H1, H3, H4. rewrite H1, H3, H4.
    destruct (N.eqb c RBRACK); rewrite IH by exact HX; lia.
  - destruct (cls_scan Hc) as (k & -> & Sk). cbn [app length].
    change (scan_len Linux (LBRACK :: CARET :: (k ++ rest) ++ X) false i)
      with (scan_len Linux ((k ++ rest) ++ X) true (S (S i))).
    rewrite <- app_assoc, Sk, IH by exact HX. rewrite app_length. lia.
  - destruct (cls_scan Hc) as (k & -> & Sk). cbn [app length].
    change (scan_len Linux (LBRACK :: (k ++ rest) ++ X) false i)
      with (scan_len Linux ((k ++ rest) ++ X) true (S i)).
    rewrite <- app_assoc, Sk, IH by exact HX. rewrite app_length. lia.
Qed.

Lemma strip_stars_repeat k (q : str) :
  hd 0%N q <> STAR -> snd (strip_stars (repeat STAR k ++ q)) = q.
Proof.
  intros Hq. induction k as [|k IH]; cbn [repeat app].
  - destruct q as [|c q]; [reflexivity|]. cbn [strip_stars hd] in *. apply N.eqb_neq in Hq. rewrite Hq. reflexivity.
  - cbn [strip_stars]. change (N.eqb STAR STAR) with true. cbv iota. exact IH.
Qed.

Lemma scan_chunk_grammar k chunk rest ops :
  (0 < k \/ chunk <> []) -> chunk_ns chunk ops ->
  (rest = [] \/ exists r, rest = STAR :: r) -> (chunk = [] -> rest = []) ->
  scan_chunk Linux (repeat STAR k ++ chunk ++ rest) = (Nat.ltb 0 k, chunk, rest).
Proof.
  intros Hk Hc Hr Hcr. unfold scan_chunk.
  assert (Hq : hd 0%N (chunk ++ rest) <> STAR).
  { destruct chunk as [|c chunk']; [rewrite (Hcr eq_refl); discriminate|]. apply (chunk_ns_hd Hc). }
  rewrite (strip_stars_repeat k _ Hq), (chunk_scan Hc) by exact Hr. cbn [plus].
  rewrite firstn_app_at, skipn_app_at. f_equal. f_equal.
  destruct k as [|k]; [|reflexivity]. cbn [repeat app].
  destruct Hk as [Hk|Hk]; [lia|]. destruct chunk as [|c chunk']; [congruence|].
  cbn [app hd] in *. apply N.eqb_neq. exact Hq.
Qed.

Theorem pattern_grammar_parses pattern cks : pattern_grammar pattern cks -> pat_parses pattern cks.
Proof.
  induction 1 as [|k chunk rest ops cks Hk Hc Hr Hcr _ IH]; [constructor|].
  eapply PP_cons; [|apply (scan_chunk_grammar Hk Hc Hr Hcr)|apply chunk_ns_parses; exact Hc|exact IH].
  destruct Hk as [Hk|Hk].
  - destruct k; [lia|discriminate].
  - destruct k; [|discriminate]. destruct chunk; [congruence|discriminate].
Qed.

(* conversely: what scanChunk cuts is generated by the grammar *)
Lemma chunk_parses_ns chunk ops :
  chunk_parses chunk ops -> forall X i, scan_len Linux (chunk ++ X) false i = i + length chunk -> chunk_ns chunk ops.
Proof.
  induction 1 as [|chunk ops _ IH|c chunk ops _ IH|c chunk ops H1 H2 H3 _ IH|body rs rest ops Hc _ IH|body rs rest ops Hcar Hc _ IH];
    intros X i Hs.
  - constructor.
  - constructor. apply (IH X (S i)). cbn [app length] in Hs.
    change (scan_len Linux (QMARK :: chunk ++ X) false i) with (scan_len Linux (chunk ++ X) false (S i)) in Hs. lia.
  - constructor. apply (IH X (S (S i))). cbn [app length] in Hs.
    change (scan_len Linux (BSLASH :: c :: chunk ++ X) false i) with (scan_len Linux (chunk ++ X) false (S (S i))) in Hs. lia.
  - cbn [app length scan_len] in Hs. pose proof H1 as H1'. pose proof H3 as H3'.
    apply N.eqb_neq in H1', H3'. rewrite H1', H3' in Hs.
    destruct (N.eqb_spec c STAR) as [->|Hstar].
    + change (N.eqb STAR RBRACK) with false in Hs. cbv iota in Hs. lia.
    + constructor; auto. apply (IH X (S i)). destruct (N.eqb c RBRACK); lia.
  - destruct (cls_scan Hc) as (k & Ek & Sk). econstructor; [exact Hc|]. subst body.
    apply (IH X (S (S i) + length k)). cbn [app length] in Hs.
    change (scan_len Linux (LBRACK :: CARET :: (k ++ rest) ++ X) false i)
      with (scan_len Linux ((k ++ rest) ++ X) true (S (S i))) in Hs.
    rewrite <- app_assoc, Sk, app_length in Hs. lia.
  - destruct (cls_scan Hc) as (k & Ek & Sk). econstructor; [exact Hcar|exact Hc|]. subst body.
    apply (IH X (S i + length k)). cbn [app length] in Hs.
    change (scan_len Linux (LBRACK :: (k ++ rest) ++ X) false i)
      with (scan_len Linux ((k ++ rest) ++ X) true (S i)) in Hs.
    rewrite <- app_assoc, Sk, app_length in Hs. lia.
Qed.

Theorem pat_parses_grammar pattern cks : pat_parses pattern cks -> pattern_grammar pattern cks.
Proof.
  induction 1 as [|pattern star chunk rest ops cks Hne Hs Hc _ IH]; [constructor|].
  destruct (scan_chunk_shape Hs) as (k & Hp & Hst & Hr).
  destruct (scan_chunk_facts Hne Hs) as (_ & Hnil).
  assert (Hns : chunk_ns chunk ops).
  { unfold scan_chunk in Hs. injection Hs as _ Hch Hre. set (q := snd (strip_stars pattern)) in *.
    destruct (@scan_len_stop _ q (le_n _) false 0) as (j & Ej & Hj & _). cbn [plus] in Ej. rewrite Ej in Hch, Hre.
    apply (chunk_parses_ns Hc rest 0). rewrite <- Hch, <- Hre, firstn_skipn, Ej, firstn_length. lia. }
  rewrite Hp, Hst. apply PG_cons; auto.
  destruct k as [|k]; [|left; lia]. right. intros ->. rewrite (Hnil eq_refl) in Hp. cbn in Hp. congruence.
Qed.

(* the tokenizer-free statement of (a) *)
Theorem pat_parses_iff_grammar pattern cks : pat_parses pattern cks <-> pattern_grammar pattern cks.
Proof. split; [apply pat_parses_grammar|apply pattern_grammar_parses]. Qed.

Theorem path_match_true_grammar cr pattern name :
  path_match Linux cr pattern name = MVal true <-> exists cks, pattern_grammar pattern cks /\ gm cks name.
Proof.
  rewrite path_match_true_iff. split; intros (cks & H & Hg); exists cks; (split; [apply pat_parses_iff_grammar; exact H|exact Hg]).
Qed.

Theorem path_match_bad_grammar pattern name :
  path_match Linux true pattern name = MBad <-> ~ exists cks, pattern_grammar pattern cks.
Proof.
  rewrite path_match_bad_checked. split; intros H (cks & Hc); apply H; exists cks; apply pat_parses_iff_grammar; exact Hc.
Qed.
