(* The PathIterator on clean absolute paths, on components (POSIX flavour), for
   ALL component lists - no bound, no axiom.

   A clean absolute path is [abs_path cs = "/" ++ c1 ++ "/" ++ ... ++ cn] with
   every component non-empty and separator-free ([comp_ok]); "/" is
   [abs_path []].  A cursor that has consumed the components [done] is
   [before cs done pi] (pi_end = length of "/d1/.../dk"); a cursor positioned
   on component [c] after [done] is exactly the record [on_comp cs done c].

   - [pi_next_step]  : one Next from a cursor that has consumed [done]
   - [on_comp_views] : Part / Left / Right / LeftPart / RightPart / IsLast there
   - [pi_parts_spec] : iterating Next from NewPathIterator yields exactly cs
   - [pi_replace_part_spec] : ReplacePart on components. *)
From Avfs Require Import Base PathModel PathSpec PathProofs PathCleanProofs.
Set Implicit Arguments.

Definition comp_ok (c : str) : Prop := c <> [] /\ (forall x, In x c -> x <> SLASH).

Definition abs_path (cs : list str) : str := SLASH :: intercalate [SLASH] cs.

(* "/c1/c2/.../cn" ; the empty string for no component *)
Fixpoint rpath (cs : list str) : str :=
  match cs with [] => [] | c :: cs' => SLASH :: c ++ rpath cs' end.

Lemma abs_path_rpath (cs : list str) : cs <> [] -> abs_path cs = rpath cs.
Proof.
  unfold abs_path. induction cs as [|c cs IH]; [congruence|]. intros _.
  rewrite intercalate_cons. cbn [rpath]. f_equal. f_equal.
  destruct cs as [|c2 cs]; [reflexivity|]. cbn [app]. apply IH. discriminate.
Qed.

Lemma rpath_app (a b : list str) : rpath (a ++ b) = rpath a ++ rpath b.
Proof.
  induction a as [|c a IH]; [reflexivity|]. cbn [app rpath]. rewrite IH, <- app_assoc. reflexivity.
Qed.

Notation fS := (N.eqb (sepc Linux)).

Lemma comp_ok_fS (c : str) : comp_ok c -> forall x, In x c -> fS x = false.
Proof. intros (_ & H) x Hx. apply N.eqb_neq. intros E. apply (H x Hx). symmetry. exact E. Qed.

Lemma comp_ok_sepfree (c : str) : comp_ok c -> sepfree c.
Proof. intros (_ & H) x Hx. rewrite sepL_eq. apply N.eqb_neq. apply H. exact Hx. Qed.

Lemma good_comp_ok (c : str) : good_comp c -> comp_ok c.
Proof. intros (H1 & H2 & _). split; assumption. Qed.

Lemma at_sep_rpath (l : list str) (z : str) : at_sep fS (rpath l ++ SLASH :: z).
Proof. destruct l; reflexivity. Qed.

Lemma at_sep_rpath0 (l : list str) : at_sep fS (rpath l).
Proof. destruct l; reflexivity. Qed.

Lemma rpath_length_ge (l : list str) : Forall comp_ok l -> length l <= length (rpath l).
Proof.
  induction 1 as [|c l Hc _ IH]; cbn [rpath length]; [lia|]. rewrite app_length. lia.
Qed.

(* ---- cursors --------------------------------------------------------------- *)
Definition before (cs done : list str) (pi : piter) : Prop :=
  pi_path pi = abs_path cs /\ pi_end pi = length (rpath done) /\ pi_vnl pi = 0.

Definition on_comp (cs done : list str) (c : str) : piter :=
  {| pi_path := abs_path cs; pi_start := S (length (rpath done));
     pi_end := S (length (rpath done)) + length c; pi_vnl := 0 |}.

(* the cursor Next leaves behind when there is no further part *)
Definition past_end (cs done : list str) : piter :=
  {| pi_path := abs_path cs; pi_start := S (length (rpath done));
     pi_end := S (length (rpath done)); pi_vnl := 0 |}.

Lemma pi_new_before (cs : list str) : before cs [] (pi_new Linux (abs_path cs)).
Proof. repeat split. Qed.

Lemma on_comp_before (cs done : list str) (c : str) : before cs (done ++ [c]) (on_comp cs done c).
Proof.
  repeat split. cbn [on_comp pi_end]. rewrite rpath_app. cbn [rpath].
  rewrite !app_length. cbn [length]. rewrite app_length. cbn [length]. lia.
Qed.

(* the path seen from a cursor after [done], with [c] next *)
Lemma abs_path_split (done todo : list str) (c : str) :
  abs_path (done ++ c :: todo) = (rpath done ++ [SLASH]) ++ c ++ rpath todo.
Proof.
  rewrite abs_path_rpath by (destruct done; discriminate).
  rewrite rpath_app. cbn [rpath]. rewrite <- app_assoc. reflexivity.
Qed.

Lemma len_left (done : list str) : length (rpath done ++ [SLASH]) = S (length (rpath done)).
Proof. rewrite app_length. cbn [length]. lia. Qed.

(* ---- one Next ------------------------------------------------------------- *)
Theorem pi_next_step (cs done todo : list str) (pi : piter) :
  Forall comp_ok cs -> cs = done ++ todo -> before cs done pi ->
  pi_next Linux pi = match todo with
                     | [] => (false, past_end cs done)
                     | c :: _ => (true, on_comp cs done c)
                     end.
Proof.
  intros Hok Hcs (Hp & He & Hv). unfold pi_next. rewrite Hp, He, Hv.
  destruct todo as [|c todo].
  - rewrite app_nil_r in Hcs. subst done.
    replace (Nat.leb (length (abs_path cs)) (S (length (rpath cs)))) with true; [reflexivity|].
    symmetry. apply Nat.leb_le. destruct cs as [|x cs]; [cbn; lia|].
    rewrite abs_path_rpath by discriminate. lia.
  - assert (Hc : comp_ok c).
    { rewrite Forall_forall in Hok. apply Hok. rewrite Hcs. apply in_or_app. right. left. reflexivity. }
    subst cs.
    assert (Hidx : index_from fS (abs_path (done ++ c :: todo)) (S (length (rpath done)))
                   = S (length (rpath done)) + length c).
    { rewrite abs_path_split, <- len_left, index_from_tw.
      destruct (@tw_dw_app fS c (rpath todo) (comp_ok_fS Hc) (at_sep_rpath0 todo)) as [Htw _].
      rewrite Htw. reflexivity. }
    assert (Hlen : Nat.leb (length (abs_path (done ++ c :: todo))) (S (length (rpath done))) = false).
    { apply Nat.leb_gt. rewrite abs_path_split, !app_length.
      destruct Hc as (Hne & _). destruct c; [congruence|cbn [length]; lia]. }
    rewrite Hlen, Hidx. reflexivity.
Qed.

(* ---- what the accessors return on a component ------------------------------ *)
Theorem on_comp_views (done todo : list str) (c : str) :
  let pi := on_comp (done ++ c :: todo) done c in
  pi_part pi = c /\ pi_left pi = rpath done ++ [SLASH] /\ pi_right pi = rpath todo
  /\ pi_left_part pi = rpath (done ++ [c]) /\ pi_right_part pi = c ++ rpath todo
  /\ pi_is_last pi = match todo with [] => true | _ => false end.
Proof.
  intros pi. subst pi.
  unfold pi_part, pi_left, pi_right, pi_left_part, pi_right_part, pi_is_last, on_comp.
  cbn [pi_path pi_start pi_end]. rewrite abs_path_split, <- !len_left.
  replace (length (rpath done ++ [SLASH]) + length c - length (rpath done ++ [SLASH])) with (length c) by lia.
  rewrite skipn_app_at, !firstn_app_at.
  replace (length (rpath done ++ [SLASH]) + length c) with (length ((rpath done ++ [SLASH]) ++ c))
    by (rewrite app_length; reflexivity).
  rewrite (app_assoc (rpath done ++ [SLASH]) c (rpath todo)).
  rewrite skipn_app_at, firstn_app_at.
  repeat split.
  - rewrite rpath_app. cbn [rpath]. rewrite app_nil_r, <- app_assoc. reflexivity.
  - rewrite (app_length (_ ++ c) (rpath todo)). destruct todo as [|t todo].
    + cbn [rpath length]. rewrite Nat.add_0_r. apply Nat.eqb_refl.
    + apply Nat.eqb_neq. cbn [rpath length]. lia.
Qed.

(* ---- iterating Next yields the components, in order ----------------------- *)
Lemma pi_parts_f_spec (cs : list str) : Forall comp_ok cs ->
  forall (todo done : list str) (pi : piter) fuel,
  cs = done ++ todo -> before cs done pi -> length todo < fuel ->
  pi_parts_f Linux fuel pi = todo.
Proof.
  intros Hok. induction todo as [|c todo IH]; intros done pi fuel Hcs Hb Hf;
    (destruct fuel as [|fuel]; [lia|]); cbn [pi_parts_f];
    rewrite (@pi_next_step _ _ _ _ Hok Hcs Hb).
  - reflexivity.
  - f_equal.
    + rewrite Hcs. apply (on_comp_views done todo c).
    + apply (IH (done ++ [c])).
      * rewrite Hcs, <- app_assoc. reflexivity.
      * apply on_comp_before.
      * cbn [length] in Hf. lia.
Qed.

Theorem pi_parts_spec (cs : list str) : Forall comp_ok cs -> pi_parts Linux (abs_path cs) = cs.
Proof.
  intros Hok. unfold pi_parts. apply (@pi_parts_f_spec cs Hok cs []); [reflexivity|apply pi_new_before|].
  pose proof (rpath_length_ge Hok) as H. destruct cs as [|c cs]; [cbn; lia|].
  rewrite abs_path_rpath by discriminate. lia.
Qed.

(* "/" has no part *)
Theorem pi_next_root : fst (pi_next Linux (pi_new Linux [SLASH])) = false.
Proof. reflexivity. Qed.

(* ---- components of rendered paths ------------------------------------------ *)
Lemma filter_ne_id (l : list str) : Forall comp_ok l -> filter ne l = l.
Proof.
  induction 1 as [|c l (Hc & _) _ IH]; [reflexivity|]. cbn [filter]. rewrite IH.
  destruct c; [congruence|reflexivity].
Qed.

Lemma comps_rpath_tail : forall (l : list str) (c : str),
  sepfree c -> Forall comp_ok l -> filter ne (comps (c ++ rpath l)) = filter ne [c] ++ l.
Proof.
  induction l as [|c2 l IH]; intros c Hc Hl.
  - cbn [rpath]. rewrite !app_nil_r, comps_word by exact Hc. reflexivity.
  - inversion Hl as [|? ? Hc2 Hl']; subst. cbn [rpath].
    rewrite comps_app_sep, filter_app, comps_word by exact Hc.
    rewrite IH by (auto using comp_ok_sepfree). f_equal.
    destruct Hc2 as (Hne & _). destruct c2; [congruence|reflexivity].
Qed.

Lemma filter_comps_rpath (l : list str) : Forall comp_ok l -> filter ne (comps (rpath l)) = l.
Proof.
  intros Hl. destruct l as [|c l]; [reflexivity|]. inversion Hl as [|? ? Hc Hl']; subst.
  cbn [rpath]. rewrite comps_sep. cbn [filter ne negb].
  rewrite comps_rpath_tail by (auto using comp_ok_sepfree).
  destruct Hc as (Hne & _). destruct c; [congruence|reflexivity].
Qed.

Lemma filter_comps_left (l : list str) : Forall comp_ok l -> filter ne (comps (rpath l ++ [SLASH])) = l.
Proof.
  intros Hl. rewrite comps_app_sep, filter_app, filter_comps_rpath by exact Hl. apply app_nil_r.
Qed.

Lemma left_cons (l : list str) : exists t, rpath l ++ [SLASH] = SLASH :: t.
Proof. destruct l; cbn [rpath app]; eauto. Qed.

Lemma rpath_prefix_inv : forall (done cs' : list str) (z : str),
  Forall comp_ok done -> Forall comp_ok cs' -> z <> [] ->
  rpath cs' = rpath done ++ SLASH :: z -> exists todo', todo' <> [] /\ cs' = done ++ todo'.
Proof.
  induction done as [|d done IH]; intros cs' z Hd Hc Hz H.
  - exists cs'. split; [|reflexivity]. destruct cs'; [discriminate H|discriminate].
  - destruct cs' as [|c' cs'']; [discriminate H|]. cbn [rpath app] in H. injection H as H.
    rewrite <- app_assoc in H.
    inversion Hd as [|? ? Hd1 Hd2]; inversion Hc as [|? ? Hc1 Hc2]; subst.
    destruct (@tw_dw_app fS c' (rpath cs'') (comp_ok_fS Hc1) (at_sep_rpath0 cs'')) as [T1 D1].
    destruct (@tw_dw_app fS d (rpath done ++ SLASH :: z) (comp_ok_fS Hd1) (at_sep_rpath done z)) as [T2 D2].
    rewrite H in T1, D1. rewrite T2 in T1. rewrite D2 in D1. subst c'.
    destruct (IH cs'' z Hd2 Hc2 Hz (eq_sym D1)) as (todo' & Hne & ->).
    exists todo'. split; [exact Hne|reflexivity].
Qed.

(* ---- ReplacePart ------------------------------------------------------------ *)
(* the components of the path after replacing the current part by [link] *)
Definition new_comps (done todo : list str) (link : str) : list str :=
  norm true [] (if is_abs Linux link then comps link ++ todo else done ++ comps link ++ todo).

Lemma new_comps_good (done todo : list str) (link : str) :
  Forall comp_ok done -> Forall comp_ok todo -> Forall good_comp (new_comps done todo link).
Proof.
  intros Hd Ht. unfold new_comps.
  set (X := if is_abs Linux link then comps link ++ todo else done ++ comps link ++ todo).
  assert (HX : Forall sepfree X).
  { assert (Hsd : Forall sepfree done) by (eapply Forall_impl; [|exact Hd]; apply comp_ok_sepfree).
    assert (Hst : Forall sepfree todo) by (eapply Forall_impl; [|exact Ht]; apply comp_ok_sepfree).
    pose proof (comps_sepfree link) as Hl.
    unfold X. destruct (is_abs Linux link); repeat (apply Forall_app; split); assumption. }
  destruct (@norm_shape true X 0 [] HX (Forall_nil _) (fun _ => eq_refl)) as (k & names & Hn & Hg & Hk).
  change (stk 0 []) with (@nil str) in Hn. rewrite Hn, (Hk eq_refl). unfold L. cbn [repeat app].
  apply Forall_rev. eapply Forall_impl; [|exact Hg]. intros a. apply good_good_comp.
Qed.

Lemma norm_drop_filter (a b c : list str) :
  Forall comp_ok a -> Forall comp_ok c ->
  norm true [] (a ++ filter ne b ++ c) = norm true [] (a ++ b ++ c).
Proof.
  intros Ha Hc. rewrite <- (norm_filter true (a ++ b ++ c)).
  rewrite !filter_app, (filter_ne_id Ha), (filter_ne_id Hc). reflexivity.
Qed.

Lemma norm_drop_filter0 (b c : list str) :
  Forall comp_ok c -> norm true [] (filter ne b ++ c) = norm true [] (b ++ c).
Proof. intros Hc. exact (@norm_drop_filter [] b c (Forall_nil _) Hc). Qed.

Lemma replace_path (done todo : list str) (c link : str) :
  Forall comp_ok (done ++ c :: todo) ->
  let old := abs_path (done ++ c :: todo) in
  let s := S (length (rpath done)) in
  let e := s + length c in
  firstn s old = rpath done ++ [SLASH] /\
  (if is_abs Linux link then join Linux [link; skipn e old]
   else join Linux [firstn s old; link; skipn e old]) = abs_path (new_comps done todo link).
Proof.
  intros Hok old s e.
  apply Forall_app in Hok as (Hd & Hct). inversion Hct as [|? ? Hc Ht]; subst.
  pose proof (on_comp_views done todo c) as V. cbv zeta in V.
  destruct V as (_ & VL & VR & _). unfold pi_left, pi_right, on_comp in VL, VR.
  cbn [pi_path pi_start pi_end] in VL, VR. fold old s e in VL, VR.
  split; [exact VL|]. rewrite VL, VR. unfold new_comps.
  destruct (is_abs Linux link) eqn:Ha; rewrite join_spec_correct.
  - apply is_abs_linux in Ha as (r & ->).
    erewrite join_spec_comps; [|reflexivity].
    change (is_abs_spec (SLASH :: r)) with true. unfold fc. cbn [flat_map].
    rewrite filter_comps_rpath, app_nil_r by exact Ht.
    rewrite (norm_drop_filter0 (comps (SLASH :: r)) Ht). reflexivity.
  - destruct (left_cons done) as (t & Hl).
    erewrite join_spec_comps; [|rewrite Hl; reflexivity]. change (is_abs_spec (SLASH :: t)) with true.
    unfold fc. cbn [flat_map].
    rewrite filter_comps_left, filter_comps_rpath, app_nil_r by assumption.
    rewrite (norm_drop_filter (comps link) Hd Ht). reflexivity.
Qed.

Definition resumes (done cs' : list str) : Prop := exists todo', todo' <> [] /\ cs' = done ++ todo'.

(* ReplacePart on a cursor positioned on component [c] of "/done.../c/todo...":
   the new path is the clean absolute path whose components are
   [new_comps done todo link] = Pike's normalisation of
     comps(link) ++ todo            when link is absolute,
     done ++ comps(link) ++ todo    otherwise;
   the iterator resumes after [done] (returns false) exactly when [done] is
   still a proper prefix of the new components, so that the next parts are the
   new components after [done]; otherwise it is reset (returns true) and the
   next parts are all the new components. *)
Theorem pi_replace_part_spec (done todo : list str) (c link : str) :
  Forall comp_ok (done ++ c :: todo) ->
  let cs := done ++ c :: todo in
  let cs' := new_comps done todo link in
  Forall good_comp cs' /\
  exists (reset : bool) (pi' : piter),
    pi_replace_part Linux (on_comp cs done c) link = (reset, pi') /\
    ((reset = true /\ before cs' [] pi' /\ ~ resumes done cs')
     \/ (reset = false /\ before cs' done pi' /\ resumes done cs')).
Proof.
  intros Hok cs cs'.
  pose proof (@replace_path done todo c link Hok) as HP. cbv zeta in HP. destruct HP as (HL & HP).
  apply Forall_app in Hok as (Hd & Hct). inversion Hct as [|? ? Hc Ht]; subst.
  pose proof (new_comps_good link Hd Ht) as Hg. fold cs' in Hg, HP. fold cs in HL, HP.
  assert (Hok' : Forall comp_ok cs') by (eapply Forall_impl; [|exact Hg]; apply good_comp_ok).
  split; [exact Hg|].
  unfold pi_replace_part. cbn [on_comp pi_path pi_start pi_end pi_vnl]. rewrite HP, HL.
  set (s := S (length (rpath done))). set (np := abs_path cs').
  assert (Hres : resumes done cs' -> Nat.leb (length np) s || negb (str_eqb (firstn s np) (rpath done ++ [SLASH])) = false).
  { intros (todo' & Hne & E). destruct todo' as [|t todo'']; [congruence|].
    unfold np. rewrite E, abs_path_split. unfold s. rewrite <- len_left, firstn_app_at, str_eqb_refl.
    cbn [negb]. rewrite orb_false_r. apply Nat.leb_gt. rewrite !app_length.
    assert (Ht' : comp_ok t).
    { rewrite Forall_forall in Hok'. apply Hok'. rewrite E. apply in_or_app. right. left. reflexivity. }
    destruct Ht' as (Htn & _). destruct t; [congruence|cbn [length]; lia]. }
  destruct (Nat.leb (length np) s || negb (str_eqb (firstn s np) (rpath done ++ [SLASH]))) eqn:E.
  - exists true, (pi_reset {| pi_path := np; pi_start := s; pi_end := s + length c; pi_vnl := 0 |}).
    split; [reflexivity|]. left. split; [reflexivity|]. split; [repeat split|].
    intros Hr. apply Hres in Hr. congruence.
  - exists false, {| pi_path := np; pi_start := s; pi_end := s - 1; pi_vnl := 0 |}.
    split; [reflexivity|]. right. split; [reflexivity|].
    apply orb_false_elim in E as (E1 & E2). apply Nat.leb_gt in E1.
    apply negb_false_iff, str_eqb_eq in E2.
    split; [repeat split; cbn [pi_end]; unfold s; lia|].
    assert (Hcs' : cs' <> []) by (intros E0; unfold np in E1; rewrite E0 in E1; cbn in E1; unfold s in E1; lia).
    unfold np in *. rewrite abs_path_rpath in * by exact Hcs'.
    apply (@rpath_prefix_inv done cs' (skipn s (rpath cs')) Hd Hok').
    + intros E0. apply (f_equal (@length N)) in E0. rewrite skipn_length in E0. cbn [length] in E0. lia.
    + rewrite <- (firstn_skipn s (rpath cs')) at 1. rewrite E2, <- app_assoc. reflexivity.
Qed.

(* non-vacuity and a worked instance: "/a/b/c" on "b", link "../x" -> "/x/c", reset;
   link "y/z" -> "/a/y/z/c", resumes after "/a" *)
Example pi_replace_part_example :
  let a := [97%N] in let b := [98%N] in let c := [99%N] in
  Forall comp_ok ([a] ++ b :: [c])
  /\ new_comps [a] [c] [DOT; DOT; SLASH; 120%N] = [[120%N]; c]
  /\ fst (pi_replace_part Linux (on_comp ([a] ++ b :: [c]) [a] b) [DOT; DOT; SLASH; 120%N]) = true
  /\ new_comps [a] [c] [121%N; SLASH; 122%N] = [a; [121%N]; [122%N]; c]
  /\ fst (pi_replace_part Linux (on_comp ([a] ++ b :: [c]) [a] b) [121%N; SLASH; 122%N]) = false.
Proof.
  cbv zeta. split; [|vm_compute; auto].
  repeat constructor; try discriminate; intros x [<-|[]]; discriminate.
Qed.

(* ---- the parts still to come after ReplacePart ------------------------------ *)
Theorem pi_replace_part_parts (done todo : list str) (c link : str) :
  Forall comp_ok (done ++ c :: todo) ->
  let cs' := new_comps done todo link in
  exists (reset : bool) (pi' : piter),
    pi_replace_part Linux (on_comp (done ++ c :: todo) done c) link = (reset, pi') /\
    pi_path pi' = abs_path cs' /\
    forall fuel, length cs' < fuel ->
      pi_parts_f Linux fuel pi' = if reset then cs' else skipn (length done) cs'.
Proof.
  intros Hok cs'. destruct (@pi_replace_part_spec done todo c link Hok) as (Hg & reset & pi' & Hr & Hcase).
  fold cs' in Hg, Hcase.
  assert (Hok' : Forall comp_ok cs') by (eapply Forall_impl; [|exact Hg]; apply good_comp_ok).
  exists reset, pi'. split; [exact Hr|].
  destruct Hcase as [(-> & Hb & _)|(-> & Hb & todo' & Hne & E)].
  - split; [apply Hb|]. intros fuel Hf. apply (@pi_parts_f_spec cs' Hok' cs' []); auto.
  - split; [apply Hb|]. intros fuel Hf.
    assert (Hs : skipn (length done) cs' = todo') by (rewrite E; apply skipn_app_at).
    rewrite Hs. apply (@pi_parts_f_spec cs' Hok' todo' done); auto.
    rewrite E, app_length in Hf. lia.
Qed.

(* ---- ReplacePart when the walked prefix is clean ----------------------------- *)
Lemma norm_goods_app r k : forall (cs nm X : list str),
  Forall good cs -> norm r (stk k nm) (cs ++ X) = norm r (stk k (rev cs ++ nm)) X.
Proof.
  induction cs as [|a cs IH]; intros nm X Hg; [reflexivity|].
  inversion Hg as [|? ? (H1 & H2 & H3 & H4) Hg']; subst. cbn [app].
  rewrite norm_push by assumption. change (a :: stk k nm) with (stk k (a :: nm)).
  rewrite IH by exact Hg'. cbn [rev]. rewrite <- app_assoc. reflexivity.
Qed.

Lemma Forall_good_of (l : list str) : Forall good_comp l -> Forall good l.
Proof. intros H. eapply Forall_impl; [|exact H]. intros a. apply good_good_comp. Qed.

(* relative link, clean walked prefix: Pike's machine starts from the stack [rev done] *)
Theorem new_comps_rel_stack (done todo : list str) (link : str) :
  Forall good_comp done -> is_abs Linux link = false ->
  new_comps done todo link = norm true (rev done) (comps link ++ todo).
Proof.
  intros Hd Ha. unfold new_comps. rewrite Ha. change (@nil str) with (stk 0 []).
  rewrite norm_goods_app by (apply Forall_good_of; exact Hd). unfold stk. rewrite !app_nil_r. reflexivity.
Qed.

(* a relative link made of proper names only: the names are spliced in, no reset *)
Theorem new_comps_rel_simple (done todo lc : list str) :
  Forall good_comp done -> Forall good_comp lc -> Forall good_comp todo -> lc <> [] ->
  is_abs Linux (intercalate [SLASH] lc) = false /\
  new_comps done todo (intercalate [SLASH] lc) = done ++ lc ++ todo.
Proof.
  intros Hd Hl Ht Hne.
  assert (Hsf : Forall sepfree lc).
  { eapply Forall_impl; [|exact Hl]. intros a Ha. apply comp_ok_sepfree, good_comp_ok, Ha. }
  assert (Hnn : Forall (fun c : str => c <> []) lc).
  { eapply Forall_impl; [|exact Hl]. intros a (Ha & _). exact Ha. }
  destruct (@intercalate_head lc Hne Hnn Hsf) as (a & s & Hi & Ha).
  assert (Habs : is_abs Linux (intercalate [SLASH] lc) = false) by (rewrite Hi; exact Ha).
  split; [exact Habs|]. unfold new_comps. rewrite Habs, comps_intercalate by assumption.
  change (@nil str) with (stk 0 []).
  rewrite norm_goods by (repeat (apply Forall_app; split); apply Forall_good_of; assumption).
  reflexivity.
Qed.

(* an absolute clean link: its names replace the walked prefix (the iterator may or may not
   report a reset - see [pi_replace_part_spec] - but the new path is this one) *)
Theorem new_comps_abs_simple (done todo lc : list str) :
  Forall good_comp lc -> Forall good_comp todo ->
  is_abs Linux (abs_path lc) = true /\ new_comps done todo (abs_path lc) = lc ++ todo.
Proof.
  intros Hl Ht. split; [reflexivity|]. unfold new_comps.
  change (is_abs Linux (abs_path lc)) with true. cbv iota. unfold abs_path. rewrite comps_sep.
  cbn [app]. rewrite norm_empty. rewrite <- norm_filter, filter_app.
  assert (Hc : filter ne (comps (intercalate [SLASH] lc)) = lc).
  { rewrite filter_comps_intercalate. unfold fc.
    induction Hl as [|a l Ha _ IH]; [reflexivity|]. cbn [flat_map]. rewrite IH.
    rewrite comps_word by (apply comp_ok_sepfree, good_comp_ok, Ha).
    destruct Ha as (Ha & _). destruct a; [congruence|reflexivity]. }
  rewrite Hc, filter_ne_id by (eapply Forall_impl; [|exact Ht]; apply good_comp_ok).
  change (@nil str) with (stk 0 []).
  rewrite norm_goods by (apply Forall_app; split; apply Forall_good_of; assumption).
  reflexivity.
Qed.

(* ---- paths as component lists ----------------------------------------------- *)
(* the non-empty components of a path: the inverse of [abs_path] *)
Definition path_comps (p : str) : list str := filter ne (comps p).

Lemma path_comps_abs_path (cs : list str) : Forall comp_ok cs -> path_comps (abs_path cs) = cs.
Proof.
  intros Hok. unfold path_comps, abs_path. rewrite comps_sep. cbn [filter ne negb].
  rewrite filter_comps_intercalate. unfold fc.
  induction Hok as [|a l Ha _ IH]; [reflexivity|]. cbn [flat_map]. rewrite IH.
  rewrite comps_word by (apply comp_ok_sepfree, Ha).
  destruct Ha as (Ha & _). destruct a; [congruence|reflexivity].
Qed.

Theorem abs_path_inj (cs cs' : list str) :
  Forall comp_ok cs -> Forall comp_ok cs' -> abs_path cs = abs_path cs' -> cs = cs'.
Proof.
  intros H1 H2 E. rewrite <- (path_comps_abs_path H1), <- (path_comps_abs_path H2), E. reflexivity.
Qed.

Lemma Forall_comp_ok_of (l : list str) : Forall good_comp l -> Forall comp_ok l.
Proof. intros H. eapply Forall_impl; [|exact H]. apply good_comp_ok. Qed.

(* Clean of an absolute path, on components *)
Theorem clean_abs_comps (p : str) :
  is_abs Linux p = true ->
  clean Linux p = abs_path (norm true [] (path_comps p)) /\ Forall good_comp (norm true [] (path_comps p)).
Proof.
  intros Ha. apply is_abs_linux in Ha as (r & ->). rewrite clean_spec_correct.
  destruct (clean_spec_rooted r) as (cs & H1 & H2 & H3).
  unfold path_comps. rewrite norm_filter, comps_sep, norm_empty, <- H3. split; [exact H1|exact H2].
Qed.

(* a clean absolute path is a fixed point of Clean *)
Theorem clean_abs_path_fix (cs : list str) : Forall good_comp cs -> clean Linux (abs_path cs) = abs_path cs.
Proof.
  intros Hg. destruct (@clean_abs_comps (abs_path cs) eq_refl) as (H & _). rewrite H.
  rewrite path_comps_abs_path by (apply Forall_comp_ok_of; exact Hg).
  change (@nil str) with (stk 0 []). rewrite norm_goods by (apply Forall_good_of; exact Hg). reflexivity.
Qed.

(* Join of a clean absolute base with any path: Pike's machine runs over the
   components of [p] starting from the stack of the base's names *)
Theorem join_abs_any (bs : list str) (p : str) :
  Forall good_comp bs ->
  join Linux [abs_path bs; p] = abs_path (norm true (rev bs) (path_comps p)).
Proof.
  intros Hg. erewrite join_comps; [|reflexivity]. change (is_abs_spec (abs_path bs)) with true.
  unfold fc. cbn [flat_map]. fold (path_comps (abs_path bs)). fold (path_comps p).
  rewrite path_comps_abs_path, app_nil_r by (apply Forall_comp_ok_of; exact Hg).
  change (@nil str) with (stk 0 []) at 1.
  rewrite norm_goods_app by (apply Forall_good_of; exact Hg). unfold stk. rewrite !app_nil_r. reflexivity.
Qed.

(* ... and with a clean absolute path: concatenation of the component lists *)
Theorem join_abs_abs (bs ps : list str) :
  Forall good_comp bs -> Forall good_comp ps ->
  join Linux [abs_path bs; abs_path ps] = abs_path (bs ++ ps).
Proof.
  intros Hb Hp. rewrite join_abs_any by exact Hb.
  rewrite path_comps_abs_path by (apply Forall_comp_ok_of; exact Hp).
  assert (E : rev bs = stk 0 (rev bs)) by (unfold stk; cbn [repeat]; symmetry; apply app_nil_r).
  rewrite E. rewrite norm_goods by (apply Forall_good_of; exact Hp).
  unfold L. cbn [repeat app]. rewrite rev_involutive. reflexivity.
Qed.
