(* Dir and Base of the POSIX flavour on components, for ALL byte strings (no
   bound, no axiom).

   [initw p] / [lastw p] cut a string after its last separator.  The loop
   [last_sep_cut] of the model (the index loop of Split/Base/Dir) is proved to
   cut exactly there, hence
     split Linux p = (initw p, lastw p)
     dir   Linux p = clean Linux (initw p)
                   = render r (norm r [] (removelast (comps p)))      r = IsAbs p
     base  Linux p = "."  for "",  "/" when p has no non-empty component,
                     the last non-empty component otherwise
   with the corollaries on clean absolute paths and Join(Dir p, Base p) = p
   for every clean p. *)
From Avfs Require Import Base PathModel PathSpec PathProofs PathCleanProofs PathIterProofs.
Set Implicit Arguments.

(* ---- cutting after the last separator ------------------------------------ *)
Definition lastw (p : str) : str := rev (tw sepL (rev p)).
Definition initw (p : str) : str := rev (dw sepL (rev p)).

Lemma initw_lastw p : initw p ++ lastw p = p.
Proof. unfold initw, lastw. rewrite <- rev_app_distr, tw_dw, rev_involutive. reflexivity. Qed.

Lemma lastw_sepfree p : sepfree (lastw p).
Proof. intros x Hx. unfold lastw in Hx. eapply tw_none. apply in_rev. exact Hx. Qed.

Lemma initw_shape p : initw p = [] \/ exists a, initw p = a ++ [SLASH].
Proof.
  unfold initw. pose proof (dw_at_sep sepL (rev p)) as H.
  destruct (dw sepL (rev p)) as [|c r]; [left; reflexivity|right].
  cbn [at_sep] in H. apply sepL_true in H. subst c. exists (rev r). reflexivity.
Qed.

Lemma initw_lastw_spec p :
  initw p ++ lastw p = p /\ sepfree (lastw p) /\ (initw p = [] \/ exists a, initw p = a ++ [SLASH]).
Proof. split; [apply initw_lastw|split; [apply lastw_sepfree|apply initw_shape]]. Qed.

(* any decomposition  a ++ w  with w separator-free and a empty or ending with
   a separator is that one *)
Lemma cut_unique (p a w : str) :
  p = a ++ w -> sepfree w -> (a = [] \/ exists a', a = a' ++ [SLASH]) ->
  last_sep_cut Linux p 0 (length p) = length a.
Proof.
  intros Hp Hw Ha.
  destruct (@last_sep_cut_spec Linux p 0 (length p) (le_n _)) as (Hc & Hall & Hend).
  set (cut := last_sep_cut Linux p 0 (length p)) in *.
  assert (Hlen : length p = length a + length w) by (rewrite Hp; apply app_length).
  destruct (Nat.lt_trichotomy cut (length a)) as [Hlt|[Heq|Hgt]]; [exfalso|exact Heq|exfalso].
  - destruct Ha as [->|(a' & ->)]; [cbn [length] in Hlt; lia|].
    rewrite app_length in Hlt, Hlen. cbn [length] in Hlt, Hlen.
    assert (H : is_sep Linux (nthb p (length a')) = false) by (apply Hall; lia).
    rewrite Hp, <- app_assoc in H. cbn [app] in H. rewrite nthb_app0 in H. discriminate.
  - destruct Hend as [H0|[H0|Hs]]; try lia.
    replace (cut - 1) with (length a + (cut - 1 - length a)) in Hs by lia.
    rewrite Hp, nthb_app_at in Hs. rewrite Hw in Hs; [discriminate|]. apply nth_In. lia.
Qed.

Lemma cut_initw p : last_sep_cut Linux p 0 (length p) = length (initw p).
Proof.
  apply (@cut_unique p (initw p) (lastw p)).
  - symmetry. apply initw_lastw.
  - apply lastw_sepfree.
  - apply initw_shape.
Qed.

Theorem split_linux p : split Linux p = (initw p, lastw p).
Proof.
  unfold split. change (length (volume_name Linux p)) with 0. rewrite cut_initw.
  rewrite <- (initw_lastw p) at 2 4. rewrite firstn_app_at, skipn_app_at. reflexivity.
Qed.

(* ---- components ------------------------------------------------------------ *)
Lemma comps_snoc_word (a w : str) : sepfree w -> comps (a ++ SLASH :: w) = comps a ++ [w].
Proof. intros Hw. rewrite comps_app_sep, (comps_word Hw). reflexivity. Qed.

(* the components of p: those of the part before the last separator, then [lastw p] *)
Definition init_comps (p : str) : list str :=
  match initw p with [] => [] | _ => comps (removelast (initw p)) end.

Lemma comps_init_last p : comps p = init_comps p ++ [lastw p].
Proof.
  unfold init_comps. pose proof (initw_lastw p) as Hp. pose proof (@lastw_sepfree p) as Hw.
  destruct (initw_shape p) as [E|(a & E)]; rewrite E in *.
  - cbn [app] in *. rewrite <- Hp at 1. apply comps_word. exact Hw.
  - rewrite removelast_last. destruct (a ++ [SLASH]) eqn:E2; [destruct a; discriminate|]. rewrite <- E2 in *.
    rewrite <- Hp at 1. rewrite <- app_assoc. cbn [app]. apply comps_snoc_word. exact Hw.
Qed.

Lemma removelast_comps p : removelast (comps p) = init_comps p.
Proof. rewrite comps_init_last. apply removelast_last. Qed.

Lemma last_comps p : last (comps p) [] = lastw p.
Proof. rewrite comps_init_last. apply last_last. Qed.

(* Clean on components, every string (the empty one included) *)
Lemma clean_spec_comps p :
  clean_spec p = render (is_abs_spec p) (norm (is_abs_spec p) [] (comps p)).
Proof. destruct p; reflexivity. Qed.

Lemma norm_snoc_empty r (l : list str) : norm r [] (l ++ [[]]) = norm r [] l.
Proof.
  rewrite <- norm_filter, filter_app. cbn [filter ne negb]. rewrite app_nil_r. apply norm_filter.
Qed.

(* ---- Dir --------------------------------------------------------------------- *)
Theorem dir_clean_split p : dir Linux p = clean Linux (fst (split Linux p)).
Proof.
  unfold dir, split. change (volume_name Linux p) with (@nil N). cbn [length fst skipn app].
  rewrite Nat.sub_0_r, andb_false_r. reflexivity.
Qed.

Lemma dir_initw p : dir Linux p = clean Linux (initw p).
Proof. rewrite dir_clean_split, split_linux. reflexivity. Qed.

(* Dir = the cleaned path of all components but the last *)
Theorem dir_comps p :
  dir Linux p = render (is_abs_spec p) (norm (is_abs_spec p) [] (removelast (comps p))).
Proof.
  rewrite dir_initw, clean_spec_correct, clean_spec_comps, removelast_comps. unfold init_comps.
  pose proof (initw_lastw p) as Hp. pose proof (@lastw_sepfree p) as Hw.
  destruct (initw_shape p) as [E|(a & E)]; rewrite E in *.
  - cbn [app] in Hp. assert (Ha : is_abs_spec p = false).
    { rewrite <- Hp. destruct (lastw p) as [|c w]; [reflexivity|]. cbn [is_abs_spec].
      rewrite <- sepL_eq. apply Hw. left. reflexivity. }
    rewrite Ha. reflexivity.
  - rewrite removelast_last.
    assert (Ha : is_abs_spec (a ++ [SLASH]) = is_abs_spec p).
    { rewrite <- Hp. destruct a; reflexivity. }
    rewrite Ha. destruct (a ++ [SLASH]) eqn:E2; [destruct a; discriminate|]. rewrite <- E2.
    rewrite comps_app_sep, comps_nil, norm_snoc_empty. reflexivity.
Qed.

(* ---- Base -------------------------------------------------------------------- *)
Definition base_spec (p : str) : str :=
  match p with
  | [] => [DOT]
  | _ => match path_comps p with [] => [SLASH] | l => last l [] end
  end.

Lemma strip_spec rp :
  exists k, rp = repeat SLASH k ++ strip_trailing_seps Linux rp /\
            match strip_trailing_seps Linux rp with [] => True | c :: _ => sepL c = false end.
Proof.
  induction rp as [|c rp IH]; [exists 0; split; [reflexivity|exact I]|].
  cbn [strip_trailing_seps]. destruct (is_sep Linux c) eqn:Hc.
  - destruct IH as (k & H1 & H2). exists (S k). apply sepL_true in Hc. subst c.
    cbn [repeat app]. split; [f_equal; exact H1|exact H2].
  - exists 0. split; [reflexivity|exact Hc].
Qed.

Lemma path_comps_slashes k : path_comps (repeat SLASH k) = [].
Proof. unfold path_comps. induction k as [|k IH]; [reflexivity|]. cbn [repeat]. rewrite comps_sep. exact IH. Qed.

Lemma path_comps_trailing q k : path_comps (q ++ repeat SLASH k) = path_comps q.
Proof.
  destruct k as [|k]; [rewrite app_nil_r; reflexivity|]. cbn [repeat]. unfold path_comps.
  rewrite comps_app_sep, filter_app. fold (path_comps (repeat SLASH k)).
  rewrite path_comps_slashes, app_nil_r. reflexivity.
Qed.

Lemma path_comps_init_last q :
  lastw q <> [] -> path_comps q = filter ne (init_comps q) ++ [lastw q].
Proof.
  intros Hne. unfold path_comps. rewrite comps_init_last, filter_app. f_equal.
  cbn [filter]. destruct (lastw q); [congruence|reflexivity].
Qed.

Lemma last_snoc_match (l : list str) (c : str) :
  match l ++ [c] with [] => [SLASH] | s :: l0 => last (s :: l0) [] end = c.
Proof. destruct (l ++ [c]) eqn:E; [destruct l; discriminate|]. rewrite <- E. apply last_last. Qed.

Theorem base_spec_correct p : base Linux p = base_spec p.
Proof.
  destruct p as [|c0 p0]; [reflexivity|]. unfold base_spec, base. cbv beta iota zeta. set (p := c0 :: p0).
  set (q := rev (strip_trailing_seps Linux (rev p))).
  change (length (volume_name Linux q)) with 0. cbn [skipn].
  destruct (strip_spec (rev p)) as (k & H1 & H2).
  assert (Hp : p = q ++ repeat SLASH k).
  { rewrite <- (rev_involutive p), H1, rev_app_distr, rev_repeat_own. reflexivity. }
  rewrite Hp, path_comps_trailing, cut_initw.
  assert (Hsk : skipn (length (initw q)) q = lastw q) by (rewrite <- (initw_lastw q) at 2; apply skipn_app_at).
  rewrite Hsk.
  destruct (strip_trailing_seps Linux (rev p)) as [|c r] eqn:Es.
  - (* only separators *) subst q. reflexivity.
  - assert (Hl : lastw q <> []).
    { unfold lastw, q. rewrite rev_involutive. cbn [tw]. rewrite H2. cbn [rev].
      intros E. apply app_eq_nil in E as [_ E]. discriminate. }
    rewrite (@path_comps_init_last q Hl).
    destruct (lastw q) as [|x w] eqn:El; [congruence|].
    symmetry. apply last_snoc_match.
Qed.

(* a path made only of separators *)
Lemma path_comps_nil_iff p : path_comps p = [] <-> Forall (fun c => c = SLASH) p.
Proof.
  split.
  - unfold path_comps. induction p as [|c p IH] using rev_ind; [constructor|].
    intros H. pose proof (comps_init_last (p ++ [c])) as Hc. rewrite Hc, filter_app in H.
    apply app_eq_nil in H as [H1 H2]. cbn [filter ne] in H2.
    destruct (lastw (p ++ [c])) as [|x w] eqn:El; [|discriminate].
    unfold lastw in El. rewrite rev_app_distr in El. cbn [rev app tw] in El.
    destruct (sepL c) eqn:Hs.
    + apply sepL_true in Hs. subst c. apply Forall_app. split; [|constructor; [reflexivity|constructor]].
      apply IH. change (p ++ [SLASH]) with (p ++ SLASH :: []) in Hc.
      rewrite comps_app_sep, comps_nil in Hc.
      assert (E : comps p = init_comps (p ++ [SLASH])).
      { apply (f_equal (@removelast str)) in Hc. rewrite !removelast_last in Hc. exact Hc. }
      rewrite E. exact H1.
    + exfalso. cbn [rev] in El. apply app_eq_nil in El as [_ El]. discriminate.
  - intros H. assert (E : p = repeat SLASH (length p)).
    { induction H as [|c p -> _ IH]; [reflexivity|]. cbn [length repeat]. f_equal. exact IH. }
    rewrite E. apply path_comps_slashes.
Qed.

(* the three cases of path/filepath.Base *)
Theorem base_cases p :
  (p = [] -> base Linux p = [DOT]) /\
  (p <> [] -> Forall (fun c => c = SLASH) p -> base Linux p = [SLASH]) /\
  (forall l c, path_comps p = l ++ [c] -> base Linux p = c).
Proof.
  rewrite base_spec_correct. repeat split.
  - intros ->. reflexivity.
  - intros Hne Hs. apply path_comps_nil_iff in Hs. unfold base_spec. rewrite Hs. destruct p; [congruence|reflexivity].
  - intros l c H. unfold base_spec. rewrite H. destruct p as [|x p]; [destruct l; discriminate|].
    apply last_snoc_match.
Qed.

(* ---- Dir / Base of a clean absolute path ----------------------------------- *)
Lemma comps_abs_path (l : list str) : l <> [] -> Forall comp_ok l -> comps (abs_path l) = [] :: l.
Proof.
  intros Hne Hok. unfold abs_path. rewrite comps_sep, comps_intercalate; auto.
  eapply Forall_impl; [|exact Hok]. apply comp_ok_sepfree.
Qed.

Theorem dir_abs_path (cs : list str) (c : str) :
  Forall good_comp (cs ++ [c]) -> dir Linux (abs_path (cs ++ [c])) = abs_path cs.
Proof.
  intros Hg. rewrite dir_comps. change (is_abs_spec (abs_path (cs ++ [c]))) with true.
  rewrite comps_abs_path by (try (apply Forall_comp_ok_of; exact Hg); destruct cs; discriminate).
  change ([] :: cs ++ [c]) with (([] :: cs) ++ [c]). rewrite removelast_last, norm_empty.
  change (@nil str) with (stk 0 []) at 1. rewrite norm_goods.
  - reflexivity.
  - apply Forall_good_of. apply Forall_app in Hg as [Hg _]. exact Hg.
Qed.

Theorem base_abs_path (cs : list str) (c : str) :
  Forall good_comp (cs ++ [c]) -> base Linux (abs_path (cs ++ [c])) = c.
Proof.
  intros Hg. destruct (base_cases (abs_path (cs ++ [c]))) as (_ & _ & H). apply (H cs).
  apply path_comps_abs_path. apply Forall_comp_ok_of. exact Hg.
Qed.

Lemma dir_base_root : dir Linux [SLASH] = [SLASH] /\ base Linux [SLASH] = [SLASH].
Proof. split; reflexivity. Qed.

(* ---- Join (Dir p) (Base p) = p for every clean p --------------------------- *)
Lemma L_snoc_inv (k : nat) (names cs : list str) (c : str) :
  L k names = cs ++ [c] -> Forall good names ->
  exists k' names', cs = L k' names' /\ Forall good names' /\ (k = 0 -> k' = 0).
Proof.
  intros E Hg. destruct names as [|top nm].
  - destruct k as [|k']; [destruct cs; discriminate|]. rewrite L_S in E. apply app_inj_tail in E as [E _].
    exists k', []. split; [symmetry; exact E|]. split; [constructor|discriminate].
  - rewrite L_cons in E. apply app_inj_tail in E as [E _]. inversion Hg; subst.
    exists k, nm. split; [reflexivity|]. split; [assumption|auto].
Qed.

Lemma comps_render r (l : list str) :
  l <> [] -> Forall sepfree l -> comps (render r l) = (if r then [[]] else []) ++ l.
Proof.
  intros Hne Hsf. unfold render. destruct r.
  - rewrite comps_sep, comps_intercalate by assumption. reflexivity.
  - destruct l as [|x l]; [congruence|]. rewrite comps_intercalate by assumption. reflexivity.
Qed.

Lemma filter_ne_nonempty (l : list str) : Forall (fun c : str => c <> []) l -> filter ne l = l.
Proof.
  induction 1 as [|c l Hc _ IH]; [reflexivity|]. cbn [filter]. destruct c; [congruence|]. cbn [ne negb]. f_equal. exact IH.
Qed.

Lemma path_comps_render r (l : list str) :
  l <> [] -> Forall sepfree l -> Forall (fun c : str => c <> []) l -> path_comps (render r l) = l.
Proof.
  intros Hne Hsf Hn. unfold path_comps. rewrite comps_render, filter_app by assumption.
  destruct r; cbn [filter ne negb app]; apply filter_ne_nonempty; exact Hn.
Qed.

Lemma is_abs_spec_render r (l : list str) :
  Forall sepfree l -> Forall (fun c : str => c <> []) l -> is_abs_spec (render r l) = r.
Proof.
  intros Hsf Hn. unfold render. destruct r; [reflexivity|]. destruct l as [|x l1] eqn:El; [reflexivity|].
  rewrite <- El in *. destruct (@intercalate_head l) as (a & s & Hi & Ha); auto; [rewrite El; discriminate|].
  rewrite Hi. cbn [is_abs_spec]. rewrite <- sepL_eq. exact Ha.
Qed.

Theorem join_dir_base p : clean Linux p = p -> join Linux [dir Linux p; base Linux p] = p.
Proof.
  intros Hp. rewrite clean_spec_correct, clean_spec_comps in Hp.
  set (r := is_abs_spec p) in *.
  destruct (norm_shape0 r p) as (k & names & Hn & Hg & Hk). rewrite Hn in Hp.
  destruct (L k names) as [|x0 l0] eqn:EL.
  - (* "/" or "." *) rewrite <- Hp. destruct r; reflexivity.
  - destruct (@exists_last _ (x0 :: l0)) as (cs & c & Ecs0); [discriminate|]. rewrite Ecs0 in *. clear Ecs0 x0 l0.
    destruct (@L_snoc_inv k names cs c EL Hg) as (k' & names' & Ecs & Hg' & Hk').
    assert (Hk2 : r = true -> k' = 0) by (intros Hr; apply Hk', Hk, Hr).
    pose proof (L_sepfree k Hg) as Hsf. pose proof (L_ne k Hg) as Hne. rewrite EL in Hsf, Hne.
    assert (Hl : cs ++ [c] <> []) by (destruct cs; discriminate).
    assert (Hcs_sf : Forall sepfree cs) by (apply Forall_app in Hsf as [H _]; exact H).
    assert (Hcs_ne : Forall (fun c : str => c <> []) cs) by (apply Forall_app in Hne as [H _]; exact H).
    assert (Hc_sf : sepfree c) by (apply Forall_app in Hsf as [_ H]; inversion H; assumption).
    assert (Hc_ne : c <> []) by (apply Forall_app in Hne as [_ H]; inversion H; assumption).
    (* Base *)
    assert (Hbase : base Linux p = c).
    { destruct (base_cases p) as (_ & _ & H). apply (H cs). rewrite <- Hp. apply path_comps_render; assumption. }
    (* Dir *)
    assert (Hdir : dir Linux p = render r cs).
    { rewrite dir_comps. fold r. rewrite <- Hp at 1. rewrite comps_render by assumption.
      rewrite app_assoc, removelast_last.
      transitivity (render r (norm r [] cs)); [clearbody r; destruct r; reflexivity|].
      rewrite Ecs, norm_fix by assumption. reflexivity. }
    rewrite Hbase, Hdir.
    assert (Hrne : render r cs <> []) by (unfold render; destruct r; [discriminate|destruct cs as [|y cs']; [discriminate|]];
      intros E; apply intercalate_nil_inv in E; [discriminate|exact Hcs_ne]).
    assert (Hf : filter ne [render r cs; c] = [render r cs; c]).
    { cbn [filter]. destruct (render r cs); [congruence|]. destruct c; [congruence|]. reflexivity. }
    rewrite (join_comps _ Hf).
    rewrite is_abs_spec_render by assumption.
    unfold fc. cbn [flat_map]. rewrite app_nil_r. fold (path_comps (render r cs)).
    rewrite (comps_word Hc_sf). cbn [filter]. replace (ne c) with true by (destruct c; [congruence|reflexivity]).
    rewrite <- Hp. f_equal.
    destruct cs as [|y cs'] eqn:Ecs'.
    + (* a single component *)
      cbn [app] in EL |- *. clearbody r. destruct r; cbn [render].
      * change (path_comps [SLASH]) with (@nil str). cbn [app]. rewrite <- EL. apply norm_fix; assumption.
      * change (path_comps [DOT]) with [[DOT]]. cbn [app]. rewrite norm_dot by reflexivity.
        rewrite <- EL. apply norm_fix; assumption.
    + rewrite <- Ecs' in *. rewrite path_comps_render by (auto; rewrite Ecs'; discriminate).
      rewrite <- EL. apply norm_fix; assumption.
Qed.

(* ---- non-vacuity ------------------------------------------------------------- *)
Example dir_base_examples :
  dir Linux [47;97;47;98;47;47]%N = [47;97;47;98]%N            (* Dir "/a/b//" = "/a/b" *)
  /\ base Linux [47;97;47;98;47;47]%N = [98]%N                 (* Base "/a/b//" = "b" *)
  /\ base Linux [47;47]%N = [47]%N /\ base Linux [] = [46]%N   (* Base "//" = "/", Base "" = "." *)
  /\ dir Linux [97]%N = [46]%N                                  (* Dir "a" = "." *)
  /\ join Linux [dir Linux [46;46;47;97]%N; base Linux [46;46;47;97]%N] = [46;46;47;97]%N.  (* "../a" *)
Proof. vm_compute. repeat split. Qed.
