(* Bounded bridge between the loop-level model of the Go code (PathModel) and the
   component-level specification (PathSpec): equality on EVERY string up to a
   stated length over the structural alphabet {'/', '.', 'a'}.  The domain is
   finite and the bound is part of each statement; [forallb ... = true] is
   computed by the kernel (vm_compute) and lifted with forallb_forall. *)
From Avfs Require Import Base PathModel PathSpec.

Fixpoint all_strings (alpha : list N) (n : nat) : list str :=
  match n with
  | O => [[]]
  | S k => [] :: flat_map (fun c => map (cons c) (all_strings alpha k)) alpha
  end.

Definition alpha3 : list N := [SLASH; DOT; 97%N].

Lemma clean_bridge_bounded :
  forall p, In p (all_strings alpha3 8) -> clean Linux p = clean_spec p.
Proof.
  assert (H : forallb (fun p => str_eqb (clean Linux p) (clean_spec p)) (all_strings alpha3 8) = true)
    by (vm_compute; reflexivity).
  intros p Hp. rewrite forallb_forall in H. apply str_eqb_eq. exact (H p Hp).
Qed.

Lemma join_bridge_bounded :
  forall a b, In a (all_strings alpha3 4) -> In b (all_strings alpha3 4) ->
              join Linux [a; b] = join_spec [a; b].
Proof.
  assert (H : forallb (fun a => forallb (fun b => str_eqb (join Linux [a; b]) (join_spec [a; b]))
                                        (all_strings alpha3 4)) (all_strings alpha3 4) = true)
    by (vm_compute; reflexivity).
  intros a b Ha Hb. rewrite forallb_forall in H. specialize (H a Ha).
  rewrite forallb_forall in H. apply str_eqb_eq. exact (H b Hb).
Qed.
