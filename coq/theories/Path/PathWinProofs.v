(* Unbounded facts about the WINDOWS flavour of the path model (property C13):
   the volume name (the volumeNameLen of Go 1.23 that vfs_ostype_on.go carries),
   IsAbs, FromSlash/ToSlash and the frame of Clean (volume-only inputs, slash
   conversion, the post-pass that keeps relative paths relative).  All
   statements are for ALL byte strings. *)
From Avfs Require Import Base PathModel PathProofs.
Set Implicit Arguments.

(* ---- searching a suffix ------------------------------------------------ *)
Lemma find_from_hit (p : N -> bool) (s : str) : forall i,
  let r := find_from p s i in
  i <= r <= i + length s /\ (r = i + length s \/ p (nth (r - i) s 0%N) = true).
Proof.
  induction s as [|c s IH]; intros i; cbn [find_from length].
  - split; [lia|]. left. lia.
  - destruct (p c) eqn:Hc.
    + split; [lia|]. right. replace (i - i) with 0 by lia. exact Hc.
    + specialize (IH (S i)). cbn zeta in IH. destruct IH as (Hb & Hr). split; [lia|].
      destruct Hr as [Hr|Hr]; [left; lia|right].
      replace (find_from p s (S i) - i) with (S (find_from p s (S i) - S i)) by lia. exact Hr.
Qed.

Lemma index_from_hit (p : N -> bool) (s : str) i :
  i <= length s ->
  let r := index_from p s i in
  i <= r <= length s /\ (r = length s \/ p (nthb s r) = true).
Proof.
  intros Hi. unfold index_from. pose proof (find_from_hit p (skipn i s) i) as H. cbn zeta in H.
  rewrite skipn_length in H. destruct H as (Hb & Hr). cbn zeta. split; [lia|].
  destruct Hr as [Hr|Hr]; [left; lia|right].
  change (p (nthb (skipn i s) (find_from p (skipn i s) i - i)) = true) in Hr.
  rewrite nthb_skipn in Hr. replace (i + (find_from p (skipn i s) i - i)) with (find_from p (skipn i s) i) in Hr by lia.
  exact Hr.
Qed.

Lemma unc_len_from_bounds (s : str) : forall i count,
  let r := unc_len_from s i count in
  i <= r <= i + length s /\ (r = i + length s \/ is_slash (nth (r - i) s 0%N) = true).
Proof.
  induction s as [|c s IH]; intros i count; cbn [unc_len_from length].
  - split; [lia|]. left; lia.
  - destruct (is_slash c) eqn:Hc.
    + destruct (Nat.eqb count 1).
      * split; [lia|]. right. replace (i - i) with 0 by lia. exact Hc.
      * specialize (IH (S i) (S count)). cbn zeta in IH. destruct IH as (Hb & Hr). split; [lia|].
        destruct Hr as [Hr|Hr]; [left; lia|right].
        replace (unc_len_from s (S i) (S count) - i) with (S (unc_len_from s (S i) (S count) - S i)) by lia. exact Hr.
    + specialize (IH (S i) count). cbn zeta in IH. destruct IH as (Hb & Hr). split; [lia|].
      destruct Hr as [Hr|Hr]; [left; lia|right].
      replace (unc_len_from s (S i) count - i) with (S (unc_len_from s (S i) count - S i)) by lia. exact Hr.
Qed.

Lemma unc_len_bounds (path : str) k :
  let r := unc_len path k in
  Nat.min k (length path) <= r <= length path /\ (r = length path \/ is_slash (nthb path r) = true).
Proof.
  unfold unc_len. destruct (Nat.ltb (length path) k) eqn:Hk.
  - apply Nat.ltb_lt in Hk. cbn zeta. split; [lia|]. left; reflexivity.
  - apply Nat.ltb_ge in Hk. pose proof (unc_len_from_bounds (skipn k path) k 0) as H. cbn zeta in H.
    rewrite skipn_length in H. destruct H as (Hb & Hr). cbn zeta. split; [lia|].
    destruct Hr as [Hr|Hr]; [left; lia|right].
    change (is_slash (nthb (skipn k path) (unc_len_from (skipn k path) k 0 - k)) = true) in Hr.
    rewrite nthb_skipn in Hr.
    replace (k + (unc_len_from (skipn k path) k 0 - k)) with (unc_len_from (skipn k path) k 0) in Hr by lia.
    exact Hr.
Qed.

Lemma has_prefix_fold_length (s prefix : str) : has_prefix_fold s prefix = true -> length prefix <= length s.
Proof.
  revert s; induction prefix as [|p prefix IH]; intros s H; cbn [length]; [lia|].
  destruct s as [|c s]; cbn [has_prefix_fold] in H; [discriminate|].
  apply andb_true_iff in H. destruct H as (_ & H). apply IH in H. cbn [length]. lia.
Qed.

(* ---- the volume name ---------------------------------------------------- *)

(* shape of the Windows volume: nothing; a drive designator (any byte followed by ':'); or a prefix that starts
   with a separator, is at least two bytes long and ends at the end of the path or right before a separator *)
Theorem volume_name_len_windows_cases (p : str) :
  let n := volume_name_len Windows p in
  n = 0
  \/ (n = 2 /\ 2 <= length p /\ nthb p 1 = COLON)
  \/ (is_slash (nthb p 0) = true /\ 2 <= n <= length p /\ (n = length p \/ is_slash (nthb p n) = true)).
Proof.
  cbn zeta. unfold volume_name_len.
  destruct (Nat.leb 2 (length p) && N.eqb (nthb p 1) COLON) eqn:Hd.
  { apply andb_true_iff in Hd. destruct Hd as (Hl & Hc). apply Nat.leb_le in Hl. apply N.eqb_eq in Hc.
    right; left. auto. }
  destruct (Nat.eqb (length p) 0 || negb (is_slash (nthb p 0))) eqn:H0; [left; reflexivity|].
  apply orb_false_iff in H0. destruct H0 as (Hne & Hs0). apply negb_false_iff in Hs0. apply Nat.eqb_neq in Hne.
  destruct (has_prefix_fold p PFX_DEV_UNC) eqn:Hu.
  { apply has_prefix_fold_length in Hu. cbn [PFX_DEV_UNC length] in Hu.
    pose proof (unc_len_bounds p 8) as (Hb & Hr). right; right. split; [exact Hs0|]. split; [lia|exact Hr]. }
  destruct (has_prefix_fold p PFX_DEV || has_prefix_fold p PFX_ROOT_DEV || has_prefix_fold p PFX_NT) eqn:Hdev.
  { assert (Hl : 3 <= length p).
    { apply orb_true_iff in Hdev. destruct Hdev as [Hdev|Hdev]; [apply orb_true_iff in Hdev; destruct Hdev as [Hdev|Hdev]|];
        apply has_prefix_fold_length in Hdev; exact Hdev. }
    destruct (Nat.eqb (length p) 3) eqn:H3.
    - apply Nat.eqb_eq in H3. right; right. split; [exact Hs0|]. split; [lia|left; lia].
    - apply Nat.eqb_neq in H3. assert (H4 : 4 <= length p) by lia.
      pose proof (index_from_hit is_slash p H4) as (Hb & Hr). right; right. split; [exact Hs0|]. split; [lia|exact Hr]. }
  destruct (Nat.leb 2 (length p) && is_slash (nthb p 1)) eqn:Hunc; [|left; reflexivity].
  apply andb_true_iff in Hunc. destruct Hunc as (Hl & _). apply Nat.leb_le in Hl.
  pose proof (unc_len_bounds p 2) as (Hb & Hr). right; right. split; [exact Hs0|]. split; [lia|exact Hr].
Qed.

(* every slice path[:VolumeNameLen(path)] of the Go code is in range, for both OS types *)
Theorem volume_name_len_le os (p : str) : volume_name_len os p <= length p.
Proof.
  destruct os; [cbn; lia|].
  pose proof (volume_name_len_windows_cases p) as H. cbn zeta in H.
  destruct H as [H|[(H & Hl & _)|(_ & H & _)]]; lia.
Qed.

Theorem volume_name_length os (p : str) : length (volume_name os p) = volume_name_len os p.
Proof.
  unfold volume_name. pose proof (volume_name_len_le os p) as H.
  destruct os; cbn [from_slash]; [|rewrite map_length]; rewrite firstn_length; lia.
Qed.

(* a drive designator is ANY byte followed by ':' (Go >= 1.20 does not ask for a letter) *)
Theorem volume_drive (c : N) (rest : str) : volume_name_len Windows (c :: COLON :: rest) = 2.
Proof. reflexivity. Qed.

(* no volume: the path neither starts with a separator nor has ':' as second byte *)
Theorem volume_relative (p : str) :
  is_slash (nthb p 0) = false -> nthb p 1 <> COLON -> volume_name_len Windows p = 0.
Proof.
  intros Hs Hc. unfold volume_name_len.
  replace (N.eqb (nthb p 1) COLON) with false by (symmetry; apply N.eqb_neq; exact Hc).
  rewrite andb_false_r. rewrite Hs. cbn [negb]. rewrite orb_true_r. reflexivity.
Qed.

(* a single leading separator not followed by a second one or by "??" is no volume: `\a`, `\`, `\?a` *)
Theorem volume_rooted_only (c d : N) (rest : str) :
  is_slash d = false -> d <> COLON -> d <> QMARK -> volume_name_len Windows (c :: d :: rest) = 0.
Proof.
  intros Hd Hc Hq. unfold volume_name_len. cbn [length nthb nth Nat.leb andb].
  replace (N.eqb d COLON) with false by (symmetry; apply N.eqb_neq; exact Hc).
  cbn [Nat.eqb orb]. destruct (is_slash c) eqn:Hsc; cbn [negb]; [|reflexivity].
  assert (Hq' : N.eqb (to_upper 63) (to_upper d) = false).
  { apply N.eqb_neq. unfold to_upper at 1. cbn. unfold to_upper.
    destruct (N.leb 97 d && N.leb d 122) eqn:Hr.
    - apply andb_true_iff in Hr. destruct Hr as (Ha & Hb). apply N.leb_le in Ha. unfold QMARK in Hq. lia.
    - unfold QMARK in Hq. congruence. }
  unfold PFX_DEV_UNC, PFX_DEV, PFX_ROOT_DEV, PFX_NT. cbn [has_prefix_fold].
  assert (H92 : is_slash 92 = true) by reflexivity. assert (H63 : is_slash 63 = false) by reflexivity.
  rewrite H92, H63, Hsc, Hd, Hq'. cbn [andb orb]. reflexivity.
Qed.

(* ---- IsAbs ---------------------------------------------------------------- *)
Theorem is_abs_windows (p : str) :
  is_abs Windows p = true <->
  0 < volume_name_len Windows p
  /\ ((is_slash (nthb p 0) = true /\ is_slash (nthb p 1) = true)
      \/ (volume_name_len Windows p < length p /\ is_slash (nthb p (volume_name_len Windows p)) = true)).
Proof.
  unfold is_abs. set (l := volume_name_len Windows p).
  destruct (Nat.eqb l 0) eqn:H0.
  { apply Nat.eqb_eq in H0. split; [discriminate|]. intros (H & _). lia. }
  apply Nat.eqb_neq in H0.
  destruct (is_slash (nthb p 0) && is_slash (nthb p 1)) eqn:Hss.
  { apply andb_true_iff in Hss. split; [|reflexivity]. intros _. split; [lia|left; exact Hss]. }
  pose proof (volume_name_len_le Windows p) as Hle. fold l in Hle.
  destruct (skipn l p) as [|c r] eqn:Hsk.
  - split; [discriminate|]. intros (_ & [(Ha & Hb)|(Hlt & _)]).
    + rewrite Ha, Hb in Hss. discriminate.
    + apply (f_equal (@length N)) in Hsk. rewrite skipn_length in Hsk. cbn [length] in Hsk. lia.
  - assert (Hc : nthb p l = c).
    { replace l with (l + 0) at 1 by lia. rewrite <- nthb_skipn. rewrite Hsk. reflexivity. }
    assert (Hlt : l < length p).
    { apply (f_equal (@length N)) in Hsk. rewrite skipn_length in Hsk. cbn [length] in Hsk. lia. }
    split.
    + intros Hs. split; [lia|]. right. rewrite Hc. auto.
    + intros (_ & [(Ha & Hb)|(_ & Hs)]).
      * rewrite Ha, Hb in Hss. discriminate.
      * rewrite Hc in Hs. exact Hs.
Qed.

(* `C:\x` is absolute, `C:x` and `C:` are not - whatever the drive byte *)
Theorem is_abs_drive (c : N) (rest : str) :
  is_abs Windows (c :: COLON :: rest) = match rest with [] => false | s :: _ => is_slash s end.
Proof.
  unfold is_abs. rewrite volume_drive. cbn [Nat.eqb nthb nth skipn].
  replace (is_slash COLON) with false by reflexivity. rewrite andb_false_r. reflexivity.
Qed.

(* a path without volume is never absolute (`\a` is only rooted) *)
Theorem is_abs_needs_volume (p : str) : volume_name_len Windows p = 0 -> is_abs Windows p = false.
Proof. intros H. unfold is_abs. rewrite H. reflexivity. Qed.

(* ---- FromSlash / ToSlash --------------------------------------------------- *)
Theorem from_slash_windows_no_slash (p : str) : ~ In SLASH (from_slash Windows p).
Proof.
  cbn [from_slash]. intros H. apply in_map_iff in H. destruct H as (c & Hc & _).
  destruct (N.eqb c SLASH) eqn:E; [discriminate Hc|]. apply N.eqb_neq in E. congruence.
Qed.

Theorem to_slash_windows_no_backslash (p : str) : ~ In BSLASH (to_slash Windows p).
Proof.
  cbn [to_slash]. intros H. apply in_map_iff in H. destruct H as (c & Hc & _).
  destruct (N.eqb c BSLASH) eqn:E; [discriminate Hc|]. apply N.eqb_neq in E. congruence.
Qed.

Theorem slash_windows_length (p : str) :
  length (from_slash Windows p) = length p /\ length (to_slash Windows p) = length p.
Proof. cbn [from_slash to_slash]. rewrite !map_length. auto. Qed.

(* the conversions only exchange the two separators: positions of separators are untouched *)
Theorem slash_windows_seps (p : str) :
  map (is_sep Windows) (from_slash Windows p) = map (is_sep Windows) p
  /\ map (is_sep Windows) (to_slash Windows p) = map (is_sep Windows) p.
Proof.
  cbn [from_slash to_slash]. rewrite !map_map. split; apply map_ext; intros c.
  - destruct (N.eqb c SLASH) eqn:E; [|reflexivity]. apply N.eqb_eq in E. subst c. reflexivity.
  - destruct (N.eqb c BSLASH) eqn:E; [|reflexivity]. apply N.eqb_eq in E. subst c. reflexivity.
Qed.

Theorem slash_windows_roundtrip (p : str) :
  from_slash Windows (to_slash Windows p) = from_slash Windows p
  /\ to_slash Windows (from_slash Windows p) = to_slash Windows p
  /\ from_slash Windows (from_slash Windows p) = from_slash Windows p.
Proof.
  cbn [from_slash to_slash]. rewrite !map_map. repeat split; apply map_ext; intros c.
  - destruct (N.eqb c BSLASH) eqn:E.
    + apply N.eqb_eq in E. subst c. reflexivity.
    + reflexivity.
  - destruct (N.eqb c SLASH) eqn:E.
    + apply N.eqb_eq in E. subst c. reflexivity.
    + reflexivity.
  - destruct (N.eqb c SLASH) eqn:E; [reflexivity|]. rewrite E. reflexivity.
Qed.

(* ---- the frame of Clean ------------------------------------------------------ *)

(* a path that is only a volume: returned with converted separators when the volume starts with two separators
   (UNC / device forms), with "." appended otherwise (`C:` -> `C:.`) *)
Theorem clean_windows_volume_only (p : str) :
  skipn (volume_name_len Windows p) p = [] ->
  clean Windows p = if Nat.ltb 1 (volume_name_len Windows p) && is_slash (nthb p 0) && is_slash (nthb p 1)
                    then from_slash Windows p else p ++ [DOT].
Proof. intros H. unfold clean. rewrite H. reflexivity. Qed.

(* in every other case the result went through FromSlash: Clean leaves no '/' behind *)
Theorem clean_windows_no_slash (p : str) :
  skipn (volume_name_len Windows p) p <> [] -> ~ In SLASH (clean Windows p).
Proof.
  intros H. unfold clean. destruct (skipn (volume_name_len Windows p) p) as [|c0 r] eqn:Hsk; [congruence|].
  apply from_slash_windows_no_slash.
Qed.

(* the post-pass of Clean only PREPENDS `.\` or `\.` (or nothing) to what the loop produced ... *)
Theorem post_clean_bytes os (vol_len : nat) (path : str) (out : lazybuf) :
  exists pre, lb_bytes path (post_clean os vol_len out) = pre ++ lb_bytes path out
              /\ (pre = [] \/ pre = [DOT; sepc os] \/ pre = [sepc os; DOT]).
Proof.
  assert (Hpre : forall buf w pre,
            lb_bytes path (lb_prepend {| lb_buf := Some buf; lb_w := w |} pre) = pre ++ lb_bytes path {| lb_buf := Some buf; lb_w := w |}).
  { intros buf w pre. unfold lb_prepend, lb_bytes. cbn [lb_buf lb_w].
    replace (w + length pre) with (length pre + w) by lia. rewrite firstn_app_2. reflexivity. }
  unfold post_clean. destruct out as [[buf|] w]; cbn [lb_buf]; [|exists []; auto].
  destruct (negb (Nat.eqb vol_len 0)); [exists []; auto|].
  destruct (colon_before_sep os buf).
  { exists [DOT; sepc os]. split; [apply Hpre|auto]. }
  destruct (Nat.leb 3 (length buf) && is_sep os (nthb buf 0) && N.eqb (nthb buf 1) QMARK && N.eqb (nthb buf 2) QMARK).
  { exists [sepc os; DOT]. split; [apply Hpre|auto]. }
  exists []. auto.
Qed.

(* ... it leaves paths with a volume and unmodified paths (lazy buffer never allocated) alone ... *)
Theorem post_clean_identity os (vol_len : nat) (out : lazybuf) :
  vol_len <> 0 \/ lb_buf out = None -> post_clean os vol_len out = out.
Proof.
  intros [H|H]; unfold post_clean.
  - destruct (lb_buf out); [|reflexivity]. apply Nat.eqb_neq in H. rewrite H. reflexivity.
  - rewrite H. reflexivity.
Qed.

(* ... and whenever the buffer of a volume-less path shows a ':' before its first separator (`a/../c:` would
   otherwise become the drive-relative `c:`), the result starts with `.\` *)
Theorem post_clean_colon os (path : str) (buf : list N) (w : nat) :
  colon_before_sep os buf = true ->
  lb_bytes path (post_clean os 0 {| lb_buf := Some buf; lb_w := w |}) = DOT :: sepc os :: firstn w buf.
Proof.
  intros H. unfold post_clean. cbn [lb_buf Nat.eqb negb]. rewrite H.
  unfold lb_prepend, lb_bytes. cbn [lb_buf lb_w length].
  replace (w + 2) with (2 + w) by lia. reflexivity.
Qed.

(* ---- the statements of Properties/C13.v that bundle several of the facts above ---- *)
Theorem volume_len_in_range os (p : str) :
  volume_name_len os p <= length p /\ length (volume_name os p) = volume_name_len os p.
Proof. split; [apply volume_name_len_le|apply volume_name_length]. Qed.

Theorem slash_windows (p : str) :
  ~ In SLASH (from_slash Windows p) /\ ~ In BSLASH (to_slash Windows p)
  /\ length (from_slash Windows p) = length p /\ length (to_slash Windows p) = length p
  /\ map (is_sep Windows) (from_slash Windows p) = map (is_sep Windows) p
  /\ map (is_sep Windows) (to_slash Windows p) = map (is_sep Windows) p
  /\ from_slash Windows (to_slash Windows p) = from_slash Windows p
  /\ to_slash Windows (from_slash Windows p) = to_slash Windows p
  /\ from_slash Windows (from_slash Windows p) = from_slash Windows p.
Proof.
  pose proof (slash_windows_length p) as (L1 & L2). pose proof (slash_windows_seps p) as (S1 & S2).
  pose proof (slash_windows_roundtrip p) as (R1 & R2 & R3).
  repeat split; auto using from_slash_windows_no_slash, to_slash_windows_no_backslash.
Qed.

Theorem post_clean_frame os (vol_len : nat) (path : str) (out : lazybuf) :
  (exists pre, lb_bytes path (post_clean os vol_len out) = pre ++ lb_bytes path out
               /\ (pre = [] \/ pre = [DOT; sepc os] \/ pre = [sepc os; DOT]))
  /\ (vol_len <> 0 \/ lb_buf out = None -> post_clean os vol_len out = out).
Proof. split; [apply post_clean_bytes|apply post_clean_identity]. Qed.

(* ---- Clean never returns the empty string (both OS types) ---------------------- *)
Definition buf_ok (path : str) (b : lazybuf) : Prop :=
  match lb_buf b with Some buf => length buf = length path | None => True end.

Lemma set_nth_length (l : list N) : forall i c, length (set_nth l i c) = length l.
Proof. induction l as [|x l IH]; intros [|i] c; cbn [set_nth length]; auto. Qed.

Lemma lb_append_ok (path : str) (b : lazybuf) (c : N) :
  buf_ok path b -> buf_ok path (lb_append path b c) /\ lb_w (lb_append path b c) = S (lb_w b).
Proof.
  unfold buf_ok, lb_append. destruct (lb_buf b) as [buf|] eqn:Hb; intros H.
  - cbn [lb_buf lb_w]. rewrite set_nth_length. auto.
  - destruct (Nat.ltb (lb_w b) (length path) && N.eqb (nthb path (lb_w b)) c); cbn [lb_buf lb_w]; [auto|].
    rewrite set_nth_length, app_length, firstn_length, repeat_length. split; [lia|reflexivity].
Qed.

Lemma fold_append_ok (path : str) (l : list N) : forall b,
  buf_ok path b -> buf_ok path (fold_left (lb_append path) l b).
Proof.
  induction l as [|c l IH]; intros b H; cbn [fold_left]; [exact H|].
  apply IH. apply lb_append_ok. exact H.
Qed.

Lemma clean_loop_ok os (path : str) rooted n : forall fuel r dotdot out,
  buf_ok path out -> buf_ok path (clean_loop os path rooted n fuel r dotdot out).
Proof.
  induction fuel as [|f IH]; intros r dotdot out H; cbn [clean_loop]; [exact H|].
  destruct (negb (Nat.ltb r n)); [exact H|].
  destruct (is_sep os (nthb path r)); [apply IH; exact H|].
  destruct (N.eqb (nthb path r) DOT && (Nat.eqb (S r) n || is_sep os (nthb path (S r)))); [apply IH; exact H|].
  destruct (N.eqb (nthb path r) DOT && N.eqb (nthb path (S r)) DOT
            && (Nat.eqb (S (S r)) n || is_sep os (nthb path (S (S r))))).
  - destruct (Nat.ltb dotdot (lb_w out)).
    + apply IH. unfold buf_ok in *. cbn [lb_buf]. exact H.
    + destruct (negb rooted); [|apply IH; exact H].
      apply IH. apply lb_append_ok. apply lb_append_ok.
      destruct (Nat.ltb 0 (lb_w out)); [apply lb_append_ok|]; exact H.
  - apply IH. apply fold_append_ok.
    destruct ((rooted && negb (Nat.eqb (lb_w out) 1)) || (negb rooted && negb (Nat.eqb (lb_w out) 0)));
      [apply lb_append_ok|]; exact H.
Qed.

Theorem clean_nonempty os (p : str) : clean os p <> [].
Proof.
  assert (Hfs : forall s, s <> [] -> from_slash os s <> []).
  { intros s Hs. destruct os; cbn [from_slash]; [exact Hs|]. destruct s; [congruence|discriminate]. }
  unfold clean. set (vl := volume_name_len os p).
  destruct (skipn vl p) as [|c0 rest] eqn:Hsk.
  { destruct (Nat.ltb 1 vl && is_sep os (nthb p 0) && is_sep os (nthb p 1)) eqn:Hu.
    - apply Hfs. intros ->. apply andb_true_iff in Hu. destruct Hu as (Hu & _). apply andb_true_iff in Hu.
      destruct Hu as (Hu & _). apply Nat.ltb_lt in Hu. pose proof (volume_name_len_le os []) as Hle. fold vl in Hle.
      cbn [length] in Hle. lia.
    - destruct p; discriminate. }
  set (path := c0 :: rest). set (rooted := is_sep os c0). set (n := length path).
  set (out0 := {| lb_buf := None; lb_w := 0 |}).
  set (out1 := if rooted then lb_append path out0 (sepc os) else out0).
  set (out2 := clean_loop os path rooted n (S n) (if rooted then 1 else 0) (if rooted then 1 else 0) out1).
  set (out3 := if Nat.eqb (lb_w out2) 0 then lb_append path out2 DOT else out2).
  set (out4 := match os with Windows => post_clean os vl out3 | Linux => out3 end).
  assert (H0 : buf_ok path out0) by exact I.
  assert (H1 : buf_ok path out1) by (unfold out1; destruct rooted; [apply lb_append_ok|]; exact H0).
  assert (H2 : buf_ok path out2) by (apply clean_loop_ok; exact H1).
  assert (H3 : buf_ok path out3 /\ 1 <= lb_w out3).
  { unfold out3. destruct (Nat.eqb (lb_w out2) 0) eqn:E.
    - destruct (lb_append_ok path out2 DOT H2) as (Ha & Hb). split; [exact Ha|lia].
    - apply Nat.eqb_neq in E. split; [exact H2|lia]. }
  destruct H3 as (H3 & Hw3).
  assert (H4 : 1 <= lb_w out4 /\ match lb_buf out4 with Some buf => buf <> [] | None => True end).
  { assert (Hbase : 1 <= lb_w out3 /\ match lb_buf out3 with Some buf => buf <> [] | None => True end).
    { split; [exact Hw3|]. unfold buf_ok in H3. destruct (lb_buf out3) as [buf|]; [|exact I].
      intros ->. cbn [length] in H3. unfold path in H3. discriminate. }
    unfold out4. destruct os; [exact Hbase|].
    unfold post_clean. destruct (lb_buf out3) as [buf|] eqn:Hb3.
    - destruct (negb (Nat.eqb vl 0)); [rewrite Hb3; exact Hbase|].
      destruct (colon_before_sep Windows buf).
      { unfold lb_prepend. rewrite Hb3. cbn [lb_buf lb_w]. split; [lia|discriminate]. }
      destruct (Nat.leb 3 (length buf) && is_sep Windows (nthb buf 0) && N.eqb (nthb buf 1) QMARK && N.eqb (nthb buf 2) QMARK).
      { unfold lb_prepend. rewrite Hb3. cbn [lb_buf lb_w]. split; [lia|discriminate]. }
      rewrite Hb3. exact Hbase.
    - rewrite Hb3. exact Hbase. }
  destruct H4 as (Hw4 & Hb4). apply Hfs.
  assert (Hp : p <> []) by (intros ->; rewrite skipn_nil in Hsk; discriminate).
  destruct (lb_buf out4) as [buf|].
  - intros Happ. apply app_eq_nil in Happ. destruct Happ as (_ & Hf).
    destruct buf as [|b0 buf']; [congruence|]. destruct (lb_w out4); [lia|discriminate].
  - destruct p as [|x p']; [congruence|]. destruct (vl + lb_w out4) eqn:E; [lia|discriminate].
Qed.

(* ---- PathIterator: a fresh iterator is well formed on both OS types --------------- *)
Theorem pi_new_wf os (p : str) : pi_wf (pi_new os p).
Proof. unfold pi_wf, pi_new. cbn [pi_start pi_end pi_path]. pose proof (volume_name_len_le os p). lia. Qed.

(* ---- witnesses ---------------------------------------------------------------------- *)
(* the volume of: C:\a  1:a  \\a\b\c  \\.\C:\x  \\?\UNC\a\b\c  //./unc/a/b/c  \??\C:\x  \a  \\a  a\b *)
Example volume_examples :
  map (volume_name_len Windows)
      [[67;58;92;97]; [49;58;97]; [92;92;97;92;98;92;99]; [92;92;46;92;67;58;92;120];
       [92;92;63;92;85;78;67;92;97;92;98;92;99]; [47;47;46;47;117;110;99;47;97;47;98;47;99];
       [92;63;63;92;67;58;92;120]; [92;97]; [92;92;97]; [97;92;98]]%N
  = [2; 2; 5; 6; 7; 11; 6; 0; 3; 0].   (* only \\.\UNC\ extends over host and share; \\?\UNC is a device named UNC *)
Proof. vm_compute. reflexivity. Qed.

(* known finding C13-rel-unc-root-loop, on the model: Rel(`\\a\b`, `\\a\b\`) exhausts the exact fuel of the
   element loop (= the Go loop never ends), while Rel(`\\a\b`, `\\a\b\c`) is `c` *)
Example rel_unc_root_loop :
  rel Windows [92;92;97;92;98]%N [92;92;97;92;98;92]%N = RelLoop
  /\ rel Windows [92;92;97;92;98]%N [92;92;97;92;98;92;99]%N = RelOk [99]%N.
Proof. vm_compute. auto. Qed.
