(* The WINDOWS flavour of Clean / Join / Split / Dir / Base on ALL byte strings
   (no bound, no axiom), on top of the OS-generic loop invariant of
   PathCleanGen.v.

   Clean:  for a path p with volume length v and a non-empty remainder
             clean Windows p = FromSlash(volume) ++ pre ++ body
           body = Pike's rules on the components of the remainder, both
           separators accepted, rendered with '\' ([renderO]/[ncompsO]);
           pre  = what the post-pass of Go's Clean prepends: "", ".\" or "\.".
           [win_pre] gives pre EXACTLY, as a function of the lazy buffer the
           loop leaves behind.  The Go code scans that WHOLE buffer, stale
           bytes beyond the result included, so pre is not a function of body
           alone (example [clean_windows_stale]); it is one whenever the scan
           is decided inside body ([win_pre_rooted], [win_pre_relative]). *)
From Avfs Require Import Base PathModel PathSpec PathProofs PathCleanProofs PathWinProofs PathCleanGen.
Set Implicit Arguments.

Notation sepW := (is_sep Windows).
Notation W := Windows.

Lemma sepW_slash c : sepW c = is_slash c.
Proof. reflexivity. Qed.

(* ---- list helpers ------------------------------------------------------------ *)
Lemma firstn_add (A : Type) (l : list A) a b : firstn (a + b) l = firstn a l ++ firstn b (skipn a l).
Proof.
  revert l. induction a as [|a IH]; intros l; [reflexivity|].
  destruct l as [|x l]; [cbn [plus firstn skipn app]; rewrite firstn_nil; reflexivity|].
  cbn [plus firstn skipn app]. f_equal. apply IH.
Qed.

Lemma from_slash_app (a b : str) : from_slash W (a ++ b) = from_slash W a ++ from_slash W b.
Proof. cbn [from_slash]. apply map_app. Qed.

Lemma from_slash_id_W (s : str) : ~ In SLASH s -> from_slash W s = s.
Proof.
  intros H. cbn [from_slash]. induction s as [|c s IH]; [reflexivity|]. cbn [map].
  destruct (N.eqb_spec c SLASH) as [E|_]; [exfalso; apply H; left; exact E|].
  rewrite IH; [reflexivity|]. intros Hin. apply H. right. exact Hin.
Qed.

(* ---- the post-pass, on the bytes ------------------------------------------------ *)
Definition win_pre (v : nat) (b : lazybuf) : str :=
  match lb_buf b with
  | None => []
  | Some buf =>
      if negb (Nat.eqb v 0) then []
      else if colon_before_sep W buf then [DOT; BSLASH]
      else if Nat.leb 3 (length buf) && sepW (nthb buf 0) && N.eqb (nthb buf 1) QMARK && N.eqb (nthb buf 2) QMARK
           then [BSLASH; DOT]
      else []
  end.

Lemma post_clean_pre (path : str) v b :
  lb_bytes path (post_clean W v b) = win_pre v b ++ lb_bytes path b.
Proof.
  assert (Hpre : forall buf w pre,
            lb_bytes path (lb_prepend {| lb_buf := Some buf; lb_w := w |} pre) = pre ++ lb_bytes path {| lb_buf := Some buf; lb_w := w |}).
  { intros buf w pre. unfold lb_prepend, lb_bytes. cbn [lb_buf lb_w].
    replace (w + length pre) with (length pre + w) by lia. rewrite firstn_app_2. reflexivity. }
  unfold post_clean, win_pre. destruct b as [[buf|] w]; cbn [lb_buf]; [|reflexivity].
  destruct (negb (Nat.eqb v 0)); [reflexivity|].
  destruct (colon_before_sep W buf); [apply Hpre|].
  destruct (Nat.leb 3 (length buf) && sepW (nthb buf 0) && N.eqb (nthb buf 1) QMARK && N.eqb (nthb buf 2) QMARK);
    [apply Hpre|reflexivity].
Qed.

(* ---- Clean = volume ++ pre ++ body ---------------------------------------------- *)
Lemma clean_windows_unfold (orig : str) c0 p' :
  skipn (volume_name_len W orig) orig = c0 :: p' ->
  clean W orig = from_slash W (firstn (volume_name_len W orig) orig
                               ++ lb_bytes (c0 :: p') (post_clean W (volume_name_len W orig) (clean_core W (c0 :: p')))).
Proof.
  intros Hp. unfold clean. rewrite Hp. cbv zeta.
  set (v := volume_name_len W orig).
  change (if Nat.eqb (lb_w ?o) 0 then lb_append (c0 :: p') ?o DOT else ?o) with (clean_core W (c0 :: p')).
  set (out4 := post_clean W v (clean_core W (c0 :: p'))). f_equal.
  unfold lb_bytes. destruct (lb_buf out4); [reflexivity|]. rewrite firstn_add. fold v in Hp. rewrite Hp. reflexivity.
Qed.

Definition no_slash (s : str) : Prop := ~ In SLASH s.

Lemma sepfreeW_no_slash (c : str) : sepfreeO W c -> no_slash c.
Proof. intros H Hin. specialize (H SLASH Hin). discriminate H. Qed.

Lemma intercalate_no_slash (l : list str) : Forall no_slash l -> no_slash (intercalate [BSLASH] l).
Proof.
  induction 1 as [|x l Hx _ IH]; [intros []|]. rewrite intercalate_cons. intros Hin.
  apply in_app_or in Hin as [Hin|Hin]; [exact (Hx Hin)|]. destruct l as [|y l]; [exact Hin|].
  cbn [app] in Hin. destruct Hin as [E|Hin]; [discriminate|exact (IH Hin)].
Qed.

Lemma render_no_slash r (l : list str) : Forall (sepfreeO W) l -> no_slash (renderO W r l).
Proof.
  intros Hl. assert (Hn : Forall no_slash l) by (eapply Forall_impl; [|exact Hl]; apply sepfreeW_no_slash).
  unfold renderO. change (sepc W) with BSLASH. destruct r.
  - intros [E|Hin]; [discriminate|]. exact (intercalate_no_slash Hn Hin).
  - destruct l as [|x l]; [intros [E|[]]; discriminate|]. apply intercalate_no_slash. exact Hn.
Qed.

Lemma win_pre_cases v b : win_pre v b = [] \/ win_pre v b = [DOT; BSLASH] \/ win_pre v b = [BSLASH; DOT].
Proof.
  unfold win_pre. destruct (lb_buf b) as [buf|]; [|auto]. destruct (negb (Nat.eqb v 0)); [auto|].
  destruct (colon_before_sep W buf); [auto|].
  destruct (Nat.leb 3 (length buf) && sepW (nthb buf 0) && N.eqb (nthb buf 1) QMARK && N.eqb (nthb buf 2) QMARK); auto.
Qed.

(* the components of the remainder, cleaned; rendered with '\' *)
Definition win_body (path : str) : str := renderO W (sepW (nthb path 0)) (ncompsO W path).

Theorem clean_windows_spec (orig : str) :
  let v := volume_name_len W orig in
  let path := skipn v orig in
  path <> [] ->
  clean W orig = from_slash W (firstn v orig) ++ win_pre v (clean_core W path) ++ win_body path.
Proof.
  intros v path Hne. destruct path as [|c0 p'] eqn:Hp; [congruence|]. unfold path in Hp.
  rewrite (clean_windows_unfold orig Hp). fold v. rewrite post_clean_pre.
  pose proof (clean_core_spec W c0 p') as HR. cbv zeta in HR. destruct HR as (_ & Hb & _).
  rewrite Hb. unfold win_body. change (nthb (c0 :: p') 0) with c0.
  rewrite !from_slash_app. f_equal. f_equal.
  - apply from_slash_id_W. destruct (win_pre_cases v (clean_core W (c0 :: p'))) as [E|[E|E]]; rewrite E;
      [intros []|intros [H|[H|[]]]; discriminate|intros [H|[H|[]]]; discriminate].
  - apply from_slash_id_W. apply render_no_slash.
    destruct (ncompsO_shape W (c0 :: p')) as (k & names & E & Hg & _). rewrite E. apply L_sepfreeO. exact Hg.
Qed.

(* with a volume the post-pass does nothing *)
Theorem clean_windows_vol (orig : str) :
  let v := volume_name_len W orig in
  v <> 0 -> skipn v orig <> [] ->
  clean W orig = from_slash W (firstn v orig) ++ win_body (skipn v orig).
Proof.
  intros v Hv Hne. rewrite (clean_windows_spec orig Hne). fold v. f_equal.
  unfold win_pre. destruct (lb_buf _); [|reflexivity]. apply Nat.eqb_neq in Hv. rewrite Hv. reflexivity.
Qed.

(* ---- when the post-pass is decided inside the result ----------------------------- *)
(* the scan for ':' stops at the first separator or colon *)
Fixpoint decided (s : str) : option bool :=
  match s with
  | [] => None
  | c :: s' => if sepW c then Some false else if N.eqb c COLON then Some true else decided s'
  end.

Lemma colon_before_sep_app (a b : str) :
  colon_before_sep W (a ++ b) = match decided a with Some x => x | None => colon_before_sep W b end.
Proof.
  induction a as [|c a IH]; [reflexivity|]. cbn [app colon_before_sep decided].
  destruct (sepW c); [reflexivity|]. destruct (N.eqb c COLON); [reflexivity|]. exact IH.
Qed.

(* the lazy buffer of Clean holds the body, then stale bytes *)
Lemma clean_core_buf c0 p' buf :
  lb_buf (clean_core W (c0 :: p')) = Some buf ->
  exists tail, buf = win_body (c0 :: p') ++ tail /\ length buf = length (c0 :: p').
Proof.
  intros Hb. pose proof (clean_core_spec W c0 p') as HR. cbv zeta in HR. destruct HR as (Hw & Hbytes & Hlen & _).
  unfold lb_bytes in Hbytes. rewrite Hb in Hbytes, Hlen. exists (skipn (lb_w (clean_core W (c0 :: p'))) buf).
  split; [|exact Hlen]. unfold win_body. change (nthb (c0 :: p') 0) with c0. rewrite <- Hbytes. symmetry. apply firstn_skipn.
Qed.

(* no buffer: Clean copied a prefix of its input *)
Lemma clean_core_lazy c0 p' :
  lb_buf (clean_core W (c0 :: p')) = None ->
  win_body (c0 :: p') = firstn (length (win_body (c0 :: p'))) (c0 :: p').
Proof.
  intros Hb. pose proof (clean_core_spec W c0 p') as HR. cbv zeta in HR. destruct HR as (Hw & Hbytes & _).
  unfold lb_bytes in Hbytes. rewrite Hb in Hbytes. unfold win_body. change (nthb (c0 :: p') 0) with c0.
  rewrite <- Hw. symmetry. exact Hbytes.
Qed.

Lemma win_body_rooted c0 p' : sepW c0 = true -> exists t, win_body (c0 :: p') = BSLASH :: t.
Proof. intros H. unfold win_body, renderO. change (nthb (c0 :: p') 0) with c0. rewrite H. eauto. Qed.

Lemma win_body_relative c0 p' : sepW c0 = false ->
  exists a t, win_body (c0 :: p') = a :: t /\ sepW a = false.
Proof.
  intros H. unfold win_body, renderO. change (nthb (c0 :: p') 0) with c0. rewrite H.
  destruct (ncompsO_shape W (c0 :: p')) as (k & names & E & Hg & _). rewrite E.
  destruct (LO k names) as [|x l] eqn:EL; [exists DOT, []; auto|]. rewrite <- EL.
  destruct (@intercalate_headO W (LO k names)) as (a & s & Hi & Ha).
  - rewrite EL. discriminate.
  - apply (@L_neO W). exact Hg.
  - apply (@L_sepfreeO W). exact Hg.
  - exists a, s. change (sepc W) with BSLASH in Hi. auto.
Qed.

(* a rooted result: never ".\"; "\." exactly when a buffer was allocated, there is no volume and the
   buffer reads \?? - a function of the result as soon as it has three bytes *)
Theorem win_pre_rooted v c0 p' :
  sepW c0 = true ->
  win_pre v (clean_core W (c0 :: p')) <> [DOT; BSLASH] /\
  (3 <= length (win_body (c0 :: p')) ->
   win_pre v (clean_core W (c0 :: p')) =
   if negb (Nat.eqb v 0) then []
   else match lb_buf (clean_core W (c0 :: p')) with
        | None => []
        | Some _ => if N.eqb (nthb (win_body (c0 :: p')) 1) QMARK && N.eqb (nthb (win_body (c0 :: p')) 2) QMARK
                    then [BSLASH; DOT] else []
        end).
Proof.
  intros Hr. destruct (@win_body_rooted c0 p' Hr) as (t & Ht).
  unfold win_pre. destruct (lb_buf (clean_core W (c0 :: p'))) as [buf|] eqn:Hb.
  2:{ split; [discriminate|]. intros _. destruct (negb (Nat.eqb v 0)); reflexivity. }
  destruct (@clean_core_buf c0 p' buf Hb) as (tail & Ebuf & Hlen).
  assert (Hcbs : colon_before_sep W buf = false).
  { rewrite Ebuf, Ht. reflexivity. }
  rewrite Hcbs. split.
  - destruct (negb (Nat.eqb v 0)); [discriminate|]. destruct (_ && _); discriminate.
  - intros H3. destruct (negb (Nat.eqb v 0)); [reflexivity|].
    assert (Hn : forall i, i < 3 -> nthb buf i = nthb (win_body (c0 :: p')) i).
    { intros i Hi. rewrite Ebuf. unfold nthb. apply app_nth1. lia. }
    rewrite !Hn by lia. rewrite Ht at 1. change (nthb (BSLASH :: t) 0) with BSLASH. change (sepW BSLASH) with true.
    replace (Nat.leb 3 (length buf)) with true; [reflexivity|].
    symmetry. apply Nat.leb_le. rewrite Ebuf, app_length. lia.
Qed.

(* a relative result: never "\."; ".\" exactly when a buffer was allocated, there is no volume and a ':'
   shows before the first separator of the buffer - a function of the result as soon as it contains a
   separator or a ':' *)
Theorem win_pre_relative v c0 p' x :
  sepW c0 = false ->
  win_pre v (clean_core W (c0 :: p')) <> [BSLASH; DOT] /\
  (decided (win_body (c0 :: p')) = Some x ->
   win_pre v (clean_core W (c0 :: p')) =
   if negb (Nat.eqb v 0) then []
   else match lb_buf (clean_core W (c0 :: p')) with
        | None => []
        | Some _ => if x then [DOT; BSLASH] else []
        end).
Proof.
  intros Hr. destruct (@win_body_relative c0 p' Hr) as (a & t & Ht & Ha).
  unfold win_pre. destruct (lb_buf (clean_core W (c0 :: p'))) as [buf|] eqn:Hb.
  2:{ split; [discriminate|]. intros _. destruct (negb (Nat.eqb v 0)); reflexivity. }
  destruct (@clean_core_buf c0 p' buf Hb) as (tail & Ebuf & Hlen).
  assert (H0 : sepW (nthb buf 0) = false).
  { rewrite Ebuf, Ht. exact Ha. }
  rewrite H0, andb_false_r. cbn [andb]. split.
  - destruct (negb (Nat.eqb v 0)); [discriminate|]. destruct (colon_before_sep W buf); discriminate.
  - intros Hd. destruct (negb (Nat.eqb v 0)); [reflexivity|].
    rewrite Ebuf, colon_before_sep_app, Hd. destruct x; reflexivity.
Qed.

(* the stale bytes matter: "./xa:/../b" cleans to ".\b" (the buffer reads "ba:"), and Clean is not
   idempotent there; "\.\:" cleans to "\:", which has the drive designator "\:" *)
Example clean_windows_stale :
  clean W [46;47;120;97;58;47;46;46;47;98]%N = [46;92;98]%N
  /\ clean W [46;92;98]%N = [98]%N
  /\ clean W [92;46;92;58]%N = [92;58]%N /\ clean W [92;58]%N = [92;58;46]%N.
Proof. vm_compute. repeat split. Qed.

(* "a/../c:" -> ".\c:" ; "C:/a/../b/" -> "C:\b" ; "\a\..\??\c" -> "\.\??\c" ; "//h/s/x/.." -> "\\h\s\" *)
Example clean_windows_examples :
  clean W [97;47;46;46;47;99;58]%N = [46;92;99;58]%N
  /\ clean W [67;58;47;97;47;46;46;47;98;47]%N = [67;58;92;98]%N
  /\ clean W [92;97;92;46;46;92;63;63;92;99]%N = [92;46;92;63;63;92;99]%N
  /\ clean W [47;47;104;47;115;47;120;47;46;46]%N = [92;92;104;92;115;92]%N.
Proof. vm_compute. repeat split. Qed.

(* ---- a cleaned body is a fixed point --------------------------------------------- *)
Lemma nthb0_render r (l : list str) :
  Forall (sepfreeO W) l -> Forall (fun c : str => c <> []) l -> sepW (nthb (renderO W r l) 0) = r.
Proof.
  intros Hsf Hne. unfold renderO. destruct r; [reflexivity|].
  destruct l as [|x l0] eqn:El; [reflexivity|]. rewrite <- El in *.
  destruct (@intercalate_headO W l) as (a & s & Hi & Ha); auto; [rewrite El; discriminate|].
  rewrite Hi. exact Ha.
Qed.

Lemma win_body_fix r k (names : list str) :
  Forall (goodO W) names -> (r = true -> k = 0) ->
  win_body (renderO W r (LO k names)) = renderO W r (LO k names).
Proof.
  intros Hg Hk. pose proof (@L_sepfreeO W k names Hg) as Hsf. pose proof (@L_neO W k names Hg) as Hne.
  unfold win_body. rewrite (nthb0_render r Hsf Hne). f_equal. unfold ncompsO. rewrite (nthb0_render r Hsf Hne).
  unfold renderO. destruct r.
  - rewrite comps_sepO, norm_emptyO. destruct (LO k names) eqn:EL; [reflexivity|]. rewrite <- EL in *.
    rewrite comps_intercalateO by (auto; rewrite EL; discriminate). apply (@norm_fixO W); assumption.
  - destruct (LO k names) eqn:EL; [reflexivity|]. rewrite <- EL in *.
    rewrite comps_intercalateO by (auto; rewrite EL; discriminate). apply (@norm_fixO W); assumption.
Qed.

Lemma win_body_idem (path : str) : win_body (win_body path) = win_body path.
Proof.
  unfold win_body at 2 3. destruct (ncompsO_shape W path) as (k & names & E & Hg & Hk). rewrite E.
  apply win_body_fix; assumption.
Qed.

Lemma win_body_nonempty (path : str) : win_body path <> [].
Proof.
  unfold win_body, renderO. destruct (sepW (nthb path 0)); [discriminate|].
  destruct (ncompsO_shape W path) as (k & names & E & Hg & _). rewrite E.
  destruct (LO k names) eqn:EL; [discriminate|]. rewrite <- EL. intros H.
  apply intercalate_nil_invO in H; [congruence|]. apply (@L_neO W). exact Hg.
Qed.

Lemma from_slash_idem (s : str) : from_slash W (from_slash W s) = from_slash W s.
Proof. destruct (slash_windows_roundtrip s) as (_ & _ & H). exact H. Qed.

(* Clean is idempotent whenever the cleaned path is seen with the same volume length.  PARTIAL: the
   hypothesis on the volume of the result is proved below for drive designators only; without volume
   Clean is NOT idempotent in general (clean_windows_stale). *)
Theorem clean_windows_idempotent_partial (p : str) :
  let v := volume_name_len W p in
  v <> 0 -> skipn v p <> [] -> volume_name_len W (clean W p) = v ->
  clean W (clean W p) = clean W p.
Proof.
  intros v Hv Hne Hvq. pose proof (clean_windows_vol p Hv Hne) as Eq. fold v in Eq.
  set (V := from_slash W (firstn v p)) in *. set (body := win_body (skipn v p)) in *.
  assert (HlV : length V = v).
  { unfold V. cbn [from_slash]. rewrite map_length, firstn_length. pose proof (volume_name_len_le W p). fold v in H. lia. }
  assert (Hsk : skipn v (V ++ body) = body) by (rewrite <- HlV; apply skipn_app_at).
  assert (Hfi : firstn v (V ++ body) = V) by (rewrite <- HlV; apply firstn_app_at).
  rewrite Eq. rewrite Eq in Hvq.
  assert (Hne2 : skipn (volume_name_len W (V ++ body)) (V ++ body) <> []).
  { rewrite Hvq, Hsk. apply win_body_nonempty. }
  pose proof (@clean_windows_vol (V ++ body)) as E2. cbv zeta in E2.
  rewrite E2; [|rewrite Hvq; exact Hv|exact Hne2]. clear E2.
  rewrite Hvq, Hsk, Hfi. unfold V at 1. rewrite from_slash_idem. fold V. f_equal. apply win_body_idem.
Qed.

(* drive designators: any first byte other than '/', then ':' *)
Theorem clean_windows_idempotent_drive (c : N) (rest : str) :
  c <> SLASH -> clean W (clean W (c :: COLON :: rest)) = clean W (c :: COLON :: rest).
Proof.
  intros Hc. set (p := c :: COLON :: rest).
  assert (HV : from_slash W [c; COLON] = [c; COLON]).
  { apply from_slash_id_W. intros [E|[E|[]]]; [congruence|discriminate]. }
  destruct rest as [|r0 rest'].
  - (* a bare drive: "C:" -> "C:." *)
    assert (E0 : clean W p = [c; COLON; DOT]).
    { unfold p. rewrite clean_windows_volume_only by reflexivity.
      change (is_slash (nthb [c; COLON] 1)) with false. rewrite andb_false_r. reflexivity. }
    rewrite E0.
    rewrite (@clean_windows_vol [c; COLON; DOT]) by (cbn; discriminate).
    change (volume_name_len W [c; COLON; DOT]) with 2. cbn [firstn skipn]. rewrite HV. reflexivity.
  - apply clean_windows_idempotent_partial.
    + discriminate.
    + discriminate.
    + rewrite (@clean_windows_vol p) by (cbn; discriminate).
      change (volume_name_len W p) with 2. change (firstn 2 p) with [c; COLON]. rewrite HV. reflexivity.
Qed.

Example clean_windows_idempotent_example :
  clean W [67;58;47;97;47;46;46;47;98;47]%N = [67;58;92;98]%N
  /\ clean W [67;58;92;98]%N = [67;58;92;98]%N.
Proof. vm_compute. split; reflexivity. Qed.

(* ================================================================================== *)
(* Split / Dir / Base                                                                 *)
(* ================================================================================== *)
Section Cut.
  Variable os : ostype.
  Notation sepO := (is_sep os).

  (* cutting after the last separator *)
  Definition lastwO (p : str) : str := rev (tw sepO (rev p)).
  Definition initwO (p : str) : str := rev (dw sepO (rev p)).

  Lemma initw_lastwO p : initwO p ++ lastwO p = p.
  Proof. unfold initwO, lastwO. rewrite <- rev_app_distr, tw_dw, rev_involutive. reflexivity. Qed.

  Lemma lastw_sepfreeO p : sepfreeO os (lastwO p).
  Proof. intros x Hx. unfold lastwO in Hx. eapply tw_none. apply in_rev. exact Hx. Qed.

  Lemma initw_shapeO p : initwO p = [] \/ exists a s, initwO p = a ++ [s] /\ sepO s = true.
  Proof.
    unfold initwO. pose proof (dw_at_sep sepO (rev p)) as H.
    destruct (dw sepO (rev p)) as [|c r]; [left; reflexivity|right].
    cbn [at_sep] in H. exists (rev r), c. split; [reflexivity|exact H].
  Qed.

  Lemma last_sep_cut_ge (p : str) lo : forall i1, lo <= i1 -> lo <= last_sep_cut os p lo i1.
  Proof.
    induction i1 as [|i IH]; intros H; cbn [last_sep_cut]; [lia|].
    destruct (Nat.leb lo i) eqn:E; cbn [andb]; [|lia].
    apply Nat.leb_le in E. destruct (negb (sepO (nthb p i))); [apply IH; exact E|lia].
  Qed.

  (* the index loop of Split/Dir/Base, started at the end, stopped by the volume *)
  Lemma cut_vol (vol rest : str) :
    last_sep_cut os (vol ++ rest) (length vol) (length (vol ++ rest)) = length vol + length (initwO rest).
  Proof.
    set (p := vol ++ rest). set (lo := length vol).
    assert (Hlen : length p = lo + length (initwO rest) + length (lastwO rest)).
    { unfold p, lo. rewrite app_length. rewrite <- (initw_lastwO rest) at 1. rewrite app_length. lia. }
    assert (Hp : p = (vol ++ initwO rest) ++ lastwO rest).
    { unfold p. rewrite <- app_assoc, initw_lastwO. reflexivity. }
    destruct (@last_sep_cut_spec os p lo (length p) (le_n _)) as (Hc & Hall & Hend).
    pose proof (@last_sep_cut_ge p lo (length p) ltac:(lia)) as Hge.
    set (cut := last_sep_cut os p lo (length p)) in *.
    destruct (Nat.lt_trichotomy cut (lo + length (initwO rest))) as [Hlt|[Heq|Hgt]]; [exfalso|exact Heq|exfalso].
    - destruct (initw_shapeO rest) as [E|(a & s & E & Hs)]; [rewrite E in Hlt; cbn [length] in Hlt; lia|].
      rewrite E, app_length in Hlt, Hlen. cbn [length] in Hlt, Hlen.
      assert (H : sepO (nthb p (lo + length a)) = false) by (apply Hall; lia).
      rewrite Hp, E in H. rewrite <- !app_assoc in H. rewrite app_assoc in H.
      replace (lo + length a) with (length (vol ++ a)) in H by (rewrite app_length; reflexivity).
      cbn [app] in H. rewrite nthb_app0 in H. congruence.
    - destruct Hend as [H0|[H0|Hs]]; try lia.
      replace (cut - 1) with (length (vol ++ initwO rest) + (cut - 1 - (lo + length (initwO rest)))) in Hs
        by (rewrite app_length; fold lo; lia).
      rewrite Hp, nthb_app_at in Hs. rewrite (@lastw_sepfreeO rest) in Hs; [discriminate|]. apply nth_In. lia.
  Qed.
End Cut.

Lemma cut_windows (p : str) :
  last_sep_cut W p (volume_name_len W p) (length p)
  = volume_name_len W p + length (initwO W (skipn (volume_name_len W p) p)).
Proof.
  set (v := volume_name_len W p). pose proof (volume_name_len_le W p) as Hle. fold v in Hle.
  assert (Hl : length (firstn v p) = v) by (rewrite firstn_length; lia).
  pose proof (@cut_vol W (firstn v p) (skipn v p)) as H. rewrite firstn_skipn, Hl in H. exact H.
Qed.

Lemma firstn_initw os (r : str) : firstn (length (initwO os r)) r = initwO os r.
Proof. rewrite <- (initw_lastwO os r) at 2. apply firstn_app_at. Qed.

Lemma skipn_initw os (r : str) : skipn (length (initwO os r)) r = lastwO os r.
Proof. rewrite <- (initw_lastwO os r) at 2. apply skipn_app_at. Qed.

Theorem split_windows (p : str) :
  let v := volume_name_len W p in
  split W p = (firstn v p ++ initwO W (skipn v p), lastwO W (skipn v p)).
Proof.
  cbv zeta. unfold split. rewrite (volume_name_length W p), (cut_windows p).
  rewrite firstn_add, firstn_initw, <- skipn_skipn_own, skipn_initw. reflexivity.
Qed.

(* the file half has no separator, the two halves give the path back (both already in Properties/C13.v for
   every OS type); the directory half keeps the volume *)
Theorem split_windows_volume (p : str) :
  firstn (volume_name_len W p) (fst (split W p)) = firstn (volume_name_len W p) p.
Proof.
  rewrite split_windows. cbn [fst]. pose proof (volume_name_len_le W p) as Hle.
  set (v := volume_name_len W p) in *.
  assert (Hl : length (firstn v p) = v) by (rewrite firstn_length; lia).
  rewrite <- Hl at 1. apply firstn_app_at.
Qed.

(* Dir: the converted volume, then Clean of what lies between the volume and the last separator; a UNC or
   device volume (longer than two bytes) alone is returned as it is *)
Theorem dir_windows (p : str) :
  let v := volume_name_len W p in
  let d := clean W (initwO W (skipn v p)) in
  dir W p = if str_eqb d [DOT] && Nat.ltb 2 v then volume_name W p else volume_name W p ++ d.
Proof.
  cbv zeta. unfold dir. rewrite (volume_name_length W p), (cut_windows p).
  set (v := volume_name_len W p).
  replace (v + length (initwO W (skipn v p)) - v) with (length (initwO W (skipn v p))) by lia.
  rewrite firstn_initw. reflexivity.
Qed.

(* Base: trailing separators dropped, then the volume, then the last component; '\' when nothing is left *)
Theorem base_windows (p : str) :
  base W p =
  match p with
  | [] => [DOT]
  | _ => let p1 := rev (strip_trailing_seps W (rev p)) in
         let p2 := skipn (volume_name_len W p1) p1 in
         match lastwO W p2 with [] => [BSLASH] | w => w end
  end.
Proof.
  destruct p as [|c0 p0]; [reflexivity|]. unfold base. cbv zeta.
  set (p1 := rev (strip_trailing_seps W (rev (c0 :: p0)))).
  rewrite (volume_name_length W p1). set (p2 := skipn (volume_name_len W p1) p1).
  pose proof (@cut_vol W [] p2) as Hc. cbn [app length plus] in Hc. rewrite Hc, skipn_initw. destruct (lastwO W p2); reflexivity.
Qed.

Lemma lastw_compsO os (p : str) : lastwO os p = last (compsO os p) [].
Proof.
  pose proof (initw_lastwO os p) as Hp. pose proof (@lastw_sepfreeO os p) as Hw.
  assert (Hword : compsO os (lastwO os p) = [lastwO os p]) by (apply comps_wordO; exact Hw).
  destruct (initw_shapeO os p) as [E|(a & s & E & Hs)]; rewrite E in Hp.
  - cbn [app] in Hp. rewrite <- Hp at 2. rewrite Hword. reflexivity.
  - rewrite <- Hp at 2. rewrite <- app_assoc. cbn [app]. rewrite (comps_app_sepO' os s a _ Hs), Hword.
    symmetry. apply last_last.
Qed.

(* "C:\a\b\" , "\\h\s\x" , "C:" *)
Example split_dir_base_windows_examples :
  split W [67;58;92;97;92;98]%N = ([67;58;92;97;92]%N, [98]%N)
  /\ dir W [67;58;47;97;47;98;47]%N = [67;58;92;97;92;98]%N
  /\ base W [67;58;92;97;92;98;92]%N = [98]%N
  /\ dir W [92;92;104;92;115;92;120]%N = [92;92;104;92;115;92]%N
  /\ base W [92;92;104;92;115;92;120]%N = [120]%N
  /\ dir W [92;92;104;92;115]%N = [92;92;104;92;115]%N
  /\ base W [67;58]%N = [92]%N /\ dir W [67;58]%N = [67;58;46]%N.
Proof. vm_compute. repeat split. Qed.

(* ================================================================================== *)
(* Join                                                                               *)
(* ================================================================================== *)
(* how joinWindows appends one element [e] to a non-empty builder [b] *)
Definition glue (b e : str) : str :=
  if is_slash (last b 0%N) then
    (* no second separator: the leading separators of e are dropped (no UNC path out of non-UNC elements);
       `\` followed by `??` gets `.\` in between (no Root Local Device path) *)
    let e' := strip_slashes e in
    (if Nat.eqb (length b) 1 && has_prefix_qq e' then b ++ [DOT; BSLASH] else b) ++ e'
  else if N.eqb (last b 0%N) COLON then b ++ e        (* `C:` + `a` = `C:a`, relative to the drive *)
  else b ++ [BSLASH] ++ e.

Lemma last_app_ne_own (l l' : str) : l' <> [] -> last (l ++ l') 0%N = last l' 0%N.
Proof.
  intros Hne. rewrite (app_removelast_last 0%N Hne) at 1. rewrite app_assoc. apply last_last.
Qed.

Lemma glue_nonempty b e : b <> [] -> glue b e <> [].
Proof.
  intros Hb. unfold glue. destruct (is_slash (last b 0%N)).
  - destruct (Nat.eqb (length b) 1 && has_prefix_qq (strip_slashes e)); destruct b; try congruence; discriminate.
  - destruct (N.eqb (last b 0%N) COLON); destruct b; try congruence; discriminate.
Qed.

Lemma jw_step_glue (e : str) (rest : list str) (b : str) :
  b <> [] ->
  join_windows_loop (e :: rest) b (last b 0%N) = join_windows_loop rest (glue b e) (last (glue b e) 0%N).
Proof.
  intros Hb. cbn [join_windows_loop]. destruct b as [|b0 b']; [congruence|]. set (b := b0 :: b') in *.
  unfold glue. unfold last_byte. destruct (is_slash (last b 0%N)) eqn:Hs.
  - set (e' := strip_slashes e).
    set (b1 := if Nat.eqb (length b) 1 && has_prefix_qq e' then b ++ [DOT; BSLASH] else b).
    cbv zeta. destruct e' as [|x e''] eqn:Ee.
    + assert (Eb1 : b1 = b) by (unfold b1; rewrite andb_false_r; reflexivity).
      rewrite Eb1, app_nil_r. reflexivity.
    + rewrite last_app_ne_own by discriminate. reflexivity.
  - destruct (N.eqb (last b 0%N) COLON) eqn:Hc.
    + destruct e as [|x e']; [rewrite app_nil_r; reflexivity|]. rewrite last_app_ne_own by discriminate. reflexivity.
    + destruct e as [|x e'].
      * cbn [app]. rewrite last_app_ne_own by discriminate. reflexivity.
      * rewrite <- app_assoc. rewrite (@last_app_ne_own b ([BSLASH] ++ x :: e')) by discriminate.
        change ([BSLASH] ++ x :: e') with ([BSLASH] ++ (x :: e')). rewrite last_app_ne_own by discriminate. reflexivity.
Qed.

Lemma jw_fold : forall (rest : list str) (b : str), b <> [] ->
  join_windows_loop rest b (last b 0%N) = fold_left glue rest b.
Proof.
  induction rest as [|e rest IH]; intros b Hb; [reflexivity|].
  rewrite (jw_step_glue e rest Hb). cbn [fold_left]. apply IH. apply glue_nonempty. exact Hb.
Qed.

Lemma fold_glue_nonempty : forall (rest : list str) (b : str), b <> [] -> fold_left glue rest b <> [].
Proof. induction rest as [|e rest IH]; intros b Hb; [exact Hb|]. cbn [fold_left]. apply IH, glue_nonempty, Hb. Qed.

(* Join: empty leading elements are skipped, the first non-empty one is taken as it is (it alone may bring
   a volume), the others are glued on, the result is cleaned *)
Theorem join_windows_fold (elems : list str) :
  join W elems = match drop_empty_prefix elems with
                 | [] => []
                 | x :: rest => clean W (fold_left glue rest x)
                 end.
Proof.
  unfold join. assert (H : forall lc, join_windows_loop elems [] lc =
                         match drop_empty_prefix elems with [] => [] | x :: rest => fold_left glue rest x end).
  { induction elems as [|e elems IH]; intros lc; [reflexivity|]. cbn [join_windows_loop drop_empty_prefix].
    destruct e as [|x e']; [apply IH|]. cbn [app]. unfold last_byte. apply jw_fold. discriminate. }
  rewrite H. destruct (drop_empty_prefix elems) as [|x rest] eqn:E; [reflexivity|].
  assert (Hx : x <> []).
  { clear H. induction elems as [|e elems IH]; [discriminate|]. cbn [drop_empty_prefix] in E.
    destruct e; [apply IH; exact E|injection E as <- _; discriminate]. }
  pose proof (fold_glue_nonempty rest Hx) as Hne. destruct (fold_left glue rest x); [congruence|reflexivity].
Qed.

(* elements that are non-empty and end neither with a separator nor with ':' are joined with '\' *)
Definition plain_elem (e : str) : Prop :=
  e <> [] /\ is_slash (last e 0%N) = false /\ last e 0%N <> COLON.

Lemma fold_glue_plain : forall (rest : list str) (x : str),
  plain_elem x -> Forall plain_elem rest -> fold_left glue rest x = intercalate [BSLASH] (x :: rest).
Proof.
  induction rest as [|e rest IH]; intros x Hx Hr; [reflexivity|].
  inversion Hr as [|? ? He Hr']; subst. cbn [fold_left].
  assert (Eg : glue x e = x ++ [BSLASH] ++ e).
  { unfold glue. destruct Hx as (_ & H1 & H2). rewrite H1. apply N.eqb_neq in H2. rewrite H2. reflexivity. }
  rewrite Eg. rewrite IH; auto.
  - rewrite !intercalate_cons. rewrite <- !app_assoc. reflexivity.
  - destruct He as (He1 & He2 & He3). repeat split.
    + destruct x; discriminate.
    + rewrite last_app_ne_own by discriminate. change ([BSLASH] ++ e) with ([BSLASH] ++ e).
      rewrite last_app_ne_own by exact He1. exact He2.
    + rewrite last_app_ne_own by discriminate. rewrite last_app_ne_own by exact He1. exact He3.
Qed.

Theorem join_windows_plain (x : str) (rest : list str) :
  plain_elem x -> Forall plain_elem rest -> join W (x :: rest) = clean W (intercalate [BSLASH] (x :: rest)).
Proof.
  intros Hx Hr. rewrite join_windows_fold. destruct x as [|c x']; [destruct Hx; congruence|].
  cbn [drop_empty_prefix]. rewrite fold_glue_plain; auto.
Qed.

(* Join ignores empty elements up to a trailing separator that Clean removes: here, exactly *)
Theorem join_windows_empty_prefix (elems : list str) : join W ([] :: elems) = join W elems.
Proof. rewrite !join_windows_fold. reflexivity. Qed.

(* Join("C:", "a") = "C:a" ; Join("C:\", "\a") = "C:\a" ; Join("\", "??", "x") = "\.\??\x" ;
   Join("\\h", "s", "..", "x") = "\\h\s\x" (the UNC volume is kept) ; Join("a", "", "b") = "a\b" *)
Example join_windows_examples :
  join W [[67;58]; [97]]%N = [67;58;97]%N
  /\ join W [[67;58;92]; [92;97]]%N = [67;58;92;97]%N
  /\ join W [[92]; [63;63]; [120]]%N = [92;46;92;63;63;92;120]%N
  /\ join W [[92;92;104]; [115]; [46;46]; [120]]%N = [92;92;104;92;115;92;120]%N
  /\ join W [[97]; []; [98]]%N = [97;92;98]%N.
Proof. vm_compute. repeat split. Qed.
