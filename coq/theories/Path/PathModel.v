(* Executable model of the generic lexical path functions of
   vfs_ostype_on.go, vfs.go (Abs, SplitAbs, VolumeName) and pathiterator.go,
   parametric in the emulated OS type (property C13).

   Strings are byte lists.  Every loop of the Go code that walks a string is
   structural recursion on the remaining suffix or on explicit fuel bounded by
   the input length.  Index expressions the Go code guards are total here
   through [nthb], which returns 0 outside the string - the places where the Go
   code would index out of range are made explicit as [Panic] outcomes where
   they are reachable (see match_chunk). *)
From Avfs Require Import Base.
Set Implicit Arguments.

Inductive ostype := Linux | Windows.

Definition ostype_eqb (a b : ostype) : bool :=
  match a, b with Linux, Linux | Windows, Windows => true | _, _ => false end.

Definition SLASH : N := 47.
Definition BSLASH : N := 92.
Definition DOT : N := 46.
Definition COLON : N := 58.
Definition QMARK : N := 63.
Definition STAR : N := 42.
Definition LBRACK : N := 91.
Definition RBRACK : N := 93.
Definition CARET : N := 94.
Definition MINUS : N := 45.

Definition sepc (os : ostype) : N := match os with Linux => SLASH | Windows => BSLASH end.

(* IsPathSeparator *)
Definition is_sep (os : ostype) (c : N) : bool :=
  match os with
  | Linux => N.eqb c SLASH
  | Windows => N.eqb c BSLASH || N.eqb c SLASH
  end.

Definition is_slash (c : N) : bool := N.eqb c BSLASH || N.eqb c SLASH.

Definition nthb (s : str) (i : nat) : N := nth i s 0%N.

Definition is_letter (c : N) : bool :=
  (N.leb 97 c && N.leb c 122) || (N.leb 65 c && N.leb c 90).

(* index of the first byte satisfying [p] at or after position [i]; length when none *)
Fixpoint find_from (p : N -> bool) (s : str) (i : nat) : nat :=
  match s with
  | [] => i
  | c :: s' => if p c then i else find_from p s' (S i)
  end.
Definition index_from (p : N -> bool) (s : str) (i : nat) : nat := find_from p (skipn i s) i.

Definition to_upper (c : N) : N := if N.leb 97 c && N.leb c 122 then (c - 32)%N else c.

(* pathHasPrefixFold(s, prefix): prefix compared ignoring ASCII case, every separator of the prefix standing
   for either separator; when s is longer than the prefix the next byte must be a separator *)
Fixpoint has_prefix_fold (s prefix : str) : bool :=
  match prefix with
  | [] => match s with [] => true | c :: _ => is_slash c end
  | p :: prefix' =>
      match s with
      | [] => false
      | c :: s' => (if is_slash p then is_slash c else N.eqb (to_upper p) (to_upper c))
                   && has_prefix_fold s' prefix'
      end
  end.

(* uncLen(path, prefixLen): index of the second separator at or after prefixLen, len(path) when there is none
   (also when prefixLen > len(path): the loop does not run) *)
Fixpoint unc_len_from (s : str) (i count : nat) : nat :=
  match s with
  | [] => i
  | c :: s' => if is_slash c then (if Nat.eqb count 1 then i else unc_len_from s' (S i) (S count))
               else unc_len_from s' (S i) count
  end.
Definition unc_len (path : str) (prefix_len : nat) : nat :=
  if Nat.ltb (length path) prefix_len then length path
  else unc_len_from (skipn prefix_len path) prefix_len 0.

Definition PFX_DEV_UNC : str := [92; 92; 46; 92; 85; 78; 67]%N.   (* \\.\UNC *)
Definition PFX_DEV : str := [92; 92; 46]%N.                       (* \\.     *)
Definition PFX_ROOT_DEV : str := [92; 92; 63]%N.                  (* \\?     *)
Definition PFX_NT : str := [92; 63; 63]%N.                        (* \??     *)

(* VolumeNameLen, vfs_ostype_on.go (the volumeNameLen of internal/filepathlite, Go 1.23) *)
Definition volume_name_len (os : ostype) (path : str) : nat :=
  match os with
  | Linux => 0
  | Windows =>
      let l := length path in
      if Nat.leb 2 l && N.eqb (nthb path 1) COLON then 2          (* drive designator: any byte, then ':' *)
      else if Nat.eqb l 0 || negb (is_slash (nthb path 0)) then 0
      else if has_prefix_fold path PFX_DEV_UNC then unc_len path 8  (* len(`\\.\UNC\`) *)
      else if has_prefix_fold path PFX_DEV || has_prefix_fold path PFX_ROOT_DEV || has_prefix_fold path PFX_NT then
        (* the component after the 4-byte prefix belongs to the volume:
           _, rest, ok := cutPath(path[4:]); !ok -> len(path); else len(path)-len(rest)-1 = index of that separator *)
        if Nat.eqb l 3 then 3 else index_from is_slash path 4
      else if Nat.leb 2 l && is_slash (nthb path 1) then unc_len path 2
      else 0
  end.

(* FromSlash / ToSlash *)
Definition from_slash (os : ostype) (p : str) : str :=
  match os with
  | Linux => p
  | Windows => map (fun c => if N.eqb c SLASH then BSLASH else c) p
  end.

Definition to_slash (os : ostype) (p : str) : str :=
  match os with
  | Linux => p
  | Windows => map (fun c => if N.eqb c BSLASH then SLASH else c) p
  end.

(* VolumeName, vfs.go:621 *)
Definition volume_name (os : ostype) (p : str) : str :=
  from_slash os (firstn (volume_name_len os p) p).

(* ---- lazybuf (vfs_ostype_on.go:842) -------------------------------- *)
(* buf = None while the output is still a prefix of the input. *)
Record lazybuf := { lb_buf : option (list N); lb_w : nat }.

Fixpoint set_nth (l : list N) (i : nat) (c : N) : list N :=
  match l, i with
  | [], _ => []
  | _ :: l', O => c :: l'
  | x :: l', S i' => x :: set_nth l' i' c
  end.

Definition lb_index (path : str) (b : lazybuf) (i : nat) : N :=
  match lb_buf b with Some buf => nthb buf i | None => nthb path i end.

Definition lb_append (path : str) (b : lazybuf) (c : N) : lazybuf :=
  match lb_buf b with
  | None =>
      if Nat.ltb (lb_w b) (length path) && N.eqb (nthb path (lb_w b)) c
      then {| lb_buf := None; lb_w := S (lb_w b) |}
      else
        (* b.buf = make([]byte, len(path)); copy(b.buf, path[:w]); buf[w] = c *)
        let buf := firstn (lb_w b) path ++ repeat 0%N (length path - lb_w b) in
        {| lb_buf := Some (set_nth buf (lb_w b) c); lb_w := S (lb_w b) |}
  | Some buf => {| lb_buf := Some (set_nth buf (lb_w b) c); lb_w := S (lb_w b) |}
  end.

(* the bytes written so far *)
Definition lb_bytes (path : str) (b : lazybuf) : str :=
  match lb_buf b with Some buf => firstn (lb_w b) buf | None => firstn (lb_w b) path end.

(* out.w-- ; for out.w > dotdot && !sep(out.index(out.w)) { out.w-- } *)
Fixpoint backtrack (os : ostype) (path : str) (b : lazybuf) (dotdot : nat) (w : nat) (fuel : nat) : nat :=
  match fuel with
  | O => w
  | S f => if Nat.ltb dotdot w && negb (is_sep os (lb_index path b w))
           then backtrack os path b dotdot (w - 1) f else w
  end.

(* The main loop of Clean over the path (volume stripped); r is the read
   index.  Fuel = S (length path): every iteration advances r. *)
Fixpoint clean_loop (os : ostype) (path : str) (rooted : bool) (n : nat)
         (fuel r dotdot : nat) (out : lazybuf) : lazybuf :=
  match fuel with
  | O => out
  | S f =>
      if negb (Nat.ltb r n) then out
      else
        let c := nthb path r in
        if is_sep os c then clean_loop os path rooted n f (S r) dotdot out
        else if N.eqb c DOT && (Nat.eqb (S r) n || is_sep os (nthb path (S r))) then
          clean_loop os path rooted n f (S r) dotdot out
        else if N.eqb c DOT && N.eqb (nthb path (S r)) DOT
                && (Nat.eqb (S (S r)) n || is_sep os (nthb path (S (S r)))) then
          let r' := S (S r) in
          if Nat.ltb dotdot (lb_w out) then
            let w := backtrack os path out dotdot (lb_w out - 1) (lb_w out) in
            clean_loop os path rooted n f r' dotdot {| lb_buf := lb_buf out; lb_w := w |}
          else if negb rooted then
            let out1 := if Nat.ltb 0 (lb_w out) then lb_append path out (sepc os) else out in
            let out2 := lb_append path (lb_append path out1 DOT) DOT in
            clean_loop os path rooted n f r' (lb_w out2) out2
          else clean_loop os path rooted n f r' dotdot out
        else
          let out1 := if (rooted && negb (Nat.eqb (lb_w out) 1)) || (negb rooted && negb (Nat.eqb (lb_w out) 0))
                      then lb_append path out (sepc os) else out in
          (* copy element *)
          let e := index_from (is_sep os) path r in
          let out2 := fold_left (lb_append path) (firstn (e - r) (skipn r path)) out1 in
          clean_loop os path rooted n f e dotdot out2
  end.

Definition lb_prepend (b : lazybuf) (pre : list N) : lazybuf :=
  match lb_buf b with
  | Some buf => {| lb_buf := Some (pre ++ buf); lb_w := lb_w b + length pre |}
  | None => b
  end.

(* for _, c := range out.buf { if sep(c) break; if c == ':' {prepend; return} } : ranges over the WHOLE buffer *)
Fixpoint colon_before_sep (os : ostype) (buf : list N) : bool :=
  match buf with
  | [] => false
  | c :: buf' => if is_sep os c then false else if N.eqb c COLON then true else colon_before_sep os buf'
  end.

Definition post_clean (os : ostype) (vol_len : nat) (out : lazybuf) : lazybuf :=
  match lb_buf out with
  | None => out
  | Some buf =>
      if negb (Nat.eqb vol_len 0) then out
      else if colon_before_sep os buf then lb_prepend out [DOT; sepc os]
      else if Nat.leb 3 (length buf) && is_sep os (nthb buf 0) && N.eqb (nthb buf 1) QMARK && N.eqb (nthb buf 2) QMARK
           then lb_prepend out [sepc os; DOT]
      else out
  end.

(* Clean, vfs_ostype_on.go:93 *)
Definition clean (os : ostype) (orig : str) : str :=
  let vol_len := volume_name_len os orig in
  let path := skipn vol_len orig in
  match path with
  | [] =>
      if Nat.ltb 1 vol_len && is_sep os (nthb orig 0) && is_sep os (nthb orig 1)
      then from_slash os orig else orig ++ [DOT]
  | c0 :: _ =>
      let rooted := is_sep os c0 in
      let n := length path in
      let out0 := {| lb_buf := None; lb_w := 0 |} in
      let out1 := if rooted then lb_append path out0 (sepc os) else out0 in
      let r0 := if rooted then 1 else 0 in
      let out2 := clean_loop os path rooted n (S n) r0 r0 out1 in
      let out3 := if Nat.eqb (lb_w out2) 0 then lb_append path out2 DOT else out2 in
      let out4 := match os with Windows => post_clean os vol_len out3 | Linux => out3 end in
      (* out.string() *)
      let s := match lb_buf out4 with
               | None => firstn (vol_len + lb_w out4) orig
               | Some buf => firstn vol_len orig ++ firstn (lb_w out4) buf
               end in
      from_slash os s
  end.

(* ---- Join ----------------------------------------------------------- *)
Fixpoint intercalate (sep : str) (l : list str) : str :=
  match l with
  | [] => []
  | [x] => x
  | x :: l' => x ++ sep ++ intercalate sep l'
  end.

(* pathHasPrefixFold(s, "??") *)
Definition has_prefix_qq (s : str) : bool :=
  match s with
  | a :: b :: rest =>
      N.eqb a QMARK && N.eqb b QMARK && match rest with [] => true | c :: _ => is_slash c end
  | _ => false
  end.

Fixpoint strip_slashes (e : str) : str :=
  match e with
  | c :: e' => if is_slash c then strip_slashes e' else e
  | [] => []
  end.

Definition last_byte (s : str) (d : N) : N := last s d.

(* joinWindows: builder b, lastChar *)
Fixpoint join_windows_loop (elems : list str) (b : str) (last_char : N) : str :=
  match elems with
  | [] => b
  | e :: rest =>
      let '(b1, e1, lc1) :=
        match b with
        | [] => (b, e, last_char)
        | _ =>
            if is_slash last_char then
              let e' := strip_slashes e in
              let b' := if Nat.eqb (length b) 1 && has_prefix_qq e' then b ++ [DOT; BSLASH] else b in
              (b', e', last_char)
            else if N.eqb last_char COLON then (b, e, last_char)
            else (b ++ [BSLASH], e, BSLASH)
        end in
      match e1 with
      | [] => join_windows_loop rest b1 lc1
      | _ => join_windows_loop rest (b1 ++ e1) (last_byte e1 0%N)
      end
  end.

Fixpoint drop_empty_prefix (l : list str) : list str :=
  match l with
  | [] :: l' => drop_empty_prefix l'
  | _ => l
  end.

Definition join (os : ostype) (elems : list str) : str :=
  match os with
  | Windows =>
      match join_windows_loop elems [] 0%N with
      | [] => []
      | b => clean os b
      end
  | Linux =>
      match drop_empty_prefix elems with
      | [] => []
      | l => clean os (intercalate [sepc os] l)
      end
  end.

(* ---- IsAbs, Split, Base, Dir, Abs, SplitAbs --------------------------- *)
Definition is_abs (os : ostype) (path : str) : bool :=
  match os with
  | Linux => match path with c :: _ => N.eqb c SLASH | [] => false end
  | Windows =>
      let l := volume_name_len os path in
      if Nat.eqb l 0 then false
      else if is_slash (nthb path 0) && is_slash (nthb path 1) then true
      else match skipn l path with
           | [] => false
           | c :: _ => is_slash c
           end
  end.

(* i := len(path)-1; for i >= lo && !sep(path[i]) { i-- } ; returns i+1 (the cut position) *)
Fixpoint last_sep_cut (os : ostype) (path : str) (lo : nat) (i1 : nat) : nat :=
  (* i1 = i + 1 *)
  match i1 with
  | O => O
  | S i => if Nat.leb lo i && negb (is_sep os (nthb path i)) then last_sep_cut os path lo i else i1
  end.

Definition split (os : ostype) (path : str) : str * str :=
  let vl := length (volume_name os path) in
  let cut := last_sep_cut os path vl (length path) in
  (firstn cut path, skipn cut path).

Fixpoint strip_trailing_seps (os : ostype) (rev_path : str) : str :=
  match rev_path with
  | c :: r => if is_sep os c then strip_trailing_seps os r else rev_path
  | [] => []
  end.

Definition base (os : ostype) (path : str) : str :=
  match path with
  | [] => [DOT]
  | _ =>
      let p1 := rev (strip_trailing_seps os (rev path)) in
      let p2 := skipn (length (volume_name os p1)) p1 in
      let cut := last_sep_cut os p2 0 (length p2) in
      (* i >= 0 -> path[i+1:] ; i < 0 -> unchanged : both are skipn cut *)
      let p3 := skipn cut p2 in
      match p3 with
      | [] => [sepc os]
      | _ => p3
      end
  end.

Definition dir (os : ostype) (path : str) : str :=
  let vol := volume_name os path in
  let vl := length vol in
  let cut := last_sep_cut os path vl (length path) in
  let d := clean os (firstn (cut - vl) (skipn vl path)) in
  if str_eqb d [DOT] && Nat.ltb 2 vl then vol else vol ++ d.

Definition abs (os : ostype) (cur_dir path : str) : str :=
  if is_abs os path then clean os path else join os [cur_dir; path].

(* SplitAbs, vfs.go:519: returns path[:i], path[i+1:]  (i may be -1: then dir = "" and file = path) *)
Definition split_abs (os : ostype) (path : str) : str * str :=
  let l := volume_name_len os path in
  let cut := last_sep_cut os path l (length path) in   (* = i + 1 *)
  (firstn (cut - 1) path, skipn cut path).

(* ---- Rel ------------------------------------------------------------- *)
Definition same_word (os : ostype) (a b : str) : bool :=
  match os with
  | Linux => str_eqb a b
  | Windows => str_eqb (map to_upper a) (map to_upper b)   (* strings.EqualFold, ASCII range *)
  end.

Definition count_byte (c : N) (s : str) : nat := length (filter (N.eqb c) s).

(* the element loop: returns (b0, bi, t0, ti); None = out of fuel, which is how
   the model renders "the Go loop never ends" (both cursors at the end and all
   elements equal) *)
Fixpoint rel_loop (os : ostype) (base targ : str) (fuel b0 bi t0 ti : nat) : option (nat * nat * nat * nat) :=
  match fuel with
  | O => None
  | S f =>
      let sep := sepc os in
      let bi1 := index_from (N.eqb sep) base bi in
      let ti1 := index_from (N.eqb sep) targ ti in
      if negb (same_word os (firstn (ti1 - t0) (skipn t0 targ)) (firstn (bi1 - b0) (skipn b0 base)))
      then Some (b0, bi1, t0, ti1)
      else
        let bi2 := if Nat.ltb bi1 (length base) then S bi1 else bi1 in
        let ti2 := if Nat.ltb ti1 (length targ) then S ti1 else ti1 in
        rel_loop os base targ f bi2 bi2 ti2 ti2
  end.

Inductive rel_res := RelOk (s : str) | RelErr | RelLoop.

Fixpoint dotdots (sep : N) (n : nat) : str :=
  match n with O => [] | S k => sep :: DOT :: DOT :: dotdots sep k end.

Definition rel (os : ostype) (basepath targpath : str) : rel_res :=
  let sep := sepc os in
  let base_vol := volume_name os basepath in
  let targ_vol := volume_name os targpath in
  let base0 := clean os basepath in
  let targ0 := clean os targpath in
  if same_word os targ0 base0 then RelOk [DOT]
  else
    let base1 := skipn (length base_vol) base0 in
    let targ := skipn (length targ_vol) targ0 in
    let base := if str_eqb base1 [DOT] then []
                else match base1 with
                     | [] => if Nat.ltb 2 (volume_name_len os base_vol) then [sep] else []
                     | _ => base1
                     end in
    let base_slashed := match base with c :: _ => N.eqb c sep | [] => false end in
    let targ_slashed := match targ with c :: _ => N.eqb c sep | [] => false end in
    if negb (Bool.eqb base_slashed targ_slashed) || negb (same_word os base_vol targ_vol) then RelErr
    else
      let bl := length base in
      let tl := length targ in
      match rel_loop os base targ (S (S (bl + tl))) 0 0 0 0 with
      | None => RelLoop
      | Some (b0, bi, t0, ti) =>
          if str_eqb (firstn (bi - b0) (skipn b0 base)) [DOT; DOT] then RelErr
          else if negb (Nat.eqb b0 bl) then
            let seps := count_byte sep (skipn b0 base) in
            RelOk ([DOT; DOT] ++ dotdots sep seps ++ (if negb (Nat.eqb t0 tl) then sep :: skipn t0 targ else []))
          else RelOk (skipn t0 targ)
      end.

(* ---- PathIterator (pathiterator.go) ----------------------------------- *)
Record piter := { pi_path : str; pi_start : nat; pi_end : nat; pi_vnl : nat }.

Definition pi_new (os : ostype) (path : str) : piter :=
  let v := volume_name_len os path in
  {| pi_path := path; pi_start := 0; pi_end := v; pi_vnl := v |}.

Definition pi_is_last (p : piter) : bool := Nat.eqb (pi_end p) (length (pi_path p)).
Definition pi_left (p : piter) : str := firstn (pi_start p) (pi_path p).
Definition pi_left_part (p : piter) : str := firstn (pi_end p) (pi_path p).
Definition pi_part (p : piter) : str := firstn (pi_end p - pi_start p) (skipn (pi_start p) (pi_path p)).
Definition pi_right (p : piter) : str := skipn (pi_end p) (pi_path p).
Definition pi_right_part (p : piter) : str := skipn (pi_start p) (pi_path p).
Definition pi_volume_name (p : piter) : str := firstn (pi_vnl p) (pi_path p).

(* Next: returns (has_part, iterator).  NB the separator searched is
   vfs.PathSeparator() alone (strings.IndexByte), not IsPathSeparator. *)
Definition pi_next (os : ostype) (p : piter) : bool * piter :=
  let start := S (pi_end p) in
  if Nat.leb (length (pi_path p)) start then
    (false, {| pi_path := pi_path p; pi_start := start; pi_end := start; pi_vnl := pi_vnl p |})
  else
    let e := index_from (N.eqb (sepc os)) (pi_path p) start in
    (true, {| pi_path := pi_path p; pi_start := start; pi_end := e; pi_vnl := pi_vnl p |}).

Definition pi_reset (p : piter) : piter :=
  {| pi_path := pi_path p; pi_start := pi_start p; pi_end := pi_vnl p; pi_vnl := pi_vnl p |}.

(* ReplacePart: returns (was_reset, iterator) *)
Definition pi_replace_part (os : ostype) (p : piter) (new_path : str) : bool * piter :=
  let old := pi_path p in
  let np := if is_abs os new_path then join os [new_path; skipn (pi_end p) old]
            else join os [firstn (pi_start p) old; new_path; skipn (pi_end p) old] in
  let p1 := {| pi_path := np; pi_start := pi_start p; pi_end := pi_end p; pi_vnl := pi_vnl p |} in
  if Nat.leb (length np) (pi_start p) || negb (str_eqb (firstn (pi_start p) np) (firstn (pi_start p) old))
  then (true, pi_reset p1)
  else (false, {| pi_path := np; pi_start := pi_start p; pi_end := pi_start p - 1; pi_vnl := pi_vnl p |}).

(* all parts of a path, in order (fuel = length) *)
Fixpoint pi_parts_f (os : ostype) (fuel : nat) (p : piter) : list str :=
  match fuel with
  | O => []
  | S f => let '(ok, p') := pi_next os p in
           if ok then pi_part p' :: pi_parts_f os f p' else []
  end.
Definition pi_parts (os : ostype) (path : str) : list str :=
  pi_parts_f os (S (length path)) (pi_new os path).
