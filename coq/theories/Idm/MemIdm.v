(* Executable model of idm/memidm/memidm.go (MemIdm) and the two-map reference
   it is supposed to refine (property C15).  Model only: proofs are in
   MemIdmProofs.v so that the model still runs when a proof breaks. *)
From Avfs Require Import Base.
Set Implicit Arguments.

(* --- data ------------------------------------------------------------- *)

Record grp := { g_name : str; g_gid : Z }.
Record usr := { u_name : str; u_uid : Z; u_gid : Z }.

(* memidm_types.go:34-47 : four maps and two counters.  The Go maps hold
   pointers to shared MemGroup/MemUser objects; the objects are immutable, so
   holding the record by value is the same thing. *)
Record idm := {
  groupsByName : list (str * grp);
  groupsById   : list (Z * grp);
  usersByName  : list (str * usr);
  usersById    : list (Z * usr);
  maxGid : Z;
  maxUid : Z
}.

Inductive ierr :=
| AlreadyExistsGroup (n : str)
| AlreadyExistsUser (n : str)
| UnknownGroup (n : str)
| UnknownUser (n : str)
| UnknownGroupId (i : Z)
| UnknownUserId (i : Z).

(* What a call returns, as observed by the harness: the fields of the
   returned reader (and IsAdmin() for users), nil, or the error type with
   its payload. *)
Inductive ires :=
| RGroup (name : str) (gid : Z)
| RUser (name : str) (uid gid : Z) (admin : bool)
| RNil
| RErr (e : ierr).

Inductive iop :=
| AddGroup (n : str)
| AddUser (n g : str)
| DelGroup (n : str)
| DelUser (n : str)
| LookupGroup (n : str)
| LookupGroupId (i : Z)
| LookupUser (n : str)
| LookupUserId (i : Z).

(* --- implementation model ------------------------------------------- *)

Definition minId : Z := 1000.   (* memidm_types.go: minUid = minGid = 1000 *)

(* memidm_cfg.go NewWithOptions; [an] and [gn] are AdminUserName(os) and
   AdminGroupName(os). *)
Definition idm_init (an gn : str) : idm :=
  let g := {| g_name := gn; g_gid := 0 |} in
  let u := {| u_name := an; u_uid := 0; u_gid := 0 |} in
  {| groupsByName := [(gn, g)]; groupsById := [(0%Z, g)];
     usersByName := [(an, u)]; usersById := [(0%Z, u)];
     maxGid := minId; maxUid := minId |}.

(* memidm.go:185 IsAdmin, after the "fix:" commit (uid == 0; the code as found
   said uid == 0 || gid == 0, which made every member of group root an admin). *)
Definition is_admin (u : usr) : bool := Z.eqb (u_uid u) 0.

Definition ruser (u : usr) : ires := RUser (u_name u) (u_uid u) (u_gid u) (is_admin u).
Definition rgroup (g : grp) : ires := RGroup (g_name g) (g_gid g).

Definition lookup_group (s : idm) (n : str) : option grp := alookup str_eqb n (groupsByName s).

(* Second critical section of AddUser (under usrMu); [g] is the group found by
   LookupGroup in the first one. *)
Definition add_user_sec2 (s : idm) (n : str) (g : grp) : idm * ires :=
  match alookup str_eqb n (usersByName s) with
  | Some _ => (s, RErr (AlreadyExistsUser n))
  | None =>
      let uid := (maxUid s + 1)%Z in
      let u := {| u_name := n; u_uid := uid; u_gid := g_gid g |} in
      ({| groupsByName := groupsByName s; groupsById := groupsById s;
          usersByName := aset str_eqb n u (usersByName s);
          usersById := aset Z.eqb uid u (usersById s);
          maxGid := maxGid s; maxUid := uid |}, ruser u)
  end.

Definition idm_step (s : idm) (o : iop) : idm * ires :=
  match o with
  | AddGroup n =>
      match alookup str_eqb n (groupsByName s) with
      | Some _ => (s, RErr (AlreadyExistsGroup n))
      | None =>
          let gid := (maxGid s + 1)%Z in
          let g := {| g_name := n; g_gid := gid |} in
          ({| groupsByName := aset str_eqb n g (groupsByName s);
              groupsById := aset Z.eqb gid g (groupsById s);
              usersByName := usersByName s; usersById := usersById s;
              maxGid := gid; maxUid := maxUid s |}, rgroup g)
      end
  | AddUser n gn =>
      match lookup_group s gn with
      | None => (s, RErr (UnknownGroup gn))
      | Some g => add_user_sec2 s n g
      end
  | DelGroup n =>
      match alookup str_eqb n (groupsByName s) with
      | None => (s, RErr (UnknownGroup n))
      | Some g =>
          ({| groupsByName := aremove str_eqb (g_name g) (groupsByName s);
              groupsById := aremove Z.eqb (g_gid g) (groupsById s);
              usersByName := usersByName s; usersById := usersById s;
              maxGid := maxGid s; maxUid := maxUid s |}, RNil)
      end
  | DelUser n =>
      match alookup str_eqb n (usersByName s) with
      | None => (s, RErr (UnknownUser n))
      | Some u =>
          ({| groupsByName := groupsByName s; groupsById := groupsById s;
              usersByName := aremove str_eqb (u_name u) (usersByName s);
              usersById := aremove Z.eqb (u_uid u) (usersById s);
              maxGid := maxGid s; maxUid := maxUid s |}, RNil)
      end
  | LookupGroup n =>
      (s, match alookup str_eqb n (groupsByName s) with
          | Some g => rgroup g | None => RErr (UnknownGroup n) end)
  | LookupGroupId i =>
      (s, match alookup Z.eqb i (groupsById s) with
          | Some g => rgroup g | None => RErr (UnknownGroupId i) end)
  | LookupUser n =>
      (s, match alookup str_eqb n (usersByName s) with
          | Some u => ruser u | None => RErr (UnknownUser n) end)
  | LookupUserId i =>
      (s, match alookup Z.eqb i (usersById s) with
          | Some u => ruser u | None => RErr (UnknownUserId i) end)
  end.

Fixpoint idm_run (s : idm) (ops : list iop) : idm * list ires :=
  match ops with
  | [] => (s, [])
  | o :: ops' =>
      let (s1, r) := idm_step s o in
      let (s2, rs) := idm_run s1 ops' in
      (s2, r :: rs)
  end.

(* --- reference: "the users and groups added and not yet deleted" ------ *)

(* One list of live groups and one of live users; look-ups by name and by id
   search the same list, so they agree by construction.  Identifiers come
   from a counter that only grows. *)
Record ref := {
  r_groups : list grp;
  r_users  : list usr;
  r_gctr : Z;
  r_uctr : Z
}.

Definition ref_init (an gn : str) : ref :=
  {| r_groups := [{| g_name := gn; g_gid := 0 |}];
     r_users := [{| u_name := an; u_uid := 0; u_gid := 0 |}];
     r_gctr := minId; r_uctr := minId |}.

Definition find_group_name (n : str) (l : list grp) : option grp :=
  find (fun g => str_eqb n (g_name g)) l.
Definition find_group_id (i : Z) (l : list grp) : option grp :=
  find (fun g => Z.eqb i (g_gid g)) l.
Definition find_user_name (n : str) (l : list usr) : option usr :=
  find (fun u => str_eqb n (u_name u)) l.
Definition find_user_id (i : Z) (l : list usr) : option usr :=
  find (fun u => Z.eqb i (u_uid u)) l.

Definition ref_add_user (s : ref) (n : str) (g : grp) : ref * ires :=
  match find_user_name n (r_users s) with
  | Some _ => (s, RErr (AlreadyExistsUser n))
  | None =>
      let u := {| u_name := n; u_uid := r_uctr s + 1; u_gid := g_gid g |} in
      ({| r_groups := r_groups s; r_users := r_users s ++ [u];
          r_gctr := r_gctr s; r_uctr := r_uctr s + 1 |}, ruser u)
  end.

Definition ref_step (s : ref) (o : iop) : ref * ires :=
  match o with
  | AddGroup n =>
      match find_group_name n (r_groups s) with
      | Some _ => (s, RErr (AlreadyExistsGroup n))
      | None =>
          let g := {| g_name := n; g_gid := r_gctr s + 1 |} in
          ({| r_groups := r_groups s ++ [g]; r_users := r_users s;
              r_gctr := r_gctr s + 1; r_uctr := r_uctr s |}, rgroup g)
      end
  | AddUser n gn =>
      match find_group_name gn (r_groups s) with
      | None => (s, RErr (UnknownGroup gn))
      | Some g => ref_add_user s n g
      end
  | DelGroup n =>
      match find_group_name n (r_groups s) with
      | None => (s, RErr (UnknownGroup n))
      | Some _ =>
          ({| r_groups := filter (fun g => negb (str_eqb n (g_name g))) (r_groups s);
              r_users := r_users s; r_gctr := r_gctr s; r_uctr := r_uctr s |}, RNil)
      end
  | DelUser n =>
      match find_user_name n (r_users s) with
      | None => (s, RErr (UnknownUser n))
      | Some _ =>
          ({| r_groups := r_groups s;
              r_users := filter (fun u => negb (str_eqb n (u_name u))) (r_users s);
              r_gctr := r_gctr s; r_uctr := r_uctr s |}, RNil)
      end
  | LookupGroup n =>
      (s, match find_group_name n (r_groups s) with
          | Some g => rgroup g | None => RErr (UnknownGroup n) end)
  | LookupGroupId i =>
      (s, match find_group_id i (r_groups s) with
          | Some g => rgroup g | None => RErr (UnknownGroupId i) end)
  | LookupUser n =>
      (s, match find_user_name n (r_users s) with
          | Some u => ruser u | None => RErr (UnknownUser n) end)
  | LookupUserId i =>
      (s, match find_user_id i (r_users s) with
          | Some u => ruser u | None => RErr (UnknownUserId i) end)
  end.

Fixpoint ref_run (s : ref) (ops : list iop) : ref * list ires :=
  match ops with
  | [] => (s, [])
  | o :: ops' =>
      let (s1, r) := ref_step s o in
      let (s2, rs) := ref_run s1 ops' in
      (s2, r :: rs)
  end.

(* --- concurrency: the two critical sections of AddUser ----------------- *)

(* Every call except AddUser is one critical section under one lock.  AddUser
   takes grpMu.RLock and looks its group up (section 1); KEEPING that read lock it
   takes usrMu.Lock, re-checks the name and inserts the user (section 2), then
   releases both (lock order grpMu -> usrMu; no other method nests the two).  A
   thread is a list of calls; [cstep] runs the next critical section of thread [t].
   While some thread is between the two sections of an AddUser it holds grpMu for
   reading: a section that needs grpMu for writing (AddGroup, DelGroup) is then
   blocked - [cstep] on it is a stutter, as in the scheduler of the harness. *)
Inductive pend := PNone | PAddUser (n gn : str) (g : grp).

Record cthread := { t_todo : list iop; t_pend : pend; t_out : list ires }.

Definition thread_step (s : idm) (t : cthread) : idm * cthread :=
  match t_pend t with
  | PAddUser n _ g =>
      let (s', r) := add_user_sec2 s n g in
      (s', {| t_todo := t_todo t; t_pend := PNone; t_out := t_out t ++ [r] |})
  | PNone =>
      match t_todo t with
      | [] => (s, t)
      | AddUser n gn :: rest =>
          match lookup_group s gn with
          | None => (s, {| t_todo := rest; t_pend := PNone;
                           t_out := t_out t ++ [RErr (UnknownGroup gn)] |})
          | Some g => (s, {| t_todo := rest; t_pend := PAddUser n gn g; t_out := t_out t |})
          end
      | o :: rest =>
          let (s', r) := idm_step s o in
          (s', {| t_todo := rest; t_pend := PNone; t_out := t_out t ++ [r] |})
      end
  end.

(* between the two sections of AddUser: grpMu is held for reading *)
Definition holds_grp (t : cthread) : bool :=
  match t_pend t with PAddUser _ _ _ => true | PNone => false end.

(* the next section needs grpMu for writing *)
Definition wants_grp_w (t : cthread) : bool :=
  match t_pend t, t_todo t with
  | PNone, AddGroup _ :: _ | PNone, DelGroup _ :: _ => true
  | _, _ => false
  end.

Definition blocked (ths : list cthread) (t : cthread) : bool := wants_grp_w t && existsb holds_grp ths.

Fixpoint upd_nth {A} (l : list A) (i : nat) (x : A) : list A :=
  match l, i with
  | [], _ => []
  | _ :: l', O => x :: l'
  | y :: l', S i' => y :: upd_nth l' i' x
  end.

Definition cstep (st : idm * list cthread) (i : nat) : idm * list cthread :=
  match nth_error (snd st) i with
  | None => st
  | Some t =>
      if blocked (snd st) t then st
      else let (s', t') := thread_step (fst st) t in (s', upd_nth (snd st) i t')
  end.

Definition crun (st : idm * list cthread) (sched : list nat) : idm * list cthread :=
  fold_left cstep sched st.
