(* Proofs about the MemIdm model (property C15). *)
From Avfs Require Import Base BaseProofs MemIdm.
Set Implicit Arguments.

Local Notation glk := (alookup str_eqb).
Local Notation ilk := (alookup Z.eqb).

(* ------------------------------------------------------------------ *)
(* Refinement relation between the four-map state and the reference.  *)

Record RefInv (r : ref) : Prop := {
  ri_gnames : NoDup (map g_name (r_groups r));
  ri_gids   : NoDup (map g_gid (r_groups r));
  ri_gbound : forall g, In g (r_groups r) -> (g_gid g <= r_gctr r)%Z;
  ri_unames : NoDup (map u_name (r_users r));
  ri_uids   : NoDup (map u_uid (r_users r));
  ri_ubound : forall u, In u (r_users r) -> (u_uid u <= r_uctr r)%Z
}.

Record R (s : idm) (r : ref) : Prop := {
  R_gn : forall n, glk n (groupsByName s) = find_group_name n (r_groups r);
  R_gi : forall i, ilk i (groupsById s) = find_group_id i (r_groups r);
  R_un : forall n, glk n (usersByName s) = find_user_name n (r_users r);
  R_ui : forall i, ilk i (usersById s) = find_user_id i (r_users r);
  R_gc : maxGid s = r_gctr r;
  R_uc : maxUid s = r_uctr r
}.

Lemma find_group_name_sound n l g : find_group_name n l = Some g -> In g l /\ g_name g = n.
Proof.
  unfold find_group_name. intros H. apply find_some in H as [Hin He].
  apply str_eqb_eq in He. auto.
Qed.

Lemma find_user_name_sound n l u : find_user_name n l = Some u -> In u l /\ u_name u = n.
Proof.
  unfold find_user_name. intros H. apply find_some in H as [Hin He].
  apply str_eqb_eq in He. auto.
Qed.

Lemma find_group_id_sound i l g : find_group_id i l = Some g -> In g l /\ g_gid g = i.
Proof.
  unfold find_group_id. intros H. apply find_some in H as [Hin He].
  apply Z.eqb_eq in He. auto.
Qed.

Lemma find_user_id_sound i l u : find_user_id i l = Some u -> In u l /\ u_uid u = i.
Proof.
  unfold find_user_id. intros H. apply find_some in H as [Hin He].
  apply Z.eqb_eq in He. auto.
Qed.

(* With unique keys, membership determines what find returns. *)
Lemma find_unique {A K} (key : A -> K) (keqb : K -> K -> bool)
      (kspec : forall a b, reflect (a = b) (keqb a b)) l x :
  NoDup (map key l) -> In x l -> find (fun y => keqb (key x) (key y)) l = Some x.
Proof.
  induction l as [|y l IH]; cbn [map find]; intros Hnd Hin; [destruct Hin|].
  inversion Hnd as [|? ? Hnotin Hnd']; subst.
  destruct Hin as [->|Hin].
  - destruct (kspec (key x) (key x)); congruence.
  - destruct (kspec (key x) (key y)) as [He|Hne]; auto.
    exfalso. apply Hnotin. rewrite <- He. now apply in_map.
Qed.

Lemma in_find_group_name l g : NoDup (map g_name l) -> In g l -> find_group_name (g_name g) l = Some g.
Proof. apply (find_unique g_name str_eqb str_eqb_spec). Qed.
Lemma in_find_group_id l g : NoDup (map g_gid l) -> In g l -> find_group_id (g_gid g) l = Some g.
Proof. apply (find_unique g_gid Z.eqb Z.eqb_spec). Qed.
Lemma in_find_user_name l u : NoDup (map u_name l) -> In u l -> find_user_name (u_name u) l = Some u.
Proof. apply (find_unique u_name str_eqb str_eqb_spec). Qed.
Lemma in_find_user_id l u : NoDup (map u_uid l) -> In u l -> find_user_id (u_uid u) l = Some u.
Proof. apply (find_unique u_uid Z.eqb Z.eqb_spec). Qed.

Lemma NoDup_app_one_ {K} (l : list K) k : NoDup l -> ~ In k l -> NoDup (l ++ [k]).
Proof.
  induction l as [|y l IH]; cbn [app]; intros Hnd Hni.
  - constructor; [intros []|constructor].
  - inversion Hnd; subst. constructor.
    + rewrite in_app_iff. intros [H|[H|[]]]; [contradiction|]. apply Hni. now left.
    + apply IH; auto. intros H. apply Hni. now right.
Qed.

Lemma NoDup_map_app_one {A K} (key : A -> K) l x :
  NoDup (map key l) -> ~ In (key x) (map key l) -> NoDup (map key (l ++ [x])).
Proof.
  intros Hnd Hni. rewrite map_app. cbn [map].
  apply NoDup_app_one_; auto.
Qed.

Lemma NoDup_map_filter {A K} (key : A -> K) p l :
  NoDup (map key l) -> NoDup (map key (filter p l)).
Proof.
  induction l as [|y l IH]; cbn [map filter]; intros Hnd; auto.
  inversion Hnd as [|? ? Hni Hnd']; subst.
  destruct (p y); cbn [map]; auto. constructor; auto.
  intros H. apply Hni. apply in_map_iff in H as (z & Hz & Hin).
  apply filter_In in Hin as [Hin _]. apply in_map_iff. eauto.
Qed.

Lemma NoDup_map_inj {A K} (key : A -> K) l x y :
  NoDup (map key l) -> In x l -> In y l -> key x = key y -> x = y.
Proof.
  induction l as [|z l IH]; cbn [map]; intros Hnd Hx Hy He; [destruct Hx|].
  inversion Hnd as [|? ? Hni Hnd']; subst.
  destruct Hx as [->|Hx], Hy as [->|Hy]; auto.
  - exfalso. apply Hni. rewrite He. now apply in_map.
  - exfalso. apply Hni. rewrite <- He. now apply in_map.
Qed.

Lemma find_group_name_none n l : find_group_name n l = None -> ~ In n (map g_name l).
Proof.
  unfold find_group_name. intros H Hin. apply in_map_iff in Hin as (g & <- & Hin).
  pose proof (find_none _ _ H _ Hin) as Hf. cbn in Hf. now rewrite str_eqb_refl in Hf.
Qed.

Lemma find_user_name_none n l : find_user_name n l = None -> ~ In n (map u_name l).
Proof.
  unfold find_user_name. intros H Hin. apply in_map_iff in Hin as (g & <- & Hin).
  pose proof (find_none _ _ H _ Hin) as Hf. cbn in Hf. now rewrite str_eqb_refl in Hf.
Qed.

Lemma find_group_id_fresh i l : (forall g, In g l -> (g_gid g < i)%Z) -> find_group_id i l = None.
Proof.
  intros H. apply find_none_iff. intros g Hg. apply H in Hg. apply Z.eqb_neq. lia.
Qed.

Lemma find_user_id_fresh i l : (forall u, In u l -> (u_uid u < i)%Z) -> find_user_id i l = None.
Proof.
  intros H. apply find_none_iff. intros g Hg. apply H in Hg. apply Z.eqb_neq. lia.
Qed.

(* ------------------------------------------------------------------ *)
(* One step: same answer, relation and reference invariant preserved. *)

Ltac split_R := constructor; cbn [groupsByName groupsById usersByName usersById maxGid maxUid
                                   r_groups r_users r_gctr r_uctr]; auto.

Lemma sec2_refines s r n g0 :
  R s r -> RefInv r ->
  let (s', a) := add_user_sec2 s n g0 in
  let (r', b) := ref_add_user r n g0 in
  a = b /\ R s' r' /\ RefInv r'.
Proof.
  intros HR HI. destruct HR as [Rgn Rgi Run Rui Rgc Ruc].
  destruct HI as [Ign Igi Igb Iun Iui Iub].
  unfold add_user_sec2, ref_add_user.
    rewrite Run. destruct (find_user_name n (r_users r)) as [u0|] eqn:Hf.
    + repeat split; auto; constructor; auto.
    + rewrite Ruc. set (u := {| u_name := n; u_uid := r_uctr r + 1; u_gid := g_gid g0 |}).
      assert (Hfresh : find_user_id (r_uctr r + 1) (r_users r) = None).
      { apply find_user_id_fresh. intros u0 Hu0. apply Iub in Hu0. lia. }
      split; [reflexivity|]. split.
      * split_R.
        -- intros n'. unfold find_user_name. rewrite find_app. fold (find_user_name n' (r_users r)).
           destruct (str_eqb_spec n n') as [<-|Hne].
           ++ rewrite (alookup_aset_same _ str_eqb_spec). rewrite Hf. cbn. now rewrite str_eqb_refl.
           ++ rewrite (alookup_aset_other _ str_eqb_spec) by auto. rewrite Run.
              destruct (find_user_name n' (r_users r)); auto. cbn.
              assert (str_eqb n' n = false) as -> by (apply str_eqb_neq; congruence). reflexivity.
        -- intros i. unfold find_user_id. rewrite find_app. fold (find_user_id i (r_users r)).
           destruct (Z.eqb_spec (r_uctr r + 1) i) as [<-|Hne].
           ++ rewrite (alookup_aset_same _ Z.eqb_spec). rewrite Hfresh. cbn. now rewrite Z.eqb_refl.
           ++ rewrite (alookup_aset_other _ Z.eqb_spec) by auto. rewrite Rui.
              destruct (find_user_id i (r_users r)); auto. cbn.
              assert (Z.eqb i (r_uctr r + 1) = false) as -> by (apply Z.eqb_neq; congruence). reflexivity.
      * constructor; cbn [r_groups r_users r_gctr r_uctr]; auto.
        -- apply NoDup_map_app_one; auto. now apply find_user_name_none.
        -- apply NoDup_map_app_one; auto. cbn [u_uid u]. intros Hin.
           apply in_map_iff in Hin as (u0 & He & Hin). apply Iub in Hin. lia.
        -- intros u0 Hin. apply in_app_iff in Hin as [Hin|[<-|[]]]; [apply Iub in Hin; lia|cbn; lia].
Qed.

Lemma step_refines s r o :
  R s r -> RefInv r ->
  let (s', a) := idm_step s o in
  let (r', b) := ref_step r o in
  a = b /\ R s' r' /\ RefInv r'.
Proof.
  intros HR HI. destruct HR as [Rgn Rgi Run Rui Rgc Ruc].
  destruct HI as [Ign Igi Igb Iun Iui Iub].
  destruct o as [n|n gn|n|n|n|i|n|i]; cbn [idm_step ref_step]; unfold lookup_group.
  - (* AddGroup *)
    rewrite Rgn. destruct (find_group_name n (r_groups r)) as [g0|] eqn:Hf.
    + repeat split; auto.
    + rewrite Rgc. set (g := {| g_name := n; g_gid := r_gctr r + 1 |}).
      assert (Hfresh : find_group_id (r_gctr r + 1) (r_groups r) = None).
      { apply find_group_id_fresh. intros g0 Hg0. apply Igb in Hg0. lia. }
      split; [reflexivity|]. split.
      * split_R.
        -- intros n'. unfold find_group_name. rewrite find_app. fold (find_group_name n' (r_groups r)).
           destruct (str_eqb_spec n n') as [<-|Hne].
           ++ rewrite (alookup_aset_same _ str_eqb_spec). rewrite Hf. cbn. now rewrite str_eqb_refl.
           ++ rewrite (alookup_aset_other _ str_eqb_spec) by auto. rewrite Rgn.
              destruct (find_group_name n' (r_groups r)); auto. cbn.
              assert (str_eqb n' n = false) as -> by (apply str_eqb_neq; congruence). reflexivity.
        -- intros i. unfold find_group_id. rewrite find_app. fold (find_group_id i (r_groups r)).
           destruct (Z.eqb_spec (r_gctr r + 1) i) as [<-|Hne].
           ++ rewrite (alookup_aset_same _ Z.eqb_spec). rewrite Hfresh. cbn. now rewrite Z.eqb_refl.
           ++ rewrite (alookup_aset_other _ Z.eqb_spec) by auto. rewrite Rgi.
              destruct (find_group_id i (r_groups r)); auto. cbn.
              assert (Z.eqb i (r_gctr r + 1) = false) as -> by (apply Z.eqb_neq; congruence). reflexivity.
      * constructor; cbn [r_groups r_users r_gctr r_uctr]; auto.
        -- apply NoDup_map_app_one; auto. now apply find_group_name_none.
        -- apply NoDup_map_app_one; auto. cbn [g_gid g]. intros Hin.
           apply in_map_iff in Hin as (g0 & He & Hin). apply Igb in Hin. lia.
        -- intros g0 Hin. apply in_app_iff in Hin as [Hin|[<-|[]]]; [apply Igb in Hin; lia|cbn; lia].
  - (* AddUser *)
    rewrite Rgn. destruct (find_group_name gn (r_groups r)) as [g0|] eqn:Hg.
    2:{ repeat split; auto. }
    apply sec2_refines; constructor; auto.
  - (* DelGroup *)
    rewrite Rgn. destruct (find_group_name n (r_groups r)) as [g0|] eqn:Hf.
    2:{ repeat split; auto. }
    destruct (find_group_name_sound _ _ Hf) as [Hin0 Hn0].
    split; [reflexivity|]. split.
    + split_R.
      * intros n'. rewrite Hn0. destruct (str_eqb_spec n n') as [<-|Hne].
        -- rewrite (alookup_aremove_same _ str_eqb_spec). symmetry. apply find_filter_none.
           intros x _ Hx. now rewrite Hx.
        -- rewrite (alookup_aremove_other _ str_eqb_spec) by auto. rewrite Rgn. symmetry.
           apply find_filter_compat. intros x _ Hx. apply str_eqb_eq in Hx. subst n'.
           apply negb_true_iff. apply str_eqb_neq. auto.
      * intros i. destruct (Z.eqb_spec (g_gid g0) i) as [<-|Hne].
        -- rewrite (alookup_aremove_same _ Z.eqb_spec). symmetry. apply find_filter_none.
           intros x Hx He. apply Z.eqb_eq in He.
           assert (x = g0) as -> by (eapply NoDup_map_inj; eauto).
           rewrite Hn0, str_eqb_refl. reflexivity.
        -- rewrite (alookup_aremove_other _ Z.eqb_spec) by auto. rewrite Rgi. symmetry.
           apply find_filter_compat. intros x Hx He. apply Z.eqb_eq in He.
           apply negb_true_iff. apply str_eqb_neq. intros Hnx. apply Hne.
           assert (x = g0) as -> by (eapply (NoDup_map_inj g_name); eauto; congruence). auto.
    + constructor; cbn [r_groups r_users r_gctr r_uctr]; auto using NoDup_map_filter.
      intros g Hg. apply filter_In in Hg as [Hg _]. auto.
  - (* DelUser *)
    rewrite Run. destruct (find_user_name n (r_users r)) as [u0|] eqn:Hf.
    2:{ repeat split; auto. }
    destruct (find_user_name_sound _ _ Hf) as [Hin0 Hn0].
    split; [reflexivity|]. split.
    + split_R.
      * intros n'. rewrite Hn0. destruct (str_eqb_spec n n') as [<-|Hne].
        -- rewrite (alookup_aremove_same _ str_eqb_spec). symmetry. apply find_filter_none.
           intros x _ Hx. now rewrite Hx.
        -- rewrite (alookup_aremove_other _ str_eqb_spec) by auto. rewrite Run. symmetry.
           apply find_filter_compat. intros x _ Hx. apply str_eqb_eq in Hx. subst n'.
           apply negb_true_iff. apply str_eqb_neq. auto.
      * intros i. destruct (Z.eqb_spec (u_uid u0) i) as [<-|Hne].
        -- rewrite (alookup_aremove_same _ Z.eqb_spec). symmetry. apply find_filter_none.
           intros x Hx He. apply Z.eqb_eq in He.
           assert (x = u0) as -> by (eapply NoDup_map_inj; eauto).
           rewrite Hn0, str_eqb_refl. reflexivity.
        -- rewrite (alookup_aremove_other _ Z.eqb_spec) by auto. rewrite Rui. symmetry.
           apply find_filter_compat. intros x Hx He. apply Z.eqb_eq in He.
           apply negb_true_iff. apply str_eqb_neq. intros Hnx. apply Hne.
           assert (x = u0) as -> by (eapply (NoDup_map_inj u_name); eauto; congruence). auto.
    + constructor; cbn [r_groups r_users r_gctr r_uctr]; auto using NoDup_map_filter.
      intros u Hu. apply filter_In in Hu as [Hu _]. auto.
  - rewrite Rgn. repeat split; auto.
  - rewrite Rgi. repeat split; auto.
  - rewrite Run. repeat split; auto.
  - rewrite Rui. repeat split; auto.
Qed.

(* ------------------------------------------------------------------ *)
(* Histories.                                                          *)

Lemma init_R an gn : R (idm_init an gn) (ref_init an gn).
Proof.
  constructor; cbn; auto.
Qed.

Lemma init_RefInv an gn : RefInv (ref_init an gn).
Proof.
  constructor; cbn; try (constructor; [intros []|constructor]).
  - intros g [<-|[]]. cbn. unfold minId. lia.
  - intros u [<-|[]]. cbn. unfold minId. lia.
Qed.

Theorem run_refines ops : forall s r,
  R s r -> RefInv r ->
  snd (idm_run s ops) = snd (ref_run r ops)
  /\ R (fst (idm_run s ops)) (fst (ref_run r ops))
  /\ RefInv (fst (ref_run r ops)).
Proof.
  induction ops as [|o ops IH]; intros s r HR HI; cbn [idm_run ref_run].
  - cbn. auto.
  - pose proof (step_refines o HR HI) as Hs.
    destruct (idm_step s o) as [s1 a]. destruct (ref_step r o) as [r1 b].
    destruct Hs as (-> & HR1 & HI1).
    specialize (IH s1 r1 HR1 HI1).
    destruct (idm_run s1 ops) as [s2 os]. destruct (ref_run r1 ops) as [r2 os'].
    cbn in *. destruct IH as (-> & ? & ?). auto.
Qed.

(* The consistency invariant of the four maps, in the property's own words. *)
Record Consistent (s : idm) : Prop := {
  c_g_name_id : forall n g, glk n (groupsByName s) = Some g ->
                            g_name g = n /\ ilk (g_gid g) (groupsById s) = Some g;
  c_g_id_name : forall i g, ilk i (groupsById s) = Some g ->
                            g_gid g = i /\ glk (g_name g) (groupsByName s) = Some g;
  c_u_name_id : forall n u, glk n (usersByName s) = Some u ->
                            u_name u = n /\ ilk (u_uid u) (usersById s) = Some u;
  c_u_id_name : forall i u, ilk i (usersById s) = Some u ->
                            u_uid u = i /\ glk (u_name u) (usersByName s) = Some u;
  c_g_bound : forall i g, ilk i (groupsById s) = Some g -> (i = 0 \/ minId < i <= maxGid s)%Z;
  c_u_bound : forall i u, ilk i (usersById s) = Some u -> (i = 0 \/ minId < i <= maxUid s)%Z
}.

(* Ids are 0 (the administrator objects) or above minId: needs a slightly
   stronger reference invariant than RefInv. *)
Definition IdsOk (an gn : str) (r : ref) : Prop :=
  (minId <= r_gctr r)%Z /\ (minId <= r_uctr r)%Z /\
  (forall g, In g (r_groups r) -> (g_gid g = 0%Z /\ g_name g = gn) \/ (minId < g_gid g)%Z) /\
  (forall u, In u (r_users r) -> (u_uid u = 0%Z /\ u_name u = an /\ u_gid u = 0%Z) \/ (minId < u_uid u)%Z).

Lemma init_IdsOk an gn : IdsOk an gn (ref_init an gn).
Proof.
  unfold IdsOk; cbn. repeat split; try lia.
  - intros g [<-|[]]; auto.
  - intros u [<-|[]]; auto.
Qed.

Lemma ref_add_user_IdsOk an gn r n g : IdsOk an gn r -> IdsOk an gn (fst (ref_add_user r n g)).
Proof.
  intros (Hg & Hu & Hgs & Hus). unfold ref_add_user.
  destruct (find_user_name n (r_users r)); cbn; [repeat split; auto|].
  repeat split; cbn; auto; try lia. intros u Hin. apply in_app_iff in Hin as [Hin|[<-|[]]]; auto.
  right; cbn; lia.
Qed.

Lemma ref_step_IdsOk an gn r o : IdsOk an gn r -> IdsOk an gn (fst (ref_step r o)).
Proof.
  intros H. pose proof H as (Hg & Hu & Hgs & Hus).
  destruct o as [n|n g|n|n|n|i|n|i]; cbn [ref_step]; auto.
  - destruct (find_group_name n (r_groups r)); cbn; auto.
    repeat split; cbn; auto; try lia. intros g1 Hin. apply in_app_iff in Hin as [Hin|[<-|[]]]; auto.
    right; cbn; lia.
  - destruct (find_group_name g (r_groups r)); auto. now apply ref_add_user_IdsOk.
  - destruct (find_group_name n (r_groups r)); cbn; auto.
    repeat split; cbn; auto. intros g1 Hin. apply filter_In in Hin as [Hin _]. auto.
  - destruct (find_user_name n (r_users r)); cbn; auto.
    repeat split; cbn; auto. intros g1 Hin. apply filter_In in Hin as [Hin _]. auto.
Qed.

Lemma ref_run_IdsOk an gn ops : forall r, IdsOk an gn r -> IdsOk an gn (fst (ref_run r ops)).
Proof.
  induction ops as [|o ops IH]; intros r H; cbn [ref_run]; auto.
  pose proof (ref_step_IdsOk o H) as H1. destruct (ref_step r o) as [r1 b]. cbn in H1.
  specialize (IH r1 H1). destruct (ref_run r1 ops). auto.
Qed.

Lemma R_Consistent an gn s r : R s r -> RefInv r -> IdsOk an gn r -> Consistent s.
Proof.
  intros [Rgn Rgi Run Rui Rgc Ruc] [Ign Igi Igb Iun Iui Iub] (Hg & Hu & Hgs & Hus).
  constructor.
  - intros n g H. rewrite Rgn in H. apply find_group_name_sound in H as [Hin <-].
    split; auto. rewrite Rgi. now apply in_find_group_id.
  - intros i g H. rewrite Rgi in H. apply find_group_id_sound in H as [Hin <-].
    split; auto. rewrite Rgn. now apply in_find_group_name.
  - intros n u H. rewrite Run in H. apply find_user_name_sound in H as [Hin <-].
    split; auto. rewrite Rui. now apply in_find_user_id.
  - intros i u H. rewrite Rui in H. apply find_user_id_sound in H as [Hin <-].
    split; auto. rewrite Run. now apply in_find_user_name.
  - intros i g H. rewrite Rgi in H. apply find_group_id_sound in H as [Hin <-].
    rewrite Rgc. pose proof (Igb _ Hin). destruct (Hgs _ Hin) as [[? _]|?]; [left|right]; lia.
  - intros i u H. rewrite Rui in H. apply find_user_id_sound in H as [Hin <-].
    rewrite Ruc. pose proof (Iub _ Hin). destruct (Hus _ Hin) as [[? _]|?]; [left|right]; lia.
Qed.

Theorem reachable_consistent an gn ops : Consistent (fst (idm_run (idm_init an gn) ops)).
Proof.
  destruct (run_refines ops (init_R an gn) (init_RefInv an gn)) as (_ & HR & HI).
  eapply R_Consistent; eauto. apply ref_run_IdsOk, init_IdsOk.
Qed.

(* ------------------------------------------------------------------ *)
(* No identifier is ever handed out twice.                             *)

(* The group ids returned by the successful AddGroup calls of a history, in
   order; likewise user ids. *)
Fixpoint new_gids (ops : list iop) (outs : list ires) : list Z :=
  match ops, outs with
  | AddGroup _ :: ops', RGroup _ i :: outs' => i :: new_gids ops' outs'
  | _ :: ops', _ :: outs' => new_gids ops' outs'
  | _, _ => []
  end.

Fixpoint new_uids (ops : list iop) (outs : list ires) : list Z :=
  match ops, outs with
  | AddUser _ _ :: ops', RUser _ i _ _ :: outs' => i :: new_uids ops' outs'
  | _ :: ops', _ :: outs' => new_uids ops' outs'
  | _, _ => []
  end.

(* strictly increasing and above a bound *)
Fixpoint incr_above (b : Z) (l : list Z) : Prop :=
  match l with [] => True | x :: l' => (b < x)%Z /\ incr_above x l' end.

Lemma incr_above_weaken b b' l : (b' <= b)%Z -> incr_above b l -> incr_above b' l.
Proof. destruct l; cbn; auto. intros ? [? ?]. split; auto. lia. Qed.

Ltac crush_ctr :=
  cbn [ref_step]; unfold ref_add_user;
  repeat (match goal with |- context [match ?x with _ => _ end] => destruct x end);
  cbn; lia.

Lemma ref_step_gctr r o : (r_gctr r <= r_gctr (fst (ref_step r o)))%Z.
Proof. destruct o; crush_ctr. Qed.

Lemma ref_step_uctr r o : (r_uctr r <= r_uctr (fst (ref_step r o)))%Z.
Proof. destruct o; crush_ctr. Qed.

Lemma ref_new_gids ops : forall r, incr_above (r_gctr r) (new_gids ops (snd (ref_run r ops))).
Proof.
  induction ops as [|o ops IH]; intros r; cbn [ref_run]; [exact I|].
  pose proof (ref_step_gctr r o) as Hm.
  destruct (ref_step r o) as [r1 b] eqn:Hs. specialize (IH r1).
  destruct (ref_run r1 ops) as [r2 os]. cbn [snd fst] in *.
  assert (Hdefault : incr_above (r_gctr r) (new_gids ops os)) by (eapply incr_above_weaken; eauto).
  destruct o as [n|n g|n|n|n|i|n|i]; cbn [new_gids]; try (destruct b; exact Hdefault).
  cbn [ref_step] in Hs. destruct (find_group_name n (r_groups r)).
  - inversion Hs; subst. exact Hdefault.
  - inversion Hs; subst. cbn [rgroup g_name g_gid r_gctr] in *. split; [lia|exact IH].
Qed.

Lemma ref_new_uids ops : forall r, incr_above (r_uctr r) (new_uids ops (snd (ref_run r ops))).
Proof.
  induction ops as [|o ops IH]; intros r; cbn [ref_run]; [exact I|].
  pose proof (ref_step_uctr r o) as Hm.
  destruct (ref_step r o) as [r1 b] eqn:Hs. specialize (IH r1).
  destruct (ref_run r1 ops) as [r2 os]. cbn [snd fst] in *.
  assert (Hdefault : incr_above (r_uctr r) (new_uids ops os)) by (eapply incr_above_weaken; eauto).
  destruct o as [n|n g|n|n|n|i|n|i]; cbn [new_uids]; try (destruct b; exact Hdefault).
  cbn [ref_step] in Hs. destruct (find_group_name g (r_groups r)).
  2:{ inversion Hs; subst. exact Hdefault. }
  unfold ref_add_user in Hs. destruct (find_user_name n (r_users r)).
  - inversion Hs; subst. exact Hdefault.
  - inversion Hs; subst. cbn [ruser u_name u_uid u_gid r_uctr] in *. split; [lia|exact IH].
Qed.

Theorem no_id_reuse an gn ops :
  let outs := snd (idm_run (idm_init an gn) ops) in
  incr_above minId (new_gids ops outs) /\ incr_above minId (new_uids ops outs).
Proof.
  cbn zeta. destruct (run_refines ops (init_R an gn) (init_RefInv an gn)) as (-> & _ & _).
  split; [apply (ref_new_gids ops (ref_init an gn))|apply (ref_new_uids ops (ref_init an gn))].
Qed.

(* incr_above is what "never reassigned" needs: positions i < j carry ids x_i < x_j *)
Lemma incr_above_NoDup b l : incr_above b l -> NoDup l /\ Forall (fun x => (b < x)%Z) l.
Proof.
  revert b; induction l as [|x l IH]; intros b; cbn; [split; constructor|].
  intros [Hb H]. destruct (IH _ H) as [Hnd Hall]. split.
  - constructor; auto. intros Hin. rewrite Forall_forall in Hall. apply Hall in Hin. lia.
  - constructor; auto. eapply Forall_impl; [|exact Hall]. cbn. intros; lia.
Qed.

(* ------------------------------------------------------------------ *)
(* Administrator.                                                      *)

Theorem admin_present an gn :
  snd (idm_step (idm_init an gn) (LookupUser an)) = RUser an 0 0 true /\
  snd (idm_step (idm_init an gn) (LookupUserId 0)) = RUser an 0 0 true /\
  snd (idm_step (idm_init an gn) (LookupGroup gn)) = RGroup gn 0 /\
  snd (idm_step (idm_init an gn) (LookupGroupId 0)) = RGroup gn 0.
Proof. cbn. rewrite !str_eqb_refl. auto. Qed.

(* In every reachable state, a user the manager can return is an administrator
   exactly when it is the administrator user created at start. *)
Theorem admin_exactly an gn ops n u :
  glk n (usersByName (fst (idm_run (idm_init an gn) ops))) = Some u ->
  (is_admin u = true <-> u = {| u_name := an; u_uid := 0; u_gid := 0 |}).
Proof.
  destruct (run_refines ops (init_R an gn) (init_RefInv an gn)) as (_ & HR & HI).
  pose proof (ref_run_IdsOk ops (init_IdsOk an gn)) as (_ & _ & _ & Hus).
  intros H. rewrite (R_un HR) in H. apply find_user_name_sound in H as [Hin _].
  unfold is_admin. split.
  - intros He. apply Z.eqb_eq in He. destruct (Hus _ Hin) as [(H0 & Hn & Hg)|Hgt].
    + destruct u; cbn in *; subst; reflexivity.
    + unfold minId in Hgt. lia.
  - intros ->. reflexivity.
Qed.

(* ------------------------------------------------------------------ *)
(* Concurrency: every interleaving of critical sections keeps the maps  *)
(* consistent; ids stay unique.                                         *)

Definition Good (an gn : str) (s : idm) : Prop :=
  exists r, R s r /\ RefInv r /\ IdsOk an gn r.

Lemma thread_step_good an gn s t : Good an gn s -> Good an gn (fst (thread_step s t)).
Proof.
  intros (r & HR & HI & HO). unfold thread_step.
  destruct (t_pend t) as [|n gn0 g].
  - destruct (t_todo t) as [|o rest]; [exists r; auto|].
    assert (Hgen : forall o', Good an gn (fst (idm_step s o'))).
    { intros o'. pose proof (step_refines o' HR HI) as Hs.
      pose proof (ref_step_IdsOk o' HO) as HO'.
      destruct (idm_step s o') as [s1 a]. destruct (ref_step r o') as [r1 b].
      destruct Hs as (_ & ? & ?). exists r1. auto. }
    destruct o as [n|n g|n|n|n|i|n|i];
      try (match goal with |- context [idm_step s ?o'] => specialize (Hgen o') end;
           destruct (idm_step s _); exact Hgen).
    destruct (lookup_group s g); cbn; exists r; auto.
  - pose proof (sec2_refines n g HR HI) as Hs.
    pose proof (ref_add_user_IdsOk n g HO) as HO'.
    destruct (add_user_sec2 s n g) as [s1 a]. destruct (ref_add_user r n g) as [r1 b].
    destruct Hs as (_ & ? & ?). exists r1. auto.
Qed.

Lemma cstep_good an gn st i : Good an gn (fst st) -> Good an gn (fst (cstep st i)).
Proof.
  intros H. unfold cstep. destruct (nth_error (snd st) i) as [t|]; auto.
  destruct (blocked (snd st) t); auto.
  pose proof (thread_step_good t H) as H'. destruct (thread_step (fst st) t). exact H'.
Qed.

Theorem crun_good an gn sched : forall st, Good an gn (fst st) -> Good an gn (fst (crun st sched)).
Proof.
  unfold crun. induction sched as [|i sched IH]; intros st H; cbn [fold_left]; auto.
  apply IH. now apply cstep_good.
Qed.

Theorem concurrent_consistent an gn threads sched :
  Consistent (fst (crun (idm_init an gn, threads) sched)).
Proof.
  assert (H : Good an gn (fst (idm_init an gn, threads))).
  { exists (ref_init an gn). cbn [fst]. split; [apply init_R|split; [apply init_RefInv|apply init_IdsOk]]. }
  apply (crun_good sched) in H. destruct H as (r & HR & HI & HO).
  eapply R_Consistent; eauto.
Qed.
