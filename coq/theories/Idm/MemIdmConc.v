(* C15, concurrent half: which lock each critical section of MemIdm.crun takes, the traced run used by
   the tie with the instrumented code, and the one place where MemIdm is NOT linearizable.

   Locks: 0 = grpMu, 1 = usrMu.  Every call is one section under one lock, except AddUser: section 1
   looks the group up under grpMu.RLock (LookupGroup), section 2 re-checks the name and inserts under
   usrMu.Lock.  No lock is held between two sections, so every section is always enabled: a schedule
   element that names a finished thread is a stutter, exactly as in the harness. *)
From Avfs Require Import Base MemIdm MemIdmProofs.
Set Implicit Arguments.

(* the lock (id, write mode) of the next section of a thread *)
Definition sec_lock (t : cthread) : option (nat * bool) :=
  match t_pend t with
  | PAddUser _ _ => Some (1, true)
  | PNone =>
      match t_todo t with
      | [] => None
      | AddGroup _ :: _ | DelGroup _ :: _ => Some (0, true)
      | AddUser _ _ :: _ | LookupGroup _ :: _ | LookupGroupId _ :: _ => Some (0, false)
      | DelUser _ :: _ => Some (1, true)
      | LookupUser _ :: _ | LookupUserId _ :: _ => Some (1, false)
      end
  end.

(* index of the call a thread is executing = number of results it has produced *)
Definition call_idx (t : cthread) : nat := length (t_out t).

(* one traced event: thread, call index, lock, write mode *)
Definition cevent := (nat * nat * nat * bool)%type.

Definition cstep_traced (st : (idm * list cthread) * list cevent) (i : nat) : (idm * list cthread) * list cevent :=
  match nth_error (snd (fst st)) i with
  | None => st
  | Some t =>
      match sec_lock t with
      | None => st
      | Some (l, w) => (cstep (fst st) i, snd st ++ [(i, call_idx t, l, w)])
      end
  end.

Definition crun_traced (st : idm * list cthread) (sched : list nat) : (idm * list cthread) * list cevent :=
  fold_left cstep_traced sched (st, []).

(* a thread without a next section does not move *)
Lemma cstep_finished st i t :
  nth_error (snd st) i = Some t -> sec_lock t = None -> cstep st i = st.
Proof.
  intros Hn Hs. unfold cstep. rewrite Hn. unfold sec_lock in Hs. unfold thread_step.
  destruct (t_pend t); [|discriminate]. destruct (t_todo t) as [|[] ?]; try discriminate.
  cbn. destruct st as [s ths]. cbn in *. f_equal.
  clear Hs. revert i Hn. induction ths as [|a l IH]; intros [|i] Hn; cbn in *; try discriminate.
  - injection Hn as ->. destruct t; reflexivity.
  - f_equal. apply IH. exact Hn.
Qed.

(* the traced run is the run of MemIdm.crun: everything proved about crun (C15_concurrent_consistent)
   applies to what the tie compares with the code *)
Lemma crun_traced_state sched : forall st ev,
  fst (fold_left cstep_traced sched (st, ev)) = crun st sched.
Proof.
  induction sched as [|i s IH]; intros st ev; cbn [fold_left crun]; [reflexivity|].
  unfold crun in *. cbn [fold_left]. unfold cstep_traced at 2. cbn [fst snd].
  destruct (nth_error (snd st) i) as [t|] eqn:En.
  - destruct (sec_lock t) as [[l w]|] eqn:Es.
    + apply IH.
    + rewrite (cstep_finished st i En Es). apply IH.
  - assert (E : cstep st i = st) by (unfold cstep; rewrite En; reflexivity). rewrite E. apply IH.
Qed.

Theorem crun_traced_is_crun st sched : fst (crun_traced st sched) = crun st sched.
Proof. apply crun_traced_state. Qed.

(* ---- results of sequential orders, for the refutation below ------------------------------------------------------- *)
Definition ierr_eqb (a b : ierr) : bool :=
  match a, b with
  | AlreadyExistsGroup x, AlreadyExistsGroup y | AlreadyExistsUser x, AlreadyExistsUser y
  | UnknownGroup x, UnknownGroup y | UnknownUser x, UnknownUser y => str_eqb x y
  | UnknownGroupId x, UnknownGroupId y | UnknownUserId x, UnknownUserId y => Z.eqb x y
  | _, _ => false
  end.

Definition ires_eqb (a b : ires) : bool :=
  match a, b with
  | RGroup n g, RGroup n' g' => str_eqb n n' && Z.eqb g g'
  | RUser n u g a, RUser n' u' g' a' => str_eqb n n' && Z.eqb u u' && Z.eqb g g' && Bool.eqb a a'
  | RNil, RNil => true
  | RErr e, RErr e' => ierr_eqb e e'
  | _, _ => false
  end.

Definition mk_threads (progs : list (list iop)) : list cthread :=
  map (fun p => {| t_todo := p; t_pend := PNone; t_out := [] |}) progs.

(* run thread i until it has produced one more result (AddUser needs two sections) *)
Definition run_one_call' (st : idm * list cthread) (i : nat) : idm * list cthread :=
  match nth_error (snd st) i with
  | Some t =>
      let st1 := cstep st i in
      match nth_error (snd st1) i with
      | Some t1 => if Nat.ltb (length (t_out t)) (length (t_out t1)) then st1 else cstep st1 i
      | None => st1
      end
  | None => st
  end.

Definition outs (st : idm * list cthread) : list (list ires) := map (@t_out) (snd st).

Fixpoint dec_at (l : list nat) (i : nat) : list nat :=
  match l, i with
  | [], _ => []
  | x :: l', O => pred x :: l'
  | x :: l', S i' => x :: dec_at l' i'
  end.

Fixpoint all_orders (fuel : nat) (counts : list nat) : list (list nat) :=
  match fuel with
  | O => [[]]
  | S f =>
      if forallb (Nat.eqb 0) counts then [[]]
      else flat_map (fun i => match nth_error counts i with
                              | Some (S _) => map (cons i) (all_orders f (dec_at counts i))
                              | _ => []
                              end) (seq 0 (length counts))
  end.

(* do the results of [st] (after a concurrent run of [progs] from [s0]) equal those of some sequential order ? *)
Definition idm_lin_ok (s0 : idm) (progs : list (list iop)) (st : idm * list cthread) : bool :=
  let total := fold_right (fun p acc => length p + acc) 0 progs in
  existsb (fun o => list_eqb (list_eqb ires_eqb) (outs (fold_left run_one_call' o (s0, mk_threads progs))) (outs st))
          (all_orders (S total) (map (@length _) progs)).

(* ---- REFUTED: AddUser is not atomic across its two locks ------------------------------------------------------------ *)
Definition w_root : str := [114; 111; 111; 116]%N.
Definition w_g1 : str := [103; 49]%N.
Definition w_u2 : str := [117; 50]%N.

(* after AddGroup g1:  T0 = AddUser u2 g1   T1 = DelGroup g1 ; LookupUser u2
   schedule: T0 finds g1 (grpMu), T1 deletes g1, T1 looks u2 up (unknown), T0 inserts u2 (usrMu).
   AddUser succeeded, so it comes before DelGroup; LookupUser did not see u2, so it comes before
   AddUser; but DelGroup precedes LookupUser in T1: no sequential order gives these three results. *)
Definition w_s0 : idm := fst (idm_run (idm_init w_root w_root) [AddGroup w_g1]).
Definition w_progs : list (list iop) := [[AddUser w_u2 w_g1]; [DelGroup w_g1; LookupUser w_u2]].
Definition w_sched : list nat := [0; 1; 1; 0].

Lemma adduser_delgroup_not_linearizable :
  idm_lin_ok w_s0 w_progs (crun (w_s0, mk_threads w_progs) w_sched) = false.
Proof. vm_compute. reflexivity. Qed.

Lemma adduser_delgroup_outcome :
  outs (crun (w_s0, mk_threads w_progs) w_sched)
  = [[RUser w_u2 1001 1001 false]; [RNil; RErr (UnknownUser w_u2)]].
Proof. vm_compute. reflexivity. Qed.

(* the checker is not trivially false *)
Lemma idm_lin_ok_sequential :
  idm_lin_ok w_s0 w_progs (crun (w_s0, mk_threads w_progs) [0; 0; 1; 1]) = true /\
  idm_lin_ok w_s0 w_progs (crun (w_s0, mk_threads w_progs) [1; 0; 1; 0]) = true.
Proof. vm_compute. split; reflexivity. Qed.
