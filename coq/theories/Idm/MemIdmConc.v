(* C15, concurrent half: which lock each critical section of MemIdm.crun takes, the traced run used by
   the tie with the instrumented code, and LINEARIZABILITY of MemIdm.

   Locks: 0 = grpMu, 1 = usrMu.  Every call is one section under one lock, except AddUser: section 1
   takes grpMu.RLock and looks the group up, section 2 - grpMu still held for reading - re-checks the
   name and inserts under usrMu.Lock.  A section that needs grpMu for writing is blocked while some
   thread is between the two sections of an AddUser (MemIdm.blocked); a schedule element that names a
   blocked or finished thread is a stutter, exactly as in the harness.

   [crun_linearizable]: every call takes effect atomically at its LAST section: the calls, in the order
   in which they complete, run one after the other from the same initial state give the same final
   state and the same results.  (Before the repair of AddUser - group looked up under grpMu, lock
   released, user inserted under usrMu - this was false: a DelGroup of the group and a look-up of the
   user could run in between; that witness is now a regression case of the check.) *)
From Avfs Require Import Base MemIdm MemIdmProofs.
Set Implicit Arguments.

(* the lock (id, write mode) of the next section of a thread *)
Definition sec_lock (t : cthread) : option (nat * bool) :=
  match t_pend t with
  | PAddUser _ _ _ => Some (1, true)
  | PNone =>
      match t_todo t with
      | [] => None
      | AddGroup _ :: _ | DelGroup _ :: _ => Some (0, true)
      | AddUser _ _ :: _ | LookupGroup _ :: _ | LookupGroupId _ :: _ => Some (0, false)
      | DelUser _ :: _ => Some (1, true)
      | LookupUser _ :: _ | LookupUserId _ :: _ => Some (1, false)
      end
  end.

(* index of the call a thread is executing = number of results it has produced *)
Definition call_idx (t : cthread) : nat := length (t_out t).

(* one traced event: thread, call index, lock, write mode *)
Definition cevent := (nat * nat * nat * bool)%type.

Definition cstep_traced (st : (idm * list cthread) * list cevent) (i : nat) : (idm * list cthread) * list cevent :=
  match nth_error (snd (fst st)) i with
  | None => st
  | Some t =>
      if blocked (snd (fst st)) t then st
      else match sec_lock t with
           | None => st
           | Some (l, w) => (cstep (fst st) i, snd st ++ [(i, call_idx t, l, w)])
           end
  end.

Definition crun_traced (st : idm * list cthread) (sched : list nat) : (idm * list cthread) * list cevent :=
  fold_left cstep_traced sched (st, []).

(* a thread without a next section does not move *)
Lemma cstep_finished st i t :
  nth_error (snd st) i = Some t -> sec_lock t = None -> cstep st i = st.
Proof.
  intros Hn Hs. unfold cstep. rewrite Hn. destruct (blocked (snd st) t); [reflexivity|].
  unfold sec_lock in Hs. unfold thread_step.
  destruct (t_pend t); [|discriminate]. destruct (t_todo t) as [|[] ?]; try discriminate.
  cbn. destruct st as [s ths]. cbn in *. f_equal.
  clear Hs. revert i Hn. induction ths as [|a l IH]; intros [|i] Hn; cbn in *; try discriminate.
  - injection Hn as ->. destruct t; reflexivity.
  - f_equal. apply IH. exact Hn.
Qed.

(* the traced run is the run of MemIdm.crun: everything proved about crun (C15_concurrent_consistent)
   applies to what the tie compares with the code *)
Lemma crun_traced_state sched : forall st ev,
  fst (fold_left cstep_traced sched (st, ev)) = crun st sched.
Proof.
  induction sched as [|i s IH]; intros st ev; cbn [fold_left crun]; [reflexivity|].
  unfold crun in *. cbn [fold_left]. unfold cstep_traced at 2. cbn [fst snd].
  destruct (nth_error (snd st) i) as [t|] eqn:En.
  - destruct (blocked (snd st) t) eqn:Eb.
    + assert (E : cstep st i = st) by (unfold cstep; rewrite En, Eb; reflexivity). rewrite E. apply IH.
    + destruct (sec_lock t) as [[l w]|] eqn:Es.
      * apply IH.
      * rewrite (cstep_finished st i En Es). apply IH.
  - assert (E : cstep st i = st) by (unfold cstep; rewrite En; reflexivity). rewrite E. apply IH.
Qed.

Theorem crun_traced_is_crun st sched : fst (crun_traced st sched) = crun st sched.
Proof. apply crun_traced_state. Qed.

(* ---- results of sequential orders, for the refutation below ------------------------------------------------------- *)
Definition ierr_eqb (a b : ierr) : bool :=
  match a, b with
  | AlreadyExistsGroup x, AlreadyExistsGroup y | AlreadyExistsUser x, AlreadyExistsUser y
  | UnknownGroup x, UnknownGroup y | UnknownUser x, UnknownUser y => str_eqb x y
  | UnknownGroupId x, UnknownGroupId y | UnknownUserId x, UnknownUserId y => Z.eqb x y
  | _, _ => false
  end.

Definition ires_eqb (a b : ires) : bool :=
  match a, b with
  | RGroup n g, RGroup n' g' => str_eqb n n' && Z.eqb g g'
  | RUser n u g a, RUser n' u' g' a' => str_eqb n n' && Z.eqb u u' && Z.eqb g g' && Bool.eqb a a'
  | RNil, RNil => true
  | RErr e, RErr e' => ierr_eqb e e'
  | _, _ => false
  end.

Definition mk_threads (progs : list (list iop)) : list cthread :=
  map (fun p => {| t_todo := p; t_pend := PNone; t_out := [] |}) progs.

(* run thread i until it has produced one more result (AddUser needs two sections) *)
Definition run_one_call' (st : idm * list cthread) (i : nat) : idm * list cthread :=
  match nth_error (snd st) i with
  | Some t =>
      let st1 := cstep st i in
      match nth_error (snd st1) i with
      | Some t1 => if Nat.ltb (length (t_out t)) (length (t_out t1)) then st1 else cstep st1 i
      | None => st1
      end
  | None => st
  end.

Definition outs (st : idm * list cthread) : list (list ires) := map (@t_out) (snd st).

Fixpoint dec_at (l : list nat) (i : nat) : list nat :=
  match l, i with
  | [], _ => []
  | x :: l', O => pred x :: l'
  | x :: l', S i' => x :: dec_at l' i'
  end.

Fixpoint all_orders (fuel : nat) (counts : list nat) : list (list nat) :=
  match fuel with
  | O => [[]]
  | S f =>
      if forallb (Nat.eqb 0) counts then [[]]
      else flat_map (fun i => match nth_error counts i with
                              | Some (S _) => map (cons i) (all_orders f (dec_at counts i))
                              | _ => []
                              end) (seq 0 (length counts))
  end.

(* do the results of [st] (after a concurrent run of [progs] from [s0]) equal those of some sequential order ? *)
Definition idm_lin_ok (s0 : idm) (progs : list (list iop)) (st : idm * list cthread) : bool :=
  let total := fold_right (fun p acc => length p + acc) 0 progs in
  existsb (fun o => list_eqb (list_eqb ires_eqb) (outs (fold_left run_one_call' o (s0, mk_threads progs))) (outs st))
          (all_orders (S total) (map (@length _) progs)).

(* ---- the former counter-example ------------------------------------------------------------------------------------------ *)
Definition w_root : str := [114; 111; 111; 116]%N.
Definition w_g1 : str := [103; 49]%N.
Definition w_u2 : str := [117; 50]%N.

(* after AddGroup g1:  T0 = AddUser u2 g1   T1 = DelGroup g1 ; LookupUser u2, schedule 0 1 1 0.  With the old
   AddUser (grpMu released between the look-up and the insertion) T1 ran between the two sections and the
   three results matched no sequential order.  Now DelGroup is blocked until AddUser has finished. *)
Definition w_s0 : idm := fst (idm_run (idm_init w_root w_root) [AddGroup w_g1]).
Definition w_progs : list (list iop) := [[AddUser w_u2 w_g1]; [DelGroup w_g1; LookupUser w_u2]].
Definition w_sched : list nat := [0; 1; 1; 0; 1; 1].

Lemma adduser_delgroup_now_linearizable :
  idm_lin_ok w_s0 w_progs (crun (w_s0, mk_threads w_progs) w_sched) = true /\
  outs (crun (w_s0, mk_threads w_progs) w_sched)
  = [[RUser w_u2 1001 1001 false]; [RNil; RUser w_u2 1001 1001 false]].
Proof. vm_compute. split; reflexivity. Qed.

(* ---- linearizability ----------------------------------------------------------------------------------------------------- *)
(* the log of completed calls: thread, call, result - in the order of completion *)
Definition lentry := (nat * iop * ires)%type.
Definition lth (e : lentry) : nat := fst (fst e).
Definition lop (e : lentry) : iop := snd (fst e).
Definition lres (e : lentry) : ires := snd e.

(* the call that the next section of thread t completes (None: the section is the first one of an AddUser
   whose group exists, or the thread has finished) *)
Definition completing (s : idm) (t : cthread) : option iop :=
  match t_pend t with
  | PAddUser n gn _ => Some (AddUser n gn)
  | PNone =>
      match t_todo t with
      | [] => None
      | AddUser n gn :: _ => match lookup_group s gn with None => Some (AddUser n gn) | Some _ => None end
      | o :: _ => Some o
      end
  end.

Definition cstep_log (st : (idm * list cthread) * list lentry) (i : nat) : (idm * list cthread) * list lentry :=
  match nth_error (snd (fst st)) i with
  | None => st
  | Some t =>
      if blocked (snd (fst st)) t then st
      else
        let (s', t') := thread_step (fst (fst st)) t in
        ((s', upd_nth (snd (fst st)) i t'),
         match completing (fst (fst st)) t with
         | Some o => snd st ++ [(i, o, last (t_out t') RNil)]
         | None => snd st
         end)
  end.

Definition crun_log (st : idm * list cthread) (sched : list nat) : (idm * list cthread) * list lentry :=
  fold_left cstep_log sched (st, []).

Lemma cstep_log_state st i : fst (cstep_log st i) = cstep (fst st) i.
Proof.
  unfold cstep_log, cstep. destruct (nth_error (snd (fst st)) i) as [t|]; [|reflexivity].
  destruct (blocked (snd (fst st)) t); [reflexivity|].
  destruct (thread_step (fst (fst st)) t) as [s' t']. reflexivity.
Qed.

Lemma crun_log_state sched : forall st, fst (fold_left cstep_log sched st) = crun (fst st) sched.
Proof.
  induction sched as [|i s IH]; intros st; cbn [fold_left crun]; [reflexivity|].
  unfold crun in *. cbn [fold_left]. rewrite IH. rewrite cstep_log_state. reflexivity.
Qed.

Lemma idm_run_snoc l : forall s0 o,
  idm_run s0 (l ++ [o]) =
  (fst (idm_step (fst (idm_run s0 l)) o), snd (idm_run s0 l) ++ [snd (idm_step (fst (idm_run s0 l)) o)]).
Proof.
  induction l as [|a l IH]; intros s0 o; cbn [app idm_run].
  - cbn [fst snd app]. destruct (idm_step s0 o) as [s1 r]. reflexivity.
  - destruct (idm_step s0 a) as [s1 r] eqn:Ea. rewrite IH. destruct (idm_run s1 l) as [s2 rs]. cbn [fst snd].
    destruct (idm_step s2 o) as [s3 r3]. reflexivity.
Qed.

Lemma last_snoc {A} (l : list A) (x d : A) : last (l ++ [x]) d = x.
Proof. induction l as [|a l IH]; cbn; [reflexivity|]. rewrite IH. destruct (l ++ [x]) eqn:E; [destruct l; discriminate|reflexivity]. Qed.

Lemma in_upd_nth {A} (l : list A) i (x y : A) : In x (upd_nth l i y) -> x = y \/ In x l.
Proof.
  revert i; induction l as [|a l IH]; intros [|i]; cbn; try tauto.
  - intros [H|H]; auto.
  - intros [H|H]; auto. destruct (IH _ H); auto.
Qed.

Lemma sec2_groups s n g : groupsByName (fst (add_user_sec2 s n g)) = groupsByName s.
Proof. unfold add_user_sec2. destruct (alookup str_eqb n (usersByName s)); reflexivity. Qed.

Lemma step_groups s o :
  match o with AddGroup _ | DelGroup _ => False | _ => True end ->
  groupsByName (fst (idm_step s o)) = groupsByName s.
Proof.
  destruct o; cbn [idm_step]; try tauto; intros _; try reflexivity.
  all: try (destruct (lookup_group s g); [apply sec2_groups|reflexivity]).
  all: try (destruct (alookup str_eqb n (usersByName s)); reflexivity).
Qed.

Definition pends_live (s : idm) (ths : list cthread) : Prop :=
  forall t n gn g, In t ths -> t_pend t = PAddUser n gn g -> lookup_group s gn = Some g.

Definition LInv (s0 : idm) (st : (idm * list cthread) * list lentry) : Prop :=
  idm_run s0 (map lop (snd st)) = (fst (fst st), map lres (snd st)) /\ pends_live (fst (fst st)) (snd (fst st)).

Lemma no_holder ths : existsb holds_grp ths = false -> forall t, In t ths -> t_pend t = PNone.
Proof.
  intros H t Hin. destruct (t_pend t) eqn:E; [reflexivity|].
  assert (existsb holds_grp ths = true); [|congruence].
  apply existsb_exists. exists t. split; [exact Hin|]. unfold holds_grp. rewrite E. reflexivity.
Qed.

Lemma pends_same_groups s s' ths :
  groupsByName s' = groupsByName s -> pends_live s ths -> pends_live s' ths.
Proof. intros E H t n gn g Hin Hp. unfold lookup_group. rewrite E. exact (H t n gn g Hin Hp). Qed.

Lemma pends_upd s ths i t' :
  pends_live s ths -> (forall n gn g, t_pend t' = PAddUser n gn g -> lookup_group s gn = Some g) ->
  pends_live s (upd_nth ths i t').
Proof.
  intros H Ht t n gn g Hin Hp. destruct (in_upd_nth _ _ _ _ Hin) as [->|Hin']; [eapply Ht; eauto|eapply H; eauto].
Qed.

Lemma linv_extend s0 s (log : list lentry) i o s' r :
  idm_run s0 (map lop log) = (s, map lres log) -> idm_step s o = (s', r) ->
  idm_run s0 (map lop (log ++ [(i, o, r)])) = (s', map lres (log ++ [(i, o, r)])).
Proof.
  intros H Hs. rewrite !map_app. cbn [map lop lres fst snd]. rewrite idm_run_snoc. rewrite H. cbn [fst snd].
  rewrite Hs. reflexivity.
Qed.

Lemma cstep_log_linv s0 st i : LInv s0 st -> LInv s0 (cstep_log st i).
Proof.
  intros [Hrun Hp]. unfold cstep_log.
  destruct st as [[s ths] log]. cbn [fst snd] in *.
  destruct (nth_error ths i) as [t|] eqn:En; [|split; assumption].
  destruct (blocked ths t) eqn:Eb; [split; assumption|].
  assert (Hin : In t ths) by (eapply nth_error_In; eauto).
  unfold thread_step, completing.
  destruct (t_pend t) as [|n gn g] eqn:Ep.
  - destruct (t_todo t) as [|o rest] eqn:Et; [split; cbn [fst snd]; [exact Hrun|]|].
    { apply pends_upd; [exact Hp|]. intros n gn g H. rewrite Ep in H. discriminate. }
    assert (Hgen : forall o', o = o' -> match o' with AddUser _ _ => False | _ => True end ->
              LInv s0 (let (s', t') := (let (s'0, r) := idm_step s o' in
                                        (s'0, {| t_todo := rest; t_pend := PNone; t_out := t_out t ++ [r] |})) in
                       ((s', upd_nth ths i t'), log ++ [(i, o', last (t_out t') RNil)]))).
    { intros o' -> Hna. destruct (idm_step s o') as [s' r] eqn:Es. cbn [t_out]. rewrite last_snoc.
      split; cbn [fst snd]; [eapply linv_extend; eauto|].
      apply pends_upd; [|intros ? ? ? H; discriminate].
      destruct o' as [n0|n0 g0|n0|n0|n0|i0|n0|i0]; try tauto;
        try (eapply pends_same_groups; [|exact Hp];
             change s' with (fst (s', r)); rewrite <- Es; apply step_groups; exact I).
      + (* AddGroup: nobody is between the sections of an AddUser *)
        unfold blocked, wants_grp_w in Eb. rewrite Ep, Et in Eb. cbn [andb] in Eb.
        intros t1 n1 gn1 g1 Hin1 Hp1. rewrite (no_holder _ Eb t1 Hin1) in Hp1. discriminate.
      + unfold blocked, wants_grp_w in Eb. rewrite Ep, Et in Eb. cbn [andb] in Eb.
        intros t1 n1 gn1 g1 Hin1 Hp1. rewrite (no_holder _ Eb t1 Hin1) in Hp1. discriminate. }
    destruct o as [n0|n0 g0|n0|n0|n0|i0|n0|i0]; try (apply Hgen; [reflexivity|exact I]).
    (* AddUser, first section *)
    destruct (lookup_group s g0) as [g|] eqn:El.
    + split; cbn [fst snd]; [exact Hrun|]. apply pends_upd; [exact Hp|].
      intros n gn g' H. cbn [t_pend] in H. injection H as _ <- <-. exact El.
    + cbn [t_out]. rewrite last_snoc. split; cbn [fst snd].
      * eapply linv_extend; eauto. cbn [idm_step]. rewrite El. reflexivity.
      * apply pends_upd; [exact Hp|intros ? ? ? H; discriminate].
  - (* AddUser, second section: the group is still there *)
    pose proof (Hp t n gn g Hin Ep) as Hg.
    destruct (add_user_sec2 s n g) as [s' r] eqn:Es. cbn [t_out]. rewrite last_snoc.
    split; cbn [fst snd].
    + eapply linv_extend; eauto. cbn [idm_step]. rewrite Hg. exact Es.
    + apply pends_upd; [|intros ? ? ? H; discriminate].
      eapply pends_same_groups; [|exact Hp]. change s' with (fst (s', r)). rewrite <- Es. apply sec2_groups.
Qed.

(* MAIN: for any number of threads, any programs, any schedule, from any state: the calls, in the order in
   which they completed, executed one after the other from the same state, give the same final state and the
   same results.  (Program order and real-time order are respected by construction: a call completes after
   it starts, and a thread completes its calls in program order.) *)
Theorem crun_linearizable s0 progs sched :
  let st := crun_log (s0, mk_threads progs) sched in
  fst st = crun (s0, mk_threads progs) sched /\
  idm_run s0 (map lop (snd st)) = (fst (fst st), map lres (snd st)).
Proof.
  cbn zeta. split; [apply crun_log_state|].
  assert (H : LInv s0 (crun_log (s0, mk_threads progs) sched)).
  { unfold crun_log.
    assert (H0 : LInv s0 ((s0, mk_threads progs), [])).
    { split; [reflexivity|]. intros t n gn g Hin Hp. unfold mk_threads in Hin. apply in_map_iff in Hin.
      destruct Hin as [p [<- _]]. discriminate. }
    revert H0. generalize ((s0, mk_threads progs), @nil lentry). induction sched as [|i s IH]; intros st H0; cbn [fold_left]; [exact H0|].
    apply IH. apply cstep_log_linv. exact H0. }
  exact (proj1 H).
Qed.
