(* Property C05: the well-formedness invariant of the MemFS node graph.

   The graph is the heap of MemFS.v; an edge is a directory entry.  [Inv_heap]
   is stated in a local form (every clause talks about single edges or single
   nodes) plus acyclicity; "exactly one path to every directory" and the
   termination of every walk are consequences (InvConseq.v).

   This file: definitions, the elementary facts about get/upd/children, the
   association-list facts (aset/aremove), the in-degree counter, reachability
   and the generic preservation principles used by InvMutators.v. *)
From Coq Require Import Permutation.
From Avfs Require Import Base BaseProofs PathModel MemFS MemFile World.
(* no implicit arguments for lemmas: every argument is written or is an underscore *)

(* ---- get / upd ----------------------------------------------------------- *)
Lemma upd_length (h : heap) i n : length (upd h i n) = length h.
Proof.
  revert i; induction h as [|x h IH]; intros [|i]; cbn [upd length]; auto.
Qed.

Lemma get_lt (h : heap) i n : get h i = Some n -> i < length h.
Proof. unfold get. intros H. apply nth_error_Some. congruence. Qed.

Lemma get_none (h : heap) i : length h <= i -> get h i = None.
Proof. unfold get. apply nth_error_None. Qed.

Lemma get_some (h : heap) i : i < length h -> exists n, get h i = Some n.
Proof.
  unfold get. intros H. destruct (nth_error h i) eqn:E; eauto.
  apply nth_error_None in E. lia.
Qed.

Lemma get_upd_same (h : heap) i n : i < length h -> get (upd h i n) i = Some n.
Proof.
  unfold get. revert i; induction h as [|x h IH]; intros [|i] Hi; cbn [upd length nth_error] in *;
    try lia; auto. apply IH. lia.
Qed.

Lemma get_upd_other (h : heap) i j n : i <> j -> get (upd h i n) j = get h j.
Proof.
  unfold get. revert i j; induction h as [|x h IH]; intros [|i] [|j] Hne; cbn [upd nth_error];
    auto; try congruence; try (apply IH; congruence).
Qed.

Lemma upd_beyond (h : heap) i n : length h <= i -> upd h i n = h.
Proof.
  revert i; induction h as [|x h IH]; intros [|i] Hi; cbn [upd length] in *; auto; try lia.
  f_equal. apply IH. lia.
Qed.

Lemma get_upd (h : heap) i j n :
  get (upd h i n) j = if Nat.eqb j i then (if Nat.ltb i (length h) then Some n else None) else get h j.
Proof.
  destruct (Nat.eqb_spec j i) as [->|Hne].
  - destruct (Nat.ltb_spec i (length h)) as [Hlt|Hge].
    + now apply get_upd_same.
    + rewrite upd_beyond by lia. now apply get_none.
  - apply get_upd_other. congruence.
Qed.

Lemma get_app_old (h : heap) x i : i < length h -> get (h ++ [x]) i = get h i.
Proof. unfold get. intros. now apply nth_error_app1. Qed.

Lemma get_app_new (h : heap) x : get (h ++ [x]) (length h) = Some x.
Proof. unfold get. rewrite nth_error_app2, Nat.sub_diag by lia. reflexivity. Qed.

Lemma get_app (h : heap) x i :
  get (h ++ [x]) i = if Nat.ltb i (length h) then get h i else if Nat.eqb i (length h) then Some x else None.
Proof.
  destruct (Nat.ltb_spec i (length h)) as [Hlt|Hge].
  - now apply get_app_old.
  - destruct (Nat.eqb_spec i (length h)) as [->|Hne].
    + apply get_app_new.
    + apply get_none. rewrite app_length. cbn [length]. lia.
Qed.

(* ---- children, kinds ------------------------------------------------------ *)
Definition node_children (n : node) : list (str * nat) :=
  match n with NDir ch _ => ch | _ => [] end.

Definition node_dirb (n : node) : bool := match n with NDir _ _ => true | _ => false end.

Lemma children_get h d : children h d = match get h d with Some n => node_children n | None => [] end.
Proof. unfold children. destruct (get h d) as [[]|]; reflexivity. Qed.

Lemma node_is_dir_get h d : node_is_dir h d = match get h d with Some n => node_dirb n | None => false end.
Proof. unfold node_is_dir. destruct (get h d) as [[]|]; reflexivity. Qed.

Definition is_dir (h : heap) (i : nat) : Prop := node_is_dir h i = true.

Lemma is_dir_get h i : is_dir h i <-> exists ch m, get h i = Some (NDir ch m).
Proof.
  unfold is_dir, node_is_dir. split.
  - destruct (get h i) as [[]|]; try discriminate. eauto.
  - intros (ch & m & ->). reflexivity.
Qed.

Lemma is_dir_lt h i : is_dir h i -> i < length h.
Proof. intros H. apply is_dir_get in H as (ch & m & H). eapply get_lt; eauto. Qed.

Lemma children_nondir h i : node_is_dir h i = false -> children h i = [].
Proof. unfold node_is_dir, children. destruct (get h i) as [[]|]; auto; discriminate. Qed.

Lemma children_upd h i x d :
  children (upd h i x) d =
  if Nat.eqb d i then (if Nat.ltb i (length h) then node_children x else []) else children h d.
Proof.
  rewrite !children_get, get_upd. destruct (Nat.eqb d i); auto. destruct (Nat.ltb i (length h)); auto.
Qed.

Lemma node_is_dir_upd h i x d :
  node_is_dir (upd h i x) d =
  if Nat.eqb d i then (if Nat.ltb i (length h) then node_dirb x else false) else node_is_dir h d.
Proof.
  rewrite !node_is_dir_get, get_upd. destruct (Nat.eqb d i); auto. destruct (Nat.ltb i (length h)); auto.
Qed.

Lemma children_app h x d :
  children (h ++ [x]) d =
  if Nat.ltb d (length h) then children h d else if Nat.eqb d (length h) then node_children x else [].
Proof.
  rewrite !children_get, get_app. destruct (Nat.ltb d (length h)); auto. destruct (Nat.eqb d (length h)); auto.
Qed.

Lemma node_is_dir_app h x d :
  node_is_dir (h ++ [x]) d =
  if Nat.ltb d (length h) then node_is_dir h d else if Nat.eqb d (length h) then node_dirb x else false.
Proof.
  rewrite !node_is_dir_get, get_app. destruct (Nat.ltb d (length h)); auto. destruct (Nat.eqb d (length h)); auto.
Qed.

(* ---- edges ------------------------------------------------------------------ *)
Definition edge (h : heap) (d : nat) (n : str) (c : nat) : Prop := In (n, c) (children h d).

Lemma edge_get h d n c : edge h d n c <-> exists ch m, get h d = Some (NDir ch m) /\ In (n, c) ch.
Proof.
  unfold edge, children. split.
  - destruct (get h d) as [[]|]; cbn [In]; try tauto. eauto.
  - intros (ch & m & -> & H). exact H.
Qed.

Lemma edge_src_dir h d n c : edge h d n c -> is_dir h d.
Proof. intros H. apply edge_get in H as (ch & m & H & _). apply is_dir_get. eauto. Qed.

(* ---- association lists keyed by strings ------------------------------------- *)
Notation alk := (alookup str_eqb).
Notation ast := (aset str_eqb).
Notation arm := (aremove str_eqb).

Section AList.
  Variable V : Type.
  Implicit Types (m : list (str * V)) (k : str).

  Lemma alookup_In k m v : alk k m = Some v -> In (k, v) m.
  Proof.
    induction m as [|[k' v'] m IH]; cbn [alookup]; try discriminate.
    destruct (str_eqb_spec k k') as [->|Hne].
    - intros [= ->]. now left.
    - intros H. right. auto.
  Qed.

  Lemma alookup_None k m : alk k m = None <-> ~ In k (map fst m).
  Proof.
    induction m as [|[k' v'] m IH]; cbn [alookup map In fst].
    - tauto.
    - destruct (str_eqb_spec k k') as [->|Hne].
      + split; [discriminate | tauto].
      + rewrite IH. split; [intros H [E|E]; [congruence | tauto] | tauto].
  Qed.

  Lemma In_alookup k m v : NoDup (map fst m) -> In (k, v) m -> alk k m = Some v.
  Proof.
    induction m as [|[k' v'] m IH]; cbn [alookup map In fst]; [tauto|].
    intros Hnd Hin. inversion Hnd as [|? ? Hni Hnd']; subst.
    destruct Hin as [[= -> ->]|Hin].
    - now rewrite str_eqb_refl.
    - destruct (str_eqb_spec k k') as [->|Hne]; auto.
      exfalso. apply Hni. change k' with (fst (k', v)). now apply in_map.
  Qed.

  Lemma In_aset k v m k' v' : In (k', v') (ast k v m) -> (k' = k /\ v' = v) \/ In (k', v') m.
  Proof.
    induction m as [|[k2 v2] m IH]; cbn [aset In].
    - intros [[= <- <-]|[]]. now left.
    - destruct (str_eqb_spec k k2) as [->|Hne]; cbn [In].
      + intros [[= <- <-]|Hin]; [now left | right; now right].
      + intros [[= <- <-]|Hin]; [right; now left|]. apply IH in Hin. tauto.
  Qed.

  (* with unique keys the result of aset is exact *)
  Lemma In_aset_nodup k v m k' v' :
    NoDup (map fst m) ->
    (In (k', v') (ast k v m) <-> (k' = k /\ v' = v) \/ (k' <> k /\ In (k', v') m)).
  Proof.
    intros Hnd. induction m as [|[k2 v2] m IH]; cbn [aset In].
    - split.
      + intros [[= <- <-]|[]]. now left.
      + intros [[-> ->]|[_ []]]. now left.
    - cbn [map fst] in Hnd. inversion Hnd as [|? ? Hni Hnd']; subst.
      destruct (str_eqb_spec k k2) as [->|Hne]; cbn [In].
      + split.
        * intros [[= <- <-]|Hin]; [now left|].
          right. split; [|now right]. intros ->. apply Hni.
          change k2 with (fst (k2, v')). now apply in_map.
        * intros [[-> ->]|[Hne [[= -> ->]|Hin]]]; [now left | congruence | now right].
      + rewrite (IH Hnd'). split.
        * intros [[= <- <-]|[[-> ->]|[Hne2 Hin]]]; [right; split; [congruence|now left] | now left | right; split; auto].
        * intros [[-> ->]|[Hne2 [[= -> ->]|Hin]]]; [right; now left | now left | right; right; auto].
  Qed.

  Lemma In_aremove k m k' v' : In (k', v') (arm k m) <-> k' <> k /\ In (k', v') m.
  Proof.
    induction m as [|[k2 v2] m IH]; cbn [aremove In]; [tauto|].
    destruct (str_eqb_spec k k2) as [->|Hne]; cbn [In]; rewrite IH.
    - split; [tauto|]. intros [Hne [[= -> ->]|Hin]]; [congruence | tauto].
    - split.
      + intros [[= <- <-]|[? ?]]; [split; [congruence | now left] | tauto].
      + tauto.
  Qed.

  Lemma keys_aset k v m : forall x, In x (map fst (ast k v m)) <-> x = k \/ In x (map fst m).
  Proof.
    induction m as [|[k2 v2] m IH]; intros x; cbn [aset map fst In].
    - intuition.
    - destruct (str_eqb_spec k k2) as [->|Hne]; cbn [map fst In].
      + intuition.
      + rewrite IH. intuition.
  Qed.

  Lemma NoDup_aset k v m : NoDup (map fst m) -> NoDup (map fst (ast k v m)).
  Proof.
    induction m as [|[k2 v2] m IH]; cbn [aset map fst]; intros Hnd.
    - constructor; [intros []|constructor].
    - inversion Hnd as [|? ? Hni Hnd']; subst.
      destruct (str_eqb_spec k k2) as [->|Hne]; cbn [map fst].
      + now constructor.
      + constructor; auto. rewrite keys_aset. intros [E|E]; [congruence | tauto].
  Qed.

  Lemma NoDup_aremove k m : NoDup (map fst m) -> NoDup (map fst (arm k m)).
  Proof.
    induction m as [|[k2 v2] m IH]; cbn [aremove map fst]; intros Hnd; auto.
    inversion Hnd as [|? ? Hni Hnd']; subst.
    destruct (str_eqb_spec k k2) as [->|Hne]; cbn [map fst]; auto.
    constructor; auto. intros Hin. apply in_map_iff in Hin as ([k3 v3] & E & Hin). cbn [fst] in E. subst k3.
    apply In_aremove in Hin as [_ Hin]. apply Hni. change k2 with (fst (k2, v3)). now apply in_map.
  Qed.

  Lemma aremove_absent k m : alk k m = None -> arm k m = m.
  Proof.
    induction m as [|[k2 v2] m IH]; cbn [alookup aremove]; auto.
    destruct (str_eqb_spec k k2) as [->|Hne]; [discriminate|]. intros H. f_equal. auto.
  Qed.
End AList.

(* ---- counting the entries that point to a node -------------------------------- *)
Definition b2n (b : bool) : nat := if b then 1 else 0.

Fixpoint cnt (c : nat) (ch : list (str * nat)) : nat :=
  match ch with
  | [] => 0
  | (_, x) :: ch' => b2n (Nat.eqb x c) + cnt c ch'
  end.

Definition node_cnt (c : nat) (n : node) : nat := cnt c (node_children n).

Fixpoint indeg (h : heap) (c : nat) : nat :=
  match h with
  | [] => 0
  | n :: h' => node_cnt c n + indeg h' c
  end.

Lemma cnt_pos c ch : 0 < cnt c ch <-> exists n, In (n, c) ch.
Proof.
  induction ch as [|[n x] ch IH]; cbn [cnt In].
  - split; [lia | intros (? & [])].
  - destruct (Nat.eqb_spec x c) as [->|Hne]; cbn [b2n].
    + split; [eauto | lia].
    + rewrite Nat.add_0_l, IH. split.
      * intros (n' & H); eauto.
      * intros (n' & [[= _ E]|H]); [congruence | eauto].
  Qed.

Lemma cnt_zero c ch : cnt c ch = 0 <-> forall n, ~ In (n, c) ch.
Proof.
  split.
  - intros H n Hin. assert (0 < cnt c ch) by (apply cnt_pos; eauto). lia.
  - intros H. destruct (cnt c ch) as [|k] eqn:E; auto.
    assert (Hp : 0 < cnt c ch) by lia. apply cnt_pos in Hp as (n0 & Hin). now apply H in Hin.
Qed.

Lemma cnt_aset_absent c k v ch : alk k ch = None -> cnt c (ast k v ch) = cnt c ch + b2n (Nat.eqb v c).
Proof.
  induction ch as [|[k2 v2] ch IH]; cbn [alookup aset cnt]; [lia|].
  destruct (str_eqb_spec k k2) as [->|Hne]; [discriminate|]. cbn [cnt]. intros H. rewrite IH; auto. lia.
Qed.

Lemma cnt_aset_present c k v v0 ch :
  alk k ch = Some v0 -> cnt c (ast k v ch) + b2n (Nat.eqb v0 c) = cnt c ch + b2n (Nat.eqb v c).
Proof.
  induction ch as [|[k2 v2] ch IH]; cbn [alookup aset cnt]; [discriminate|].
  destruct (str_eqb_spec k k2) as [->|Hne]; cbn [cnt].
  - intros [= ->]. lia.
  - intros H. specialize (IH H). lia.
Qed.

Lemma cnt_aremove_present c k v0 ch :
  NoDup (map fst ch) -> alk k ch = Some v0 -> cnt c (arm k ch) + b2n (Nat.eqb v0 c) = cnt c ch.
Proof.
  induction ch as [|[k2 v2] ch IH]; cbn [alookup aremove cnt map fst]; [discriminate|].
  intros Hnd. inversion Hnd as [|? ? Hni Hnd']; subst.
  destruct (str_eqb_spec k k2) as [->|Hne]; cbn [cnt].
  - intros [= ->]. rewrite aremove_absent; [lia|]. now apply alookup_None.
  - intros H. specialize (IH Hnd' H). lia.
Qed.

Lemma indeg_app h x c : indeg (h ++ [x]) c = indeg h c + node_cnt c x.
Proof. induction h as [|n h IH]; cbn [app indeg]; lia. Qed.

Lemma indeg_upd h i x x0 c :
  get h i = Some x0 -> indeg (upd h i x) c + node_cnt c x0 = indeg h c + node_cnt c x.
Proof.
  unfold get. revert i; induction h as [|n h IH]; intros [|i]; cbn [nth_error upd indeg]; try discriminate.
  - intros [= ->]. lia.
  - intros H. specialize (IH _ H). lia.
Qed.

Lemma indeg_upd_same_children h i x x0 c :
  get h i = Some x0 -> node_children x = node_children x0 -> indeg (upd h i x) c = indeg h c.
Proof.
  intros Hg Hc. pose proof (@indeg_upd h i x x0 c Hg) as H. unfold node_cnt in H. rewrite Hc in H. lia.
Qed.

Lemma indeg_pos h c : 0 < indeg h c <-> exists d n, edge h d n c.
Proof.
  unfold edge. induction h as [|x h IH]; cbn [indeg].
  - split; [lia|]. intros (d & n & H). rewrite children_get in H. unfold get in H.
    destruct d; cbn [nth_error] in H; destruct H.
  - split.
    + intros H. destruct (Nat.eq_dec (node_cnt c x) 0) as [E|E].
      * assert (Hp : 0 < indeg h c) by lia. apply IH in Hp as (d & n & Hin).
        exists (S d), n. rewrite children_get in *. exact Hin.
      * assert (Hp : 0 < cnt c (node_children x)) by (unfold node_cnt in E; lia).
        apply cnt_pos in Hp as (n & Hin). exists 0, n. rewrite children_get. exact Hin.
    + intros ([|d] & n & Hin); rewrite children_get in Hin; unfold get in Hin; cbn [nth_error] in Hin.
      * assert (0 < cnt c (node_children x)) by (apply cnt_pos; eauto). unfold node_cnt. lia.
      * assert (0 < indeg h c); [|lia]. apply IH. exists d, n. rewrite children_get. exact Hin.
Qed.

Lemma indeg_zero h c : indeg h c = 0 <-> forall d n, ~ edge h d n c.
Proof.
  split.
  - intros H d n He. assert (0 < indeg h c) by (apply indeg_pos; eauto). lia.
  - intros H. destruct (indeg h c) as [|k] eqn:E; auto.
    assert (Hp : 0 < indeg h c) by lia. apply indeg_pos in Hp as (d & n0 & He). now apply H in He.
Qed.

(* ---- reachability -------------------------------------------------------------- *)
Inductive reach (h : heap) (a : nat) : nat -> Prop :=
| reach_refl : reach h a a
| reach_step d n c : reach h a d -> edge h d n c -> reach h a c.

Definition reachp (h : heap) (a c : nat) : Prop := exists d n, reach h a d /\ edge h d n c.

Definition acyclic (h : heap) : Prop := forall d, ~ reachp h d d.

Lemma reach_trans h a b c : reach h a b -> reach h b c -> reach h a c.
Proof. intros Hab Hbc. induction Hbc; auto. eapply reach_step; eauto. Qed.

Lemma reach_edge h a n b : edge h a n b -> reach h a b.
Proof. intros H. eapply reach_step; [apply reach_refl | exact H]. Qed.

(* head decomposition *)
Lemma reach_head h a c : reach h a c -> a = c \/ exists n b, edge h a n b /\ reach h b c.
Proof.
  induction 1 as [|d n c Hr IH He]; [now left|]. right.
  destruct IH as [->|(n0 & b & He0 & Hr0)].
  - exists n, c. split; [exact He | apply reach_refl].
  - exists n0, b. split; auto. eapply reach_step; eauto.
Qed.

Lemma reach_reachp h a c : reach h a c -> a = c \/ reachp h a c.
Proof. induction 1 as [|d n c Hr IH He]; [now left|]. right. exists d, n. auto. Qed.

Lemma reachp_reach h a c : reachp h a c -> reach h a c.
Proof. intros (d & n & Hr & He). eapply reach_step; eauto. Qed.

Lemma reachp_trans_l h a b c : reach h a b -> reachp h b c -> reachp h a c.
Proof. intros Hab (d & n & Hr & He). exists d, n. split; auto. eapply reach_trans; eauto. Qed.

Lemma reachp_trans_r h a b c : reachp h a b -> reach h b c -> reachp h a c.
Proof.
  intros Hab Hbc. induction Hbc; auto. exists d, n. split; auto. now apply reachp_reach.
Qed.

Lemma reach_leaf h a c : children h a = [] -> reach h a c -> a = c.
Proof.
  intros Hc Hr. apply reach_head in Hr as [E|(n & b & He & _)]; auto.
  unfold edge in He. rewrite Hc in He. destruct He.
Qed.

Lemma reach_mono h h' a c :
  (forall d n x, edge h' d n x -> edge h d n x) -> reach h' a c -> reach h a c.
Proof. intros Hsub Hr. induction Hr; [apply reach_refl|]. eapply reach_step; eauto. Qed.

Lemma acyclic_mono h h' :
  (forall d n x, edge h' d n x -> edge h d n x) -> acyclic h -> acyclic h'.
Proof.
  intros Hsub Hac d (x & n & Hr & He). apply (Hac d). exists x, n. split; auto.
  eapply reach_mono; eauto.
Qed.

(* all new edges go from [p] to [c], and [p] was not below [c] *)
Lemma reach_add_edge_from h h' p c b :
  (forall d n x, edge h' d n x -> edge h d n x \/ (d = p /\ x = c)) ->
  ~ reach h c p -> reach h' c b -> reach h c b.
Proof.
  intros Hsub Hncp Hr. induction Hr as [|d n x Hr IH He]; [apply reach_refl|].
  apply Hsub in He as [He|[-> ->]].
  - eapply reach_step; eauto.
  - contradiction.
Qed.

Lemma reach_add_edge h h' p c a b :
  (forall d n x, edge h' d n x -> edge h d n x \/ (d = p /\ x = c)) ->
  ~ reach h c p -> reach h' a b -> reach h a b \/ (reach h a p /\ reach h c b).
Proof.
  intros Hsub Hncp Hr. induction Hr as [|d n x Hr IH He]; [left; apply reach_refl|].
  apply Hsub in He as [He|[-> ->]].
  - destruct IH as [IH|[IH1 IH2]]; [left | right; split; auto]; eapply reach_step; eauto.
  - destruct IH as [IH|[IH1 IH2]]; right; split; auto; apply reach_refl.
Qed.

Lemma acyclic_add_edge h h' p c :
  (forall d n x, edge h' d n x -> edge h d n x \/ (d = p /\ x = c)) ->
  ~ reach h c p -> acyclic h -> acyclic h'.
Proof.
  intros Hsub Hncp Hac a (d & n & Hr & He).
  apply (reach_add_edge h h' p c a d Hsub Hncp) in Hr.
  apply Hsub in He as [He|[-> ->]].
  - destruct Hr as [Hr|[Hr1 Hr2]].
    + apply (Hac a). exists d, n. auto.
    + apply Hncp. eapply reach_trans; [|exact Hr1]. eapply reach_step; eauto.
  - destruct Hr as [Hr|[Hr1 Hr2]]; auto.
Qed.

(* ---- the invariant ------------------------------------------------------------- *)
Set Implicit Arguments.
Record Inv_heap (h : heap) : Prop := {
  I1_valid : forall d n c, edge h d n c -> c < length h;
  I2_names : forall d, NoDup (map fst (children h d));
  I3_single : forall d1 n1 d2 n2 c, edge h d1 n1 c -> edge h d2 n2 c -> is_dir h c -> d1 = d2 /\ n1 = n2;
  I4_root : is_dir h 0 /\ forall d n, ~ edge h d n 0;
  I5_acyclic : acyclic h;
  I6_nlink : forall f d k i m, get h f = Some (NFile d k i m) -> k = Z.of_nat (indeg h f)
}.

Definition cwd_ok (cwd : str) : Prop := exists r, cwd = SLASH :: r.

Record view_ok (h : heap) (v : view) : Prop := {
  vo_root : is_dir h (v_root v);
  vo_os : v_os v = Linux;
  vo_cwd : cwd_ok (v_cwd v)
}.

Definition handle_ok (h : heap) (f : handle) : Prop :=
  forall c, hd_node f = Some c -> c < length h.

Record Inv (w : world) : Prop := {
  inv_heap : Inv_heap (f_heap (w_fs w));
  inv_vols : f_vols (w_fs w) = [];
  inv_views : Forall (view_ok (f_heap (w_fs w))) (w_views w);
  inv_handles : Forall (handle_ok (f_heap (w_fs w))) (w_handles w)
}.

Unset Implicit Arguments.

(* ---- frames: what a step may do to the kinds ------------------------------------ *)
(* the heap only grows, and an index keeps its kind *)
Definition kinds_kept (h h' : heap) : Prop :=
  length h <= length h' /\ forall i, i < length h -> node_is_dir h' i = node_is_dir h i.

Lemma kinds_kept_refl h : kinds_kept h h.
Proof. split; auto. Qed.

Lemma kinds_kept_trans h1 h2 h3 : kinds_kept h1 h2 -> kinds_kept h2 h3 -> kinds_kept h1 h3.
Proof.
  intros [L1 K1] [L2 K2]. split; [lia|]. intros i Hi. rewrite K2, K1; auto. lia.
Qed.

Lemma kinds_kept_is_dir h h' i : kinds_kept h h' -> is_dir h i -> is_dir h' i.
Proof.
  intros [L K] Hd. unfold is_dir in *. rewrite K; auto. now apply is_dir_lt.
Qed.

Lemma kinds_kept_upd h i x x0 :
  get h i = Some x0 -> node_dirb x = node_dirb x0 -> kinds_kept h (upd h i x).
Proof.
  intros Hg Hk. split; [rewrite upd_length; lia|]. intros j Hj.
  rewrite node_is_dir_upd. destruct (Nat.eqb_spec j i) as [->|]; auto.
  apply get_lt in Hg as Hlt. apply Nat.ltb_lt in Hlt. rewrite Hlt.
  rewrite node_is_dir_get, Hg. exact Hk.
Qed.

Lemma kinds_kept_app h x : kinds_kept h (h ++ [x]).
Proof.
  split; [rewrite app_length; lia|]. intros i Hi. rewrite node_is_dir_app.
  apply Nat.ltb_lt in Hi. now rewrite Hi.
Qed.

Lemma view_ok_kept h h' v : kinds_kept h h' -> view_ok h v -> view_ok h' v.
Proof. intros K [R O C]. split; auto. eapply kinds_kept_is_dir; eauto. Qed.

Lemma handle_ok_kept h h' f : kinds_kept h h' -> handle_ok h f -> handle_ok h' f.
Proof. intros [L _] H c Hc. apply H in Hc. lia. Qed.

Lemma Inv_with_fs w s :
  Inv w -> Inv_heap (f_heap s) -> f_vols s = [] -> kinds_kept (f_heap (w_fs w)) (f_heap s) ->
  Inv (with_fs w s).
Proof.
  intros [IH IV IVs IHs] IH' IV' K. split; cbn [with_fs w_fs w_views w_handles]; auto.
  - eapply Forall_impl; [|exact IVs]. intros v. now apply view_ok_kept.
  - eapply Forall_impl; [|exact IHs]. intros f. now apply handle_ok_kept.
Qed.
