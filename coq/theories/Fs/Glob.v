(* Executable model of avfs' Glob / glob / cleanGlobPath / hasMeta (vfs.go) and
   of the reference, Go 1.23.5 path/filepath/match.go Glob / globWithLimit /
   glob, both over the abstract primitives of Walk.v (Lstat, Stat,
   OpenFile+Readdirnames, Match), POSIX flavour (OSType != OsWindows: the
   cleanGlobPathWindows branch is outside the model).

   Glob's only error is ErrBadPattern; when it is returned the partial list of
   matches that the Go code also returns is not part of the observable. *)
From Avfs Require Import Base PathModel MemFS MemFile Walk.
Set Implicit Arguments.

(* strings.ContainsAny(path, `*?[\`) *)
Definition is_meta (c : N) : bool := N.eqb c STAR || N.eqb c QMARK || N.eqb c LBRACK || N.eqb c BSLASH.
Definition has_meta (path : str) : bool := existsb is_meta path.

(* cleanGlobPath *)
Definition clean_glob_path (path : str) : str :=
  match path with
  | [] => [DOT]
  | [c] => if N.eqb c SLASH then path else []
  | _ => removelast path              (* chop off trailing separator *)
  end.

Inductive gres := GOk (l : list str) | GBad | GOutOfFuel.

Section Glob.
  Variable E : Type.
  Variable P : prims E.

  (* the loop of glob over the sorted names: None = Match reported ErrBadPattern *)
  Fixpoint glob_names (dir pattern : str) (names : list str) (m : list str) : option (list str) :=
    match names with
    | [] => Some m
    | n :: names' =>
        match p_match P pattern n with
        | MrBad => None
        | MrVal true => glob_names dir pattern names' (m ++ [join2 dir n])
        | MrVal false => glob_names dir pattern names' m
        end
    end.

  (* glob(dir, pattern, matches): Stat ; IsDir ; OpenFile ; Readdirnames(-1) ; sort.Strings ; loop.
     I/O errors are ignored: the matches so far are returned. *)
  Definition glob1 (dir pattern : str) (matches : list str) : option (list str) :=
    match p_stat P dir with
    | RsErr _ => Some matches
    | RsOk fi =>
        if negb (si_is_dir fi) then Some matches
        else match p_dir_names P dir with
             | None => Some matches
             | Some names => glob_names dir pattern (sort_by (fun x => x) names) matches
             end
    end.

  (* for _, d := range m { matches, err = glob(d, file, matches); if err != nil { return } } *)
  Fixpoint glob_each (ds : list str) (file : str) (matches : list str) : gres :=
    match ds with
    | [] => GOk matches
    | d :: ds' =>
        match glob1 d file matches with
        | None => GBad
        | Some m' => glob_each ds' file m'
        end
    end.

  (* ---- avfs, vfs.go Glob --------------------------------------------------- *)
  Fixpoint glob_rec (fuel : nat) (pattern : str) : gres :=
    match fuel with
    | O => GOutOfFuel
    | S f =>
        (* Check pattern is well-formed. *)
        match p_match P pattern [] with
        | MrBad => GBad
        | MrVal _ =>
            if negb (has_meta pattern) then
              match p_lstat P pattern with
              | RsErr _ => GOk []
              | RsOk _ => GOk [pattern]
              end
            else
              let '(dir0, file) := split Linux pattern in
              let dir := clean_glob_path dir0 in
              if negb (has_meta dir) then
                match glob1 dir file [] with None => GBad | Some m => GOk m end
              else if str_eqb dir pattern then GBad      (* Prevent infinite recursion. See issue 15879. *)
              else
                match glob_rec f dir with
                | GOk m => glob_each m file []
                | r => r
                end
        end
    end.

  Definition glob (pattern : str) : gres := glob_rec (S (length pattern)) pattern.

  (* ---- reference: match.go Glob = globWithLimit(pattern, 0) ------------------- *)
  (* match.go glob (the same text as avfs' copy; kept separate so that the two sides stay independent)
     the loop of glob over the sorted names: None = Match reported ErrBadPattern *)
  Fixpoint go_glob_names (dir pattern : str) (names : list str) (m : list str) : option (list str) :=
    match names with
    | [] => Some m
    | n :: names' =>
        match p_match P pattern n with
        | MrBad => None
        | MrVal true => go_glob_names dir pattern names' (m ++ [join2 dir n])
        | MrVal false => go_glob_names dir pattern names' m
        end
    end.

  (* glob(dir, pattern, matches): Stat ; IsDir ; OpenFile ; Readdirnames(-1) ; sort.Strings ; loop.
     I/O errors are ignored: the matches so far are returned. *)
  Definition go_glob1 (dir pattern : str) (matches : list str) : option (list str) :=
    match p_stat P dir with
    | RsErr _ => Some matches
    | RsOk fi =>
        if negb (si_is_dir fi) then Some matches
        else match p_dir_names P dir with
             | None => Some matches
             | Some names => go_glob_names dir pattern (sort_by (fun x => x) names) matches
             end
    end.

  (* for _, d := range m { matches, err = glob(d, file, matches); if err != nil { return } } *)
  Fixpoint go_glob_each (ds : list str) (file : str) (matches : list str) : gres :=
    match ds with
    | [] => GOk matches
    | d :: ds' =>
        match go_glob1 d file matches with
        | None => GBad
        | Some m' => go_glob_each ds' file m'
        end
    end.

  Definition pathSeparatorsLimit : N := 10000.

  Fixpoint go_glob_rec (fuel : nat) (pattern : str) (depth : N) : gres :=
    match fuel with
    | O => GOutOfFuel
    | S f =>
        if N.eqb depth pathSeparatorsLimit then GBad
        else
        match p_match P pattern [] with
        | MrBad => GBad
        | MrVal _ =>
            if negb (has_meta pattern) then
              match p_lstat P pattern with
              | RsErr _ => GOk []
              | RsOk _ => GOk [pattern]
              end
            else
              let '(dir0, file) := split Linux pattern in
              let dir := clean_glob_path dir0 in
              if negb (has_meta dir) then
                match go_glob1 dir file [] with None => GBad | Some m => GOk m end
              else if str_eqb dir pattern then GBad
              else
                match go_glob_rec f dir (N.succ depth) with
                | GOk m => go_glob_each m file []
                | r => r
                end
        end
    end.

  Definition go_glob (pattern : str) : gres := go_glob_rec (S (length pattern)) pattern 0.
End Glob.
