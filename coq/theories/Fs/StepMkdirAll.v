(* C01: MkdirAll on a path whose existing part is a directory walk (no symbolic link met) and whose first missing
   component is really missing: MemFS (one walk, then a creation loop along the path cursor) and Go's os.MkdirAll
   (stat; recursion on the parent; mkdir) create exactly the same chain of directories - the same file system, the
   same answer.  The dangling-link classes are the listed finding C01-MKDIRALL-LINK. *)
From Avfs Require Import Base BaseProofs PathModel PathSpec PathProofs PathCleanProofs PathIterProofs.
From Avfs Require Import MemFS MemFile World Posix Inv.
From Avfs Require Import WalkBridge WalkSym WalkBudget WalkReadlink WalkRel StepEq HeapEq.

(* ---- the chain of directories ------------------------------------------------------------------------------------------------ *)
Fixpoint mk_chain (s : fsys) (v : view) (dn : nat) (rest : list str) (perm : N) : fsys * nat :=
  match rest with
  | [] => (s, dn)
  | c :: r => let '(s1, n) := create_dir s v dn c perm in mk_chain s1 v n r perm
  end.

(* ---- the heap after one creation ------------------------------------------------------------------------------------------------ *)
Section Alloc.
  Variables (h : heap) (u : user) (dn : nat) (c : str) (mx : meta) (chd : list (str * nat)) (md : meta).
  Notation x := (NDir [] mx).
  Hypothesis Hdn : get h dn = Some (NDir chd md).
  Hypothesis Hfresh : alookup str_eqb c chd = None.
  Hypothesis Hadm : us_admin u = true.
  Notation h' := (add_child (h ++ [x]) dn c (length h)).

  Lemma alloc_get (i : nat) :
    get h' i = if Nat.eqb i dn then Some (NDir (aset str_eqb c (length h) chd) md)
               else if Nat.ltb i (length h) then get h i else if Nat.eqb i (length h) then Some x else None.
  Proof.
    pose proof (get_lt _ _ _ Hdn) as Hlt. rewrite get_add_child_eq, !get_app.
    apply Nat.ltb_lt in Hlt. rewrite Hlt, Hdn. reflexivity.
  Qed.

  Lemma alloc_children_old (d : nat) (k : str) :
    node_is_dir h d = true -> (d = dn -> k <> c) -> alookup str_eqb k (children h' d) = alookup str_eqb k (children h d).
  Proof.
    intros Hd Hne. unfold children. rewrite alloc_get. destruct (Nat.eqb_spec d dn) as [->|Hd2].
    - rewrite Hdn. apply alookup_aset_other. apply Hne. reflexivity.
    - destruct (node_is_dir_get _ _ Hd) as (ch & m & Hg). pose proof (get_lt _ _ _ Hg) as Hlt.
      apply Nat.ltb_lt in Hlt. rewrite Hlt. reflexivity.
  Qed.

  Lemma alloc_dir_old (d : nat) : node_is_dir h d = true -> node_is_dir h' d = true /\ kperm h' d 1 u = true.
  Proof.
    intros Hd. unfold node_is_dir, kperm. rewrite alloc_get. destruct (Nat.eqb_spec d dn) as [->|Hd2].
    - rewrite Hadm. auto.
    - destruct (node_is_dir_get _ _ Hd) as (ch & m & Hg). pose proof (get_lt _ _ _ Hg) as Hlt.
      apply Nat.ltb_lt in Hlt. rewrite Hlt, Hg, Hadm. auto.
  Qed.

  (* old directory walks persist *)
  Lemma dwalk_alloc : forall (ns : list str) (d e : nat),
    node_is_dir h d = true -> dwalk h u d ns = Some e -> dwalk h' u d ns = Some e.
  Proof.
    induction ns as [|n ns IH]; intros d e Hd Hw; [exact Hw|].
    apply dwalk_cons_inv in Hw as (k & H1 & H2 & H3 & H4). cbn [dwalk].
    rewrite (alloc_children_old d n Hd).
    - rewrite H1. destruct (alloc_dir_old k H2) as (A1 & A2). rewrite A1, A2. apply IH; assumption.
    - intros -> ->. unfold children in H1. rewrite Hdn in H1. congruence.
  Qed.

  (* the new directory: reached by [c] from [dn], empty, searchable *)
  Lemma alloc_new : alookup str_eqb c (children h' dn) = Some (length h) /\ children h' (length h) = []
                    /\ node_is_dir h' (length h) = true /\ kperm h' (length h) 1 u = true.
  Proof.
    pose proof (get_lt _ _ _ Hdn) as Hlt.
    assert (Hne : Nat.eqb (length h) dn = false) by (apply Nat.eqb_neq; lia).
    unfold children, node_is_dir, kperm. rewrite !alloc_get, Nat.eqb_refl, Hne, Nat.ltb_irrefl, Nat.eqb_refl, Hadm.
    split; [apply alookup_aset_same|auto].
  Qed.
End Alloc.

(* ---- bits of a new directory ---------------------------------------------------------------------------------------------------- *)
Lemma new_dir_not_setgid (v : view) (perm : N) :
  v_os v = Linux ->
  is_setgid (m_mode (new_meta v (dir_mode (v_os v)) (N.land perm (511 + MODE_STICKY)))) = false.
Proof.
  intros Hos. rewrite Hos. unfold is_setgid, has, new_meta. cbn [m_mode dir_mode].
  apply Bool.negb_false_iff, N.eqb_eq, N.bits_inj. intros i. rewrite N.land_spec, N.lor_spec, N.ldiff_spec, !N.land_spec, N.bits_0.
  destruct (N.eq_dec i 22) as [->|Hi].
  - change (N.testbit MODE_DIR 22) with false. change (N.testbit (511 + MODE_STICKY) 22) with false.
    rewrite !Bool.andb_false_r. reflexivity.
  - replace (N.testbit MODE_SETGID i) with false; [apply Bool.andb_false_r|].
    change MODE_SETGID with (2 ^ 22)%N. symmetry. apply N.pow2_bits_false. congruence.
Qed.

(* ---- the chain in the heap ------------------------------------------------------------------------------------------------------ *)
Lemma mk_chain_app (s : fsys) (v : view) (dn : nat) (a b : list str) (perm : N) :
  mk_chain s v dn (a ++ b) perm = let '(s1, n1) := mk_chain s v dn a perm in mk_chain s1 v n1 b perm.
Proof.
  revert s dn. induction a as [|c a IH]; intros s dn; [reflexivity|]. cbn [app mk_chain].
  destruct (create_dir s v dn c perm) as [s1 n]. apply IH.
Qed.

Definition dir_at (s : fsys) (v : view) (done : list str) (dn : nat) : Prop :=
  node_is_dir (f_heap s) (v_root v) = true /\ dwalk (f_heap s) (v_user v) (v_root v) done = Some dn.

Lemma dir_at_dir (s : fsys) (v : view) (done : list str) (dn : nat) :
  us_admin (v_user v) = true -> dir_at s v done dn ->
  node_is_dir (f_heap s) dn = true /\ kperm (f_heap s) dn 1 (v_user v) = true
  /\ kperm (f_heap s) (v_root v) 1 (v_user v) = true.
Proof.
  intros Ha (Hr & Hw). destruct (node_is_dir_get _ _ Hr) as (ch & m & Hg).
  pose proof (kperm_admin _ _ _ 1 _ Ha Hg) as Hk.
  destruct (dwalk_end_dir _ _ _ _ _ Hw Hr Hk) as (A & B). auto.
Qed.

Lemma create_dir_at (s : fsys) (v : view) (done : list str) (dn : nat) (c : str) (perm : N) :
  v_os v = Linux -> us_admin (v_user v) = true -> dir_at s v done dn ->
  alookup str_eqb c (children (f_heap s) dn) = None ->
  let s1 := fst (create_dir s v dn c perm) in
  let n := snd (create_dir s v dn c perm) in
  dir_at s1 v (done ++ [c]) n /\ children (f_heap s1) n = []
  /\ is_setgid (m_mode (meta_of (f_heap s1) n)) = false.
Proof.
  intros Hos Ha Hd Hfr. destruct (dir_at_dir _ _ _ _ Ha Hd) as (Hdd & _ & _). destruct Hd as (Hr & Hw).
  destruct (node_is_dir_get _ _ Hdd) as (chd & md & Hg).
  assert (Hfr' : alookup str_eqb c chd = None) by (unfold children in Hfr; rewrite Hg in Hfr; exact Hfr).
  cbn [create_dir fst snd f_heap].
  set (mx := new_meta v (dir_mode (v_os v)) (N.land perm (511 + MODE_STICKY))).
  destruct (alloc_new (f_heap s) (v_user v) dn c mx chd md Hg Ha) as (N1 & N2 & N3 & N4).
  split; [split|split].
  - apply (alloc_dir_old (f_heap s) (v_user v) dn c mx chd md Hg Ha). exact Hr.
  - eapply dwalk_snoc; [|exact N1|exact N3|exact N4].
    apply (dwalk_alloc (f_heap s) (v_user v) dn c mx chd md Hg Hfr' Ha); assumption.
  - exact N2.
  - unfold meta_of. rewrite (alloc_get (f_heap s) dn c mx chd md Hg).
    pose proof (get_lt _ _ _ Hg) as Hlt.
    assert (Hne : Nat.eqb (length (f_heap s)) dn = false) by (apply Nat.eqb_neq; lia).
    rewrite Hne, Nat.ltb_irrefl, Nat.eqb_refl. cbn [node_meta]. apply new_dir_not_setgid. exact Hos.
Qed.

Lemma mk_chain_at (v : view) (perm : N) : v_os v = Linux -> us_admin (v_user v) = true ->
  forall (rest : list str) (s : fsys) (done : list str) (dn : nat),
  dir_at s v done dn ->
  (forall c r, rest = c :: r -> alookup str_eqb c (children (f_heap s) dn) = None) ->
  let s' := fst (mk_chain s v dn rest perm) in
  let n' := snd (mk_chain s v dn rest perm) in
  dir_at s' v (done ++ rest) n'
  /\ (rest <> [] -> children (f_heap s') n' = [] /\ is_setgid (m_mode (meta_of (f_heap s') n')) = false).
Proof.
  intros Hos Ha. induction rest as [|c rest IH]; intros s done dn Hd Hfr.
  - cbn [mk_chain fst snd]. rewrite app_nil_r. split; [exact Hd|congruence].
  - cbn [mk_chain]. destruct (create_dir_at s v done dn c perm Hos Ha Hd (Hfr _ _ eq_refl)) as (A & B & C).
    destruct (create_dir s v dn c perm) as [s1 n] eqn:E. cbn [fst snd] in A, B, C.
    assert (Hfr1 : forall c' r, rest = c' :: r -> alookup str_eqb c' (children (f_heap s1) n) = None)
      by (intros c' r _; rewrite B; reflexivity).
    destruct (IH s1 (done ++ [c]) n A Hfr1) as (I1 & I2). rewrite <- app_assoc in I1. cbn [app] in I1.
    split; [exact I1|]. intros _. destruct rest as [|c2 rest]; [|apply I2; discriminate].
    cbn [mk_chain fst snd]. auto.
Qed.

(* ---- the implementation: the creation loop ---------------------------------------------------------------------------------------- *)
Lemma loop_chain (v : view) (perm : N) : v_os v = Linux -> us_admin (v_user v) = true ->
  forall (todo : list str) (s : fsys) (done : list str) (dn : nat) (c : str) (fuel : nat),
  Forall comp_ok (done ++ c :: todo) -> dir_at s v done dn ->
  alookup str_eqb c (children (f_heap s) dn) = None -> length todo < fuel ->
  mkdir_all_loop fuel s v dn (on_comp (done ++ c :: todo) done c) perm = fst (mk_chain s v dn (c :: todo) perm).
Proof.
  intros Hos Ha. induction todo as [|c2 todo IH]; intros s done dn c fuel Hok Hd Hfr Hf;
    (destruct fuel as [|f]; [cbn [length] in Hf; lia|]).
  - cbn [mkdir_all_loop mk_chain]. destruct (on_comp_views done [] c) as (V1 & _). rewrite V1, Hfr.
    destruct (create_dir s v dn c perm) as [s1 n]. rewrite Hos.
    rewrite (@pi_next_step (done ++ [c]) (done ++ [c]) [] _ Hok (eq_sym (app_nil_r _)) (on_comp_before _ _ _)).
    reflexivity.
  - cbn [mkdir_all_loop mk_chain]. destruct (on_comp_views done (c2 :: todo) c) as (V1 & _). rewrite V1, Hfr.
    destruct (create_dir_at s v done dn c perm Hos Ha Hd Hfr) as (A & B & _).
    destruct (create_dir s v dn c perm) as [s1 n]. cbn [fst snd] in A, B. rewrite Hos.
    assert (Ecs : done ++ c :: c2 :: todo = (done ++ [c]) ++ c2 :: todo) by (rewrite <- app_assoc; reflexivity).
    rewrite (@pi_next_step (done ++ c :: c2 :: todo) (done ++ [c]) (c2 :: todo) _ Hok Ecs (on_comp_before _ _ _)).
    rewrite Ecs. apply IH.
    + rewrite <- Ecs. exact Hok.
    + exact A.
    + rewrite B. reflexivity.
    + cbn [length] in Hf. lia.
Qed.
