(* C01: MkdirAll on a path whose existing part is a directory walk (no symbolic link met) and whose first missing
   component is really missing: MemFS (one walk, then a creation loop along the path cursor) and Go's os.MkdirAll
   (stat; recursion on the parent; mkdir) create exactly the same chain of directories - the same file system, the
   same answer.  The dangling-link classes are the listed finding C01-MKDIRALL-LINK. *)
From Avfs Require Import Base BaseProofs PathModel PathSpec PathProofs PathCleanProofs PathIterProofs.
From Avfs Require Import MemFS MemFile World Posix Inv.
From Avfs Require Import WalkBridge WalkSym WalkBudget WalkReadlink WalkRel StepEq HeapEq.

(* ---- the chain of directories ------------------------------------------------------------------------------------------------ *)
Fixpoint mk_chain (s : fsys) (v : view) (dn : nat) (rest : list str) (perm : N) : fsys * nat :=
  match rest with
  | [] => (s, dn)
  | c :: r => let '(s1, n) := create_dir s v dn c perm in mk_chain s1 v n r perm
  end.

(* ---- the heap after one creation ------------------------------------------------------------------------------------------------ *)
Section Alloc.
  Variables (h : heap) (u : user) (dn : nat) (c : str) (mx : meta) (chd : list (str * nat)) (md : meta).
  Notation x := (NDir [] mx).
  Hypothesis Hdn : get h dn = Some (NDir chd md).
  Hypothesis Hfresh : alookup str_eqb c chd = None.
  Hypothesis Hadm : us_admin u = true.
  Notation h' := (add_child (h ++ [x]) dn c (length h)).

  Lemma alloc_get (i : nat) :
    get h' i = if Nat.eqb i dn then Some (NDir (aset str_eqb c (length h) chd) md)
               else if Nat.ltb i (length h) then get h i else if Nat.eqb i (length h) then Some x else None.
  Proof.
    pose proof (get_lt _ _ _ Hdn) as Hlt. rewrite get_add_child_eq, !get_app.
    apply Nat.ltb_lt in Hlt. rewrite Hlt, Hdn. reflexivity.
  Qed.

  Lemma alloc_children_old (d : nat) (k : str) :
    node_is_dir h d = true -> (d = dn -> k <> c) -> alookup str_eqb k (children h' d) = alookup str_eqb k (children h d).
  Proof.
    intros Hd Hne. unfold children. rewrite alloc_get. destruct (Nat.eqb_spec d dn) as [->|Hd2].
    - rewrite Hdn. apply alookup_aset_other. apply Hne. reflexivity.
    - destruct (node_is_dir_get _ _ Hd) as (ch & m & Hg). pose proof (get_lt _ _ _ Hg) as Hlt.
      apply Nat.ltb_lt in Hlt. rewrite Hlt. reflexivity.
  Qed.

  Lemma alloc_dir_old (d : nat) : node_is_dir h d = true -> node_is_dir h' d = true /\ kperm h' d 1 u = true.
  Proof.
    intros Hd. unfold node_is_dir, kperm. rewrite alloc_get. destruct (Nat.eqb_spec d dn) as [->|Hd2].
    - rewrite Hadm. auto.
    - destruct (node_is_dir_get _ _ Hd) as (ch & m & Hg). pose proof (get_lt _ _ _ Hg) as Hlt.
      apply Nat.ltb_lt in Hlt. rewrite Hlt, Hg, Hadm. auto.
  Qed.

  (* old directory walks persist *)
  Lemma dwalk_alloc : forall (ns : list str) (d e : nat),
    node_is_dir h d = true -> dwalk h u d ns = Some e -> dwalk h' u d ns = Some e.
  Proof.
    induction ns as [|n ns IH]; intros d e Hd Hw; [exact Hw|].
    apply dwalk_cons_inv in Hw as (k & H1 & H2 & H3 & H4). cbn [dwalk].
    rewrite (alloc_children_old d n Hd).
    - rewrite H1. destruct (alloc_dir_old k H2) as (A1 & A2). rewrite A1, A2. apply IH; assumption.
    - intros -> ->. unfold children in H1. rewrite Hdn in H1. congruence.
  Qed.

  (* the new directory: reached by [c] from [dn], empty, searchable *)
  Lemma alloc_new : alookup str_eqb c (children h' dn) = Some (length h) /\ children h' (length h) = []
                    /\ node_is_dir h' (length h) = true /\ kperm h' (length h) 1 u = true.
  Proof.
    pose proof (get_lt _ _ _ Hdn) as Hlt.
    assert (Hne : Nat.eqb (length h) dn = false) by (apply Nat.eqb_neq; lia).
    unfold children, node_is_dir, kperm. rewrite !alloc_get, Nat.eqb_refl, Hne, Nat.ltb_irrefl, Nat.eqb_refl, Hadm.
    split; [apply alookup_aset_same|auto].
  Qed.
End Alloc.

(* ---- the chain in the heap ------------------------------------------------------------------------------------------------------ *)
Lemma mk_chain_app (s : fsys) (v : view) (dn : nat) (a b : list str) (perm : N) :
  mk_chain s v dn (a ++ b) perm = let '(s1, n1) := mk_chain s v dn a perm in mk_chain s1 v n1 b perm.
Proof.
  revert s dn. induction a as [|c a IH]; intros s dn; [reflexivity|]. cbn [app mk_chain].
  destruct (create_dir s v dn c perm) as [s1 n]. apply IH.
Qed.

Definition dir_at (s : fsys) (v : view) (done : list str) (dn : nat) : Prop :=
  node_is_dir (f_heap s) (v_root v) = true /\ dwalk (f_heap s) (v_user v) (v_root v) done = Some dn.

Lemma dir_at_dir (s : fsys) (v : view) (done : list str) (dn : nat) :
  us_admin (v_user v) = true -> dir_at s v done dn ->
  node_is_dir (f_heap s) dn = true /\ kperm (f_heap s) dn 1 (v_user v) = true
  /\ kperm (f_heap s) (v_root v) 1 (v_user v) = true.
Proof.
  intros Ha (Hr & Hw). destruct (node_is_dir_get _ _ Hr) as (ch & m & Hg).
  pose proof (kperm_admin _ _ _ 1 _ Ha Hg) as Hk.
  destruct (dwalk_end_dir _ _ _ _ _ Hw Hr Hk) as (A & B). auto.
Qed.

Lemma create_dir_at (s : fsys) (v : view) (done : list str) (dn : nat) (c : str) (perm : N) :
  v_os v = Linux -> us_admin (v_user v) = true -> dir_at s v done dn ->
  alookup str_eqb c (children (f_heap s) dn) = None ->
  let s1 := fst (create_dir s v dn c perm) in
  let n := snd (create_dir s v dn c perm) in
  dir_at s1 v (done ++ [c]) n /\ children (f_heap s1) n = [].
Proof.
  intros Hos Ha Hd Hfr. destruct (dir_at_dir _ _ _ _ Ha Hd) as (Hdd & _ & _). destruct Hd as (Hr & Hw).
  destruct (node_is_dir_get _ _ Hdd) as (chd & md & Hg).
  assert (Hfr' : alookup str_eqb c chd = None) by (unfold children in Hfr; rewrite Hg in Hfr; exact Hfr).
  cbn [create_dir fst snd f_heap].
  set (mx := new_dir_meta v (meta_of (f_heap s) dn) perm).
  destruct (alloc_new (f_heap s) (v_user v) dn c mx chd md Hg Ha) as (N1 & N2 & N3 & N4).
  split; [split|].
  - apply (alloc_dir_old (f_heap s) (v_user v) dn c mx chd md Hg Ha). exact Hr.
  - eapply dwalk_snoc; [|exact N1|exact N3|exact N4].
    apply (dwalk_alloc (f_heap s) (v_user v) dn c mx chd md Hg Hfr' Ha); assumption.
  - exact N2.
Qed.

Lemma mk_chain_at (v : view) (perm : N) : v_os v = Linux -> us_admin (v_user v) = true ->
  forall (rest : list str) (s : fsys) (done : list str) (dn : nat),
  dir_at s v done dn ->
  (forall c r, rest = c :: r -> alookup str_eqb c (children (f_heap s) dn) = None) ->
  let s' := fst (mk_chain s v dn rest perm) in
  let n' := snd (mk_chain s v dn rest perm) in
  dir_at s' v (done ++ rest) n'
  /\ (rest <> [] -> children (f_heap s') n' = []).
Proof.
  intros Hos Ha. induction rest as [|c rest IH]; intros s done dn Hd Hfr.
  - cbn [mk_chain fst snd]. rewrite app_nil_r. split; [exact Hd|congruence].
  - cbn [mk_chain]. destruct (create_dir_at s v done dn c perm Hos Ha Hd (Hfr _ _ eq_refl)) as (A & B).
    destruct (create_dir s v dn c perm) as [s1 n] eqn:E. cbn [fst snd] in A, B.
    assert (Hfr1 : forall c' r, rest = c' :: r -> alookup str_eqb c' (children (f_heap s1) n) = None)
      by (intros c' r _; rewrite B; reflexivity).
    destruct (IH s1 (done ++ [c]) n A Hfr1) as (I1 & I2). rewrite <- app_assoc in I1. cbn [app] in I1.
    split; [exact I1|]. intros _. destruct rest as [|c2 rest]; [|apply I2; discriminate].
    cbn [mk_chain fst snd]. auto.
Qed.

(* ---- the implementation: the creation loop ---------------------------------------------------------------------------------------- *)
Lemma loop_chain (v : view) (perm : N) : v_os v = Linux -> us_admin (v_user v) = true ->
  forall (todo : list str) (s : fsys) (done : list str) (dn : nat) (c : str) (fuel : nat),
  Forall comp_ok (done ++ c :: todo) -> dir_at s v done dn ->
  alookup str_eqb c (children (f_heap s) dn) = None -> length todo < fuel ->
  mkdir_all_loop fuel s v dn (on_comp (done ++ c :: todo) done c) perm = fst (mk_chain s v dn (c :: todo) perm).
Proof.
  intros Hos Ha. induction todo as [|c2 todo IH]; intros s done dn c fuel Hok Hd Hfr Hf;
    (destruct fuel as [|f]; [cbn [length] in Hf; lia|]).
  - cbn [mkdir_all_loop mk_chain]. destruct (on_comp_views done [] c) as (V1 & _). rewrite V1, Hfr.
    destruct (create_dir s v dn c perm) as [s1 n]. rewrite Hos.
    rewrite (@pi_next_step (done ++ [c]) (done ++ [c]) [] _ Hok (eq_sym (app_nil_r _)) (on_comp_before _ _ _)).
    reflexivity.
  - cbn [mkdir_all_loop mk_chain]. destruct (on_comp_views done (c2 :: todo) c) as (V1 & _). rewrite V1, Hfr.
    destruct (create_dir_at s v done dn c perm Hos Ha Hd Hfr) as (A & B).
    destruct (create_dir s v dn c perm) as [s1 n]. cbn [fst snd] in A, B. rewrite Hos.
    assert (Ecs : done ++ c :: c2 :: todo = (done ++ [c]) ++ c2 :: todo) by (rewrite <- app_assoc; reflexivity).
    rewrite (@pi_next_step (done ++ c :: c2 :: todo) (done ++ [c]) (c2 :: todo) _ Hok Ecs (on_comp_before _ _ _)).
    rewrite Ecs. apply IH.
    + rewrite <- Ecs. exact Hok.
    + exact A.
    + rewrite B. reflexivity.
    + cbn [length] in Hf. lia.
Qed.

Lemma abs_path_len (cs : list str) : Forall comp_ok cs -> length cs <= length (abs_path cs).
Proof.
  intros H. destruct cs as [|c cs]; [cbn; lia|]. rewrite abs_path_rpath by discriminate. apply rpath_length_ge. exact H.
Qed.

(* ---- the implementation: MkdirAll -------------------------------------------------------------------------------------------------- *)
Section Impl.
  Variables (s : fsys) (v : view) (perm : N) (done rest : list str) (par : nat).
  Hypothesis Hos : v_os v = Linux.
  Hypothesis Ha : us_admin (v_user v) = true.
  Hypothesis Hg : Forall good_comp (done ++ rest).
  Hypothesis Hd : dir_at s v done par.
  Hypothesis Hfr : forall c r, rest = c :: r -> alookup str_eqb c (children (f_heap s) par) = None.
  Hypothesis Hfuel : length (done ++ rest) < SEARCH_FUEL.

  Lemma impl_mkdir_all : mkdir_all s v (abs_path (done ++ rest)) perm = (fst (mk_chain s v par rest perm), ROk).
  Proof.
    destruct (dir_at_dir _ _ _ _ Ha Hd) as (Hpd & Hpk & Hrk). destruct Hd as (Hr & Hw).
    assert (Hok : Forall comp_ok (done ++ rest)) by (eapply Forall_impl; [|exact Hg]; apply good_comp_ok).
    unfold mkdir_all. rewrite (search_node_abs_path s v _ SlEval Hos Hg).
    destruct rest as [|c todo].
    - (* everything exists *)
      rewrite app_nil_r in *.
      assert (Ef : SEARCH_FUEL = S (length done + (SEARCH_FUEL - S (length done)))) by lia. rewrite Ef.
      destruct (search_rewalk_full (f_heap s) v Hos done (v_root v) par [] done (SEARCH_FUEL - S (length done)) SlEval
                  (v_root v) (pi_new Linux (abs_path done)) 0 None eq_refl Hok (pi_new_before _) Hw Hrk)
        as (R1 & R2 & _).
      rewrite R2, R1. destruct (node_is_dir_get _ _ Hpd) as (ch & m & Hgp). rewrite Hgp. reflexivity.
    - (* the walk stops at the first missing component *)
      assert (Ef : SEARCH_FUEL = length done + S (SEARCH_FUEL - S (length done)))
        by (rewrite app_length in Hfuel; cbn [length] in Hfuel; lia). rewrite Ef.
      destruct (search_rewalk (f_heap s) v Hos done (v_root v) par [] (c :: todo) (done ++ c :: todo)
                  (S (SEARCH_FUEL - S (length done))) SlEval (v_root v) (pi_new Linux (abs_path (done ++ c :: todo))) 0 None
                  ltac:(discriminate) eq_refl Hok (pi_new_before _) Hw Hrk) as (pi' & Hb & ->).
      cbn [app] in Hb.
      rewrite (search_loop_on (f_heap s) v Hos _ SlEval (v_root v) par pi' 0 None done todo c Hok Hb). cbv zeta.
      rewrite (root_check_pass _ _ _ _ Hpk), (Hfr _ _ eq_refl). cbn [sr_child sr_parent sr_pi out_pi].
      destruct (node_is_dir_get _ _ Hpd) as (ch & m & Hgp).
      assert (Hpo : perm_on (f_heap s) par (N.lor OpenWrite OpenLookup) (v_user v) = true)
        by (unfold perm_on, check_permission; rewrite Hgp, Ha; reflexivity).
      rewrite Hpo. cbn [negb]. f_equal.
      apply (loop_chain v perm Hos Ha todo s done par c _ Hok (conj Hr Hw) (Hfr _ _ eq_refl)).
      cbn [on_comp pi_path]. pose proof (abs_path_len _ Hok) as Hl. rewrite app_length in Hl. cbn [length] in Hl. lia.
  Qed.
End Impl.

(* ---- Go's MkdirAll: the parent prefix ------------------------------------------------------------------------------------------------- *)
Lemma abs_snoc (cs : list str) (c : str) : abs_path (cs ++ [c]) = rpath cs ++ SLASH :: c.
Proof.
  rewrite abs_path_rpath by (destruct cs; discriminate). rewrite rpath_app. cbn [rpath]. rewrite app_nil_r. reflexivity.
Qed.

Lemma strip_seps_keep (l x : str) : l <> [] -> (forall a, In a l -> a <> SLASH) -> strip_trailing_seps (l ++ x) = l ++ x.
Proof.
  intros Hne Hns. destruct l as [|a l]; [congruence|]. cbn [app strip_trailing_seps].
  destruct (N.eqb_spec a SLASH) as [E|_]; [|reflexivity]. exfalso. apply (Hns a); [left; reflexivity|exact E].
Qed.

Lemma strip_elem_to (l y : str) : (forall a, In a l -> a <> SLASH) -> strip_last_elem (l ++ SLASH :: y) = SLASH :: y.
Proof.
  induction l as [|a l IH]; intros Hns.
  - cbn [app strip_last_elem]. rewrite N.eqb_refl. reflexivity.
  - cbn [app strip_last_elem]. destruct (N.eqb_spec a SLASH) as [E|_].
    + exfalso. apply (Hns a); [left; reflexivity|exact E].
    + apply IH. intros b Hb. apply Hns. right. exact Hb.
Qed.

Lemma parent_prefix_snoc (cs : list str) (c : str) :
  comp_ok c -> parent_prefix (abs_path (cs ++ [c])) = match cs with [] => [] | _ => abs_path cs end.
Proof.
  intros (Hne & Hns). unfold parent_prefix. rewrite abs_snoc, rev_app_distr. cbn [rev]. rewrite <- app_assoc. cbn [app].
  assert (Hrn : rev c <> []) by (intros E; apply Hne; rewrite <- (rev_involutive c), E; reflexivity).
  assert (Hrs : forall a, In a (rev c) -> a <> SLASH) by (intros a Hin; apply Hns, in_rev; exact Hin).
  rewrite (strip_seps_keep _ _ Hrn Hrs), (strip_elem_to _ _ Hrs), rev_involutive.
  destruct cs as [|c0 cs]; [reflexivity|]. rewrite abs_path_rpath by discriminate. reflexivity.
Qed.

(* ---- Go's MkdirAll: the system calls ---------------------------------------------------------------------------------------------------- *)
Section Calls.
  Variables (sv : sview) (perm : N).
  Notation v := (sv_view sv).
  Hypothesis Hos : v_os v = Linux.
  Hypothesis Ha : us_admin (v_user v) = true.

  (* stat of a path whose existing part ends in a directory that lacks the next component *)
  Lemma kstat_missing (s : fsys) (done : list str) (par : nat) (c : str) (todo : list str) (follow : bool) :
    Forall good_comp (done ++ c :: todo) -> dir_at s v done par ->
    alookup str_eqb c (children (f_heap s) par) = None -> length done < WALK_FUEL ->
    k_stat follow s sv (abs_path (done ++ c :: todo)) = SErr ENOENT.
  Proof.
    intros Hg Hd Hfr Hf. destruct (dir_at_dir _ _ _ _ Ha Hd) as (Hpd & Hpk & Hrk). destruct Hd as (Hr & Hw).
    unfold k_stat. rewrite (klookup_abs_path s sv false follow _ Hg).
    assert (Ef : WALK_FUEL = length done + S (WALK_FUEL - S (length done))) by lia. rewrite Ef.
    apply Forall_app in Hg as (Hg1 & Hg2).
    rewrite (kwalk_rewalk (f_heap s) v done (v_root v) par (c :: todo) _ (v_root v) false follow 0 _
               ltac:(discriminate) Hg1 Hw Hr Hrk).
    rewrite kwalk_S, Hpd, Hpk. cbn [negb andb].
    destruct (good_comp_kind c (Forall_inv Hg2)) as (K1 & K2). rewrite K1, K2, Hfr.
    destruct (is_nil todo); reflexivity.
  Qed.

  (* stat of an existing directory *)
  Lemma kstat_dir (s : fsys) (done : list str) (par : nat) :
    Forall good_comp done -> dir_at s v done par -> length done < WALK_FUEL ->
    exists i, k_stat true s sv (abs_path done) = SInfo i /\ fi_mode i = m_mode (meta_of (f_heap s) par).
  Proof.
    intros Hg Hd Hf. destruct (dir_at_dir _ _ _ _ Ha Hd) as (Hpd & Hpk & Hrk). destruct Hd as (Hr & Hw).
    destruct (node_is_dir_get _ _ Hpd) as (ch & m & Hgp).
    assert (Hi : forall nm, fi_mode (k_info (f_heap s) par nm) = m_mode (meta_of (f_heap s) par))
      by (intros nm; unfold k_info, meta_of; rewrite Hgp; reflexivity).
    unfold k_stat. rewrite (klookup_abs_path s sv false true _ Hg).
    destruct (rev_case _ done) as [->|(w & cl & ->)].
    - injection Hw as <-. change WALK_FUEL with (S (pred WALK_FUEL)). rewrite kwalk_S. eexists. split; [reflexivity|apply Hi].
    - apply Forall_app in Hg as (Hg1 & Hg2). rewrite app_length in Hf. cbn [length] in Hf.
      destruct (dwalk_snoc_inv _ _ _ _ _ _ Hw) as (p & W1 & W2 & W3 & W4).
      assert (Ef : WALK_FUEL = length w + S (WALK_FUEL - S (length w))) by lia. rewrite Ef.
      rewrite (kwalk_rewalk (f_heap s) v w (v_root v) p [cl] _ (v_root v) false true 0 _
                 ltac:(discriminate) Hg1 W1 Hr Hrk).
      destruct (dwalk_end_dir _ _ _ _ _ W1 Hr Hrk) as (Hpd' & Hpk').
      rewrite kwalk_S, Hpd', Hpk'. cbn [negb andb is_nil].
      destruct (good_comp_kind cl (Forall_inv Hg2)) as (K1 & K2). rewrite K1, K2, W2, Hgp.
      destruct w; (eexists; split; [reflexivity|apply Hi]).
  Qed.

  (* mkdir of one new component below an existing directory *)
  Lemma kmkdir_at (s : fsys) (pre : list str) (n : nat) (c : str) :
    Forall good_comp (pre ++ [c]) -> dir_at s v pre n ->
    alookup str_eqb c (children (f_heap s) n) = None ->
    length pre < WALK_FUEL ->
    k_mkdir s sv (abs_path (pre ++ [c])) perm = (fst (create_dir s v n c perm), SOk).
  Proof.
    intros Hg Hd Hfr Hf. destruct (dir_at_dir _ _ _ _ Ha Hd) as (Hpd & Hpk & Hrk). destruct Hd as (Hr & Hw).
    destruct (node_is_dir_get _ _ Hpd) as (ch & m & Hgp).
    unfold k_mkdir. rewrite (klookup_abs_path s sv true false _ Hg).
    assert (Ef : WALK_FUEL = length pre + S (WALK_FUEL - S (length pre))) by lia. rewrite Ef.
    apply Forall_app in Hg as (Hg1 & Hg2).
    rewrite (kwalk_rewalk (f_heap s) v pre (v_root v) n [c] _ (v_root v) true false 0 _
               ltac:(discriminate) Hg1 Hw Hr Hrk).
    rewrite kwalk_S, Hpd, Hpk. cbn [negb andb is_nil].
    destruct (good_comp_kind c (Forall_inv Hg2)) as (K1 & K2). rewrite K1, K2, Hfr.
    rewrite (kperm_admin _ _ _ 3 _ Ha Hgp). cbn [negb].
    rewrite create_dir_alloc by exact Hos. reflexivity.
  Qed.
End Calls.

Lemma go_mkdir_all_S (f : nat) (s : fsys) (sv : sview) (p : str) (perm : N) :
  go_mkdir_all (S f) s sv p perm =
  match k_stat true s sv p with
  | SInfo i => if has (fi_mode i) MODE_DIR then (s, SOk) else (s, SErr ENOTDIR)
  | _ =>
      let parent := parent_prefix p in
      let '(s1, r1) := match parent with
                       | [] => (s, SOk)
                       | _ => go_mkdir_all f s sv parent perm
                       end in
      match r1 with
      | SOk =>
          match k_mkdir s1 sv p perm with
          | (s2, SOk) => (s2, SOk)
          | (_, r) =>
              match k_stat false s1 sv p with
              | SInfo i => if has (fi_mode i) MODE_DIR then (s1, SOk) else (s1, r)
              | _ => (s1, r)
              end
          end
      | r => (s1, r)
      end
  end.
Proof. reflexivity. Qed.

Lemma list_nil_dec (A : Type) (l : list A) : l = [] \/ l <> [].
Proof. destruct l; [left; reflexivity|right; discriminate]. Qed.

Section Go.
  Variables (s : fsys) (sv : sview) (perm : N) (done : list str) (par : nat).
  Notation v := (sv_view sv).
  Hypothesis Hos : v_os v = Linux.
  Hypothesis Ha : us_admin (v_user v) = true.
  Hypothesis Hd : dir_at s v done par.
  Hypothesis Hbit : has (m_mode (meta_of (f_heap s) par)) MODE_DIR = true.

  Lemma go_chain : forall rest : list str,
    Forall good_comp (done ++ rest) ->
    (forall c r, rest = c :: r -> alookup str_eqb c (children (f_heap s) par) = None) ->
    length (done ++ rest) < WALK_FUEL ->
    forall f, length rest < f ->
    go_mkdir_all f s sv (abs_path (done ++ rest)) perm = (fst (mk_chain s v par rest perm), SOk).
  Proof.
    induction rest as [|last init IH] using rev_ind; intros Hg Hfr Hlen f Hf;
      (destruct f as [|f]; [lia|]); rewrite go_mkdir_all_S.
    - rewrite app_nil_r in *. destruct (kstat_dir sv Ha s done par Hg Hd Hlen) as (i & -> & Hi).
      rewrite Hi, Hbit. reflexivity.
    - rewrite app_length in Hf. cbn [length] in Hf.
      assert (Hlen' : length (done ++ init) < WALK_FUEL) by (rewrite !app_length in *; cbn [length] in Hlen; lia).
      assert (Hg' : Forall good_comp (done ++ init)).
      { rewrite app_assoc in Hg. apply Forall_app in Hg as (Hg & _). exact Hg. }
      assert (Hgl : good_comp last).
      { rewrite app_assoc in Hg. apply Forall_app in Hg as (_ & Hg). exact (Forall_inv Hg). }
      (* the stat fails *)
      assert (Hst : k_stat true s sv (abs_path (done ++ init ++ [last])) = SErr ENOENT).
      { assert (Hdl : length done < WALK_FUEL) by (rewrite app_length in Hlen'; lia).
        destruct init as [|c i']; cbn [app] in *.
        - apply (kstat_missing sv Ha s done par last [] true Hg Hd (Hfr _ _ eq_refl) Hdl).
        - apply (kstat_missing sv Ha s done par c (i' ++ [last]) true Hg Hd (Hfr _ _ eq_refl) Hdl). }
      rewrite Hst. cbv zeta.
      (* the recursion creates the chain up to the parent *)
      assert (Hrec : match parent_prefix (abs_path (done ++ init ++ [last])) with
                     | [] => (s, SOk)
                     | _ => go_mkdir_all f s sv (parent_prefix (abs_path (done ++ init ++ [last]))) perm
                     end = (fst (mk_chain s v par init perm), SOk)).
      { rewrite app_assoc, (parent_prefix_snoc _ _ (good_comp_ok Hgl)).
        destruct (done ++ init) as [|c0 l0] eqn:El.
        - apply app_eq_nil in El as (_ & ->). reflexivity.
        - apply IH.
          + exact Hg'.
          + intros c r E. apply (Hfr c (r ++ [last])). rewrite E. reflexivity.
          + exact Hlen'.
          + lia. }
      rewrite Hrec.
      (* mkdir of the last component *)
      assert (Hfr0 : forall c r, init = c :: r -> alookup str_eqb c (children (f_heap s) par) = None)
        by (intros c r E; apply (Hfr c (r ++ [last])); rewrite E; reflexivity).
      destruct (mk_chain_at v perm Hos Ha init s done par Hd Hfr0) as (A & B).
      rewrite mk_chain_app. destruct (mk_chain s v par init perm) as [s1 n1] eqn:E1. cbn [fst snd] in A, B |- *.
      assert (L1 : alookup str_eqb last (children (f_heap s1) n1) = None).
      { destruct init as [|c i'].
        - cbn [mk_chain] in E1. injection E1 as <- <-. apply (Hfr last []); reflexivity.
        - rewrite (B ltac:(discriminate)). reflexivity. }
      assert (Hg2 : Forall good_comp ((done ++ init) ++ [last])) by (rewrite <- app_assoc; exact Hg).
      rewrite app_assoc.
      rewrite (kmkdir_at sv perm Hos Ha s1 (done ++ init) n1 last Hg2 A L1 Hlen').
      cbn [mk_chain]. destruct (create_dir s1 v n1 last perm) as [s2 n2]. reflexivity.
  Qed.
End Go.

(* ---- the step ----------------------------------------------------------------------------------------------------------------------- *)
Theorem step_mkdir_all (s : fsys) (sv : sview) (perm : N) (done rest : list str) (par : nat) :
  let v := sv_view sv in
  v_os v = Linux -> us_admin (v_user v) = true ->
  Forall good_comp (done ++ rest) ->
  dir_at s v done par ->
  (forall c r, rest = c :: r -> alookup str_eqb c (children (f_heap s) par) = None) ->
  has (m_mode (meta_of (f_heap s) par)) MODE_DIR = true ->
  length (done ++ rest) < SEARCH_FUEL ->
  let p := abs_path (done ++ rest) in
  (fst (mkdir_all s v p perm), proj_res Linux (snd (mkdir_all s v p perm))) = go_mkdir_all (S (length p)) s sv p perm
  /\ go_mkdir_all (S (length p)) s sv p perm = (fst (mk_chain s v par rest perm), SOk).
Proof.
  intros v Hos Ha Hg Hd Hfr Hbit Hlen p.
  assert (Hok : Forall comp_ok (done ++ rest)) by (eapply Forall_impl; [|exact Hg]; apply good_comp_ok).
  assert (Hw : length (done ++ rest) < WALK_FUEL) by (unfold SEARCH_FUEL, WALK_FUEL in *; lia).
  assert (Hf : length rest < S (length p)).
  { pose proof (abs_path_len _ Hok) as Hl. rewrite app_length in Hl. unfold p. lia. }
  pose proof (go_chain s sv perm done par Hos Ha Hd Hbit rest Hg Hfr Hw _ Hf) as G.
  split; [|exact G]. unfold p in *. rewrite G.
  rewrite (impl_mkdir_all s v perm done rest par Hos Ha Hg Hd Hfr Hlen). reflexivity.
Qed.

(* ---- the hypotheses are satisfiable: MkdirAll "/d/e/x/missing/d" on the example tree creates three directories ---------------------------- *)
Module StepMkdirAllExamples.
  Import WalkSymExamples.

  Ltac good_tac :=
    repeat constructor; try discriminate;
    let x := fresh "x" in let Hx := fresh "Hx" in
    intros x Hx; cbn in Hx; repeat (destruct Hx as [Hx|Hx]; [subst x; discriminate|]); destruct Hx.

  Example mkdir_all_instance :
    let p := abs_path ([s_d; s_e] ++ [s_x; s_missing; s_d]) in
    (fst (mkdir_all tree_fs adminv p 493), proj_res Linux (snd (mkdir_all tree_fs adminv p 493)))
    = go_mkdir_all (S (length p)) tree_fs (sv_of adminv) p 493
    /\ go_mkdir_all (S (length p)) tree_fs (sv_of adminv) p 493
       = (fst (mk_chain tree_fs adminv 2 [s_x; s_missing; s_d] 493), SOk).
  Proof.
    apply (step_mkdir_all tree_fs (sv_of adminv) 493 [s_d; s_e] [s_x; s_missing; s_d] 2).
    - reflexivity.
    - reflexivity.
    - good_tac.
    - split; reflexivity.
    - intros c r [= <- <-]. reflexivity.
    - reflexivity.
    - unfold SEARCH_FUEL. cbn [length app]. lia.
  Qed.

  (* and the new directories are there: the walk down the created chain ends in the last new node *)
  Example mkdir_all_created :
    dwalk (f_heap (fst (mkdir_all tree_fs adminv (abs_path [s_d; s_e; s_x; s_missing; s_d]) 493))) root_user 0
          [s_d; s_e; s_x; s_missing; s_d] = Some (length tree + 2).
  Proof. vm_compute. reflexivity. Qed.
End StepMkdirAllExamples.
