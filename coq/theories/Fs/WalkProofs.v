(* Proofs about the generic walk of Walk.v.
   1. walk_dir (the avfs code after the two fixes) = go_walk_dir (Go 1.23.5) for every record of
      primitives, every callback policy, every fuel and every root: same invocations of the callback
      with the same arguments in the same order, same returned error.
   2. the code as pinned deviates: witnesses. *)
From Coq Require Import Sorting.Permutation.
From Avfs Require Import Base PathModel MemFS Walk ReadDirProofs.
Set Implicit Arguments.

Section WalkEq.
  Variables E X : Type.
  Variable P : prims E.
  Variable pi : policy E X.

  Lemma walk_rec_eq : forall fuel path d log,
    walk_rec P pi true fuel path d log = go_walk_rec P pi fuel path d log.
  Proof.
    induction fuel as [|f IH]; intros path d log; [reflexivity|].
    cbn [walk_rec go_walk_rec].
    set (v := {| vi_path := path; vi_ent := Some d; vi_err := None |}).
    assert (Hloop : forall dirs lg,
      (fix loop (l : list dent) (lg : list (visit E)) {struct l} : list (visit E) * wret X :=
         match l with
         | [] => (lg, WrNil X)
         | d1 :: l' =>
             match walk_rec P pi true f (join2 path (de_name d1)) d1 lg with
             | (lg', WrNil _) => loop l' lg'
             | (lg', WrSkipDir _) => (lg', WrNil X)
             | r => r
             end
         end) dirs lg
      =
      (fix loop (l : list dent) (lg : list (visit E)) {struct l} : list (visit E) * wret X :=
         match l with
         | [] => (lg, WrNil X)
         | d1 :: l' =>
             match go_walk_rec P pi f (join2 path (de_name d1)) d1 lg with
             | (lg', WrNil _) => loop l' lg'
             | (lg', WrSkipDir _) => (lg', WrNil X)
             | r => r
             end
         end) dirs lg).
    { induction dirs as [|d1 l' IHl]; intros lg; [reflexivity|].
      rewrite IH. destruct (go_walk_rec P pi f (join2 path (de_name d1)) d1 lg) as [lg' r].
      destruct r; try reflexivity. apply IHl. }
    destruct (pi log v) as [| | |x]; cbn [ret_of]; try reflexivity.
    destruct (de_is_dir d) eqn:Hd; cbn [negb]; [|reflexivity].
    destruct (p_read_dir P path) as [dirs oe].
    destruct oe as [e|].
    - destruct (pi (log ++ [v]) {| vi_path := path; vi_ent := Some d; vi_err := Some e |}) as [| | |x];
        cbn [ret_of andb]; rewrite ?Hd; try reflexivity.
      apply Hloop.
    - apply Hloop.
  Qed.

  Theorem walk_dir_eq : forall fuel root, walk_dir P pi fuel root = go_walk_dir P pi fuel root.
  Proof.
    intros fuel root. unfold walk_dir, walk_dir_gen, go_walk_dir.
    destruct (p_lstat P root) as [e|info].
    - destruct (ret_of (pi [] {| vi_path := root; vi_ent := None; vi_err := Some e |})); reflexivity.
    - rewrite walk_rec_eq. destruct (go_walk_rec P pi fuel root (dent_of_sinfo info) []) as [lg r].
      destruct r; reflexivity.
  Qed.
End WalkEq.

(* ---- the existence helpers answer what Stat and ReadDir of the same path imply ------------------ *)
Section HelpersSpec.
  Variable E : Type.
  Variable P : prims E.

  Theorem helpers_spec (p : str) :
    (* Exists: true exactly when Stat succeeds; an error exactly when Stat fails with something else than "not exist" *)
    exists_ P p = match p_stat P p with
                  | RsOk _ => (true, None)
                  | RsErr e => (false, if p_not_exist P e then None else Some (HPrim e))
                  end
    /\ dir_exists P p = match p_stat P p with
                        | RsOk i => (si_is_dir i, None)
                        | RsErr e => (false, if p_not_exist P e then None else Some (HPrim e))
                        end
    /\ is_dir P p = match p_stat P p with
                    | RsOk i => (si_is_dir i, None)
                    | RsErr e => (false, Some (HPrim e))
                    end
    /\ is_empty P p = match p_stat P p with
                      | RsErr _ => (false, Some (HNoPath E))
                      | RsOk i =>
                          if si_is_dir i
                          then match p_read_dir P p with
                               | (l, None) => (Nat.eqb (length l) 0, None)
                               | (_, Some e) => (false, Some (HPrim e))
                               end
                          else (Z.eqb (si_size i) 0, None)
                      end.
  Proof.
    unfold exists_, dir_exists, is_dir, is_empty, exists_.
    destruct (p_stat P p) as [e|i].
    - destruct (p_not_exist P e); repeat split; reflexivity.
    - cbn [fst negb]. destruct (si_is_dir i); repeat split; try reflexivity.
      destruct (p_read_dir P p) as [l [e|]]; [reflexivity|]. destruct l; reflexivity.
  Qed.
End HelpersSpec.

(* ---- the code as pinned deviates from Go's algorithm: two witnesses on a three-entry listing ------- *)
Section Refuted.
  (* "/" holds a directory "a" whose listing fails and a file "b" *)
  Definition wit_prims : prims nat :=
    {| p_lstat := fun p => RsOk {| si_name := p; si_mode := MODE_DIR; si_size := 0 |};
       p_stat := fun p => RsOk {| si_name := p; si_mode := MODE_DIR; si_size := 0 |};
       p_read_dir := fun p => if str_eqb p [47%N]
                              then ([ {| de_name := [97%N]; de_mode := MODE_DIR |}; {| de_name := [98%N]; de_mode := 0 |} ], None)
                              else ([], Some 13);
       p_dir_names := fun _ => None;
       p_match := fun _ _ => MrVal false;
       p_not_exist := fun _ => false |}.

  (* fs.SkipAll at the first invocation: Go returns nil, the pinned code returns SkipAll as an error *)
  Lemma pinned_skipall_refuted :
    let pi : policy nat unit := fun _ _ => ASkipAll unit in
    snd (walk_dir_pinned wit_prims pi 5 [47%N]) = WrSkipAll unit
    /\ snd (go_walk_dir wit_prims pi 5 [47%N]) = WrNil unit.
  Proof. vm_compute. split; reflexivity. Qed.

  (* fs.SkipDir answered to the ReadDir error of "/a": Go goes on with "/b", the pinned code leaves "/" *)
  Lemma pinned_skipdir_refuted :
    let pi : policy nat unit := fun _ x => match vi_err x with Some _ => ASkipDir unit | None => AContinue unit end in
    length (fst (walk_dir_pinned wit_prims pi 5 [47%N])) = 3
    /\ length (fst (go_walk_dir wit_prims pi 5 [47%N])) = 4.
  Proof. vm_compute. split; reflexivity. Qed.
End Refuted.

(* ---- the walk only looks at Lstat(root) and at ReadDir: primitives that agree give the same walk ---- *)
Section WalkTransfer.
  Variables E X : Type.
  Variables P Q : prims E.
  Variable pi : policy E X.
  Hypothesis Hlstat : forall p, p_lstat P p = p_lstat Q p.
  Hypothesis Hreaddir : forall p, p_read_dir P p = p_read_dir Q p.

  Lemma go_walk_rec_ext : forall fuel path d log, go_walk_rec P pi fuel path d log = go_walk_rec Q pi fuel path d log.
  Proof.
    induction fuel as [|f IH]; intros path d log; [reflexivity|]. cbn [go_walk_rec]. rewrite Hreaddir.
    destruct (ret_of (pi log {| vi_path := path; vi_ent := Some d; vi_err := None |})); try reflexivity.
    destruct (negb (de_is_dir d)); [reflexivity|].
    destruct (p_read_dir Q path) as [dirs oe].
    match goal with |- (let '(l2, r2) := ?t in _) = _ => destruct t as [log2 r2] end.
    destruct r2; try reflexivity.
    generalize log2. induction dirs as [|d1 l' IHl]; intros lg; [reflexivity|].
    rewrite IH. destruct (go_walk_rec Q pi f (join2 path (de_name d1)) d1 lg) as [lg' r]. destruct r; try reflexivity. apply IHl.
  Qed.

  Theorem walk_transfer fuel root : walk_dir P pi fuel root = go_walk_dir Q pi fuel root.
  Proof.
    rewrite walk_dir_eq. unfold go_walk_dir. rewrite Hlstat. destruct (p_lstat Q root); [reflexivity|].
    rewrite go_walk_rec_ext. reflexivity.
  Qed.
End WalkTransfer.

(* ---- the walk does not depend on the order in which the files of the base list a directory ---------- *)
Theorem walk_any_order (E X : Type) (P : prims E) (raw raw' : str -> list dent * option E) (pi : policy E X) :
  (forall p, Permutation (fst (raw p)) (fst (raw' p)) /\ snd (raw p) = snd (raw' p) /\ NoDup (map (@de_name) (fst (raw p)))) ->
  forall fuel root,
  walk_dir (with_file_listing P raw) pi fuel root = go_walk_dir (with_file_listing P raw') pi fuel root.
Proof.
  intros H fuel root. apply walk_transfer; [reflexivity|].
  intros p. cbn [with_file_listing p_read_dir]. destruct (H p) as (Hp & He & Hn). apply vfs_read_dir_any_order; assumption.
Qed.
