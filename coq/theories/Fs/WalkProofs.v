(* Proofs about the generic walk of Walk.v.
   1. walk_dir (the avfs code after the two fixes) = go_walk_dir (Go 1.23.5) for every record of
      primitives, every callback policy, every fuel and every root: same invocations of the callback
      with the same arguments in the same order, same returned error.
   2. the code as pinned deviates: witnesses. *)
From Avfs Require Import Base PathModel MemFS Walk.
Set Implicit Arguments.

Section WalkEq.
  Variables E X : Type.
  Variable P : prims E.
  Variable pi : policy E X.

  Lemma walk_rec_eq : forall fuel path d log,
    walk_rec P pi true fuel path d log = go_walk_rec P pi fuel path d log.
  Proof.
    induction fuel as [|f IH]; intros path d log; [reflexivity|].
    cbn [walk_rec go_walk_rec].
    set (v := {| vi_path := path; vi_ent := Some d; vi_err := None |}).
    assert (Hloop : forall dirs lg,
      (fix loop (l : list dent) (lg : list (visit E)) {struct l} : list (visit E) * wret X :=
         match l with
         | [] => (lg, WrNil X)
         | d1 :: l' =>
             match walk_rec P pi true f (join2 path (de_name d1)) d1 lg with
             | (lg', WrNil _) => loop l' lg'
             | (lg', WrSkipDir _) => (lg', WrNil X)
             | r => r
             end
         end) dirs lg
      =
      (fix loop (l : list dent) (lg : list (visit E)) {struct l} : list (visit E) * wret X :=
         match l with
         | [] => (lg, WrNil X)
         | d1 :: l' =>
             match go_walk_rec P pi f (join2 path (de_name d1)) d1 lg with
             | (lg', WrNil _) => loop l' lg'
             | (lg', WrSkipDir _) => (lg', WrNil X)
             | r => r
             end
         end) dirs lg).
    { induction dirs as [|d1 l' IHl]; intros lg; [reflexivity|].
      rewrite IH. destruct (go_walk_rec P pi f (join2 path (de_name d1)) d1 lg) as [lg' r].
      destruct r; try reflexivity. apply IHl. }
    destruct (pi log v) as [| | |x]; cbn [ret_of]; try reflexivity.
    destruct (de_is_dir d) eqn:Hd; cbn [negb]; [|reflexivity].
    destruct (p_read_dir P path) as [dirs oe].
    destruct oe as [e|].
    - destruct (pi (log ++ [v]) {| vi_path := path; vi_ent := Some d; vi_err := Some e |}) as [| | |x];
        cbn [ret_of andb]; rewrite ?Hd; try reflexivity.
      apply Hloop.
    - apply Hloop.
  Qed.

  Theorem walk_dir_eq : forall fuel root, walk_dir P pi fuel root = go_walk_dir P pi fuel root.
  Proof.
    intros fuel root. unfold walk_dir, walk_dir_gen, go_walk_dir.
    destruct (p_lstat P root) as [e|info].
    - destruct (ret_of (pi [] {| vi_path := root; vi_ent := None; vi_err := Some e |})); reflexivity.
    - rewrite walk_rec_eq. destruct (go_walk_rec P pi fuel root (dent_of_sinfo info) []) as [lg r].
      destruct r; reflexivity.
  Qed.
End WalkEq.
