(* C11, lifted to the step function of the world: a call through view [vj] on
   "/p1/.../pn" and the same call through view [vi] on "/d1/.../dk/p1/.../pn"
   leave the same shared file system and return corresponding results. *)
From Avfs Require Import Base PathModel PathSpec PathProofs PathCleanProofs PathIterProofs MemFS MemFile World SubIsolated SubProofs SubCalls.

(* the namespace calls that take one path *)
Inductive pcall :=
| PMkdir (perm : N) | PMkdirAll (perm : N) | POpenFile (flag perm : N) | PRemove | PRemoveAll
| PSymlink (target : str) | PReadlink | PTruncate (size : Z) | PChmod (mode : N) | PChown (uid gid : Z)
| PLchown (uid gid : Z) | PChtimes | PChdir | PStat | PLstat | PEvalSymlinks | PReadDir | PReadFile
| PWriteFile (data : list N) (perm : N) | PSub.

Definition mk1 (k : pcall) (vi : nat) (p : str) : call :=
  match k with
  | PMkdir perm => CMkdir vi p perm
  | PMkdirAll perm => CMkdirAll vi p perm
  | POpenFile flag perm => COpenFile vi p flag perm
  | PRemove => CRemove vi p
  | PRemoveAll => CRemoveAll vi p
  | PSymlink target => CSymlink vi target p
  | PReadlink => CReadlink vi p
  | PTruncate size => CTruncate vi p size
  | PChmod mode => CChmod vi p mode
  | PChown uid gid => CChown vi p uid gid
  | PLchown uid gid => CLchown vi p uid gid
  | PChtimes => CChtimes vi p
  | PChdir => CChdir vi p
  | PStat => CStat vi p
  | PLstat => CLstat vi p
  | PEvalSymlinks => CEvalSymlinks vi p
  | PReadDir => CReadDir vi p
  | PReadFile => CReadFile vi p
  | PWriteFile data perm => CWriteFile vi p data perm
  | PSub => CSub vi p
  end.

(* ... and the two that take two *)
Inductive pcall2 := PRename | PLink.
Definition mk2 (k : pcall2) (vi : nat) (o n : str) : call :=
  match k with PRename => CRename vi o n | PLink => CLink vi o n end.

Section World.
  Variable w : world.
  Variables vi vj : nat.
  Variables vp vv : view.
  Variable ds : list str.
  Hypothesis Hvi : nth_error (w_views w) vi = Some vp.
  Hypothesis Hvj : nth_error (w_views w) vj = Some vv.
  Hypothesis Hag : view_agree vp vv.
  Hypothesis Hds : Forall good_comp ds.
  Hypothesis Hchain : dir_chain (f_heap (w_fs w)) (v_user vp) (v_root vp) ds (v_root vv).
  Hypothesis Hroot : perm_on (f_heap (w_fs w)) (v_root vp) OpenLookup (v_user vp) = true.

  Notation ok := (okpath (w_fs w) vv ds).

  Theorem wstep_prefix1 (k : pcall) (ps : list str) : ok ps ->
    let a := wstep w (mk1 k vi (abs_path (ds ++ ps))) in
    let b := wstep w (mk1 k vj (abs_path ps)) in
    w_fs (fst a) = w_fs (fst b) /\ res_corr ds (snd a) (snd b).
  Proof.
    intros H. cbv zeta.
    destruct k; cbn [mk1 wstep]; unfold on_view, lift; rewrite Hvi, Hvj; cbn [fst snd w_fs with_fs].
    - rewrite (mkdir_prefix _ _ _ _ Hag Hds Hchain Hroot ps perm H). split; [reflexivity|apply rc_eq].
    - destruct (mkdir_all_prefix _ _ _ _ Hag Hds Hchain Hroot ps perm H) as (E1 & E2). split; assumption.
    - destruct (open_file_prefix _ _ _ _ Hag Hds Hchain Hroot ps vi vj flag perm H) as (Hf & Hs).
      destruct (open_file (w_fs w) vp vi (abs_path (ds ++ ps)) flag perm) as [s1 [r1|f1]];
        destruct (open_file (w_fs w) vv vj (abs_path ps) flag perm) as [s2 [r2|f2]]; cbn [fst snd] in Hf, Hs;
        inversion Hs; subst; cbn [fst snd w_fs with_fs]; (split; [reflexivity|apply rc_eq]).
    - rewrite (remove_prefix _ _ _ _ Hag Hds Hchain Hroot ps H). split; [reflexivity|apply rc_eq].
    - rewrite (remove_all_prefix _ _ _ _ Hag Hds Hchain Hroot ps H). split; [reflexivity|apply rc_eq].
    - rewrite (symlink_prefix _ _ _ _ Hag Hds Hchain Hroot target ps H). split; [reflexivity|apply rc_eq].
    - rewrite (readlink_prefix _ _ _ _ Hag Hds Hchain Hroot ps H). split; [reflexivity|apply rc_eq].
    - rewrite (truncate_prefix _ _ _ _ Hag Hds Hchain Hroot ps size H). split; [reflexivity|apply rc_eq].
    - rewrite (chmod_prefix _ _ _ _ Hag Hds Hchain Hroot ps mode H). split; [reflexivity|apply rc_eq].
    - rewrite (chown_prefix _ _ _ _ Hag Hds Hchain Hroot SlEval ps uid gid H). split; [reflexivity|apply rc_eq].
    - rewrite (chown_prefix _ _ _ _ Hag Hds Hchain Hroot SlLstat ps uid gid H). split; [reflexivity|apply rc_eq].
    - rewrite (chtimes_prefix _ _ _ _ Hag Hds Hchain Hroot ps H). split; [reflexivity|apply rc_eq].
    - pose proof (chdir_prefix _ _ _ _ Hag Hds Hchain Hroot ps H) as Hc.
      inversion Hc; cbn [fst snd w_fs with_view]; (split; [reflexivity|apply rc_eq]).
    - rewrite (stat_prefix _ _ _ _ Hag Hds Hchain Hroot SlStat ps H). split; [reflexivity|apply rc_eq].
    - rewrite (stat_prefix _ _ _ _ Hag Hds Hchain Hroot SlLstat ps H). split; [reflexivity|apply rc_eq].
    - split; [reflexivity|apply (eval_symlinks_prefix _ _ _ _ Hag Hds Hchain Hroot ps H)].
    - rewrite (read_dir_prefix _ _ _ _ Hag Hds Hchain Hroot ps H). split; [reflexivity|apply rc_eq].
    - rewrite (read_file_prefix _ _ _ _ Hag Hds Hchain Hroot ps H). split; [reflexivity|apply rc_eq].
    - rewrite (write_file_prefix _ _ _ _ Hag Hds Hchain Hroot ps data perm H). split; [reflexivity|apply rc_eq].
    - pose proof (sub_prefix _ _ _ _ Hag Hds Hchain Hroot ps H) as Hc.
      inversion Hc; cbn [fst snd w_fs]; (split; [reflexivity|apply rc_eq]).
  Qed.

  Theorem wstep_prefix2 (k : pcall2) (po pn : list str) : ok po -> ok pn ->
    let a := wstep w (mk2 k vi (abs_path (ds ++ po)) (abs_path (ds ++ pn))) in
    let b := wstep w (mk2 k vj (abs_path po) (abs_path pn)) in
    w_fs (fst a) = w_fs (fst b) /\ snd a = snd b.
  Proof.
    intros Ho Hn. cbv zeta.
    destruct k; cbn [mk2 wstep]; unfold on_view, lift; rewrite Hvi, Hvj; cbn [fst snd w_fs with_fs].
    - rewrite (rename_prefix _ _ _ _ Hag Hds Hchain Hroot po pn Ho Hn). split; reflexivity.
    - rewrite (link_prefix _ _ _ _ Hag Hds Hchain Hroot po pn Ho Hn). split; reflexivity.
  Qed.

  (* Chdir through the view records the path as the view sees it; through the parent, the prefixed one;
     the other view's current directory stays what it was (SubIsolated.step_view_frame) *)
  Theorem wstep_chdir_cwd (ps : list str) : ok ps ->
    snd (wstep w (CChdir vj (abs_path ps))) = ROk ->
    snd (wstep w (CChdir vi (abs_path (ds ++ ps)))) = ROk
    /\ (exists v', nth_error (w_views (fst (wstep w (CChdir vj (abs_path ps))))) vj = Some v' /\ v_cwd v' = abs_path ps)
    /\ (exists v', nth_error (w_views (fst (wstep w (CChdir vi (abs_path (ds ++ ps)))))) vi = Some v'
                   /\ v_cwd v' = abs_path (ds ++ ps)).
  Proof.
    intros H. cbn [wstep]. unfold on_view. rewrite Hvi, Hvj.
    pose proof (chdir_prefix _ _ _ _ Hag Hds Hchain Hroot ps H) as Hc.
    destruct (chdir (w_fs w) vv (abs_path ps)) as [rv|dv] eqn:Ev;
      destruct (chdir (w_fs w) vp (abs_path (ds ++ ps))) as [rp|dp] eqn:Ep; inversion Hc; subst; cbn [fst snd].
    - intros E. exfalso. subst rv. clear - Ev. unfold chdir in Ev.
      repeat match type of Ev with context [match ?x with _ => _ end] => destruct x end; discriminate.
    - intros _. match goal with HH : _ /\ _ |- _ => destruct HH as (-> & ->) end.
      split; [reflexivity|]. cbn [with_view w_views].
      split; eexists; (split; [eapply SubIsolated.nth_set_nth_same; eassumption|reflexivity]).
  Qed.
End World.
