(* Property C03, histories on the states of C05: [Inv] (the heap invariant, kept by every step: Inv_step) and
   [links_ok] (kept by the specification's calls: StepInv.v) give the hypotheses [dac_hyps] of the step theorem at
   EVERY state of a run - no per-state premise is left; the acting user is arbitrary. *)
From Avfs Require Import Base BaseProofs PathModel PathSpec PathProofs PathCleanProofs PathIterProofs.
From Avfs Require Import MemFS MemFile World Posix Inv InvMutators InvWorld InvCheck WalkBridge WalkSym WalkBudget WalkReadlink
                         WalkRel StepEq WalkInv StepInv DacProofs DacSteps.

Theorem Inv_dac_hyps (w : world) (vi : nat) (v : view) (cwdn : nat) :
  Inv w -> nth_error (w_views w) vi = Some v -> links_clean (f_heap (w_fs w)) ->
  dac_hyps (w_fs w) {| sv_view := v; sv_cwd := cwdn |}.
Proof.
  intros I Hv Hlc. pose proof (@inv_views _ I) as Hvs. rewrite Forall_forall in Hvs.
  specialize (Hvs v (nth_error_In _ _ Hv)). destruct Hvs as [Hr Ho _].
  split; cbn [sv_view]; [exact Ho|apply Inv_heap_walk_wf; exact (@inv_heap _ I)|exact Hlc|exact Hr].
Qed.

(* one step of the specification on a covered call keeps [links_ok] and the view (any user, either setting of
   fs.protected_hardlinks) *)
Theorem links_ok_spec_step_dac (phl : bool) (vi : nat) (sw : sworld) (c : call) :
  dcovered phl vi sw c -> ptr_valid (f_heap (sw_fs sw)) -> links_ok (f_heap (sw_fs sw)) ->
  links_ok (f_heap (sw_fs (fst (spec_step phl sw c)))) /\ sw_sv (fst (spec_step phl sw c)) = sw_sv sw.
Proof.
  intros (_ & Hc) Hpv Hok. destruct c; try (destruct Hc; fail); cbn [dcovered] in Hc.
  - change (spec_step phl sw (CMkdir vi0 p perm))
      with ({| sw_fs := fst (k_mkdir (sw_fs sw) (sw_sv sw) p perm); sw_sv := sw_sv sw |}, snd (k_mkdir (sw_fs sw) (sw_sv sw) p perm)).
    cbn [fst sw_fs sw_sv]. split; [apply links_ok_k_mkdir; assumption|reflexivity].
  - unfold spec_step. pose proof (links_ok_k_open (sw_fs sw) (sw_sv sw) Hpv Hok p flag perm) as H1.
    destruct (k_open (sw_fs sw) (sw_sv sw) p flag perm) as [s1 [e|c]]; cbn [fst sw_fs sw_sv] in *; split; auto.
  - change (spec_step phl sw (CRemove vi0 p))
      with ({| sw_fs := fst (go_remove (sw_fs sw) (sw_sv sw) p); sw_sv := sw_sv sw |}, snd (go_remove (sw_fs sw) (sw_sv sw) p)).
    cbn [fst sw_fs sw_sv]. split; [apply links_ok_go_remove; assumption|reflexivity].
  - change (spec_step phl sw (CRename vi0 o n))
      with ({| sw_fs := fst (go_rename (sw_fs sw) (sw_sv sw) o n); sw_sv := sw_sv sw |}, snd (go_rename (sw_fs sw) (sw_sv sw) o n)).
    cbn [fst sw_fs sw_sv]. split; [apply links_ok_go_rename; assumption|reflexivity].
  - change (spec_step phl sw (CLink vi0 o n))
      with ({| sw_fs := fst (k_link phl (sw_fs sw) (sw_sv sw) o n); sw_sv := sw_sv sw |}, snd (k_link phl (sw_fs sw) (sw_sv sw) o n)).
    cbn [fst sw_fs sw_sv]. split; [|reflexivity].
    destruct Hc as (_ & co & ww & cl & -> & _ & _ & _ & Hns & _). apply links_ok_k_link; assumption.
  - change (spec_step phl sw (CSymlink vi0 o n))
      with ({| sw_fs := fst (k_symlink (sw_fs sw) (sw_sv sw) o n); sw_sv := sw_sv sw |}, snd (k_symlink (sw_fs sw) (sw_sv sw) o n)).
    cbn [fst sw_fs sw_sv]. split; [|reflexivity].
    destruct Hc as (_ & -> & _). apply links_ok_k_symlink; assumption.
  - split; [assumption|reflexivity].
  - change (spec_step phl sw (CTruncate vi0 p size))
      with ({| sw_fs := fst (k_truncate (sw_fs sw) (sw_sv sw) p size); sw_sv := sw_sv sw |}, snd (k_truncate (sw_fs sw) (sw_sv sw) p size)).
    cbn [fst sw_fs sw_sv]. split; [apply links_ok_k_truncate; assumption|reflexivity].
  - change (spec_step phl sw (CChmod vi0 p mode))
      with ({| sw_fs := fst (k_chmod (sw_fs sw) (sw_sv sw) p mode); sw_sv := sw_sv sw |}, snd (k_chmod (sw_fs sw) (sw_sv sw) p mode)).
    cbn [fst sw_fs sw_sv]. split; [apply links_ok_k_chmod; assumption|reflexivity].
  - change (spec_step phl sw (CChown vi0 p uid gid))
      with ({| sw_fs := fst (k_chown true (sw_fs sw) (sw_sv sw) p uid gid); sw_sv := sw_sv sw |}, snd (k_chown true (sw_fs sw) (sw_sv sw) p uid gid)).
    cbn [fst sw_fs sw_sv]. split; [apply links_ok_k_chown; assumption|reflexivity].
  - change (spec_step phl sw (CLchown vi0 p uid gid))
      with ({| sw_fs := fst (k_chown false (sw_fs sw) (sw_sv sw) p uid gid); sw_sv := sw_sv sw |}, snd (k_chown false (sw_fs sw) (sw_sv sw) p uid gid)).
    cbn [fst sw_fs sw_sv]. split; [apply links_ok_k_chown; assumption|reflexivity].
  - split; [assumption|reflexivity].
  - rewrite DacGetwd.spec_getwd. split; [assumption|reflexivity].
  - split; [assumption|reflexivity].
  - split; [assumption|reflexivity].
Qed.

(* the per-call premises (deviation classes, fuel conditions) may use the hypotheses on the state, which the theorem
   below derives from [Inv] and [links_ok] *)
Definition dcall_ok (phl : bool) (vi : nat) (sw : sworld) (c : call) : Prop :=
  dac_hyps (sw_fs sw) (sw_sv sw) -> sym_single (f_heap (sw_fs sw)) -> ptr_valid (f_heap (sw_fs sw)) -> dcovered phl vi sw c.

Fixpoint dcall_ok_run (phl : bool) (vi : nat) (sw : sworld) (cs : list call) : Prop :=
  match cs with
  | [] => True
  | c :: cs' => dcall_ok phl vi sw c /\ dcall_ok_run phl vi (fst (spec_step phl sw c)) cs'
  end.

Theorem dhistory_inv (phl : bool) (vi : nat) : forall (cs : list call) (w : world) (sw : sworld),
  Inv w -> absw w vi sw -> links_ok (f_heap (w_fs w)) -> dcall_ok_run phl vi sw cs ->
  Forall2 obs_sim (snd (impl_run w cs)) (snd (spec_run_phl phl sw cs))
  /\ absw (fst (impl_run w cs)) vi (fst (spec_run_phl phl sw cs))
  /\ Inv (fst (impl_run w cs)) /\ links_ok (f_heap (w_fs (fst (impl_run w cs)))).
Proof.
  induction cs as [|c cs IH]; intros w sw I Ha Hok Hrun.
  - cbn [impl_run spec_run_phl fst snd]. split; [constructor|]. auto.
  - destruct Hrun as (Hc & Hrun). pose proof Ha as (Hfs & Hv).
    assert (Hpv : ptr_valid (f_heap (sw_fs sw))) by (rewrite Hfs; apply Inv_heap_ptr_valid; exact (@inv_heap _ I)).
    assert (Hok' : links_ok (f_heap (sw_fs sw))) by (rewrite Hfs; exact Hok).
    assert (Hsh : dac_hyps (sw_fs sw) (sw_sv sw)).
    { rewrite Hfs. destruct (sw_sv sw) as [v cwdn] eqn:Esv. cbn [sv_view] in *.
      apply (Inv_dac_hyps w vi v cwdn I Hv). rewrite <- Hfs. exact (proj1 Hok'). }
    pose proof (Hc Hsh (proj2 Hok') Hpv) as Hcov.
    destruct (dstep_world phl w vi sw c Ha Hcov) as (S1 & S2).
    destruct (links_ok_spec_step_dac phl vi sw c Hcov Hpv Hok') as (L1 & L2).
    assert (I' : Inv (fst (impl_step_proj w c))) by (rewrite impl_step_fst; apply Inv_step; exact I).
    assert (Hok2 : links_ok (f_heap (w_fs (fst (impl_step_proj w c))))) by (rewrite <- (proj1 S2); exact L1).
    destruct (IH _ _ I' S2 Hok2 Hrun) as (R1 & R2 & R3 & R4).
    cbn [impl_run spec_run_phl fst snd]. split; [constructor; assumption|]. auto.
Qed.

Lemma dcovered_run_call_ok (phl : bool) (vi : nat) : forall (cs : list call) (sw : sworld),
  dcovered_run phl vi sw cs -> dcall_ok_run phl vi sw cs.
Proof.
  induction cs as [|c cs IH]; intros sw H; [exact I|]. destruct H as (H1 & H2).
  split; [intros _ _ _; exact H1|apply IH; exact H2].
Qed.
