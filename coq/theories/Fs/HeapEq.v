(* Heaps up to the ORDER of directory entries (C01, Rename over an existing destination): the implementation
   replaces an entry in place, the specification removes it and appends the new one - the children lists are equal
   up to a permutation, everything else is equal.  [heq] is that equivalence; with unique names ([I2_names] of C05) a
   lookup does not see the difference ([heq_alookup]). *)
From Coq Require Import Permutation.
From Avfs Require Import Base BaseProofs PathModel MemFS MemFile World Posix Inv.

Definition node_eq (a b : node) : Prop :=
  match a, b with
  | NDir ch m, NDir ch' m' => Permutation ch ch' /\ m = m'
  | _, _ => a = b
  end.

Definition onode_eq (a b : option node) : Prop :=
  match a, b with
  | Some x, Some y => node_eq x y
  | None, None => True
  | _, _ => False
  end.

Definition heq (h h' : heap) : Prop := forall i, onode_eq (get h i) (get h' i).

Definition fsys_heq (s s' : fsys) : Prop :=
  heq (f_heap s) (f_heap s') /\ f_last_id s = f_last_id s' /\ f_vols s = f_vols s'.

Lemma node_eq_refl (a : node) : node_eq a a.
Proof. destruct a; cbn; auto. Qed.

Lemma heq_refl (h : heap) : heq h h.
Proof. intros i. unfold onode_eq. destruct (get h i); [apply node_eq_refl|exact I]. Qed.

Lemma node_eq_sym (a b : node) : node_eq a b -> node_eq b a.
Proof. destruct a, b; cbn; try congruence. intros (H1 & H2). split; [apply Permutation_sym; exact H1|congruence]. Qed.

Lemma heq_sym (h h' : heap) : heq h h' -> heq h' h.
Proof.
  intros H i. specialize (H i). unfold onode_eq in *. destruct (get h i), (get h' i); auto. apply node_eq_sym; exact H.
Qed.

Lemma node_eq_trans (a b c : node) : node_eq a b -> node_eq b c -> node_eq a c.
Proof.
  destruct a, b, c; cbn; try congruence; try (intros [] ; fail); try (intros _ []; fail).
  intros (H1 & H2) (H3 & H4). split; [eapply Permutation_trans; eassumption|congruence].
Qed.

Lemma heq_trans (h1 h2 h3 : heap) : heq h1 h2 -> heq h2 h3 -> heq h1 h3.
Proof.
  intros A B i. specialize (A i). specialize (B i). unfold onode_eq in *.
  destruct (get h1 i), (get h2 i), (get h3 i); auto; try contradiction. eapply node_eq_trans; eassumption.
Qed.

(* with unique names a lookup does not depend on the order *)
Lemma perm_alookup (V : Type) (m m' : list (str * V)) (k : str) :
  Permutation m m' -> NoDup (map fst m) -> alookup str_eqb k m = alookup str_eqb k m'.
Proof.
  intros P Hnd. assert (Hnd' : NoDup (map fst m')) by (eapply Permutation_NoDup; [apply Permutation_map; exact P|exact Hnd]).
  destruct (alookup str_eqb k m) as [x|] eqn:E.
  - symmetry. apply In_alookup; [exact Hnd'|]. eapply Permutation_in; [exact P|]. apply alookup_In. exact E.
  - destruct (alookup str_eqb k m') as [y|] eqn:E'; [|reflexivity]. exfalso.
    apply alookup_In in E'. apply Permutation_sym in P. pose proof (Permutation_in _ P E') as Hin.
    apply (proj1 (alookup_None _ k m) E). change k with (fst (k, y)). apply in_map. exact Hin.
Qed.

Lemma heq_children_perm (h h' : heap) (d : nat) : heq h h' -> Permutation (children h d) (children h' d).
Proof.
  intros H. specialize (H d). unfold children, onode_eq in *.
  destruct (get h d) as [[ch m| |]|], (get h' d) as [[ch' m'| |]|]; cbn in H; try contradiction; try discriminate H;
    try apply Permutation_refl. exact (proj1 H).
Qed.

Lemma heq_alookup (h h' : heap) (d : nat) (k : str) :
  heq h h' -> NoDup (map fst (children h d)) ->
  alookup str_eqb k (children h d) = alookup str_eqb k (children h' d).
Proof. intros H Hnd. apply perm_alookup; [apply heq_children_perm; exact H|exact Hnd]. Qed.

(* replacing in place = removing and appending, up to the order *)
Lemma aset_perm (V : Type) (k : str) (x : V) (m : list (str * V)) :
  NoDup (map fst m) -> Permutation (aset str_eqb k x m) (aremove str_eqb k m ++ [(k, x)]).
Proof.
  induction m as [|[k' v'] m IH]; intros Hnd; cbn [aset aremove app]; [apply Permutation_refl|].
  inversion Hnd as [|? ? Hni Hnd']; subst.
  destruct (str_eqb_spec k k') as [<-|Hne].
  - rewrite aremove_absent by (apply alookup_None; exact Hni).
    change ((k, x) :: m) with ([(k, x)] ++ m). apply Permutation_app_comm.
  - cbn [app]. apply perm_skip. apply IH. exact Hnd'.
Qed.

(* the nodes of the heaps built by the primitive mutators *)
Lemma get_remove_child_eq (h : heap) (p : nat) (n : str) (i : nat) :
  get (remove_child h p n) i
  = if Nat.eqb i p then match get h p with Some (NDir ch m) => Some (NDir (aremove str_eqb n ch) m) | x => x end
    else get h i.
Proof.
  unfold remove_child. destruct (get h p) as [[ch m| |]|] eqn:E; try (destruct (Nat.eqb_spec i p) as [->|]; congruence).
  rewrite get_upd. destruct (Nat.eqb_spec i p) as [->|]; [|reflexivity].
  pose proof (get_lt _ _ _ E) as Hlt. apply Nat.ltb_lt in Hlt. rewrite Hlt. reflexivity.
Qed.

Lemma get_add_child_eq (h : heap) (p : nat) (n : str) (c i : nat) :
  get (add_child h p n c) i
  = if Nat.eqb i p then match get h p with Some (NDir ch m) => Some (NDir (aset str_eqb n c ch) m) | x => x end
    else get h i.
Proof.
  unfold add_child. destruct (get h p) as [[ch m| |]|] eqn:E; try (destruct (Nat.eqb_spec i p) as [->|]; congruence).
  rewrite get_upd. destruct (Nat.eqb_spec i p) as [->|]; [|reflexivity].
  pose proof (get_lt _ _ _ E) as Hlt. apply Nat.ltb_lt in Hlt. rewrite Hlt. reflexivity.
Qed.

Definition deleted (n : node) : node :=
  match n with
  | NDir _ m => NDir [] m
  | NFile d k i m => NFile d (k - 1)%Z i m
  | NSym _ m => NSym [] m
  end.

Lemma get_delete_node_eq (h : heap) (c i : nat) :
  get (delete_node h c) i = if Nat.eqb i c then option_map deleted (get h c) else get h i.
Proof.
  unfold delete_node. destruct (get h c) as [[ch m|dt k id m|l m]|] eqn:E;
    try (rewrite get_upd; destruct (Nat.eqb_spec i c) as [->|]; [|reflexivity];
         pose proof (get_lt _ _ _ E) as Hlt; apply Nat.ltb_lt in Hlt; rewrite Hlt; reflexivity).
  destruct (Nat.eqb_spec i c) as [->|]; [rewrite E|]; reflexivity.
Qed.

Lemma aremove_perm (V : Type) (k : str) (m m' : list (str * V)) :
  Permutation m m' -> Permutation (aremove str_eqb k m) (aremove str_eqb k m').
Proof.
  induction 1 as [|[k1 v1] l l' _ IH|[k1 v1] [k2 v2] l|l1 l2 l3 _ IH1 _ IH2]; cbn [aremove].
  - constructor.
  - destruct (str_eqb k k1); [exact IH|apply perm_skip; exact IH].
  - destruct (str_eqb k k2), (str_eqb k k1); try apply Permutation_refl. apply perm_swap.
  - eapply Permutation_trans; eassumption.
Qed.

Lemma aset_absent (V : Type) (k : str) (x : V) (m : list (str * V)) :
  alookup str_eqb k m = None -> aset str_eqb k x m = m ++ [(k, x)].
Proof.
  induction m as [|[k' v'] m IH]; cbn [alookup aset app]; [reflexivity|].
  destruct (str_eqb k k'); [discriminate|]. intros H. rewrite IH by exact H. reflexivity.
Qed.

Lemma aremove_app (V : Type) (k : str) (a b : list (str * V)) :
  aremove str_eqb k (a ++ b) = aremove str_eqb k a ++ aremove str_eqb k b.
Proof.
  induction a as [|[k' v'] a IH]; cbn [app aremove]; [reflexivity|]. destruct (str_eqb k k'); rewrite IH; reflexivity.
Qed.

Lemma alookup_aremove_same (V : Type) (k : str) (m : list (str * V)) : alookup str_eqb k (aremove str_eqb k m) = None.
Proof.
  induction m as [|[k' v'] m IH]; cbn [aremove alookup]; [reflexivity|].
  destruct (str_eqb k k') eqn:E; [exact IH|]. cbn [alookup]. rewrite E. exact IH.
Qed.

Lemma alookup_aremove_other (V : Type) (k k2 : str) (m : list (str * V)) :
  k2 <> k -> alookup str_eqb k2 (aremove str_eqb k m) = alookup str_eqb k2 m.
Proof.
  intros Hne. induction m as [|[k' v'] m IH]; cbn [aremove alookup]; [reflexivity|].
  destruct (str_eqb_spec k k') as [<-|Hk]; cbn [alookup].
  - apply str_eqb_neq in Hne. rewrite Hne. exact IH.
  - rewrite IH. reflexivity.
Qed.

(* the two heaps of a rename over an existing destination *)
Lemma rename_over_heq (h : heap) (op np oc nc : nat) (clo cln : str) cho mo chn mn :
  get h op = Some (NDir cho mo) -> get h np = Some (NDir chn mn) -> NoDup (map fst chn) ->
  nc <> op -> nc <> np -> (op = np -> cln <> clo) ->
  heq (remove_child (add_child (delete_node h nc) np cln oc) op clo)
      (add_child (remove_child (delete_node (remove_child h np cln) nc) op clo) np cln oc).
Proof.
  intros Ho Hn Hnd Hco Hcn Hne i. unfold onode_eq.
  repeat (progress (rewrite ?get_remove_child_eq, ?get_add_child_eq, ?get_delete_node_eq)).
  destruct (Nat.eqb_spec op np) as [E|E].
  - subst np. rewrite Ho in Hn. injection Hn as <- <-. specialize (Hne eq_refl).
    rewrite !Nat.eqb_refl. replace (Nat.eqb op nc) with false by (symmetry; apply Nat.eqb_neq; congruence).
    rewrite Ho. destruct (Nat.eqb_spec i op) as [->|Hi].
    + cbn [node_eq]. split; [|reflexivity].
      rewrite (aset_absent _ cln oc (aremove str_eqb clo (aremove str_eqb cln cho)))
        by (rewrite alookup_aremove_other by exact Hne; apply alookup_aremove_same).
      eapply Permutation_trans; [apply aremove_perm, aset_perm; exact Hnd|].
      rewrite aremove_app. cbn [aremove]. apply str_eqb_neq in Hne.
      replace (str_eqb clo cln) with false by (symmetry; apply str_eqb_neq; intros ->; apply str_eqb_neq in Hne; congruence).
      apply Permutation_refl.
    + destruct (Nat.eqb_spec i nc) as [->|Hinc]; rewrite ?(proj2 (Nat.eqb_neq nc op) Hco);
        [destruct (get h nc) as [x|]; cbn; [apply node_eq_refl|exact I]|destruct (get h i) as [x|]; [apply node_eq_refl|exact I]].
  - replace (Nat.eqb op np) with false by (symmetry; apply Nat.eqb_neq; exact E).
    replace (Nat.eqb np op) with false by (symmetry; apply Nat.eqb_neq; congruence).
    replace (Nat.eqb op nc) with false by (symmetry; apply Nat.eqb_neq; congruence).
    replace (Nat.eqb np nc) with false by (symmetry; apply Nat.eqb_neq; congruence).
    rewrite Ho, Hn. destruct (Nat.eqb_spec i op) as [->|Hio].
    + replace (Nat.eqb op np) with false by (symmetry; apply Nat.eqb_neq; exact E). apply node_eq_refl.
    + destruct (Nat.eqb_spec i np) as [->|Hin].
      * rewrite Nat.eqb_refl. cbn [node_eq]. split; [|reflexivity].
        rewrite (aset_absent _ cln oc (aremove str_eqb cln chn)) by apply alookup_aremove_same.
        apply aset_perm. exact Hnd.
      * destruct (Nat.eqb_spec i nc) as [->|Hinc]; rewrite ?(proj2 (Nat.eqb_neq nc op) Hco), ?(proj2 (Nat.eqb_neq nc np) Hcn);
          [destruct (get h nc) as [x|]; cbn; [apply node_eq_refl|exact I]|destruct (get h i) as [x|]; [apply node_eq_refl|exact I]].
Qed.
