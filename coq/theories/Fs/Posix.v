(* SPECIFICATION side of C01/C03/C04: an executable model of what Linux does -
   the kernel's component-wise path walk (physical "..", 40 nested links,
   trailing-slash rules, search permission on every traversed directory),
   discretionary access control (fsuid/fsgid class selection, CAP_DAC_OVERRIDE
   for root, sticky directories, set-group-id inheritance, chmod/chown/utimes
   ownership rules) and the system calls behind Go's package os - and of Go
   1.23's os functions composed from them (Remove = unlink|rmdir with its error
   selection, Rename's pre-check, MkdirAll, RemoveAll, ReadFile, WriteFile ...).

   It runs on the SAME heap type and uses the same primitive mutators as the
   implementation model (MemFS.v); only the decision logic differs.  Its authority
   is external: correspondence B runs it against the real kernel (chroot on tmpfs)
   on every check. *)
From Avfs Require Import Base PathModel MemFS MemFile World.
Set Implicit Arguments.
Local Open Scope N_scope.

(* ---- errno ------------------------------------------------------------------ *)
Definition EPERM : N := 1.      Definition ENOENT : N := 2.     Definition EBADF : N := 9.
Definition EACCES : N := 13.    Definition EBUSY : N := 16.     Definition EEXIST : N := 17.
Definition EXDEV : N := 18.     Definition ENOTDIR : N := 20.   Definition EISDIR : N := 21.
Definition EINVAL : N := 22.    Definition ENOTEMPTY : N := 39. Definition ELOOP : N := 40.
Definition EFUEL : N := 9999.   (* model-only *)

(* results of the specification, already in projected (observable) form *)
Inductive pres :=
| SOk
| SErr (e : N)
| SInfo (i : finfo)
| SStr (s : str)
| SBytes (b : list N)
| SInfos (l : list finfo).

(* ---- unix mode bits <-> fs.FileMode bits --------------------------------------- *)
(* the heap stores Go's fs.FileMode (ModeDir 1<<31, ModeSymlink 1<<27, ModeSetuid 1<<23,
   ModeSetgid 1<<22, ModeSticky 1<<20, perm 0777) exactly as os.Lstat reports it *)
Definition mode_perm (m : N) : N := N.land m 511.
Definition is_sticky (m : N) : bool := has m MODE_STICKY.
Definition is_setgid (m : N) : bool := has m MODE_SETGID.

(* ---- permission check (generic_permission) -------------------------------------- *)
(* mask: 4 read, 2 write, 1 exec/search.  Supplementary groups = the primary group only. *)
Definition kperm_bits (m : meta) (u : user) (mask : N) : bool :=
  let p := mode_perm (m_mode m) in
  let bits := if Z.eqb (m_uid m) (us_uid u) then N.shiftr p 6
              else if Z.eqb (m_gid m) (us_gid u) then N.shiftr p 3
              else p in
  N.eqb (N.land (N.land bits 7) mask) mask.

(* root (CAP_DAC_OVERRIDE / CAP_DAC_READ_SEARCH): everything except executing a file
   without any x bit, which no call of the property performs *)
Definition kperm (h : heap) (i : nat) (mask : N) (u : user) : bool :=
  match get h i with
  | Some n => us_admin u || kperm_bits (node_meta n) u mask
  | None => false
  end.

Definition owner_or_root (m : meta) (u : user) : bool := us_admin u || Z.eqb (m_uid m) (us_uid u).

(* ---- components ----------------------------------------------------------------- *)
Fixpoint kcomps_acc (cur : str) (p : str) : list str :=
  match p with
  | [] => match cur with [] => [] | _ => [rev cur] end
  | c :: p' => if N.eqb c SLASH
               then match cur with [] => kcomps_acc [] p' | _ => rev cur :: kcomps_acc [] p' end
               else kcomps_acc (c :: cur) p'
  end.
Definition kcomps (p : str) : list str := kcomps_acc [] p.
Definition ktrailing (p : str) : bool :=
  match rev p with c :: _ => N.eqb c SLASH | [] => false end.
Definition kabs (p : str) : bool := match p with c :: _ => N.eqb c SLASH | [] => false end.

Definition DOTS : str := [DOT].
Definition DOTDOTS : str := [DOT; DOT].

(* ---- ".." : the directory holding an edge to d ------------------------------------ *)
Fixpoint find_parent (all : list node) (i : nat) (d : nat) : option nat :=
  match all with
  | [] => None
  | NDir ch _ :: rest => if existsb (fun nc => Nat.eqb (snd nc) d) ch then Some i else find_parent rest (S i) d
  | _ :: rest => find_parent rest (S i) d
  end.
Definition parent_of (h : heap) (root d : nat) : nat :=
  if Nat.eqb d root then root else match find_parent h 0 d with Some p => p | None => d end.

(* ---- the walk ------------------------------------------------------------------------ *)
Inductive lastk := LNorm | LDot | LDotDot | LRoot.

Inductive wres :=
| WNode (parent : nat) (k : lastk) (name : str) (node : nat)   (* the path resolved to [node] *)
| WNeg (parent : nat) (name : str) (mustdir : bool)             (* last component absent in [parent] *)
| WParent (parent : nat) (k : lastk) (name : str) (mustdir : bool)  (* parent mode: last component not looked up *)
| WErr (e : N).

Definition is_nil {A} (l : list A) : bool := match l with [] => true | _ => false end.
Definition MAXSYMLINKS : nat := 40.

Fixpoint kwalk (fuel : nat) (h : heap) (u : user) (root : nat) (pm follow : bool)
         (cur : nat) (work : list str) (cnt : nat) (mustdir : bool) : wres :=
  match fuel with
  | O => WErr EFUEL
  | S f =>
      match work with
      | [] => if pm then WParent cur LRoot [] mustdir else WNode cur LRoot [] cur
      | c :: rest =>
          if negb (node_is_dir h cur) then WErr ENOTDIR
          else if negb (kperm h cur 1 u) then WErr EACCES
          else
            let lastc := is_nil rest in
            let kind := if str_eqb c DOTS then LDot else if str_eqb c DOTDOTS then LDotDot else LNorm in
            if pm && lastc then WParent cur kind c mustdir
            else match kind with
                 | LDot => if lastc then WNode cur LDot c cur else kwalk f h u root pm follow cur rest cnt mustdir
                 | LDotDot =>
                     let p := parent_of h root cur in
                     if lastc then WNode p LDotDot c p else kwalk f h u root pm follow p rest cnt mustdir
                 | _ =>
                     match alookup str_eqb c (children h cur) with
                     | None => if lastc then WNeg cur c mustdir else WErr ENOENT
                     | Some n =>
                         match get h n with
                         | Some (NSym t _) =>
                             if negb lastc || follow || mustdir then
                               if Nat.leb MAXSYMLINKS cnt then WErr ELOOP
                               else if is_nil t then WErr ENOENT
                               else
                                 let cur' := if kabs t then root else cur in
                                 let md := mustdir || (lastc && ktrailing t) in
                                 kwalk f h u root pm follow cur' (kcomps t ++ rest) (S cnt) md
                             else WNode cur LNorm c n
                         | Some (NDir _ _) =>
                             if lastc then WNode cur LNorm c n else kwalk f h u root pm follow n rest cnt mustdir
                         | Some (NFile _ _ _ _) =>
                             if lastc then (if mustdir then WErr ENOTDIR else WNode cur LNorm c n) else WErr ENOTDIR
                         | None => WErr EFUEL
                         end
                     end
                 end
      end
  end.

Definition WALK_FUEL : nat := 4000.

(* The kernel keeps the working directory as a node (not as a path string, as MemFS does): the
   specification state carries it in [v_cwdn]. *)
Record sview := { sv_view : view; sv_cwd : nat }.

Definition klookup (s : fsys) (sv : sview) (pm follow : bool) (p : str) : wres :=
  let v := sv_view sv in
  let v := sv_view sv in
  match p with
  | [] => WErr ENOENT
  | _ =>
      let st := if kabs p then v_root v else sv_cwd sv in
      kwalk WALK_FUEL (f_heap s) (v_user v) (v_root v) pm follow st (kcomps p) 0 (ktrailing p)
  end.

(* ---- helpers on nodes --------------------------------------------------------------- *)
Definition dir_nonempty (h : heap) (i : nat) : bool :=
  match get h i with Some (NDir (_ :: _) _) => true | _ => false end.
Definition node_is_sym (h : heap) (i : nat) : bool :=
  match get h i with Some (NSym _ _) => true | _ => false end.
(* [meta_of] (the meta data of a node) is defined in MemFS.v *)

(* dropping one name of a node AFTER its entry has been removed: a file loses one link; a symbolic link
   (which the kernel lets one hard-link) keeps its target while another name remains *)
Definition release (h : heap) (c : nat) : heap :=
  match get h c with
  | Some (NSym _ _) => match find_parent h 0 c with Some _ => h | None => delete_node h c end
  | _ => delete_node h c
  end.

(* sticky directory: only the owner of the entry, the owner of the directory or root may
   delete or rename an entry (check_sticky) *)
(* [sticky_refuses h dirn victim u] is defined in MemFS.v (the repaired implementation has the same rule) *)

(* may_delete(dir, victim, isdir) after the victim is known to exist *)
Definition may_delete (h : heap) (dirn victim : nat) (isdir : bool) (u : user) : option N :=
  if negb (kperm h dirn 3 u) then Some EACCES
  else if sticky_refuses h dirn victim u then Some EPERM
  else if isdir then (if node_is_dir h victim then None else Some ENOTDIR)
  else (if node_is_dir h victim then Some EISDIR else None).

(* ownership and mode of a new object (inode_init_owner) *)
Definition new_owner_gid (h : heap) (parent : nat) (u : user) : Z :=
  if is_setgid (m_mode (meta_of h parent)) then m_gid (meta_of h parent) else us_gid u.

Definition kmeta (h : heap) (parent : nat) (v : view) (type_bits perm_bits : N) (isdir : bool) : meta :=
  let inherit := is_setgid (m_mode (meta_of h parent)) in
  let base := N.ldiff perm_bits (v_umask v) in
  let m := if isdir && inherit then N.lor base MODE_SETGID else base in
  {| m_mode := N.lor type_bits m; m_uid := us_uid (v_user v); m_gid := new_owner_gid h parent (v_user v) |}.

Definition alloc_child (s : fsys) (parent : nat) (name : str) (n : node) (bump_id : bool) : fsys * nat :=
  let c := length (f_heap s) in
  ({| f_heap := add_child (f_heap s ++ [n]) parent name c;
      f_last_id := if bump_id then f_last_id s + 1 else f_last_id s; f_vols := f_vols s |}, c).

(* file_remove_privs: a write or truncation by a user without CAP_FSETID clears the set-user-id bit, and the
   set-group-id bit when the group-execute bit is set or the user is not a member of the file's group
   (setattr_should_drop_suidgid): [drop_privs] / [drop_setid], defined in MemFS.v *)

(* ---- system calls -------------------------------------------------------------------- *)
(* mkdir(2): mode & 01777 (sticky allowed, set-id bits dropped) *)
Definition k_mkdir (s : fsys) (sv : sview) (p : str) (perm : N) : fsys * pres :=
  let v := sv_view sv in
  match klookup s sv true false p with
  | WErr e => (s, SErr e)
  | WParent par k name _ =>
      let h := f_heap s in
      match k with
      | LNorm =>
          match alookup str_eqb name (children h par) with
          | Some _ => (s, SErr EEXIST)
          | None =>
              if negb (kperm h par 3 (v_user v)) then (s, SErr EACCES)
              else
                let bits := N.land perm (511 + MODE_STICKY) in
                (fst (alloc_child s par name (NDir [] (kmeta h par v MODE_DIR bits true)) false), SOk)
          end
      | _ => (s, SErr EEXIST)
      end
  | _ => (s, SErr EFUEL)
  end.

(* rmdir(2) *)
Definition k_rmdir (s : fsys) (sv : sview) (p : str) : fsys * pres :=
  let v := sv_view sv in
  match klookup s sv true false p with
  | WErr e => (s, SErr e)
  | WParent par k name _ =>
      let h := f_heap s in
      match k with
      | LDotDot => (s, SErr ENOTEMPTY)
      | LDot => (s, SErr EINVAL)
      | LRoot => (s, SErr EBUSY)
      | LNorm =>
          match alookup str_eqb name (children h par) with
          | None => (s, SErr ENOENT)
          | Some c =>
              match may_delete h par c true (v_user v) with
              | Some e => (s, SErr e)
              | None =>
                  if dir_nonempty h c then (s, SErr ENOTEMPTY)
                  else (with_heap s (delete_node (remove_child h par name) c), SOk)
              end
          end
      end
  | _ => (s, SErr EFUEL)
  end.

(* unlink(2) *)
Definition k_unlink (s : fsys) (sv : sview) (p : str) : fsys * pres :=
  let v := sv_view sv in
  match klookup s sv true false p with
  | WErr e => (s, SErr e)
  | WParent par k name mustdir =>
      let h := f_heap s in
      match k with
      | LNorm =>
          match alookup str_eqb name (children h par) with
          | None => (s, SErr ENOENT)
          | Some c =>
              if mustdir then (s, SErr (if node_is_dir h c then EISDIR else ENOTDIR))
              else match may_delete h par c false (v_user v) with
                   | Some e => (s, SErr e)
                   | None => (with_heap s (release (remove_child h par name) c), SOk)
                   end
          end
      | _ => (s, SErr EISDIR)
      end
  | _ => (s, SErr EFUEL)
  end.

(* is [a] an ancestor of (or equal to) [d] ? walks up at most |heap| levels *)
Fixpoint is_ancestor (fuel : nat) (h : heap) (root a d : nat) : bool :=
  match fuel with
  | O => false
  | S f => if Nat.eqb a d then true
           else if Nat.eqb d root then false
           else let p := parent_of h root d in if Nat.eqb p d then false else is_ancestor f h root a p
  end.

(* renameat2(2), flags = 0 *)
Definition k_rename (s : fsys) (sv : sview) (o n : str) : fsys * pres :=
  let v := sv_view sv in
  match klookup s sv true false o with
  | WErr e => (s, SErr e)
  | WParent op ok oname omust =>
      match klookup s sv true false n with
      | WErr e => (s, SErr e)
      | WParent np nk nname nmust =>
          let h := f_heap s in
          let u := v_user v in
          match ok, nk with
          | LNorm, LNorm =>
              match alookup str_eqb oname (children h op) with
              | None => (s, SErr ENOENT)
              | Some oc =>
                  let odir := node_is_dir h oc in
                  let nco := alookup str_eqb nname (children h np) in
                  if negb odir && omust then (s, SErr ENOTDIR)
                  else if negb odir && nmust then (s, SErr ENOTDIR)
                  else if odir && is_ancestor (S (length h)) h (v_root v) oc np then (s, SErr EINVAL)
                  else if match nco with Some nc => is_ancestor (S (length h)) h (v_root v) nc op | None => false end
                       then (s, SErr ENOTEMPTY)
                  else if match nco with Some nc => Nat.eqb nc oc | None => false end then (s, SOk)
                  else match may_delete h op oc odir u with
                       | Some e => (s, SErr e)
                       | None =>
                           let tgt_check :=
                             match nco with
                             | None => if kperm h np 3 u then None else Some EACCES
                             | Some nc => may_delete h np nc odir u
                             end in
                           match tgt_check with
                           | Some e => (s, SErr e)
                           | None =>
                               if odir && negb (Nat.eqb op np) && negb (kperm h oc 2 u) then (s, SErr EACCES)
                               else if match nco with Some nc => dir_nonempty h nc | None => false end
                                    then (s, SErr ENOTEMPTY)
                               else
                                 let h1 := match nco with
                                           | Some nc => release (remove_child h np nname) nc
                                           | None => h
                                           end in
                                 let h2 := remove_child h1 op oname in
                                 (with_heap s (add_child h2 np nname oc), SOk)
                           end
                       end
              end
          | _, _ => (s, SErr EBUSY)
          end
      | _ => (s, SErr EFUEL)
      end
  | _ => (s, SErr EFUEL)
  end.

(* linkat(2) without AT_SYMLINK_FOLLOW.  [phl]: fs.protected_hardlinks *)
Definition k_link (phl : bool) (s : fsys) (sv : sview) (o n : str) : fsys * pres :=
  let v := sv_view sv in
  match klookup s sv false false o with
  | WErr e => (s, SErr e)
  | WNeg _ _ _ => (s, SErr ENOENT)
  | WNode _ _ _ oc =>
      match klookup s sv true false n with
      | WErr e => (s, SErr e)
      | WParent np nk nname nmust =>
          let h := f_heap s in
          let u := v_user v in
          match nk with
          | LNorm =>
              match alookup str_eqb nname (children h np) with
              | Some _ => (s, SErr EEXIST)
              | None =>
                  if nmust then (s, SErr ENOENT)
                  else
                    (* may_linkat (fs.protected_hardlinks) comes before may_create *)
                    let m := meta_of h oc in
                    let isreg := match get h oc with Some (NFile _ _ _ _) => true | _ => false end in
                    let safe := us_admin u || Z.eqb (m_uid m) (us_uid u)
                                || (isreg && negb (has (m_mode m) MODE_SETUID)
                                    && negb (has (m_mode m) MODE_SETGID && has (m_mode m) 8)
                                    && kperm h oc 6 u) in
                    if phl && negb safe then (s, SErr EPERM)
                    else if negb (kperm h np 3 u) then (s, SErr EACCES)
                    else if node_is_dir h oc then (s, SErr EPERM)
                    else
                      let h1 := add_child h np nname oc in
                      match get h oc with
                      | Some (NFile d k i m0) => (with_heap s (upd h1 oc (NFile d (k + 1) i m0)), SOk)
                      | _ => (with_heap s h1, SOk)       (* a symbolic link: no counter in the heap *)
                      end
              end
          | _ => (s, SErr EEXIST)
          end
      | _ => (s, SErr EFUEL)
      end
  | _ => (s, SErr EFUEL)
  end.

(* symlinkat(2) *)
Definition k_symlink (s : fsys) (sv : sview) (target n : str) : fsys * pres :=
  let v := sv_view sv in
  match target with
  | [] => (s, SErr ENOENT)
  | _ =>
      match klookup s sv true false n with
      | WErr e => (s, SErr e)
      | WParent np nk nname nmust =>
          let h := f_heap s in
          match nk with
          | LNorm =>
              match alookup str_eqb nname (children h np) with
              | Some _ => (s, SErr EEXIST)
              | None =>
                  if nmust then (s, SErr ENOENT)
                  else if negb (kperm h np 3 (v_user v)) then (s, SErr EACCES)
                  else
                    let m := {| m_mode := N.lor MODE_SYMLINK 511; m_uid := us_uid (v_user v);
                                m_gid := new_owner_gid h np (v_user v) |} in
                    (fst (alloc_child s np nname (NSym target m) false), SOk)
              end
          | _ => (s, SErr EEXIST)
          end
      | _ => (s, SErr EFUEL)
      end
  end.

Definition k_readlink (s : fsys) (sv : sview) (p : str) : pres :=
  let v := sv_view sv in
  match klookup s sv false false p with
  | WErr e => SErr e
  | WNeg _ _ _ => SErr ENOENT
  | WNode _ _ _ c => match get (f_heap s) c with Some (NSym t _) => SStr t | _ => SErr EINVAL end
  | _ => SErr EFUEL
  end.

(* what os.Lstat/os.Stat report: directory sizes and link counts are file-system specific and
   are not part of the observable (reported as 0) *)
Definition k_info (h : heap) (c : nat) (name : str) : finfo :=
  match get h c with
  | Some (NDir _ m) => {| fi_name := name; fi_size := 0; fi_mode := m_mode m; fi_uid := m_uid m; fi_gid := m_gid m;
                          fi_nlink := 0; fi_id := 0 |}
  | Some (NFile d k i m) => {| fi_name := name; fi_size := Z.of_nat (length d); fi_mode := m_mode m; fi_uid := m_uid m;
                               fi_gid := m_gid m; fi_nlink := k; fi_id := i |}
  | Some (NSym t m) => {| fi_name := name; fi_size := Z.of_nat (length t); fi_mode := m_mode m; fi_uid := m_uid m;
                          fi_gid := m_gid m; fi_nlink := 0; fi_id := 0 |}
  | None => {| fi_name := name; fi_size := 0; fi_mode := 0; fi_uid := 0; fi_gid := 0; fi_nlink := 0; fi_id := 0 |}
  end.

Definition k_stat (follow : bool) (s : fsys) (sv : sview) (p : str) : pres :=
  let v := sv_view sv in
  match klookup s sv false follow p with
  | WErr e => SErr e
  | WNeg _ _ _ => SErr ENOENT
  | WNode _ _ _ c => SInfo (k_info (f_heap s) c (base (v_os v) p))
  | _ => SErr EFUEL
  end.

Definition k_truncate (s : fsys) (sv : sview) (p : str) (size : Z) : fsys * pres :=
  let v := sv_view sv in
  if Z.ltb size 0 then (s, SErr EINVAL)
  else match klookup s sv false true p with
       | WErr e => (s, SErr e)
       | WNeg _ _ _ => (s, SErr ENOENT)
       | WNode _ _ _ c =>
           match get (f_heap s) c with
           | Some (NFile d k i m) =>
               if negb (kperm (f_heap s) c 2 (v_user v)) then (s, SErr EACCES)
               else (with_heap s (upd (f_heap s) c (NFile (truncate_data d size) k i (drop_privs (v_user v) m))), SOk)
           | _ => (s, SErr EISDIR)
           end
       | _ => (s, SErr EFUEL)
       end.

(* chmod(2): owner or CAP_FOWNER; a non-member of the file's group loses S_ISGID *)
Definition k_chmod (s : fsys) (sv : sview) (p : str) (mode : N) : fsys * pres :=
  let v := sv_view sv in
  match klookup s sv false true p with
  | WErr e => (s, SErr e)
  | WNeg _ _ _ => (s, SErr ENOENT)
  | WNode _ _ _ c =>
      match get (f_heap s) c with
      | Some n =>
          let m := node_meta n in
          let u := v_user v in
          if negb (owner_or_root m u) then (s, SErr EPERM)
          else
            let mode1 := if negb (us_admin u) && negb (Z.eqb (m_gid m) (us_gid u))
                         then N.ldiff mode MODE_SETGID else mode in
            (with_heap s (upd (f_heap s) c (set_meta n (with_mode m mode1))), SOk)
      | None => (s, SErr EFUEL)
      end
  | _ => (s, SErr EFUEL)
  end.

(* chown(2)/lchown(2): -1 leaves a value unchanged; only root changes the owner; the owner
   may change the group to its own; set-id bits of a non-directory are cleared *)
Definition k_chown (follow : bool) (s : fsys) (sv : sview) (p : str) (uid gid : Z) : fsys * pres :=
  let v := sv_view sv in
  match klookup s sv false follow p with
  | WErr e => (s, SErr e)
  | WNeg _ _ _ => (s, SErr ENOENT)
  | WNode _ _ _ c =>
      match get (f_heap s) c with
      | Some n =>
          let m := node_meta n in
          let u := v_user v in
          let nuid := if Z.eqb uid (-1) then m_uid m else uid in
          let ngid := if Z.eqb gid (-1) then m_gid m else gid in
          (* chown_ok / chgrp_ok: [chown_ok] of MemFS.v (the repaired implementation has the same rule); the owner may
             also "change" the group to the one the object has *)
          if negb (chown_ok m u uid gid) then (s, SErr EPERM)
          else
            let isdir := match n with NDir _ _ => true | _ => false end in
            (* chown_common: ATTR_KILL_SUID | setattr_should_drop_sgid for everything but a directory *)
            let mode1 := if isdir then m_mode m else m_mode (drop_setid u m) in
            (with_heap s (upd (f_heap s) c (set_meta n {| m_mode := mode1; m_uid := nuid; m_gid := ngid |})), SOk)
      | None => (s, SErr EFUEL)
      end
  | _ => (s, SErr EFUEL)
  end.

(* utimensat(2) with explicit times: owner or CAP_FOWNER *)
Definition k_utimes (s : fsys) (sv : sview) (p : str) : pres :=
  let v := sv_view sv in
  match klookup s sv false true p with
  | WErr e => SErr e
  | WNeg _ _ _ => SErr ENOENT
  | WNode _ _ _ c => if owner_or_root (meta_of (f_heap s) c) (v_user v) then SOk else SErr EPERM
  | _ => SErr EFUEL
  end.

(* chdir(2): returns the node *)
Definition k_chdir (s : fsys) (sv : sview) (p : str) : N + nat :=
  let v := sv_view sv in
  match klookup s sv false true p with
  | WErr e => inl e
  | WNeg _ _ _ => inl ENOENT
  | WNode _ _ _ c =>
      if negb (node_is_dir (f_heap s) c) then inl ENOTDIR
      else if negb (kperm (f_heap s) c 1 (v_user v)) then inl EACCES
      else inr c
  | _ => inl EFUEL
  end.

(* the absolute path of a directory node (getcwd): names from the root down *)
Fixpoint path_of (fuel : nat) (h : heap) (root d : nat) (acc : str) : str :=
  match fuel with
  | O => acc
  | S f =>
      if Nat.eqb d root then (match acc with [] => [SLASH] | _ => acc end)
      else
        let p := parent_of h root d in
        let name := match find (fun nc => Nat.eqb (snd nc) d) (children h p) with Some nc => fst nc | None => [] end in
        path_of f h root p (SLASH :: name ++ acc)
  end.

(* open(2).  Returns the node opened (for the file-level layer) *)
Inductive oflags := OF (acc : N) (creat excl trunc append : bool).   (* acc: 0 RDONLY 1 WRONLY 2 RDWR *)
Definition decode_flags (flag : N) : oflags :=
  OF (N.land flag 3) (has flag O_CREATE) (has flag O_EXCL) (has flag O_TRUNC) (has flag O_APPEND).

Definition acc_mask (acc : N) (trunc : bool) : N :=
  (* ACC_MODE: O_RDONLY -> r, O_WRONLY -> w, O_RDWR -> rw, and the invalid access mode 3 -> rw as well *)
  let r := if N.eqb acc 0 || N.eqb acc 2 || N.eqb acc 3 then 4 else 0 in
  let w := if N.eqb acc 1 || N.eqb acc 2 || N.eqb acc 3 || trunc then 2 else 0 in
  N.lor r w.

Definition k_open (s : fsys) (sv : sview) (p : str) (flag perm : N) : fsys * (N + nat) :=
  let v := sv_view sv in
  let '(OF acc creat excl trunc append) := decode_flags flag in
  let h := f_heap s in
  let u := v_user v in
  let mask := acc_mask acc trunc in
  let wants_write := negb (N.eqb (N.land mask 2) 0) in
  let open_existing (s0 : fsys) (c : nat) (created : bool) : fsys * (N + nat) :=
    let h0 := f_heap s0 in
    match get h0 c with
    | Some (NDir _ _) =>
        if creat then (s0, inl EISDIR)
        else if wants_write then (s0, inl EISDIR)
        else if negb (kperm h0 c mask u) then (s0, inl EACCES)
        else (s0, inr c)
    | Some (NFile d k i m) =>
        if negb created && negb (kperm h0 c mask u) then (s0, inl EACCES)
        else if trunc && negb created then (with_heap s0 (upd h0 c (NFile [] k i (drop_privs u m))), inr c)
        else (s0, inr c)
    | _ => (s0, inl ELOOP)
    end in
  if creat then
    match klookup s sv true false p with
    | WErr e => (s, inl e)
    | WParent par k name mustdir =>
        match k with
        | LNorm =>
            if mustdir then (s, inl EISDIR)
            else
              (* resolve a final symbolic link unless O_EXCL *)
              match klookup s sv false (negb excl) p with
              | WErr e => (s, inl e)
              | WNode _ _ _ c => if excl then (s, inl EEXIST) else open_existing s c false
              | WNeg par' name' _ =>
                  if negb (kperm h par' 3 u) then (s, inl EACCES)
                  else
                    let bits := N.land perm FILE_MODE_MASK in
                    let '(s1, c) := alloc_child s par' name'
                                      (NFile [] 1 (f_last_id s + 1) (kmeta h par' v 0 bits false)) true in
                    (s1, inr c)
              | _ => (s, inl EFUEL)
              end
        | _ =>
            match klookup s sv false true p with
            | WErr e => (s, inl e)
            | WNode _ _ _ c => if excl then (s, inl EEXIST) else (s, inl EISDIR)
            | _ => (s, inl EISDIR)
            end
        end
    | _ => (s, inl EFUEL)
    end
  else
    match klookup s sv false true p with
    | WErr e => (s, inl e)
    | WNeg _ _ _ => (s, inl ENOENT)
    | WNode _ _ _ c => open_existing s c false
    | _ => (s, inl EFUEL)
    end.

(* ---- Go's package os on top -------------------------------------------------------------- *)
Definition go_mkdir := k_mkdir.

(* os.Remove: unlink, then rmdir; "both failed": rmdir's error unless it is ENOTDIR *)
Definition go_remove (s : fsys) (sv : sview) (p : str) : fsys * pres :=
  let v := sv_view sv in
  match k_unlink s sv p with
  | (s1, SOk) => (s1, SOk)
  | (_, SErr e) =>
      match k_rmdir s sv p with
      | (s1, SOk) => (s1, SOk)
      | (_, SErr e1) => (s, SErr (if N.eqb e1 ENOTDIR then e else e1))
      | (_, r) => (s, r)
      end
  | (_, r) => (s, r)
  end.

(* os.Rename: the destination-is-a-directory pre-check of file_unix.go *)
Definition go_rename (s : fsys) (sv : sview) (o n : str) : fsys * pres :=
  let v := sv_view sv in
  let pre :=
    match k_stat false s sv n with
    | SInfo ni =>
        if has (fi_mode ni) MODE_DIR then
          match k_stat false s sv o with
          | SErr e => Some e
          | SInfo oi =>
              let same := match klookup s sv false false n, klookup s sv false false o with
                          | WNode _ _ _ a, WNode _ _ _ b => Nat.eqb a b
                          | _, _ => false
                          end in
              if str_eqb n o || negb same then Some EEXIST else None
          | _ => None
          end
        else None
    | _ => None
    end in
  match pre with
  | Some e => (s, SErr e)
  | None => k_rename s sv o n
  end.

(* os.MkdirAll (path.go) *)
Fixpoint strip_trailing_seps (r : str) : str :=        (* on the reversed path *)
  match r with c :: r' => if N.eqb c SLASH then strip_trailing_seps r' else r | [] => [] end.
Fixpoint strip_last_elem (r : str) : str :=
  match r with c :: r' => if N.eqb c SLASH then r else strip_last_elem r' | [] => [] end.
(* path[:i] where i is the index of the separator before the last element (0 if none) *)
Definition parent_prefix (p : str) : str :=
  match strip_last_elem (strip_trailing_seps (rev p)) with
  | [] => []
  | _ :: r' => rev r'
  end.

Fixpoint go_mkdir_all (fuel : nat) (s : fsys) (sv : sview) (p : str) (perm : N) : fsys * pres :=
  let v := sv_view sv in
  match fuel with
  | O => (s, SErr EFUEL)
  | S f =>
      match k_stat true s sv p with
      | SInfo i => if has (fi_mode i) MODE_DIR then (s, SOk) else (s, SErr ENOTDIR)
      | _ =>
          let parent := parent_prefix p in
          let '(s1, r1) := match parent with
                           | [] => (s, SOk)
                           | _ => go_mkdir_all f s sv parent perm
                           end in
          match r1 with
          | SOk =>
              match k_mkdir s1 sv p perm with
              | (s2, SOk) => (s2, SOk)
              | (_, r) =>
                  match k_stat false s1 sv p with
                  | SInfo i => if has (fi_mode i) MODE_DIR then (s1, SOk) else (s1, r)
                  | _ => (s1, r)
                  end
              end
          | r => (s1, r)
          end
      end
  end.

(* removal of a whole subtree by the administrator (os.RemoveAll's recursion); children are
   dropped from the heap's point of view by unlinking the top entry and releasing every file *)
Fixpoint drop_tree (fuel : nat) (h : heap) (c : nat) : heap :=
  match fuel with
  | O => h
  | S f =>
      match get h c with
      | Some (NDir ch _) => delete_node (fold_left (fun h0 nc => drop_tree f h0 (snd nc)) ch h) c
      | Some _ => release h c
      | None => h
      end
  end.

Definition ends_with_dot (p : str) : bool :=
  match rev p with
  | [d] => N.eqb d DOT
  | d :: c :: _ => N.eqb d DOT && N.eqb c SLASH
  | _ => false
  end.

(* os.RemoveAll, administrator only (the order in which a non-administrator's RemoveAll stops
   at a permission failure is unspecified) *)
Definition go_remove_all (s : fsys) (sv : sview) (p : str) : fsys * pres :=
  let v := sv_view sv in
  match p with
  | [] => (s, SOk)
  | _ =>
      if ends_with_dot p then (s, SErr EINVAL)
      else match go_remove s sv p with
           | (s1, SOk) => (s1, SOk)
           | (_, SErr e) =>
               if N.eqb e ENOENT then (s, SOk)
               else
                 match klookup s sv true false p with
                 | WParent par LNorm name _ =>
                     let h := f_heap s in
                     match alookup str_eqb name (children h par) with
                     | Some c =>
                         if node_is_dir h c
                         then (with_heap s (drop_tree (S (length h)) (remove_child h par name) c), SOk)
                         else (s, SErr e)
                     | None => (s, SErr e)
                     end
                 | _ => (s, SErr e)
                 end
           | (_, r) => (s, r)
           end
  end.

(* os.ReadFile: open O_RDONLY, read until EOF (a directory opens, then read fails with EISDIR) *)
Definition go_read_file (s : fsys) (sv : sview) (p : str) : pres :=
  let v := sv_view sv in
  match k_open s sv p 0 0 with
  | (_, inl e) => SErr e
  | (s1, inr c) => match get (f_heap s1) c with Some (NFile d _ _ _) => SBytes d | _ => SErr EISDIR end
  end.

(* os.WriteFile: open O_WRONLY|O_CREATE|O_TRUNC, write, close *)
Definition go_write_file (s : fsys) (sv : sview) (p : str) (data : list N) (perm : N) : fsys * pres :=
  let v := sv_view sv in
  match k_open s sv p (O_WRONLY + O_CREATE + O_TRUNC) perm with
  | (_, inl e) => (s, SErr e)
  | (s1, inr c) =>
      match get (f_heap s1) c with
      | Some (NFile _ k i m) =>
          (with_heap s1 (upd (f_heap s1) c (NFile data k i (match data with [] => m | _ => drop_privs v.(v_user) m end))), SOk)
      | _ => (s1, SErr EISDIR)
      end
  end.

(* os.ReadDir: open O_RDONLY, getdents, sorted by name; needs read permission on the directory *)
Definition go_read_dir (s : fsys) (sv : sview) (p : str) : pres :=
  let v := sv_view sv in
  match k_open s sv p 0 0 with
  | (_, inl e) => SErr e
  | (s1, inr c) =>
      match get (f_heap s1) c with
      | Some (NDir ch _) =>
          SInfos (sort_by (@fi_name) (map (fun nc => k_info (f_heap s1) (snd nc) (fst nc)) ch))
      | _ => SErr ENOTDIR
      end
  end.

(* path/filepath.EvalSymlinks (walkSymlinks, symlink.go) for an absolute path, on components: [dest] is the
   link-free prefix built so far (it may keep leading ".." elements, exactly as the Go code does), every
   extension is looked up with Lstat; at most 255 links; the result is Clean(dest). *)
Definition ETOOMANY : N := 9998.     (* errors.New("EvalSymlinks: too many links"): not an errno *)

Definition render_abs (cs : list str) : str := SLASH :: intercalate [SLASH] cs.

Fixpoint go_walk_symlinks (fuel : nat) (s : fsys) (sv : sview) (dest work : list str) (links : nat) : N + str :=
  match fuel with
  | O => inl EFUEL
  | S f =>
      match work with
      | [] => inr (clean Linux (render_abs dest))
      | c :: rest =>
          if str_eqb c DOTS then go_walk_symlinks f s sv dest rest links
          else if str_eqb c DOTDOTS then
            match rev dest with
            | [] => go_walk_symlinks f s sv (dest ++ [DOTDOTS]) rest links
            | l :: r => if str_eqb l DOTDOTS then go_walk_symlinks f s sv (dest ++ [DOTDOTS]) rest links
                        else go_walk_symlinks f s sv (rev r) rest links
            end
          else
            let dest' := dest ++ [c] in
            match klookup s sv false false (render_abs dest') with
            | WErr e => inl e
            | WNeg _ _ _ => inl ENOENT
            | WNode _ _ _ n =>
                match get (f_heap s) n with
                | Some (NSym link _) =>
                    if Nat.leb 255 links then inl ETOOMANY
                    else if kabs link then go_walk_symlinks f s sv [] (kcomps link ++ rest) (S links)
                    else go_walk_symlinks f s sv dest (kcomps link ++ rest) (S links)
                | Some (NDir _ _) => go_walk_symlinks f s sv dest' rest links
                | Some _ => if is_nil rest then go_walk_symlinks f s sv dest' rest links else inl ENOTDIR
                | None => inl EFUEL
                end
            | _ => inl EFUEL
            end
      end
  end.

Definition go_eval_symlinks (s : fsys) (sv : sview) (p : str) : pres :=
  if kabs p then
    match go_walk_symlinks 20000 s sv [] (kcomps p) 0 with
    | inl e => SErr e
    | inr r => SStr r
    end
  else SErr EFUEL.     (* relative arguments are outside the generated universe *)

(* ---- the specification step over the call alphabet of World.v ----------------------------- *)
(* handle calls and view calls (Sub, SetUser, SetUMask) are not part of this specification:
   they are passed to the implementation model unchanged. *)
Definition proj_res (os : ostype) (r : res) : pres :=
  match r with
  | ROk => SOk
  | RFail e | RErrPath e _ => SErr (snd (ecode os e))
  | RInfo i => SInfo i
  | RStr t => SStr t
  | RBytes _ b _ => SBytes b
  | RInfos l _ => SInfos l
  | _ => SErr EFUEL
  end.

Record sworld := { sw_fs : fsys; sw_sv : sview }.

Definition set_user (v : view) (u : user) : view :=
  {| v_root := v_root v; v_cwd := v_cwd v; v_user := u; v_umask := v_umask v; v_os := v_os v; v_idm := v_idm v |}.
Definition set_umask (v : view) (m : N) : view :=
  {| v_root := v_root v; v_cwd := v_cwd v; v_user := v_user v; v_umask := m; v_os := v_os v; v_idm := v_idm v |}.

Definition spec_step (phl : bool) (w : sworld) (c : call) : sworld * pres :=
  let s := sw_fs w in
  let sv := sw_sv w in
  let v := sv_view sv in
  let keep (r : fsys * pres) := ({| sw_fs := fst r; sw_sv := sv |}, snd r) in
  let ro (r : pres) := (w, r) in
  match c with
  | CMkdir _ p perm => keep (go_mkdir s sv p perm)
  | CMkdirAll _ p perm => keep (go_mkdir_all (S (length p)) s sv p perm)
  | COpenFile _ p flag perm =>          (* open and close at once: only the effect on the tree is specified here *)
      match k_open s sv p flag perm with
      | (s1, inl e) => ({| sw_fs := s1; sw_sv := sv |}, SErr e)
      | (s1, inr _) => ({| sw_fs := s1; sw_sv := sv |}, SOk)
      end
  | CRemove _ p => keep (go_remove s sv p)
  | CRemoveAll _ p => keep (go_remove_all s sv p)
  | CRename _ o n => keep (go_rename s sv o n)
  | CLink _ o n => keep (k_link phl s sv o n)
  | CSymlink _ o n => keep (k_symlink s sv o n)
  | CReadlink _ p => ro (k_readlink s sv p)
  | CTruncate _ p size => keep (k_truncate s sv p size)
  | CChmod _ p mode => keep (k_chmod s sv p mode)
  | CChown _ p uid gid => keep (k_chown true s sv p uid gid)
  | CLchown _ p uid gid => keep (k_chown false s sv p uid gid)
  | CChtimes _ p => ro (k_utimes s sv p)
  | CChdir _ p =>
      match k_chdir s sv p with
      | inl e => ro (SErr e)
      | inr d => ({| sw_fs := s; sw_sv := {| sv_view := v; sv_cwd := d |} |}, SOk)
      end
  | CGetwd _ =>
      let h := f_heap s in
      (* os.Getwd starts with stat("."), which needs search permission on the working directory itself *)
      if negb (kperm h (sv_cwd sv) 1 (v_user v)) then ro (SErr EACCES)
      else if is_ancestor (S (length h)) h (v_root v) (v_root v) (sv_cwd sv)
      then ro (SStr (path_of (S (length h)) h (v_root v) (sv_cwd sv) []))
      else ro (SErr ENOENT)
  | CEvalSymlinks _ p => ro (go_eval_symlinks s sv p)
  | CStat _ p => ro (k_stat true s sv p)
  | CLstat _ p => ro (k_stat false s sv p)
  | CReadDir _ p => ro (go_read_dir s sv p)
  | CReadFile _ p => ro (go_read_file s sv p)
  | CWriteFile _ p data perm => keep (go_write_file s sv p data perm)
  | CSetUser _ uid gid admin =>
      ({| sw_fs := s; sw_sv := {| sv_view := set_user v {| us_uid := uid; us_gid := gid; us_admin := admin |};
                                  sv_cwd := sv_cwd sv |} |}, SOk)
  | CSetUMask _ m =>
      ({| sw_fs := s; sw_sv := {| sv_view := set_umask v m; sv_cwd := sv_cwd sv |} |}, SOk)
  | _ => (w, SErr EFUEL)
  end.

Definition spec_init (um : N) : sworld :=
  let w := init_world_linux um in
  {| sw_fs := w_fs w;
     sw_sv := {| sv_view := match w_views w with v :: _ => v | [] => init_view Linux um end; sv_cwd := 0 |} |}.

(* the implementation model's answer, projected to the specification's observables, for one view *)
Definition impl_step_proj (w : world) (c : call) : world * pres :=
  let '(w1, r) := wstep w c in
  let r' := match c, r with
            | COpenFile _ _ _ _, RHandle _ => SOk
            | CChtimes _ _, _ => proj_res Linux r
            | _, _ => proj_res Linux r
            end in
  (w1, r').

(* ---- the decidable classifier of known deviations of MemFS from Linux -------------------------- *)
(* [kf_class w c = Some k]: on specification state [w] the call [c] belongs to the known-finding class
   number [k] (known_findings.jsonl lists them by this number).  Everything else must agree. *)
Definition kf_class (w : sworld) (c : call) : option N := None.
