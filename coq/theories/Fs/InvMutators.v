(* Property C05: preservation of [Inv_heap] by the mutators of MemFS.v, each
   with explicit preconditions:
     - two transfer principles (the new edge set is a subset of the old one /
       the old one plus one edge whose target is not above its source);
     - leaf updates (data, mode, owner);
     - create (allocate a leaf and link it under a fresh name);
     - link (new entry for an existing file, counter incremented);
     - unlink (remove an entry, delete() the node);
     - move (rename: optional replaced target, new entry, old entry removed). *)
From Avfs Require Import Base BaseProofs PathModel MemFS MemFile World Inv.

(* ---- link counters ---------------------------------------------------------- *)
Definition node_nlink (n : node) : option Z := match n with NFile _ k _ _ => Some k | _ => None end.
Definition nlink_of (h : heap) (f : nat) : option Z :=
  match get h f with Some n => node_nlink n | None => None end.

Lemma I6_alt h :
  (forall f d k i m, get h f = Some (NFile d k i m) -> k = Z.of_nat (indeg h f)) <->
  (forall f k, nlink_of h f = Some k -> k = Z.of_nat (indeg h f)).
Proof.
  unfold nlink_of. split.
  - intros H f k Hn. destruct (get h f) as [[| d k' i m |]|] eqn:E; cbn [node_nlink] in Hn; try discriminate.
    injection Hn as <-. eapply H; eauto.
  - intros H f d k i m Hg. apply H. now rewrite Hg.
Qed.

Lemma nlink_of_upd h i x f :
  nlink_of (upd h i x) f = if Nat.eqb f i then (if Nat.ltb i (length h) then node_nlink x else None) else nlink_of h f.
Proof.
  unfold nlink_of. rewrite get_upd. destruct (Nat.eqb f i); auto. destruct (Nat.ltb i (length h)); auto.
Qed.

Lemma nlink_of_app h x f :
  nlink_of (h ++ [x]) f =
  if Nat.ltb f (length h) then nlink_of h f else if Nat.eqb f (length h) then node_nlink x else None.
Proof.
  unfold nlink_of. rewrite get_app. destruct (Nat.ltb f (length h)); auto. destruct (Nat.eqb f (length h)); auto.
Qed.

Lemma nlink_of_dir h f : node_is_dir h f = true -> nlink_of h f = None.
Proof. unfold nlink_of, node_is_dir. destruct (get h f) as [[]|]; auto; discriminate. Qed.

(* ---- the primitive mutators: children, kinds, length, counters ----------------- *)
Lemma is_dir_children_get h p : is_dir h p -> exists m, get h p = Some (NDir (children h p) m).
Proof. intros H. apply is_dir_get in H as (ch & m & H). exists m. unfold children. now rewrite H. Qed.

Section Prim.
  Variables (h : heap) (p : nat) (n : str).

  Lemma add_child_length c : length (add_child h p n c) = length h.
  Proof. unfold add_child. destruct (get h p) as [[]|]; auto. apply upd_length. Qed.

  Lemma remove_child_length : length (remove_child h p n) = length h.
  Proof. unfold remove_child. destruct (get h p) as [[]|]; auto. apply upd_length. Qed.

  Lemma add_child_kind c i : node_is_dir (add_child h p n c) i = node_is_dir h i.
  Proof.
    unfold add_child. destruct (get h p) as [[ch m| |]|] eqn:E; auto.
    rewrite node_is_dir_upd. destruct (Nat.eqb_spec i p) as [->|]; auto.
    apply get_lt in E as Hlt. apply Nat.ltb_lt in Hlt. rewrite Hlt. unfold node_is_dir. now rewrite E.
  Qed.

  Lemma remove_child_kind i : node_is_dir (remove_child h p n) i = node_is_dir h i.
  Proof.
    unfold remove_child. destruct (get h p) as [[ch m| |]|] eqn:E; auto.
    rewrite node_is_dir_upd. destruct (Nat.eqb_spec i p) as [->|]; auto.
    apply get_lt in E as Hlt. apply Nat.ltb_lt in Hlt. rewrite Hlt. unfold node_is_dir. now rewrite E.
  Qed.

  Lemma add_child_children c d :
    is_dir h p ->
    children (add_child h p n c) d = if Nat.eqb d p then ast n c (children h p) else children h d.
  Proof.
    intros Hd. destruct (is_dir_children_get h p Hd) as (m & E). unfold add_child. rewrite E.
    rewrite children_upd. destruct (Nat.eqb d p); auto.
    apply get_lt in E. apply Nat.ltb_lt in E. now rewrite E.
  Qed.

  Lemma remove_child_children d :
    children (remove_child h p n) d = if Nat.eqb d p then arm n (children h p) else children h d.
  Proof.
    unfold remove_child. destruct (get h p) as [[ch m| |]|] eqn:E.
    - rewrite children_upd. destruct (Nat.eqb_spec d p) as [->|]; auto.
      apply get_lt in E as Hlt. apply Nat.ltb_lt in Hlt. rewrite Hlt. unfold children. now rewrite E.
    - destruct (Nat.eqb_spec d p) as [->|]; auto. unfold children. now rewrite E.
    - destruct (Nat.eqb_spec d p) as [->|]; auto. unfold children. now rewrite E.
    - destruct (Nat.eqb_spec d p) as [->|]; auto. unfold children. now rewrite E.
  Qed.

  Lemma add_child_nlink c f : nlink_of (add_child h p n c) f = nlink_of h f.
  Proof.
    unfold add_child. destruct (get h p) as [[ch m| |]|] eqn:E; auto.
    rewrite nlink_of_upd. destruct (Nat.eqb_spec f p) as [->|]; auto.
    apply get_lt in E as Hlt. apply Nat.ltb_lt in Hlt. rewrite Hlt. unfold nlink_of. now rewrite E.
  Qed.

  Lemma remove_child_nlink f : nlink_of (remove_child h p n) f = nlink_of h f.
  Proof.
    unfold remove_child. destruct (get h p) as [[ch m| |]|] eqn:E; auto.
    rewrite nlink_of_upd. destruct (Nat.eqb_spec f p) as [->|]; auto.
    apply get_lt in E as Hlt. apply Nat.ltb_lt in Hlt. rewrite Hlt. unfold nlink_of. now rewrite E.
  Qed.

  Lemma add_child_indeg_absent c x :
    is_dir h p -> alk n (children h p) = None ->
    indeg (add_child h p n c) x = indeg h x + b2n (Nat.eqb c x).
  Proof.
    intros Hd Ha. destruct (is_dir_children_get h p Hd) as (m & E). unfold add_child. rewrite E.
    pose proof (indeg_upd h p (NDir (ast n c (children h p)) m) _ x E) as H.
    unfold node_cnt in H. cbn [node_children] in H. rewrite cnt_aset_absent in H by exact Ha. lia.
  Qed.

  Lemma add_child_indeg_present c c0 x :
    is_dir h p -> alk n (children h p) = Some c0 ->
    indeg (add_child h p n c) x + b2n (Nat.eqb c0 x) = indeg h x + b2n (Nat.eqb c x).
  Proof.
    intros Hd Ha. destruct (is_dir_children_get h p Hd) as (m & E). unfold add_child. rewrite E.
    pose proof (indeg_upd h p (NDir (ast n c (children h p)) m) _ x E) as H.
    unfold node_cnt in H. cbn [node_children] in H.
    pose proof (cnt_aset_present x n c c0 _ Ha). lia.
  Qed.

  Lemma remove_child_indeg_present c0 x :
    NoDup (map fst (children h p)) -> alk n (children h p) = Some c0 ->
    indeg (remove_child h p n) x + b2n (Nat.eqb c0 x) = indeg h x.
  Proof.
    intros Hnd Ha. assert (Hd : is_dir h p).
    { unfold is_dir, node_is_dir. unfold children in Ha. destruct (get h p) as [[]|]; auto; discriminate. }
    destruct (is_dir_children_get h p Hd) as (m & E). unfold remove_child. rewrite E.
    pose proof (indeg_upd h p (NDir (arm n (children h p)) m) _ x E) as H.
    unfold node_cnt in H. cbn [node_children] in H.
    pose proof (cnt_aremove_present x n c0 _ Hnd Ha). lia.
  Qed.
End Prim.

Lemma delete_node_length h c : length (delete_node h c) = length h.
Proof. unfold delete_node. destruct (get h c) as [[]|]; auto; apply upd_length. Qed.

Lemma delete_node_kind h c i : node_is_dir (delete_node h c) i = node_is_dir h i.
Proof.
  unfold delete_node. destruct (get h c) as [[ch m|d k id m|l m]|] eqn:E; auto;
    rewrite node_is_dir_upd; destruct (Nat.eqb_spec i c) as [->|]; auto;
    apply get_lt in E as Hlt; apply Nat.ltb_lt in Hlt; rewrite Hlt; unfold node_is_dir; now rewrite E.
Qed.

Lemma delete_node_children h c d :
  children (delete_node h c) d = if Nat.eqb d c then [] else children h d.
Proof.
  unfold delete_node. destruct (get h c) as [[ch m|dt k id m|l m]|] eqn:E;
    try (rewrite children_upd; destruct (Nat.eqb_spec d c) as [->|]; auto;
         apply get_lt in E as Hlt; apply Nat.ltb_lt in Hlt; now rewrite Hlt).
  destruct (Nat.eqb_spec d c) as [->|]; auto. unfold children. now rewrite E.
Qed.

Lemma delete_node_nlink h c f :
  nlink_of (delete_node h c) f =
  if Nat.eqb f c then option_map (fun k => (k - 1)%Z) (nlink_of h c) else nlink_of h f.
Proof.
  unfold delete_node. destruct (get h c) as [[ch m|dt k id m|l m]|] eqn:E;
    try (rewrite nlink_of_upd; destruct (Nat.eqb_spec f c) as [->|]; auto;
         apply get_lt in E as Hlt; apply Nat.ltb_lt in Hlt; rewrite Hlt; unfold nlink_of; now rewrite E).
  destruct (Nat.eqb_spec f c) as [->|]; auto. unfold nlink_of. now rewrite E.
Qed.

(* deleting a node that has no entries leaves every in-degree alone *)
Lemma delete_node_indeg h c x : children h c = [] -> indeg (delete_node h c) x = indeg h x.
Proof.
  intros Hc. unfold delete_node. destruct (get h c) as [[ch m|dt k id m|l m]|] eqn:E; auto;
    apply (indeg_upd_same_children _ _ _ _ _ E); cbn [node_children]; auto.
  unfold children in Hc. rewrite E in Hc. now subst ch.
Qed.

(* ---- transfer principle 1: the new edges are old edges ---------------------------- *)
Lemma Inv_heap_sub h h' :
  Inv_heap h ->
  length h' = length h ->
  (forall i, node_is_dir h' i = node_is_dir h i) ->
  (forall d n x, edge h' d n x -> edge h d n x) ->
  (forall d, NoDup (map fst (children h' d))) ->
  (forall f k, nlink_of h' f = Some k -> k = Z.of_nat (indeg h' f)) ->
  Inv_heap h'.
Proof.
  intros [J1 J2 J3 [J4a J4b] J5 J6] HL HK HS HN H6. split.
  - intros d n c He. rewrite HL. eauto.
  - exact HN.
  - intros d1 n1 d2 n2 c H1 H2 Hd. apply (J3 d1 n1 d2 n2 c); auto. unfold is_dir in *. now rewrite <- HK.
  - split.
    + unfold is_dir in *. now rewrite HK.
    + intros d n He. eapply J4b; eauto.
  - eapply acyclic_mono; eauto.
  - now apply I6_alt.
Qed.

(* ---- transfer principle 2: one added edge p -n-> c ---------------------------------- *)
Lemma Inv_heap_add h h' p n c :
  Inv_heap h ->
  length h <= length h' ->
  (forall i, i < length h -> node_is_dir h' i = node_is_dir h i) ->
  (forall d n' x, edge h' d n' x -> edge h d n' x \/ (d = p /\ n' = n /\ x = c)) ->
  c < length h' -> c <> 0 ->
  (is_dir h' c -> forall d n', edge h' d n' c -> d = p /\ n' = n) ->
  ~ reach h c p ->
  (forall d, NoDup (map fst (children h' d))) ->
  (forall f k, nlink_of h' f = Some k -> k = Z.of_nat (indeg h' f)) ->
  Inv_heap h'.
Proof.
  intros [J1 J2 J3 [J4a J4b] J5 J6] HL HK HE Hc Hc0 HS HA HN H6. split.
  - intros d n' x He. apply HE in He as [He|(-> & -> & ->)]; auto.
    apply J1 in He. lia.
  - exact HN.
  - intros d1 n1 d2 n2 x H1 H2 Hd.
    destruct (Nat.eq_dec x c) as [->|Hne].
    + destruct (HS Hd _ _ H1) as [-> ->]. destruct (HS Hd _ _ H2) as [-> ->]. auto.
    + apply HE in H1 as [H1|(_ & _ & ->)]; [|congruence].
      apply HE in H2 as [H2|(_ & _ & ->)]; [|congruence].
      apply (J3 d1 n1 d2 n2 x); auto. unfold is_dir in *. rewrite <- HK; auto. eauto.
  - split.
    + unfold is_dir in *. rewrite HK; auto. now apply is_dir_lt.
    + intros d n' He. apply HE in He as [He|(_ & _ & E)]; [eapply J4b; eauto | congruence].
  - apply (acyclic_add_edge h h' p c); auto.
    intros d n' x He. apply HE in He. tauto.
  - now apply I6_alt.
Qed.

(* ---- leaf updates: data, mode, owner ---------------------------------------------- *)
Lemma Inv_heap_upd_leaf h i x x0 :
  Inv_heap h -> get h i = Some x0 ->
  node_children x = node_children x0 -> node_dirb x = node_dirb x0 -> node_nlink x = node_nlink x0 ->
  Inv_heap (upd h i x) /\ kinds_kept h (upd h i x).
Proof.
  intros IH Hg Hc Hk Hn. apply get_lt in Hg as Hlt. apply Nat.ltb_lt in Hlt as Hltb.
  assert (HCh : forall d, children (upd h i x) d = children h d).
  { intros d. rewrite children_upd. destruct (Nat.eqb_spec d i) as [->|]; auto.
    rewrite Hltb, Hc. rewrite children_get, Hg. reflexivity. }
  split; [|eapply kinds_kept_upd; eauto].
  apply (Inv_heap_sub h _ IH).
  - apply upd_length.
  - intros j. rewrite node_is_dir_upd. destruct (Nat.eqb_spec j i) as [->|]; auto.
    rewrite Hltb, Hk. rewrite node_is_dir_get, Hg. reflexivity.
  - intros d n y. unfold edge. now rewrite HCh.
  - intros d. rewrite HCh. apply IH.
  - intros f k. rewrite nlink_of_upd, (indeg_upd_same_children _ _ _ _ _ Hg Hc).
    destruct (Nat.eqb_spec f i) as [->|].
    + rewrite Hltb, Hn. intros H. apply (proj1 (I6_alt h) (I6_nlink IH)). unfold nlink_of. now rewrite Hg.
    + apply (proj1 (I6_alt h) (I6_nlink IH)).
Qed.

Lemma Inv_heap_set_meta h i x0 m :
  Inv_heap h -> get h i = Some x0 ->
  Inv_heap (upd h i (set_meta x0 m)) /\ kinds_kept h (upd h i (set_meta x0 m)).
Proof. intros IH Hg. apply Inv_heap_upd_leaf with (x0 := x0); auto; destruct x0; reflexivity. Qed.

Lemma Inv_heap_set_data h i d k id m d' :
  Inv_heap h -> get h i = Some (NFile d k id m) ->
  Inv_heap (upd h i (NFile d' k id m)) /\ kinds_kept h (upd h i (NFile d' k id m)).
Proof. intros IH Hg. apply Inv_heap_upd_leaf with (x0 := NFile d k id m); auto. Qed.

(* data and meta data of a file rewritten together (a write that clears set-id bits) *)
Lemma Inv_heap_set_file h i d k id m d' m' :
  Inv_heap h -> get h i = Some (NFile d k id m) ->
  Inv_heap (upd h i (NFile d' k id m')) /\ kinds_kept h (upd h i (NFile d' k id m')).
Proof. intros IH Hg. apply Inv_heap_upd_leaf with (x0 := NFile d k id m); auto. Qed.

(* ---- create: allocate a leaf at the end and enter it under a fresh name -------------- *)
Definition leaf_ok (x : node) : Prop :=
  node_children x = [] /\ (node_nlink x = None \/ node_nlink x = Some 1%Z).

Lemma Inv_heap_create h p n x :
  Inv_heap h -> is_dir h p -> alk n (children h p) = None -> leaf_ok x ->
  let h' := add_child (h ++ [x]) p n (length h) in
  Inv_heap h' /\ kinds_kept h h'.
Proof.
  intros IH Hp Hfresh [Hxc Hxn] h'. set (c := length h). set (h1 := h ++ [x]).
  assert (Hplt : p < length h) by now apply is_dir_lt.
  assert (Hp1 : is_dir h1 p).
  { unfold is_dir, h1. rewrite node_is_dir_app. apply Nat.ltb_lt in Hplt. now rewrite Hplt. }
  assert (HCh1 : forall d, children h1 d = if Nat.eqb d c then [] else children h d).
  { intros d. unfold h1. rewrite children_app. fold c.
    destruct (Nat.ltb_spec d c) as [Hlt|Hge].
    - destruct (Nat.eqb_spec d c); auto; lia.
    - destruct (Nat.eqb_spec d c) as [->|Hne]; auto. rewrite children_get, get_none; [reflexivity | unfold c in *; lia]. }
  assert (HCh : forall d, children h' d = if Nat.eqb d p then ast n c (children h p) else
                                           if Nat.eqb d c then [] else children h d).
  { intros d. unfold h'. fold h1 c. rewrite add_child_children by exact Hp1. rewrite !HCh1.
    destruct (Nat.eqb_spec p c); [unfold c in *; lia|]. reflexivity. }
  assert (HK : forall i, i < length h -> node_is_dir h' i = node_is_dir h i).
  { intros i Hi. unfold h'. rewrite add_child_kind, node_is_dir_app. apply Nat.ltb_lt in Hi. now rewrite Hi. }
  assert (HL : length h' = S (length h)).
  { unfold h'. rewrite add_child_length, app_length. cbn [length]. lia. }
  assert (HE : forall d n' y, edge h' d n' y -> edge h d n' y \/ (d = p /\ n' = n /\ y = c)).
  { intros d n' y. unfold edge. rewrite HCh.
    destruct (Nat.eqb_spec d p) as [->|Hne].
    - intros Hin. apply In_aset in Hin. tauto.
    - destruct (Nat.eqb_spec d c); [intros []|tauto]. }
  split; [|split; [lia|exact HK]].
  apply (Inv_heap_add h h' p n c IH).
  - lia.
  - exact HK.
  - exact HE.
  - unfold c. lia.
  - pose proof (proj1 (I4_root IH)) as H0. apply is_dir_lt in H0. unfold c. lia.
  - intros _ d n' He. apply HE in He as [He|]; [|tauto].
    apply (I1_valid IH) in He. unfold c in He. lia.
  - intros Hr. apply reach_leaf in Hr; [unfold c in *; lia|].
    rewrite children_get, get_none; [reflexivity | unfold c; lia].
  - intros d. rewrite HCh. destruct (Nat.eqb d p); [apply NoDup_aset, IH|].
    destruct (Nat.eqb d c); [constructor | apply IH].
  - intros f k. unfold h'. fold h1 c. rewrite add_child_nlink.
    rewrite (add_child_indeg_absent h1 p n c f Hp1) by (rewrite HCh1; destruct (Nat.eqb_spec p c); [unfold c in *; lia | exact Hfresh]).
    unfold h1. rewrite indeg_app, nlink_of_app. fold c. unfold node_cnt. rewrite Hxc. cbn [cnt].
    destruct (Nat.ltb_spec f c) as [Hlt|Hge].
    + intros Hn. destruct (Nat.eqb_spec c f); [lia|]. cbn [b2n]. rewrite !Nat.add_0_r.
      now apply (proj1 (I6_alt h) (I6_nlink IH)).
    + destruct (Nat.eqb_spec f c) as [->|Hne]; [|discriminate].
      rewrite Nat.eqb_refl. cbn [b2n]. intros Hn.
      assert (Hz : indeg h c = 0).
      { apply indeg_zero. intros d n' He. apply (I1_valid IH) in He. unfold c in He. lia. }
      rewrite Hz. destruct Hxn as [Hxn|Hxn]; rewrite Hxn in Hn; [discriminate|]. injection Hn as <-. reflexivity.
Qed.

(* ---- link: a new entry for an existing regular file ---------------------------------- *)
Lemma Inv_heap_link h p n f d k i m :
  Inv_heap h -> is_dir h p -> alk n (children h p) = None -> get h f = Some (NFile d k i m) ->
  let h' := upd (add_child h p n f) f (NFile d (k + 1) i m) in
  Inv_heap h' /\ kinds_kept h h'.
Proof.
  intros IH Hp Hfresh Hf h'. set (h1 := add_child h p n f).
  apply get_lt in Hf as Hflt. apply Nat.ltb_lt in Hflt as Hfltb.
  assert (Hfp : f <> p).
  { intros ->. apply is_dir_get in Hp as (? & ? & Hp). congruence. }
  assert (Hf1 : get h1 f = Some (NFile d k i m)).
  { unfold h1, add_child. destruct (is_dir_children_get h p Hp) as (m' & E). rewrite E.
    rewrite get_upd_other; auto. }
  assert (HL1 : length h1 = length h) by apply add_child_length.
  assert (HCh : forall x, children h' x = if Nat.eqb x p then ast n f (children h p) else children h x).
  { intros x. unfold h'. fold h1. rewrite children_upd, HL1, Hfltb. cbn [node_children].
    unfold h1. rewrite add_child_children by exact Hp.
    destruct (Nat.eqb_spec x f) as [->|]; auto.
    destruct (Nat.eqb_spec f p); [congruence|]. rewrite children_get, Hf. reflexivity. }
  assert (HK : forall j, node_is_dir h' j = node_is_dir h j).
  { intros j. unfold h'. fold h1. rewrite node_is_dir_upd, HL1, Hfltb. cbn [node_dirb].
    unfold h1. rewrite add_child_kind. destruct (Nat.eqb_spec j f) as [->|]; auto.
    rewrite node_is_dir_get, Hf. reflexivity. }
  assert (HL : length h' = length h) by (unfold h'; now rewrite upd_length).
  split; [|split; [lia | intros; apply HK]].
  assert (HE : forall x n' y, edge h' x n' y -> edge h x n' y \/ (x = p /\ n' = n /\ y = f)).
  { intros x n' y. unfold edge. rewrite HCh. destruct (Nat.eqb_spec x p) as [->|]; [|tauto].
    intros Hin. apply In_aset in Hin. tauto. }
  apply (Inv_heap_add h h' p n f IH).
  - lia.
  - intros; apply HK.
  - exact HE.
  - lia.
  - intros ->. pose proof (proj1 (I4_root IH)) as H0. unfold is_dir in H0. rewrite node_is_dir_get, Hf in H0. discriminate.
  - intros Hd. unfold is_dir in Hd. rewrite HK, node_is_dir_get, Hf in Hd. discriminate.
  - intros Hr. apply reach_leaf in Hr; [congruence|]. rewrite children_get, Hf. reflexivity.
  - intros x. rewrite HCh. destruct (Nat.eqb x p); [apply NoDup_aset|]; apply IH.
  - intros g kg. unfold h'. fold h1. rewrite nlink_of_upd, HL1, Hfltb.
    rewrite (indeg_upd_same_children _ _ (NFile d (k + 1) i m) _ _ Hf1) by reflexivity.
    unfold h1. rewrite (add_child_indeg_absent h p n f g Hp Hfresh), add_child_nlink.
    destruct (Nat.eqb_spec g f) as [->|Hne]; cbn [node_nlink].
    + intros [= <-]. rewrite Nat.eqb_refl. cbn [b2n].
      rewrite (I6_nlink IH _ Hf). lia.
    + destruct (Nat.eqb_spec f g); [congruence|]. cbn [b2n]. rewrite Nat.add_0_r.
      apply (proj1 (I6_alt h) (I6_nlink IH)).
Qed.

(* ---- unlink: remove the entry p -n-> c and delete() a node without entries ------------ *)
Lemma Inv_heap_unlink h p n c :
  Inv_heap h -> alk n (children h p) = Some c -> children h c = [] ->
  let h' := delete_node (remove_child h p n) c in
  Inv_heap h' /\ kinds_kept h h'.
Proof.
  intros IH Ha Hleaf h'. set (h1 := remove_child h p n).
  assert (Hcp : c <> p). { intros ->. rewrite Hleaf in Ha. discriminate. }
  assert (HCh1 : forall d, children h1 d = if Nat.eqb d p then arm n (children h p) else children h d)
    by (intros; apply remove_child_children).
  assert (HCh : forall d, children h' d = if Nat.eqb d p then arm n (children h p) else children h d).
  { intros d. unfold h'. fold h1. rewrite delete_node_children, HCh1.
    destruct (Nat.eqb_spec d c) as [->|]; auto.
    destruct (Nat.eqb_spec c p); [congruence|]. now rewrite Hleaf. }
  assert (HK : forall j, node_is_dir h' j = node_is_dir h j).
  { intros j. unfold h', h1. now rewrite delete_node_kind, remove_child_kind. }
  assert (HL : length h' = length h).
  { unfold h', h1. now rewrite delete_node_length, remove_child_length. }
  split; [|split; [lia | intros; apply HK]].
  apply (Inv_heap_sub h _ IH); auto.
  - intros d n' y. unfold edge. rewrite HCh. destruct (Nat.eqb_spec d p) as [->|]; auto.
    intros Hin. now apply In_aremove in Hin.
  - intros d. rewrite HCh. destruct (Nat.eqb d p); [apply NoDup_aremove|]; apply IH.
  - intros f k. unfold h'. fold h1. rewrite delete_node_nlink.
    rewrite delete_node_indeg by (rewrite HCh1; destruct (Nat.eqb_spec c p); [congruence | exact Hleaf]).
    unfold h1. rewrite !remove_child_nlink.
    pose proof (remove_child_indeg_present h p n c f (I2_names IH p) Ha) as Hi.
    destruct (Nat.eqb_spec f c) as [->|Hne].
    + rewrite Nat.eqb_refl in Hi. cbn [b2n] in Hi.
      destruct (nlink_of h c) as [k0|] eqn:Ek; cbn [option_map]; [|discriminate].
      intros [= <-]. apply (proj1 (I6_alt h) (I6_nlink IH)) in Ek. lia.
    + destruct (Nat.eqb_spec c f); [congruence|]. cbn [b2n] in Hi. rewrite Nat.add_0_r in Hi. rewrite Hi.
      apply (proj1 (I6_alt h) (I6_nlink IH)).
Qed.

(* ---- move: rename ---------------------------------------------------------------------
   the entry op -po-> oc is moved to np -pn-> ; an existing target entry np -pn-> nc
   (a file or a symbolic link) is replaced and its node delete()d. *)
Lemma Inv_heap_move h op po oc np pn (tgt : option nat) :
  Inv_heap h ->
  alk po (children h op) = Some oc ->
  is_dir h np ->
  alk pn (children h np) = tgt ->
  (forall nc, tgt = Some nc -> node_is_dir h nc = false /\ node_is_dir h oc = false) ->
  ~ reach h oc np ->
  let h0 := match tgt with Some nc => delete_node h nc | None => h end in
  let h' := remove_child (add_child h0 np pn oc) op po in
  Inv_heap h' /\ kinds_kept h h'.
Proof.
  intros IH Ho Hnp Htgt Hnd Hnr h0 h'.
  assert (Hop : is_dir h op).
  { unfold is_dir, node_is_dir. unfold children in Ho. destruct (get h op) as [[]|]; auto; discriminate. }
  assert (Heo : edge h op po oc) by (now apply alookup_In).
  assert (HCh0 : forall d, children h0 d = children h d).
  { intros d. unfold h0. destruct tgt as [nc|]; auto. rewrite delete_node_children.
    destruct (Nat.eqb_spec d nc) as [->|]; auto. symmetry. apply children_nondir. now apply Hnd. }
  assert (HK0 : forall j, node_is_dir h0 j = node_is_dir h j).
  { intros j. unfold h0. destruct tgt; auto. apply delete_node_kind. }
  assert (HL0 : length h0 = length h).
  { unfold h0. destruct tgt; auto. apply delete_node_length. }
  assert (Hnp0 : is_dir h0 np) by (unfold is_dir; now rewrite HK0).
  set (h1 := add_child h0 np pn oc).
  assert (HCh1 : forall d, children h1 d = if Nat.eqb d np then ast pn oc (children h np) else children h d).
  { intros d. unfold h1. rewrite add_child_children by exact Hnp0. rewrite !HCh0. reflexivity. }
  assert (HCh : forall d, children h' d =
            if Nat.eqb d op then arm po (if Nat.eqb op np then ast pn oc (children h np) else children h op)
            else if Nat.eqb d np then ast pn oc (children h np) else children h d).
  { intros d. unfold h'. fold h1. rewrite remove_child_children, !HCh1. reflexivity. }
  assert (HK : forall j, node_is_dir h' j = node_is_dir h j).
  { intros j. unfold h', h1. now rewrite remove_child_kind, add_child_kind. }
  assert (HL : length h' = length h).
  { unfold h', h1. now rewrite remove_child_length, add_child_length. }
  split; [|split; [lia | intros; apply HK]].
  (* the edges of the result *)
  assert (HE : forall d n' y, edge h' d n' y ->
            ~ (d = op /\ n' = po) /\
            ((edge h d n' y /\ ~ (d = np /\ n' = pn)) \/ (d = np /\ n' = pn /\ y = oc))).
  { intros d n' y. unfold edge. rewrite HCh.
    destruct (Nat.eqb_spec d op) as [->|Hdo].
    - intros Hin. apply In_aremove in Hin as [Hne Hin]. split; [tauto|].
      destruct (Nat.eqb_spec op np) as [->|Hon].
      + apply (In_aset_nodup _ pn oc _ n' y (I2_names IH np)) in Hin. tauto.
      + left. split; auto. tauto.
    - intros Hin. split; [tauto|]. destruct (Nat.eqb_spec d np) as [->|Hdn].
      + apply (In_aset_nodup _ pn oc _ n' y (I2_names IH np)) in Hin. tauto.
      + left. split; auto. tauto. }
  assert (Hoc_lt : oc < length h) by (eapply (I1_valid IH); eauto).
  apply (Inv_heap_add h h' np pn oc IH).
  - lia.
  - intros; apply HK.
  - intros d n' y He. apply HE in He. tauto.
  - lia.
  - intros ->. eapply (proj2 (I4_root IH)); eauto.
  - intros Hd d n' He. apply HE in He as [Hno [[He Hnn]|?]]; [|tauto]. exfalso.
    unfold is_dir in Hd. rewrite HK in Hd.
    destruct (@I3_single h IH _ _ _ _ _ He Heo Hd) as [-> ->]. tauto.
  - exact Hnr.
  - intros d. rewrite HCh. destruct (Nat.eqb d op).
    + apply NoDup_aremove. destruct (Nat.eqb op np); [apply NoDup_aset|]; apply IH.
    + destruct (Nat.eqb d np); [apply NoDup_aset|]; apply IH.
  - (* link counters *)
    intros f k. unfold h'. fold h1. rewrite remove_child_nlink. unfold h1. rewrite add_child_nlink.
    assert (Hpo1 : alk po (children h1 op) = Some oc).
    { rewrite HCh1. destruct (Nat.eqb_spec op np) as [->|]; auto.
      destruct (str_eqb_spec pn po) as [->|Hne].
      - apply alookup_aset_same. exact str_eqb_spec.
      - rewrite alookup_aset_other; auto. exact str_eqb_spec. }
    assert (Hnd1 : NoDup (map fst (children h1 op))).
    { rewrite HCh1. destruct (Nat.eqb op np); [apply NoDup_aset|]; apply IH. }
    pose proof (remove_child_indeg_present h1 op po oc f Hnd1 Hpo1) as Hi. fold h1.
    assert (Hi0 : forall x, indeg h0 x = indeg h x).
    { intros x. unfold h0. destruct tgt as [nc|]; auto. apply delete_node_indeg.
      apply children_nondir. now apply Hnd. }
    assert (Htgt0 : alk pn (children h0 np) = tgt) by now rewrite HCh0.
    destruct tgt as [nc|].
    + pose proof (add_child_indeg_present h0 np pn oc nc f Hnp0 Htgt0) as Hj. fold h1 in Hj.
      rewrite Hi0 in Hj. unfold h0. rewrite delete_node_nlink.
      destruct (Nat.eqb_spec f nc) as [->|Hne].
      * rewrite Nat.eqb_refl in Hj. cbn [b2n] in Hj.
        destruct (nlink_of h nc) as [k0|] eqn:Ek; cbn [option_map]; [|discriminate].
        intros [= <-]. apply (proj1 (I6_alt h) (I6_nlink IH)) in Ek. lia.
      * destruct (Nat.eqb_spec nc f); [congruence|]. cbn [b2n] in Hj.
        intros Hn. apply (proj1 (I6_alt h) (I6_nlink IH)) in Hn. lia.
    + pose proof (add_child_indeg_absent h0 np pn oc f Hnp0 Htgt0) as Hj. fold h1 in Hj.
      rewrite Hi0 in Hj. unfold h0.
      intros Hn. apply (proj1 (I6_alt h) (I6_nlink IH)) in Hn. lia.
Qed.

Lemma unlink_children h p n c d :
  c <> p -> children h c = [] ->
  children (delete_node (remove_child h p n) c) d =
  if Nat.eqb d p then arm n (children h p) else children h d.
Proof.
  intros Hcp Hleaf. rewrite delete_node_children, remove_child_children.
  destruct (Nat.eqb_spec d c) as [->|]; auto.
  destruct (Nat.eqb_spec c p); [congruence|]. now rewrite Hleaf.
Qed.

(* ---- steps of the file system value ----------------------------------------------------- *)
Definition step_ok (s s' : fsys) : Prop :=
  Inv_heap (f_heap s') /\ kinds_kept (f_heap s) (f_heap s') /\ f_vols s' = f_vols s.

Lemma step_ok_refl s : Inv_heap (f_heap s) -> step_ok s s.
Proof. intros H. split; auto. split; auto. apply kinds_kept_refl. Qed.

Lemma step_ok_trans s1 s2 s3 : step_ok s1 s2 -> step_ok s2 s3 -> step_ok s1 s3.
Proof.
  intros (_ & K1 & V1) (I2 & K2 & V2). split; auto. split; [eapply kinds_kept_trans; eauto | congruence].
Qed.

Lemma step_ok_with_heap s h' :
  Inv_heap h' /\ kinds_kept (f_heap s) h' -> step_ok s (with_heap s h').
Proof. intros [H1 H2]. split; auto. Qed.

(* the branch of a call that returns the state it was given *)
Ltac stay := cbn [fst snd]; apply step_ok_refl; assumption.
