(* Readlink after Symlink (property C04, "C04_readlink") and the no-follow calls ("C04_nofollow").

   [readlink_after_symlink]: when Symlink(t, n) succeeds, Readlink(n) on the resulting state returns
   Clean(t) - by a frame argument on the walk: the walk to [n] in the new heap makes the same lookups
   as in the old one up to the single lookup that failed there, which now finds the new link (a final
   link that is not followed does not count against the link limit). *)
From Avfs Require Import Base PathModel PathSpec PathProofs PathCleanProofs PathIterProofs.
From Avfs Require Import MemFS MemFile World Posix WalkBridge WalkSym WalkBudget.

(* ---- heap facts ------------------------------------------------------------------------------ *)
Lemma wget_upd_same (h : heap) (i : nat) (x : node) : i < length h -> get (upd h i x) i = Some x.
Proof.
  unfold get. revert i. induction h as [|y h IH]; intros [|i] Hi; cbn [upd length nth_error] in *; try lia; auto; apply IH; lia.
Qed.

Lemma wget_upd_other (h : heap) (i j : nat) (x : node) : i <> j -> get (upd h i x) j = get h j.
Proof.
  unfold get. revert i j. induction h as [|y h IH]; intros [|i] [|j] Hne; cbn [upd nth_error]; auto; try congruence; apply IH; congruence.
Qed.

Lemma wget_app_old (h : heap) (x : node) (i : nat) : i < length h -> get (h ++ [x]) i = get h i.
Proof. unfold get. intros. apply nth_error_app1. assumption. Qed.

Lemma wget_app_new (h : heap) (x : node) : get (h ++ [x]) (length h) = Some x.
Proof. unfold get. rewrite nth_error_app2, Nat.sub_diag by lia. reflexivity. Qed.

Lemma wget_lt (h : heap) (i : nat) (x : node) : get h i = Some x -> i < length h.
Proof. unfold get. intros H. apply nth_error_Some. congruence. Qed.

Lemma alookup_aset_same (V : Type) (k : str) (x : V) (m : list (str * V)) : alookup str_eqb k (aset str_eqb k x m) = Some x.
Proof.
  induction m as [|[k' v'] m IH]; cbn [aset alookup]; [rewrite str_eqb_refl; reflexivity|].
  destruct (str_eqb k k') eqn:E; cbn [alookup]; rewrite ?str_eqb_refl, ?E; auto.
Qed.

Lemma alookup_aset_other (V : Type) (k k2 : str) (x : V) (m : list (str * V)) :
  k2 <> k -> alookup str_eqb k2 (aset str_eqb k x m) = alookup str_eqb k2 m.
Proof.
  intros Hne. induction m as [|[k' v'] m IH]; cbn [aset alookup].
  - apply str_eqb_neq in Hne. rewrite Hne. reflexivity.
  - destruct (str_eqb_spec k k') as [<-|Hkk]; cbn [alookup].
    + apply str_eqb_neq in Hne. rewrite Hne. reflexivity.
    + rewrite IH. reflexivity.
Qed.

Section Frame.
  Variables (h : heap) (v : view) (parent : nat) (name : str) (lk : str) (mx : meta) (ch0 : list (str * nat)) (m0 : meta).
  Notation x := (NSym lk mx).
  Hypothesis Hpv : ptr_valid h.
  Hypothesis Hpar : get h parent = Some (NDir ch0 m0).
  Hypothesis Hos : v_os v = Linux.   (* on Windows a file met before the end of the path reports the no-such-directory value *)
  Notation c := (length h).
  Notation h' := (add_child (h ++ [x]) parent name c).

  Lemma frame_heap : h' = upd (h ++ [x]) parent (NDir (aset str_eqb name c ch0) m0).
  Proof. unfold add_child. rewrite (wget_app_old h x parent (wget_lt _ _ _ Hpar)), Hpar. reflexivity. Qed.

  Lemma frame_get_parent : get h' parent = Some (NDir (aset str_eqb name c ch0) m0).
  Proof.
    rewrite frame_heap. apply wget_upd_same. rewrite app_length. pose proof (wget_lt _ _ _ Hpar). lia.
  Qed.

  Lemma frame_get_old (i : nat) : i < length h -> i <> parent -> get h' i = get h i.
  Proof. intros Hi Hne. rewrite frame_heap, wget_upd_other by congruence. apply wget_app_old. exact Hi. Qed.

  Lemma frame_get_new : get h' c = Some x.
  Proof.
    rewrite frame_heap, wget_upd_other by (pose proof (wget_lt _ _ _ Hpar); lia). apply wget_app_new.
  Qed.

  Lemma frame_children (d : nat) (k : str) :
    node_is_dir h d = true -> (d <> parent \/ k <> name) ->
    alookup str_eqb k (children h' d) = alookup str_eqb k (children h d).
  Proof.
    intros Hd Hne. destruct (Nat.eq_dec d parent) as [->|Hdp].
    - unfold children. rewrite frame_get_parent, Hpar. apply alookup_aset_other. tauto.
    - unfold children. rewrite frame_get_old; [reflexivity| |exact Hdp].
      destruct (node_is_dir_get _ _ Hd) as (ch & m & Hg). exact (wget_lt _ _ _ Hg).
  Qed.

  (* the root test reads the meta data of a directory only: the same in both heaps *)
  Lemma frame_root_check (vol p0 : nat) : node_is_dir h p0 = true -> root_check h' v vol p0 = root_check h v vol p0.
  Proof.
    intros Hd. unfold root_check. destruct (Nat.eq_dec p0 parent) as [->|Hne].
    - rewrite frame_get_parent, Hpar. reflexivity.
    - rewrite frame_get_old; [reflexivity| |exact Hne].
      destruct (node_is_dir_get _ _ Hd) as (ch & m & Hg). exact (wget_lt _ _ _ Hg).
  Qed.

  Lemma frame_children_new : alookup str_eqb name (children h' parent) = Some c.
  Proof. unfold children. rewrite frame_get_parent. apply alookup_aset_same. Qed.

  (* a failed final lookup is a failed lookup, in a directory *)
  Lemma search_miss : forall fuel vol p0 pi sl r,
    node_is_dir h vol = true -> node_is_dir h p0 = true ->
    search_loop fuel h v SlLstat vol p0 pi sl None = r -> is_not_exist (sr_err r) = true ->
    (sr_err r = ENoSuchDir -> pi_is_last (sr_pi r) = false) /\
    exists p, sr_parent r = Some p /\ node_is_dir h p = true
              /\ alookup str_eqb (pi_part (sr_pi r)) (children h p) = None.
  Proof.
    induction fuel as [|fuel IH]; intros vol p0 pi sl r Hvd Hpd Hr He.
    - subst r. discriminate He.
    - rewrite search_loop_S in Hr. destruct (pi_next (v_os v) pi) as [ok pi1]. cbv zeta in Hr.
      destruct (negb ok); [subst r; discriminate He|].
      destruct (root_check h v vol p0); [subst r; discriminate He|].
      destruct (alookup str_eqb (pi_part pi1) (children h p0)) as [n|] eqn:Hl.
      2:{ subst r. cbn. split; [destruct (pi_is_last pi1); [discriminate|reflexivity]|eauto]. }
      destruct (get h n) as [[ch m|dt k i m|t m]|] eqn:Hgn; try (subst r; discriminate He).
      + destruct (pi_is_last pi1); [subst r; discriminate He|].
        destruct (check_permission m OpenLookup (v_user v)); [|subst r; discriminate He].
        apply (IH vol n pi1 sl r); auto. unfold node_is_dir. rewrite Hgn. reflexivity.
      + rewrite Hos in Hr. destruct (pi_is_last pi1); subst r; discriminate He.
      + destruct (pi_is_last pi1 && slmode_eqb SlLstat SlLstat) eqn:E1; [subst r; discriminate He|].
        destruct (Nat.ltb slCountMax (S sl)); [subst r; discriminate He|].
        cbn [slmode_eqb] in Hr. rewrite andb_false_r in Hr.
        destruct (pi_replace_part (v_os v) pi1 t) as [reset pi2].
        apply (IH vol (if reset then vol else p0) pi2 (S sl) r); auto. destruct reset; assumption.
  Qed.

  (* the walk that missed [name] in [parent] finds the new entry in the new heap *)
  Lemma search_frame : forall fuel vol p0 pi sl r,
    node_is_dir h vol = true -> node_is_dir h p0 = true ->
    search_loop fuel h v SlLstat vol p0 pi sl None = r ->
    sr_err r = ENoSuchFile -> sr_parent r = Some parent -> pi_part (sr_pi r) = name -> pi_is_last (sr_pi r) = true ->
    search_loop fuel h' v SlLstat vol p0 pi sl None
    = {| sr_parent := Some parent; sr_child := Some c; sr_pi := sr_pi r; sr_err := EFileExists |}.
  Proof.
    induction fuel as [|fuel IH]; intros vol p0 pi sl r Hvd Hpd Hr He Hp Hn Hlast.
    - subst r. discriminate He.
    - assert (He2 : is_not_exist (sr_err r) = true) by (rewrite He; reflexivity).
      destruct (search_miss (S fuel) vol p0 pi sl r Hvd Hpd Hr He2) as (_ & p & Hp' & _ & Hmiss).
      rewrite Hp in Hp'. injection Hp' as <-. rewrite Hn in Hmiss.
      rewrite search_loop_S in Hr. rewrite search_loop_S.
      destruct (pi_next (v_os v) pi) as [ok pi1]. cbv zeta in Hr |- *.
      destruct (negb ok); [subst r; discriminate He|].
      rewrite (frame_root_check vol p0 Hpd).
      destruct (root_check h v vol p0); [subst r; discriminate He|].
      destruct (alookup str_eqb (pi_part pi1) (children h p0)) as [n|] eqn:Hl.
      + assert (Hdiff : p0 <> parent \/ pi_part pi1 <> name).
        { destruct (Nat.eq_dec p0 parent) as [->|Hne]; [|left; exact Hne]. right. intros En.
          rewrite En, Hmiss in Hl. discriminate. }
        rewrite (frame_children p0 (pi_part pi1) Hpd Hdiff), Hl.
        pose proof (Hpv p0 (pi_part pi1) n (alookup_in _ _ _ _ Hl)) as Hnlt.
        destruct (get h n) as [nd|] eqn:Hgn; [|subst r; discriminate He].
        destruct (Nat.eq_dec n parent) as [->|Hnp].
        * rewrite frame_get_parent. rewrite Hpar in Hgn. injection Hgn as <-.
          destruct (pi_is_last pi1); [subst r; discriminate He|].
          destruct (check_permission m0 OpenLookup (v_user v)); [|subst r; discriminate He].
          apply (IH vol parent pi1 sl r); auto. unfold node_is_dir. rewrite Hpar. reflexivity.
        * rewrite (frame_get_old n Hnlt Hnp), Hgn. destruct nd as [ch m|dt k i m|t m].
          -- destruct (pi_is_last pi1); [subst r; discriminate He|].
             destruct (check_permission m OpenLookup (v_user v)); [|subst r; discriminate He].
             apply (IH vol n pi1 sl r); auto. unfold node_is_dir. rewrite Hgn. reflexivity.
          -- rewrite Hos in Hr. destruct (pi_is_last pi1); subst r; discriminate He.
          -- destruct (pi_is_last pi1 && slmode_eqb SlLstat SlLstat); [subst r; discriminate He|].
             destruct (Nat.ltb slCountMax (S sl)); [subst r; discriminate He|].
             cbn [slmode_eqb] in Hr |- *. rewrite andb_false_r in Hr |- *.
             destruct (pi_replace_part (v_os v) pi1 t) as [reset pi2].
             apply (IH vol (if reset then vol else p0) pi2 (S sl) r); auto. destruct reset; assumption.
      + subst r. cbn [sr_err sr_parent sr_pi out_pi] in *. injection Hp as ->.
        rewrite Hn, frame_children_new, frame_get_new, Hlast. cbn [slmode_eqb andb]. reflexivity.
  Qed.
End Frame.

(* ---- Readlink after Symlink ------------------------------------------------------------------- *)
Lemma search_node_linux (s : fsys) (v : view) (p : str) (slm : slmode) :
  v_os v = Linux ->
  search_node s v p slm
  = search_loop SEARCH_FUEL (f_heap s) v slm (v_root v) (v_root v) (pi_new Linux (abs Linux (v_cwd v) p)) 0 None.
Proof. intros Hos. unfold search_node. rewrite Hos. reflexivity. Qed.

Theorem readlink_after_symlink (s s' : fsys) (v : view) (t n : str) :
  v_os v = Linux -> ptr_valid (f_heap s) -> node_is_dir (f_heap s) (v_root v) = true ->
  symlink s v t n = (s', ROk) ->
  readlink s' v n = RStr (clean Linux t).
Proof.
  intros Hos Hpv Hrd. unfold symlink, readlink. rewrite (search_node_linux s v n SlLstat Hos).
  set (pi := pi_new Linux (abs Linux (v_cwd v) n)).
  remember (search_loop SEARCH_FUEL (f_heap s) v SlLstat (v_root v) (v_root v) pi 0 None) as r eqn:Er.
  symmetry in Er.
  destruct (negb (is_not_exist (sr_err r)) || negb (pi_is_last (sr_pi r))) eqn:Hc; [discriminate|].
  apply orb_false_elim in Hc as (Hc1 & Hc2). apply negb_false_iff in Hc1, Hc2.
  destruct (sr_parent r) as [parent|] eqn:Hp; [|discriminate].
  destruct (negb (perm_on (f_heap s) parent OpenWrite (v_user v))); [discriminate|].
  intros [= <-]. rewrite (search_node_linux _ v n SlLstat Hos). fold pi. rewrite Hos.
  destruct (search_miss (f_heap s) v Hos SEARCH_FUEL (v_root v) (v_root v) pi 0 r Hrd Hrd Er Hc1)
    as (Hnl & p & Hp' & Hpd & _).
  rewrite Hp in Hp'. injection Hp' as <-.
  assert (He : sr_err r = ENoSuchFile).
  { destruct (sr_err r); try discriminate Hc1; auto. specialize (Hnl eq_refl). congruence. }
  destruct (node_is_dir_get _ _ Hpd) as (ch0 & m0 & Hpar).
  unfold create_symlink. cbn [f_heap].
  set (mx := {| m_mode := N.lor MODE_SYMLINK 511; m_uid := us_uid (v_user v);
                m_gid := new_gid v (meta_of (f_heap s) parent) |}).
  rewrite (search_frame (f_heap s) v parent (pi_part (sr_pi r)) (clean Linux t) mx ch0 m0 Hpv Hpar Hos
             SEARCH_FUEL (v_root v) (v_root v) pi 0 r Hrd Hrd Er He Hp eq_refl Hc2).
  cbn [sr_err sr_child is_file_exists negb].
  rewrite (frame_get_new (f_heap s) parent (pi_part (sr_pi r)) (clean Linux t) mx ch0 m0 Hpar). reflexivity.
Qed.

(* ---- the calls that act on the link itself ------------------------------------------------------ *)
(* Lstat, Readlink, Remove, RemoveAll, Rename (both operands), Lchown, Link (both operands), Symlink (new name),
   Mkdir: the path enters the call only through [search_node _ _ _ SlLstat] (Lstat also reports [base p]).
   By [sym_bridge_lookup] with [slm := SlLstat] that walk never dereferences the final component. *)
Theorem nofollow_factor :
  (forall s v p q, search_node s v p SlLstat = search_node s v q SlLstat -> base (v_os v) p = base (v_os v) q ->
                   stat_gen SlLstat s v p = stat_gen SlLstat s v q)
  /\ (forall s v p q, search_node s v p SlLstat = search_node s v q SlLstat -> readlink s v p = readlink s v q)
  /\ (forall s v p q, search_node s v p SlLstat = search_node s v q SlLstat -> remove s v p = remove s v q)
  /\ (forall s v p q p2 q2, search_node s v p SlLstat = search_node s v q SlLstat ->
                            search_node s v p2 SlLstat = search_node s v q2 SlLstat ->
                            str_eqb p p2 = str_eqb q q2 ->
                            rename s v p p2 = rename s v q q2)
  /\ (forall s v p q p2 q2, search_node s v p SlLstat = search_node s v q SlLstat ->
                            search_node s v p2 SlLstat = search_node s v q2 SlLstat ->
                            link s v p p2 = link s v q q2)
  /\ (forall s v p q uid gid, search_node s v p SlLstat = search_node s v q SlLstat ->
                              chown_gen SlLstat s v p uid gid = chown_gen SlLstat s v q uid gid)
  /\ (forall s v t p q, search_node s v p SlLstat = search_node s v q SlLstat -> symlink s v t p = symlink s v t q).
Proof.
  split; [|split; [|split; [|split; [|split; [|split]]]]].
  - intros s v p q E B. unfold stat_gen. rewrite E, B. reflexivity.
  - intros s v p q E. unfold readlink. rewrite E. reflexivity.
  - intros s v p q E. unfold remove. rewrite E. reflexivity.
  - intros s v p q p2 q2 E1 E2 E3. unfold rename. rewrite E1, E2, E3. reflexivity.
  - intros s v p q p2 q2 E1 E2. unfold link. rewrite E1, E2. reflexivity.
  - intros s v p q uid gid E. unfold chown_gen. rewrite E. reflexivity.
  - intros s v t p q E. unfold symlink. rewrite E. reflexivity.
Qed.

(* which mode each call of the alphabet passes *)
Theorem nofollow_modes (w : world) (vi : nat) (p o n : str) (uid gid : Z) :
  wstep w (CLstat vi p) = on_view w vi (fun v => (w, stat_gen SlLstat (w_fs w) v p))
  /\ wstep w (CLchown vi p uid gid) = on_view w vi (fun v => lift w (chown_gen SlLstat (w_fs w) v p uid gid))
  /\ wstep w (CStat vi p) = on_view w vi (fun v => (w, stat_gen SlStat (w_fs w) v p))
  /\ wstep w (CChown vi p uid gid) = on_view w vi (fun v => lift w (chown_gen SlEval (w_fs w) v p uid gid)).
Proof. split; [reflexivity|]. split; [reflexivity|]. split; reflexivity. Qed.

(* the final component is not dereferenced: on a path whose last component is a symbolic link the SlLstat walk
   hands back the link node itself *)
Theorem nofollow_final (s : fsys) (sv : sview) (cs : list str) (par n : nat) (name t : str) (m : meta) :
  let v := sv_view sv in
  let h := f_heap s in
  v_os v = Linux -> walk_wf h -> links_clean h ->
  node_is_dir h (v_root v) = true ->
  Forall good_comp cs ->
  klookup s sv false false (abs_path cs) = WNode par LNorm name n -> get h n = Some (NSym t m) ->
  sr_err (search_node s v (abs_path cs) SlLstat) <> EFuel ->
  let r := search_node s v (abs_path cs) SlLstat in
  sr_err r = EFileExists /\ sr_child r = Some n /\ sr_parent r = Some par /\ pi_part (sr_pi r) = name.
Proof.
  intros v h Hos Hwf Hlc Hrd Hg HK Hgn Hnf r.
  pose proof (sym_bridge_lookup s sv SlLstat cs Hos Hwf Hlc Hrd Hg) as H. cbv zeta in H.
  change (follow_of SlLstat) with false in H. rewrite HK in H.
  specialize (H ltac:(discriminate) Hnf). cbn [walk_rel] in H.
  destruct H as (H1 & H2 & _ & _ & _ & H4). destruct (H4 eq_refl) as (H5 & H6).
  destruct (at_name_views _ _ _ _ _ _ (H6 eq_refl)) as (H7 & _).
  split; [exact H1|]. split; [exact H2|]. split; [exact H5|exact H7].
Qed.
