(* Executable model of the generic directory walk of avfs (vfs.go: WalkDir /
   walkDir, ReadDir's use in it) and of its reference, Go 1.23.5's
   path/filepath.WalkDir / walkDir, both written once over an abstract record
   of primitives - exactly as the Go generics are written against the VFSBase
   interface - plus the existence helpers of vfs_aferoutils.go.

   The callback is an arbitrary deterministic POLICY: a function of everything
   it has been called with so far and of the current arguments, to an action
   (continue | fs.SkipDir | fs.SkipAll | any other error).  A model run returns
   the complete sequence of callback invocations (path, entry, error argument)
   and the error WalkDir returns.

   The walk is fuelled by the recursion depth; on a tree the depth never
   exceeds the number of directories, so the instances give it the heap size.
   Running out of fuel is a distinct outcome (the model's rendering of a walk
   that does not end on a cyclic graph). *)
From Avfs Require Import Base PathModel MemFS MemFile.
Set Implicit Arguments.

(* fs.ModeType = ModeDir | ModeSymlink | ModeNamedPipe | ModeSocket | ModeDevice | ModeCharDevice | ModeIrregular *)
Definition MODE_TYPE : N := 2401763328.

(* an fs.DirEntry as far as WalkDir and its callback can see it: Name() and the
   mode bits behind IsDir() / Type() *)
Record dent := { de_name : str; de_mode : N }.
Definition de_is_dir (d : dent) : bool := has (de_mode d) MODE_DIR.
Definition de_type (d : dent) : N := N.land (de_mode d) MODE_TYPE.

(* an fs.FileInfo as far as the composites look at it *)
Record sinfo := { si_name : str; si_mode : N; si_size : Z }.
Definition si_is_dir (i : sinfo) : bool := has (si_mode i) MODE_DIR.
(* statDirEntry{info} / fs.FileInfoToDirEntry(info) *)
Definition dent_of_sinfo (i : sinfo) : dent := {| de_name := si_name i; de_mode := si_mode i |}.

(* result of a primitive *)
Inductive rs (E A : Type) := RsErr (e : E) | RsOk (a : A).
Arguments RsErr {E A} e.
Arguments RsOk {E A} a.

(* path/filepath.Match, Model of PathMatch.v: value or ErrBadPattern *)
Inductive mr := MrBad | MrVal (b : bool).

(* The primitives the composites are written against.
   p_read_dir   vfs.ReadDir / os.ReadDir : the entries (sorted by the composite itself) and the error
   p_dir_names  OpenFile(dir, O_RDONLY) ; Readdirnames(-1)  (None: the open failed; the error of
                Readdirnames is ignored by Glob)  *)
Record prims (E : Type) := {
  p_lstat : str -> rs E sinfo;
  p_stat : str -> rs E sinfo;
  p_read_dir : str -> list dent * option E;
  p_dir_names : str -> option (list str);
  p_match : str -> str -> mr;
  p_not_exist : E -> bool                (* errors.Is(err, fs.ErrNotExist) *)
}.

(* vfs.go ReadDir: OpenFile ; f.ReadDir(-1) ; sort.Slice by name ; Close - over a file system whose
   File.ReadDir(-1) ([raw]: entries and error of open+read) lists the directory in ANY order (MemFile and
   OrefaFile happen to sort, os.File behind OsFS / BasePathFile / FailFile returns directory order). *)
Definition vfs_read_dir (E : Type) (raw : str -> list dent * option E) (name : str) : list dent * option E :=
  let '(dirs, err) := raw name in (sort_by (@de_name) dirs, err).

(* the primitives of a file system whose vfs.ReadDir is the generic composite over the file listing [raw] *)
Definition with_file_listing (E : Type) (P : prims E) (raw : str -> list dent * option E) : prims E :=
  {| p_lstat := p_lstat P; p_stat := p_stat P; p_read_dir := vfs_read_dir raw; p_dir_names := p_dir_names P;
     p_match := p_match P; p_not_exist := p_not_exist P |}.

Section Walk.
  Variables E X : Type.
  Variable P : prims E.

  (* what the callback returns *)
  Inductive action := AContinue | ASkipDir | ASkipAll | AErr (x : X).

  (* one invocation of the callback: fn(path, d, err) *)
  Record visit := { vi_path : str; vi_ent : option dent; vi_err : option E }.

  (* a callback: all earlier invocations (oldest first) and the current one *)
  Definition policy := list visit -> visit -> action.

  (* what walkDir / WalkDir return *)
  Inductive wret := WrNil | WrSkipDir | WrSkipAll | WrErr (x : X) | WrFuel.

  Definition ret_of (a : action) : wret :=
    match a with AContinue => WrNil | ASkipDir => WrSkipDir | ASkipAll => WrSkipAll | AErr x => WrErr x end.

  Definition join2 (dir name : str) : str := join Linux [dir; name].

  Variable pi : policy.

  (* ---- avfs, vfs.go walkDir ---------------------------------------------- *)
  (* [second_skipdir] : a SkipDir returned by the second call (the one reporting the ReadDir error) of a
     directory means "skipped" (true: the code after the fix, as the standard library) or is returned to the
     caller, which then abandons the rest of the PARENT directory (false: the code as found). *)
  Section Variant.
    Variable second_skipdir : bool.

    Fixpoint walk_rec (fuel : nat) (path : str) (d : dent) (log : list visit) : list visit * wret :=
      match fuel with
      | O => (log, WrFuel)
      | S f =>
          let v := {| vi_path := path; vi_ent := Some d; vi_err := None |} in
          let log1 := log ++ [v] in
          match pi log v with
          | AContinue =>
              if negb (de_is_dir d) then (log1, WrNil)
              else
                let '(dirs, oe) := p_read_dir P path in
                let children (lg0 : list visit) : list visit * wret :=
                  (fix loop (l : list dent) (lg : list visit) : list visit * wret :=
                     match l with
                     | [] => (lg, WrNil)
                     | d1 :: l' =>
                         match walk_rec f (join2 path (de_name d1)) d1 lg with
                         | (lg', WrNil) => loop l' lg'
                         | (lg', WrSkipDir) => (lg', WrNil)          (* break *)
                         | r => r
                         end
                     end) dirs lg0 in
                match oe with
                | None => children log1
                | Some e =>
                    (* Second call, to report ReadDir error. *)
                    let v2 := {| vi_path := path; vi_ent := Some d; vi_err := Some e |} in
                    let log2 := log1 ++ [v2] in
                    match pi log1 v2 with
                    | AContinue => children log2
                    | ASkipDir => (log2, if second_skipdir && de_is_dir d then WrNil else WrSkipDir)
                    | a => (log2, ret_of a)
                    end
                end
          | ASkipDir => (log1, if de_is_dir d then WrNil else WrSkipDir)   (* Successfully skipped directory. *)
          | a => (log1, ret_of a)
          end
      end.
  End Variant.

  (* vfs.go WalkDir.  [skipall] : fs.SkipAll ends the walk without an error (true: after the fix) or is
     returned like any other error (false: as found). *)
  Definition walk_dir_gen (second_skipdir skipall : bool) (fuel : nat) (root : str) : list visit * wret :=
    let '(log, r) :=
      match p_lstat P root with
      | RsErr e =>
          let v := {| vi_path := root; vi_ent := None; vi_err := Some e |} in
          ([v], ret_of (pi [] v))
      | RsOk info => walk_rec second_skipdir fuel root (dent_of_sinfo info) []
      end in
    (log, match r with
          | WrSkipDir => WrNil
          | WrSkipAll => if skipall then WrNil else WrSkipAll
          | _ => r
          end).

  (* the code under verification (current tree) and the code as pinned *)
  Definition walk_dir := walk_dir_gen true true.
  Definition walk_dir_pinned := walk_dir_gen false false.

  (* ---- reference: Go 1.23.5 path/filepath/path.go walkDir / WalkDir ------- *)
  Fixpoint go_walk_rec (fuel : nat) (path : str) (d : dent) (log : list visit) : list visit * wret :=
    match fuel with
    | O => (log, WrFuel)
    | S f =>
        let v := {| vi_path := path; vi_ent := Some d; vi_err := None |} in
        let log1 := log ++ [v] in
        let r1 := ret_of (pi log v) in
        (* if err := walkDirFn(path, d, nil); err != nil || !d.IsDir() { if err == SkipDir && d.IsDir() { err = nil }; return err } *)
        match r1 with
        | WrNil =>
            if negb (de_is_dir d) then (log1, WrNil)
            else
              let '(dirs, oe) := p_read_dir P path in
              let '(log2, r2) :=
                match oe with
                | None => (log1, WrNil)
                | Some e =>
                    let v2 := {| vi_path := path; vi_ent := Some d; vi_err := Some e |} in
                    (log1 ++ [v2], ret_of (pi log1 v2))
                end in
              match r2 with
              | WrNil =>
                  (fix loop (l : list dent) (lg : list visit) : list visit * wret :=
                     match l with
                     | [] => (lg, WrNil)
                     | d1 :: l' =>
                         match go_walk_rec f (join2 path (de_name d1)) d1 lg with
                         | (lg', WrNil) => loop l' lg'
                         | (lg', WrSkipDir) => (lg', WrNil)
                         | r => r
                         end
                     end) dirs log2
              | WrSkipDir => (log2, if de_is_dir d then WrNil else WrSkipDir)
              | r => (log2, r)
              end
        | WrSkipDir => (log1, if de_is_dir d then WrNil else WrSkipDir)
        | r => (log1, r)
        end
    end.

  Definition go_walk_dir (fuel : nat) (root : str) : list visit * wret :=
    let '(log, r) :=
      match p_lstat P root with
      | RsErr e =>
          let v := {| vi_path := root; vi_ent := None; vi_err := Some e |} in
          ([v], ret_of (pi [] v))
      | RsOk info => go_walk_rec fuel root (dent_of_sinfo info) []
      end in
    (log, match r with WrSkipDir | WrSkipAll => WrNil | _ => r end).
End Walk.

(* ---- vfs_aferoutils.go: Exists, DirExists, IsDir, IsEmpty ------------------- *)
Section Helpers.
  Variable E : Type.
  Variable P : prims E.

  (* the error of a helper: one returned by a primitive, or IsEmpty's own "path does not exist" *)
  Inductive herr := HPrim (e : E) | HNoPath.

  Definition exists_ (path : str) : bool * option herr :=
    match p_stat P path with
    | RsOk _ => (true, None)
    | RsErr e => if p_not_exist P e then (false, None) else (false, Some (HPrim e))
    end.

  Definition dir_exists (path : str) : bool * option herr :=
    match p_stat P path with
    | RsOk fi => if si_is_dir fi then (true, None) else (false, None)
                 (* err == nil && !IsDir : errors.Is(nil, ErrNotExist) is false : return false, err(=nil) *)
    | RsErr e => if p_not_exist P e then (false, None) else (false, Some (HPrim e))
    end.

  Definition is_dir (path : str) : bool * option herr :=
    match p_stat P path with
    | RsErr e => (false, Some (HPrim e))
    | RsOk fi => (si_is_dir fi, None)
    end.

  Definition is_empty (path : str) : bool * option herr :=
    if negb (fst (exists_ path)) then (false, Some HNoPath)
    else
      match p_stat P path with
      | RsErr e => (false, Some (HPrim e))
      | RsOk fi =>
          if si_is_dir fi then
            (* OpenFile ; f.ReadDir(-1) : the two failure points of vfs.ReadDir, whose sort keeps the length *)
            match p_read_dir P path with
            | (_, Some e) => (false, Some (HPrim e))
            | (l, None) => (match l with [] => true | _ => false end, None)
            end
          else (Z.eqb (si_size fi) 0, None)
      end.
End Helpers.
