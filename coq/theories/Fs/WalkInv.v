(* Connection of the walk bridge (C04) and the step equalities (C01) with the heap invariant of C05:
   [Inv_heap] gives [walk_wf] (single parent for directories, acyclicity) and [ptr_valid]; a view of a world
   satisfying [Inv] is on Linux with a directory as its root.  What remains to be assumed of a state for the step
   theorem is [links_clean] (the targets of named links are cleaned strings - an invariant of Symlink, not part of
   [Inv]) and that the caller is the administrator. *)
From Avfs Require Import Base BaseProofs PathModel PathSpec PathProofs PathCleanProofs PathIterProofs.
From Avfs Require Import MemFS MemFile World Posix Inv WalkBridge WalkSym WalkBudget WalkReadlink WalkRel StepEq.

Lemma dreach_reach (h : heap) (a b : nat) : dreach h a b -> reach h a b.
Proof. induction 1 as [|d n c _ IH He]; [apply reach_refl|]. eapply reach_step; [exact IH|exact He]. Qed.

Theorem Inv_heap_walk_wf (h : heap) : Inv_heap h -> walk_wf h.
Proof.
  intros I. split.
  - intros d1 n1 d2 n2 c H1 H2 Hd. exact (proj1 (@I3_single _ I d1 n1 d2 n2 c H1 H2 Hd)).
  - intros d (x & n & Hr & He). apply (@I5_acyclic _ I d). exists x, n. split; [apply dreach_reach; exact Hr|exact He].
Qed.

Theorem Inv_heap_ptr_valid (h : heap) : Inv_heap h -> ptr_valid h.
Proof. intros I d n c H. exact (@I1_valid _ I d n c H). Qed.

Theorem Inv_step_hyps (w : world) (vi : nat) (v : view) (cwdn : nat) :
  Inv w -> nth_error (w_views w) vi = Some v -> us_admin (v_user v) = true -> links_clean (f_heap (w_fs w)) ->
  step_hyps (w_fs w) {| sv_view := v; sv_cwd := cwdn |}.
Proof.
  intros I Hv Ha Hlc. pose proof (@inv_views _ I) as Hvs. rewrite Forall_forall in Hvs.
  specialize (Hvs v (nth_error_In _ _ Hv)). destruct Hvs as [Hr Ho _].
  split; cbn [sv_view]; [exact Ho|exact Ha|apply Inv_heap_walk_wf; exact (@inv_heap _ I)|exact Hlc|exact Hr].
Qed.

(* the bridge theorem of C04 on invariant states *)
Theorem Inv_resolve (w : world) (vi : nat) (v : view) (cwdn : nat) (slm : slmode) (cs : list str) :
  Inv w -> nth_error (w_views w) vi = Some v -> links_clean (f_heap (w_fs w)) -> Forall good_comp cs ->
  let s := w_fs w in
  let sv := {| sv_view := v; sv_cwd := cwdn |} in
  let K := klookup s sv false (follow_of slm) (abs_path cs) in
  let r := search_node s v (abs_path cs) slm in
  K <> WErr EFUEL -> sr_err r <> EFuel ->
  walk_rel (f_heap s) (v_user v) (v_root v) (precise_of slm) r K.
Proof.
  intros I Hv Hlc Hg s sv K r Hk Hnf. pose proof (@inv_views _ I) as Hvs. rewrite Forall_forall in Hvs.
  specialize (Hvs v (nth_error_In _ _ Hv)). destruct Hvs as [Hr Ho _].
  exact (sym_bridge_lookup s sv slm cs Ho (Inv_heap_walk_wf _ (@inv_heap _ I)) Hlc Hr Hg Hk Hnf).
Qed.
