(* C01: RemoveAll of a subtree WITHOUT symbolic links leaves EQUAL file systems (the only nodes on which MemFS and the
   specification can differ are links listed by a directory of the removed subtree), hence RemoveAll enters the history
   theorem on the states of C05.  (Subtrees with links: Fs/StepRemoveAll.v, equality up to unlisted link nodes.) *)
From Avfs Require Import Base BaseProofs PathModel PathSpec PathProofs PathCleanProofs PathIterProofs.
From Avfs Require Import MemFS MemFile World Posix Inv InvConseq InvRemoveAll InvMutators InvWorld.
From Avfs Require Import WalkBridge WalkSym WalkBudget WalkReadlink WalkRel StepEq WalkInv StepInv HeapEq StepRename StepRenameDir
  StepHist StepMkdirAll StepHistM StepOpen StepHistO StepRemoveAll.

Lemma heap_ext : forall h h' : heap, (forall i, get h i = get h' i) -> h = h'.
Proof.
  unfold get. induction h as [|x h IH]; intros [|y h'] E.
  - reflexivity.
  - specialize (E 0). discriminate E.
  - specialize (E 0). discriminate E.
  - pose proof (E 0) as E0. cbn [nth_error] in E0. injection E0 as ->. f_equal. apply IH. intros i. exact (E (S i)).
Qed.

(* no entry of a directory below [c] is a symbolic link *)
Definition nolink_below (h : heap) (c : nat) : Prop :=
  forall d n i t m, dreach h c d -> In (n, i) (children h d) -> get h i <> Some (NSym t m).

Section TopExact.
  Variables (h : heap) (u : user) (par c : nat) (cl : str).
  Hypothesis Hadm : us_admin u = true.
  Hypothesis Hacyc : forall d, ~ dreachp h d d.
  Hypothesis Hss : sym_single h.
  Hypothesis Hml : maxlen h c (S (length h)).
  Hypothesis Hedge : In (cl, c) (children h par).
  Hypothesis Hdir : node_is_dir h c = true.

  Lemma top_exact : nolink_below h c ->
    exists hi', remove_all_rec (S (length h)) h u c = (hi', None)
      /\ delete_node (remove_child hi' par cl) c = drop_tree (S (length h)) (remove_child h par cl) c
      /\ get hi' par = get h par.
  Proof.
    intros Hnl. destruct (top_sim_x h u par c cl Hadm Hacyc Hss Hml Hedge Hdir) as (hi' & E & (G & _) & F).
    exists hi'. split; [exact E|]. split; [|exact F]. apply heap_ext. intros i.
    destruct (G i) as [Eq|((t & t' & m & _ & Es) & _ & d & n & Hin & Hr)]; [exact Eq|]. exfalso.
    pose proof (nkind_drop_tree (S (length h)) (remove_child h par cl) c i) as K. rewrite nkind_remove_child, Es in K.
    destruct (get h i) as [[| |t0 m0]|] eqn:Eg; cbn [nkind] in K; try discriminate K.
    exact (Hnl d n i t0 m0 Hr Hin Eg).
  Qed.

  (* the specification's final heap keeps the link hypotheses (with or without links in the subtree) *)
  Lemma top_links_ok : links_ok h -> links_ok (drop_tree (S (length h)) (remove_child h par cl) c).
  Proof.
    destruct (top_sim_x h u par c cl Hadm Hacyc Hss Hml Hedge Hdir) as (hi' & _ & (_ & S1 & S2) & _).
    apply links_ok_sub. intros d n i t m He Hg. split; [exact (S1 d n i He)|].
    destruct (S2 i t m Hg) as [Eq|Fn]; [eauto|]. exfalso. exact (Fn d n He).
  Qed.
End TopExact.

Definition nolink_target (s : fsys) (sv : sview) (p : str) : Prop :=
  forall par kind name n, klookup s sv false false p = WNode par kind name n -> nolink_below (f_heap s) n.

Theorem step_remove_all_exact (s : fsys) (sv : sview) (w : list str) (cl : str) :
  step_hyps s sv -> Inv_heap (f_heap s) -> sym_single (f_heap s) -> path_ok s sv SlLstat (w ++ [cl]) ->
  nolink_target s sv (abs_path (w ++ [cl])) ->
  let p := abs_path (w ++ [cl]) in
  (fst (remove_all s (sv_view sv) p), proj_res Linux (snd (remove_all s (sv_view sv) p))) = go_remove_all s sv p.
Proof.
  intros H Hinv Hss Hp Hnl p. pose proof (resolve s sv SlLstat (w ++ [cl]) H Hp) as R.
  destruct Hp as (Hg & Hk1 & Hnf). change (follow_of SlLstat) with false in R, Hk1. change (precise_of SlLstat) with true in R.
  destruct (klookup_pm s sv false w cl Hg Hk1) as (Hkn & Hkg & Hpm).
  assert (Hgcl : good_comp cl) by (apply Forall_app in Hg as (_ & Hg); exact (Forall_inv Hg)).
  unfold p. rewrite (remove_all_nonempty s (sv_view sv) _ (abs_path_nonempty _)).
  rewrite (go_remove_all_nonempty s sv _ (abs_path_nonempty _)), (ends_with_dot_name w cl Hgcl). cbv zeta.
  unfold go_remove, k_unlink, k_rmdir. rewrite Hpm. unfold nolink_target in Hnl.
  pose proof (klookup_final s sv false (w ++ [cl]) Hg) as Hfin.
  destruct (klookup s sv false false (abs_path (w ++ [cl]))) as [par kind name n|par name md| |e] eqn:HK; cbn [walk_rel] in R.
  - destruct (Hkn _ _ _ _ eq_refl) as (-> & ->). destruct Hfin as (F1 & F2 & _).
    destruct R as (R1 & R2 & R3 & _ & _ & R4). destruct (R4 eq_refl) as (R5 & R6).
    destruct (at_name_views _ _ _ _ _ _ (R6 eq_refl)) as (V1 & _).
    assert (Hvp : get (f_heap s) par <> None) by (apply node_is_dir_valid; exact F2).
    assert (Hedge : In (cl, n) (children (f_heap s) par)) by (apply alookup_in; exact F1).
    assert (Hne : n <> par).
    { intros ->. apply (ww_acyclic _ (sh_wf _ _ H) par). exists par, cl. split; [constructor|exact Hedge]. }
    rewrite R2, R5, R1, V1, F1. cbn [is_file_exists is_not_exist negb].
    replace (Nat.eqb par n) with false by (symmetry; apply Nat.eqb_neq; congruence).
    rewrite !(admin_may_delete s sv par n _ H Hvp).
    destruct (get (f_heap s) n) as [[[|x ch] m|dt k i m|t m]|] eqn:Hgn; [| | | |congruence].
    + assert (Hnd : node_is_dir (f_heap s) n = true) by (unfold node_is_dir; rewrite Hgn; reflexivity).
      rewrite Hnd. unfold dir_nonempty. rewrite Hgn, (admin_perm_on s sv par _ H Hvp). reflexivity.
    + assert (Hnd : node_is_dir (f_heap s) n = true) by (unfold node_is_dir; rewrite Hgn; reflexivity).
      rewrite Hnd. unfold dir_nonempty. rewrite Hgn. change (N.eqb ENOTEMPTY ENOTDIR) with false.
      change (N.eqb ENOTEMPTY ENOENT) with false. cbv iota.
      destruct (top_exact (f_heap s) (v_user (sv_view sv)) par n cl (sh_admin _ _ H) (ww_acyclic _ (sh_wf _ _ H)) Hss
                  (maxlen_heap (f_heap s) n Hinv) Hedge Hnd (Hnl _ _ _ _ eq_refl)) as (hi' & -> & G & Fp).
      assert (Hpo : perm_on hi' par OpenWrite (v_user (sv_view sv)) = true).
      { unfold perm_on, check_permission. rewrite Fp. destruct (get (f_heap s) par); [|congruence].
        rewrite (sh_admin _ _ H). reflexivity. }
      rewrite Hpo, G. reflexivity.
    + assert (Hnd : node_is_dir (f_heap s) n = false) by (unfold node_is_dir; rewrite Hgn; reflexivity).
      rewrite Hnd, (admin_perm_on s sv par _ H Hvp). cbn [negb fst snd].
      rewrite (release_single _ par cl n Hss Hedge Hne). reflexivity.
    + assert (Hnd : node_is_dir (f_heap s) n = false) by (unfold node_is_dir; rewrite Hgn; reflexivity).
      rewrite Hnd, (admin_perm_on s sv par _ H Hvp). cbn [negb fst snd].
      rewrite (release_single _ par cl n Hss Hedge Hne). reflexivity.
  - pose proof (Hkg _ _ _ eq_refl) as ->. destruct Hfin as (F1 & _). destruct R as (R1 & R2 & _).
    rewrite R1, F1. reflexivity.
  - destruct R.
  - destruct R as (R1 & _). destruct (werr_cases _ _ R1 Hnf) as (Hc & ->).
    set (r := search_node s (sv_view sv) (abs_path (w ++ [cl])) SlLstat) in *.
    destruct (sr_child r), (sr_parent r); destruct Hc as [Hc|[Hc|[Hc|Hc]]]; rewrite Hc; reflexivity.
Qed.

(* os.RemoveAll keeps the link hypotheses, on the states of C05 *)
Lemma links_ok_go_remove_all (s : fsys) (sv : sview) (p : str) :
  us_admin (v_user (sv_view sv)) = true -> Inv_heap (f_heap s) -> links_ok (f_heap s) ->
  links_ok (f_heap (fst (go_remove_all s sv p))).
Proof.
  intros Hadm Hinv Hok. pose proof (Inv_heap_ptr_valid _ Hinv) as Hpv.
  unfold go_remove_all. destruct p as [|c0 p']; [exact Hok|]. set (p := c0 :: p').
  destruct (ends_with_dot p); [exact Hok|].
  pose proof (links_ok_go_remove s sv Hok p) as H1.
  destruct (go_remove s sv p) as [s1 [|e|i|x|b|l]]; cbn [fst] in *; try exact Hok; [exact H1|].
  destruct (N.eqb e ENOENT); [exact Hok|].
  destruct (klookup s sv true false p) as [| |par k name md|]; try exact Hok.
  destruct k; try exact Hok.
  destruct (alookup str_eqb name (children (f_heap s) par)) as [c|] eqn:El; [|exact Hok].
  destruct (node_is_dir (f_heap s) c) eqn:Hd; [|exact Hok]. cbn [fst with_heap f_heap].
  apply (top_links_ok (f_heap s) (v_user (sv_view sv)) par c name Hadm).
  - exact (ww_acyclic _ (Inv_heap_walk_wf _ Hinv)).
  - exact (proj2 Hok).
  - exact (maxlen_heap (f_heap s) c Hinv).
  - apply alookup_in. exact El.
  - exact Hd.
  - exact Hok.
Qed.

(* ---- RemoveAll in the history theorem ----------------------------------------------------------------------------------------------------- *)
Definition remove_all_ok (vi : nat) (sw : sworld) (c : call) : Prop :=
  let s := sw_fs sw in
  let sv := sw_sv sw in
  step_hyps s sv /\ Inv_heap (f_heap s) /\ links_ok (f_heap s) /\
  match c with
  | CRemoveAll vi' p =>
      vi' = vi /\ exists w cl, p = abs_path (w ++ [cl]) /\ path_ok s sv SlLstat (w ++ [cl]) /\ nolink_target s sv p
  | _ => False
  end.

Definition covered_r (vi : nat) (sw : sworld) (c : call) : Prop := covered_o vi sw c \/ remove_all_ok vi sw c.

Theorem step_world_r (w : world) (vi : nat) (sw : sworld) (c : call) :
  absw w vi sw -> covered_r vi sw c ->
  obs_sim (snd (impl_step_proj w c)) (snd (spec_step true sw c))
  /\ absw (fst (impl_step_proj w c)) vi (fst (spec_step true sw c)).
Proof.
  intros Ha [Hc|(H & Hinv & Hok & Hc)]; [exact (step_world_o w vi sw c Ha Hc)|]. pose proof Ha as (Hfs & Hv).
  destruct c; try (destruct Hc; fail). destruct Hc as (-> & ww & cl & Ep & Hp & Hnl).
  apply (world_of_lift w vi sw _ (remove_all (w_fs w) (sv_view (sw_sv sw)) p) (go_remove_all (sw_fs sw) (sw_sv sw) p) Ha).
  - apply (impl_lift w _ _ (wstep_remove_all w vi _ p Hv)); [left; discriminate|exact I].
  - apply spec_remove_all.
  - rewrite <- Hfs. rewrite Ep in Hnl |- *. exact (step_remove_all_exact (sw_fs sw) (sw_sv sw) ww cl H Hinv (proj2 Hok) Hp Hnl).
Qed.

Theorem links_ok_spec_step_r (vi : nat) (sw : sworld) (c : call) :
  covered_r vi sw c -> ptr_valid (f_heap (sw_fs sw)) -> links_ok (f_heap (sw_fs sw)) ->
  links_ok (f_heap (sw_fs (fst (spec_step true sw c)))) /\ sw_sv (fst (spec_step true sw c)) = sw_sv sw.
Proof.
  intros [Hc|(H & Hinv & _ & Hc)] Hpv Hok; [exact (links_ok_spec_step_o vi sw c Hc Hpv Hok)|].
  destruct c; try (destruct Hc; fail). rewrite spec_remove_all. cbn [fst sw_fs sw_sv]. split; [|reflexivity].
  apply links_ok_go_remove_all; [exact (sh_admin _ _ H)|exact Hinv|exact Hok].
Qed.

Definition call_ok_r := gen_call_ok covered_r.
Definition call_ok_run_r := gen_call_ok_run covered_r.

Theorem history_inv_r (vi : nat) (cs : list call) (w : world) (sw : sworld) :
  Inv w -> absw w vi sw -> us_admin (v_user (sv_view (sw_sv sw))) = true -> links_ok (f_heap (w_fs w)) ->
  call_ok_run_r vi sw cs ->
  Forall2 obs_sim (snd (impl_run w cs)) (snd (spec_run sw cs))
  /\ absw (fst (impl_run w cs)) vi (fst (spec_run sw cs))
  /\ Inv (fst (impl_run w cs)) /\ links_ok (f_heap (w_fs (fst (impl_run w cs)))).
Proof. exact (gen_history_inv covered_r step_world_r links_ok_spec_step_r vi cs w sw). Qed.

(* ---- non-vacuity: MkdirAll "/priv/x/missing"; WriteFile "/priv/x/f"; RemoveAll "/priv" (a tree of three directories and two
        files, no link); Lstat "/priv"; Mkdir "/priv"; RemoveAll "/priv" (now empty) ------------------------------------------------------------ *)
Module StepRemoveAllExactExamples.
  Import WalkSymExamples WalkSymNonVacuity StepExamples StepInvExamples.

  Ltac good_tac :=
    repeat constructor; try discriminate;
    let x := fresh "x" in let Hx := fresh "Hx" in
    intros x Hx; cbn in Hx; repeat (destruct Hx as [Hx|Hx]; [subst x; discriminate|]); destruct Hx.
  Ltac pok := split; [good_tac|split; vm_compute; discriminate].

  Definition r1 := CMkdirAll 0 (abs_path ([s_priv] ++ [s_x; s_missing])) 493.
  Definition r2 := CWriteFile 0 (abs_path ([s_priv; s_x] ++ [s_f])) [7%N] 420.
  Definition r3 := CRemoveAll 0 (abs_path ([] ++ [s_priv])).
  Definition r4 := CLstat 0 (abs_path [s_priv]).
  Definition r5 := CMkdir 0 (abs_path ([] ++ [s_priv])) 448.
  Definition hr : list call := [r1; r2; r3; r4; r5; r3].

  Definition q1 := Eval vm_compute in fst (spec_step true sw_tree r1).
  Definition q2 := Eval vm_compute in fst (spec_step true q1 r2).
  Definition q3 := Eval vm_compute in fst (spec_step true q2 r3).
  Definition q5 := Eval vm_compute in fst (spec_step true q3 r5).

  (* the directories below a node, by computation: every entry of every directory reachable from [c] is checked *)
  Fixpoint nolink_chk (fuel : nat) (h : heap) (c : nat) : bool :=
    match fuel with
    | O => false
    | S f => forallb (fun nc => match get h (snd nc) with
                                | Some (NSym _ _) => false
                                | Some (NDir _ _) => nolink_chk f h (snd nc)
                                | _ => true
                                end) (children h c)
    end.

  Lemma nolink_chk_sound : forall fuel h c, nolink_chk fuel h c = true -> node_is_dir h c = true -> nolink_below h c.
  Proof.
    induction fuel as [|f IH]; intros h c Hc Hdir; [discriminate|].
    cbn [nolink_chk] in Hc. rewrite forallb_forall in Hc.
    assert (Hstep : forall d, dreach h c d -> d = c \/ exists n x, In (n, x) (children h c) /\ dreach h x d).
    { intros d Hr. induction Hr as [|d n x Hr IHr He]; [left; reflexivity|]. right.
      destruct IHr as [-> |(n0 & x0 & Hin0 & Hr0)].
      - exists n, x. split; [exact He|constructor].
      - exists n0, x0. split; [exact Hin0|]. eapply dreach_step; eassumption. }
    intros d n i t m Hr Hin Hg. destruct (Hstep d Hr) as [-> |(n0 & x0 & Hin0 & Hr0)].
    - specialize (Hc (n, i) Hin). cbn [snd] in Hc. rewrite Hg in Hc. discriminate.
    - pose proof (Hc (n0, x0) Hin0) as Hx. cbn [snd] in Hx.
      destruct (get h x0) as [[ch0 m0|d0 k0 i0 m0|t0 m0]|] eqn:Egx; try discriminate Hx.
      + assert (Hdx : node_is_dir h x0 = true) by (unfold node_is_dir; rewrite Egx; reflexivity).
        exact (IH h x0 Hx Hdx d n i t m Hr0 Hin Hg).
      + (* a file has no entries: d = x0 is impossible with an entry *)
        assert (d = x0).
        { clear - Hr0 Egx. induction Hr0 as [|d n x Hr IHr He]; [reflexivity|]. subst d. unfold dedge, children in He.
          rewrite Egx in He. destruct He. }
        subst d. unfold children in Hin. rewrite Egx in Hin. destruct Hin.
      + assert (d = x0).
        { clear - Hr0 Egx. induction Hr0 as [|d n x Hr IHr He]; [reflexivity|]. subst d. unfold dedge, children in He.
          rewrite Egx in He. destruct He. }
        subst d. unfold children in Hin. rewrite Egx in Hin. destruct Hin.
  Qed.

  Ltac nolink_tac :=
    let par := fresh "par" in let kind := fresh "kind" in let name := fresh "name" in let n := fresh "n" in let E := fresh "E" in
    intros par kind name n E; vm_compute in E; injection E as _ _ _ <-;
    apply (nolink_chk_sound 20); vm_compute; reflexivity.

  Example hr_ok : call_ok_run_r 0 sw_tree hr.
  Proof.
    unfold hr. cbn [call_ok_run_r gen_call_ok_run].
    change (fst (spec_step true sw_tree r1)) with q1. change (fst (spec_step true q1 r2)) with q2.
    change (fst (spec_step true q2 r3)) with q3. change (fst (spec_step true q3 r4)) with q3.
    change (fst (spec_step true q3 r5)) with q5.
    split; [|split; [|split; [|split; [|split; [|split; [|exact I]]]]]]; intros Hsh Hih Hok.
    - (* MkdirAll "/priv/x/missing" *)
      left. left. right. split; [reflexivity|]. split; [reflexivity|]. split; [reflexivity|].
      exists [s_priv], [s_x; s_missing], 12. split; [reflexivity|]. split; [good_tac|]. split; [split; reflexivity|].
      split; [intros c r [= <- <-]; reflexivity|]. split; [reflexivity|].
      unfold SEARCH_FUEL. cbn [length app]. lia.
    - (* WriteFile "/priv/x/f" *)
      left. left. left. left. split; [exact Hsh|]. split; [reflexivity|]. exists [s_priv; s_x], s_f. split; [reflexivity|].
      split; [pok|pok].
    - (* RemoveAll "/priv": three directories, two files *)
      right. split; [exact Hsh|]. split; [exact Hih|]. split; [exact Hok|]. split; [reflexivity|].
      exists [], s_priv. split; [reflexivity|]. split; [pok|nolink_tac].
    - (* Lstat "/priv": gone *)
      left. left. left. left. split; [exact Hsh|]. split; [reflexivity|]. exists [s_priv]. split; [reflexivity|pok].
    - (* Mkdir "/priv" *)
      left. left. left. left. split; [exact Hsh|]. split; [reflexivity|]. exists [], s_priv. split; [reflexivity|pok].
    - (* RemoveAll "/priv": an empty directory *)
      right. split; [exact Hsh|]. split; [exact Hih|]. split; [exact Hok|]. split; [reflexivity|].
      exists [], s_priv. split; [reflexivity|]. split; [pok|nolink_tac].
  Qed.

  Example hr_inv :
    Forall2 obs_sim (snd (impl_run w_tree hr)) (snd (spec_run sw_tree hr))
    /\ absw (fst (impl_run w_tree hr)) 0 (fst (spec_run sw_tree hr))
    /\ Inv (fst (impl_run w_tree hr)) /\ links_ok (f_heap (w_fs (fst (impl_run w_tree hr)))).
  Proof. exact (history_inv_r 0 hr w_tree sw_tree tree_inv (proj1 hist_covered) eq_refl tree_links_ok hr_ok). Qed.

  Example hr_results :
    match snd (spec_run sw_tree hr) with
    | [SOk; SOk; SOk; SErr e; SOk; SOk] => e = ENOENT
    | _ => False
    end.
  Proof. vm_compute. reflexivity. Qed.
End StepRemoveAllExactExamples.
