(* C01 for OrefaFS: the OrefaFS model refines the specification of Linux (Posix.v).

   Setting: Linux flavour, the administrator, symbolic-link-free specification states that satisfy the
   heap invariant of C05 ([ohyps]); calls on clean absolute paths "/c1/.../cn" (abs_path cs, good components).
   [orel s w] relates an OrefaFS state to a specification state: same node numbers; the node map of OrefaFS
   answers, for every path, the node the tree walk of the specification reaches; node by node the same type,
   children, meta data, and for files link count and content.  Not related (and not observable through the
   calls compared): the order of the association list that models the Go map, the link count and the id of a
   directory node, the id counter (OrefaFS numbers directories too), the content of a file node without any
   name left, the working directory (kept as a string by OrefaFS: class C01-CWD-STRING, all paths here are
   absolute).
   [orel_init]: the state the oracle stream starts the model from, [oworld_of_sworld w], is related to w.
   Step theorems: related states, same call => equal projected results (directories: name, mode, owner only)
   and related states again. *)
From Avfs Require Import Base PathModel PathSpec PathProofs PathCleanProofs PathIterProofs MemFS MemFile World Posix
  Inv InvPath InvConseq OrefaFS OrefaWorld OrefaLemmas OrefaInv OrefaSpec.

(* ---- walks on components ------------------------------------------------------------------------------ *)
Fixpoint twalk (h : heap) (d : nat) (cs : list str) : option nat :=
  match cs with
  | [] => Some d
  | c :: r => match alookup str_eqb c (children h d) with Some n => twalk h n r | None => None end
  end.

(* the answer of the kernel walk (final component looked up, no trailing slash) *)
Fixpoint tdown (h : heap) (d : nat) (cs : list str) : wres :=
  match cs with
  | [] => WNode d LRoot [] d
  | c :: rest =>
      if negb (node_is_dir h d) then WErr ENOTDIR
      else match alookup str_eqb c (children h d) with
           | None => match rest with [] => WNeg d c false | _ => WErr ENOENT end
           | Some n => match rest with [] => WNode d LNorm c n | _ => tdown h n rest end
           end
  end.

(* ... and in parent mode (the last component [c] is not looked up) *)
Fixpoint tpar (h : heap) (d : nat) (ps : list str) (c : str) : wres :=
  match ps with
  | [] => if negb (node_is_dir h d) then WErr ENOTDIR else WParent d LNorm c false
  | x :: rest =>
      if negb (node_is_dir h d) then WErr ENOTDIR
      else match alookup str_eqb x (children h d) with
           | None => WErr ENOENT
           | Some n => tpar h n rest c
           end
  end.

(* the error of a walk that does not get through [ps] *)
Fixpoint tfail (h : heap) (d : nat) (ps : list str) : N :=
  match ps with
  | [] => ENOENT
  | x :: rest =>
      if negb (node_is_dir h d) then ENOTDIR
      else match alookup str_eqb x (children h d) with None => ENOENT | Some n => tfail h n rest end
  end.

Lemma twalk_app h : forall a b d,
  twalk h d (a ++ b) = match twalk h d a with Some m => twalk h m b | None => None end.
Proof.
  induction a as [|x a IH]; intros b d; [reflexivity|]. cbn [app twalk].
  destruct (alookup str_eqb x (children h d)); [apply IH|reflexivity].
Qed.

Lemma twalk_snoc h d ps c :
  twalk h d (ps ++ [c]) = match twalk h d ps with Some p => alookup str_eqb c (children h p) | None => None end.
Proof.
  rewrite twalk_app. destruct (twalk h d ps) as [p|]; [|reflexivity]. cbn [twalk].
  destruct (alookup str_eqb c (children h p)); reflexivity.
Qed.

Lemma tpar_spec h : forall ps d c,
  tpar h d ps c = match twalk h d ps with
                  | Some p => if node_is_dir h p then WParent p LNorm c false else WErr ENOTDIR
                  | None => WErr (tfail h d ps)
                  end.
Proof.
  induction ps as [|x ps IH]; intros d c; cbn [tpar twalk tfail].
  - destruct (node_is_dir h d); reflexivity.
  - destruct (node_is_dir h d) eqn:Ed; cbn [negb].
    + destruct (alookup str_eqb x (children h d)) as [n|]; [apply IH|reflexivity].
    + rewrite (children_nondir h d Ed). reflexivity.
Qed.

Lemma tdown_spec h : forall ps d c,
  tdown h d (ps ++ [c]) = match twalk h d ps with
                          | Some p => if node_is_dir h p
                                      then match alookup str_eqb c (children h p) with
                                           | Some n => WNode p LNorm c n
                                           | None => WNeg p c false
                                           end
                                      else WErr ENOTDIR
                          | None => WErr (tfail h d ps)
                          end.
Proof.
  induction ps as [|x ps IH]; intros d c; cbn [app tdown twalk tfail].
  - destruct (node_is_dir h d); cbn [negb]; [|reflexivity]. destruct (alookup str_eqb c (children h d)); reflexivity.
  - destruct (node_is_dir h d) eqn:Ed; cbn [negb].
    + destruct (alookup str_eqb x (children h d)) as [n|].
      * rewrite <- IH. destruct (ps ++ [c]) eqn:E; [destruct ps; discriminate|reflexivity].
      * destruct (ps ++ [c]) eqn:E; [destruct ps; discriminate|reflexivity].
    + rewrite (children_nondir h d Ed). reflexivity.
Qed.

Lemma tfail_snoc h : forall ps d c, twalk h d (ps ++ [c]) = None ->
  tfail h d (ps ++ [c]) = match twalk h d ps with
                          | Some p => if node_is_dir h p then ENOENT else ENOTDIR
                          | None => tfail h d ps
                          end.
Proof.
  induction ps as [|x ps IH]; intros d c Hn; cbn [app tfail twalk] in *.
  - destruct (node_is_dir h d); cbn [negb]; [|reflexivity]. destruct (alookup str_eqb c (children h d)); [discriminate|reflexivity].
  - destruct (node_is_dir h d) eqn:Ed; cbn [negb].
    + destruct (alookup str_eqb x (children h d)) as [n|]; [apply IH; exact Hn|reflexivity].
    + rewrite (children_nondir h d Ed). reflexivity.
Qed.

(* ---- the hypotheses on the specification state ---------------------------------------------------------- *)
Record ohyps (s : fsys) (sv : sview) : Prop := {
  oh_os : v_os (sv_view sv) = Linux;
  oh_admin : us_admin (v_user (sv_view sv)) = true;
  oh_inv : Inv_heap (f_heap s);
  oh_root : node_is_dir (f_heap s) (v_root (sv_view sv)) = true;
  oh_nosym : forall i t m, get (f_heap s) i <> Some (NSym t m);
  oh_names : forall d n c, edge (f_heap s) d n c -> good_comp n;
  oh_modes : forall i nd, get (f_heap s) i = Some nd -> has (m_mode (node_meta nd)) MODE_DIR = node_dirb nd
}.

(* ---- the kernel walk of a symbolic-link-free tree, for the administrator --------------------------------- *)
Section KWalk.
  Variables (h : heap) (u : user) (root : nat).
  Hypothesis Hadm : us_admin u = true.
  Hypothesis Hinv : Inv_heap h.
  Hypothesis Hnosym : forall i t m, get h i <> Some (NSym t m).

  Lemma kperm_dir_admin d mask : node_is_dir h d = true -> kperm h d mask u = true.
  Proof.
    intros Hd. unfold kperm. rewrite node_is_dir_get in Hd. destruct (get h d); [|discriminate]. rewrite Hadm. reflexivity.
  Qed.

  Lemma child_get d c n : alookup str_eqb c (children h d) = Some n -> exists nd, get h n = Some nd.
  Proof.
    intros Hl. apply get_some. apply (I1_valid Hinv d c n). unfold edge. apply al_in. exact Hl.
  Qed.

  Lemma kwalk_tdown follow : forall cs fuel d cnt, Forall good_comp cs -> length cs < fuel ->
    kwalk fuel h u root false follow d cs cnt false = tdown h d cs.
  Proof.
    induction cs as [|c rest IH]; intros fuel d cnt Hg Hf; (destruct fuel as [|f]; [cbn [length] in Hf; lia|]).
    - reflexivity.
    - inversion Hg as [|? ? Hc Hr]; subst. cbn [kwalk tdown].
      destruct (node_is_dir h d) eqn:Ed; cbn [negb]; [|reflexivity].
      rewrite (kperm_dir_admin d 1 Ed). cbn [negb andb].
      destruct Hc as (_ & _ & Hdot & Hdd).
      assert (E1 : str_eqb c DOTS = false) by (apply str_eqb_neq; exact Hdot).
      assert (E2 : str_eqb c DOTDOTS = false) by (apply str_eqb_neq; exact Hdd).
      rewrite E1, E2.
      destruct (alookup str_eqb c (children h d)) as [n|] eqn:El.
      + destruct (child_get d c n El) as (nd & Hn). rewrite Hn. destruct nd as [ch m|dd k i m|t m].
        * destruct rest as [|c2 rest]; [reflexivity|]. cbn [is_nil]. apply IH; [exact Hr|cbn [length] in *; lia].
        * destruct rest as [|c2 rest]; [reflexivity|]. cbn [is_nil].
          assert (Hnd : node_is_dir h n = false) by (rewrite node_is_dir_get, Hn; reflexivity).
          cbn [tdown]. rewrite Hnd. reflexivity.
        * exfalso. exact (Hnosym n t m Hn).
      + destruct rest; reflexivity.
  Qed.

  Lemma kwalk_tpar follow : forall ps fuel d cnt c, Forall good_comp (ps ++ [c]) -> length ps < fuel ->
    kwalk fuel h u root true follow d (ps ++ [c]) cnt false = tpar h d ps c.
  Proof.
    induction ps as [|x ps IH]; intros fuel d cnt c Hg Hf; (destruct fuel as [|f]; [cbn [length] in Hf; lia|]).
    - cbn [app kwalk tpar]. destruct (node_is_dir h d) eqn:Ed; cbn [negb]; [|reflexivity].
      rewrite (kperm_dir_admin d 1 Ed). cbn [negb andb is_nil].
      inversion Hg as [|? ? Hc _]; subst. destruct Hc as (_ & _ & Hdot & Hdd).
      assert (E1 : str_eqb c DOTS = false) by (apply str_eqb_neq; exact Hdot).
      assert (E2 : str_eqb c DOTDOTS = false) by (apply str_eqb_neq; exact Hdd).
      rewrite E1, E2. reflexivity.
    - cbn [app] in Hg. inversion Hg as [|? ? Hx Hr]; subst. cbn [app kwalk tpar].
      destruct (node_is_dir h d) eqn:Ed; cbn [negb]; [|reflexivity].
      rewrite (kperm_dir_admin d 1 Ed). cbn [negb].
      assert (Hnil : is_nil (ps ++ [c]) = false) by (destruct ps; reflexivity). rewrite Hnil, andb_false_r.
      destruct Hx as (_ & _ & Hdot & Hdd).
      assert (E1 : str_eqb x DOTS = false) by (apply str_eqb_neq; exact Hdot).
      assert (E2 : str_eqb x DOTDOTS = false) by (apply str_eqb_neq; exact Hdd).
      rewrite E1, E2.
      destruct (alookup str_eqb x (children h d)) as [n|] eqn:El; [|reflexivity].
      destruct (child_get d x n El) as (nd & Hn). rewrite Hn. destruct nd as [ch m|dd k i m|t m].
      + apply IH; [exact Hr|cbn [length] in *; lia].
      + assert (Hnd : node_is_dir h n = false) by (rewrite node_is_dir_get, Hn; reflexivity).
        destruct ps; cbn [tpar]; rewrite Hnd; reflexivity.
      + exfalso. exact (Hnosym n t m Hn).
  Qed.
End KWalk.

(* ---- the relation between an OrefaFS state and a specification state ------------------------------------- *)
Definition nrel (o : option onode) (n : option node) : Prop :=
  match n with
  | None => o = None
  | Some (NDir ch m) => exists x, o = Some x /\ on_dir x = true /\ on_ch x = ch /\ on_meta x = m
  | Some (NFile d k i m) =>
      exists x, o = Some x /\ on_dir x = false /\ on_ch x = [] /\ on_nlink x = k /\ on_meta x = m
                /\ (k <> 0%Z -> on_data x = d)
  | Some (NSym _ _) => True
  end.

Record orel (o : ofs) (s : fsys) (sv : sview) : Prop := {
  or_os : o_os o = Linux;
  or_user : o_user o = v_user (sv_view sv);
  or_umask : o_umask o = v_umask (sv_view sv);
  or_slash : ikey (o_index o) [SLASH] = Some (v_root (sv_view sv));
  or_index : forall cs, gcs cs -> ikey (o_index o) (rpath cs) = twalk (f_heap s) (v_root (sv_view sv)) cs;
  or_len : length (o_heap o) = length (f_heap s);
  or_node : forall i, nrel (oget (o_heap o) i) (get (f_heap s) i)
}.

(* ---- the state built from a specification state is related to it ------------------------------------------ *)
Lemma al_app (V : Type) k (a b : list (str * V)) :
  alookup str_eqb k (a ++ b) = match alookup str_eqb k a with Some v => Some v | None => alookup str_eqb k b end.
Proof.
  induction a as [|[k' v'] a IH]; cbn [app alookup]; [reflexivity|]. destruct (str_eqb k k'); [reflexivity|exact IH].
Qed.

Lemma al_notin_none (V : Type) k (m : list (str * V)) : ~ In k (map fst m) -> alookup str_eqb k m = None.
Proof.
  induction m as [|[k' v'] m IH]; cbn [alookup map fst]; [reflexivity|]. intros Hn.
  destruct (str_eqb_spec k k') as [->|_]; [exfalso; apply Hn; left; reflexivity|]. apply IH. intros H. apply Hn. right. exact H.
Qed.

Section IndexOf.
  Variable h : heap.
  Hypothesis Hinv : Inv_heap h.
  Hypothesis Hnames : forall d n c, edge h d n c -> good_comp n.

  (* every key of the enumeration below [pre] is a path that extends [pre] *)
  Lemma index_of_keys : forall fuel pre i k j, gcs pre ->
    In (k, j) (index_of fuel Linux h (rpath pre) i) -> exists x, gcs x /\ k = rpath (pre ++ x).
  Proof.
    induction fuel as [|f IH]; intros pre i k j Hpre Hin; cbn [index_of] in Hin; [destruct Hin|].
    destruct Hin as [E|Hin].
    - inversion E; subst. exists []. rewrite app_nil_r. split; [constructor|reflexivity].
    - destruct (get h i) as [[ch m|? ? ? ?|? ?]|] eqn:Eg; try destruct Hin.
      apply in_flat_map in Hin. destruct Hin as ([name c] & Hch & Hin). cbn [fst snd sepc] in Hin.
      assert (Hgn : good_comp name). { apply (Hnames i name c). apply edge_get. eauto. }
      change (rpath pre ++ [SLASH] ++ name) with (rpath pre ++ SLASH :: name) in Hin. rewrite <- rpath_snoc in Hin.
      destruct (IH (pre ++ [name]) c k j (gcs_snoc _ _ Hpre Hgn) Hin) as (x & Hx & ->).
      exists (name :: x). split; [constructor; assumption|]. rewrite <- app_assoc. reflexivity.
  Qed.

  Lemma index_of_lookup : forall k fuel pre i cs, maxlen h i k -> k <= fuel -> gcs pre -> gcs cs ->
    alookup str_eqb (rpath (pre ++ cs)) (index_of fuel Linux h (rpath pre) i) = twalk h i cs.
  Proof.
    induction k as [|k IH]; intros fuel pre i cs Hm Hf Hpre Hcs.
    - apply maxlen_pos in Hm. lia.
    - destruct fuel as [|f]; [lia|]. cbn [index_of alookup].
      destruct cs as [|c r].
      + replace (pre ++ []) with pre by (symmetry; apply app_nil_r). rewrite (str_eqb_refl (rpath pre)). reflexivity.
      + inversion Hcs as [|? ? Hc Hr]; subst.
        assert (Hne : str_eqb (rpath (pre ++ c :: r)) (rpath pre) = false).
        { apply str_eqb_neq. intros E. apply rpath_inj in E; [|apply gcs_ok; apply gcs_app; assumption|apply gcs_ok; exact Hpre].
          apply (f_equal (@length str)) in E. rewrite app_length in E. cbn in E. lia. }
        rewrite Hne. cbn [twalk]. rewrite children_get.
        destruct (get h i) as [[ch m|? ? ? ?|? ?]|] eqn:Eg; cbn [node_children alookup]; try reflexivity.
        assert (Hed : forall name c0, In (name, c0) ch -> edge h i name c0) by (intros; apply edge_get; eauto).
        assert (Hnd : NoDup (map fst ch)).
        { pose proof (I2_names Hinv i) as H. rewrite children_get, Eg in H. exact H. }
        clear Eg. induction ch as [|[name c0] ch IHch]; cbn [flat_map alookup]; [reflexivity|].
        rewrite al_app. cbn [fst snd sepc].
        change (rpath pre ++ [SLASH] ++ name) with (rpath pre ++ SLASH :: name). rewrite <- rpath_snoc.
        assert (Hgn : good_comp name) by (apply (Hnames i name c0); apply Hed; left; reflexivity).
        inversion Hnd as [|? ? Hni Hnd']; subst.
        destruct (str_eqb_spec c name) as [->|Hcn].
        * replace (pre ++ name :: r) with ((pre ++ [name]) ++ r) by (rewrite <- app_assoc; reflexivity).
          rewrite (IH f (pre ++ [name]) c0 r); [|eapply maxlen_child; [apply Hed; left; reflexivity|exact Hm]|lia|apply gcs_snoc; assumption|exact Hr].
          destruct (twalk h c0 r) as [n|]; [reflexivity|].
          (* the other children have other names *)
          apply al_notin_none. intros Hin. apply in_map_iff in Hin. destruct Hin as ([k2 j2] & Ek & Hin). cbn [fst] in Ek. subst k2.
          apply in_flat_map in Hin. destruct Hin as ([name2 c2] & Hch2 & Hin). cbn [fst snd sepc] in Hin.
          change (rpath pre ++ [SLASH] ++ name2) with (rpath pre ++ SLASH :: name2) in Hin. rewrite <- rpath_snoc in Hin.
          assert (Hgn2 : good_comp name2) by (apply (Hnames i name2 c2); apply Hed; right; exact Hch2).
          destruct (index_of_keys f (pre ++ [name2]) c2 _ j2 (gcs_snoc _ _ Hpre Hgn2) Hin) as (x & Hx & E).
          apply rpath_inj in E; [|apply gcs_ok; apply gcs_app; [apply gcs_snoc; assumption|exact Hr]
                                  |apply gcs_ok; apply gcs_app; [apply gcs_snoc; assumption|exact Hx]].
          rewrite <- !app_assoc in E. apply app_inv_head in E. cbn [app] in E. inversion E; subst.
          apply Hni. apply in_map_iff. exists (name2, c2). auto.
        * assert (Hnone : alookup str_eqb (rpath (pre ++ c :: r)) (index_of f Linux h (rpath (pre ++ [name])) c0) = None).
          { apply al_notin_none. intros Hin. apply in_map_iff in Hin. destruct Hin as ([k2 j2] & Ek & Hin). cbn [fst] in Ek. subst k2.
            destruct (index_of_keys f (pre ++ [name]) c0 _ j2 (gcs_snoc _ _ Hpre Hgn) Hin) as (x & Hx & E).
            apply rpath_inj in E; [|apply gcs_ok; apply gcs_app; assumption
                                    |apply gcs_ok; apply gcs_app; [apply gcs_snoc; assumption|exact Hx]].
            rewrite <- app_assoc in E. apply app_inv_head in E. cbn [app] in E. inversion E; subst. congruence. }
          rewrite Hnone. apply IHch; [|exact Hnd']. intros name2 c2 H2. apply Hed. right. exact H2.
  Qed.
End IndexOf.

Lemma oget_oheap_of root : forall h off i, oget (oheap_of root off h) i = option_map (onode_of root (off + i)) (get h i).
Proof.
  unfold oget, get. induction h as [|n h IH]; intros off i; cbn [oheap_of].
  - destruct i; reflexivity.
  - destruct i as [|i]; cbn [nth_error option_map]; [rewrite Nat.add_0_r; reflexivity|].
    rewrite IH. replace (S off + i) with (off + S i) by lia. reflexivity.
Qed.

Lemma oheap_of_length root : forall h off, length (oheap_of root off h) = length h.
Proof. induction h as [|n h IH]; intros off; cbn [oheap_of length]; [reflexivity|]. rewrite IH. reflexivity. Qed.

Theorem orel_init (s : fsys) (sv : sview) :
  ohyps s sv -> orel (ow_fs (oworld_of_sworld {| sw_fs := s; sw_sv := sv |})) s sv.
Proof.
  intros H. pose proof (oh_os _ _ H) as Hos. unfold oworld_of_sworld. cbn [ow_fs sw_fs sw_sv]. rewrite Hos.
  constructor; cbn [o_os o_user o_umask o_index o_heap sepc]; try reflexivity.
  - intros cs Hcs. unfold ikey. cbn [alookup].
    assert (Hne : str_eqb (rpath cs) [SLASH] = false) by (apply str_eqb_neq; apply rpath_not_slash; apply gcs_ok; exact Hcs).
    rewrite Hne. change (index_of (S (length (f_heap s))) Linux (f_heap s) [] (v_root (sv_view sv))) with (index_of (S (length (f_heap s))) Linux (f_heap s) (rpath []) (v_root (sv_view sv))).
    change (rpath cs) with (rpath ([] ++ cs)).
    apply (index_of_lookup (f_heap s) (oh_inv _ _ H) (oh_names _ _ H) (S (length (f_heap s))) (S (length (f_heap s))) [] _ cs);
      [apply maxlen_heap; apply (oh_inv _ _ H)|lia|constructor|exact Hcs].
  - apply oheap_of_length.
  - intros i. rewrite oget_oheap_of. destruct (get (f_heap s) i) as [nd|] eqn:Eg; cbn [option_map nrel]; [|reflexivity].
    pose proof (oh_modes _ _ H i nd Eg) as Hm. destruct nd as [ch m|d k id m|t m]; cbn [nrel onode_of node_meta node_dirb] in *.
    + eexists. split; [reflexivity|]. unfold on_dir. cbn [on_meta on_ch]. auto.
    + eexists. split; [reflexivity|]. unfold on_dir. cbn [on_meta on_ch on_nlink on_data]. auto 6.
    + exact I.
Qed.
