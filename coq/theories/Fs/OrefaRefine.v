(* C01 for OrefaFS: the OrefaFS model refines the specification of Linux (Posix.v).

   Setting: Linux flavour, the administrator, symbolic-link-free specification states that satisfy the
   heap invariant of C05 ([ohyps]); calls on clean absolute paths "/c1/.../cn" (abs_path cs, good components).
   [orel s w] relates an OrefaFS state to a specification state: same node numbers; the node map of OrefaFS
   answers, for every path, the node the tree walk of the specification reaches; node by node the same type,
   children, meta data, and for files link count and content.  Not related (and not observable through the
   calls compared): the order of the association list that models the Go map, the link count and the id of a
   directory node, the id counter (OrefaFS numbers directories too), the content of a file node without any
   name left, the working directory (kept as a string by OrefaFS: class C01-CWD-STRING, all paths here are
   absolute).
   [orel_init]: the state the oracle stream starts the model from, [oworld_of_sworld w], is related to w.
   Step theorems: related states, same call => equal projected results (directories: name, mode, owner only)
   and related states again. *)
From Avfs Require Import Base PathModel PathSpec PathProofs PathCleanProofs PathIterProofs MemFS MemFile World Posix
  WalkBridge Inv InvPath InvConseq InvCheck OrefaFS OrefaWorld OrefaLemmas OrefaInv OrefaSpec.

(* ---- walks on components ------------------------------------------------------------------------------ *)
Fixpoint twalk (h : heap) (d : nat) (cs : list str) : option nat :=
  match cs with
  | [] => Some d
  | c :: r => match alookup str_eqb c (children h d) with Some n => twalk h n r | None => None end
  end.

(* the answer of the kernel walk (final component looked up, no trailing slash) *)
Fixpoint tdown (h : heap) (d : nat) (cs : list str) : wres :=
  match cs with
  | [] => WNode d LRoot [] d
  | c :: rest =>
      if negb (node_is_dir h d) then WErr ENOTDIR
      else match alookup str_eqb c (children h d) with
           | None => match rest with [] => WNeg d c false | _ => WErr ENOENT end
           | Some n => match rest with [] => WNode d LNorm c n | _ => tdown h n rest end
           end
  end.

(* ... and in parent mode (the last component [c] is not looked up) *)
Fixpoint tpar (h : heap) (d : nat) (ps : list str) (c : str) : wres :=
  match ps with
  | [] => if negb (node_is_dir h d) then WErr ENOTDIR else WParent d LNorm c false
  | x :: rest =>
      if negb (node_is_dir h d) then WErr ENOTDIR
      else match alookup str_eqb x (children h d) with
           | None => WErr ENOENT
           | Some n => tpar h n rest c
           end
  end.

(* the error of a walk that does not get through [ps] *)
Fixpoint tfail (h : heap) (d : nat) (ps : list str) : N :=
  match ps with
  | [] => ENOENT
  | x :: rest =>
      if negb (node_is_dir h d) then ENOTDIR
      else match alookup str_eqb x (children h d) with None => ENOENT | Some n => tfail h n rest end
  end.

Lemma twalk_app h : forall a b d,
  twalk h d (a ++ b) = match twalk h d a with Some m => twalk h m b | None => None end.
Proof.
  induction a as [|x a IH]; intros b d; [reflexivity|]. cbn [app twalk].
  destruct (alookup str_eqb x (children h d)); [apply IH|reflexivity].
Qed.

Lemma twalk_snoc h d ps c :
  twalk h d (ps ++ [c]) = match twalk h d ps with Some p => alookup str_eqb c (children h p) | None => None end.
Proof.
  rewrite twalk_app. destruct (twalk h d ps) as [p|]; [|reflexivity]. cbn [twalk].
  destruct (alookup str_eqb c (children h p)); reflexivity.
Qed.

Lemma tpar_spec h : forall ps d c,
  tpar h d ps c = match twalk h d ps with
                  | Some p => if node_is_dir h p then WParent p LNorm c false else WErr ENOTDIR
                  | None => WErr (tfail h d ps)
                  end.
Proof.
  induction ps as [|x ps IH]; intros d c; cbn [tpar twalk tfail].
  - destruct (node_is_dir h d); reflexivity.
  - destruct (node_is_dir h d) eqn:Ed; cbn [negb].
    + destruct (alookup str_eqb x (children h d)) as [n|]; [apply IH|reflexivity].
    + rewrite (children_nondir h d Ed). reflexivity.
Qed.

Lemma tdown_spec h : forall ps d c,
  tdown h d (ps ++ [c]) = match twalk h d ps with
                          | Some p => if node_is_dir h p
                                      then match alookup str_eqb c (children h p) with
                                           | Some n => WNode p LNorm c n
                                           | None => WNeg p c false
                                           end
                                      else WErr ENOTDIR
                          | None => WErr (tfail h d ps)
                          end.
Proof.
  induction ps as [|x ps IH]; intros d c; cbn [app tdown twalk tfail].
  - destruct (node_is_dir h d); cbn [negb]; [|reflexivity]. destruct (alookup str_eqb c (children h d)); reflexivity.
  - destruct (node_is_dir h d) eqn:Ed; cbn [negb].
    + destruct (alookup str_eqb x (children h d)) as [n|].
      * rewrite <- IH. destruct (ps ++ [c]) eqn:E; [destruct ps; discriminate|reflexivity].
      * destruct (ps ++ [c]) eqn:E; [destruct ps; discriminate|reflexivity].
    + rewrite (children_nondir h d Ed). reflexivity.
Qed.

Lemma tfail_snoc h : forall ps d c, twalk h d (ps ++ [c]) = None ->
  tfail h d (ps ++ [c]) = match twalk h d ps with
                          | Some p => if node_is_dir h p then ENOENT else ENOTDIR
                          | None => tfail h d ps
                          end.
Proof.
  induction ps as [|x ps IH]; intros d c Hn; cbn [app tfail twalk] in *.
  - destruct (node_is_dir h d); cbn [negb]; [|reflexivity]. destruct (alookup str_eqb c (children h d)); [discriminate|reflexivity].
  - destruct (node_is_dir h d) eqn:Ed; cbn [negb].
    + destruct (alookup str_eqb x (children h d)) as [n|]; [apply IH; exact Hn|reflexivity].
    + rewrite (children_nondir h d Ed). reflexivity.
Qed.

(* ---- the hypotheses on the specification state ---------------------------------------------------------- *)
Record ohyps (s : fsys) (sv : sview) : Prop := {
  oh_os : v_os (sv_view sv) = Linux;
  oh_admin : us_admin (v_user (sv_view sv)) = true;
  oh_inv : Inv_heap (f_heap s);
  oh_root : node_is_dir (f_heap s) (v_root (sv_view sv)) = true;
  oh_nosym : forall i t m, get (f_heap s) i <> Some (NSym t m);
  oh_names : forall d n c, edge (f_heap s) d n c -> good_comp n;
  oh_modes : forall i nd, get (f_heap s) i = Some nd -> has (m_mode (node_meta nd)) MODE_DIR = node_dirb nd
}.

(* ---- the kernel walk of a symbolic-link-free tree, for the administrator --------------------------------- *)
Section KWalk.
  Variables (h : heap) (u : user) (root : nat).
  Hypothesis Hadm : us_admin u = true.
  Hypothesis Hinv : Inv_heap h.
  Hypothesis Hnosym : forall i t m, get h i <> Some (NSym t m).

  Lemma kperm_dir_admin d mask : node_is_dir h d = true -> kperm h d mask u = true.
  Proof.
    intros Hd. unfold kperm. rewrite node_is_dir_get in Hd. destruct (get h d); [|discriminate]. rewrite Hadm. reflexivity.
  Qed.

  Lemma child_get d c n : alookup str_eqb c (children h d) = Some n -> exists nd, get h n = Some nd.
  Proof.
    intros Hl. apply get_some. apply (I1_valid Hinv d c n). unfold edge. apply al_in. exact Hl.
  Qed.

  Lemma kwalk_tdown follow : forall cs fuel d cnt, Forall good_comp cs -> length cs < fuel ->
    kwalk fuel h u root false follow d cs cnt false = tdown h d cs.
  Proof.
    induction cs as [|c rest IH]; intros fuel d cnt Hg Hf; (destruct fuel as [|f]; [cbn [length] in Hf; lia|]).
    - reflexivity.
    - inversion Hg as [|? ? Hc Hr]; subst. cbn [kwalk tdown].
      destruct (node_is_dir h d) eqn:Ed; cbn [negb]; [|reflexivity].
      rewrite (kperm_dir_admin d 1 Ed). cbn [negb andb].
      destruct Hc as (_ & _ & Hdot & Hdd).
      assert (E1 : str_eqb c DOTS = false) by (apply str_eqb_neq; exact Hdot).
      assert (E2 : str_eqb c DOTDOTS = false) by (apply str_eqb_neq; exact Hdd).
      rewrite E1, E2.
      destruct (alookup str_eqb c (children h d)) as [n|] eqn:El.
      + destruct (child_get d c n El) as (nd & Hn). rewrite Hn. destruct nd as [ch m|dd k i m|t m].
        * destruct rest as [|c2 rest]; [reflexivity|]. cbn [is_nil]. apply IH; [exact Hr|cbn [length] in *; lia].
        * destruct rest as [|c2 rest]; [reflexivity|]. cbn [is_nil].
          assert (Hnd : node_is_dir h n = false) by (rewrite node_is_dir_get, Hn; reflexivity).
          cbn [tdown]. rewrite Hnd. reflexivity.
        * exfalso. exact (Hnosym n t m Hn).
      + destruct rest; reflexivity.
  Qed.

  Lemma kwalk_tpar follow : forall ps fuel d cnt c, Forall good_comp (ps ++ [c]) -> length ps < fuel ->
    kwalk fuel h u root true follow d (ps ++ [c]) cnt false = tpar h d ps c.
  Proof.
    induction ps as [|x ps IH]; intros fuel d cnt c Hg Hf; (destruct fuel as [|f]; [cbn [length] in Hf; lia|]).
    - cbn [app kwalk tpar]. destruct (node_is_dir h d) eqn:Ed; cbn [negb]; [|reflexivity].
      rewrite (kperm_dir_admin d 1 Ed). cbn [negb andb is_nil].
      inversion Hg as [|? ? Hc _]; subst. destruct Hc as (_ & _ & Hdot & Hdd).
      assert (E1 : str_eqb c DOTS = false) by (apply str_eqb_neq; exact Hdot).
      assert (E2 : str_eqb c DOTDOTS = false) by (apply str_eqb_neq; exact Hdd).
      rewrite E1, E2. reflexivity.
    - cbn [app] in Hg. inversion Hg as [|? ? Hx Hr]; subst. cbn [app kwalk tpar].
      destruct (node_is_dir h d) eqn:Ed; cbn [negb]; [|reflexivity].
      rewrite (kperm_dir_admin d 1 Ed). cbn [negb].
      assert (Hnil : is_nil (ps ++ [c]) = false) by (destruct ps; reflexivity). rewrite Hnil, andb_false_r.
      destruct Hx as (_ & _ & Hdot & Hdd).
      assert (E1 : str_eqb x DOTS = false) by (apply str_eqb_neq; exact Hdot).
      assert (E2 : str_eqb x DOTDOTS = false) by (apply str_eqb_neq; exact Hdd).
      rewrite E1, E2.
      destruct (alookup str_eqb x (children h d)) as [n|] eqn:El; [|reflexivity].
      destruct (child_get d x n El) as (nd & Hn). rewrite Hn. destruct nd as [ch m|dd k i m|t m].
      + apply IH; [exact Hr|cbn [length] in *; lia].
      + assert (Hnd : node_is_dir h n = false) by (rewrite node_is_dir_get, Hn; reflexivity).
        destruct ps; cbn [tpar]; rewrite Hnd; reflexivity.
      + exfalso. exact (Hnosym n t m Hn).
  Qed.
End KWalk.

(* ---- the relation between an OrefaFS state and a specification state ------------------------------------- *)
Definition nrel (o : option onode) (n : option node) : Prop :=
  match n with
  | None => o = None
  | Some (NDir ch m) => exists x, o = Some x /\ on_dir x = true /\ on_ch x = ch /\ on_meta x = m
  | Some (NFile d k i m) =>
      exists x, o = Some x /\ on_dir x = false /\ on_ch x = [] /\ on_nlink x = k /\ on_meta x = m
                /\ (k <> 0%Z -> on_data x = d)
  | Some (NSym _ _) => True
  end.

Record orel (o : ofs) (s : fsys) (sv : sview) : Prop := {
  or_os : o_os o = Linux;
  or_user : o_user o = v_user (sv_view sv);
  or_umask : o_umask o = v_umask (sv_view sv);
  or_slash : ikey (o_index o) [SLASH] = Some (v_root (sv_view sv));
  or_index : forall cs, gcs cs -> ikey (o_index o) (rpath cs) = twalk (f_heap s) (v_root (sv_view sv)) cs;
  or_len : length (o_heap o) = length (f_heap s);
  or_node : forall i, nrel (oget (o_heap o) i) (get (f_heap s) i)
}.

(* ---- the state built from a specification state is related to it ------------------------------------------ *)
Lemma al_app (V : Type) k (a b : list (str * V)) :
  alookup str_eqb k (a ++ b) = match alookup str_eqb k a with Some v => Some v | None => alookup str_eqb k b end.
Proof.
  induction a as [|[k' v'] a IH]; cbn [app alookup]; [reflexivity|]. destruct (str_eqb k k'); [reflexivity|exact IH].
Qed.

Lemma al_notin_none (V : Type) k (m : list (str * V)) : ~ In k (map fst m) -> alookup str_eqb k m = None.
Proof.
  induction m as [|[k' v'] m IH]; cbn [alookup map fst]; [reflexivity|]. intros Hn.
  destruct (str_eqb_spec k k') as [->|_]; [exfalso; apply Hn; left; reflexivity|]. apply IH. intros H. apply Hn. right. exact H.
Qed.

Section IndexOf.
  Variable h : heap.
  Hypothesis Hinv : Inv_heap h.
  Hypothesis Hnames : forall d n c, edge h d n c -> good_comp n.

  (* every key of the enumeration below [pre] is a path that extends [pre] *)
  Lemma index_of_keys : forall fuel pre i k j, gcs pre ->
    In (k, j) (index_of fuel Linux h (rpath pre) i) -> exists x, gcs x /\ k = rpath (pre ++ x).
  Proof.
    induction fuel as [|f IH]; intros pre i k j Hpre Hin; cbn [index_of] in Hin; [destruct Hin|].
    destruct Hin as [E|Hin].
    - inversion E; subst. exists []. rewrite app_nil_r. split; [constructor|reflexivity].
    - destruct (get h i) as [[ch m|? ? ? ?|? ?]|] eqn:Eg; try destruct Hin.
      apply in_flat_map in Hin. destruct Hin as ([name c] & Hch & Hin). cbn [fst snd sepc] in Hin.
      assert (Hgn : good_comp name). { apply (Hnames i name c). apply edge_get. eauto. }
      change (rpath pre ++ [SLASH] ++ name) with (rpath pre ++ SLASH :: name) in Hin. rewrite <- rpath_snoc in Hin.
      destruct (IH (pre ++ [name]) c k j (gcs_snoc _ _ Hpre Hgn) Hin) as (x & Hx & ->).
      exists (name :: x). split; [constructor; assumption|]. rewrite <- app_assoc. reflexivity.
  Qed.

  Lemma index_of_lookup : forall k fuel pre i cs, maxlen h i k -> k <= fuel -> gcs pre -> gcs cs ->
    alookup str_eqb (rpath (pre ++ cs)) (index_of fuel Linux h (rpath pre) i) = twalk h i cs.
  Proof.
    induction k as [|k IH]; intros fuel pre i cs Hm Hf Hpre Hcs.
    - apply maxlen_pos in Hm. lia.
    - destruct fuel as [|f]; [lia|]. cbn [index_of alookup].
      destruct cs as [|c r].
      + replace (pre ++ []) with pre by (symmetry; apply app_nil_r). rewrite (str_eqb_refl (rpath pre)). reflexivity.
      + inversion Hcs as [|? ? Hc Hr]; subst.
        assert (Hne : str_eqb (rpath (pre ++ c :: r)) (rpath pre) = false).
        { apply str_eqb_neq. intros E. apply rpath_inj in E; [|apply gcs_ok; apply gcs_app; assumption|apply gcs_ok; exact Hpre].
          apply (f_equal (@length str)) in E. rewrite app_length in E. cbn in E. lia. }
        rewrite Hne. cbn [twalk]. rewrite children_get.
        destruct (get h i) as [[ch m|? ? ? ?|? ?]|] eqn:Eg; cbn [node_children alookup]; try reflexivity.
        assert (Hed : forall name c0, In (name, c0) ch -> edge h i name c0) by (intros; apply edge_get; eauto).
        assert (Hnd : NoDup (map fst ch)).
        { pose proof (I2_names Hinv i) as H. rewrite children_get, Eg in H. exact H. }
        clear Eg. induction ch as [|[name c0] ch IHch]; cbn [flat_map alookup]; [reflexivity|].
        rewrite al_app. cbn [fst snd sepc].
        change (rpath pre ++ [SLASH] ++ name) with (rpath pre ++ SLASH :: name). rewrite <- rpath_snoc.
        assert (Hgn : good_comp name) by (apply (Hnames i name c0); apply Hed; left; reflexivity).
        inversion Hnd as [|? ? Hni Hnd']; subst.
        destruct (str_eqb_spec c name) as [->|Hcn].
        * replace (pre ++ name :: r) with ((pre ++ [name]) ++ r) by (rewrite <- app_assoc; reflexivity).
          rewrite (IH f (pre ++ [name]) c0 r); [|eapply maxlen_child; [apply Hed; left; reflexivity|exact Hm]|lia|apply gcs_snoc; assumption|exact Hr].
          destruct (twalk h c0 r) as [n|]; [reflexivity|].
          (* the other children have other names *)
          apply al_notin_none. intros Hin. apply in_map_iff in Hin. destruct Hin as ([k2 j2] & Ek & Hin). cbn [fst] in Ek. subst k2.
          apply in_flat_map in Hin. destruct Hin as ([name2 c2] & Hch2 & Hin). cbn [fst snd sepc] in Hin.
          change (rpath pre ++ [SLASH] ++ name2) with (rpath pre ++ SLASH :: name2) in Hin. rewrite <- rpath_snoc in Hin.
          assert (Hgn2 : good_comp name2) by (apply (Hnames i name2 c2); apply Hed; right; exact Hch2).
          destruct (index_of_keys f (pre ++ [name2]) c2 _ j2 (gcs_snoc _ _ Hpre Hgn2) Hin) as (x & Hx & E).
          apply rpath_inj in E; [|apply gcs_ok; apply gcs_app; [apply gcs_snoc; assumption|exact Hr]
                                  |apply gcs_ok; apply gcs_app; [apply gcs_snoc; assumption|exact Hx]].
          rewrite <- !app_assoc in E. apply app_inv_head in E. cbn [app] in E. inversion E; subst.
          apply Hni. apply in_map_iff. exists (name2, c2). auto.
        * assert (Hnone : alookup str_eqb (rpath (pre ++ c :: r)) (index_of f Linux h (rpath (pre ++ [name])) c0) = None).
          { apply al_notin_none. intros Hin. apply in_map_iff in Hin. destruct Hin as ([k2 j2] & Ek & Hin). cbn [fst] in Ek. subst k2.
            destruct (index_of_keys f (pre ++ [name]) c0 _ j2 (gcs_snoc _ _ Hpre Hgn) Hin) as (x & Hx & E).
            apply rpath_inj in E; [|apply gcs_ok; apply gcs_app; assumption
                                    |apply gcs_ok; apply gcs_app; [apply gcs_snoc; assumption|exact Hx]].
            rewrite <- app_assoc in E. apply app_inv_head in E. cbn [app] in E. inversion E; subst. congruence. }
          rewrite Hnone. apply IHch; [|exact Hnd']. intros name2 c2 H2. apply Hed. right. exact H2.
  Qed.
End IndexOf.

Lemma oget_oheap_of root : forall h off i, oget (oheap_of root off h) i = option_map (onode_of root (off + i)) (get h i).
Proof.
  unfold oget, get. induction h as [|n h IH]; intros off i; cbn [oheap_of].
  - destruct i; reflexivity.
  - destruct i as [|i]; cbn [nth_error option_map]; [rewrite Nat.add_0_r; reflexivity|].
    rewrite IH. replace (S off + i) with (off + S i) by lia. reflexivity.
Qed.

Lemma oheap_of_length root : forall h off, length (oheap_of root off h) = length h.
Proof. induction h as [|n h IH]; intros off; cbn [oheap_of length]; [reflexivity|]. rewrite IH. reflexivity. Qed.

Theorem orel_init (s : fsys) (sv : sview) :
  ohyps s sv -> orel (ow_fs (oworld_of_sworld {| sw_fs := s; sw_sv := sv |})) s sv.
Proof.
  intros H. pose proof (oh_os _ _ H) as Hos. unfold oworld_of_sworld. cbn [ow_fs sw_fs sw_sv]. rewrite Hos.
  constructor; cbn [o_os o_user o_umask o_index o_heap sepc]; try reflexivity.
  - intros cs Hcs. unfold ikey. cbn [alookup].
    assert (Hne : str_eqb (rpath cs) [SLASH] = false) by (apply str_eqb_neq; apply rpath_not_slash; apply gcs_ok; exact Hcs).
    rewrite Hne. change (index_of (S (length (f_heap s))) Linux (f_heap s) [] (v_root (sv_view sv))) with (index_of (S (length (f_heap s))) Linux (f_heap s) (rpath []) (v_root (sv_view sv))).
    change (rpath cs) with (rpath ([] ++ cs)).
    apply (index_of_lookup (f_heap s) (oh_inv _ _ H) (oh_names _ _ H) (S (length (f_heap s))) (S (length (f_heap s))) [] _ cs);
      [apply maxlen_heap; apply (oh_inv _ _ H)|lia|constructor|exact Hcs].
  - apply oheap_of_length.
  - intros i. rewrite oget_oheap_of. destruct (get (f_heap s) i) as [nd|] eqn:Eg; cbn [option_map nrel]; [|reflexivity].
    pose proof (oh_modes _ _ H i nd Eg) as Hm. destruct nd as [ch m|d k id m|t m]; cbn [nrel onode_of node_meta node_dirb] in *.
    + eexists. split; [reflexivity|]. unfold on_dir. cbn [on_meta on_ch]. auto.
    + eexists. split; [reflexivity|]. unfold on_dir. cbn [on_meta on_ch on_nlink on_data]. auto 6.
    + exact I.
Qed.

(* ---- look-ups of related states ---------------------------------------------------------------------------- *)
Section Related.
  Variables (o : ofs) (s : fsys) (sv : sview).
  Hypothesis Hh : ohyps s sv.
  Hypothesis Hr : orel o s sv.
  Notation h := (f_heap s).
  Notation root := (v_root (sv_view sv)).

  Lemma twalk_valid : forall cs d i, (exists nd, get h d = Some nd) -> twalk h d cs = Some i -> exists nd, get h i = Some nd.
  Proof.
    induction cs as [|c r IH]; intros d i Hd Hw; cbn [twalk] in Hw; [inversion Hw; subst; exact Hd|].
    destruct (alookup str_eqb c (children h d)) as [n|] eqn:El; [|discriminate].
    apply (IH n i); [|exact Hw]. apply (child_get h (oh_inv _ _ Hh) d c n El).
  Qed.

  Lemma root_valid : exists nd, get h root = Some nd.
  Proof. pose proof (oh_root _ _ Hh) as H. rewrite node_is_dir_get in H. destruct (get h root); [eauto|discriminate]. Qed.

  Lemma nrel_dir x i : nrel (Some x) (get h i) -> on_dir x = node_is_dir h i.
  Proof.
    rewrite node_is_dir_get. destruct (get h i) as [[ch m|d k id m|t m]|] eqn:E; cbn [nrel node_dirb].
    - intros (y & [= <-] & Hd & _). exact Hd.
    - intros (y & [= <-] & Hd & _). exact Hd.
    - intros _. exfalso. exact (oh_nosym _ _ Hh i t m E).
    - discriminate.
  Qed.

  Lemma nrel_ch x i : nrel (Some x) (get h i) -> on_ch x = children h i.
  Proof.
    rewrite children_get. destruct (get h i) as [[ch m|d k id m|t m]|] eqn:E; cbn [nrel node_children].
    - intros (y & [= <-] & _ & Hc & _). exact Hc.
    - intros (y & [= <-] & _ & Hc & _). exact Hc.
    - intros _. exfalso. exact (oh_nosym _ _ Hh i t m E).
    - discriminate.
  Qed.

  Lemma nrel_meta x i : nrel (Some x) (get h i) -> on_meta x = meta_of h i.
  Proof.
    unfold meta_of. destruct (get h i) as [[ch m|d k id m|t m]|] eqn:E; cbn [nrel node_meta].
    - intros (y & [= <-] & _ & _ & Hm). exact Hm.
    - intros (y & [= <-] & _ & _ & _ & Hm & _). exact Hm.
    - intros _. exfalso. exact (oh_nosym _ _ Hh i t m E).
    - discriminate.
  Qed.

  Lemma ofind_twalk cs : gcs cs ->
    match twalk h root cs with
    | Some i => exists x, ofind o (rpath cs) = Some (i, x) /\ nrel (Some x) (get h i)
    | None => ofind o (rpath cs) = None
    end.
  Proof.
    intros Hcs. unfold ofind. rewrite (or_index _ _ _ Hr cs Hcs).
    destruct (twalk h root cs) as [i|] eqn:Ew; [|reflexivity].
    destruct (twalk_valid cs root i root_valid Ew) as (nd & Hnd).
    pose proof (or_node _ _ _ Hr i) as Hn. rewrite Hnd in Hn.
    destruct (oget (o_heap o) i) as [x|] eqn:Eo.
    - exists x. split; [reflexivity|]. rewrite Hnd. exact Hn.
    - exfalso. destruct nd as [ch m|d k id m|t m]; cbn [nrel] in Hn.
      + destruct Hn as (y & [=] & _).
      + destruct Hn as (y & [=] & _).
      + exact (oh_nosym _ _ Hh i t m Hnd).
  Qed.

  Lemma oabs_abs cs : gcs cs -> oabs o (abs_path cs) = abs_path cs.
  Proof.
    intros Hcs. unfold oabs. rewrite (or_os _ _ _ Hr). rewrite abs_linux_def.
    change (is_abs Linux (abs_path cs)) with true. cbv iota. apply clean_abs_path_fix. exact Hcs.
  Qed.

  (* errNotFound walks up; the kernel walks down: the same verdict *)
  Lemma enf_loop_rel r : forall qs fuel c0, gcs (qs ++ [c0]) -> length qs < fuel ->
    o_enf_loop fuel o (rpath (qs ++ [c0])) r =
      match twalk h root qs with
      | Some q => if node_is_dir h q then r else RFail ENotADirectory
      | None => if N.eqb (tfail h root qs) ENOTDIR then RFail ENotADirectory else r
      end.
  Proof.
    assert (Hstep : forall qs f c0, gcs qs -> good_comp c0 ->
              o_enf_loop (S f) o (rpath (qs ++ [c0])) r =
                match ofind o (rpath qs) with
                | Some (_, n) => if on_dir n then r else RFail ENotADirectory
                | None => o_enf_loop f o (rpath qs) r
                end).
    { intros qs f c0 Hq Hc0. cbn [o_enf_loop]. rewrite (or_os _ _ _ Hr). cbn [volume_name_len].
      assert (Hl : Nat.leb (length (rpath (qs ++ [c0]))) 0 = false)
        by (apply Nat.leb_gt; rewrite rpath_snoc, app_length; cbn [length]; lia).
      rewrite Hl. rewrite (split_abs_rpath qs c0) by (apply comp_ok_nosl; apply good_comp_ok'; exact Hc0). reflexivity. }
    induction qs as [|c' qs' IH] using rev_ind; intros fuel c0 Hg Hf; (destruct fuel as [|f]; [cbn [length] in Hf; lia|]);
      apply gcs_snoc_inv in Hg; destruct Hg as [Hq Hc0]; rewrite (Hstep _ f c0 Hq Hc0).
    - pose proof (ofind_twalk [] (Forall_nil _)) as H0. cbn [twalk] in *. destruct H0 as (x & Hx & Hn). rewrite Hx.
      rewrite (nrel_dir x root Hn). reflexivity.
    - pose proof (ofind_twalk (qs' ++ [c']) Hq) as H0.
      destruct (twalk h root (qs' ++ [c'])) as [q|] eqn:Ew.
      + destruct H0 as (x & Hx & Hn). rewrite Hx, (nrel_dir x q Hn). reflexivity.
      + rewrite H0. rewrite app_length in Hf. cbn [length] in Hf.
        rewrite (IH f c' Hq) by lia. rewrite (tfail_snoc h qs' root c' Ew).
        destruct (twalk h root qs') as [p|]; [|reflexivity]. destruct (node_is_dir h p); reflexivity.
  Qed.

  Lemma enf_rel r ps c : gcs (ps ++ [c]) ->
    o_enf o (rpath (ps ++ [c])) r =
      match twalk h root ps with
      | Some q => if node_is_dir h q then r else RFail ENotADirectory
      | None => if N.eqb (tfail h root ps) ENOTDIR then RFail ENotADirectory else r
      end.
  Proof.
    intros Hg. unfold o_enf. apply enf_loop_rel; [exact Hg|].
    pose proof (rpath_length_ge (ps ++ [c])) as H. rewrite app_length in H. cbn [length] in H. lia.
  Qed.

  Lemma tfail_cases : forall ps d, tfail h d ps = ENOENT \/ tfail h d ps = ENOTDIR.
  Proof.
    induction ps as [|x ps IH]; intros d; cbn [tfail]; [left; reflexivity|].
    destruct (node_is_dir h d); cbn [negb]; [|right; reflexivity].
    destruct (alookup str_eqb x (children h d)); [apply IH|left; reflexivity].
  Qed.

  (* the two walks of the specification on "/ps/c" *)
  Lemma klookup_down follow ps c : gcs (ps ++ [c]) -> length (ps ++ [c]) < WALK_FUEL ->
    klookup s sv false follow (abs_path (ps ++ [c])) = tdown h root (ps ++ [c]).
  Proof.
    intros Hg Hl. rewrite (WalkBridge.klookup_abs_path s sv false follow (ps ++ [c]) Hg).
    replace (match ps ++ [c] with [] => true | _ :: _ => false end) with false by (destruct ps; reflexivity).
    apply (kwalk_tdown h (v_user (sv_view sv)) root (oh_admin _ _ Hh) (oh_inv _ _ Hh) (oh_nosym _ _ Hh)); assumption.
  Qed.

  Lemma klookup_par follow ps c : gcs (ps ++ [c]) -> length (ps ++ [c]) < WALK_FUEL ->
    klookup s sv true follow (abs_path (ps ++ [c])) = tpar h root ps c.
  Proof.
    intros Hg Hl. rewrite (WalkBridge.klookup_abs_path s sv true follow (ps ++ [c]) Hg).
    replace (match ps ++ [c] with [] => true | _ :: _ => false end) with false by (destruct ps; reflexivity).
    apply (kwalk_tpar h (v_user (sv_view sv)) root (oh_admin _ _ Hh) (oh_inv _ _ Hh) (oh_nosym _ _ Hh)); [exact Hg|].
    rewrite app_length in Hl. cbn [length] in Hl. lia.
  Qed.
End Related.

(* ---- results: equal, except what a directory's FileInfo says about size and link count, and ids ---------- *)
Definition info_osim (i j : finfo) : Prop :=
  fi_name i = fi_name j /\ fi_mode i = fi_mode j /\ fi_uid i = fi_uid j /\ fi_gid i = fi_gid j /\
  (has (fi_mode j) MODE_DIR = false -> fi_size i = fi_size j /\ fi_nlink i = fi_nlink j).

Definition osim (a b : pres) : Prop :=
  a = b \/ (exists i j, a = SInfo i /\ b = SInfo j /\ info_osim i j)
  \/ (exists l l', a = SInfos l /\ b = SInfos l' /\ Forall2 info_osim l l').

Section Steps.
  Variables (o : ofs) (s : fsys) (sv : sview).
  Hypothesis Hh : ohyps s sv.
  Hypothesis Hr : orel o s sv.
  Notation h := (f_heap s).
  Notation root := (v_root (sv_view sv)).

  Inductive resolved4 (ps : list str) (c : str) : Prop :=
  | R_found p px i x :
      twalk h root ps = Some p -> ofind o (rpath ps) = Some (p, px) -> nrel (Some px) (get h p) ->
      node_is_dir h p = true -> alookup str_eqb c (children h p) = Some i ->
      ofind o (rpath (ps ++ [c])) = Some (i, x) -> nrel (Some x) (get h i) -> resolved4 ps c
  | R_absent p px :
      twalk h root ps = Some p -> ofind o (rpath ps) = Some (p, px) -> nrel (Some px) (get h p) ->
      node_is_dir h p = true -> alookup str_eqb c (children h p) = None ->
      ofind o (rpath (ps ++ [c])) = None -> resolved4 ps c
  | R_notdir p px :
      twalk h root ps = Some p -> ofind o (rpath ps) = Some (p, px) -> nrel (Some px) (get h p) ->
      node_is_dir h p = false -> ofind o (rpath (ps ++ [c])) = None -> resolved4 ps c
  | R_nopath :
      twalk h root ps = None -> ofind o (rpath ps) = None -> ofind o (rpath (ps ++ [c])) = None -> resolved4 ps c.

  Lemma resolve4 ps c : gcs (ps ++ [c]) -> resolved4 ps c.
  Proof.
    intros Hg. pose proof Hg as Hg'. apply gcs_snoc_inv in Hg'. destruct Hg' as [Hps Hc].
    pose proof (ofind_twalk o s sv Hh Hr ps Hps) as H1. pose proof (ofind_twalk o s sv Hh Hr (ps ++ [c]) Hg) as H2.
    rewrite twalk_snoc in H2. destruct (twalk h root ps) as [p|] eqn:Ep.
    - destruct H1 as (px & Hpx & Hn). destruct (node_is_dir h p) eqn:Ed.
      + destruct (alookup str_eqb c (children h p)) as [i|] eqn:El.
        * destruct H2 as (x & Hx & Hnx). eapply R_found; eauto.
        * eapply R_absent; eauto.
      + rewrite (children_nondir h p Ed) in H2. cbn [alookup] in H2. eapply R_notdir; eauto.
    - apply R_nopath; auto.
  Qed.

  (* a node with a name has a positive link count *)
  Lemma file_named p c i d k id m : alookup str_eqb c (children h p) = Some i -> get h i = Some (NFile d k id m) -> k <> 0%Z.
  Proof.
    intros Hl Hg. pose proof (I6_nlink (oh_inv _ _ Hh)) as H6. specialize (H6 i d k id m Hg). rewrite H6.
    assert (0 < indeg h i); [|lia]. apply indeg_pos. exists p, c. unfold edge. apply al_in. exact Hl.
  Qed.

  Lemma fill_sim x p c i name : alookup str_eqb c (children h p) = Some i -> nrel (Some x) (get h i) ->
    info_osim (o_fill x name) (k_info h i name).
  Proof.
    intros Hl Hn. unfold k_info, o_fill, info_osim. destruct (get h i) as [[ch m|d k id m|t m]|] eqn:E; cbn [nrel] in Hn.
    - destruct Hn as (y & [= <-] & Hd & Hc & Hm). cbn [fi_name fi_mode fi_uid fi_gid fi_size fi_nlink]. rewrite Hm.
      repeat (split; [reflexivity|]). pose proof (oh_modes _ _ Hh i _ E) as Hmd. cbn [node_meta node_dirb] in Hmd. congruence.
    - destruct Hn as (y & [= <-] & Hd & Hc & Hk & Hm & Hdata). cbn [fi_name fi_mode fi_uid fi_gid fi_size fi_nlink]. rewrite Hm, Hd.
      repeat (split; [reflexivity|]). intros _. rewrite (Hdata (file_named p c i d k id m Hl E)). auto.
    - exfalso. exact (oh_nosym _ _ Hh i t m E).
    - discriminate.
  Qed.

  (* ---- Stat / Lstat ---------------------------------------------------------------------------------------- *)
  Theorem orefa_step_stat follow ps c : gcs (ps ++ [c]) -> length (ps ++ [c]) < WALK_FUEL ->
    osim (proj_res Linux (o_stat o (abs_path (ps ++ [c])))) (k_stat follow s sv (abs_path (ps ++ [c]))).
  Proof.
    intros Hg Hl. pose proof Hg as Hg'. apply gcs_snoc_inv in Hg'. destruct Hg' as [Hps Hc].
    unfold o_stat, k_stat. rewrite (oabs_abs o s sv Hr _ Hg), (or_os _ _ _ Hr), (oh_os _ _ Hh).
    rewrite (klookup_down s sv Hh follow ps c Hg Hl), (tdown_spec h ps root c).
    rewrite (@abs_path_rpath (ps ++ [c])) by (destruct ps; discriminate).
    rewrite (split_abs_rpath ps c) by (apply comp_ok_nosl; apply good_comp_ok'; exact Hc).
    destruct (resolve4 ps c Hg) as [p px i x Ew Hp Hnp Hd El Hx Hnx|p px Ew Hp Hnp Hd El Hx|p px Ew Hp Hnp Hd Hx|Ew Hp Hx];
      rewrite Hx, Ew.
    - rewrite Hd, El. right. left. do 2 eexists. split; [reflexivity|]. split; [reflexivity|].
      rewrite <- (@abs_path_rpath (ps ++ [c])) by (destruct ps; discriminate). apply (fill_sim x p c i _ El Hnx).
    - rewrite Hp, Hd, El, (nrel_dir s sv Hh px p Hnp), Hd. left. reflexivity.
    - rewrite Hp, Hd, (nrel_dir s sv Hh px p Hnp), Hd. left. reflexivity.
    - rewrite Hp, (enf_rel o s sv Hh Hr _ ps c Hg), Ew. left.
      destruct (tfail_cases s ps root) as [E|E]; rewrite E; reflexivity.
  Qed.
End Steps.

(* ---- the tree walk after one entry of one directory has changed ---------------------------------------- *)
Lemma twalk_walk h : forall ns r c, twalk h r ns = Some c -> walk h r ns c.
Proof.
  intros ns. induction ns as [|n ns IH] using rev_ind; intros r c Hw.
  - cbn [twalk] in Hw. inversion Hw; subst. constructor.
  - rewrite twalk_snoc in Hw. destruct (twalk h r ns) as [d|] eqn:E; [|discriminate].
    econstructor; [apply IH; exact E|]. unfold edge. apply al_in. exact Hw.
Qed.

Lemma twalk_dir_unique h r a b p : Inv_heap h -> twalk h r a = Some p -> twalk h r b = Some p -> is_dir h p -> a = b.
Proof. intros Hinv Ha Hb Hd. apply (walk_unique h r Hinv a p (twalk_walk h a r p Ha) b (twalk_walk h b r p Hb) Hd). Qed.

Section Edit.
  Variables (h h' : heap) (root p : nat) (ps : list str) (c : str) (v' : option nat).
  Hypothesis Hinv : Inv_heap h.
  Hypothesis Hrootv : root < length h.
  Hypothesis Hps : twalk h root ps = Some p.
  Hypothesis Hpd : is_dir h p.
  (* the children maps agree except for the entry c of directory p, which is now v' *)
  Hypothesis Hch : forall d c1, d < length h ->
    alookup str_eqb c1 (children h' d) = if Nat.eqb d p && str_eqb c1 c then v' else alookup str_eqb c1 (children h d).
  (* the new entry, if any, leads to a node without entries *)
  Hypothesis Hnew_leaf : forall i c2, v' = Some i -> alookup str_eqb c2 (children h' i) = None.

  Lemma twalk_lt : forall cs d i, d < length h -> twalk h d cs = Some i -> i < length h.
  Proof.
    induction cs as [|x r IH]; intros d i Hd Hw; cbn [twalk] in Hw; [inversion Hw; subst; exact Hd|].
    destruct (alookup str_eqb x (children h d)) as [n|] eqn:El; [|discriminate].
    apply (IH n i); [|exact Hw]. apply (I1_valid Hinv d x n). unfold edge. apply al_in. exact El.
  Qed.

  Lemma twalk_edit : forall cs pre d, twalk h root pre = Some d -> strip (ps ++ [c]) pre = None ->
    twalk h' d cs = match strip (ps ++ [c]) (pre ++ cs) with
                    | Some [] => v'
                    | Some (_ :: _) => None
                    | None => twalk h d cs
                    end.
  Proof.
    induction cs as [|x r IH]; intros pre d Hpre Hnp.
    - rewrite app_nil_r, Hnp. reflexivity.
    - assert (Hd : d < length h) by (apply (twalk_lt pre root d Hrootv Hpre)).
      cbn [twalk]. rewrite (Hch d x Hd).
      destruct (Nat.eqb_spec d p) as [->|Hdp]; [destruct (str_eqb_spec x c) as [->|Hxc]|]; cbn [andb].
      + (* the changed entry *)
        assert (E : pre = ps) by (apply (twalk_dir_unique h root pre ps p Hinv Hpre Hps Hpd)). subst pre.
        replace (ps ++ c :: r) with ((ps ++ [c]) ++ r) by (rewrite <- app_assoc; reflexivity). rewrite strip_app.
        destruct v' as [n'|] eqn:Ev.
        * destruct r as [|y r']; [reflexivity|]. cbn [twalk]. rewrite (Hnew_leaf n' y eq_refl). reflexivity.
        * destruct r; reflexivity.
      + assert (Hnp' : strip (ps ++ [c]) (pre ++ [x]) = None).
        { apply strip_none. intros t E. destruct (snoc_eq_app _ _ _ _ E) as [[-> E2]|(t' & -> & E2)].
          - apply app_inj_tail in E2. destruct E2 as [_ E3]. congruence.
          - apply (proj1 (strip_none _ _) Hnp t'). exact E2. }
        replace (pre ++ x :: r) with ((pre ++ [x]) ++ r) by (rewrite <- app_assoc; reflexivity).
        destruct (alookup str_eqb x (children h p)) as [n|] eqn:El.
        * apply IH; [rewrite twalk_snoc, Hpre; exact El|exact Hnp'].
        * destruct (strip (ps ++ [c]) ((pre ++ [x]) ++ r)) as [[|y l]|] eqn:Es; try reflexivity.
          exfalso. apply strip_some in Es. rewrite app_nil_r in Es. rewrite <- app_assoc in Es. cbn [app] in Es.
          destruct r as [|z r'].
          -- apply app_inj_tail in Es. destruct Es as [_ E3]. congruence.
          -- destruct (@exists_last _ (z :: r') ltac:(discriminate)) as (l' & a & El').
             rewrite El' in Es.
             assert (E4 : (pre ++ x :: l') ++ [a] = ps ++ [c]) by (rewrite <- app_assoc; exact Es).
             apply app_inj_tail in E4. destruct E4 as [E5 _].
             rewrite <- E5 in Hps. rewrite twalk_app, Hpre in Hps. cbn [twalk] in Hps. rewrite El in Hps. discriminate.
      + assert (Hnp' : strip (ps ++ [c]) (pre ++ [x]) = None).
        { apply strip_none. intros t E. destruct (snoc_eq_app _ _ _ _ E) as [[-> E2]|(t' & -> & E2)].
          - apply app_inj_tail in E2. destruct E2 as [E3 _]. subst pre. rewrite Hps in Hpre. congruence.
          - apply (proj1 (strip_none _ _) Hnp t'). exact E2. }
        replace (pre ++ x :: r) with ((pre ++ [x]) ++ r) by (rewrite <- app_assoc; reflexivity).
        destruct (alookup str_eqb x (children h d)) as [n|] eqn:El.
        * apply IH; [rewrite twalk_snoc, Hpre; exact El|exact Hnp'].
        * destruct (strip (ps ++ [c]) ((pre ++ [x]) ++ r)) as [[|y l]|] eqn:Es; try reflexivity.
          exfalso. apply strip_some in Es. rewrite app_nil_r in Es. rewrite <- app_assoc in Es. cbn [app] in Es.
          destruct r as [|z r'].
          -- apply app_inj_tail in Es. destruct Es as [E3 _]. subst pre. rewrite Hps in Hpre. congruence.
          -- destruct (@exists_last _ (z :: r') ltac:(discriminate)) as (l' & a & El').
             rewrite El' in Es.
             assert (E4 : (pre ++ x :: l') ++ [a] = ps ++ [c]) by (rewrite <- app_assoc; exact Es).
             apply app_inj_tail in E4. destruct E4 as [E5 _].
             rewrite <- E5 in Hps. rewrite twalk_app, Hpre in Hps. cbn [twalk] in Hps. rewrite El in Hps. discriminate.
  Qed.
End Edit.

(* ---- a new leaf under an existing directory: the states stay related -------------------------------------- *)
Lemma orel_create (o o' : ofs) (s s' : fsys) (sv : sview) (ps : list str) (c : str) (p : nat) (px : onode)
      (nd_o : onode) (nd_s : node) :
  ohyps s sv -> orel o s sv -> gcs (ps ++ [c]) ->
  twalk (f_heap s) (v_root (sv_view sv)) ps = Some p -> ofind o (rpath ps) = Some (p, px) ->
  node_is_dir (f_heap s) p = true -> alookup str_eqb c (children (f_heap s) p) = None ->
  nrel (Some nd_o) (Some nd_s) -> node_children nd_s = [] ->
  o_os o' = o_os o -> o_user o' = o_user o -> o_umask o' = o_umask o ->
  o_index o' = aset str_eqb (rpath (ps ++ [c])) (length (o_heap o)) (o_index o) ->
  o_heap o' = o_add_child (o_heap o ++ [nd_o]) p c (length (o_heap o)) ->
  f_heap s' = add_child (f_heap s ++ [nd_s]) p c (length (f_heap s)) ->
  orel o' s' sv.
Proof.
  intros Hh Hr Hg Hw Hfp Hpd Hcn Hnn Hleaf Eos Eus Eum Eidx Eheap Esh.
  pose proof (or_len _ _ _ Hr) as Hlen. set (h := f_heap s) in *.
  apply ofind_some in Hfp. destruct Hfp as [Hip Hop].
  assert (Hplt : p < length h). { rewrite node_is_dir_get in Hpd. destruct (get h p) eqn:E; [|discriminate]. eapply get_lt; eauto. }
  pose proof (or_node _ _ _ Hr p) as Hnp. rewrite Hop in Hnp.
  assert (Hgp : exists chp m, get h p = Some (NDir chp m)) by (apply is_dir_get; exact Hpd).
  destruct Hgp as (chp & mp & Hgp). fold h in Hnp. rewrite Hgp in Hnp. cbn [nrel] in Hnp.
  destruct Hnp as (y & [= <-] & Hpxd & Hpxc & Hpxm).
  assert (Hgp' : get (h ++ [nd_s]) p = Some (NDir chp mp)) by (rewrite get_app_old; assumption).
  assert (Hheap' : f_heap s' = upd (h ++ [nd_s]) p (NDir (aset str_eqb c (length h) chp) mp)).
  { rewrite Esh. unfold add_child. fold h. rewrite Hgp'. reflexivity. }
  assert (Hrootv : v_root (sv_view sv) < length h).
  { pose proof (oh_root _ _ Hh) as H. rewrite node_is_dir_get in H. fold h in H. destruct (get h (v_root (sv_view sv))) eqn:E; [|discriminate]. eapply get_lt; eauto. }
  assert (Hch : forall d c1, d < length h ->
            alookup str_eqb c1 (children (f_heap s') d) = if Nat.eqb d p && str_eqb c1 c then Some (length h) else alookup str_eqb c1 (children h d)).
  { intros d c1 Hd. rewrite Hheap', children_upd. rewrite app_length. cbn [length].
    destruct (Nat.eqb_spec d p) as [->|Hdp]; cbn [andb].
    - destruct (Nat.ltb_spec p (length h + 1)); [|lia]. cbn [node_children]. rewrite (children_get h p), Hgp. cbn [node_children].
      destruct (str_eqb_spec c1 c) as [->|Hc1]; [apply al_aset_eq|apply al_aset_neq; exact Hc1].
    - rewrite children_app. destruct (Nat.ltb_spec d (length h)); [reflexivity|lia]. }
  assert (Hnl : forall i c2, Some (length h) = Some i -> alookup str_eqb c2 (children (f_heap s') i) = None).
  { intros i c2 [= <-]. rewrite Hheap', children_upd. destruct (Nat.eqb_spec (length h) p) as [E|_]; [lia|].
    rewrite children_app. destruct (Nat.ltb_spec (length h) (length h)); [lia|]. rewrite Nat.eqb_refl, Hleaf. reflexivity. }
  assert (Hgk : gcs ps /\ good_comp c) by (apply gcs_snoc_inv; exact Hg). destruct Hgk as [Hgps Hgc].
  constructor.
  - rewrite Eos. apply (or_os _ _ _ Hr).
  - rewrite Eus. apply (or_user _ _ _ Hr).
  - rewrite Eum. apply (or_umask _ _ _ Hr).
  - rewrite Eidx. unfold ikey. rewrite al_aset_neq; [apply (or_slash _ _ _ Hr)|].
    intros E. symmetry in E. revert E. apply rpath_not_slash. apply gcs_ok. exact Hg.
  - intros cs' Hcs'. rewrite Eidx.
    rewrite (twalk_edit h (f_heap s') (v_root (sv_view sv)) p ps c (Some (length h)) (oh_inv _ _ Hh) Hrootv Hw Hpd Hch Hnl cs' [] _ eq_refl)
      by (apply strip_none; intros t E; destruct ps; discriminate).
    cbn [app]. destruct (strip (ps ++ [c]) cs') as [[|y l]|] eqn:Es.
    + apply strip_some in Es. rewrite app_nil_r in Es. subst cs'. unfold ikey. rewrite Hlen. apply al_aset_eq.
    + apply strip_some in Es. subst cs'. unfold ikey. rewrite al_aset_neq.
      * fold (ikey (o_index o) (rpath ((ps ++ [c]) ++ y :: l))). rewrite (or_index _ _ _ Hr _ Hcs'). fold h.
        rewrite twalk_app, twalk_snoc, Hw, Hcn. reflexivity.
      * intros E. apply rpath_inj in E; [|apply gcs_ok; exact Hcs'|apply gcs_ok; exact Hg].
        apply (f_equal (@length str)) in E. rewrite !app_length in E. cbn [length] in E. lia.
    + unfold ikey. rewrite al_aset_neq.
      * apply (or_index _ _ _ Hr _ Hcs').
      * intros E. apply rpath_inj in E; [|apply gcs_ok; exact Hcs'|apply gcs_ok; exact Hg]. subst cs'.
        rewrite <- (app_nil_r (ps ++ [c])) in Es at 2. rewrite strip_app in Es. discriminate.
  - rewrite Eheap, Hheap'. unfold o_add_child. rewrite (oget_app_some _ nd_o _ _ Hop). rewrite oupd_length, upd_length, !app_length, Hlen. reflexivity.
  - intros i. rewrite Eheap, Hheap'. unfold o_add_child. rewrite (oget_app_some _ nd_o _ _ Hop).
    rewrite (oget_oupd _ _ _ _ _ (oget_app_some _ nd_o _ _ Hop)). rewrite get_upd, app_length. cbn [length].
    destruct (Nat.eqb_spec p i) as [<-|Hpi].
    + rewrite Nat.eqb_refl. destruct (Nat.ltb_spec p (length h + 1)); [|lia]. cbn [nrel].
      eexists. split; [reflexivity|]. cbn [on_with_ch on_ch on_meta]. unfold on_dir. cbn [on_with_ch on_meta].
      split; [exact Hpxd|]. split; [rewrite Hpxc, Hlen; reflexivity|exact Hpxm].
    + destruct (Nat.eqb_spec i p) as [E|_]; [congruence|]. rewrite get_app.
      destruct (Nat.ltb_spec i (length h)) as [Hil|Hig].
      * rewrite oget_app_old by (rewrite Hlen; exact Hil). apply (or_node _ _ _ Hr i).
      * destruct (Nat.eqb_spec i (length h)) as [->|Hne].
        -- rewrite <- Hlen. rewrite oget_app_new. exact Hnn.
        -- cbn [nrel]. unfold oget. apply nth_error_None. rewrite app_length. cbn [length]. lia.
Qed.

Lemma o_mkdir_abs (o : ofs) (cs : list str) (perm : N) :
  o_mkdir o (abs_path cs) perm =
    match osplit (o_os o) (oabs o (abs_path cs)) with
    | None => (o, RPanic)
    | Some (dir_name, file_name) =>
        match ofind o (oabs o (abs_path cs)) with
        | Some _ => (o, RFail EFileExists)
        | None =>
            match ofind o dir_name with
            | None => (o, o_enf o (oabs o (abs_path cs)) (RFail ENoSuchDir))
            | Some (pi, pn) =>
                if negb (on_dir pn) then (o, RFail ENotADirectory)
                else (fst (o_create_dir o pi (oabs o (abs_path cs)) file_name perm), ROk)
            end
        end
    end.
Proof. reflexivity. Qed.

(* ---- Mkdir ---------------------------------------------------------------------------------------------------- *)
Theorem orefa_step_mkdir (o : ofs) (s : fsys) (sv : sview) (ps : list str) (c : str) (perm : N) :
  ohyps s sv -> orel o s sv -> gcs (ps ++ [c]) -> length (ps ++ [c]) < WALK_FUEL ->
  proj_res Linux (snd (o_mkdir o (abs_path (ps ++ [c])) perm)) = snd (k_mkdir s sv (abs_path (ps ++ [c])) perm)
  /\ orel (fst (o_mkdir o (abs_path (ps ++ [c])) perm)) (fst (k_mkdir s sv (abs_path (ps ++ [c])) perm)) sv.
Proof.
  intros Hh Hr Hg Hl. pose proof Hg as Hg'. apply gcs_snoc_inv in Hg'. destruct Hg' as [Hps Hc].
  rewrite o_mkdir_abs. unfold k_mkdir.
  rewrite (oabs_abs o s sv Hr _ Hg), (or_os _ _ _ Hr).
  rewrite (klookup_par s sv Hh false ps c Hg Hl), (tpar_spec (f_heap s) ps (v_root (sv_view sv)) c).
  rewrite (@abs_path_rpath (ps ++ [c])) by (destruct ps; discriminate).
  rewrite (split_abs_rpath ps c) by (apply comp_ok_nosl; apply good_comp_ok'; exact Hc).
  destruct (resolve4 o s sv Hh Hr ps c Hg) as [p px i x Ew Hp Hnp Hd El Hx Hnx|p px Ew Hp Hnp Hd El Hx|p px Ew Hp Hnp Hd Hx|Ew Hp Hx];
    rewrite Hx, Ew.
  - rewrite Hd, El. cbn [snd fst]. split; [reflexivity|exact Hr].
  - rewrite Hp, Hd, El, (nrel_dir s sv Hh px p Hnp), Hd. cbn [negb].
    rewrite (kperm_dir_admin (f_heap s) (v_user (sv_view sv)) (oh_admin _ _ Hh) p 3 Hd). cbn [negb snd fst].
    split; [reflexivity|].
    unfold o_create_dir, o_create_node, alloc_child. cbn [fst].
    apply ofind_some in Hp. destruct Hp as [Hip Hop]. rewrite Hop.
    eapply (orel_create o _ s _ sv ps c p px); try eassumption; try reflexivity.
    + apply ofind_some. auto.
    + (* the two new nodes are related *)
      cbn [nrel]. eexists. split; [reflexivity|]. unfold on_dir. cbn [on_meta on_ch m_mode].
      rewrite (nrel_meta s sv Hh px p Hnp). rewrite (or_os _ _ _ Hr), (or_umask _ _ _ Hr), (or_user _ _ _ Hr).
      rewrite dir_mode_is_dir, andb_true_r. unfold kmeta, new_owner_gid, is_setgid. cbn [andb dir_mode].
      split; [|split; [reflexivity|]].
      * destruct (has (m_mode (meta_of (f_heap s) p)) MODE_SETGID); [rewrite <- N.lor_assoc|]; apply dir_mode_is_dir.
      * f_equal. destruct (has (m_mode (meta_of (f_heap s) p)) MODE_SETGID); [rewrite N.lor_assoc|]; reflexivity.
    + reflexivity.
  - rewrite Hp, Hd, (nrel_dir s sv Hh px p Hnp), Hd. cbn [negb snd fst]. split; [reflexivity|exact Hr].
  - rewrite Hp. cbn [snd fst]. split; [|exact Hr].
    rewrite (enf_rel o s sv Hh Hr _ ps c Hg), Ew.
    destruct (tfail_cases s ps (v_root (sv_view sv))) as [E|E]; rewrite E; reflexivity.
Qed.

(* ---- a boolean test of the hypotheses (for the examples) ----------------------------------------------------- *)
Definition good_compb (c : str) : bool :=
  negb (match c with [] => true | _ => false end) && forallb (fun x => negb (N.eqb x SLASH)) c
  && negb (str_eqb c [DOT]) && negb (str_eqb c [DOT; DOT]).

Lemma good_compb_sound c : good_compb c = true -> good_comp c.
Proof.
  unfold good_compb. rewrite !andb_true_iff. intros (((H1 & H2) & H3) & H4). repeat split.
  - intros ->. discriminate.
  - intros x Hx. rewrite forallb_forall in H2. specialize (H2 x Hx). apply negb_true_iff in H2. apply N.eqb_neq. exact H2.
  - apply negb_true_iff in H3. apply str_eqb_neq. exact H3.
  - apply negb_true_iff in H4. apply str_eqb_neq. exact H4.
Qed.

Definition node_okb (n : node) : bool :=
  match n with NSym _ _ => false | _ => true end
  && forallb (fun e => good_compb (fst e)) (node_children n)
  && Bool.eqb (has (m_mode (node_meta n)) MODE_DIR) (node_dirb n).

Definition ohyps_check (s : fsys) (sv : sview) : bool :=
  ostype_eqb (v_os (sv_view sv)) Linux && us_admin (v_user (sv_view sv)) && inv_heap_check (f_heap s)
  && node_is_dir (f_heap s) (v_root (sv_view sv)) && forallb node_okb (f_heap s).

Lemma ohyps_check_sound s sv : ohyps_check s sv = true -> ohyps s sv.
Proof.
  unfold ohyps_check. rewrite !andb_true_iff. intros ((((H1 & H2) & H3) & H4) & H5).
  assert (Hn : forall i nd, get (f_heap s) i = Some nd -> node_okb nd = true).
  { intros i nd Hg. rewrite forallb_forall in H5. apply H5. unfold get in Hg. eapply nth_error_In. exact Hg. }
  constructor.
  - destruct (v_os (sv_view sv)); [reflexivity|discriminate].
  - exact H2.
  - apply inv_heap_check_sound. exact H3.
  - exact H4.
  - intros i t m Hg. specialize (Hn i _ Hg). discriminate.
  - intros d n c He. apply edge_get in He. destruct He as (ch & m & Hg & Hin). specialize (Hn d _ Hg).
    unfold node_okb in Hn. rewrite !andb_true_iff in Hn. destruct Hn as ((_ & Hn) & _). cbn [node_children] in Hn.
    rewrite forallb_forall in Hn. apply good_compb_sound. apply (Hn (n, c) Hin).
  - intros i nd Hg. specialize (Hn i nd Hg). unfold node_okb in Hn. rewrite !andb_true_iff in Hn. destruct Hn as (_ & Hn).
    apply Bool.eqb_prop. exact Hn.
Qed.

(* ---- a name of a node without entries goes away: the states stay related ------------------------------------ *)
Lemma no_self_edge h p c : Inv_heap h -> alookup str_eqb c (children h p) <> Some p.
Proof.
  intros Hinv Hl. apply (@I5_acyclic _ Hinv p). exists p, c. split; [apply reach_refl|]. unfold edge. apply al_in. exact Hl.
Qed.

Lemma orel_unlink (o o' : ofs) (s s' : fsys) (sv : sview) (ps : list str) (c : str) (p i : nat) (px x : onode) :
  ohyps s sv -> orel o s sv -> gcs (ps ++ [c]) ->
  twalk (f_heap s) (v_root (sv_view sv)) ps = Some p -> ofind o (rpath ps) = Some (p, px) ->
  node_is_dir (f_heap s) p = true -> alookup str_eqb c (children (f_heap s) p) = Some i ->
  ofind o (rpath (ps ++ [c])) = Some (i, x) -> children (f_heap s) i = [] ->
  o_os o' = o_os o -> o_user o' = o_user o -> o_umask o' = o_umask o ->
  o_index o' = aremove str_eqb (rpath (ps ++ [c])) (o_index o) ->
  o_heap o' = o_del_child (o_release (o_heap o) i) p c ->
  f_heap s' = delete_node (remove_child (f_heap s) p c) i ->
  orel o' s' sv.
Proof.
  intros Hh Hr Hg Hw Hfp Hpd Hci Hfi Hleaf Eos Eus Eum Eidx Eheap Esh.
  pose proof (or_len _ _ _ Hr) as Hlen. set (h := f_heap s) in *.
  apply ofind_some in Hfp. destruct Hfp as [Hip Hop]. apply ofind_some in Hfi. destruct Hfi as [Hii Hoi].
  assert (Hip' : i <> p) by (intros ->; exact (no_self_edge h p c (oh_inv _ _ Hh) Hci)).
  assert (Hplt : p < length h). { rewrite node_is_dir_get in Hpd. destruct (get h p) eqn:E; [|discriminate]. eapply get_lt; eauto. }
  assert (Hgp : exists chp m, get h p = Some (NDir chp m)) by (apply is_dir_get; exact Hpd).
  destruct Hgp as (chp & mp & Hgp).
  pose proof (or_node _ _ _ Hr p) as Hnp. rewrite Hop in Hnp. fold h in Hnp. rewrite Hgp in Hnp. cbn [nrel] in Hnp.
  destruct Hnp as (y & [= <-] & Hpxd & Hpxc & Hpxm).
  assert (Hilt : i < length h). { apply (I1_valid (oh_inv _ _ Hh) p c i). unfold edge. apply al_in. exact Hci. }
  destruct (get_some h i Hilt) as (ni & Hgi).
  pose proof (or_node _ _ _ Hr i) as Hni. rewrite Hoi in Hni. fold h in Hni. rewrite Hgi in Hni.
  set (h1 := upd h p (NDir (aremove str_eqb c chp) mp)).
  assert (Hh1 : remove_child h p c = h1) by (unfold remove_child; rewrite Hgp; reflexivity).
  assert (Hg1i : get h1 i = Some ni) by (unfold h1; rewrite get_upd; destruct (Nat.eqb_spec i p); [congruence|exact Hgi]).
  set (ni' := match ni with NDir _ m => NDir [] m | NFile d k id m => NFile d (k - 1)%Z id m | NSym _ m => NSym [] m end).
  assert (Hheap' : f_heap s' = upd h1 i ni').
  { rewrite Esh. fold h. rewrite Hh1. unfold delete_node. rewrite Hg1i. unfold ni'. destruct ni; reflexivity. }
  assert (Hni'ch : node_children ni' = []) by (unfold ni'; destruct ni; reflexivity).
  assert (Hrootv : v_root (sv_view sv) < length h).
  { pose proof (oh_root _ _ Hh) as H. rewrite node_is_dir_get in H. fold h in H. destruct (get h (v_root (sv_view sv))) eqn:E; [|discriminate]. eapply get_lt; eauto. }
  assert (Hch : forall d c1, d < length h ->
            alookup str_eqb c1 (children (f_heap s') d) = if Nat.eqb d p && str_eqb c1 c then None else alookup str_eqb c1 (children h d)).
  { intros d c1 Hd. rewrite Hheap', children_upd. unfold h1 at 1. rewrite upd_length.
    destruct (Nat.eqb_spec d i) as [->|Hdi].
    - destruct (Nat.ltb_spec i (length h)); [|lia]. rewrite Hni'ch. destruct (Nat.eqb_spec i p); [congruence|]. cbn [andb alookup].
      rewrite Hleaf. reflexivity.
    - unfold h1. rewrite children_upd. destruct (Nat.eqb_spec d p) as [->|Hdp]; cbn [andb]; [|reflexivity].
      destruct (Nat.ltb_spec p (length h)); [|lia]. cbn [node_children]. rewrite (children_get h p), Hgp. cbn [node_children].
      destruct (str_eqb_spec c1 c) as [->|Hc1]; [apply al_aremove_eq|apply al_aremove_neq; exact Hc1]. }
  constructor.
  - rewrite Eos. apply (or_os _ _ _ Hr).
  - rewrite Eus. apply (or_user _ _ _ Hr).
  - rewrite Eum. apply (or_umask _ _ _ Hr).
  - rewrite Eidx. unfold ikey. rewrite al_aremove_neq; [apply (or_slash _ _ _ Hr)|].
    intros E. symmetry in E. revert E. apply rpath_not_slash. apply gcs_ok. exact Hg.
  - intros cs' Hcs'. rewrite Eidx.
    rewrite (twalk_edit h (f_heap s') (v_root (sv_view sv)) p ps c None (oh_inv _ _ Hh) Hrootv Hw Hpd Hch (fun _ _ (E : None = Some _) => match E with end) cs' [] _ eq_refl)
      by (apply strip_none; intros t E; destruct ps; discriminate).
    cbn [app]. destruct (strip (ps ++ [c]) cs') as [[|y l]|] eqn:Es.
    + apply strip_some in Es. rewrite app_nil_r in Es. subst cs'. unfold ikey. apply al_aremove_eq.
    + apply strip_some in Es. subst cs'. unfold ikey. rewrite al_aremove_neq.
      * fold (ikey (o_index o) (rpath ((ps ++ [c]) ++ y :: l))). rewrite (or_index _ _ _ Hr _ Hcs'). fold h.
        rewrite twalk_app, twalk_snoc, Hw, Hci. cbn [twalk]. rewrite Hleaf. reflexivity.
      * intros E. apply rpath_inj in E; [|apply gcs_ok; exact Hcs'|apply gcs_ok; exact Hg].
        apply (f_equal (@length str)) in E. rewrite !app_length in E. cbn [length] in E. lia.
    + unfold ikey. rewrite al_aremove_neq.
      * apply (or_index _ _ _ Hr _ Hcs').
      * intros E. apply rpath_inj in E; [|apply gcs_ok; exact Hcs'|apply gcs_ok; exact Hg]. subst cs'.
        rewrite <- (app_nil_r (ps ++ [c])) in Es at 2. rewrite strip_app in Es. discriminate.
  - rewrite Eheap, Hheap'. unfold o_del_child, o_release. rewrite Hoi.
    rewrite (oget_oupd _ _ _ _ _ Hoi). destruct (Nat.eqb_spec i p); [congruence|]. rewrite Hop.
    rewrite !oupd_length, !upd_length. unfold h1. rewrite upd_length. exact Hlen.
  - intros j. rewrite Eheap, Hheap'. unfold o_del_child, o_release. rewrite Hoi.
    assert (Hop1 : oget (oupd (o_heap o) i (on_remove x)) p = Some px).
    { rewrite (oget_oupd _ _ _ _ _ Hoi). destruct (Nat.eqb_spec i p); [congruence|exact Hop]. }
    rewrite Hop1. rewrite (oget_oupd _ _ _ _ _ Hop1). rewrite get_upd. unfold h1 at 1. rewrite upd_length.
    destruct (Nat.eqb_spec p j) as [<-|Hpj].
    + destruct (Nat.eqb_spec p i); [congruence|]. unfold h1. rewrite get_upd, Nat.eqb_refl.
      destruct (Nat.ltb_spec p (length h)); [|lia]. cbn [nrel]. eexists. split; [reflexivity|].
      unfold on_dir. cbn [on_with_ch on_meta on_ch]. split; [exact Hpxd|]. split; [rewrite Hpxc; reflexivity|exact Hpxm].
    + rewrite (oget_oupd _ _ _ _ _ Hoi). destruct (Nat.eqb_spec j i) as [->|Hji].
      * rewrite Nat.eqb_refl. destruct (Nat.ltb_spec i (length h)); [|lia]. unfold ni'.
        destruct ni as [chi mi|d k id mi|t mi]; cbn [nrel] in Hni |- *.
        -- destruct Hni as (y & Ey & Hd & _ & Hm). inversion Ey; subst y. eexists. split; [reflexivity|].
           unfold on_dir in *. cbn [on_remove on_meta on_ch]. auto.
        -- destruct Hni as (y & Ey & Hd & Hc & Hk & Hm & Hdata). inversion Ey; subst y. eexists. split; [reflexivity|].
           unfold on_dir in Hd.
           unfold on_dir. cbn [on_remove on_meta on_ch on_nlink on_data].
           split; [exact Hd|]. split; [reflexivity|]. split; [rewrite Hk; reflexivity|]. split; [exact Hm|].
           intros Hk1. apply Hdata. apply (file_named s sv Hh p c i d k id mi Hci Hgi).
        -- exact I.
      * destruct (Nat.eqb_spec i j); [congruence|]. unfold h1. rewrite get_upd.
        destruct (Nat.eqb_spec j p); [congruence|]. apply (or_node _ _ _ Hr j).
Qed.

(* ---- Remove (a file, an empty directory; the error cases) ------------------------------------------------------- *)
Lemma may_delete_admin h u par victim isdir : us_admin u = true -> node_is_dir h par = true ->
  may_delete h par victim isdir u =
    if isdir then (if node_is_dir h victim then None else Some ENOTDIR)
    else (if node_is_dir h victim then Some EISDIR else None).
Proof.
  intros Ha Hd. unfold may_delete. rewrite (kperm_dir_admin h u Ha par 3 Hd). unfold sticky_refuses. rewrite Ha.
  cbn [negb andb]. rewrite andb_false_r. reflexivity.
Qed.

Theorem orefa_step_remove (o : ofs) (s : fsys) (sv : sview) (ps : list str) (c : str) :
  ohyps s sv -> orel o s sv -> gcs (ps ++ [c]) -> length (ps ++ [c]) < WALK_FUEL ->
  proj_res Linux (snd (o_remove o (abs_path (ps ++ [c])))) = snd (go_remove s sv (abs_path (ps ++ [c])))
  /\ orel (fst (o_remove o (abs_path (ps ++ [c])))) (fst (go_remove s sv (abs_path (ps ++ [c])))) sv.
Proof.
  intros Hh Hr Hg Hl. pose proof Hg as Hg'. apply gcs_snoc_inv in Hg'. destruct Hg' as [Hps Hc].
  pose proof (oh_admin _ _ Hh) as Hadm.
  unfold o_remove, go_remove, k_unlink, k_rmdir.
  rewrite (oabs_abs o s sv Hr _ Hg), (or_os _ _ _ Hr).
  rewrite (klookup_par s sv Hh false ps c Hg Hl), (tpar_spec (f_heap s) ps (v_root (sv_view sv)) c).
  rewrite (@abs_path_rpath (ps ++ [c])) by (destruct ps; discriminate).
  rewrite (split_abs_rpath ps c) by (apply comp_ok_nosl; apply good_comp_ok'; exact Hc).
  destruct (resolve4 o s sv Hh Hr ps c Hg) as [p px i x Ew Hp Hnp Hd El Hx Hnx|p px Ew Hp Hnp Hd El Hx|p px Ew Hp Hnp Hd Hx|Ew Hp Hx];
    rewrite Hx, Ew.
  - rewrite Hp, Hd, El. rewrite !(may_delete_admin _ _ p i _ Hadm Hd).
    assert (Hip : i <> p) by (intros ->; exact (no_self_edge _ p c (oh_inv _ _ Hh) El)).
    destruct (Nat.eqb_spec i p) as [E|_]; [congruence|].
    rewrite (nrel_dir s sv Hh x i Hnx), (nrel_ch s sv Hh x i Hnx).
    destruct (node_is_dir (f_heap s) i) eqn:Edi; cbn [andb].
    + (* a directory *)
      unfold dir_nonempty. rewrite children_get. destruct (get (f_heap s) i) as [[chi mi|? ? ? ?|? ?]|] eqn:Egi;
        try (rewrite node_is_dir_get, Egi in Edi; discriminate).
      cbn [node_children]. destruct chi as [|e chi].
      * cbn [snd fst]. split; [reflexivity|].
        eapply (orel_unlink o _ s _ sv ps c p i px x); try eassumption; try reflexivity.
        rewrite children_get, Egi. reflexivity.
      * cbn [snd fst N.eqb]. split; [reflexivity|exact Hr].
    + (* a file *)
      cbn [snd fst]. split; [reflexivity|].
      assert (Hch : children (f_heap s) i = []) by (apply children_nondir; exact Edi).
      eapply (orel_unlink o _ s _ sv ps c p i px x); try eassumption; try reflexivity.
      cbn [with_heap f_heap]. unfold release.
      assert (Hgi : get (remove_child (f_heap s) p c) i = get (f_heap s) i).
      { unfold remove_child. destruct (get (f_heap s) p) as [[chp mp|? ? ? ?|? ?]|]; try reflexivity.
        rewrite get_upd. destruct (Nat.eqb_spec i p); [congruence|reflexivity]. }
      rewrite Hgi. destruct (get (f_heap s) i) as [[? ?|? ? ? ?|t m]|] eqn:Egi; try reflexivity.
      exfalso. exact (oh_nosym _ _ Hh i t m Egi).
  - rewrite Hd, El. cbn [snd fst N.eqb]. split; [|exact Hr].
    rewrite (enf_rel o s sv Hh Hr _ ps c Hg), Ew, Hd. reflexivity.
  - rewrite Hd. cbn [snd fst N.eqb]. split; [|exact Hr].
    rewrite (enf_rel o s sv Hh Hr _ ps c Hg), Ew, Hd. reflexivity.
  - cbn [snd fst]. split; [|exact Hr].
    rewrite (enf_rel o s sv Hh Hr _ ps c Hg), Ew.
    destruct (tfail_cases s ps (v_root (sv_view sv))) as [E|E]; rewrite E; reflexivity.
Qed.

(* ---- ReadFile ------------------------------------------------------------------------------------------------------ *)
Lemma firstn_all_more (A : Type) (l : list A) n : length l <= n -> firstn n l = l.
Proof. intros H. apply firstn_all2. exact H. Qed.

Theorem orefa_step_read_file (o : ofs) (s : fsys) (sv : sview) (ps : list str) (c : str) :
  ohyps s sv -> orel o s sv -> gcs (ps ++ [c]) -> length (ps ++ [c]) < WALK_FUEL ->
  proj_res Linux (o_read_file o (abs_path (ps ++ [c]))) = go_read_file s sv (abs_path (ps ++ [c])).
Proof.
  intros Hh Hr Hg Hl. pose proof Hg as Hg'. apply gcs_snoc_inv in Hg'. destruct Hg' as [Hps Hc].
  pose proof (oh_admin _ _ Hh) as Hadm.
  unfold o_read_file, go_read_file, o_open_file, k_open.
  change (to_open_mode 0) with OpenRead. change (decode_flags 0) with (OF 0 false false false false). cbv iota beta zeta.
  change (has OpenRead OpenCreateExcl) with false. change (has OpenRead OpenCreate) with false.
  change (has OpenRead OpenWrite) with false. change (has OpenRead OpenTruncate) with false.
  change (acc_mask 0 false) with 4%N. change (negb (N.eqb (N.land 4 2) 0)) with false. cbn [negb andb orb].
  rewrite (oabs_abs o s sv Hr _ Hg), (or_os _ _ _ Hr).
  rewrite (klookup_down s sv Hh true ps c Hg Hl), (tdown_spec (f_heap s) ps (v_root (sv_view sv)) c).
  rewrite (@abs_path_rpath (ps ++ [c])) by (destruct ps; discriminate).
  rewrite (split_abs_rpath ps c) by (apply comp_ok_nosl; apply good_comp_ok'; exact Hc).
  destruct (resolve4 o s sv Hh Hr ps c Hg) as [p px i x Ew Hp Hnp Hd El Hx Hnx|p px Ew Hp Hnp Hd El Hx|p px Ew Hp Hnp Hd Hx|Ew Hp Hx];
    rewrite Hx, Ew.
  - rewrite Hd, El. pose proof Hx as Hx'. apply ofind_some in Hx'. destruct Hx' as [_ Hoi].
    destruct (get (f_heap s) i) as [[chi mi|d k id mi|t mi]|] eqn:Egi; cbn [nrel] in Hnx.
    + destruct Hnx as (y & Ey & Hxd & Hxc & Hxm). inversion Ey; subst y. rewrite Hxd.
      assert (Hdi : node_is_dir (f_heap s) i = true) by (rewrite node_is_dir_get, Egi; reflexivity).
      rewrite (kperm_dir_admin (f_heap s) _ Hadm i 4 Hdi). cbn [negb]. rewrite Egi.
      unfold of_read, o_prologue. cbn [new_handle hd_name hd_node].
      destruct (rpath (ps ++ [c])) eqn:Ek; [exfalso; revert Ek; apply rpath_snoc_not_nil|].
      rewrite Hoi, Hxd. unfold owin. rewrite (or_os _ _ _ Hr). cbn [ostype_eqb].
      assert (Hz : Z.leb (Z.of_nat (length (on_ch x)) + 512) 0 = false) by (apply Z.leb_gt; lia).
      rewrite Hz. reflexivity.
    + destruct Hnx as (y & Ey & Hxd & Hxc & Hxk & Hxm & Hdata). inversion Ey; subst y. rewrite Hxd.
      assert (Hkp : kperm (f_heap s) i 4 (v_user (sv_view sv)) = true) by (unfold kperm; rewrite Egi, Hadm; reflexivity).
      rewrite Hkp. cbn [negb andb]. rewrite Egi.
      unfold of_read, o_prologue. cbn [new_handle hd_name hd_node hd_mode hd_at o_with_heap o_with o_heap].
      destruct (rpath (ps ++ [c])) eqn:Ek; [exfalso; revert Ek; apply rpath_snoc_not_nil|].
      rewrite (oget_oupd _ _ _ _ _ Hoi), Nat.eqb_refl. unfold on_dir in *. cbn [on_with_data on_meta on_data]. rewrite Hxd.
      assert (Hz : Z.leb (Z.of_nat (length (on_data x)) + 512) 0 = false) by (apply Z.leb_gt; lia).
      rewrite Hz. change (has OpenRead OpenRead) with true. cbn [negb Z.to_nat skipn].
      rewrite firstn_all_more by lia.
      rewrite (Hdata (file_named s sv Hh p c i d k id mi El Egi)).
      destruct (Z.eqb_spec (Z.of_nat (length d)) 0) as [E|_]; [|reflexivity].
      destruct d; [reflexivity|cbn [length] in E; lia].
    + exfalso. exact (oh_nosym _ _ Hh i t mi Egi).
    + discriminate.
  - rewrite Hp, Hd, El, (nrel_dir s sv Hh px p Hnp), Hd. reflexivity.
  - rewrite Hp, Hd, (nrel_dir s sv Hh px p Hnp), Hd. reflexivity.
  - rewrite Hp, (enf_rel o s sv Hh Hr _ ps c Hg), Ew.
    destruct (tfail_cases s ps (v_root (sv_view sv))) as [E|E]; rewrite E; reflexivity.
Qed.

(* ---- ReadDir -------------------------------------------------------------------------------------------------------- *)
Lemma insert_sorted_osim (x y : finfo) : forall (l1 l2 : list finfo),
  info_osim x y -> Forall2 info_osim l1 l2 ->
  Forall2 info_osim (insert_sorted (@fi_name) x l1) (insert_sorted (@fi_name) y l2).
Proof.
  intros l1 l2 Hxy Hl. induction Hl as [|a b l1 l2 Hab Hl IH]; cbn [insert_sorted].
  - constructor; [exact Hxy|constructor].
  - destruct Hab as (Hn & Hab'). destruct Hxy as (Hxn & Hxy'). rewrite Hn, Hxn.
    destruct (str_ltb (fi_name b) (fi_name y)); constructor; try (split; assumption); auto.
    constructor; [split; assumption|exact Hl].
Qed.

Lemma sort_by_osim (l1 l2 : list finfo) : Forall2 info_osim l1 l2 ->
  Forall2 info_osim (sort_by (@fi_name) l1) (sort_by (@fi_name) l2).
Proof.
  intros H. unfold sort_by. induction H as [|a b l1 l2 Hab Hl IH]; cbn [fold_right]; [constructor|].
  apply insert_sorted_osim; assumption.
Qed.

Theorem orefa_step_read_dir (o : ofs) (s : fsys) (sv : sview) (ps : list str) (c : str) :
  ohyps s sv -> orel o s sv -> gcs (ps ++ [c]) -> length (ps ++ [c]) < WALK_FUEL ->
  osim (proj_res Linux (o_read_dir o (abs_path (ps ++ [c])))) (go_read_dir s sv (abs_path (ps ++ [c]))).
Proof.
  intros Hh Hr Hg Hl. pose proof Hg as Hg'. apply gcs_snoc_inv in Hg'. destruct Hg' as [Hps Hc].
  pose proof (oh_admin _ _ Hh) as Hadm.
  unfold o_read_dir, go_read_dir, o_open_file, k_open.
  change (to_open_mode 0) with OpenRead. change (decode_flags 0) with (OF 0 false false false false). cbv iota beta zeta.
  change (has OpenRead OpenCreateExcl) with false. change (has OpenRead OpenCreate) with false.
  change (has OpenRead OpenWrite) with false. change (has OpenRead OpenTruncate) with false.
  change (acc_mask 0 false) with 4%N. change (negb (N.eqb (N.land 4 2) 0)) with false. cbn [negb andb orb].
  rewrite (oabs_abs o s sv Hr _ Hg), (or_os _ _ _ Hr).
  rewrite (klookup_down s sv Hh true ps c Hg Hl), (tdown_spec (f_heap s) ps (v_root (sv_view sv)) c).
  rewrite (@abs_path_rpath (ps ++ [c])) by (destruct ps; discriminate).
  rewrite (split_abs_rpath ps c) by (apply comp_ok_nosl; apply good_comp_ok'; exact Hc).
  destruct (resolve4 o s sv Hh Hr ps c Hg) as [p px i x Ew Hp Hnp Hd El Hx Hnx|p px Ew Hp Hnp Hd El Hx|p px Ew Hp Hnp Hd Hx|Ew Hp Hx];
    rewrite Hx, Ew.
  - rewrite Hd, El. pose proof Hx as Hx'. apply ofind_some in Hx'. destruct Hx' as [_ Hoi].
    destruct (get (f_heap s) i) as [[chi mi|d k id mi|t mi]|] eqn:Egi; cbn [nrel] in Hnx.
    + destruct Hnx as (y & Ey & Hxd & Hxc & Hxm). inversion Ey; subst y. rewrite Hxd.
      assert (Hdi : node_is_dir (f_heap s) i = true) by (rewrite node_is_dir_get, Egi; reflexivity).
      rewrite (kperm_dir_admin (f_heap s) _ Hadm i 4 Hdi). cbn [negb]. rewrite Egi.
      unfold of_read_dir, o_dir_read, o_prologue. cbn [new_handle hd_name hd_node hd_dir_infos hd_dir_index].
      destruct (rpath (ps ++ [c])) eqn:Ek; [exfalso; revert Ek; apply rpath_snoc_not_nil|].
      rewrite Hoi, Hxd. cbn [negb]. rewrite (dir_batch_all (-1)) by reflexivity. cbn [snd proj_res].
      right. right. do 2 eexists. split; [reflexivity|]. split; [reflexivity|].
      unfold o_dir_infos. apply sort_by_osim. rewrite Hxc.
      assert (Hall : forall nm j, In (nm, j) chi -> edge (f_heap s) i nm j) by (intros; apply edge_get; eauto).
      clear Egi Hxc. induction chi as [|[nm j] chi IH]; cbn [flat_map map fst snd]; [constructor|].
      assert (Hej : edge (f_heap s) i nm j) by (apply Hall; left; reflexivity).
      assert (Hjlt : j < length (f_heap s)) by (apply (I1_valid (oh_inv _ _ Hh) i nm j Hej)).
      destruct (get_some (f_heap s) j Hjlt) as (nj & Hgj).
      pose proof (or_node _ _ _ Hr j) as Hnj. rewrite Hgj in Hnj.
      assert (Hoj : exists xj, oget (o_heap o) j = Some xj).
      { destruct nj as [? ?|? ? ? ?|t m]; cbn [nrel] in Hnj.
        - destruct Hnj as (y & Ey' & _). eauto.
        - destruct Hnj as (y & Ey' & _). eauto.
        - exfalso. exact (oh_nosym _ _ Hh j t m Hgj). }
      destruct Hoj as (xj & Hoj). rewrite Hoj. cbn [app]. constructor.
      * assert (Hl' : alookup str_eqb nm (children (f_heap s) i) = Some j).
        { apply in_al; [apply (I2_names (oh_inv _ _ Hh) i)|exact Hej]. }
        apply (fill_sim s sv Hh xj i nm j nm Hl'). rewrite Hoj in Hnj. rewrite Hgj. exact Hnj.
      * apply IH. intros nm' j' Hin. apply Hall. right. exact Hin.
    + destruct Hnx as (y & Ey & Hxd & Hxc & Hxk & Hxm & Hdata). inversion Ey; subst y. rewrite Hxd.
      assert (Hkp : kperm (f_heap s) i 4 (v_user (sv_view sv)) = true) by (unfold kperm; rewrite Egi, Hadm; reflexivity).
      rewrite Hkp. cbn [negb andb]. rewrite Egi.
      unfold of_read_dir, o_dir_read, o_prologue. cbn [new_handle hd_name hd_node o_with_heap o_with o_heap].
      destruct (rpath (ps ++ [c])) eqn:Ek; [exfalso; revert Ek; apply rpath_snoc_not_nil|].
      rewrite (oget_oupd _ _ _ _ _ Hoi), Nat.eqb_refl. unfold on_dir in *. cbn [on_with_data on_meta]. rewrite Hxd.
      left. reflexivity.
    + exfalso. exact (oh_nosym _ _ Hh i t mi Egi).
    + discriminate.
  - rewrite Hp, Hd, El, (nrel_dir s sv Hh px p Hnp), Hd. left. reflexivity.
  - rewrite Hp, Hd, (nrel_dir s sv Hh px p Hnp), Hd. left. reflexivity.
  - rewrite Hp, (enf_rel o s sv Hh Hr _ ps c Hg), Ew. left.
    destruct (tfail_cases s ps (v_root (sv_view sv))) as [E|E]; rewrite E; reflexivity.
Qed.

(* ---- WriteFile of a new name ------------------------------------------------------------------------------------------ *)
Lemma twalk_children_ext h h' : (forall d, children h' d = children h d) -> forall cs d, twalk h' d cs = twalk h d cs.
Proof.
  intros He cs. induction cs as [|x r IH]; intros d; cbn [twalk]; [reflexivity|]. rewrite He.
  destruct (alookup str_eqb x (children h d)); [apply IH|reflexivity].
Qed.

Lemma orel_set_data (o : ofs) (s : fsys) (sv : sview) (i : nat) (x : onode) (d d' : list N) (k : Z) (id : N) (m : meta) :
  orel o s sv -> get (f_heap s) i = Some (NFile d k id m) -> oget (o_heap o) i = Some x ->
  orel (o_with_heap o (oupd (o_heap o) i (on_with_data x d'))) (with_heap s (upd (f_heap s) i (NFile d' k id m))) sv.
Proof.
  intros Hr Hg Ho. pose proof (or_node _ _ _ Hr i) as Hn. rewrite Ho, Hg in Hn. cbn [nrel] in Hn.
  destruct Hn as (y & Ey & Hd & Hc & Hk & Hm & _). inversion Ey; subst y.
  assert (Hilt : i < length (f_heap s)) by (eapply get_lt; exact Hg).
  assert (Hch : forall e, children (upd (f_heap s) i (NFile d' k id m)) e = children (f_heap s) e).
  { intros e. rewrite children_upd. destruct (Nat.eqb_spec e i) as [->|_]; [|reflexivity].
    destruct (Nat.ltb_spec i (length (f_heap s))); [|lia]. cbn [node_children]. rewrite children_get, Hg. reflexivity. }
  constructor; cbn [o_with_heap o_with o_os o_user o_umask o_index o_heap with_heap f_heap].
  - apply (or_os _ _ _ Hr).
  - apply (or_user _ _ _ Hr).
  - apply (or_umask _ _ _ Hr).
  - apply (or_slash _ _ _ Hr).
  - intros cs Hcs. rewrite (twalk_children_ext _ _ Hch). apply (or_index _ _ _ Hr cs Hcs).
  - rewrite oupd_length, upd_length. apply (or_len _ _ _ Hr).
  - intros j. rewrite (oget_oupd _ _ _ _ _ Ho), get_upd. destruct (Nat.eqb_spec i j) as [<-|Hij].
    + rewrite Nat.eqb_refl. destruct (Nat.ltb_spec i (length (f_heap s))); [|lia]. cbn [nrel].
      eexists. split; [reflexivity|]. unfold on_dir in *. cbn [on_with_data on_meta on_ch on_nlink on_data]. auto 7.
    + destruct (Nat.eqb_spec j i); [congruence|]. apply (or_node _ _ _ Hr j).
Qed.

Lemma file_mode_not_dir perm um : has (N.lor 0 (N.ldiff (N.land perm FILE_MODE_MASK) um)) MODE_DIR = false.
Proof.
  rewrite has_mode_dir_testbit, N.lor_0_l, N.ldiff_spec, N.land_spec.
  assert (E : N.testbit FILE_MODE_MASK 31 = false) by (vm_compute; reflexivity). rewrite E, andb_false_r. reflexivity.
Qed.

Theorem orefa_step_write_file_new (o : ofs) (s : fsys) (sv : sview) (ps : list str) (c : str) (data : list N) (perm : N) :
  ohyps s sv -> orel o s sv -> gcs (ps ++ [c]) -> length (ps ++ [c]) < WALK_FUEL ->
  twalk (f_heap s) (v_root (sv_view sv)) (ps ++ [c]) = None ->
  proj_res Linux (snd (o_write_file o (abs_path (ps ++ [c])) data perm)) = snd (go_write_file s sv (abs_path (ps ++ [c])) data perm)
  /\ orel (fst (o_write_file o (abs_path (ps ++ [c])) data perm)) (fst (go_write_file s sv (abs_path (ps ++ [c])) data perm)) sv.
Proof.
  intros Hh Hr Hg Hl Hnew. pose proof Hg as Hg'. apply gcs_snoc_inv in Hg'. destruct Hg' as [Hps Hc].
  pose proof (oh_admin _ _ Hh) as Hadm.
  unfold o_write_file, go_write_file, o_open_file, k_open.
  change (to_open_mode (O_WRONLY + O_CREATE + O_TRUNC)) with 82%N.
  change (decode_flags (O_WRONLY + O_CREATE + O_TRUNC)) with (OF 1 true false true false). cbv iota beta zeta.
  change (has 82 OpenCreate) with true. change (has 82 OpenCreateExcl) with false. cbn [negb].
  rewrite (oabs_abs o s sv Hr _ Hg), (or_os _ _ _ Hr).
  rewrite (klookup_par s sv Hh false ps c Hg Hl), (tpar_spec (f_heap s) ps (v_root (sv_view sv)) c).
  rewrite (klookup_down s sv Hh true ps c Hg Hl), (tdown_spec (f_heap s) ps (v_root (sv_view sv)) c).
  rewrite (@abs_path_rpath (ps ++ [c])) by (destruct ps; discriminate).
  rewrite (split_abs_rpath ps c) by (apply comp_ok_nosl; apply good_comp_ok'; exact Hc).
  destruct (resolve4 o s sv Hh Hr ps c Hg) as [p px i x Ew Hp Hnp Hd El Hx Hnx|p px Ew Hp Hnp Hd El Hx|p px Ew Hp Hnp Hd Hx|Ew Hp Hx].
  - exfalso. rewrite twalk_snoc, Ew, El in Hnew. discriminate.
  - rewrite Hx, Ew, Hp, Hd, El, (nrel_dir s sv Hh px p Hnp), Hd. cbn [negb].
    rewrite (kperm_dir_admin (f_heap s) _ Hadm p 3 Hd). cbn [negb].
    unfold o_create_file, o_create_node, alloc_child.
    pose proof Hp as Hp'. apply ofind_some in Hp'. destruct Hp' as [Hip Hop]. rewrite Hop.
    rewrite (nrel_meta s sv Hh px p Hnp), (or_os _ _ _ Hr), (or_umask _ _ _ Hr), (or_user _ _ _ Hr). cbn [file_mode].
    rewrite file_mode_not_dir, andb_false_r.
    set (km := kmeta (f_heap s) p (sv_view sv) 0 (N.land perm FILE_MODE_MASK) false).
    set (nf := NFile [] 1 (f_last_id s + 1) km).
    set (nd_o := {| on_ch := []; on_data := []; on_nlink := 1; on_id := (o_last_id o + 1)%N;
                    on_meta := {| m_mode := N.lor 0 (N.ldiff (N.land perm FILE_MODE_MASK) (v_umask (sv_view sv)));
                                  m_uid := us_uid (v_user (sv_view sv));
                                  m_gid := if has (m_mode (meta_of (f_heap s) p)) MODE_SETGID
                                           then m_gid (meta_of (f_heap s) p) else us_gid (v_user (sv_view sv)) |} |}).
    set (o1 := {| o_index := aset str_eqb (rpath (ps ++ [c])) (length (o_heap o)) (o_index o);
                  o_heap := o_add_child (o_heap o ++ [nd_o]) p c (length (o_heap o));
                  o_last_id := (o_last_id o + 1)%N; o_cwd := o_cwd o; o_user := v_user (sv_view sv); o_umask := v_umask (sv_view sv); o_os := Linux |}).
    set (s1 := {| f_heap := add_child (f_heap s ++ [nf]) p c (length (f_heap s)); f_last_id := (f_last_id s + 1)%N; f_vols := f_vols s |}).
    assert (Hmeta : on_meta nd_o = km).
    { unfold nd_o, km, kmeta, new_owner_gid, is_setgid. cbn [on_meta andb]. reflexivity. }
    assert (Hnn : nrel (Some nd_o) (Some nf)).
    { unfold nf. cbn [nrel]. exists nd_o. split; [reflexivity|]. unfold on_dir. rewrite Hmeta.
      split; [unfold km, kmeta; cbn [m_mode andb]; apply file_mode_not_dir|]. auto 6. }
    assert (Hr1 : orel o1 s1 sv).
    { eapply (orel_create o o1 s s1 sv ps c p px nd_o nf); try eassumption; try reflexivity;
        cbn [o1 o_os o_user o_umask]; symmetry; [apply (or_os _ _ _ Hr)|apply (or_user _ _ _ Hr)|apply (or_umask _ _ _ Hr)]. }
    assert (Hplt : p < length (f_heap s)). { rewrite node_is_dir_get in Hd. destruct (get (f_heap s) p) eqn:E; [|discriminate]. eapply get_lt; eauto. }
    assert (Hg1 : get (f_heap s1) (length (f_heap s)) = Some nf).
    { unfold s1. cbn [f_heap]. unfold add_child. rewrite get_app_old by exact Hplt.
      destruct (get (f_heap s) p) as [[chp mp|? ? ? ?|? ?]|] eqn:Egp; try (rewrite node_is_dir_get, Egp in Hd; discriminate).
      rewrite get_upd. destruct (Nat.eqb_spec (length (f_heap s)) p); [lia|]. apply get_app_new. }
    assert (Ho1 : oget (o_heap o1) (length (o_heap o)) = Some nd_o).
    { unfold o1. cbn [o_heap]. unfold o_add_child. rewrite (oget_app_some _ nd_o _ _ Hop).
      rewrite oget_oupd_neq by (rewrite (or_len _ _ _ Hr); lia). apply oget_app_new. }
    fold s1. rewrite Hg1. unfold nf. cbv iota.
    unfold of_write, o_prologue. cbn [new_handle hd_name hd_node hd_mode hd_at].
    destruct (rpath (ps ++ [c])) as [|k0 kr] eqn:Ek; [exfalso; revert Ek; apply rpath_snoc_not_nil|]. rewrite <- Ek in *.
    fold o1. rewrite Ho1.
    assert (Hndd : on_dir nd_o = false) by (unfold on_dir; rewrite Hmeta; unfold km, kmeta; cbn [m_mode andb]; apply file_mode_not_dir).
    rewrite Hndd. change (has 82 OpenWrite) with true. change (has 82 OpenAppend) with false. cbn [negb orb].
    unfold drop_privs. rewrite Hadm.
    destruct data as [|b0 data'].
    + cbn [snd fst]. split; [reflexivity|].
      assert (Hsame : upd (f_heap s1) (length (f_heap s)) (NFile [] 1 (f_last_id s + 1) km) = f_heap s1).
      { clear -Hg1. unfold nf in Hg1. revert Hg1. generalize (f_heap s1) (length (f_heap s)).
        intros hh n. revert n. induction hh as [|a hh IH]; intros [|n] Hg; cbn [upd get nth_error] in *; try discriminate.
        - inversion Hg. reflexivity.
        - f_equal. apply IH. exact Hg. }
      rewrite Hsame. exact Hr1.
    + cbn [snd fst]. split; [reflexivity|].
      cbn [Z.to_nat]. unfold write_at_data. cbn [length Nat.ltb Nat.leb firstn app skipn on_data].
      rewrite (or_len _ _ _ Hr) in Ho1 |- *. change (on_data nd_o) with (@nil N). rewrite skipn_nil, app_nil_r.
      apply (orel_set_data o1 s1 sv (length (f_heap s)) nd_o [] (b0 :: data') 1 (f_last_id s + 1) km Hr1 Hg1 Ho1).
  - rewrite Hx, Ew, Hp, Hd, (nrel_dir s sv Hh px p Hnp), Hd. cbn [negb snd fst]. split; [reflexivity|exact Hr].
  - rewrite Hx, Ew, Hp. cbn [snd fst]. split; [|exact Hr].
    rewrite (enf_rel o s sv Hh Hr _ ps c Hg), Ew.
    destruct (tfail_cases s ps (v_root (sv_view sv))) as [E|E]; rewrite E; reflexivity.
Qed.
